import Proofs.Lemmas.C08FragNum
import Proofs.Lemmas.TotalParse4
/-!
# C08 fragment equivalence, part 2: the fragment, the limits, the invariants

* `fragCore`: the lexical fragment shared by both modes (no `\`, no `[`, every `(?` continues as one
  of `(?:`, `(?=`, `(?!`, `(?<=`, `(?<!` or as something that is an error for both recognizers).
* `md`, `opens`, `quants`: lexical measures bounding the crate's three resource counters.
* `PInv`: the parser-state invariant of the simulation; `EInv`: the grammar-state invariant.
* `termStep` / `quantStep`: one iteration of `consume_term`'s loop, cut out of `termLoop`.
-/
namespace Regress.C08Frag
open Regress Regress.IR Regress.Parse Regress.ESG

/-! ## The fragment -/

/-- What may follow a `(` (`nm`: named groups admitted — then anything may follow `(?<`). -/
def parenOk (nm : Bool) : List Nat → Bool
  | 0x3F :: 0x3C :: x :: _ => x == 0x3D || x == 0x21 || nm
  | 0x3F :: 0x3C :: [] => nm
  | 0x3F :: x :: _ => !(x == 0x69 || x == 0x6D || x == 0x73 || x == 0x2D)
  | _ => true

/-- What may follow a `\` (where escapes are admitted at all): anything but `p`, `P` (property
escapes) and — unless named groups are admitted — `k` (named back-references). -/
def escOk (nm : Bool) (x : Nat) : Bool := !(x == 0x70 || x == 0x50 || (x == 0x6B && !nm))

/-- Which features of the pattern language are admitted: `e` escapes, `k` character classes, `nm`
named groups. -/
structure Feat where
  e : Bool
  k : Bool
  /-- named groups `(?<name>…)` and named back-references `\k<name>` -/
  nm : Bool := false

/-- The lexical fragment, as a scanner with two modes (`true`: inside a character class).
`e`: escapes admitted; `k`: character classes admitted.  Outside a class: no named group, no
modifier group; a `\` (only if `e`) makes the next character part of the escape; a `[` (only if `k`)
opens a class.  Inside a class: a `\` makes the next character part of the escape (which must not be
`p` / `P`), the first other `]` closes the class. -/
def fragGo (F : Feat) : Bool → List Nat → Bool
  | true, [] => true
  | true, 0x5C :: x :: r => !(x == 0x70 || x == 0x50) && fragGo F true r
  | true, 0x5D :: r => fragGo F false r
  | true, _ :: r => fragGo F true r
  | false, [] => true
  | false, 0x5C :: x :: r => F.e && escOk F.nm x && fragGo F false r
  | false, 0x5B :: r => F.k && fragGo F true r
  | false, c :: r => (c != 0x5C || F.e) && (c != 0x28 || parenOk F.nm r) && fragGo F false r

def fragCore (F : Feat) (l : List Nat) : Bool := fragGo F false l

/-- Nesting depth, as a scanner: the largest excess of `(` over `)` in a prefix, counting only
parentheses that are neither escaped nor inside a class. -/
def mdGo : Bool → List Nat → Nat
  | true, [] => 0
  | true, 0x5C :: _ :: r => mdGo true r
  | true, 0x5D :: r => mdGo false r
  | true, _ :: r => mdGo true r
  | false, [] => 0
  | false, 0x5C :: _ :: r => mdGo false r
  | false, 0x5B :: r => mdGo true r
  | false, c :: r =>
    if c == 0x28 then mdGo false r + 1 else if c == 0x29 then mdGo false r - 1 else mdGo false r

def md (l : List Nat) : Nat := mdGo false l

/-- After `(?`: the group name, if a well-formed `<name>` follows (the crate's
`try_consume_named_capture_group_name`; the grammar's `GroupName` agrees, `groupName_sim`). -/
def namedAhead (r : List Nat) : Option (List Nat) :=
  match tryConsumeName r with
  | .ok (some nm, _) => some nm
  | _ => none

/-- Number of capturing groups, as a scanner: `(` not followed by `?`, neither escaped nor inside a
class, or `(?<name>` (every other `(?` opens a non-capturing group or a look-around, or is an error). -/
def capGo : Bool → List Nat → Nat
  | true, [] => 0
  | true, 0x5C :: _ :: r => capGo true r
  | true, 0x5D :: r => capGo false r
  | true, _ :: r => capGo true r
  | false, [] => 0
  | false, 0x5C :: _ :: r => capGo false r
  | false, 0x5B :: r => capGo true r
  | false, 0x28 :: 0x3F :: r => (if (namedAhead r).isSome then 1 else 0) + capGo false r
  | false, c :: r => (if c == 0x28 then 1 else 0) + capGo false r

def capOpens (l : List Nat) : Nat := capGo false l

/-- The group names of the pattern in order of appearance, as a scanner. -/
def namesGo : Bool → List Nat → List (List Nat)
  | true, [] => []
  | true, 0x5C :: _ :: r => namesGo true r
  | true, 0x5D :: r => namesGo false r
  | true, _ :: r => namesGo true r
  | false, [] => []
  | false, 0x5C :: _ :: r => namesGo false r
  | false, 0x5B :: r => namesGo true r
  | false, 0x28 :: 0x3F :: r => (namedAhead r).toList ++ namesGo false r
  | false, _ :: r => namesGo false r

def lexNames (l : List Nat) : List (List Nat) := namesGo false l

/-- Number of `(`. -/
def opens : List Nat → Nat
  | [] => 0
  | c :: r => if c == 0x28 then opens r + 1 else opens r

/-- Number of `*`, `+`, `?`, `{`. -/
def quants : List Nat → Nat
  | [] => 0
  | c :: r => if c == 0x2A || c == 0x2B || c == 0x3F || c == 0x7B then quants r + 1 else quants r

/-! ### Equations of the scanners -/

theorem mdGo_esc (m : Bool) (x : Nat) (r : List Nat) : mdGo m (0x5C :: x :: r) = mdGo m r := by
  cases m <;> rw [mdGo]

theorem mdGo_in {c : Nat} (r : List Nat) (h1 : c ≠ 0x5C) (h2 : c ≠ 0x5D) :
    mdGo true (c :: r) = mdGo true r := by
  rw [mdGo]
  · intro x r' h; exact absurd h h1
  · intro h; exact absurd h h2

theorem mdGo_close (r : List Nat) : mdGo true (0x5D :: r) = mdGo false r := by rw [mdGo]
theorem mdGo_open (r : List Nat) : mdGo false (0x5B :: r) = mdGo true r := by rw [mdGo]

theorem mdGo_out {c : Nat} (r : List Nat) (h1 : c ≠ 0x5C) (h2 : c ≠ 0x5B) :
    mdGo false (c :: r) =
      if c == 0x28 then mdGo false r + 1 else if c == 0x29 then mdGo false r - 1 else mdGo false r := by
  rw [mdGo]
  · intro x r' h; exact absurd h h1
  · intro h; exact absurd h h2

theorem capGo_esc (m : Bool) (x : Nat) (r : List Nat) : capGo m (0x5C :: x :: r) = capGo m r := by
  cases m <;> rw [capGo]

theorem capGo_in {c : Nat} (r : List Nat) (h1 : c ≠ 0x5C) (h2 : c ≠ 0x5D) :
    capGo true (c :: r) = capGo true r := by
  rw [capGo]
  · intro x r' h; exact absurd h h1
  · intro h; exact absurd h h2

theorem capGo_close (r : List Nat) : capGo true (0x5D :: r) = capGo false r := by rw [capGo]
theorem capGo_open (r : List Nat) : capGo false (0x5B :: r) = capGo true r := by rw [capGo]
theorem capGo_nil (m : Bool) : capGo m [] = 0 := by cases m <;> rw [capGo]

theorem capOpens_esc (x : Nat) (r : List Nat) : capOpens (0x5C :: x :: r) = capOpens r := capGo_esc false x r

theorem capOpens_q (r : List Nat) :
    capOpens (0x28 :: 0x3F :: r) = (if (namedAhead r).isSome then 1 else 0) + capOpens r := by
  unfold capOpens; rw [capGo]

theorem namesGo_esc (m : Bool) (x : Nat) (r : List Nat) : namesGo m (0x5C :: x :: r) = namesGo m r := by
  cases m <;> rw [namesGo]

theorem namesGo_in {c : Nat} (r : List Nat) (h1 : c ≠ 0x5C) (h2 : c ≠ 0x5D) :
    namesGo true (c :: r) = namesGo true r := by
  rw [namesGo]
  · intro x r' h; exact absurd h h1
  · intro h; exact absurd h h2

theorem namesGo_close (r : List Nat) : namesGo true (0x5D :: r) = namesGo false r := by rw [namesGo]
theorem namesGo_open (r : List Nat) : namesGo false (0x5B :: r) = namesGo true r := by rw [namesGo]
theorem namesGo_nil (m : Bool) : namesGo m [] = [] := by cases m <;> rw [namesGo]

theorem lexNames_esc (x : Nat) (r : List Nat) : lexNames (0x5C :: x :: r) = lexNames r := namesGo_esc false x r

theorem lexNames_q (r : List Nat) :
    lexNames (0x28 :: 0x3F :: r) = (namedAhead r).toList ++ lexNames r := by
  unfold lexNames; rw [namesGo]

theorem lexNames_plain {c : Nat} (r : List Nat) (h2 : c ≠ 0x5C) (h3 : c ≠ 0x5B)
    (h1 : c = 0x28 → ∀ r', r ≠ 0x3F :: r') : lexNames (c :: r) = lexNames r := by
  unfold lexNames
  rw [namesGo]
  · intro x r' h; exact absurd h h2
  · intro h; exact absurd h h3
  · intro r' h hr; exact h1 h r' hr

theorem isIdStart_eq : Parse.isIdStart 0x3D = false := by decide +kernel
theorem isIdStart_bang : Parse.isIdStart 0x21 = false := by decide +kernel

/-- No name after `(?` when what follows is `:`, `=`, `!`, `<=`, `<!` or not `<` at all. -/
theorem namedAhead_none {r : List Nat}
    (h : (∀ r', r ≠ 0x3C :: r') ∨ (∃ z r', r = 0x3C :: z :: r' ∧ (z = 0x3D ∨ z = 0x21)) ∨ r = [0x3C]) :
    namedAhead r = none := by
  unfold namedAhead
  rcases h with h | ⟨z, r', rfl, hz⟩ | rfl
  · have : tryConsumeName r = .ok (none, r) := by
      unfold tryConsumeName
      split
      · rename_i orig; exact absurd rfl (h orig)
      · rfl
    rw [this]
  · rcases hz with rfl | rfl
    · simp [tryConsumeName, Parse.nameChar, Parse.isChar, isIdStart_eq]
    · simp [tryConsumeName, Parse.nameChar, Parse.isChar, isIdStart_bang]
  · simp [tryConsumeName, Parse.nameChar]

theorem capOpens_cap {r : List Nat} (hr : ∀ r', r ≠ 0x3F :: r') : capOpens (0x28 :: r) = capOpens r + 1 := by
  unfold capOpens
  rw [capGo]
  · simp; omega
  · intro x r' h; cases h
  · intro h; cases h
  · intro r' _ h; exact hr r' h

theorem capOpens_plain {c : Nat} (r : List Nat) (h1 : c ≠ 0x28) (h2 : c ≠ 0x5C) (h3 : c ≠ 0x5B) :
    capOpens (c :: r) = capOpens r := by
  unfold capOpens
  rw [capGo]
  · simp [h1]
  · intro x r' h; exact absurd h h2
  · intro h; exact absurd h h3
  · intro r' h; exact absurd h h1

theorem fragGo_esc_out (F : Feat) (x : Nat) (r : List Nat) :
    fragGo F false (0x5C :: x :: r) = (F.e && escOk F.nm x && fragGo F false r) := by rw [fragGo]

theorem fragGo_esc_in (F : Feat) (x : Nat) (r : List Nat) :
    fragGo F true (0x5C :: x :: r) = (!(x == 0x70 || x == 0x50) && fragGo F true r) := by rw [fragGo]

theorem fragGo_in (F : Feat) {c : Nat} (r : List Nat) (h1 : c ≠ 0x5C) (h2 : c ≠ 0x5D) :
    fragGo F true (c :: r) = fragGo F true r := by
  rw [fragGo]
  · intro x r' h; exact absurd h h1
  · intro h; exact absurd h h2

theorem fragGo_close (F : Feat) (r : List Nat) : fragGo F true (0x5D :: r) = fragGo F false r := by
  rw [fragGo]

theorem fragGo_open (F : Feat) (r : List Nat) : fragGo F false (0x5B :: r) = (F.k && fragGo F true r) := by
  rw [fragGo]

theorem fragCore_esc (F : Feat) (x : Nat) (r : List Nat) :
    fragCore F (0x5C :: x :: r) = (F.e && escOk F.nm x && fragCore F r) := fragGo_esc_out F x r

theorem fragCore_cons (F : Feat) {c : Nat} (r : List Nat) (hc : c ≠ 0x5C) (hb : c ≠ 0x5B) :
    fragCore F (c :: r) = ((c != 0x28 || parenOk F.nm r) && fragCore F r) := by
  unfold fragCore
  rw [fragGo]
  · have hb : (c != 0x5C) = true := bne_iff_ne.2 hc
    rw [hb]; rfl
  · intro x r' h; exact absurd h hc
  · intro h; exact absurd h hb

theorem md_esc (x : Nat) (r : List Nat) : md (0x5C :: x :: r) = md r := mdGo_esc false x r

theorem md_cons {c : Nat} (r : List Nat) (hc : c ≠ 0x5C) (hb : c ≠ 0x5B) :
    md (c :: r) = if c == 0x28 then md r + 1 else if c == 0x29 then md r - 1 else md r :=
  mdGo_out r hc hb

theorem fragCore_tail {F : Feat} {c : Nat} {r : List Nat} (hc : c ≠ 0x5C) (hb : c ≠ 0x5B)
    (h : fragCore F (c :: r) = true) : fragCore F r = true := by
  rw [fragCore_cons F r hc hb] at h
  simp at h; exact h.2

theorem fragCore_head {F : Feat} {c : Nat} {r : List Nat} (hc : c ≠ 0x5C) (hb : c ≠ 0x5B)
    (h : fragCore F (c :: r) = true) : c = 0x28 → parenOk F.nm r = true := by
  rw [fragCore_cons F r hc hb] at h
  simp at h
  intro hc
  rcases h.1 with h' | h'
  · exact absurd hc h'
  · exact h'

theorem opens_append_le (p r : List Nat) : opens r ≤ opens (p ++ r) := by
  induction p with
  | nil => exact Nat.le_refl _
  | cons c p ih => simp only [List.cons_append, opens]; split <;> omega

theorem quants_append_le (p r : List Nat) : quants r ≤ quants (p ++ r) := by
  induction p with
  | nil => exact Nat.le_refl _
  | cons c p ih => simp only [List.cons_append, quants]; split <;> omega

/-- A prefix whose removal, in scanner mode `m`, changes neither the mode, nor the nesting depth, nor
the group count, nor membership in the fragment. -/
structure NeutralM (F : Feat) (m : Bool) (p : List Nat) : Prop where
  md : ∀ r, mdGo m (p ++ r) = mdGo m r
  cap : ∀ r, capGo m (p ++ r) = capGo m r
  names : ∀ r, namesGo m (p ++ r) = namesGo m r
  frag : ∀ r, fragGo F m (p ++ r) = true → fragGo F m r = true

/-- Neutral outside a class. -/
def Neutral (F : Feat) (p : List Nat) : Prop := NeutralM F false p

theorem neutralM_nil (F : Feat) (m : Bool) : NeutralM F m [] :=
  ⟨fun _ => rfl, fun _ => rfl, fun _ => rfl, fun _ => id⟩

theorem neutralM_append {F : Feat} {m : Bool} {p q : List Nat} (hp : NeutralM F m p) (hq : NeutralM F m q) :
    NeutralM F m (p ++ q) := by
  refine ⟨fun r => ?_, fun r => ?_, fun r => ?_, fun r h => ?_⟩
  · rw [List.append_assoc]; exact (hp.md _).trans (hq.md r)
  · rw [List.append_assoc]; exact (hp.cap _).trans (hq.cap r)
  · rw [List.append_assoc]; exact (hp.names _).trans (hq.names r)
  · rw [List.append_assoc] at h; exact hq.frag r (hp.frag _ h)

theorem Neutral.md_eq {F : Feat} {p : List Nat} (hp : Neutral F p) (r : List Nat) :
    md (p ++ r) = md r := hp.md r
theorem Neutral.cap_eq {F : Feat} {p : List Nat} (hp : Neutral F p) (r : List Nat) :
    capOpens (p ++ r) = capOpens r := hp.cap r
theorem Neutral.names_eq {F : Feat} {p : List Nat} (hp : Neutral F p) (r : List Nat) :
    lexNames (p ++ r) = lexNames r := hp.names r
theorem Neutral.frag' {F : Feat} {p : List Nat} (hp : Neutral F p) {r : List Nat}
    (h : fragCore F (p ++ r) = true) : fragCore F r = true := hp.frag r h

theorem neutral_nil (F : Feat) : Neutral F [] := neutralM_nil F false

theorem neutral_append {F : Feat} {p q : List Nat} (hp : Neutral F p) (hq : Neutral F q) :
    Neutral F (p ++ q) := neutralM_append hp hq

/-- An ordinary character in both scanner modes: no parenthesis, bracket or backslash. -/
def Plain (c : Nat) : Prop := c ≠ 0x28 ∧ c ≠ 0x29 ∧ c ≠ 0x5C ∧ c ≠ 0x5B ∧ c ≠ 0x5D

/-- Outside a class every character but `(` `)` `\` `[` is ordinary. -/
theorem neutral_out (F : Feat) {c : Nat} (h1 : c ≠ 0x28) (h2 : c ≠ 0x29) (h3 : c ≠ 0x5C) (h4 : c ≠ 0x5B) :
    Neutral F [c] := by
  refine ⟨fun r => ?_, fun r => capOpens_plain r h1 h3 h4,
    fun r => lexNames_plain r h3 h4 (fun h => absurd h h1), fun r hf => fragCore_tail h3 h4 hf⟩
  simp [mdGo_out r h3 h4, h1, h2]

/-- Inside a class every character but `\` and `]` is ordinary. -/
theorem neutralM_in (F : Feat) {c : Nat} (h1 : c ≠ 0x5C) (h2 : c ≠ 0x5D) : NeutralM F true [c] :=
  ⟨fun r => mdGo_in r h1 h2, fun r => capGo_in r h1 h2, fun r => namesGo_in r h1 h2,
    fun r hf => by rwa [List.singleton_append, fragGo_in F r h1 h2] at hf⟩

theorem neutralM_plain (F : Feat) (m : Bool) {c : Nat} (h : Plain c) : NeutralM F m [c] := by
  obtain ⟨h1, h2, h3, h4, h5⟩ := h
  cases m with
  | true => exact neutralM_in F h3 h5
  | false => exact neutral_out F h1 h2 h3 h4

theorem neutralM_esc (F : Feat) (m : Bool) (x : Nat) : NeutralM F m [0x5C, x] := by
  refine ⟨fun r => mdGo_esc m x r, fun r => capGo_esc m x r, fun r => namesGo_esc m x r, fun r hf => ?_⟩
  cases m with
  | true =>
    simp only [List.cons_append, List.nil_append, fragGo_esc_in, Bool.and_eq_true] at hf
    exact hf.2
  | false =>
    simp only [List.cons_append, List.nil_append, fragGo_esc_out, Bool.and_eq_true] at hf
    exact hf.2

theorem neutralM_plains (F : Feat) (m : Bool) {p : List Nat} (h : ∀ c ∈ p, Plain c) : NeutralM F m p := by
  induction p with
  | nil => exact neutralM_nil F m
  | cons c p ih =>
    exact neutralM_append (p := [c]) (neutralM_plain F m (h c (by simp)))
      (ih (fun x hx => h x (by simp [hx])))

theorem neutral_plain (F : Feat) {c : Nat} (h : Plain c) : Neutral F [c] := neutralM_plain F false h
theorem neutral_esc (F : Feat) (x : Nat) : Neutral F [0x5C, x] := neutralM_esc F false x
theorem neutral_plains (F : Feat) {p : List Nat} (h : ∀ c ∈ p, Plain c) : Neutral F p :=
  neutralM_plains F false h

/-- A complete class `[ body ]` is neutral outside. -/
theorem neutral_class {F : Feat} {b : List Nat} (hb : NeutralM F true b) :
    Neutral F (0x5B :: (b ++ [0x5D])) := by
  have e1 : ∀ r, 0x5B :: (b ++ [0x5D]) ++ r = 0x5B :: (b ++ 0x5D :: r) := by intro r; simp
  refine ⟨fun r => ?_, fun r => ?_, fun r => ?_, fun r hf => ?_⟩
  · rw [e1, mdGo_open, hb.md, mdGo_close]
  · rw [e1, capGo_open, hb.cap, capGo_close]
  · rw [e1, namesGo_open, hb.names, namesGo_close]
  · rw [e1, fragGo_open, Bool.and_eq_true] at hf
    have := hb.frag _ hf.2
    rwa [fragGo_close] at this

theorem quants_qdrop {r r2 : List Nat} (h : QDrop r r2) : quants r2 + 1 ≤ quants r := by
  obtain ⟨x, p, rfl, hx, _⟩ := h
  have := quants_append_le p r2
  have hq : (x == 0x2A || x == 0x2B || x == 0x3F || x == 0x7B) = true := by
    rcases hx with h | h | h | h <;> subst h <;> rfl
  simp only [quants, hq, if_true]
  omega

theorem QDrop.neutral (F : Feat) {r r2 : List Nat} (h : QDrop r r2) : ∃ p, r = p ++ r2 ∧ Neutral F p := by
  obtain ⟨x, p, rfl, hx, hp⟩ := h
  refine ⟨x :: p, rfl, neutral_plains F ?_⟩
  intro c hc
  rcases List.mem_cons.1 hc with rfl | h
  · rcases hx with h | h | h | h <;> subst h <;> (refine ⟨?_, ?_, ?_, ?_, ?_⟩ <;> decide)
  · exact ⟨(hp c h).1, (hp c h).2.1, (hp c h).2.2.1, (hp c h).2.2.2.1, (hp c h).2.2.2.2⟩

/-! ## Invariants -/

/-- The crate's limits, lexically: nesting depth at most 255 (`MAX_NESTING_DEPTH = 256` counts the
top-level disjunction), at most 65535 `(` (capture groups), at most 65535 quantifier characters
(loops). -/
def withinLimits (pat : List Nat) : Bool :=
  decide (md pat ≤ 255) && decide (opens pat ≤ 65535) && decide (quants pat ≤ 65535)

/-- The global parameters of a run: `G` the capture-group count the crate's pre-scan found
(`group_count_max`), `K` the lexical number of capturing groups of the whole pattern. -/
structure Glob where
  G : Nat
  K : Nat
  /-- the name table the crate's pre-scan built (`named_group_indices`) -/
  N : List (List Nat × List Nat) := []
  /-- the group names of the whole pattern, lexically, in order -/
  L : List (List Nat) := []

/-- Invariant of the parser state during the descent (for a state INSIDE a disjunction, i.e. after
`consume_disjunction` has incremented `depth`).  `e`: escapes admitted (then the input consists of
Unicode scalar values); `k`: classes admitted (then the flag `v` is off); `u`: the mode. -/
structure PInv (F : Feat) (u : Bool) (Γ : Glob) (st : PState) : Prop where
  uni : st.flags.unicode = u
  nov : F.k = true → st.flags.unicodeSets = false
  frag : fragCore F st.input = true
  chars : F.e = true → ∀ c ∈ st.input, Parse.isChar c = true
  depth : st.depth + md st.input ≤ 256
  groups : st.groupCount + opens st.input ≤ 65535
  loops : st.loopCount + quants st.input ≤ 65535
  /-- `G` is the capture-group count of the pre-scan (`group_count_max`) -/
  gmax : st.groupCountMax = Γ.G
  /-- `K` is the number of capturing groups of the whole pattern: those already built plus those
  still ahead -/
  cap : st.groupCount + capOpens st.input = Γ.K
  /-- the name table is the pre-scan's, and has no empty entry -/
  named : st.named = Γ.N
  nok : NamedOK Γ.N

/-- Invariant of the grammar recognizer's state on the fragment while the crate's parser is still
running: every decimal escape seen so far is within the pre-scan count `G` (as the crate reads it:
saturated to 64 bits), every named reference seen so far is in the pre-scan's name table, and the
scope (the names a new group might clash with) consists of names seen. -/
structure EInv (Γ : Glob) (est : ESG.St) : Prop where
  maxDec : min est.maxDec USIZE_MAX ≤ Γ.G
  refs : ∀ r ∈ est.refs, (mapGet Γ.N r).isSome = true
  scope : ∀ x ∈ est.scope, x ∈ est.names

/-- The grammar has seen a decimal escape beyond the pre-scan count, or a named reference that is not
in the pre-scan's table: the crate has stopped with a syntax error, the grammar will fail its final
early-error check. -/
def Poisoned (Γ : Glob) (est : ESG.St) : Prop :=
  Γ.G < min est.maxDec USIZE_MAX ∨ ∃ r ∈ est.refs, mapGet Γ.N r = none

/-- What the two states have in common: the number of groups opened so far, and the names seen so
far (followed by those still ahead: all names of the pattern). -/
structure Joint (Γ : Glob) (est : ESG.St) (st : PState) : Prop where
  groups : est.groups = st.groupCount
  names : est.names.reverse ++ lexNames st.input = Γ.L

/-- The recognizer's state only grows. -/
structure Grows (est est' : ESG.St) : Prop where
  maxDec : est.maxDec ≤ est'.maxDec
  refs : est.refs <:+ est'.refs
  names : est.names <:+ est'.names

theorem Grows.refl (est : ESG.St) : Grows est est :=
  ⟨Nat.le_refl _, List.suffix_refl _, List.suffix_refl _⟩

theorem Grows.trans {a b c : ESG.St} (h1 : Grows a b) (h2 : Grows b c) : Grows a c :=
  ⟨Nat.le_trans h1.maxDec h2.maxDec, h1.refs.trans h2.refs, h1.names.trans h2.names⟩

theorem Poisoned.mono {Γ : Glob} {est est' : ESG.St} (h : Poisoned Γ est) (hg : Grows est est') :
    Poisoned Γ est' := by
  rcases h with h | ⟨r, hr, hn⟩
  · left; have := hg.maxDec; omega
  · exact .inr ⟨r, hg.refs.subset hr, hn⟩

/-- A syntax error. -/
def IsSyn {α : Type} (r : Res α) : Prop := ∃ msg, r = .error (.syntax msg)

theorem isSyn_synErr {α : Type} (m : String) : IsSyn (synErr m : Res α) := ⟨m, rfl⟩

/-- Consuming a neutral prefix. -/
theorem PInv.drop {F : Feat} {u : Bool} {Γ : Glob} {st : PState} (h : PInv F u Γ st) {p r : List Nat}
    (hi : st.input = p ++ r) (hp : Neutral F p) : PInv F u Γ { st with input := r } := by
  have h1 := h.depth; have h2 := h.groups; have h3 := h.loops; have h4 := h.frag
  have h5 := h.chars; have h6 := h.cap
  rw [hi] at h1 h2 h3 h4 h5 h6
  rw [hp.md_eq r] at h1
  rw [hp.cap_eq r] at h6
  have := quants_append_le p r
  have := opens_append_le p r
  exact ⟨h.uni, h.nov, hp.frag' h4, fun he c hc => h5 he c (by simp [hc]), h1, by simp only; omega,
    by simp only; omega, h.gmax, h6, h.named, h.nok⟩

theorem PInv.tail {F : Feat} {u : Bool} {Γ : Glob} {st : PState} (h : PInv F u Γ st) {c : Nat} {r : List Nat}
    (hi : st.input = c :: r) (h1 : c ≠ 0x28) (h2 : c ≠ 0x29) (h3 : c ≠ 0x5C) (h4 : c ≠ 0x5B) :
    PInv F u Γ { st with input := r } :=
  h.drop (p := [c]) hi (neutral_out F h1 h2 h3 h4)

theorem Joint.drop {F : Feat} {Γ : Glob} {est : ESG.St} {st : PState} (h : Joint Γ est st) {p r : List Nat}
    (hi : st.input = p ++ r) (hp : Neutral F p) : Joint Γ est { st with input := r } := by
  have h2 := h.names
  rw [hi, hp.names_eq r] at h2
  exact ⟨h.groups, h2⟩

theorem Joint.tail {F : Feat} {Γ : Glob} {est : ESG.St} {st : PState} (h : Joint Γ est st) {c : Nat} {r : List Nat}
    (hi : st.input = c :: r) (h1 : c ≠ 0x28) (h2 : c ≠ 0x29) (h3 : c ≠ 0x5C) (h4 : c ≠ 0x5B) :
    Joint Γ est { st with input := r } :=
  h.drop (F := F) (p := [c]) hi (neutral_out F h1 h2 h3 h4)

/-! ## One iteration of the term loop -/

/-- The part of `consume_term`'s loop body after the atom: the optional quantifier. -/
def quantStep (g : Nat) (out : AtomOut) : Res (PState × List Node) :=
  match quantifier out.st.flags.unicode out.st.input with
  | .error e => .error e
  | .ok (none, rest) => .ok ({ out.st with input := rest }, out.result)
  | .ok (some quant, rest) =>
    let st : PState := { out.st with input := rest }
    if !out.quantifierAllowed then synErr "Quantifier not allowed here"
    else if (match quant.max with | some mx => decide (quant.min > mx) | none => false) then
      synErr "Invalid quantifier"
    else if out.startOffset > out.result.length then panicAt "consume_term: result.split_off(start_offset)"
    else
      if st.loopCount ≥ Gen.MAX_LOOPS then limErr "Loop count limit exceeded"
      else
        let st := { st with loopCount := st.loopCount + 1 }
        .ok (st, out.result.take out.startOffset ++
          [.loop (makeCat (out.result.drop out.startOffset)) quant g st.groupCount])

/-- One iteration of `consume_term`'s loop on the peeked character `c`. -/
def termStep (fuel : Nat) (st : PState) (acc : List Node) (c : Nat) : Res (PState × List Node) :=
  match consumeAtom fuel st acc c with
  | .error e => .error e
  | .ok out => quantStep st.groupCount out

theorem termLoop_succ (fuel : Nat) (st : PState) (acc : List Node) :
    termLoop (fuel + 1) st acc =
      match st.input with
      | [] => .ok (makeCat acc, st)
      | c :: _ =>
        if c == 0x29 || c == 0x7C then .ok (makeCat acc, st)
        else
          match termStep fuel st acc c with
          | .error e => .error e
          | .ok (st', acc') => termLoop fuel st' acc' := by
  rw [termLoop]
  unfold termStep quantStep
  cases st.input with
  | nil => rfl
  | cons c rest =>
    simp only
    by_cases hc : (c == 0x29 || c == 0x7C) = true
    · simp only [hc, if_true]
    · simp only [hc, if_false]
      cases consumeAtom fuel st acc c with
      | error e => rfl
      | ok out =>
        simp only
        cases quantifier out.st.flags.unicode out.st.input with
        | error e => rfl
        | ok p =>
          obtain ⟨q, rest'⟩ := p
          cases q with
          | none => rfl
          | some quant =>
            simp only
            by_cases h1 : (!out.quantifierAllowed) = true
            · simp only [h1, if_true]; rfl
            · simp only [h1, if_false]
              cases hm : quant.max with
              | none =>
                simp only [Bool.false_eq_true, if_false]
                repeat (first | rfl | split)
              | some mx =>
                simp only
                repeat (first | rfl | split)

end Regress.C08Frag
