import Proofs.Lemmas.C08FragNum
import Proofs.Lemmas.TotalParse4
/-!
# C08 fragment equivalence, part 2: the fragment, the limits, the invariants

* `fragCore`: the lexical fragment shared by both modes (no `\`, no `[`, every `(?` continues as one
  of `(?:`, `(?=`, `(?!`, `(?<=`, `(?<!` or as something that is an error for both recognizers).
* `md`, `opens`, `quants`: lexical measures bounding the crate's three resource counters.
* `PInv`: the parser-state invariant of the simulation; `EInv`: the grammar-state invariant.
* `termStep` / `quantStep`: one iteration of `consume_term`'s loop, cut out of `termLoop`.
-/
namespace Regress.C08Frag
open Regress Regress.IR Regress.Parse Regress.ESG

/-! ## The fragment -/

/-- What may follow a `(` (`nm`: named groups admitted — then anything may follow `(?<`). -/
def parenOk (nm md : Bool) : List Nat → Bool
  | 0x3F :: 0x3C :: x :: _ => x == 0x3D || x == 0x21 || nm
  | 0x3F :: 0x3C :: [] => nm
  | 0x3F :: x :: _ => !(x == 0x69 || x == 0x6D || x == 0x73 || x == 0x2D) || md
  | _ => true

/-- What may follow a `\` (where escapes are admitted at all): anything but `p`, `P` (property
escapes) and — unless named groups are admitted — `k` (named back-references). -/
def escOk (nm : Bool) (x : Nat) : Bool := !(x == 0x70 || x == 0x50 || (x == 0x6B && !nm))

/-- The lexical condition on what follows a legacy `\\u`. -/
def uOkL (r : List Nat) : Bool :=
  (match r with | 0x7B :: _ => false | _ => true) &&
  (match ESG.hex4 r with | some (v, 0x5C :: 0x75 :: _) => !ESG.isLead v | _ => true)

/-- What may follow a `\\` outside a class in Annex B mode (for the proof; everything else is covered):
`\\c` is followed by a letter (otherwise the crate consumes `\\c` as two atoms where the grammar
consumes `\\` only); a decimal escape `\\1`…`\\9` has a single digit (otherwise the crate may read a
longer back-reference than the grammar's octal escape); `\\u` satisfies `uOkL`. -/
def legEscOk (x : Nat) (r : List Nat) : Bool :=
  if x == 0x63 then (match r with | l :: _ => ESG.isAsciiLetter l | [] => false)
  else if 0x31 ≤ x && x ≤ 0x39 then (match r with | d :: _ => !ESG.isDigit d | [] => true)
  else if x == 0x75 then uOkL r
  else true

/-- What may follow a `\\` inside a class: under `u`, `p` / `P` only if property escapes are admitted;
in Annex B mode (`lk`) anything, but `\\u` must satisfy `uOkL` and `\\c` must be followed by a
ClassControlLetter (letter, digit, `_`; otherwise the `\\` stands for itself and `c` is the next atom,
which the two-character escape convention of the lexical scanners does not describe). -/
def inClsOk (pr lk : Bool) (x : Nat) (r : List Nat) : Bool :=
  (!(x == 0x70 || x == 0x50) || pr || lk) && (!lk || x != 0x75 || uOkL r) &&
  (!lk || x != 0x63 ||
    (match r with | l :: _ => ESG.isAsciiLetter l || ESG.isDigit l || l == 0x5F | [] => false))

/-- Which features of the pattern language are admitted: `e` escapes, `k` character classes, `nm`
named groups. -/
structure Feat where
  e : Bool
  k : Bool
  /-- named groups `(?<name>…)` and named back-references `\k<name>` -/
  nm : Bool := false
  /-- modifier groups `(?ims-ims:…)` -/
  md : Bool := false
  /-- property escapes `\\p{…}` / `\\P{…}` (UnicodeMode) -/
  pr : Bool := false
  /-- Annex B escapes outside classes (neither `u` nor `v`) -/
  le : Bool := false
  /-- Annex B character classes (neither `u` nor `v`) -/
  lk : Bool := false
  /-- class sets (flag `v`): brackets nest -/
  vk : Bool := false

/-- The lexical fragment, as a scanner whose mode is the bracket depth (`0`: outside a class).
`e`: escapes admitted; `k` / `lk` / `vk`: character classes admitted (UnicodeMode without `v`, Annex B,
class sets of the flag `v`).  Outside a class: a `\` makes the next character part of the escape; a
`[` opens a class.  Inside a class: a `\` makes the next character part of the escape, a `]` closes
one level, and — under `vk` only — a `[` opens a nested class. -/
def fragGo (F : Feat) : Nat → List Nat → Bool
  | _ + 1, [] => true
  | d + 1, 0x5C :: x :: r => (inClsOk F.pr F.lk x r && (!(F.lk && F.nm) || x != 0x6B)) && fragGo F (d + 1) r
  | d + 1, 0x5D :: r => fragGo F d r
  | d + 1, 0x5B :: r => if F.vk then fragGo F (d + 2) r else fragGo F (d + 1) r
  | d + 1, _ :: r => fragGo F (d + 1) r
  | 0, [] => true
  | 0, 0x5C :: x :: r =>
    ((F.e && (escOk F.nm x || (F.pr && (x == 0x70 || x == 0x50)))) ||
      (F.le && (legEscOk x r && (!F.nm || x != 0x6B)))) && fragGo F 0 r
  | 0, 0x5B :: r => (F.k || F.lk || F.vk) && fragGo F 1 r
  | 0, c :: r => (c != 0x5C || F.e || F.le) && (c != 0x28 || parenOk F.nm F.md r) && fragGo F 0 r

def fragCore (F : Feat) (l : List Nat) : Bool := fragGo F 0 l

/-- Nesting depth of parentheses, as a scanner: the largest excess of `(` over `)` in a prefix,
counting only parentheses that are neither escaped nor inside a class (`v`: brackets nest). -/
def mdGo (v : Bool) : Nat → List Nat → Nat
  | _ + 1, [] => 0
  | d + 1, 0x5C :: _ :: r => mdGo v (d + 1) r
  | d + 1, 0x5D :: r => mdGo v d r
  | d + 1, 0x5B :: r => if v then mdGo v (d + 2) r else mdGo v (d + 1) r
  | d + 1, _ :: r => mdGo v (d + 1) r
  | 0, [] => 0
  | 0, 0x5C :: _ :: r => mdGo v 0 r
  | 0, 0x5B :: r => mdGo v 1 r
  | 0, c :: r =>
    if c == 0x28 then mdGo v 0 r + 1 else if c == 0x29 then mdGo v 0 r - 1 else mdGo v 0 r

def md (v : Bool) (l : List Nat) : Nat := mdGo v 0 l

/-- After `(?`: the group name, if a well-formed `<name>` follows (the crate's
`try_consume_named_capture_group_name`; the grammar's `GroupName` agrees, `groupName_sim`). -/
def namedAhead (r : List Nat) : Option (List Nat) :=
  match tryConsumeName r with
  | .ok (some nm, _) => some nm
  | _ => none

/-- Number of capturing groups, as a scanner: `(` not followed by `?`, neither escaped nor inside a
class, or `(?<name>` (every other `(?` opens a non-capturing group or a look-around, or is an error). -/
def capGo (v : Bool) : Nat → List Nat → Nat
  | _ + 1, [] => 0
  | d + 1, 0x5C :: _ :: r => capGo v (d + 1) r
  | d + 1, 0x5D :: r => capGo v d r
  | d + 1, 0x5B :: r => if v then capGo v (d + 2) r else capGo v (d + 1) r
  | d + 1, _ :: r => capGo v (d + 1) r
  | 0, [] => 0
  | 0, 0x5C :: _ :: r => capGo v 0 r
  | 0, 0x5B :: r => capGo v 1 r
  | 0, 0x28 :: 0x3F :: r => (if (namedAhead r).isSome then 1 else 0) + capGo v 0 r
  | 0, c :: r => (if c == 0x28 then 1 else 0) + capGo v 0 r

def capOpens (v : Bool) (l : List Nat) : Nat := capGo v 0 l

/-- The group names of the pattern in order of appearance, as a scanner. -/
def namesGo (v : Bool) : Nat → List Nat → List (List Nat)
  | _ + 1, [] => []
  | d + 1, 0x5C :: _ :: r => namesGo v (d + 1) r
  | d + 1, 0x5D :: r => namesGo v d r
  | d + 1, 0x5B :: r => if v then namesGo v (d + 2) r else namesGo v (d + 1) r
  | d + 1, _ :: r => namesGo v (d + 1) r
  | 0, [] => []
  | 0, 0x5C :: _ :: r => namesGo v 0 r
  | 0, 0x5B :: r => namesGo v 1 r
  | 0, 0x28 :: 0x3F :: r => (namedAhead r).toList ++ namesGo v 0 r
  | 0, _ :: r => namesGo v 0 r

def lexNames (v : Bool) (l : List Nat) : List (List Nat) := namesGo v 0 l

/-- A frame of the scope scanner: the scope at the start of the enclosing disjunction, and the union
of the scopes at the ends of its alternatives so far. -/
abbrev Frame := List (List Nat) × List (List Nat)

/-- The grammar's duplicate-name rule (ES2025: a name may recur in DIFFERENT alternatives), as a
scanner: `cur` is the set of names that might participate together with what follows; a `|` restores
the scope of the start of the disjunction, a `)` continues with the union over the alternatives; a
named group whose name is in scope makes the scan fail. -/
def scopeGo (v : Bool) : Nat → List Frame → List (List Nat) → List Nat → Bool
  | _ + 1, _, _, [] => true
  | d + 1, stk, cur, 0x5C :: _ :: r => scopeGo v (d + 1) stk cur r
  | d + 1, stk, cur, 0x5D :: r => scopeGo v d stk cur r
  | d + 1, stk, cur, 0x5B :: r => if v then scopeGo v (d + 2) stk cur r else scopeGo v (d + 1) stk cur r
  | d + 1, stk, cur, _ :: r => scopeGo v (d + 1) stk cur r
  | 0, _, _, [] => true
  | 0, stk, cur, 0x5C :: _ :: r => scopeGo v 0 stk cur r
  | 0, stk, cur, 0x5B :: r => scopeGo v 1 stk cur r
  | 0, stk, cur, 0x28 :: 0x3F :: r =>
    match namedAhead r with
    | some nm => !cur.contains nm && scopeGo v 0 ((nm :: cur, []) :: stk) (nm :: cur) r
    | none => scopeGo v 0 ((cur, []) :: stk) cur r
  | 0, stk, cur, 0x28 :: r => scopeGo v 0 ((cur, []) :: stk) cur r
  | 0, stk, cur, 0x7C :: r =>
    match stk with
    | (sv, acc) :: rest => scopeGo v 0 ((sv, acc ++ cur) :: rest) sv r
    | [] => scopeGo v 0 [] cur r
  | 0, stk, cur, 0x29 :: r =>
    match stk with
    | (_, acc) :: fr :: rest => scopeGo v 0 (fr :: rest) (acc ++ cur) r
    | _ => scopeGo v 0 stk cur r
  | 0, stk, cur, _ :: r => scopeGo v 0 stk cur r

/-- No group name recurs within its scope. -/
def scopeOk (v : Bool) (pat : List Nat) : Bool := scopeGo v 0 [([], [])] [] pat

/-- Number of `(`. -/
def opens : List Nat → Nat
  | [] => 0
  | c :: r => if c == 0x28 then opens r + 1 else opens r

/-- Number of `*`, `+`, `?`, `{`. -/
def quants : List Nat → Nat
  | [] => 0
  | c :: r => if c == 0x2A || c == 0x2B || c == 0x3F || c == 0x7B then quants r + 1 else quants r

/-- Number of `[` (bounds the nesting of class sets under `v`). -/
def brk : List Nat → Nat
  | [] => 0
  | c :: r => if c == 0x5B then brk r + 1 else brk r

/-! ### Equations of the scanners -/

theorem mdGo_esc (v : Bool) (m : Nat) (x : Nat) (r : List Nat) : mdGo v m (0x5C :: x :: r) = mdGo v m r := by
  cases m <;> rw [mdGo]

theorem mdGo_in (v : Bool) (d : Nat) {c : Nat} (r : List Nat) (h1 : c ≠ 0x5C) (h2 : c ≠ 0x5D)
    (h3 : v = false ∨ c ≠ 0x5B) : mdGo v (d + 1) (c :: r) = mdGo v (d + 1) r := by
  by_cases hb : c = 0x5B
  · subst hb
    rcases h3 with h | h
    · subst h; rw [mdGo]; rfl
    · exact absurd rfl h
  · rw [mdGo]
    · intro x r' h; exact absurd h h1
    · intro h; exact absurd h h2
    · intro h; exact absurd h hb

theorem mdGo_nest (d : Nat) (r : List Nat) : mdGo true (d + 1) (0x5B :: r) = mdGo true (d + 2) r := by
  rw [mdGo]; rfl

theorem mdGo_close (v : Bool) (d : Nat) (r : List Nat) : mdGo v (d + 1) (0x5D :: r) = mdGo v d r := by
  rw [mdGo]
theorem mdGo_open (v : Bool) (r : List Nat) : mdGo v 0 (0x5B :: r) = mdGo v 1 r := by rw [mdGo]

theorem mdGo_out (v : Bool) {c : Nat} (r : List Nat) (h1 : c ≠ 0x5C) (h2 : c ≠ 0x5B) :
    mdGo v 0 (c :: r) =
      if c == 0x28 then mdGo v 0 r + 1 else if c == 0x29 then mdGo v 0 r - 1 else mdGo v 0 r := by
  rw [mdGo]
  · intro x r' h; exact absurd h h1
  · intro h; exact absurd h h2

theorem capGo_esc (v : Bool) (m : Nat) (x : Nat) (r : List Nat) : capGo v m (0x5C :: x :: r) = capGo v m r := by
  cases m <;> rw [capGo]

theorem capGo_in (v : Bool) (d : Nat) {c : Nat} (r : List Nat) (h1 : c ≠ 0x5C) (h2 : c ≠ 0x5D)
    (h3 : v = false ∨ c ≠ 0x5B) : capGo v (d + 1) (c :: r) = capGo v (d + 1) r := by
  by_cases hb : c = 0x5B
  · subst hb
    rcases h3 with h | h
    · subst h; rw [capGo]; rfl
    · exact absurd rfl h
  · rw [capGo]
    · intro x r' h; exact absurd h h1
    · intro h; exact absurd h h2
    · intro h; exact absurd h hb

theorem capGo_nest (d : Nat) (r : List Nat) : capGo true (d + 1) (0x5B :: r) = capGo true (d + 2) r := by
  rw [capGo]; rfl

theorem capGo_close (v : Bool) (d : Nat) (r : List Nat) : capGo v (d + 1) (0x5D :: r) = capGo v d r := by
  rw [capGo]
theorem capGo_open (v : Bool) (r : List Nat) : capGo v 0 (0x5B :: r) = capGo v 1 r := by rw [capGo]
theorem capGo_nil (v : Bool) (m : Nat) : capGo v m [] = 0 := by cases m <;> rw [capGo]

theorem capOpens_esc (v : Bool) (x : Nat) (r : List Nat) : capOpens v (0x5C :: x :: r) = capOpens v r :=
  capGo_esc v 0 x r

theorem capOpens_q (v : Bool) (r : List Nat) :
    capOpens v (0x28 :: 0x3F :: r) = (if (namedAhead r).isSome then 1 else 0) + capOpens v r := by
  unfold capOpens; rw [capGo]

theorem namesGo_esc (v : Bool) (m : Nat) (x : Nat) (r : List Nat) :
    namesGo v m (0x5C :: x :: r) = namesGo v m r := by
  cases m <;> rw [namesGo]

theorem namesGo_in (v : Bool) (d : Nat) {c : Nat} (r : List Nat) (h1 : c ≠ 0x5C) (h2 : c ≠ 0x5D)
    (h3 : v = false ∨ c ≠ 0x5B) : namesGo v (d + 1) (c :: r) = namesGo v (d + 1) r := by
  by_cases hb : c = 0x5B
  · subst hb
    rcases h3 with h | h
    · subst h; rw [namesGo]; rfl
    · exact absurd rfl h
  · rw [namesGo]
    · intro x r' h; exact absurd h h1
    · intro h; exact absurd h h2
    · intro h; exact absurd h hb

theorem namesGo_nest (d : Nat) (r : List Nat) : namesGo true (d + 1) (0x5B :: r) = namesGo true (d + 2) r := by
  rw [namesGo]; rfl

theorem namesGo_close (v : Bool) (d : Nat) (r : List Nat) : namesGo v (d + 1) (0x5D :: r) = namesGo v d r := by
  rw [namesGo]
theorem namesGo_open (v : Bool) (r : List Nat) : namesGo v 0 (0x5B :: r) = namesGo v 1 r := by rw [namesGo]
theorem namesGo_nil (v : Bool) (m : Nat) : namesGo v m [] = [] := by cases m <;> rw [namesGo]

theorem lexNames_esc (v : Bool) (x : Nat) (r : List Nat) : lexNames v (0x5C :: x :: r) = lexNames v r :=
  namesGo_esc v 0 x r

theorem lexNames_q (v : Bool) (r : List Nat) :
    lexNames v (0x28 :: 0x3F :: r) = (namedAhead r).toList ++ lexNames v r := by
  unfold lexNames; rw [namesGo]

theorem lexNames_plain (v : Bool) {c : Nat} (r : List Nat) (h2 : c ≠ 0x5C) (h3 : c ≠ 0x5B)
    (h1 : c = 0x28 → ∀ r', r ≠ 0x3F :: r') : lexNames v (c :: r) = lexNames v r := by
  unfold lexNames
  rw [namesGo]
  · intro x r' h; exact absurd h h2
  · intro h; exact absurd h h3
  · intro r' h hr; exact h1 h r' hr

theorem scopeGo_esc (v : Bool) (m : Nat) (stk : List Frame) (cur : List (List Nat)) (x : Nat) (r : List Nat) :
    scopeGo v m stk cur (0x5C :: x :: r) = scopeGo v m stk cur r := by
  cases m <;> rw [scopeGo]

theorem scopeGo_in (v : Bool) (d : Nat) (stk : List Frame) (cur : List (List Nat)) {c : Nat} (r : List Nat)
    (h1 : c ≠ 0x5C) (h2 : c ≠ 0x5D) (h3 : v = false ∨ c ≠ 0x5B) :
    scopeGo v (d + 1) stk cur (c :: r) = scopeGo v (d + 1) stk cur r := by
  by_cases hb : c = 0x5B
  · subst hb
    rcases h3 with h | h
    · subst h; rw [scopeGo]; rfl
    · exact absurd rfl h
  · rw [scopeGo]
    · intro x r' h; exact absurd h h1
    · intro h; exact absurd h h2
    · intro h; exact absurd h hb

theorem scopeGo_nest (d : Nat) (stk : List Frame) (cur : List (List Nat)) (r : List Nat) :
    scopeGo true (d + 1) stk cur (0x5B :: r) = scopeGo true (d + 2) stk cur r := by
  rw [scopeGo]; rfl

theorem scopeGo_close (v : Bool) (d : Nat) (stk : List Frame) (cur : List (List Nat)) (r : List Nat) :
    scopeGo v (d + 1) stk cur (0x5D :: r) = scopeGo v d stk cur r := by rw [scopeGo]

theorem scopeGo_open (v : Bool) (stk : List Frame) (cur : List (List Nat)) (r : List Nat) :
    scopeGo v 0 stk cur (0x5B :: r) = scopeGo v 1 stk cur r := by rw [scopeGo]

theorem scopeGo_plain (v : Bool) (stk : List Frame) (cur : List (List Nat)) {c : Nat} (r : List Nat)
    (h1 : c ≠ 0x28) (h2 : c ≠ 0x29) (h3 : c ≠ 0x5C) (h4 : c ≠ 0x5B) (h5 : c ≠ 0x7C) :
    scopeGo v 0 stk cur (c :: r) = scopeGo v 0 stk cur r := by
  rw [scopeGo]
  · intro x r' h; exact absurd h h3
  · intro h; exact absurd h h4
  · intro r' h; exact absurd h h1
  · intro h; exact absurd h h1
  · intro h; exact absurd h h5
  · intro h; exact absurd h h2

theorem scopeGo_q (v : Bool) (stk : List Frame) (cur : List (List Nat)) (r : List Nat) :
    scopeGo v 0 stk cur (0x28 :: 0x3F :: r) =
      match namedAhead r with
      | some nm => !cur.contains nm && scopeGo v 0 ((nm :: cur, []) :: stk) (nm :: cur) r
      | none => scopeGo v 0 ((cur, []) :: stk) cur r := by
  rw [scopeGo]

theorem scopeGo_cap (v : Bool) (stk : List Frame) (cur : List (List Nat)) {r : List Nat}
    (hr : ∀ r', r ≠ 0x3F :: r') :
    scopeGo v 0 stk cur (0x28 :: r) = scopeGo v 0 ((cur, []) :: stk) cur r := by
  rw [scopeGo]
  all_goals first
    | (intro x h; exact hr x h)
    | (intro h; cases h)
    | (intro x r' h; cases h)

theorem scopeGo_bar (v : Bool) (sv acc : List (List Nat)) (rest : List Frame) (cur : List (List Nat))
    (r : List Nat) :
    scopeGo v 0 ((sv, acc) :: rest) cur (0x7C :: r) = scopeGo v 0 ((sv, acc ++ cur) :: rest) sv r := by
  rw [scopeGo]

theorem scopeGo_rparen (v : Bool) (sv acc : List (List Nat)) {rest : List Frame} (hne : rest ≠ [])
    (cur : List (List Nat)) (r : List Nat) :
    scopeGo v 0 ((sv, acc) :: rest) cur (0x29 :: r) = scopeGo v 0 rest (acc ++ cur) r := by
  rcases rest with _ | ⟨fr, rest⟩
  · exact absurd rfl hne
  · rw [scopeGo]

theorem scopeGo_nil (v : Bool) (m : Nat) (stk : List Frame) (cur : List (List Nat)) :
    scopeGo v m stk cur [] = true := by cases m <;> rw [scopeGo]

theorem isIdStart_eq : Parse.isIdStart 0x3D = false := by decide +kernel
theorem isIdStart_bang : Parse.isIdStart 0x21 = false := by decide +kernel

/-- No name after `(?` when what follows is `:`, `=`, `!`, `<=`, `<!` or not `<` at all. -/
theorem namedAhead_none {r : List Nat}
    (h : (∀ r', r ≠ 0x3C :: r') ∨ (∃ z r', r = 0x3C :: z :: r' ∧ (z = 0x3D ∨ z = 0x21)) ∨ r = [0x3C]) :
    namedAhead r = none := by
  unfold namedAhead
  rcases h with h | ⟨z, r', rfl, hz⟩ | rfl
  · have : tryConsumeName r = .ok (none, r) := by
      unfold tryConsumeName
      split
      · rename_i orig; exact absurd rfl (h orig)
      · rfl
    rw [this]
  · rcases hz with rfl | rfl
    · simp [tryConsumeName, Parse.nameChar, Parse.isChar, isIdStart_eq]
    · simp [tryConsumeName, Parse.nameChar, Parse.isChar, isIdStart_bang]
  · simp [tryConsumeName, Parse.nameChar]

theorem capOpens_cap (v : Bool) {r : List Nat} (hr : ∀ r', r ≠ 0x3F :: r') :
    capOpens v (0x28 :: r) = capOpens v r + 1 := by
  unfold capOpens
  rw [capGo]
  · simp; omega
  · intro x r' h; cases h
  · intro h; cases h
  · intro r' _ h; exact hr r' h

theorem capOpens_plain (v : Bool) {c : Nat} (r : List Nat) (h1 : c ≠ 0x28) (h2 : c ≠ 0x5C) (h3 : c ≠ 0x5B) :
    capOpens v (c :: r) = capOpens v r := by
  unfold capOpens
  rw [capGo]
  · simp [h1]
  · intro x r' h; exact absurd h h2
  · intro h; exact absurd h h3
  · intro r' h; exact absurd h h1

theorem fragGo_esc_out (F : Feat) (x : Nat) (r : List Nat) :
    fragGo F 0 (0x5C :: x :: r) =
      (((F.e && (escOk F.nm x || (F.pr && (x == 0x70 || x == 0x50)))) ||
        (F.le && (legEscOk x r && (!F.nm || x != 0x6B)))) &&
        fragGo F 0 r) := by rw [fragGo]

theorem fragGo_esc_in (F : Feat) (d : Nat) (x : Nat) (r : List Nat) :
    fragGo F (d + 1) (0x5C :: x :: r) =
      ((inClsOk F.pr F.lk x r && (!(F.lk && F.nm) || x != 0x6B)) && fragGo F (d + 1) r) := by rw [fragGo]

theorem fragGo_in (F : Feat) (d : Nat) {c : Nat} (r : List Nat) (h1 : c ≠ 0x5C) (h2 : c ≠ 0x5D)
    (h3 : F.vk = false ∨ c ≠ 0x5B) : fragGo F (d + 1) (c :: r) = fragGo F (d + 1) r := by
  by_cases hb : c = 0x5B
  · subst hb
    rcases h3 with h | h
    · rw [fragGo, h]; rfl
    · exact absurd rfl h
  · rw [fragGo]
    · intro x r' h; exact absurd h h1
    · intro h; exact absurd h h2
    · intro h; exact absurd h hb

theorem fragGo_nest (F : Feat) (hv : F.vk = true) (d : Nat) (r : List Nat) :
    fragGo F (d + 1) (0x5B :: r) = fragGo F (d + 2) r := by
  rw [fragGo, hv]; rfl

theorem fragGo_close (F : Feat) (d : Nat) (r : List Nat) : fragGo F (d + 1) (0x5D :: r) = fragGo F d r := by
  rw [fragGo]

theorem fragGo_open (F : Feat) (r : List Nat) :
    fragGo F 0 (0x5B :: r) = ((F.k || F.lk || F.vk) && fragGo F 1 r) := by
  rw [fragGo]

theorem fragCore_esc (F : Feat) (x : Nat) (r : List Nat) :
    fragCore F (0x5C :: x :: r) =
      (((F.e && (escOk F.nm x || (F.pr && (x == 0x70 || x == 0x50)))) ||
        (F.le && (legEscOk x r && (!F.nm || x != 0x6B)))) &&
        fragCore F r) := fragGo_esc_out F x r

/-- A backslash in the fragment: UnicodeMode escapes or Annex B escapes are admitted, and what follows
satisfies the respective condition. -/
theorem fragCore_bs {F : Feat} {r0 : List Nat} (h : fragCore F (0x5C :: r0) = true) :
    (F.e = true ∧ ∀ x r, r0 = x :: r → (escOk F.nm x || (F.pr && (x == 0x70 || x == 0x50))) = true) ∨
    (F.le = true ∧ ∀ x r, r0 = x :: r → legEscOk x r = true ∧ (x = 0x6B → F.nm = false)) := by
  rcases r0 with _ | ⟨x, r⟩
  · have : (F.e || F.le) = true := by simpa [fragCore, fragGo] using h
    rw [Bool.or_eq_true] at this
    rcases this with h' | h'
    · exact .inl ⟨h', fun x r e => by cases e⟩
    · exact .inr ⟨h', fun x r e => by cases e⟩
  · rw [fragCore_esc] at h
    simp only [Bool.and_eq_true, Bool.or_eq_true] at h
    rcases h.1 with h' | h'
    · exact .inl ⟨h'.1, fun y r' e => by cases e; simpa using h'.2⟩
    · refine .inr ⟨h'.1, fun y r' e => ?_⟩
      cases e
      refine ⟨h'.2.1, fun hk => ?_⟩
      rcases h'.2.2 with h2 | h2
      · simpa using h2
      · exact absurd hk (by simpa using h2)

theorem fragCore_cons (F : Feat) {c : Nat} (r : List Nat) (hc : c ≠ 0x5C) (hb : c ≠ 0x5B) :
    fragCore F (c :: r) = ((c != 0x28 || parenOk F.nm F.md r) && fragCore F r) := by
  unfold fragCore
  rw [fragGo]
  · have hb : (c != 0x5C) = true := bne_iff_ne.2 hc
    rw [hb]; rfl
  · intro x r' h; exact absurd h hc
  · intro h; exact absurd h hb

theorem md_esc (v : Bool) (x : Nat) (r : List Nat) : md v (0x5C :: x :: r) = md v r := mdGo_esc v 0 x r

theorem md_cons (v : Bool) {c : Nat} (r : List Nat) (hc : c ≠ 0x5C) (hb : c ≠ 0x5B) :
    md v (c :: r) = if c == 0x28 then md v r + 1 else if c == 0x29 then md v r - 1 else md v r :=
  mdGo_out v r hc hb

theorem fragCore_tail {F : Feat} {c : Nat} {r : List Nat} (hc : c ≠ 0x5C) (hb : c ≠ 0x5B)
    (h : fragCore F (c :: r) = true) : fragCore F r = true := by
  rw [fragCore_cons F r hc hb] at h
  simp at h; exact h.2

theorem fragCore_head {F : Feat} {c : Nat} {r : List Nat} (hc : c ≠ 0x5C) (hb : c ≠ 0x5B)
    (h : fragCore F (c :: r) = true) : c = 0x28 → parenOk F.nm F.md r = true := by
  rw [fragCore_cons F r hc hb] at h
  simp at h
  intro hc
  rcases h.1 with h' | h'
  · exact absurd hc h'
  · exact h'

theorem opens_append_le (p r : List Nat) : opens r ≤ opens (p ++ r) := by
  induction p with
  | nil => exact Nat.le_refl _
  | cons c p ih => simp only [List.cons_append, opens]; split <;> omega

theorem quants_append_le (p r : List Nat) : quants r ≤ quants (p ++ r) := by
  induction p with
  | nil => exact Nat.le_refl _
  | cons c p ih => simp only [List.cons_append, quants]; split <;> omega

theorem brk_append_le (p r : List Nat) : brk r ≤ brk (p ++ r) := by
  induction p with
  | nil => exact Nat.le_refl _
  | cons c p ih => simp only [List.cons_append, brk]; split <;> omega

/-- A prefix whose removal, in scanner mode `m` (bracket depth), changes neither the mode, nor the
nesting depth, nor the group count, nor membership in the fragment. -/
structure NeutralM (F : Feat) (m : Nat) (p : List Nat) : Prop where
  md : ∀ r, mdGo F.vk m (p ++ r) = mdGo F.vk m r
  cap : ∀ r, capGo F.vk m (p ++ r) = capGo F.vk m r
  names : ∀ r, namesGo F.vk m (p ++ r) = namesGo F.vk m r
  frag : ∀ r, fragGo F m (p ++ r) = true → fragGo F m r = true
  scope : ∀ stk cur r, scopeGo F.vk m stk cur (p ++ r) = scopeGo F.vk m stk cur r

/-- Neutral outside a class. -/
def Neutral (F : Feat) (p : List Nat) : Prop := NeutralM F 0 p

theorem neutralM_nil (F : Feat) (m : Nat) : NeutralM F m [] :=
  ⟨fun _ => rfl, fun _ => rfl, fun _ => rfl, fun _ => id, fun _ _ _ => rfl⟩

theorem neutralM_append {F : Feat} {m : Nat} {p q : List Nat} (hp : NeutralM F m p) (hq : NeutralM F m q) :
    NeutralM F m (p ++ q) := by
  refine ⟨fun r => ?_, fun r => ?_, fun r => ?_, fun r h => ?_, fun stk cur r => ?_⟩
  · rw [List.append_assoc]; exact (hp.md _).trans (hq.md r)
  · rw [List.append_assoc]; exact (hp.cap _).trans (hq.cap r)
  · rw [List.append_assoc]; exact (hp.names _).trans (hq.names r)
  · rw [List.append_assoc] at h; exact hq.frag r (hp.frag _ h)
  · rw [List.append_assoc]; exact (hp.scope _ _ _).trans (hq.scope _ _ r)

theorem Neutral.md_eq {F : Feat} {p : List Nat} (hp : Neutral F p) (r : List Nat) :
    md F.vk (p ++ r) = md F.vk r := hp.md r
theorem Neutral.cap_eq {F : Feat} {p : List Nat} (hp : Neutral F p) (r : List Nat) :
    capOpens F.vk (p ++ r) = capOpens F.vk r := hp.cap r
theorem Neutral.names_eq {F : Feat} {p : List Nat} (hp : Neutral F p) (r : List Nat) :
    lexNames F.vk (p ++ r) = lexNames F.vk r := hp.names r
theorem Neutral.frag' {F : Feat} {p : List Nat} (hp : Neutral F p) {r : List Nat}
    (h : fragCore F (p ++ r) = true) : fragCore F r = true := hp.frag r h

theorem neutral_nil (F : Feat) : Neutral F [] := neutralM_nil F 0

theorem neutral_append {F : Feat} {p q : List Nat} (hp : Neutral F p) (hq : Neutral F q) :
    Neutral F (p ++ q) := neutralM_append hp hq

/-- An ordinary character in every scanner mode: no parenthesis, bracket or backslash. -/
def Plain (c : Nat) : Prop := c ≠ 0x28 ∧ c ≠ 0x29 ∧ c ≠ 0x5C ∧ c ≠ 0x5B ∧ c ≠ 0x5D ∧ c ≠ 0x7C

/-- Outside a class every character but `(` `)` `\` `[` is ordinary. -/
theorem neutral_out (F : Feat) {c : Nat} (h1 : c ≠ 0x28) (h2 : c ≠ 0x29) (h3 : c ≠ 0x5C) (h4 : c ≠ 0x5B)
    (h5 : c ≠ 0x7C) : Neutral F [c] := by
  refine ⟨fun r => ?_, fun r => capOpens_plain F.vk r h1 h3 h4,
    fun r => lexNames_plain F.vk r h3 h4 (fun h => absurd h h1), fun r hf => fragCore_tail h3 h4 hf,
    fun stk cur r => scopeGo_plain F.vk stk cur r h1 h2 h3 h4 h5⟩
  simp [mdGo_out F.vk r h3 h4, h1, h2]

/-- Inside a class every character but `\` and `]` — and, under `v`, `[` — is ordinary. -/
theorem neutralM_in (F : Feat) (d : Nat) {c : Nat} (h1 : c ≠ 0x5C) (h2 : c ≠ 0x5D)
    (h3 : F.vk = false ∨ c ≠ 0x5B) : NeutralM F (d + 1) [c] :=
  ⟨fun r => mdGo_in F.vk d r h1 h2 h3, fun r => capGo_in F.vk d r h1 h2 h3, fun r => namesGo_in F.vk d r h1 h2 h3,
    fun r hf => by rwa [List.singleton_append, fragGo_in F d r h1 h2 h3] at hf,
    fun stk cur r => scopeGo_in F.vk d stk cur r h1 h2 h3⟩

theorem neutralM_plain (F : Feat) (m : Nat) {c : Nat} (h : Plain c) : NeutralM F m [c] := by
  obtain ⟨h1, h2, h3, h4, h5, h6⟩ := h
  cases m with
  | succ d => exact neutralM_in F d h3 h5 (.inr h4)
  | zero => exact neutral_out F h1 h2 h3 h4 h6

theorem neutralM_esc (F : Feat) (m : Nat) (x : Nat) : NeutralM F m [0x5C, x] := by
  refine ⟨fun r => mdGo_esc F.vk m x r, fun r => capGo_esc F.vk m x r, fun r => namesGo_esc F.vk m x r,
    fun r hf => ?_, fun stk cur r => scopeGo_esc F.vk m stk cur x r⟩
  cases m with
  | succ d =>
    simp only [List.cons_append, List.nil_append, fragGo_esc_in, Bool.and_eq_true] at hf
    exact hf.2
  | zero =>
    simp only [List.cons_append, List.nil_append, fragGo_esc_out, Bool.and_eq_true] at hf
    exact hf.2

theorem neutralM_plains (F : Feat) (m : Nat) {p : List Nat} (h : ∀ c ∈ p, Plain c) : NeutralM F m p := by
  induction p with
  | nil => exact neutralM_nil F m
  | cons c p ih =>
    exact neutralM_append (p := [c]) (neutralM_plain F m (h c (by simp)))
      (ih (fun x hx => h x (by simp [hx])))

theorem neutral_plain (F : Feat) {c : Nat} (h : Plain c) : Neutral F [c] := neutralM_plain F 0 h
theorem neutral_esc (F : Feat) (x : Nat) : Neutral F [0x5C, x] := neutralM_esc F 0 x
theorem neutral_plains (F : Feat) {p : List Nat} (h : ∀ c ∈ p, Plain c) : Neutral F p :=
  neutralM_plains F 0 h

/-- A complete class `[ body ]` is neutral outside. -/
theorem neutral_class {F : Feat} {b : List Nat} (hb : NeutralM F 1 b) :
    Neutral F (0x5B :: (b ++ [0x5D])) := by
  have e1 : ∀ r, 0x5B :: (b ++ [0x5D]) ++ r = 0x5B :: (b ++ 0x5D :: r) := by intro r; simp
  refine ⟨fun r => ?_, fun r => ?_, fun r => ?_, fun r hf => ?_, fun stk cur r => ?_⟩
  · rw [e1, mdGo_open, hb.md, mdGo_close]
  · rw [e1, capGo_open, hb.cap, capGo_close]
  · rw [e1, namesGo_open, hb.names, namesGo_close]
  · rw [e1, fragGo_open, Bool.and_eq_true] at hf
    have := hb.frag _ hf.2
    rwa [fragGo_close] at this
  · rw [e1, scopeGo_open, hb.scope, scopeGo_close]

/-- A complete nested class `[ body ]` (flag `v`) is neutral inside a class. -/
theorem neutral_nested {F : Feat} (hv : F.vk = true) {d : Nat} {b : List Nat} (hb : NeutralM F (d + 2) b) :
    NeutralM F (d + 1) (0x5B :: (b ++ [0x5D])) := by
  have e1 : ∀ r, 0x5B :: (b ++ [0x5D]) ++ r = 0x5B :: (b ++ 0x5D :: r) := by intro r; simp
  refine ⟨fun r => ?_, fun r => ?_, fun r => ?_, fun r hf => ?_, fun stk cur r => ?_⟩
  · rw [e1, hv, mdGo_nest, ← hv, hb.md, mdGo_close]
  · rw [e1, hv, capGo_nest, ← hv, hb.cap, capGo_close]
  · rw [e1, hv, namesGo_nest, ← hv, hb.names, namesGo_close]
  · rw [e1, fragGo_nest F hv] at hf
    have := hb.frag _ hf
    rwa [fragGo_close] at this
  · rw [e1, hv, scopeGo_nest, ← hv, hb.scope, scopeGo_close]

/-- The depth potential: parenthesis depth ahead, plus — for class sets — the number of `[` ahead
(nested classes count towards the crate's nesting limit as well). -/
def dpot (F : Feat) (l : List Nat) : Nat := md F.vk l + (if F.vk then brk l else 0)

theorem dpot_neutral {F : Feat} {p : List Nat} (hp : Neutral F p) (r : List Nat) : dpot F r ≤ dpot F (p ++ r) := by
  unfold dpot
  rw [hp.md_eq r]
  have := brk_append_le p r
  split <;> omega

theorem dpot_open (F : Feat) (r : List Nat) : dpot F (0x28 :: r) = dpot F r + 1 := by
  unfold dpot
  rw [md_cons _ _ (by decide) (by decide)]
  simp only [brk]
  simp; omega

theorem dpot_close (F : Feat) (r : List Nat) : dpot F r ≤ dpot F (0x29 :: r) + 1 := by
  unfold dpot
  rw [md_cons _ _ (by decide) (by decide)]
  simp only [brk]
  simp; omega

theorem dpot_other (F : Feat) {c : Nat} (r : List Nat) (h1 : c ≠ 0x28) (h2 : c ≠ 0x29) (h3 : c ≠ 0x5C) (h4 : c ≠ 0x5B) :
    dpot F (c :: r) = dpot F r := by
  unfold dpot
  rw [md_cons _ _ h3 h4]
  simp [brk, h1, h2, h4]

theorem quants_qdrop {r r2 : List Nat} (h : QDrop r r2) : quants r2 + 1 ≤ quants r := by
  obtain ⟨x, p, rfl, hx, _⟩ := h
  have := quants_append_le p r2
  have hq : (x == 0x2A || x == 0x2B || x == 0x3F || x == 0x7B) = true := by
    rcases hx with h | h | h | h <;> subst h <;> rfl
  simp only [quants, hq, if_true]
  omega

theorem QDrop.neutral (F : Feat) {r r2 : List Nat} (h : QDrop r r2) : ∃ p, r = p ++ r2 ∧ Neutral F p := by
  obtain ⟨x, p, rfl, hx, hp⟩ := h
  refine ⟨x :: p, rfl, neutral_plains F ?_⟩
  intro c hc
  rcases List.mem_cons.1 hc with rfl | h
  · rcases hx with h | h | h | h <;> subst h <;> (refine ⟨?_, ?_, ?_, ?_, ?_, ?_⟩ <;> decide)
  · exact hp c h

/-! ## Invariants -/

/-- The crate's limits, lexically: nesting depth at most 255 (`MAX_NESTING_DEPTH = 256` counts the
top-level disjunction), at most 65535 `(` (capture groups), at most 65535 quantifier characters
(loops). -/
def withinLimits (pat : List Nat) : Bool :=
  decide (md false pat ≤ 255) && decide (opens pat ≤ 65535) && decide (quants pat ≤ 65535)

/-- The global parameters of a run: `G` the capture-group count the crate's pre-scan found
(`group_count_max`), `K` the lexical number of capturing groups of the whole pattern. -/
structure Glob where
  G : Nat
  K : Nat
  /-- the name table the crate's pre-scan built (`named_group_indices`) -/
  N : List (List Nat × List Nat) := []
  /-- the group names of the whole pattern, lexically, in order -/
  L : List (List Nat) := []
  /-- the flag `v` -/
  V : Bool := false
  /-- the verdict of the scope scanner on the whole pattern (`true`: no name recurs in its scope) -/
  B : Bool := true

/-- Invariant of the parser state during the descent (for a state INSIDE a disjunction, i.e. after
`consume_disjunction` has incremented `depth`).  `e`: escapes admitted (then the input consists of
Unicode scalar values); `k`: classes admitted (then the flag `v` is off); `u`: the mode. -/
structure PInv (F : Feat) (u : Bool) (Γ : Glob) (st : PState) : Prop where
  uni : st.flags.unicode = u
  nov : F.k = true → st.flags.unicodeSets = false
  frag : fragCore F st.input = true
  chars : F.e = true ∨ F.nm = true → ∀ c ∈ st.input, Parse.isChar c = true
  depth : st.depth + dpot F st.input ≤ 256
  groups : st.groupCount + opens st.input ≤ 65535
  loops : st.loopCount + quants st.input ≤ 65535
  /-- `G` is the capture-group count of the pre-scan (`group_count_max`) -/
  gmax : st.groupCountMax = Γ.G
  /-- `K` is the number of capturing groups of the whole pattern: those already built plus those
  still ahead -/
  cap : st.groupCount + capOpens F.vk st.input = Γ.K
  /-- the name table is the pre-scan's, and has no empty entry -/
  named : st.named = Γ.N
  nok : NamedOK Γ.N
  usets : st.flags.unicodeSets = Γ.V

/-- Invariant of the grammar recognizer's state on the fragment while the crate's parser is still
running: every decimal escape seen so far is within the pre-scan count `G` (as the crate reads it:
saturated to 64 bits), every named reference seen so far is in the pre-scan's name table, and the
scope (the names a new group might clash with) consists of names seen. -/
structure EInv (Γ : Glob) (est : ESG.St) : Prop where
  maxDec : min est.maxDec USIZE_MAX ≤ Γ.G
  refs : ∀ r ∈ est.refs, (mapGet Γ.N r).isSome = true
  scope : ∀ x ∈ est.scope, x ∈ est.names

/-- The grammar has seen a decimal escape beyond the pre-scan count, or a named reference that is not
in the pre-scan's table: the crate has stopped with a syntax error, the grammar will fail its final
early-error check. -/
def Poisoned (Γ : Glob) (est : ESG.St) : Prop :=
  Γ.G < min est.maxDec USIZE_MAX ∨ ∃ r ∈ est.refs, mapGet Γ.N r = none

/-- Two scopes with the same members. -/
def SEq (a b : List (List Nat)) : Prop := ∀ x, x ∈ a ↔ x ∈ b

theorem SEq.refl (a : List (List Nat)) : SEq a a := fun _ => Iff.rfl
theorem SEq.symm {a b : List (List Nat)} (h : SEq a b) : SEq b a := fun x => (h x).symm
theorem SEq.trans {a b c : List (List Nat)} (h1 : SEq a b) (h2 : SEq b c) : SEq a c :=
  fun x => (h1 x).trans (h2 x)
theorem SEq.append_left (a : List (List Nat)) {b c : List (List Nat)} (h : SEq b c) : SEq (a ++ b) (a ++ c) :=
  fun x => by simp only [List.mem_append]; rw [h x]

theorem mem_scopeUnion (a b : List (List Nat)) (x : List Nat) : x ∈ ESG.scopeUnion a b ↔ x ∈ a ∨ x ∈ b := by
  simp only [ESG.scopeUnion, List.mem_append, List.mem_filter, Bool.not_eq_true', List.contains_eq_mem,
    decide_eq_false_iff_not]
  constructor
  · rintro (h | ⟨h, _⟩)
    · exact .inr h
    · exact .inl h
  · rintro (h | h)
    · by_cases hb : x ∈ b
      · exact .inl hb
      · exact .inr ⟨h, hb⟩
    · exact .inl h

/-- What the two states have in common: the number of groups opened so far, the names seen so
far (followed by those still ahead: all names of the pattern), and the scope. -/
structure Joint (F : Feat) (Γ : Glob) (stk : List Frame) (est : ESG.St) (st : PState) : Prop where
  groups : est.groups = st.groupCount
  names : est.names.reverse ++ lexNames F.vk st.input = Γ.L
  /-- the bottom frame is that of the whole pattern -/
  ne : stk ≠ []
  /-- the scope scanner, started with the recognizer's scope on the frames `stk`, accepts the rest -/
  scope : ∃ cur, SEq cur est.scope ∧ scopeGo F.vk 0 stk cur st.input = Γ.B

/-- The same at the end of a disjunction whose frame is `(sv, acc)`: the recognizer's scope is the
union over the alternatives, the scanner still holds the last alternative's scope apart. -/
structure JointD (F : Feat) (Γ : Glob) (sv acc : List (List Nat)) (stk : List Frame) (est : ESG.St)
    (st : PState) : Prop where
  groups : est.groups = st.groupCount
  names : est.names.reverse ++ lexNames F.vk st.input = Γ.L
  scope : ∃ acc' cur, SEq (acc' ++ cur) (acc ++ est.scope) ∧
    scopeGo F.vk 0 ((sv, acc') :: stk) cur st.input = Γ.B

/-- The recognizer's state only grows. -/
structure Grows (est est' : ESG.St) : Prop where
  maxDec : est.maxDec ≤ est'.maxDec
  refs : est.refs <:+ est'.refs
  names : est.names <:+ est'.names

theorem Grows.refl (est : ESG.St) : Grows est est :=
  ⟨Nat.le_refl _, List.suffix_refl _, List.suffix_refl _⟩

theorem Grows.trans {a b c : ESG.St} (h1 : Grows a b) (h2 : Grows b c) : Grows a c :=
  ⟨Nat.le_trans h1.maxDec h2.maxDec, h1.refs.trans h2.refs, h1.names.trans h2.names⟩

theorem Poisoned.mono {Γ : Glob} {est est' : ESG.St} (h : Poisoned Γ est) (hg : Grows est est') :
    Poisoned Γ est' := by
  rcases h with h | ⟨r, hr, hn⟩
  · left; have := hg.maxDec; omega
  · exact .inr ⟨r, hg.refs.subset hr, hn⟩

/-- A syntax error. -/
def IsSyn {α : Type} (r : Res α) : Prop := ∃ msg, r = .error (.syntax msg)

theorem isSyn_synErr {α : Type} (m : String) : IsSyn (synErr m : Res α) := ⟨m, rfl⟩

/-- Consuming a neutral prefix. -/
theorem PInv.drop {F : Feat} {u : Bool} {Γ : Glob} {st : PState} (h : PInv F u Γ st) {p r : List Nat}
    (hi : st.input = p ++ r) (hp : Neutral F p) : PInv F u Γ { st with input := r } := by
  have h1 := h.depth; have h2 := h.groups; have h3 := h.loops; have h4 := h.frag
  have h5 := h.chars; have h6 := h.cap
  rw [hi] at h1 h2 h3 h4 h5 h6
  rw [hp.cap_eq r] at h6
  have := quants_append_le p r
  have := opens_append_le p r
  have := dpot_neutral hp r
  exact ⟨h.uni, h.nov, hp.frag' h4, fun he c hc => h5 he c (by simp [hc]), by simp only; omega, by simp only; omega,
    by simp only; omega, h.gmax, h6, h.named, h.nok, h.usets⟩

theorem PInv.tail {F : Feat} {u : Bool} {Γ : Glob} {st : PState} (h : PInv F u Γ st) {c : Nat} {r : List Nat}
    (hi : st.input = c :: r) (h1 : c ≠ 0x28) (h2 : c ≠ 0x29) (h3 : c ≠ 0x5C) (h4 : c ≠ 0x5B) :
    PInv F u Γ { st with input := r } := by
  have hd := h.depth; have hgp := h.groups; have hl := h.loops; have hf := h.frag
  have hc := h.chars; have hcap := h.cap
  rw [hi] at hd hgp hl hf hc hcap
  rw [dpot_other F r h1 h2 h3 h4] at hd
  rw [capOpens_plain _ r h1 h3 h4] at hcap
  have e1 := quants_append_le [c] r
  have e2 := opens_append_le [c] r
  simp only [List.singleton_append] at e1 e2
  exact ⟨h.uni, h.nov, fragCore_tail h3 h4 hf, fun he x hx => hc he x (by simp [hx]), hd, by simp only; omega,
    by simp only; omega, h.gmax, hcap, h.named, h.nok, h.usets⟩

theorem Joint.drop {F : Feat} {Γ : Glob} {stk : List Frame} {est : ESG.St} {st : PState}
    (h : Joint F Γ stk est st) {p r : List Nat}
    (hi : st.input = p ++ r) (hp : Neutral F p) : Joint F Γ stk est { st with input := r } := by
  have h2 := h.names
  rw [hi, hp.names_eq r] at h2
  obtain ⟨cur, hc, hs⟩ := h.scope
  rw [hi, hp.scope] at hs
  exact ⟨h.groups, h2, h.ne, cur, hc, hs⟩

theorem Joint.tail {F : Feat} {Γ : Glob} {stk : List Frame} {est : ESG.St} {st : PState}
    (h : Joint F Γ stk est st) {c : Nat} {r : List Nat}
    (hi : st.input = c :: r) (h1 : c ≠ 0x28) (h2 : c ≠ 0x29) (h3 : c ≠ 0x5C) (h4 : c ≠ 0x5B) (h5 : c ≠ 0x7C) :
    Joint F Γ stk est { st with input := r } :=
  h.drop (p := [c]) hi (neutral_out F h1 h2 h3 h4 h5)

/-! ## One iteration of the term loop -/

/-- The part of `consume_term`'s loop body after the atom: the optional quantifier. -/
def quantStep (g : Nat) (out : AtomOut) : Res (PState × List Node) :=
  match quantifier out.st.flags.unicode out.st.input with
  | .error e => .error e
  | .ok (none, rest) => .ok ({ out.st with input := rest }, out.result)
  | .ok (some quant, rest) =>
    let st : PState := { out.st with input := rest }
    if !out.quantifierAllowed then synErr "Quantifier not allowed here"
    else if (match quant.max with | some mx => decide (quant.min > mx) | none => false) then
      synErr "Invalid quantifier"
    else if out.startOffset > out.result.length then panicAt "consume_term: result.split_off(start_offset)"
    else
      if st.loopCount ≥ Gen.MAX_LOOPS then limErr "Loop count limit exceeded"
      else
        let st := { st with loopCount := st.loopCount + 1 }
        .ok (st, out.result.take out.startOffset ++
          [.loop (makeCat (out.result.drop out.startOffset)) quant g st.groupCount])

/-- One iteration of `consume_term`'s loop on the peeked character `c`. -/
def termStep (fuel : Nat) (st : PState) (acc : List Node) (c : Nat) : Res (PState × List Node) :=
  match consumeAtom fuel st acc c with
  | .error e => .error e
  | .ok out => quantStep st.groupCount out

theorem termLoop_succ (fuel : Nat) (st : PState) (acc : List Node) :
    termLoop (fuel + 1) st acc =
      match st.input with
      | [] => .ok (makeCat acc, st)
      | c :: _ =>
        if c == 0x29 || c == 0x7C then .ok (makeCat acc, st)
        else
          match termStep fuel st acc c with
          | .error e => .error e
          | .ok (st', acc') => termLoop fuel st' acc' := by
  rw [termLoop]
  unfold termStep quantStep
  cases st.input with
  | nil => rfl
  | cons c rest =>
    simp only
    by_cases hc : (c == 0x29 || c == 0x7C) = true
    · simp only [hc, if_true]
    · simp only [hc, if_false]
      cases consumeAtom fuel st acc c with
      | error e => rfl
      | ok out =>
        simp only
        cases quantifier out.st.flags.unicode out.st.input with
        | error e => rfl
        | ok p =>
          obtain ⟨q, rest'⟩ := p
          cases q with
          | none => rfl
          | some quant =>
            simp only
            by_cases h1 : (!out.quantifierAllowed) = true
            · simp only [h1, if_true]; rfl
            · simp only [h1, if_false]
              cases hm : quant.max with
              | none =>
                simp only [Bool.false_eq_true, if_false]
                repeat (first | rfl | split)
              | some mx =>
                simp only
                repeat (first | rfl | split)

end Regress.C08Frag
