import Proofs.Lemmas.C08FragNum
import Proofs.Lemmas.TotalParse4
/-!
# C08 fragment equivalence, part 2: the fragment, the limits, the invariants

* `fragCore`: the lexical fragment shared by both modes (no `\`, no `[`, every `(?` continues as one
  of `(?:`, `(?=`, `(?!`, `(?<=`, `(?<!` or as something that is an error for both recognizers).
* `md`, `opens`, `quants`: lexical measures bounding the crate's three resource counters.
* `PInv`: the parser-state invariant of the simulation; `EInv`: the grammar-state invariant.
* `termStep` / `quantStep`: one iteration of `consume_term`'s loop, cut out of `termLoop`.
-/
namespace Regress.C08Frag
open Regress Regress.IR Regress.Parse Regress.ESG

/-! ## The fragment -/

/-- What may follow a `(`. -/
def parenOk : List Nat → Bool
  | 0x3F :: 0x3C :: x :: _ => x == 0x3D || x == 0x21
  | 0x3F :: 0x3C :: [] => false
  | 0x3F :: x :: _ => !(x == 0x69 || x == 0x6D || x == 0x73 || x == 0x2D)
  | _ => true

/-- What may follow a `\` (where escapes are admitted at all): anything but `p`, `P` (property
escapes) and `k` (named back-references). -/
def escOk (x : Nat) : Bool := !(x == 0x70 || x == 0x50 || x == 0x6B)

/-- The lexical fragment, as a scanner with two modes (`true`: inside a character class).
`e`: escapes admitted; `k`: character classes admitted.  Outside a class: no named group, no
modifier group; a `\` (only if `e`) makes the next character part of the escape; a `[` (only if `k`)
opens a class.  Inside a class: a `\` makes the next character part of the escape (which must not be
`p` / `P`), the first other `]` closes the class. -/
def fragGo (e k : Bool) : Bool → List Nat → Bool
  | true, [] => true
  | true, 0x5C :: x :: r => !(x == 0x70 || x == 0x50) && fragGo e k true r
  | true, 0x5D :: r => fragGo e k false r
  | true, _ :: r => fragGo e k true r
  | false, [] => true
  | false, 0x5C :: x :: r => e && escOk x && fragGo e k false r
  | false, 0x5B :: r => k && fragGo e k true r
  | false, c :: r => (c != 0x5C || e) && (c != 0x28 || parenOk r) && fragGo e k false r

def fragCore (e k : Bool) (l : List Nat) : Bool := fragGo e k false l

/-- Nesting depth, as a scanner: the largest excess of `(` over `)` in a prefix, counting only
parentheses that are neither escaped nor inside a class. -/
def mdGo : Bool → List Nat → Nat
  | true, [] => 0
  | true, 0x5C :: _ :: r => mdGo true r
  | true, 0x5D :: r => mdGo false r
  | true, _ :: r => mdGo true r
  | false, [] => 0
  | false, 0x5C :: _ :: r => mdGo false r
  | false, 0x5B :: r => mdGo true r
  | false, c :: r =>
    if c == 0x28 then mdGo false r + 1 else if c == 0x29 then mdGo false r - 1 else mdGo false r

def md (l : List Nat) : Nat := mdGo false l

/-- Number of capturing groups, as a scanner: `(` not followed by `?`, neither escaped nor inside a
class (on the fragment every `(?` opens a non-capturing group or a look-around, or is an error). -/
def capGo : Bool → List Nat → Nat
  | true, [] => 0
  | true, 0x5C :: _ :: r => capGo true r
  | true, 0x5D :: r => capGo false r
  | true, _ :: r => capGo true r
  | false, [] => 0
  | false, 0x5C :: _ :: r => capGo false r
  | false, 0x5B :: r => capGo true r
  | false, 0x28 :: 0x3F :: r => capGo false r
  | false, c :: r => (if c == 0x28 then 1 else 0) + capGo false r

def capOpens (l : List Nat) : Nat := capGo false l

/-- Number of `(`. -/
def opens : List Nat → Nat
  | [] => 0
  | c :: r => if c == 0x28 then opens r + 1 else opens r

/-- Number of `*`, `+`, `?`, `{`. -/
def quants : List Nat → Nat
  | [] => 0
  | c :: r => if c == 0x2A || c == 0x2B || c == 0x3F || c == 0x7B then quants r + 1 else quants r

/-! ### Equations of the scanners -/

theorem mdGo_esc (m : Bool) (x : Nat) (r : List Nat) : mdGo m (0x5C :: x :: r) = mdGo m r := by
  cases m <;> rw [mdGo]

theorem mdGo_in {c : Nat} (r : List Nat) (h1 : c ≠ 0x5C) (h2 : c ≠ 0x5D) :
    mdGo true (c :: r) = mdGo true r := by
  rw [mdGo]
  · intro x r' h; exact absurd h h1
  · intro h; exact absurd h h2

theorem mdGo_close (r : List Nat) : mdGo true (0x5D :: r) = mdGo false r := by rw [mdGo]
theorem mdGo_open (r : List Nat) : mdGo false (0x5B :: r) = mdGo true r := by rw [mdGo]

theorem mdGo_out {c : Nat} (r : List Nat) (h1 : c ≠ 0x5C) (h2 : c ≠ 0x5B) :
    mdGo false (c :: r) =
      if c == 0x28 then mdGo false r + 1 else if c == 0x29 then mdGo false r - 1 else mdGo false r := by
  rw [mdGo]
  · intro x r' h; exact absurd h h1
  · intro h; exact absurd h h2

theorem capGo_esc (m : Bool) (x : Nat) (r : List Nat) : capGo m (0x5C :: x :: r) = capGo m r := by
  cases m <;> rw [capGo]

theorem capGo_in {c : Nat} (r : List Nat) (h1 : c ≠ 0x5C) (h2 : c ≠ 0x5D) :
    capGo true (c :: r) = capGo true r := by
  rw [capGo]
  · intro x r' h; exact absurd h h1
  · intro h; exact absurd h h2

theorem capGo_close (r : List Nat) : capGo true (0x5D :: r) = capGo false r := by rw [capGo]
theorem capGo_open (r : List Nat) : capGo false (0x5B :: r) = capGo true r := by rw [capGo]
theorem capGo_nil (m : Bool) : capGo m [] = 0 := by cases m <;> rw [capGo]

theorem capOpens_esc (x : Nat) (r : List Nat) : capOpens (0x5C :: x :: r) = capOpens r := capGo_esc false x r

theorem capOpens_q (r : List Nat) : capOpens (0x28 :: 0x3F :: r) = capOpens r := by
  unfold capOpens; rw [capGo]

theorem capOpens_cap {r : List Nat} (hr : ∀ r', r ≠ 0x3F :: r') : capOpens (0x28 :: r) = capOpens r + 1 := by
  unfold capOpens
  rw [capGo]
  · simp; omega
  · intro x r' h; cases h
  · intro h; cases h
  · intro r' _ h; exact hr r' h

theorem capOpens_plain {c : Nat} (r : List Nat) (h1 : c ≠ 0x28) (h2 : c ≠ 0x5C) (h3 : c ≠ 0x5B) :
    capOpens (c :: r) = capOpens r := by
  unfold capOpens
  rw [capGo]
  · simp [h1]
  · intro x r' h; exact absurd h h2
  · intro h; exact absurd h h3
  · intro r' h; exact absurd h h1

theorem fragGo_esc_out (e k : Bool) (x : Nat) (r : List Nat) :
    fragGo e k false (0x5C :: x :: r) = (e && escOk x && fragGo e k false r) := by rw [fragGo]

theorem fragGo_esc_in (e k : Bool) (x : Nat) (r : List Nat) :
    fragGo e k true (0x5C :: x :: r) = (!(x == 0x70 || x == 0x50) && fragGo e k true r) := by rw [fragGo]

theorem fragGo_in (e k : Bool) {c : Nat} (r : List Nat) (h1 : c ≠ 0x5C) (h2 : c ≠ 0x5D) :
    fragGo e k true (c :: r) = fragGo e k true r := by
  rw [fragGo]
  · intro x r' h; exact absurd h h1
  · intro h; exact absurd h h2

theorem fragGo_close (e k : Bool) (r : List Nat) : fragGo e k true (0x5D :: r) = fragGo e k false r := by
  rw [fragGo]

theorem fragGo_open (e k : Bool) (r : List Nat) : fragGo e k false (0x5B :: r) = (k && fragGo e k true r) := by
  rw [fragGo]

theorem fragCore_esc (e k : Bool) (x : Nat) (r : List Nat) :
    fragCore e k (0x5C :: x :: r) = (e && escOk x && fragCore e k r) := fragGo_esc_out e k x r

theorem fragCore_cons (e k : Bool) {c : Nat} (r : List Nat) (hc : c ≠ 0x5C) (hb : c ≠ 0x5B) :
    fragCore e k (c :: r) = ((c != 0x28 || parenOk r) && fragCore e k r) := by
  unfold fragCore
  rw [fragGo]
  · have hb : (c != 0x5C) = true := bne_iff_ne.2 hc
    rw [hb]; rfl
  · intro x r' h; exact absurd h hc
  · intro h; exact absurd h hb

theorem md_esc (x : Nat) (r : List Nat) : md (0x5C :: x :: r) = md r := mdGo_esc false x r

theorem md_cons {c : Nat} (r : List Nat) (hc : c ≠ 0x5C) (hb : c ≠ 0x5B) :
    md (c :: r) = if c == 0x28 then md r + 1 else if c == 0x29 then md r - 1 else md r :=
  mdGo_out r hc hb

theorem fragCore_tail {e k : Bool} {c : Nat} {r : List Nat} (hc : c ≠ 0x5C) (hb : c ≠ 0x5B)
    (h : fragCore e k (c :: r) = true) : fragCore e k r = true := by
  rw [fragCore_cons e k r hc hb] at h
  simp at h; exact h.2

theorem fragCore_head {e k : Bool} {c : Nat} {r : List Nat} (hc : c ≠ 0x5C) (hb : c ≠ 0x5B)
    (h : fragCore e k (c :: r) = true) : c = 0x28 → parenOk r = true := by
  rw [fragCore_cons e k r hc hb] at h
  simp at h
  intro hc
  rcases h.1 with h' | h'
  · exact absurd hc h'
  · exact h'

theorem opens_append_le (p r : List Nat) : opens r ≤ opens (p ++ r) := by
  induction p with
  | nil => exact Nat.le_refl _
  | cons c p ih => simp only [List.cons_append, opens]; split <;> omega

theorem quants_append_le (p r : List Nat) : quants r ≤ quants (p ++ r) := by
  induction p with
  | nil => exact Nat.le_refl _
  | cons c p ih => simp only [List.cons_append, quants]; split <;> omega

/-- A prefix whose removal, in scanner mode `m`, changes neither the mode, nor the nesting depth, nor
the group count, nor membership in the fragment. -/
def NeutralM (e k : Bool) (m : Bool) (p : List Nat) : Prop :=
  ∀ r, mdGo m (p ++ r) = mdGo m r ∧ capGo m (p ++ r) = capGo m r ∧
    (fragGo e k m (p ++ r) = true → fragGo e k m r = true)

/-- Neutral outside a class. -/
def Neutral (e k : Bool) (p : List Nat) : Prop := NeutralM e k false p

theorem neutralM_nil (e k m : Bool) : NeutralM e k m [] := fun _ => ⟨rfl, rfl, id⟩

theorem neutralM_append {e k m : Bool} {p q : List Nat} (hp : NeutralM e k m p) (hq : NeutralM e k m q) :
    NeutralM e k m (p ++ q) := by
  intro r
  rw [List.append_assoc]
  exact ⟨(hp (q ++ r)).1.trans (hq r).1, (hp (q ++ r)).2.1.trans (hq r).2.1,
    fun h => (hq r).2.2 ((hp (q ++ r)).2.2 h)⟩

theorem Neutral.md_eq {e k : Bool} {p : List Nat} (hp : Neutral e k p) (r : List Nat) :
    md (p ++ r) = md r := (hp r).1
theorem Neutral.cap_eq {e k : Bool} {p : List Nat} (hp : Neutral e k p) (r : List Nat) :
    capOpens (p ++ r) = capOpens r := (hp r).2.1
theorem Neutral.frag {e k : Bool} {p : List Nat} (hp : Neutral e k p) {r : List Nat}
    (h : fragCore e k (p ++ r) = true) : fragCore e k r = true := (hp r).2.2 h

theorem neutral_nil (e k : Bool) : Neutral e k [] := neutralM_nil e k false

theorem neutral_append {e k : Bool} {p q : List Nat} (hp : Neutral e k p) (hq : Neutral e k q) :
    Neutral e k (p ++ q) := neutralM_append hp hq

/-- An ordinary character in both scanner modes: no parenthesis, bracket or backslash. -/
def Plain (c : Nat) : Prop := c ≠ 0x28 ∧ c ≠ 0x29 ∧ c ≠ 0x5C ∧ c ≠ 0x5B ∧ c ≠ 0x5D

theorem neutralM_plain (e k m : Bool) {c : Nat} (h : Plain c) : NeutralM e k m [c] := by
  intro r
  obtain ⟨h1, h2, h3, h4, h5⟩ := h
  cases m with
  | true =>
    exact ⟨mdGo_in r h3 h5, capGo_in r h3 h5, fun hf => by rwa [List.singleton_append, fragGo_in e k r h3 h5] at hf⟩
  | false =>
    refine ⟨?_, capOpens_plain r h1 h3 h4, fun hf => fragCore_tail h3 h4 hf⟩
    simp [mdGo_out r h3 h4, h1, h2]

theorem neutralM_esc (e k m : Bool) (x : Nat) : NeutralM e k m [0x5C, x] := by
  intro r
  refine ⟨mdGo_esc m x r, capGo_esc m x r, fun hf => ?_⟩
  cases m with
  | true =>
    simp only [List.cons_append, List.nil_append, fragGo_esc_in, Bool.and_eq_true] at hf
    exact hf.2
  | false =>
    simp only [List.cons_append, List.nil_append, fragGo_esc_out, Bool.and_eq_true] at hf
    exact hf.2

theorem neutralM_plains (e k m : Bool) {p : List Nat} (h : ∀ c ∈ p, Plain c) : NeutralM e k m p := by
  induction p with
  | nil => exact neutralM_nil e k m
  | cons c p ih =>
    exact neutralM_append (p := [c]) (neutralM_plain e k m (h c (by simp)))
      (ih (fun x hx => h x (by simp [hx])))

theorem neutral_plain (e k : Bool) {c : Nat} (h : Plain c) : Neutral e k [c] := neutralM_plain e k false h
theorem neutral_esc (e k : Bool) (x : Nat) : Neutral e k [0x5C, x] := neutralM_esc e k false x
theorem neutral_plains (e k : Bool) {p : List Nat} (h : ∀ c ∈ p, Plain c) : Neutral e k p :=
  neutralM_plains e k false h

/-- Outside a class every character but `(` `)` `\` `[` is ordinary. -/
theorem neutral_out (e k : Bool) {c : Nat} (h1 : c ≠ 0x28) (h2 : c ≠ 0x29) (h3 : c ≠ 0x5C) (h4 : c ≠ 0x5B) :
    Neutral e k [c] := by
  intro r
  refine ⟨?_, capOpens_plain r h1 h3 h4, fun hf => fragCore_tail h3 h4 hf⟩
  simp [mdGo_out r h3 h4, h1, h2]

/-- Inside a class every character but `\` and `]` is ordinary. -/
theorem neutralM_in (e k : Bool) {c : Nat} (h1 : c ≠ 0x5C) (h2 : c ≠ 0x5D) : NeutralM e k true [c] := by
  intro r
  exact ⟨mdGo_in r h1 h2, capGo_in r h1 h2, fun hf => by rwa [List.singleton_append, fragGo_in e k r h1 h2] at hf⟩

/-- A complete class `[ body ]` is neutral outside. -/
theorem neutral_class {e k : Bool} {b : List Nat} (hb : NeutralM e k true b) :
    Neutral e k (0x5B :: (b ++ [0x5D])) := by
  intro r
  have e1 : 0x5B :: (b ++ [0x5D]) ++ r = 0x5B :: (b ++ 0x5D :: r) := by simp
  rw [e1]
  refine ⟨?_, ?_, fun hf => ?_⟩
  · rw [mdGo_open, (hb _).1, mdGo_close]
  · rw [capGo_open, (hb _).2.1, capGo_close]
  · rw [fragGo_open, Bool.and_eq_true] at hf
    have := (hb _).2.2 hf.2
    rwa [fragGo_close] at this

theorem quants_qdrop {r r2 : List Nat} (h : QDrop r r2) : quants r2 + 1 ≤ quants r := by
  obtain ⟨x, p, rfl, hx, _⟩ := h
  have := quants_append_le p r2
  have hq : (x == 0x2A || x == 0x2B || x == 0x3F || x == 0x7B) = true := by
    rcases hx with h | h | h | h <;> subst h <;> rfl
  simp only [quants, hq, if_true]
  omega

theorem QDrop.neutral (e k : Bool) {r r2 : List Nat} (h : QDrop r r2) : ∃ p, r = p ++ r2 ∧ Neutral e k p := by
  obtain ⟨x, p, rfl, hx, hp⟩ := h
  refine ⟨x :: p, rfl, neutral_plains e k ?_⟩
  intro c hc
  rcases List.mem_cons.1 hc with rfl | h
  · rcases hx with h | h | h | h <;> subst h <;> (refine ⟨?_, ?_, ?_, ?_, ?_⟩ <;> decide)
  · exact ⟨(hp c h).1, (hp c h).2.1, (hp c h).2.2.1, (hp c h).2.2.2.1, (hp c h).2.2.2.2⟩

/-! ## Invariants -/

/-- The crate's limits, lexically: nesting depth at most 255 (`MAX_NESTING_DEPTH = 256` counts the
top-level disjunction), at most 65535 `(` (capture groups), at most 65535 quantifier characters
(loops). -/
def withinLimits (pat : List Nat) : Bool :=
  decide (md pat ≤ 255) && decide (opens pat ≤ 65535) && decide (quants pat ≤ 65535)

/-- Invariant of the parser state during the descent (for a state INSIDE a disjunction, i.e. after
`consume_disjunction` has incremented `depth`).  `e`: escapes admitted (then the input consists of
Unicode scalar values); `k`: classes admitted (then the flag `v` is off); `u`: the mode. -/
structure PInv (e k u : Bool) (G K : Nat) (st : PState) : Prop where
  uni : st.flags.unicode = u
  nov : k = true → st.flags.unicodeSets = false
  frag : fragCore e k st.input = true
  chars : e = true → ∀ c ∈ st.input, Parse.isChar c = true
  depth : st.depth + md st.input ≤ 256
  groups : st.groupCount + opens st.input ≤ 65535
  loops : st.loopCount + quants st.input ≤ 65535
  /-- `G` is the capture-group count of the pre-scan (`group_count_max`) -/
  gmax : st.groupCountMax = G
  /-- `K` is the number of capturing groups of the whole pattern: those already built plus those
  still ahead -/
  cap : st.groupCount + capOpens st.input = K

/-- Invariant of the grammar recognizer's state on the fragment while the crate's parser is still
running: every decimal escape seen so far is within the pre-scan count `G` (as the crate reads it:
saturated to 64 bits); no named group, no named reference. -/
structure EInv (G : Nat) (est : ESG.St) : Prop where
  maxDec : min est.maxDec USIZE_MAX ≤ G
  refs : est.refs = []
  names : est.names = []

/-- The grammar has seen a decimal escape beyond the pre-scan count: the crate has stopped with a
syntax error, the grammar will fail its final early-error check. -/
def Poisoned (G : Nat) (est : ESG.St) : Prop := G < min est.maxDec USIZE_MAX

/-- A syntax error. -/
def IsSyn {α : Type} (r : Res α) : Prop := ∃ msg, r = .error (.syntax msg)

theorem isSyn_synErr {α : Type} (m : String) : IsSyn (synErr m : Res α) := ⟨m, rfl⟩

/-- Consuming a neutral prefix. -/
theorem PInv.drop {e k u : Bool} {G K : Nat} {st : PState} (h : PInv e k u G K st) {p r : List Nat}
    (hi : st.input = p ++ r) (hp : Neutral e k p) : PInv e k u G K { st with input := r } := by
  have h1 := h.depth; have h2 := h.groups; have h3 := h.loops; have h4 := h.frag
  have h5 := h.chars; have h6 := h.cap
  rw [hi] at h1 h2 h3 h4 h5 h6
  rw [hp.md_eq r] at h1
  rw [hp.cap_eq r] at h6
  have := quants_append_le p r
  have := opens_append_le p r
  exact ⟨h.uni, h.nov, hp.frag h4, fun he c hc => h5 he c (by simp [hc]), h1, by simp only; omega,
    by simp only; omega, h.gmax, h6⟩

theorem PInv.tail {e k u : Bool} {G K : Nat} {st : PState} (h : PInv e k u G K st) {c : Nat} {r : List Nat}
    (hi : st.input = c :: r) (h1 : c ≠ 0x28) (h2 : c ≠ 0x29) (h3 : c ≠ 0x5C) (h4 : c ≠ 0x5B) :
    PInv e k u G K { st with input := r } :=
  h.drop (p := [c]) hi (neutral_out e k h1 h2 h3 h4)

/-! ## One iteration of the term loop -/

/-- The part of `consume_term`'s loop body after the atom: the optional quantifier. -/
def quantStep (g : Nat) (out : AtomOut) : Res (PState × List Node) :=
  match quantifier out.st.flags.unicode out.st.input with
  | .error e => .error e
  | .ok (none, rest) => .ok ({ out.st with input := rest }, out.result)
  | .ok (some quant, rest) =>
    let st : PState := { out.st with input := rest }
    if !out.quantifierAllowed then synErr "Quantifier not allowed here"
    else if (match quant.max with | some mx => decide (quant.min > mx) | none => false) then
      synErr "Invalid quantifier"
    else if out.startOffset > out.result.length then panicAt "consume_term: result.split_off(start_offset)"
    else
      if st.loopCount ≥ Gen.MAX_LOOPS then limErr "Loop count limit exceeded"
      else
        let st := { st with loopCount := st.loopCount + 1 }
        .ok (st, out.result.take out.startOffset ++
          [.loop (makeCat (out.result.drop out.startOffset)) quant g st.groupCount])

/-- One iteration of `consume_term`'s loop on the peeked character `c`. -/
def termStep (fuel : Nat) (st : PState) (acc : List Node) (c : Nat) : Res (PState × List Node) :=
  match consumeAtom fuel st acc c with
  | .error e => .error e
  | .ok out => quantStep st.groupCount out

theorem termLoop_succ (fuel : Nat) (st : PState) (acc : List Node) :
    termLoop (fuel + 1) st acc =
      match st.input with
      | [] => .ok (makeCat acc, st)
      | c :: _ =>
        if c == 0x29 || c == 0x7C then .ok (makeCat acc, st)
        else
          match termStep fuel st acc c with
          | .error e => .error e
          | .ok (st', acc') => termLoop fuel st' acc' := by
  rw [termLoop]
  unfold termStep quantStep
  cases st.input with
  | nil => rfl
  | cons c rest =>
    simp only
    by_cases hc : (c == 0x29 || c == 0x7C) = true
    · simp only [hc, if_true]
    · simp only [hc, if_false]
      cases consumeAtom fuel st acc c with
      | error e => rfl
      | ok out =>
        simp only
        cases quantifier out.st.flags.unicode out.st.input with
        | error e => rfl
        | ok p =>
          obtain ⟨q, rest'⟩ := p
          cases q with
          | none => rfl
          | some quant =>
            simp only
            by_cases h1 : (!out.quantifierAllowed) = true
            · simp only [h1, if_true]; rfl
            · simp only [h1, if_false]
              cases hm : quant.max with
              | none =>
                simp only [Bool.false_eq_true, if_false]
                repeat (first | rfl | split)
              | some mx =>
                simp only
                repeat (first | rfl | split)

end Regress.C08Frag
