import Proofs.Lemmas.C08FragEsc
/-!
# C08 fragment equivalence: character classes, UnicodeMode without `v`

The crate's `consume_bracket` (`bracketLoop`, `bracketClassAtom`) against the grammar's
`classLoop` / `classAtom`, for classes without `\p` / `\P`.
-/
namespace Regress.C08Frag
open Regress Regress.IR Regress.Parse Regress.ESG

/-- What the crate's class atom must be, given the grammar's: a code point with the same value, or a
class escape or property escape (anything but a code point). -/
def AtomRel (a : Option Nat) (a' : ClassAtom) : Prop :=
  match a with
  | some v => a' = .codePoint v
  | none => ∀ v, a' ≠ .codePoint v

theorem classAtom_plain (c : Cfg) {x : Nat} (r : List Nat) (hx : x ≠ 0x5C) :
    classAtom c (x :: r) = .ok (some x, r) := by
  unfold classAtom
  split
  · rename_i h; cases h
  · rename_i h; cases h; exact absurd rfl hx
  · rename_i h; cases h; exact absurd rfl hx
  · rename_i h; cases h; rfl

theorem bracketClassAtom_plain (fl : Flags) (hn : Bool) {x : Nat} (r : List Nat) (h1 : x ≠ 0x5C) (h2 : x ≠ 0x5D) :
    bracketClassAtom fl hn (x :: r) = .ok (some (.codePoint x), r) := by
  unfold bracketClassAtom
  simp [h1, h2]

/-- One class atom (the input does not start with `]`, a leading escape is not `\p` / `\P`). -/
theorem classAtom_sim (c : Cfg) (hcu : c.u = true) (fl : Flags) (hu : fl.unicode = true) (hn : Bool)
    {x : Nat} {r : List Nat} (hx : x ≠ 0x5D) (hch : AllChar (x :: r))
    (hp : ∀ y r', x = 0x5C → r = y :: r' → (y = 0x70 ∨ y = 0x50) →
      c.t = tabs ∧ c.v = false ∧ fl.unicodeSets = false) :
    match classAtom c (x :: r) with
    | .ok (a, r') => ∃ a', bracketClassAtom fl hn (x :: r) = .ok (some a', r') ∧ AtomRel a a'
    | .bad => IsSyn (bracketClassAtom fl hn (x :: r))
    | .fuel => False := by
  by_cases hbs : x = 0x5C
  · subst hbs
    rcases r with _ | ⟨y, r'⟩
    · have : classAtom c [0x5C] = .bad := by unfold classAtom; rfl
      rw [this]
      unfold bracketClassAtom
      exact isSyn_synErr _
    · by_cases hpP : y = 0x70 ∨ y = 0x50
      · -- a property escape
        obtain ⟨hct, hcv, hnv⟩ := hp y r' rfl rfl hpP
        have e1 : classAtom c (0x5C :: y :: r') =
            match propEscape c (y == 0x50) r' with
            | .ok (r'', _) => .ok (none, r'')
            | .bad => .bad
            | .fuel => .fuel := by
          unfold classAtom
          rcases hpP with rfl | rfl <;> simp [hcu, ESG.isClassEscLetter] <;> rfl
        have e2 : bracketClassAtom fl hn (0x5C :: y :: r') =
            match propertyEscape fl.unicodeSets r' with
            | .error e => .error e
            | .ok (.charClass s, rest2) => .ok (some (.range s (y == 0x50)), rest2)
            | .ok (.stringSet _, _) => synErr "Invalid property escape" := by
          unfold bracketClassAtom
          rcases hpP with rfl | rfl <;> simp [hu] <;> rfl
        rw [e1, e2, hnv]
        have hs := prop_sim c hct (y == 0x50) r'
        rw [hcv] at hs
        cases hpe : propEscape c (y == 0x50) r' with
        | fuel => rw [hpe] at hs; exact hs
        | bad =>
          rw [hpe] at hs
          simp only
          rcases hs with ⟨msg, hm⟩ | ⟨_, hh, _⟩
          · rw [hm]; exact ⟨msg, rfl⟩
          · cases hh
        | ok p =>
          obtain ⟨r'', ms⟩ := p
          rw [hpe] at hs
          obtain ⟨_, hs⟩ := hs
          simp only
          cases ms with
          | true =>
            simp only [if_true] at hs
            exact absurd hs.2.1 (by decide)
          | false =>
            simp only [Bool.false_eq_true, if_false] at hs
            obtain ⟨ivs, hm⟩ := hs
            rw [hm]
            exact ⟨_, rfl, fun v h => by cases h⟩
      have hp1 : y ≠ 0x70 := fun e => hpP (.inl e)
      have hp2 : y ≠ 0x50 := fun e => hpP (.inr e)
      by_cases hb : y = 0x62
      · subst hb
        have : classAtom c (0x5C :: 0x62 :: r') = .ok (some 8, r') := by unfold classAtom; rfl
        rw [this]
        exact ⟨_, by unfold bracketClassAtom; rfl, rfl⟩
      by_cases hcl : ESG.isClassEscLetter y = true
      · have : classAtom c (0x5C :: y :: r') = .ok (none, r') := by
          unfold classAtom; simp [hb, hcl]
        rw [this]
        simp only [ESG.isClassEscLetter, Bool.or_eq_true, beq_iff_eq] at hcl
        unfold bracketClassAtom
        rcases hcl with ((((h | h) | h) | h) | h) | h <;> subst h <;> exact ⟨_, rfl, fun v h => by cases h⟩
      by_cases hd : y = 0x2D
      · subst hd
        have : classAtom c (0x5C :: 0x2D :: r') = .ok (some 0x2D, r') := by
          unfold classAtom; simp [hcu, ESG.isClassEscLetter]
        rw [this]
        exact ⟨_, by unfold bracketClassAtom; simp [hu], rfl⟩
      · have hcl' : ESG.isClassEscLetter y = false := by simpa using hcl
        have e1 : classAtom c (0x5C :: y :: r') =
            match charEscapeU y r' with
            | some (v, r'') => .ok (some v, r'')
            | none => .bad := by
          unfold classAtom
          have : (y == 0x70 || y == 0x50) = false := by simp [hp1, hp2]
          simp [hb, hcl', hcu, hd, this]
          rfl
        simp only [ESG.isClassEscLetter, Bool.or_eq_false_iff, beq_eq_false_iff_ne] at hcl'
        obtain ⟨⟨⟨⟨⟨c1, c2⟩, c3⟩, c4⟩, c5⟩, c6⟩ := hcl'
        have e2 : bracketClassAtom fl hn (0x5C :: y :: r') =
            match characterEscape true hn (y :: r') with
            | .error e => .error e
            | .ok (cc, rest2) => .ok (some (.codePoint cc), rest2) := by
          unfold bracketClassAtom
          have d1 : (y == 0x70 || y == 0x50) = false := by simp [hp1, hp2]
          simp [hb, hd, hu, c1, c2, c3, c4, c5, c6, d1]
          rfl
        rw [e1, e2]
        have hsim := charEsc_sim hn y r' hch.tail.tail
        cases hce : charEscapeU y r' with
        | none =>
          rw [hce] at hsim
          obtain ⟨msg, hm⟩ := hsim
          simp only
          rw [hm]; exact ⟨msg, rfl⟩
        | some p =>
          obtain ⟨v, r''⟩ := p
          rw [hce] at hsim
          simp only at hsim ⊢
          rw [hsim]
          exact ⟨_, rfl, rfl⟩
  · rw [classAtom_plain c r hbs, bracketClassAtom_plain fl hn r hbs hx]
    exact ⟨_, rfl, rfl⟩

/-- What a class atom consumes is neutral inside a class. -/
theorem classAtom_neutral (F : Feat) (hvk : F.vk = false) (c : Cfg) (hcu : c.u = true) {x : Nat} {r r' : List Nat}
    {a : Option Nat} (hx : x ≠ 0x5D)
    (hp : ∀ y r', x = 0x5C → r = y :: r' → (y = 0x70 ∨ y = 0x50) → c.t = tabs)
    (h : classAtom c (x :: r) = .ok (a, r')) :
    ∃ t, x :: r = t ++ r' ∧ NeutralM F 1 t := by
  by_cases hbs : x = 0x5C
  · subst hbs
    rcases r with _ | ⟨y, r0⟩
    · have : classAtom c [0x5C] = .bad := by unfold classAtom; rfl
      rw [this] at h; cases h
    · by_cases hpP : y = 0x70 ∨ y = 0x50
      · have hct := hp y r0 rfl rfl hpP
        have e1 : classAtom c (0x5C :: y :: r0) =
            match propEscape c (y == 0x50) r0 with
            | .ok (r'', _) => .ok (none, r'')
            | .bad => .bad
            | .fuel => .fuel := by
          unfold classAtom
          rcases hpP with rfl | rfl <;> simp [hcu, ESG.isClassEscLetter] <;> rfl
        rw [e1] at h
        have hs := prop_sim c hct (y == 0x50) r0
        cases hpe : propEscape c (y == 0x50) r0 with
        | fuel => rw [hpe] at h; cases h
        | bad => rw [hpe] at h; cases h
        | ok p =>
          obtain ⟨r'', ms⟩ := p
          rw [hpe] at h hs
          cases h
          obtain ⟨⟨q, hq, hqp⟩, _⟩ := hs
          exact ⟨[0x5C, y] ++ q, by rw [hq]; simp, neutralM_append (neutralM_esc F 1 y) (neutralM_plains F 1 hqp)⟩
      have hp1 : y ≠ 0x70 := fun e => hpP (.inl e)
      have hp2 : y ≠ 0x50 := fun e => hpP (.inr e)
      have hpp : (y == 0x70 || y == 0x50) = false := by simp [hp1, hp2]
      unfold classAtom at h
      simp only [hcu, hpp, if_true, Bool.false_eq_true, if_false] at h
      split at h
      · cases h; exact ⟨[0x5C, y], rfl, neutralM_esc F 1 y⟩
      · split at h
        · cases h; exact ⟨[0x5C, y], rfl, neutralM_esc F 1 y⟩
        · split at h
          · cases h; exact ⟨[0x5C, y], rfl, neutralM_esc F 1 y⟩
          · split at h
            · rename_i v r'' hce
              cases h
              obtain ⟨t, ht, hnt⟩ := charEscapeU_neutral F 1 hce
              exact ⟨[0x5C, y] ++ t, by rw [ht]; simp, neutralM_append (neutralM_esc F 1 y) hnt⟩
            · cases h
  · rw [classAtom_plain c r hbs] at h
    cases h
    exact ⟨[x], rfl, neutralM_in F 0 hbs hx (.inl hvk)⟩

/-! ## Unfolding equations of the two class loops -/

section
variable (fl : Flags) (hn inv : Bool) (f : Nat) (cps : CPS.IvList)

theorem bl_nil : bracketLoop fl hn inv (f + 1) [] cps = synErr "Unbalanced bracket" := by
  rw [bracketLoop]

theorem bl_close (r : List Nat) : ∃ nd, bracketLoop fl hn inv (f + 1) (0x5D :: r) cps = .ok (nd, r) := by
  rw [bracketLoop]
  exact ⟨_, rfl⟩

theorem bl_err {x : Nat} {r0 : List Nat} (hx : x ≠ 0x5D) {e : ParseError}
    (h : bracketClassAtom fl hn (x :: r0) = .error e) :
    bracketLoop fl hn inv (f + 1) (x :: r0) cps = .error e := by
  rw [bracketLoop]
  have : (x == 0x5D) = false := by simp [hx]
  simp only [this, Bool.false_eq_true, if_false, h]

theorem bl_plain {x : Nat} {r0 r : List Nat} {a' : ClassAtom} (hx : x ≠ 0x5D)
    (h : bracketClassAtom fl hn (x :: r0) = .ok (some a', r)) (hr : ∀ r2, r ≠ 0x2D :: r2) :
    bracketLoop fl hn inv (f + 1) (x :: r0) cps =
      bracketLoop fl hn inv f r (addClassAtom (fl.icase && fl.unicode) cps a') := by
  rw [bracketLoop]
  have : (x == 0x5D) = false := by simp [hx]
  simp only [this, Bool.false_eq_true, if_false, h]

theorem bl_dash_err {x : Nat} {r0 r2 : List Nat} {a' : ClassAtom} (hx : x ≠ 0x5D) {e : ParseError}
    (h : bracketClassAtom fl hn (x :: r0) = .ok (some a', 0x2D :: r2))
    (h2 : bracketClassAtom fl hn r2 = .error e) :
    bracketLoop fl hn inv (f + 1) (x :: r0) cps = .error e := by
  rw [bracketLoop]
  have : (x == 0x5D) = false := by simp [hx]
  simp only [this, Bool.false_eq_true, if_false, h, h2]

theorem bl_dash_none {x : Nat} {r0 r2 r3 : List Nat} {a' : ClassAtom} (hx : x ≠ 0x5D)
    (h : bracketClassAtom fl hn (x :: r0) = .ok (some a', 0x2D :: r2))
    (h2 : bracketClassAtom fl hn r2 = .ok (none, r3)) :
    ∃ cps', bracketLoop fl hn inv (f + 1) (x :: r0) cps = bracketLoop fl hn inv f r3 cps' := by
  rw [bracketLoop]
  have : (x == 0x5D) = false := by simp [hx]
  simp only [this, Bool.false_eq_true, if_false, h, h2]
  exact ⟨_, rfl⟩

theorem bl_dash_cp {x : Nat} {r0 r2 r3 : List Nat} {c1 c2 : Nat} (hx : x ≠ 0x5D)
    (h : bracketClassAtom fl hn (x :: r0) = .ok (some (.codePoint c1), 0x2D :: r2))
    (h2 : bracketClassAtom fl hn r2 = .ok (some (.codePoint c2), r3)) :
    bracketLoop fl hn inv (f + 1) (x :: r0) cps =
      if c1 > c2 then synErr "Range values reversed"
      else bracketLoop fl hn inv f r3 (CPS.add cps { first := c1, last := c2 }) := by
  rw [bracketLoop]
  have : (x == 0x5D) = false := by simp [hx]
  simp only [this, Bool.false_eq_true, if_false, h, h2]

theorem bl_dash_cls {x : Nat} {r0 r2 r3 : List Nat} {a' b' : ClassAtom} (hx : x ≠ 0x5D) (hu : fl.unicode = true)
    (h : bracketClassAtom fl hn (x :: r0) = .ok (some a', 0x2D :: r2))
    (h2 : bracketClassAtom fl hn r2 = .ok (some b', r3))
    (hcls : (∀ v, a' ≠ .codePoint v) ∨ (∀ v, b' ≠ .codePoint v)) :
    bracketLoop fl hn inv (f + 1) (x :: r0) cps = synErr "Invalid character range" := by
  rw [bracketLoop]
  have : (x == 0x5D) = false := by simp [hx]
  simp only [this, Bool.false_eq_true, if_false, h, h2]
  rcases hcls with hc | hc
  · cases a' with
    | codePoint v => exact absurd rfl (hc v)
    | charClass ct pos => simp [hu]
    | range iv ng => simp [hu]
  · cases b' with
    | codePoint v => exact absurd rfl (hc v)
    | charClass ct pos => cases a' <;> simp [hu]
    | range iv ng => cases a' <;> simp [hu]
end

theorem bracketClassAtom_none (fl : Flags) (hn : Bool) (r : List Nat) (h : r = [] ∨ ∃ r', r = 0x5D :: r') :
    bracketClassAtom fl hn r = .ok (none, r) := by
  rcases h with rfl | ⟨r', rfl⟩ <;> rfl

section
variable (c : Cfg) (n : Nat)

theorem cl_nil : classLoop c (n + 1) [] = .bad := by rw [classLoop]
theorem cl_close (r : List Nat) : classLoop c (n + 1) (0x5D :: r) = .ok r := by rw [classLoop]

/-- What `classLoop` does after a first class atom `a` that left `r`. -/
def clRest (a : Option Nat) (r : List Nat) : R (List Nat) :=
  match r with
  | 0x2D :: [] => .bad
  | 0x2D :: 0x5D :: _ => classLoop c n r
  | 0x2D :: r1 =>
    match classAtom c r1 with
    | .bad => .bad
    | .fuel => .fuel
    | .ok (b, r2) => if rangeOk c a b then classLoop c n r2 else .bad
  | _ => classLoop c n r

theorem cl_step {x : Nat} {r0 : List Nat} (hx : x ≠ 0x5D) :
    (classAtom c (x :: r0) = .bad → classLoop c (n + 1) (x :: r0) = .bad) ∧
    (classAtom c (x :: r0) = .fuel → classLoop c (n + 1) (x :: r0) = .fuel) ∧
    (∀ a r, classAtom c (x :: r0) = .ok (a, r) → classLoop c (n + 1) (x :: r0) = clRest c n a r) := by
  have e : classLoop c (n + 1) (x :: r0) =
      match classAtom c (x :: r0) with
      | .bad => .bad
      | .fuel => .fuel
      | .ok (a, r) => clRest c n a r := by
    rw [classLoop]
    · rfl
    · intro h; cases h
    · intro r h; cases h; exact hx rfl
  refine ⟨fun h => ?_, fun h => ?_, fun a r h => ?_⟩ <;> rw [e, h]

theorem clRest_nodash (a : Option Nat) {r : List Nat} (h : ∀ r1, r ≠ 0x2D :: r1) :
    clRest c n a r = classLoop c n r := by
  unfold clRest
  split
  · rename_i heq; exact absurd rfl (h _)
  · rename_i heq; exact absurd rfl (h _)
  · rename_i r1 _ _; exact absurd rfl (h r1)
  · rfl

theorem clRest_end (a : Option Nat) : clRest c n a [0x2D] = .bad := by unfold clRest; rfl

theorem clRest_close (a : Option Nat) (r2 : List Nat) :
    clRest c n a (0x2D :: 0x5D :: r2) = classLoop c n (0x2D :: 0x5D :: r2) := by unfold clRest; rfl

theorem clRest_range (a : Option Nat) {y : Nat} (r2 : List Nat) (hy : y ≠ 0x5D) :
    (classAtom c (y :: r2) = .bad → clRest c n a (0x2D :: y :: r2) = .bad) ∧
    (classAtom c (y :: r2) = .fuel → clRest c n a (0x2D :: y :: r2) = .fuel) ∧
    (∀ b r3, classAtom c (y :: r2) = .ok (b, r3) →
      clRest c n a (0x2D :: y :: r2) = if rangeOk c a b then classLoop c n r3 else .bad) := by
  have e : clRest c n a (0x2D :: y :: r2) =
      match classAtom c (y :: r2) with
      | .bad => .bad
      | .fuel => .fuel
      | .ok (b, r3) => if rangeOk c a b then classLoop c n r3 else .bad := by
    unfold clRest
    split
    · rename_i heq; cases heq
    · rename_i heq; cases heq; exact absurd rfl hy
    · rename_i heq; cases heq; rfl
    · rename_i h1 h2 h3; exact absurd rfl (h3 _)
  refine ⟨fun h => ?_, fun h => ?_, fun b r3 h => ?_⟩ <;> rw [e, h]
end


theorem classLoop_dash_close (c : Cfg) (n : Nat) (r2 : List Nat) :
    classLoop c (n + 2) (0x2D :: 0x5D :: r2) = .ok r2 := by
  rw [(cl_step c (n + 1) (x := 0x2D) (r0 := 0x5D :: r2) (by decide)).2.2 _ _ (classAtom_plain c _ (by decide))]
  rw [clRest_nodash c (n + 1) _ (by intro r1 h; cases h)]
  exact cl_close c n r2

/-- Range with a class on either side, Annex B mode: both ends and the `-` are added as they are. -/
theorem bl_dash_clsL (fl : Flags) (hn inv : Bool) (f : Nat) (cps : CPS.IvList)
    {x : Nat} {r0 r2 r3 : List Nat} {a' b' : ClassAtom} (hx : x ≠ 0x5D) (hu : fl.unicode = false)
    (h : bracketClassAtom fl hn (x :: r0) = .ok (some a', 0x2D :: r2))
    (h2 : bracketClassAtom fl hn r2 = .ok (some b', r3))
    (hcls : (∀ v, a' ≠ .codePoint v) ∨ (∀ v, b' ≠ .codePoint v)) :
    ∃ cps', bracketLoop fl hn inv (f + 1) (x :: r0) cps = bracketLoop fl hn inv f r3 cps' := by
  rw [bracketLoop]
  have : (x == 0x5D) = false := by simp [hx]
  simp only [this, Bool.false_eq_true, if_false, h, h2]
  rcases hcls with hc | hc
  · cases a' with
    | codePoint v => exact absurd rfl (hc v)
    | charClass ct pos => simp only [hu, Bool.false_eq_true, if_false]; exact ⟨_, rfl⟩
    | range iv ng => simp only [hu, Bool.false_eq_true, if_false]; exact ⟨_, rfl⟩
  · cases b' with
    | codePoint v => exact absurd rfl (hc v)
    | charClass ct pos => cases a' <;> (simp only [hu, Bool.false_eq_true, if_false]; exact ⟨_, rfl⟩)
    | range iv ng => cases a' <;> (simp only [hu, Bool.false_eq_true, if_false]; exact ⟨_, rfl⟩)

/-- The simulation of ONE class atom (what the mode-specific lemmas provide): on inputs of the
fragment satisfying `P`, the two readers agree (`AtomRel`) and what they consume is neutral. -/
def AtomSimOn (F : Feat) (c : Cfg) (fl : Flags) (hn : Bool) (P : List Nat → Prop) : Prop :=
  ∀ x r, x ≠ 0x5D → P (x :: r) → fragGo F 1 (x :: r) = true →
    match classAtom c (x :: r) with
    | .ok (a, r') => (∃ a', bracketClassAtom fl hn (x :: r) = .ok (some a', r') ∧ AtomRel a a') ∧
        ∃ t, x :: r = t ++ r' ∧ NeutralM F 1 t
    | .bad => IsSyn (bracketClassAtom fl hn (x :: r))
    | .fuel => False

/-- The contents of a class up to and including the closing `]`: the crate's `bracketLoop` against
the grammar's `classLoop`, in either mode `u`, given the simulation of single class atoms. -/
theorem classLoop_simG (F : Feat) (c : Cfg) (u : Bool) (hcu : c.u = u) (fl : Flags) (hu : fl.unicode = u)
    (hn inv : Bool) (P : List Nat → Prop) (hP : ∀ p l, P (p ++ l) → P l) (hA : AtomSimOn F c fl hn P) :
    ∀ (n : Nat) (s : List Nat), s.length + 1 ≤ n → ∀ (f : Nat) (cps : CPS.IvList),
    s.length + 1 ≤ f → P s → fragGo F 1 s = true →
    match classLoop c n s with
    | .ok r' => (∃ nd, bracketLoop fl hn inv f s cps = .ok (nd, r')) ∧
        ∃ b, s = b ++ 0x5D :: r' ∧ NeutralM F 1 b
    | .bad => IsSyn (bracketLoop fl hn inv f s cps)
    | .fuel => False := by
  intro n
  induction n with
  | zero => intro s hn; omega
  | succ n ih =>
    intro s hnn f cps hf hch hfr
    obtain ⟨f', rfl⟩ : ∃ f', f = f' + 1 := ⟨f - 1, by omega⟩
    rcases s with _ | ⟨x, r0⟩
    · rw [cl_nil, bl_nil]; exact isSyn_synErr _
    by_cases hx : x = 0x5D
    · subst hx
      rw [cl_close]
      exact ⟨bl_close fl hn inv f' cps r0, [], rfl, neutralM_nil F 1⟩
    simp only [List.length_cons] at hnn hf
    have hA1 := hA x r0 hx hch hfr
    obtain ⟨s1, s2, s3⟩ := cl_step c n (x := x) (r0 := r0) hx
    cases hca : classAtom c (x :: r0) with
    | fuel => rw [hca] at hA1; exact hA1.elim
    | bad =>
      rw [hca] at hA1
      obtain ⟨msg, hm⟩ := hA1
      rw [s1 hca, bl_err fl hn inv f' cps hx hm]; exact ⟨msg, rfl⟩
    | ok p =>
      obtain ⟨a, r⟩ := p
      rw [hca] at hA1
      obtain ⟨⟨a', ha', hrel⟩, t, ht, hnt⟩ := hA1
      have hlen := classAtom_len c _ _ _ hca
      simp only [List.length_cons] at hlen
      have hchr : P r := by rw [ht] at hch; exact hP _ _ hch
      have hfrr : fragGo F 1 r = true := by rw [ht] at hfr; exact hnt.frag r hfr
      rw [s3 a r hca]
      by_cases hdash : ∃ r1, r = 0x2D :: r1
      · obtain ⟨r1, rfl⟩ := hdash
        simp only [List.length_cons] at hlen
        rcases r1 with _ | ⟨y, r2⟩
        · -- `-` at the very end
          rw [clRest_end]
          obtain ⟨cps', hbl⟩ := bl_dash_none fl hn inv f' cps hx ha' (bracketClassAtom_none fl hn [] (.inl rfl))
          rw [hbl]
          obtain ⟨f'', rfl⟩ : ∃ f'', f' = f'' + 1 := ⟨f' - 1, by omega⟩
          rw [bl_nil]; exact isSyn_synErr _
        · simp only [List.length_cons] at hlen
          by_cases hy : y = 0x5D
          · -- `-]`: the `-` is a literal
            subst hy
            obtain ⟨n', rfl⟩ : ∃ n', n = n' + 2 := ⟨n - 2, by omega⟩
            rw [clRest_close, classLoop_dash_close]
            obtain ⟨cps', hbl⟩ := bl_dash_none fl hn inv f' cps hx ha'
              (bracketClassAtom_none fl hn (0x5D :: r2) (.inr ⟨r2, rfl⟩))
            rw [hbl]
            obtain ⟨f'', rfl⟩ : ∃ f'', f' = f'' + 1 := ⟨f' - 1, by omega⟩
            refine ⟨bl_close fl hn inv f'' cps' r2, t ++ [0x2D], by rw [ht]; simp, ?_⟩
            exact neutralM_append hnt (neutralM_in F 0 (by decide) (by decide) (.inr (by decide)))
          · -- a range
            obtain ⟨g1, g2, g3⟩ := clRest_range c n a (y := y) r2 hy
            have hch2 : P (y :: r2) := hP [0x2D] _ hchr
            have hfr2 : fragGo F 1 (y :: r2) = true := by
              rwa [fragGo_in F 0 _ (by decide) (by decide) (.inr (by decide))] at hfrr
            have hB := hA y r2 hy hch2 hfr2
            cases hcb : classAtom c (y :: r2) with
            | fuel => rw [hcb] at hB; exact hB.elim
            | bad =>
              rw [hcb] at hB
              obtain ⟨msg, hm⟩ := hB
              rw [g1 hcb, bl_dash_err fl hn inv f' cps hx ha' hm]; exact ⟨msg, rfl⟩
            | ok p2 =>
              obtain ⟨b, r3⟩ := p2
              rw [hcb] at hB
              obtain ⟨⟨b', hb', hrelb⟩, t2, ht2, hnt2⟩ := hB
              have hlen2 := classAtom_len c _ _ _ hcb
              simp only [List.length_cons] at hlen2
              rw [g3 b r3 hcb]
              have hch3 : P r3 := by rw [ht2] at hch2; exact hP _ _ hch2
              have hfr3 : fragGo F 1 r3 = true := by rw [ht2] at hfr2; exact hnt2.frag r3 hfr2
              -- the loop goes on behind the range, whatever was added to the set
              have cont : ∀ cps', match classLoop c n r3 with
                  | .ok r' => (∃ nd, bracketLoop fl hn inv f' r3 cps' = .ok (nd, r')) ∧
                      ∃ b, x :: r0 = b ++ 0x5D :: r' ∧ NeutralM F 1 b
                  | .bad => IsSyn (bracketLoop fl hn inv f' r3 cps')
                  | .fuel => False := by
                intro cps'
                have := ih r3 (by omega) f' cps' (by omega) hch3 hfr3
                cases hcl : classLoop c n r3 with
                | fuel => rw [hcl] at this; exact this.elim
                | bad => rw [hcl] at this; exact this
                | ok r' =>
                  rw [hcl] at this
                  obtain ⟨h1, b3, hb3, hnb3⟩ := this
                  refine ⟨h1, t ++ ([0x2D] ++ (t2 ++ b3)), ?_, ?_⟩
                  · rw [ht, ht2, hb3]; simp
                  · exact neutralM_append hnt (neutralM_append (neutralM_in F 0 (by decide) (by decide) (.inr (by decide)))
                      (neutralM_append hnt2 hnb3))
              -- a class (not a code point) at either end: an error under `u`, taken literally otherwise
              have hcls : ((∀ v, a' ≠ .codePoint v) ∨ (∀ v, b' ≠ .codePoint v)) → rangeOk c a b = !u →
                  match (if rangeOk c a b = true then classLoop c n r3 else R.bad) with
                  | .ok r' => (∃ nd, bracketLoop fl hn inv (f' + 1) (x :: r0) cps = .ok (nd, r')) ∧
                      ∃ b, x :: r0 = b ++ 0x5D :: r' ∧ NeutralM F 1 b
                  | .bad => IsSyn (bracketLoop fl hn inv (f' + 1) (x :: r0) cps)
                  | .fuel => False := by
                intro hc hro
                cases u with
                | true =>
                  rw [hro]
                  simp only [Bool.not_true, Bool.false_eq_true, if_false]
                  rw [bl_dash_cls fl hn inv f' cps hx hu ha' hb' hc]
                  exact isSyn_synErr _
                | false =>
                  rw [hro]
                  simp only [Bool.not_false, if_true]
                  obtain ⟨cps', hbl⟩ := bl_dash_clsL fl hn inv f' cps hx hu ha' hb' hc
                  rw [hbl]
                  exact cont cps'
              cases a with
              | none =>
                exact hcls (.inl hrel) (by unfold rangeOk; simp [hcu])
              | some va =>
                cases b with
                | none =>
                  exact hcls (.inr hrelb) (by unfold rangeOk; simp [hcu])
                | some vb =>
                  simp only [AtomRel] at hrel hrelb
                  subst hrel; subst hrelb
                  rw [bl_dash_cp fl hn inv f' cps hx ha' hb']
                  by_cases hle : va ≤ vb
                  · have hro : rangeOk c (some va) (some vb) = true := by simp [rangeOk, hle]
                    rw [hro]
                    rw [if_neg (show ¬ va > vb by omega)]
                    simp only [if_true]
                    exact cont _
                  · have hro : rangeOk c (some va) (some vb) = false := by simp [rangeOk, hle]
                    rw [hro]
                    rw [if_pos (show va > vb by omega)]
                    simp only [Bool.false_eq_true, if_false]
                    exact isSyn_synErr _
      · -- no range
        have hnd : ∀ r1, r ≠ 0x2D :: r1 := fun r1 e => hdash ⟨r1, e⟩
        rw [clRest_nodash c n a hnd, bl_plain fl hn inv f' cps hx ha' hnd]
        have := ih r (by omega) f' (addClassAtom (fl.icase && fl.unicode) cps a') (by omega) hchr hfrr
        cases hcl : classLoop c n r with
        | fuel => rw [hcl] at this; exact this.elim
        | bad => rw [hcl] at this; exact this
        | ok r' =>
          rw [hcl] at this
          obtain ⟨h1, b3, hb3, hnb3⟩ := this
          exact ⟨h1, t ++ b3, by rw [ht, hb3]; simp, neutralM_append hnt hnb3⟩

/-- The class-atom simulation of UnicodeMode (without `v`). -/
theorem atomSim_u (F : Feat) (c : Cfg) (hcu : c.u = true) (fl : Flags) (hu : fl.unicode = true)
    (hpr : F.pr = true → c.t = tabs) (hlk : F.lk = false) (hvk : F.vk = false) (hcv : c.v = false)
    (hnv : fl.unicodeSets = false) (hn : Bool) :
    AtomSimOn F c fl hn AllChar := by
  intro x r0 hx hch hfr
  have hp : ∀ y r', x = 0x5C → r0 = y :: r' → (y = 0x70 ∨ y = 0x50) → c.t = tabs := by
    rintro y r' rfl rfl hy
    rw [fragGo_esc_in, Bool.and_eq_true] at hfr
    refine hpr ?_
    have := hfr.1
    simp only [inClsOk, hlk] at this
    rcases hy with rfl | rfl <;> simpa using this
  have hA := classAtom_sim c hcu fl hu hn hx hch (fun y r' h1 h2 h3 => ⟨hp y r' h1 h2 h3, hcv, hnv⟩)
  cases hca : classAtom c (x :: r0) with
  | fuel => rw [hca] at hA; exact hA.elim
  | bad => rw [hca] at hA; exact hA
  | ok p =>
    obtain ⟨a, r⟩ := p
    rw [hca] at hA
    exact ⟨hA, classAtom_neutral F hvk c hcu hx hp hca⟩

/-- The contents of a class, UnicodeMode without `v`. -/
theorem classLoop_sim (F : Feat) (c : Cfg) (hcu : c.u = true) (fl : Flags) (hu : fl.unicode = true)
    (hpr : F.pr = true → c.t = tabs) (hlk : F.lk = false) (hvk : F.vk = false) (hcv : c.v = false)
    (hnv : fl.unicodeSets = false) (hn inv : Bool) : ∀ (n : Nat) (s : List Nat), s.length + 1 ≤ n → ∀ (f : Nat) (cps : CPS.IvList),
    s.length + 1 ≤ f → AllChar s → fragGo F 1 s = true →
    match classLoop c n s with
    | .ok r' => (∃ nd, bracketLoop fl hn inv f s cps = .ok (nd, r')) ∧
        ∃ b, s = b ++ 0x5D :: r' ∧ NeutralM F 1 b
    | .bad => IsSyn (bracketLoop fl hn inv f s cps)
    | .fuel => False :=
  classLoop_simG F c true hcu fl hu hn inv AllChar (fun _ _ h => h.append_right)
    (atomSim_u F c hcu fl hu hpr hlk hvk hcv hnv hn)

/-! ## The class as an atom -/

/-- The class contents after the optional `^`. -/
def stripCaret (r : List Nat) : List Nat := match r with | 0x5E :: r' => r' | _ => r

theorem atom_class (c : Cfg) (hcv : c.v = false) (n : Nat) (r0 : List Nat) (est : ESG.St) :
    (∀ r', classLoop c n (stripCaret r0) = .ok r' → atom c (n + 1) (0x5B :: r0) est = .ok (r', est)) ∧
    (classLoop c n (stripCaret r0) = .bad → atom c (n + 1) (0x5B :: r0) est = .bad) := by
  have e : atom c (n + 1) (0x5B :: r0) est =
      match classLoop c n (stripCaret r0) with
      | .ok r' => .ok (r', est)
      | .bad => .bad
      | .fuel => .fuel := by
    unfold atom
    simp only [hcv, Bool.false_eq_true, if_false]
    rfl
  exact ⟨fun r' h => by rw [e, h], fun h => by rw [e, h]⟩

theorem cAtom_class {cd : PState → Res (Node × PState)} {st : PState} {acc : List Node} {r0 : List Nat}
    (hv : st.flags.unicodeSets = false) (hin : st.input = 0x5B :: r0) :
    ∃ inv, consumeAtomA cd st acc 0x5B =
      match bracketLoop st.flags (!st.named.isEmpty) inv ((stripCaret r0).length + 2) (stripCaret r0) [] with
      | .error e => .error e
      | .ok (nd, rest) => .ok ⟨acc ++ [nd], { st with input := rest }, acc.length, true⟩ := by
  have : ∃ inv, consumeBracket st.flags (!st.named.isEmpty) st.input =
      bracketLoop st.flags (!st.named.isEmpty) inv ((stripCaret r0).length + 2) (stripCaret r0) [] := by
    rw [hin]
    unfold consumeBracket stripCaret
    rcases r0 with _ | ⟨y, r1⟩
    · exact ⟨false, rfl⟩
    · by_cases hy : y = 0x5E
      · subst hy; exact ⟨true, rfl⟩
      · refine ⟨false, ?_⟩
        simp [hy]
  obtain ⟨inv, hinv⟩ := this
  refine ⟨inv, ?_⟩
  unfold consumeAtomA
  simp only [hv, Bool.and_false, Bool.false_eq_true, if_false]
  simp [hinv]
  rfl

/-- A character class (no `v`), either mode: the crate's `[` arm against the grammar's, given the
simulation of single class atoms. -/
theorem class_simG (F : Feat) (c : Cfg) (u : Bool) (hcu : c.u = u) (hcv : c.v = false)
    {cd : PState → Res (Node × PState)} (st : PState) (hu : st.flags.unicode = u)
    (hv : st.flags.unicodeSets = false) (P : List Nat → Prop) (hP : ∀ p l, P (p ++ l) → P l)
    (hA : AtomSimOn F c st.flags (!st.named.isEmpty) P)
    (acc : List Node) {r0 : List Nat} (hin : st.input = 0x5B :: r0)
    (hch : P r0) (hfr : fragGo F 1 r0 = true) (n : Nat) (hn : r0.length + 1 ≤ n) (est : ESG.St) :
    match atom c (n + 1) (0x5B :: r0) est with
    | .ok (r', est') => est' = est ∧
        (∃ nd, consumeAtomA cd st acc 0x5B = .ok ⟨acc ++ [nd], { st with input := r' }, acc.length, true⟩) ∧
        ∃ p, 0x5B :: r0 = p ++ r' ∧ Neutral F p
    | .bad => IsSyn (consumeAtomA cd st acc 0x5B)
    | .fuel => False := by
  obtain ⟨inv, hca⟩ := cAtom_class (cd := cd) (acc := acc) hv hin
  obtain ⟨a1, a2⟩ := atom_class c hcv n r0 est
  -- the contents after the optional `^`
  have hs : ∃ q, r0 = q ++ stripCaret r0 ∧ NeutralM F 1 q := by
    unfold stripCaret
    rcases r0 with _ | ⟨y, r1⟩
    · exact ⟨[], rfl, neutralM_nil F 1⟩
    · by_cases hy : y = 0x5E
      · subst hy; exact ⟨[0x5E], rfl, neutralM_in F 0 (by decide) (by decide) (.inr (by decide))⟩
      · refine ⟨[], ?_, neutralM_nil F 1⟩
        simp [hy]
  obtain ⟨q, hq, hnq⟩ := hs
  have hlen : (stripCaret r0).length ≤ r0.length := by
    have := congrArg List.length hq
    simp at this; omega
  have hch' : P (stripCaret r0) := by rw [hq] at hch; exact hP _ _ hch
  have hfr' : fragGo F 1 (stripCaret r0) = true := by
    have := hfr; rw [hq] at this; exact hnq.frag _ this
  have hsim := classLoop_simG F c u hcu st.flags hu (!st.named.isEmpty) inv P hP hA n (stripCaret r0) (by omega)
    ((stripCaret r0).length + 2) [] (by omega) hch' hfr'
  cases hcl : classLoop c n (stripCaret r0) with
  | fuel => rw [hcl] at hsim; exact hsim.elim
  | bad =>
    rw [hcl] at hsim
    obtain ⟨msg, hm⟩ := hsim
    rw [a2 hcl, hca, hm]
    exact ⟨msg, rfl⟩
  | ok r' =>
    rw [hcl] at hsim
    obtain ⟨⟨nd, hnd⟩, b, hb, hnb⟩ := hsim
    rw [a1 r' hcl, hca, hnd]
    refine ⟨rfl, ⟨nd, rfl⟩, 0x5B :: ((q ++ b) ++ [0x5D]), ?_, neutral_class (neutralM_append hnq hnb)⟩
    rw [hq, hb]; simp

/-- A character class, UnicodeMode without `v`. -/
theorem class_sim (F : Feat) (c : Cfg) (hcu : c.u = true) (hcv : c.v = false)
    (hpr : F.pr = true → c.t = tabs) (hlk : F.lk = false) (hvk : F.vk = false)
    {cd : PState → Res (Node × PState)} (st : PState)
    (hu : st.flags.unicode = true)
    (hv : st.flags.unicodeSets = false) (acc : List Node) {r0 : List Nat} (hin : st.input = 0x5B :: r0)
    (hch : AllChar r0) (hfr : fragGo F 1 r0 = true) (n : Nat) (hn : r0.length + 1 ≤ n) (est : ESG.St) :
    match atom c (n + 1) (0x5B :: r0) est with
    | .ok (r', est') => est' = est ∧
        (∃ nd, consumeAtomA cd st acc 0x5B = .ok ⟨acc ++ [nd], { st with input := r' }, acc.length, true⟩) ∧
        ∃ p, 0x5B :: r0 = p ++ r' ∧ Neutral F p
    | .bad => IsSyn (consumeAtomA cd st acc 0x5B)
    | .fuel => False :=
  class_simG F c true hcu hcv st hu hv AllChar (fun _ _ h => h.append_right)
    (atomSim_u F c hcu st.flags hu hpr hlk hvk hcv hv _) acc hin hch hfr n hn est

end Regress.C08Frag
