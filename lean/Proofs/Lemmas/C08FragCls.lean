import Proofs.Lemmas.C08FragEsc
/-!
# C08 fragment equivalence: character classes, UnicodeMode without `v`

The crate's `consume_bracket` (`bracketLoop`, `bracketClassAtom`) against the grammar's
`classLoop` / `classAtom`, for classes without `\p` / `\P`.
-/
namespace Regress.C08Frag
open Regress Regress.IR Regress.Parse Regress.ESG

/-- What the crate's class atom must be, given the grammar's: a code point with the same value, or a
class escape. -/
def AtomRel (a : Option Nat) (a' : ClassAtom) : Prop :=
  match a with
  | some v => a' = .codePoint v
  | none => ∃ ct pos, a' = .charClass ct pos

theorem classAtom_plain (c : Cfg) {x : Nat} (r : List Nat) (hx : x ≠ 0x5C) :
    classAtom c (x :: r) = .ok (some x, r) := by
  unfold classAtom
  split
  · rename_i h; cases h
  · rename_i h; cases h; exact absurd rfl hx
  · rename_i h; cases h; exact absurd rfl hx
  · rename_i h; cases h; rfl

theorem bracketClassAtom_plain (fl : Flags) (hn : Bool) {x : Nat} (r : List Nat) (h1 : x ≠ 0x5C) (h2 : x ≠ 0x5D) :
    bracketClassAtom fl hn (x :: r) = .ok (some (.codePoint x), r) := by
  unfold bracketClassAtom
  simp [h1, h2]

/-- One class atom (the input does not start with `]`, a leading escape is not `\p` / `\P`). -/
theorem classAtom_sim (c : Cfg) (hcu : c.u = true) (fl : Flags) (hu : fl.unicode = true) (hn : Bool)
    {x : Nat} {r : List Nat} (hx : x ≠ 0x5D) (hch : AllChar (x :: r))
    (hp : ∀ y r', x = 0x5C → r = y :: r' → y ≠ 0x70 ∧ y ≠ 0x50) :
    match classAtom c (x :: r) with
    | .ok (a, r') => ∃ a', bracketClassAtom fl hn (x :: r) = .ok (some a', r') ∧ AtomRel a a'
    | .bad => IsSyn (bracketClassAtom fl hn (x :: r))
    | .fuel => False := by
  by_cases hbs : x = 0x5C
  · subst hbs
    rcases r with _ | ⟨y, r'⟩
    · have : classAtom c [0x5C] = .bad := by unfold classAtom; rfl
      rw [this]
      unfold bracketClassAtom
      exact isSyn_synErr _
    · obtain ⟨hp1, hp2⟩ := hp y r' rfl rfl
      by_cases hb : y = 0x62
      · subst hb
        have : classAtom c (0x5C :: 0x62 :: r') = .ok (some 8, r') := by unfold classAtom; rfl
        rw [this]
        exact ⟨_, by unfold bracketClassAtom; rfl, rfl⟩
      by_cases hcl : ESG.isClassEscLetter y = true
      · have : classAtom c (0x5C :: y :: r') = .ok (none, r') := by
          unfold classAtom; simp [hb, hcl]
        rw [this]
        simp only [ESG.isClassEscLetter, Bool.or_eq_true, beq_iff_eq] at hcl
        unfold bracketClassAtom
        rcases hcl with ((((h | h) | h) | h) | h) | h <;> subst h <;> exact ⟨_, rfl, _, _, rfl⟩
      by_cases hd : y = 0x2D
      · subst hd
        have : classAtom c (0x5C :: 0x2D :: r') = .ok (some 0x2D, r') := by
          unfold classAtom; simp [hcu, ESG.isClassEscLetter]
        rw [this]
        exact ⟨_, by unfold bracketClassAtom; simp [hu], rfl⟩
      · have hcl' : ESG.isClassEscLetter y = false := by simpa using hcl
        have e1 : classAtom c (0x5C :: y :: r') =
            match charEscapeU y r' with
            | some (v, r'') => .ok (some v, r'')
            | none => .bad := by
          unfold classAtom
          have : (y == 0x70 || y == 0x50) = false := by simp [hp1, hp2]
          simp [hb, hcl', hcu, hd, this]
          rfl
        simp only [ESG.isClassEscLetter, Bool.or_eq_false_iff, beq_eq_false_iff_ne] at hcl'
        obtain ⟨⟨⟨⟨⟨c1, c2⟩, c3⟩, c4⟩, c5⟩, c6⟩ := hcl'
        have e2 : bracketClassAtom fl hn (0x5C :: y :: r') =
            match characterEscape true hn (y :: r') with
            | .error e => .error e
            | .ok (cc, rest2) => .ok (some (.codePoint cc), rest2) := by
          unfold bracketClassAtom
          have d1 : (y == 0x70 || y == 0x50) = false := by simp [hp1, hp2]
          simp [hb, hd, hu, c1, c2, c3, c4, c5, c6, d1]
          rfl
        rw [e1, e2]
        have hsim := charEsc_sim hn y r' hch.tail.tail
        cases hce : charEscapeU y r' with
        | none =>
          rw [hce] at hsim
          obtain ⟨msg, hm⟩ := hsim
          simp only
          rw [hm]; exact ⟨msg, rfl⟩
        | some p =>
          obtain ⟨v, r''⟩ := p
          rw [hce] at hsim
          simp only at hsim ⊢
          rw [hsim]
          exact ⟨_, rfl, rfl⟩
  · rw [classAtom_plain c r hbs, bracketClassAtom_plain fl hn r hbs hx]
    exact ⟨_, rfl, rfl⟩

/-- What a class atom consumes is neutral inside a class. -/
theorem classAtom_neutral (F : Feat) (c : Cfg) (hcu : c.u = true) {x : Nat} {r r' : List Nat}
    {a : Option Nat} (hx : x ≠ 0x5D)
    (hp : ∀ y r', x = 0x5C → r = y :: r' → y ≠ 0x70 ∧ y ≠ 0x50)
    (h : classAtom c (x :: r) = .ok (a, r')) :
    ∃ t, x :: r = t ++ r' ∧ NeutralM F true t := by
  by_cases hbs : x = 0x5C
  · subst hbs
    rcases r with _ | ⟨y, r0⟩
    · have : classAtom c [0x5C] = .bad := by unfold classAtom; rfl
      rw [this] at h; cases h
    · obtain ⟨hp1, hp2⟩ := hp y r0 rfl rfl
      have hpp : (y == 0x70 || y == 0x50) = false := by simp [hp1, hp2]
      unfold classAtom at h
      simp only [hcu, hpp, if_true, Bool.false_eq_true, if_false] at h
      split at h
      · cases h; exact ⟨[0x5C, y], rfl, neutralM_esc F true y⟩
      · split at h
        · cases h; exact ⟨[0x5C, y], rfl, neutralM_esc F true y⟩
        · split at h
          · cases h; exact ⟨[0x5C, y], rfl, neutralM_esc F true y⟩
          · split at h
            · rename_i v r'' hce
              cases h
              obtain ⟨t, ht, hnt⟩ := charEscapeU_neutral F true hce
              exact ⟨[0x5C, y] ++ t, by rw [ht]; simp, neutralM_append (neutralM_esc F true y) hnt⟩
            · cases h
  · rw [classAtom_plain c r hbs] at h
    cases h
    exact ⟨[x], rfl, neutralM_in F hbs hx⟩

/-! ## Unfolding equations of the two class loops -/

section
variable (fl : Flags) (hn inv : Bool) (f : Nat) (cps : CPS.IvList)

theorem bl_nil : bracketLoop fl hn inv (f + 1) [] cps = synErr "Unbalanced bracket" := by
  rw [bracketLoop]

theorem bl_close (r : List Nat) : ∃ nd, bracketLoop fl hn inv (f + 1) (0x5D :: r) cps = .ok (nd, r) := by
  rw [bracketLoop]
  exact ⟨_, rfl⟩

theorem bl_err {x : Nat} {r0 : List Nat} (hx : x ≠ 0x5D) {e : ParseError}
    (h : bracketClassAtom fl hn (x :: r0) = .error e) :
    bracketLoop fl hn inv (f + 1) (x :: r0) cps = .error e := by
  rw [bracketLoop]
  have : (x == 0x5D) = false := by simp [hx]
  simp only [this, Bool.false_eq_true, if_false, h]

theorem bl_plain {x : Nat} {r0 r : List Nat} {a' : ClassAtom} (hx : x ≠ 0x5D)
    (h : bracketClassAtom fl hn (x :: r0) = .ok (some a', r)) (hr : ∀ r2, r ≠ 0x2D :: r2) :
    bracketLoop fl hn inv (f + 1) (x :: r0) cps =
      bracketLoop fl hn inv f r (addClassAtom (fl.icase && fl.unicode) cps a') := by
  rw [bracketLoop]
  have : (x == 0x5D) = false := by simp [hx]
  simp only [this, Bool.false_eq_true, if_false, h]

theorem bl_dash_err {x : Nat} {r0 r2 : List Nat} {a' : ClassAtom} (hx : x ≠ 0x5D) {e : ParseError}
    (h : bracketClassAtom fl hn (x :: r0) = .ok (some a', 0x2D :: r2))
    (h2 : bracketClassAtom fl hn r2 = .error e) :
    bracketLoop fl hn inv (f + 1) (x :: r0) cps = .error e := by
  rw [bracketLoop]
  have : (x == 0x5D) = false := by simp [hx]
  simp only [this, Bool.false_eq_true, if_false, h, h2]

theorem bl_dash_none {x : Nat} {r0 r2 r3 : List Nat} {a' : ClassAtom} (hx : x ≠ 0x5D)
    (h : bracketClassAtom fl hn (x :: r0) = .ok (some a', 0x2D :: r2))
    (h2 : bracketClassAtom fl hn r2 = .ok (none, r3)) :
    ∃ cps', bracketLoop fl hn inv (f + 1) (x :: r0) cps = bracketLoop fl hn inv f r3 cps' := by
  rw [bracketLoop]
  have : (x == 0x5D) = false := by simp [hx]
  simp only [this, Bool.false_eq_true, if_false, h, h2]
  exact ⟨_, rfl⟩

theorem bl_dash_cp {x : Nat} {r0 r2 r3 : List Nat} {c1 c2 : Nat} (hx : x ≠ 0x5D)
    (h : bracketClassAtom fl hn (x :: r0) = .ok (some (.codePoint c1), 0x2D :: r2))
    (h2 : bracketClassAtom fl hn r2 = .ok (some (.codePoint c2), r3)) :
    bracketLoop fl hn inv (f + 1) (x :: r0) cps =
      if c1 > c2 then synErr "Range values reversed"
      else bracketLoop fl hn inv f r3 (CPS.add cps { first := c1, last := c2 }) := by
  rw [bracketLoop]
  have : (x == 0x5D) = false := by simp [hx]
  simp only [this, Bool.false_eq_true, if_false, h, h2]

theorem bl_dash_cls {x : Nat} {r0 r2 r3 : List Nat} {a' b' : ClassAtom} (hx : x ≠ 0x5D) (hu : fl.unicode = true)
    (h : bracketClassAtom fl hn (x :: r0) = .ok (some a', 0x2D :: r2))
    (h2 : bracketClassAtom fl hn r2 = .ok (some b', r3))
    (hcls : (∃ ct pos, a' = .charClass ct pos) ∨ (∃ ct pos, b' = .charClass ct pos)) :
    bracketLoop fl hn inv (f + 1) (x :: r0) cps = synErr "Invalid character range" := by
  rw [bracketLoop]
  have : (x == 0x5D) = false := by simp [hx]
  simp only [this, Bool.false_eq_true, if_false, h, h2]
  rcases hcls with ⟨ct, pos, rfl⟩ | ⟨ct, pos, rfl⟩
  · simp [hu]
  · cases a' <;> simp [hu]
end

theorem bracketClassAtom_none (fl : Flags) (hn : Bool) (r : List Nat) (h : r = [] ∨ ∃ r', r = 0x5D :: r') :
    bracketClassAtom fl hn r = .ok (none, r) := by
  rcases h with rfl | ⟨r', rfl⟩ <;> rfl

section
variable (c : Cfg) (n : Nat)

theorem cl_nil : classLoop c (n + 1) [] = .bad := by rw [classLoop]
theorem cl_close (r : List Nat) : classLoop c (n + 1) (0x5D :: r) = .ok r := by rw [classLoop]

/-- What `classLoop` does after a first class atom `a` that left `r`. -/
def clRest (a : Option Nat) (r : List Nat) : R (List Nat) :=
  match r with
  | 0x2D :: [] => .bad
  | 0x2D :: 0x5D :: _ => classLoop c n r
  | 0x2D :: r1 =>
    match classAtom c r1 with
    | .bad => .bad
    | .fuel => .fuel
    | .ok (b, r2) => if rangeOk c a b then classLoop c n r2 else .bad
  | _ => classLoop c n r

theorem cl_step {x : Nat} {r0 : List Nat} (hx : x ≠ 0x5D) :
    (classAtom c (x :: r0) = .bad → classLoop c (n + 1) (x :: r0) = .bad) ∧
    (classAtom c (x :: r0) = .fuel → classLoop c (n + 1) (x :: r0) = .fuel) ∧
    (∀ a r, classAtom c (x :: r0) = .ok (a, r) → classLoop c (n + 1) (x :: r0) = clRest c n a r) := by
  have e : classLoop c (n + 1) (x :: r0) =
      match classAtom c (x :: r0) with
      | .bad => .bad
      | .fuel => .fuel
      | .ok (a, r) => clRest c n a r := by
    rw [classLoop]
    · rfl
    · intro h; cases h
    · intro r h; cases h; exact hx rfl
  refine ⟨fun h => ?_, fun h => ?_, fun a r h => ?_⟩ <;> rw [e, h]

theorem clRest_nodash (a : Option Nat) {r : List Nat} (h : ∀ r1, r ≠ 0x2D :: r1) :
    clRest c n a r = classLoop c n r := by
  unfold clRest
  split
  · rename_i heq; exact absurd rfl (h _)
  · rename_i heq; exact absurd rfl (h _)
  · rename_i r1 _ _; exact absurd rfl (h r1)
  · rfl

theorem clRest_end (a : Option Nat) : clRest c n a [0x2D] = .bad := by unfold clRest; rfl

theorem clRest_close (a : Option Nat) (r2 : List Nat) :
    clRest c n a (0x2D :: 0x5D :: r2) = classLoop c n (0x2D :: 0x5D :: r2) := by unfold clRest; rfl

theorem clRest_range (a : Option Nat) {y : Nat} (r2 : List Nat) (hy : y ≠ 0x5D) :
    (classAtom c (y :: r2) = .bad → clRest c n a (0x2D :: y :: r2) = .bad) ∧
    (classAtom c (y :: r2) = .fuel → clRest c n a (0x2D :: y :: r2) = .fuel) ∧
    (∀ b r3, classAtom c (y :: r2) = .ok (b, r3) →
      clRest c n a (0x2D :: y :: r2) = if rangeOk c a b then classLoop c n r3 else .bad) := by
  have e : clRest c n a (0x2D :: y :: r2) =
      match classAtom c (y :: r2) with
      | .bad => .bad
      | .fuel => .fuel
      | .ok (b, r3) => if rangeOk c a b then classLoop c n r3 else .bad := by
    unfold clRest
    split
    · rename_i heq; cases heq
    · rename_i heq; cases heq; exact absurd rfl hy
    · rename_i heq; cases heq; rfl
    · rename_i h1 h2 h3; exact absurd rfl (h3 _)
  refine ⟨fun h => ?_, fun h => ?_, fun b r3 h => ?_⟩ <;> rw [e, h]
end


theorem classLoop_dash_close (c : Cfg) (n : Nat) (r2 : List Nat) :
    classLoop c (n + 2) (0x2D :: 0x5D :: r2) = .ok r2 := by
  rw [(cl_step c (n + 1) (x := 0x2D) (r0 := 0x5D :: r2) (by decide)).2.2 _ _ (classAtom_plain c _ (by decide))]
  rw [clRest_nodash c (n + 1) _ (by intro r1 h; cases h)]
  exact cl_close c n r2

/-- The contents of a class up to and including the closing `]`: the crate's `bracketLoop` against
the grammar's `classLoop` (UnicodeMode, no `\\p` / `\\P`). -/
theorem classLoop_sim (F : Feat) (c : Cfg) (hcu : c.u = true) (fl : Flags) (hu : fl.unicode = true)
    (hn inv : Bool) : ∀ (n : Nat) (s : List Nat), s.length + 1 ≤ n → ∀ (f : Nat) (cps : CPS.IvList),
    s.length + 1 ≤ f → AllChar s → fragGo F true s = true →
    match classLoop c n s with
    | .ok r' => (∃ nd, bracketLoop fl hn inv f s cps = .ok (nd, r')) ∧
        ∃ b, s = b ++ 0x5D :: r' ∧ NeutralM F true b
    | .bad => IsSyn (bracketLoop fl hn inv f s cps)
    | .fuel => False := by
  intro n
  induction n with
  | zero => intro s hn; omega
  | succ n ih =>
    intro s hnn f cps hf hch hfr
    obtain ⟨f', rfl⟩ : ∃ f', f = f' + 1 := ⟨f - 1, by omega⟩
    rcases s with _ | ⟨x, r0⟩
    · rw [cl_nil, bl_nil]; exact isSyn_synErr _
    by_cases hx : x = 0x5D
    · subst hx
      rw [cl_close]
      exact ⟨bl_close fl hn inv f' cps r0, [], rfl, neutralM_nil F true⟩
    simp only [List.length_cons] at hnn hf
    -- the leading escape is not `\p`
    have hp : ∀ y r', x = 0x5C → r0 = y :: r' → y ≠ 0x70 ∧ y ≠ 0x50 := by
      rintro y r' rfl rfl
      rw [fragGo_esc_in] at hfr
      simp only [Bool.and_eq_true, Bool.not_eq_true', Bool.or_eq_false_iff, beq_eq_false_iff_ne] at hfr
      exact hfr.1
    have hA := classAtom_sim c hcu fl hu hn hx hch hp
    obtain ⟨s1, s2, s3⟩ := cl_step c n (x := x) (r0 := r0) hx
    cases hca : classAtom c (x :: r0) with
    | fuel => rw [hca] at hA; exact hA.elim
    | bad =>
      rw [hca] at hA
      obtain ⟨msg, hm⟩ := hA
      rw [s1 hca, bl_err fl hn inv f' cps hx hm]; exact ⟨msg, rfl⟩
    | ok p =>
      obtain ⟨a, r⟩ := p
      rw [hca] at hA
      obtain ⟨a', ha', hrel⟩ := hA
      obtain ⟨t, ht, hnt⟩ := classAtom_neutral F c hcu hx hp hca
      have hlen := classAtom_len c _ _ _ hca
      simp only [List.length_cons] at hlen
      have hchr : AllChar r := by rw [ht] at hch; exact hch.append_right
      have hfrr : fragGo F true r = true := by rw [ht] at hfr; exact hnt.frag r hfr
      rw [s3 a r hca]
      by_cases hdash : ∃ r1, r = 0x2D :: r1
      · obtain ⟨r1, rfl⟩ := hdash
        simp only [List.length_cons] at hlen
        rcases r1 with _ | ⟨y, r2⟩
        · -- `-` at the very end
          rw [clRest_end]
          obtain ⟨cps', hbl⟩ := bl_dash_none fl hn inv f' cps hx ha' (bracketClassAtom_none fl hn [] (.inl rfl))
          rw [hbl]
          obtain ⟨f'', rfl⟩ : ∃ f'', f' = f'' + 1 := ⟨f' - 1, by omega⟩
          rw [bl_nil]; exact isSyn_synErr _
        · simp only [List.length_cons] at hlen
          by_cases hy : y = 0x5D
          · -- `-]`: the `-` is a literal
            subst hy
            obtain ⟨n', rfl⟩ : ∃ n', n = n' + 2 := ⟨n - 2, by omega⟩
            rw [clRest_close, classLoop_dash_close]
            obtain ⟨cps', hbl⟩ := bl_dash_none fl hn inv f' cps hx ha'
              (bracketClassAtom_none fl hn (0x5D :: r2) (.inr ⟨r2, rfl⟩))
            rw [hbl]
            obtain ⟨f'', rfl⟩ : ∃ f'', f' = f'' + 1 := ⟨f' - 1, by omega⟩
            refine ⟨bl_close fl hn inv f'' cps' r2, t ++ [0x2D], by rw [ht]; simp, ?_⟩
            exact neutralM_append hnt (neutralM_in F (by decide) (by decide))
          · -- a range
            obtain ⟨g1, g2, g3⟩ := clRest_range c n a (y := y) r2 hy
            have hch2 : AllChar (y :: r2) := hchr.tail
            have hfr2 : fragGo F true (y :: r2) = true := by
              rwa [fragGo_in F _ (by decide) (by decide)] at hfrr
            have hp2 : ∀ z r', y = 0x5C → r2 = z :: r' → z ≠ 0x70 ∧ z ≠ 0x50 := by
              rintro z r' rfl rfl
              rw [fragGo_esc_in] at hfr2
              simp only [Bool.and_eq_true, Bool.not_eq_true', Bool.or_eq_false_iff, beq_eq_false_iff_ne] at hfr2
              exact hfr2.1
            have hB := classAtom_sim c hcu fl hu hn hy hch2 hp2
            cases hcb : classAtom c (y :: r2) with
            | fuel => rw [hcb] at hB; exact hB.elim
            | bad =>
              rw [hcb] at hB
              obtain ⟨msg, hm⟩ := hB
              rw [g1 hcb, bl_dash_err fl hn inv f' cps hx ha' hm]; exact ⟨msg, rfl⟩
            | ok p2 =>
              obtain ⟨b, r3⟩ := p2
              rw [hcb] at hB
              obtain ⟨b', hb', hrelb⟩ := hB
              obtain ⟨t2, ht2, hnt2⟩ := classAtom_neutral F c hcu hy hp2 hcb
              have hlen2 := classAtom_len c _ _ _ hcb
              simp only [List.length_cons] at hlen2
              rw [g3 b r3 hcb]
              cases a with
              | none =>
                obtain ⟨ct, pos, rfl⟩ := hrel
                have : rangeOk c none b = false := by unfold rangeOk; simp [hcu]
                rw [this]
                simp only [Bool.false_eq_true, if_false]
                rw [bl_dash_cls fl hn inv f' cps hx hu ha' hb' (.inl ⟨ct, pos, rfl⟩)]
                exact isSyn_synErr _
              | some va =>
                cases b with
                | none =>
                  obtain ⟨ct, pos, rfl⟩ := hrelb
                  have : rangeOk c (some va) none = false := by unfold rangeOk; simp [hcu]
                  rw [this]
                  simp only [Bool.false_eq_true, if_false]
                  rw [bl_dash_cls fl hn inv f' cps hx hu ha' hb' (.inr ⟨ct, pos, rfl⟩)]
                  exact isSyn_synErr _
                | some vb =>
                  simp only [AtomRel] at hrel hrelb
                  subst hrel; subst hrelb
                  rw [bl_dash_cp fl hn inv f' cps hx ha' hb']
                  by_cases hle : va ≤ vb
                  · have hro : rangeOk c (some va) (some vb) = true := by simp [rangeOk, hle]
                    rw [hro]
                    rw [if_neg (show ¬ va > vb by omega)]
                    simp only [if_true]
                    have hch3 : AllChar r3 := by rw [ht2] at hch2; exact hch2.append_right
                    have hfr3 : fragGo F true r3 = true := by rw [ht2] at hfr2; exact hnt2.frag r3 hfr2
                    have := ih r3 (by omega) f' (CPS.add cps { first := va, last := vb }) (by omega) hch3 hfr3
                    cases hcl : classLoop c n r3 with
                    | fuel => rw [hcl] at this; exact this.elim
                    | bad => rw [hcl] at this; exact this
                    | ok r' =>
                      rw [hcl] at this
                      obtain ⟨h1, b3, hb3, hnb3⟩ := this
                      refine ⟨h1, t ++ ([0x2D] ++ (t2 ++ b3)), ?_, ?_⟩
                      · rw [ht, ht2, hb3]; simp
                      · exact neutralM_append hnt (neutralM_append (neutralM_in F (by decide) (by decide))
                          (neutralM_append hnt2 hnb3))
                  · have hro : rangeOk c (some va) (some vb) = false := by simp [rangeOk, hle]
                    rw [hro]
                    rw [if_pos (show va > vb by omega)]
                    simp only [Bool.false_eq_true, if_false]
                    exact isSyn_synErr _
      · -- no range
        have hnd : ∀ r1, r ≠ 0x2D :: r1 := fun r1 e => hdash ⟨r1, e⟩
        rw [clRest_nodash c n a hnd, bl_plain fl hn inv f' cps hx ha' hnd]
        have := ih r (by omega) f' (addClassAtom (fl.icase && fl.unicode) cps a') (by omega) hchr hfrr
        cases hcl : classLoop c n r with
        | fuel => rw [hcl] at this; exact this.elim
        | bad => rw [hcl] at this; exact this
        | ok r' =>
          rw [hcl] at this
          obtain ⟨h1, b3, hb3, hnb3⟩ := this
          exact ⟨h1, t ++ b3, by rw [ht, hb3]; simp, neutralM_append hnt hnb3⟩

/-! ## The class as an atom -/

/-- The class contents after the optional `^`. -/
def stripCaret (r : List Nat) : List Nat := match r with | 0x5E :: r' => r' | _ => r

theorem atom_class (c : Cfg) (hcv : c.v = false) (n : Nat) (r0 : List Nat) (est : ESG.St) :
    (∀ r', classLoop c n (stripCaret r0) = .ok r' → atom c (n + 1) (0x5B :: r0) est = .ok (r', est)) ∧
    (classLoop c n (stripCaret r0) = .bad → atom c (n + 1) (0x5B :: r0) est = .bad) := by
  have e : atom c (n + 1) (0x5B :: r0) est =
      match classLoop c n (stripCaret r0) with
      | .ok r' => .ok (r', est)
      | .bad => .bad
      | .fuel => .fuel := by
    unfold atom
    simp only [hcv, Bool.false_eq_true, if_false]
    rfl
  exact ⟨fun r' h => by rw [e, h], fun h => by rw [e, h]⟩

theorem cAtom_class {cd : PState → Res (Node × PState)} {st : PState} {acc : List Node} {r0 : List Nat}
    (hv : st.flags.unicodeSets = false) (hin : st.input = 0x5B :: r0) :
    ∃ inv, consumeAtomA cd st acc 0x5B =
      match bracketLoop st.flags (!st.named.isEmpty) inv ((stripCaret r0).length + 2) (stripCaret r0) [] with
      | .error e => .error e
      | .ok (nd, rest) => .ok ⟨acc ++ [nd], { st with input := rest }, acc.length, true⟩ := by
  have : ∃ inv, consumeBracket st.flags (!st.named.isEmpty) st.input =
      bracketLoop st.flags (!st.named.isEmpty) inv ((stripCaret r0).length + 2) (stripCaret r0) [] := by
    rw [hin]
    unfold consumeBracket stripCaret
    rcases r0 with _ | ⟨y, r1⟩
    · exact ⟨false, rfl⟩
    · by_cases hy : y = 0x5E
      · subst hy; exact ⟨true, rfl⟩
      · refine ⟨false, ?_⟩
        simp [hy]
  obtain ⟨inv, hinv⟩ := this
  refine ⟨inv, ?_⟩
  unfold consumeAtomA
  simp only [hv, Bool.and_false, Bool.false_eq_true, if_false]
  simp [hinv]
  rfl

/-- A character class, UnicodeMode without `v`: the crate's `[` arm against the grammar's. -/
theorem class_sim (F : Feat) (c : Cfg) (hcu : c.u = true) (hcv : c.v = false)
    {cd : PState → Res (Node × PState)} (st : PState) (hu : st.flags.unicode = true)
    (hv : st.flags.unicodeSets = false) (acc : List Node) {r0 : List Nat} (hin : st.input = 0x5B :: r0)
    (hch : AllChar r0) (hfr : fragGo F true r0 = true) (n : Nat) (hn : r0.length + 1 ≤ n) (est : ESG.St) :
    match atom c (n + 1) (0x5B :: r0) est with
    | .ok (r', est') => est' = est ∧
        (∃ nd, consumeAtomA cd st acc 0x5B = .ok ⟨acc ++ [nd], { st with input := r' }, acc.length, true⟩) ∧
        ∃ p, 0x5B :: r0 = p ++ r' ∧ Neutral F p
    | .bad => IsSyn (consumeAtomA cd st acc 0x5B)
    | .fuel => False := by
  obtain ⟨inv, hca⟩ := cAtom_class (cd := cd) (acc := acc) hv hin
  obtain ⟨a1, a2⟩ := atom_class c hcv n r0 est
  -- the contents after the optional `^`
  have hs : ∃ q, r0 = q ++ stripCaret r0 ∧ NeutralM F true q := by
    unfold stripCaret
    rcases r0 with _ | ⟨y, r1⟩
    · exact ⟨[], rfl, neutralM_nil F true⟩
    · by_cases hy : y = 0x5E
      · subst hy; exact ⟨[0x5E], rfl, neutralM_in F (by decide) (by decide)⟩
      · refine ⟨[], ?_, neutralM_nil F true⟩
        simp [hy]
  obtain ⟨q, hq, hnq⟩ := hs
  have hlen : (stripCaret r0).length ≤ r0.length := by
    have := congrArg List.length hq
    simp at this; omega
  have hch' : AllChar (stripCaret r0) := by rw [hq] at hch; exact hch.append_right
  have hfr' : fragGo F true (stripCaret r0) = true := by
    have := hfr; rw [hq] at this; exact hnq.frag _ this
  have hsim := classLoop_sim F c hcu st.flags hu (!st.named.isEmpty) inv n (stripCaret r0) (by omega)
    ((stripCaret r0).length + 2) [] (by omega) hch' hfr'
  cases hcl : classLoop c n (stripCaret r0) with
  | fuel => rw [hcl] at hsim; exact hsim.elim
  | bad =>
    rw [hcl] at hsim
    obtain ⟨msg, hm⟩ := hsim
    rw [a2 hcl, hca, hm]
    exact ⟨msg, rfl⟩
  | ok r' =>
    rw [hcl] at hsim
    obtain ⟨⟨nd, hnd⟩, b, hb, hnb⟩ := hsim
    rw [a1 r' hcl, hca, hnd]
    refine ⟨rfl, ⟨nd, rfl⟩, 0x5B :: ((q ++ b) ++ [0x5D]), ?_, neutral_class (neutralM_append hnq hnb)⟩
    rw [hq, hb]; simp

end Regress.C08Frag
