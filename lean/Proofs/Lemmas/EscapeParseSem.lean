import Proofs.Lemmas.EscapeParse
import Proofs.Lemmas.SemGood
import Proofs.Lemmas.SemPasses
/-!
# The IR semantics of the literal IR that `parse (escape s)` produces

`litNode fl s` (`Proofs/Lemmas/EscapeParse.lean`) is `Cat [make_cat [char_node s₁, …], Goal]`.  On a
UTF-8 haystack, entered at the `k`-th char boundary, its only possible success is the state at the
boundary `k + |s|` with an empty capture table, and it succeeds iff the next `|s|` scalar values of
the haystack are equal to those of `s` after canonicalization (`canon`: the identity without `i`;
`fold_code_point` — simple case folding under `u`/`v`, the upper-case map otherwise — with `i`).
-/
namespace Regress.EscapeParse
open Regress Regress.IR Regress.VM Regress.Parse

/-- The engine's canonicalization under flags `fl`: nothing without `i`; with `i`,
`fold_code_point(_, unicode)` (C10: Unicode 17 simple case folding under `u`/`v`, `uppercase`
otherwise). -/
def canon (fl : IR.Flags) (d : Nat) : Nat := if fl.icase then Fold.foldCodePoint d fl.unicode else d

/-- The test that `char_node(c)` performs on a haystack char `d`. -/
def litTest (fl : IR.Flags) (c d : Nat) : Bool := canon fl d == canon fl c

/-- One literal node is one `cursor::next` followed by the canonical comparison, on any input, in
both directions. -/
theorem sem_litChar (inp : Input) (fl : IR.Flags) (c : Nat) (fwd : Bool) (st : St) :
    sem inp (litChar fl c) fwd st = optSt st (charStep inp fwd st.pos (litTest fl c)) := by
  unfold litChar
  cases hi : fl.icase with
  | false =>
    simp only [Bool.false_eq_true, if_false, sem]
    congr 2
    funext d
    simp [litTest, canon, hi]
  | true =>
    simp only [if_true]
    have hmem := fun d => C10.expand_iff c d fl.unicode
    have key : ∀ cls : List Nat, (∀ d, d ∈ cls ↔ Fold.foldCodePoint d fl.unicode = Fold.foldCodePoint c fl.unicode) →
        ∀ d, decide (d ∈ cls) = litTest fl c d := by
      intro cls h d
      rw [Bool.eq_iff_iff]
      simp [litTest, canon, hi, h d]
    generalize Fold.expandCodePoint c true fl.unicode = cls at hmem
    have hk := key cls hmem
    have hset : sem inp (.charSet cls) fwd st = optSt st (charStep inp fwd st.pos (litTest fl c)) := by
      simp only [sem]
      congr 2
      funext d
      rw [charsetContains_eq, hk]
    match cls, hk, hset with
    | [], _, hset => exact hset
    | [x], hk, _ =>
      simp only [sem]
      congr 2
      funext d
      rw [← hk d, Bool.eq_iff_iff]
      simp
    | _ :: _ :: _, _, hset => exact hset

theorem sem_makeCat (inp : Input) (ns : List Node) (fwd : Bool) (st : St) :
    sem inp (makeCat ns) fwd st = semCat inp ns fwd st := by
  match ns with
  | [] => simp [makeCat, sem, semCat]
  | [n] => simp only [makeCat]; rw [semCat_singleton]
  | _ :: _ :: _ => simp only [makeCat, sem]

/-- `s` matches at the front of `t` up to canonicalization. -/
def litMatch (fl : IR.Flags) : List Nat → List Nat → Bool
  | [], _ => true
  | _ :: _, [] => false
  | c :: s, d :: t => litTest fl c d && litMatch fl s t

/-- The children of the literal `Cat`, entered at the `k`-th char boundary. -/
theorem semCat_lit {inp : Input} {cs : List Nat} (ht : Utf8Text inp cs) (fl : IR.Flags) (s : List Nat) :
    ∀ (k : Nat) (st : St), k ≤ cs.length → st.pos = Utf8.off cs k →
      semCat inp (s.map (litChar fl)) true st =
        if litMatch fl s (cs.drop k) then [{ st with pos := Utf8.off cs (k + s.length) }] else [] := by
  induction s with
  | nil =>
    intro k st _ hp
    simp only [List.map_nil, semCat, litMatch, if_true, List.length_nil, Nat.add_zero, ← hp]
  | cons c s ih =>
    intro k st hk hp
    rw [List.map_cons, semCat_cons, sem_litChar, hp]
    by_cases hlt : k < cs.length
    · rw [charStep_fwd_at ht hlt, List.drop_eq_getElem_cons hlt]
      rw [show litMatch fl (c :: s) (cs[k] :: cs.drop (k + 1)) =
        (litTest fl c cs[k] && litMatch fl s (cs.drop (k + 1))) from rfl]
      by_cases hT : litTest fl c cs[k] = true
      · simp only [hT, if_true, optSt, List.flatMap_cons, List.flatMap_nil, List.append_nil, Bool.true_and]
        rw [ih (k + 1) _ hlt rfl]
        simp only [List.length_cons]
        rw [show k + 1 + s.length = k + (s.length + 1) by omega]
      · have hF : litTest fl c cs[k] = false := by simpa using hT
        simp [optSt, hF]
    · have hk' : k = cs.length := by omega
      subst hk'
      rw [charStep_fwd_end ht]
      simp [optSt, litMatch]

theorem numGroups_litChar (fl : IR.Flags) (c : Nat) : numGroups (litChar fl c) = 0 := by
  unfold litChar
  split
  · split <;> rfl
  · rfl

theorem numGroupsList_lit (fl : IR.Flags) (s : List Nat) : numGroupsList (s.map (litChar fl)) = 0 := by
  induction s with
  | nil => rfl
  | cons c s ih => simp [numGroupsList, numGroups_litChar, ih]

theorem numGroups_makeCat (ns : List Node) : numGroups (makeCat ns) = numGroupsList ns := by
  match ns with
  | [] => rfl
  | [n] => simp [makeCat, numGroupsList]
  | _ :: _ :: _ => simp [makeCat, numGroups]

/-- The literal IR has no capture groups. -/
theorem numGroups_litNode (fl : IR.Flags) (s : List Nat) : numGroups (litNode fl s) = 0 := by
  simp [litNode, numGroups, numGroupsList, numGroups_makeCat, numGroupsList_lit]

/-- **The first match of the literal IR** at the `k`-th char boundary of a UTF-8 haystack. -/
theorem firstMatch_litNode {inp : Input} {cs : List Nat} (ht : Utf8Text inp cs) (fl : IR.Flags)
    (s : List Nat) {k : Nat} (hk : k ≤ cs.length) :
    firstMatch inp (litNode fl s) (Utf8.off cs k) =
      if litMatch fl s (cs.drop k) then some { pos := Utf8.off cs (k + s.length), caps := [] }
      else none := by
  unfold firstMatch initSt
  rw [numGroups_litNode]
  simp only [litNode, sem, sem_makeCat, semCat, List.replicate_zero]
  rw [semCat_lit ht fl s k _ hk rfl]
  split <;> simp

/-! ## What `litMatch` says -/

/-- Up to canonicalization: the next `|s|` chars of the haystack canonicalize to those of `s`. -/
theorem litMatch_iff (fl : IR.Flags) (s t : List Nat) :
    litMatch fl s t = true ↔
      s.length ≤ t.length ∧ (t.take s.length).map (canon fl) = s.map (canon fl) := by
  induction s generalizing t with
  | nil => simp [litMatch]
  | cons c s ih =>
    cases t with
    | nil => simp [litMatch]
    | cons d t =>
      simp only [litMatch, Bool.and_eq_true, ih, litTest, beq_iff_eq, List.length_cons,
        Nat.add_le_add_iff_right, List.take_succ_cons, List.map_cons, List.cons.injEq]
      constructor
      · rintro ⟨h1, h2, h3⟩; exact ⟨h2, h1, h3⟩
      · rintro ⟨h2, h1, h3⟩; exact ⟨h1, h2, h3⟩

/-- Without `i` the comparison is exact: `s` is a prefix. -/
theorem litMatch_exact {fl : IR.Flags} (hi : fl.icase = false) (s t : List Nat) :
    litMatch fl s t = true ↔ s <+: t := by
  rw [litMatch_iff]
  have hc : canon fl = id := by funext d; simp [canon, hi]
  rw [hc, List.map_id, List.map_id]
  constructor
  · rintro ⟨_, h⟩; rw [← h]; exact List.take_prefix _ _
  · intro h
    refine ⟨h.length_le, ?_⟩
    obtain ⟨r, rfl⟩ := h
    simp

/-- Element-wise form, with the case relation of C10 spelled out: with `i`, position by position the
haystack char is in the case class `expand_code_point(sᵢ)` of the pattern char. -/
theorem litMatch_icase_iff {fl : IR.Flags} (hi : fl.icase = true) (s t : List Nat) :
    litMatch fl s t = true ↔
      s.length ≤ t.length ∧ ∀ i (h1 : i < s.length) (h2 : i < t.length),
        t[i] ∈ Fold.expandCodePoint s[i] true fl.unicode := by
  induction s generalizing t with
  | nil => simp [litMatch]
  | cons c s ih =>
    cases t with
    | nil => simp [litMatch]
    | cons d t =>
      simp only [litMatch, Bool.and_eq_true, ih, List.length_cons, Nat.add_le_add_iff_right]
      have hT : litTest fl c d = true ↔ d ∈ Fold.expandCodePoint c true fl.unicode := by
        rw [C10.expand_iff]; simp [litTest, canon, hi]
      rw [hT]
      constructor
      · rintro ⟨h0, hl, hr⟩
        refine ⟨hl, fun i h1 h2 => ?_⟩
        cases i with
        | zero => exact h0
        | succ j => exact hr j (by simpa using h1) (by simpa using h2)
      · rintro ⟨hl, hr⟩
        exact ⟨hr 0 (by simp) (by simp), hl,
          fun i h1 h2 => hr (i + 1) (by simpa using h1) (by simpa using h2)⟩

/-- Without `i`, in bytes: the literal IR matches at a char boundary `p` exactly where the raw UTF-8
bytes of `s` occur at `p` (`Input.matchBytes`, the primitive behind `ByteSeq`), and ends behind them. -/
theorem firstMatch_litNode_bytes {inp : Input} {cs : List Nat} (ht : Utf8Text inp cs) {fl : IR.Flags}
    (hi : fl.icase = false) {s : List Nat} (hs : Utf8.AllScalar s) {k : Nat} (hk : k ≤ cs.length) :
    firstMatch inp (litNode fl s) (Utf8.off cs k) =
      (inp.matchBytes true (Utf8.off cs k) (Utf8.encodeAll s)).map (fun e => { pos := e, caps := [] }) := by
  rw [firstMatch_litNode ht fl s hk]
  have hiff := Utf8.matchBytes_iff_chars ht.scalar hs k
  simp only [Input.matchBytes, ht.bytes]
  by_cases hm : litMatch fl s (cs.drop k) = true
  · rw [if_pos hm, (hiff _).2 ⟨(litMatch_exact hi _ _).1 hm, rfl⟩]; rfl
  · rw [if_neg hm]
    cases hb : Utf8.matchBytes (Utf8.text cs) true (Utf8.off cs k) (Utf8.encodeAll s) with
    | none => rfl
    | some e => exact absurd ((litMatch_exact hi _ _).2 ((hiff e).1 hb).1) hm

end Regress.EscapeParse
