import Proofs.Lemmas.CertsSk
/-!
# Certificates, part 2: `wfInsn` for every instruction of a laid-out skeleton
-/
namespace Regress.Certs

open Regress.VM Regress.Keystone Regress.VM.Safety

theorem plain_groupOf {i : Insn} (h : plain i = true) : groupOf i = none := by
  cases i <;> simp [plain] at h <;> rfl

/-- The capture-group instructions of a scoped skeleton name groups of the scope. -/
theorem Lay.groups_in {I : Array Insn} {G nb L : Nat} : ∀ {sk : Sk} {b lo hi : Nat}, Lay I sk b →
    sk.ok G nb L = true → sk.gsc lo hi = true → ∀ x, b ≤ x → x < b + sk.size →
    ∀ i g, At I x i → groupOf i = some g → lo ≤ g ∧ g < hi
  | .nil, b, lo, hi, _, _, _, x, h1, h2, _, _, _, _ => by simp [Sk.size] at h2; omega
  | .one i, b, lo, hi, h, hok, _, x, h1, h2, i', g, hat, hg => by
    simp only [Sk.size] at h2
    have : x = b := by omega
    subst this
    simp only [Lay] at h
    have := at_inj h hat; subst this
    simp only [Sk.ok, Bool.and_eq_true] at hok
    rw [plain_groupOf hok.1] at hg; cases hg
  | .seq a c, b, lo, hi, h, hok, hs, x, h1, h2, i, g, hat, hg => by
    simp only [Sk.size] at h2
    simp only [Lay] at h
    simp only [Sk.ok, Bool.and_eq_true] at hok
    simp only [Sk.gsc, Bool.and_eq_true] at hs
    by_cases hx : x < b + a.size
    · exact Lay.groups_in h.1 hok.1 hs.1 x h1 hx i g hat hg
    · exact Lay.groups_in h.2 hok.2 hs.2 x (by omega) (by omega) i g hat hg
  | .alt a c, b, lo, hi, h, hok, hs, x, h1, h2, i, g, hat, hg => by
    simp only [Sk.size] at h2
    simp only [Lay] at h
    simp only [Sk.ok, Bool.and_eq_true] at hok
    simp only [Sk.gsc, Bool.and_eq_true] at hs
    obtain ⟨h0, ha, hj, hc⟩ := h
    by_cases hx0 : x = b
    · subst hx0; have := at_inj h0 hat; subst this; cases hg
    · by_cases hx1 : x < b + 1 + a.size
      · exact Lay.groups_in ha hok.1 hs.1 x (by omega) hx1 i g hat hg
      · by_cases hx2 : x = b + a.size + 1
        · subst hx2; have := at_inj hj hat; subst this; cases hg
        · exact Lay.groups_in hc hok.2 hs.2 x (by omega) (by omega) i g hat hg
  | .loop id mn mx gr g0 cnt body, b, lo, hi, h, hok, hs, x, h1, h2, i, g, hat, hg => by
    simp only [Sk.size] at h2
    simp only [Lay] at h
    simp only [Sk.ok, Bool.and_eq_true] at hok
    simp only [Sk.gsc, Bool.and_eq_true, Bool.or_eq_true, decide_eq_true_eq] at hs
    obtain ⟨h0, hr, hb, hl⟩ := h
    by_cases hx0 : x = b
    · subst hx0; have := at_inj h0 hat; subst this; cases hg
    · by_cases hx1 : x < b + 1 + cnt
      · have := hr (x - (b + 1)) (by omega)
        rw [show b + 1 + (x - (b + 1)) = x by omega] at this
        have := at_inj this hat; subst this
        simp only [groupOf, Option.some.injEq] at hg
        rcases hs.1.1 with hz | hz
        · omega
        · omega
      · by_cases hx2 : x < b + 1 + cnt + body.size
        · exact Lay.groups_in hb hok.2 hs.1.2 x (by omega) hx2 i g hat hg
        · have : x = b + 1 + cnt + body.size := by omega
          subst this; have := at_inj hl hat; subst this; cases hg
  | .loop1 mn mx gr body, b, lo, hi, h, hok, _, x, h1, h2, i, g, hat, hg => by
    simp only [Sk.size] at h2
    simp only [Lay] at h
    simp only [Sk.ok, Bool.and_eq_true] at hok
    by_cases hx0 : x = b
    · subst hx0; have := at_inj h.1 hat; subst this; cases hg
    · have : x = b + 1 := by omega
      subst this; have := at_inj h.2 hat; subst this
      rw [plain_groupOf hok.1.1.1.2] at hg; cases hg
  | .group g' body, b, lo, hi, h, hok, hs, x, h1, h2, i, g, hat, hg => by
    simp only [Sk.size] at h2
    simp only [Lay] at h
    simp only [Sk.ok, Bool.and_eq_true] at hok
    simp only [Sk.gsc, Bool.and_eq_true, decide_eq_true_eq] at hs
    obtain ⟨h0, hb, hl⟩ := h
    by_cases hx0 : x = b
    · subst hx0; have := at_inj h0 hat; subst this
      simp only [groupOf, Option.some.injEq] at hg; omega
    · by_cases hx2 : x < b + 1 + body.size
      · exact Lay.groups_in hb hok.2 hs.2 x (by omega) hx2 i g hat hg
      · have : x = b + 1 + body.size := by omega
        subst this; have := at_inj hl hat; subst this
        simp only [groupOf, Option.some.injEq] at hg; omega
  | .look neg bw sg eg body, b, lo, hi, h, hok, hs, x, h1, h2, i, g, hat, hg => by
    simp only [Sk.size] at h2
    simp only [Lay] at h
    simp only [Sk.ok, Bool.and_eq_true] at hok
    simp only [Sk.gsc, Bool.and_eq_true, decide_eq_true_eq] at hs
    obtain ⟨h0, hb, hl⟩ := h
    by_cases hx0 : x = b
    · subst hx0; have := at_inj h0 hat; subst this
      cases bw <;> cases hg
    · by_cases hx2 : x < b + 1 + body.size
      · have := Lay.groups_in hb hok.2 hs.2 x (by omega) hx2 i g hat hg
        omega
      · have : x = b + 1 + body.size := by omega
        subst this; have := at_inj hl hat; subst this; cases hg

theorem leafWf_wfInsn {p : Prog} {i : Insn} (x : Nat) (hp : plain i = true)
    (h : Sk.leafWf p.groups p.brackets.size i = true) : wfInsn p x i = true := by
  cases i <;> simp [plain] at hp <;> simpa [Sk.leafWf, wfInsn] using h

theorem wfLook_of {p : Prog} {sk : Sk} {b sg eg : Nat} (hb : Lay p.insns sk (b + 1))
    (hok : sk.ok p.groups p.brackets.size p.loops = true) (hs : sk.gsc sg eg = true)
    (hl : At p.insns (b + 1 + sk.size) .goal) (h1 : sg ≤ eg) (h2 : eg ≤ p.groups)
    (h3 : b + sk.size + 2 < p.insns.size) : wfLook p b sg eg (b + sk.size + 2) = true := by
  simp only [wfLook, Bool.and_eq_true, decide_eq_true_eq]
  refine ⟨⟨⟨⟨⟨h1, h2⟩, h3⟩, by omega⟩, ?_⟩, ?_⟩
  · simp only [hasGoalBetween, List.any_eq_true, List.mem_range, beq_iff_eq]
    refine ⟨sk.size, by omega, ?_⟩
    rw [show b + 1 + sk.size = b + 1 + sk.size from rfl]; exact hl
  · simp only [groupsWithin, List.all_eq_true, List.mem_range]
    intro d hd
    by_cases hd2 : d < sk.size
    · obtain ⟨i, hi⟩ := hb.get (b + 1 + d) (by omega) (by omega)
      rw [hi]
      have := fun g => Lay.groups_in hb hok hs (b + 1 + d) (by omega) (by omega) i g hi
      cases i <;> simp only [Bool.and_eq_true, decide_eq_true_eq] <;> first | trivial | exact this _ rfl
    · have : d = sk.size := by omega
      subst this
      unfold At at hl; rw [hl]

/-- **Every instruction of a laid-out skeleton whose exit is inside the program is `wfInsn`.** -/
theorem Lay.wfInsn {p : Prog} : ∀ {sk : Sk} {b lo hi : Nat}, Lay p.insns sk b →
    sk.ok p.groups p.brackets.size p.loops = true → sk.gsc lo hi = true → hi ≤ p.groups →
    b + sk.size < p.insns.size → ∀ x, b ≤ x → x < b + sk.size → ∀ i, At p.insns x i →
    VM.wfInsn p x i = true
  | .nil, b, lo, hi, _, _, _, _, _, x, h1, h2, _, _ => by simp [Sk.size] at h2; omega
  | .one i, b, lo, hi, h, hok, _, _, _, x, h1, h2, i', hat => by
    simp only [Sk.size] at h2
    have : x = b := by omega
    subst this
    simp only [Lay] at h
    have := at_inj h hat; subst this
    simp only [Sk.ok, Bool.and_eq_true] at hok
    exact leafWf_wfInsn x hok.1 hok.2
  | .seq a c, b, lo, hi, h, hok, hs, hhi, hsz, x, h1, h2, i, hat => by
    simp only [Sk.size] at h2 hsz
    simp only [Lay] at h
    simp only [Sk.ok, Bool.and_eq_true] at hok
    simp only [Sk.gsc, Bool.and_eq_true] at hs
    by_cases hx : x < b + a.size
    · exact Lay.wfInsn h.1 hok.1 hs.1 hhi (by omega) x h1 hx i hat
    · exact Lay.wfInsn h.2 hok.2 hs.2 hhi (by omega) x (by omega) (by omega) i hat
  | .alt a c, b, lo, hi, h, hok, hs, hhi, hsz, x, h1, h2, i, hat => by
    simp only [Sk.size] at h2 hsz
    simp only [Lay] at h
    simp only [Sk.ok, Bool.and_eq_true] at hok
    simp only [Sk.gsc, Bool.and_eq_true] at hs
    obtain ⟨h0, ha, hj, hc⟩ := h
    by_cases hx0 : x = b
    · subst hx0; have := at_inj h0 hat; subst this
      simp only [VM.wfInsn, decide_eq_true_eq]; omega
    · by_cases hx1 : x < b + 1 + a.size
      · exact Lay.wfInsn ha hok.1 hs.1 hhi (by omega) x (by omega) hx1 i hat
      · by_cases hx2 : x = b + a.size + 1
        · subst hx2; have := at_inj hj hat; subst this
          simp only [VM.wfInsn, decide_eq_true_eq]; omega
        · exact Lay.wfInsn hc hok.2 hs.2 hhi (by omega) x (by omega) (by omega) i hat
  | .loop id mn mx gr g0 cnt body, b, lo, hi, h, hok, hs, hhi, hsz, x, h1, h2, i, hat => by
    simp only [Sk.size] at h2 hsz
    simp only [Lay] at h
    simp only [Sk.ok, Bool.and_eq_true, Bool.or_eq_true, decide_eq_true_eq] at hok
    simp only [Sk.gsc, Bool.and_eq_true, Bool.or_eq_true, decide_eq_true_eq] at hs
    obtain ⟨h0, hr, hb, hl⟩ := h
    by_cases hx0 : x = b
    · subst hx0; have := at_inj h0 hat; subst this
      simp only [VM.wfInsn, Bool.and_eq_true, decide_eq_true_eq]
      exact ⟨⟨hok.1.1.1, by omega⟩, hok.1.1.2⟩
    · by_cases hx1 : x < b + 1 + cnt
      · have := hr (x - (b + 1)) (by omega)
        rw [show b + 1 + (x - (b + 1)) = x by omega] at this
        have := at_inj this hat; subst this
        simp only [VM.wfInsn, decide_eq_true_eq]
        rcases hok.1.2 with hz | hz
        · omega
        · omega
      · by_cases hx2 : x < b + 1 + cnt + body.size
        · exact Lay.wfInsn hb hok.2 hs.1.2 hhi (by omega) x (by omega) hx2 i hat
        · have : x = b + 1 + cnt + body.size := by omega
          subst this; have := at_inj hl hat; subst this
          simp only [VM.wfInsn]
          unfold At at h0; rw [h0]
  | .loop1 mn mx gr body, b, lo, hi, h, hok, _, _, hsz, x, h1, h2, i, hat => by
    simp only [Sk.size] at h2 hsz
    simp only [Lay] at h
    simp only [Sk.ok, Bool.and_eq_true] at hok
    by_cases hx0 : x = b
    · subst hx0; have := at_inj h.1 hat; subst this
      have h2' := h.2; unfold At at h2'
      simp only [VM.wfInsn, h2', Bool.and_eq_true, decide_eq_true_eq]
      exact ⟨⟨hok.1.1.1.1, by omega⟩, hok.1.2, hok.2⟩
    · have : x = b + 1 := by omega
      subst this; have := at_inj h.2 hat; subst this
      exact leafWf_wfInsn _ hok.1.1.1.2 hok.1.1.2
  | .group g' body, b, lo, hi, h, hok, hs, hhi, hsz, x, h1, h2, i, hat => by
    simp only [Sk.size] at h2 hsz
    simp only [Lay] at h
    simp only [Sk.ok, Bool.and_eq_true, decide_eq_true_eq] at hok
    simp only [Sk.gsc, Bool.and_eq_true, decide_eq_true_eq] at hs
    obtain ⟨h0, hb, hl⟩ := h
    by_cases hx0 : x = b
    · subst hx0; have := at_inj h0 hat; subst this
      simp only [VM.wfInsn, decide_eq_true_eq]; exact hok.1
    · by_cases hx2 : x < b + 1 + body.size
      · exact Lay.wfInsn hb hok.2 hs.2 hhi (by omega) x (by omega) hx2 i hat
      · have : x = b + 1 + body.size := by omega
        subst this; have := at_inj hl hat; subst this
        simp only [VM.wfInsn, decide_eq_true_eq]; exact hok.1
  | .look neg bw sg eg body, b, lo, hi, h, hok, hs, hhi, hsz, x, h1, h2, i, hat => by
    simp only [Sk.size] at h2 hsz
    simp only [Lay] at h
    simp only [Sk.ok, Bool.and_eq_true, decide_eq_true_eq] at hok
    simp only [Sk.gsc, Bool.and_eq_true, decide_eq_true_eq] at hs
    obtain ⟨h0, hb, hl⟩ := h
    by_cases hx0 : x = b
    · subst hx0; have := at_inj h0 hat; subst this
      have := wfLook_of hb hok.2 hs.2 hl hok.1.1 hok.1.2 (by omega)
      cases bw <;> simpa [lookI, VM.wfInsn] using this
    · by_cases hx2 : x < b + 1 + body.size
      · exact Lay.wfInsn hb hok.2 hs.2 hok.1.2 (by omega) x (by omega) hx2 i hat
      · have : x = b + 1 + body.size := by omega
        subst this; have := at_inj hl hat; subst this
        rfl

theorem endsPlain_size_pos : ∀ {sk : Sk}, sk.endsPlain = true → 0 < sk.size
  | .nil, h => by simp [Sk.endsPlain] at h
  | .one i, _ => by simp [Sk.size]
  | .seq a c, h => by
    simp only [Sk.endsPlain] at h
    simp only [Sk.size]
    split at h
    · have := endsPlain_size_pos h; omega
    · have := endsPlain_size_pos h; omega
  | .alt _ _, h => by simp [Sk.endsPlain] at h
  | .loop _ _ _ _ _ _ _, h => by simp [Sk.endsPlain] at h
  | .loop1 _ _ _ _, h => by simp [Sk.endsPlain] at h
  | .group _ _, h => by simp [Sk.endsPlain] at h
  | .look _ _ _ _ _, h => by simp [Sk.endsPlain] at h

/-- The whole program: the root skeleton ends with a plain `Goal`/`JustFail` at the last address. -/
theorem Lay.root_wfInsn {p : Prog} : ∀ {sk : Sk} {b : Nat}, Lay p.insns sk b →
    sk.ok p.groups p.brackets.size p.loops = true → sk.gsc 0 p.groups = true →
    sk.endsPlain = true → b + sk.size = p.insns.size → ∀ x, b ≤ x → x < b + sk.size → ∀ i, At p.insns x i →
    VM.wfInsn p x i = true
  | .nil, _, _, _, _, he, _, _, _, _, _, _ => by simp [Sk.endsPlain] at he
  | .one i, b, h, hok, _, he, _, x, h1, h2, i', hat => by
    simp only [Sk.size] at h2
    have : x = b := by omega
    subst this
    simp only [Lay] at h
    have := at_inj h hat; subst this
    simp only [Sk.ok, Bool.and_eq_true] at hok
    exact leafWf_wfInsn x hok.1 hok.2
  | .seq a c, b, h, hok, hs, he, hsz, x, h1, h2, i, hat => by
    simp only [Sk.size] at h2 hsz
    simp only [Lay] at h
    simp only [Sk.ok, Bool.and_eq_true] at hok
    simp only [Sk.gsc, Bool.and_eq_true] at hs
    simp only [Sk.endsPlain] at he
    split at he
    · rename_i hc0
      exact Lay.root_wfInsn h.1 hok.1 hs.1 he (by omega) x h1 (by omega) i hat
    · rename_i hc0
      by_cases hx : x < b + a.size
      · exact Lay.wfInsn h.1 hok.1 hs.1 (Nat.le_refl _) (by omega) x h1 hx i hat
      · exact Lay.root_wfInsn h.2 hok.2 hs.2 he (by omega) x (by omega) (by omega) i hat
  | .alt _ _, _, _, _, _, he, _, _, _, _, _, _ => by simp [Sk.endsPlain] at he
  | .loop _ _ _ _ _ _ _, _, _, _, _, he, _, _, _, _, _, _ => by simp [Sk.endsPlain] at he
  | .loop1 _ _ _ _, _, _, _, _, he, _, _, _, _, _, _ => by simp [Sk.endsPlain] at he
  | .group _ _, _, _, _, _, he, _, _, _, _, _, _ => by simp [Sk.endsPlain] at he
  | .look _ _ _ _ _, _, _, _, _, he, _, _, _, _, _, _ => by simp [Sk.endsPlain] at he

/-- The last instruction of the root skeleton. -/
theorem Lay.root_last {I : Array Insn} : ∀ {sk : Sk} {b : Nat}, Lay I sk b → sk.endsPlain = true →
    At I (b + sk.size - 1) .goal ∨ At I (b + sk.size - 1) .justFail
  | .nil, _, _, he => by simp [Sk.endsPlain] at he
  | .one i, b, h, he => by
    simp only [Lay] at h
    simp only [Sk.size, Nat.add_sub_cancel]
    cases i <;> simp [Sk.endsPlain] at he
    · exact Or.inl h
    · exact Or.inr h
  | .seq a c, b, h, he => by
    simp only [Lay] at h
    simp only [Sk.endsPlain] at he
    simp only [Sk.size]
    split at he
    · rename_i hc0
      have := Lay.root_last h.1 he
      rw [hc0, Nat.add_zero]; exact this
    · have := Lay.root_last h.2 he
      rw [← Nat.add_assoc]; exact this
  | .alt _ _, _, _, he => by simp [Sk.endsPlain] at he
  | .loop _ _ _ _ _ _ _, _, _, he => by simp [Sk.endsPlain] at he
  | .loop1 _ _ _ _, _, _, he => by simp [Sk.endsPlain] at he
  | .group _ _, _, _, he => by simp [Sk.endsPlain] at he
  | .look _ _ _ _ _, _, _, he => by simp [Sk.endsPlain] at he

end Regress.Certs
