import Proofs.Lemmas.CertsOpt
import Proofs.Lemmas.CertsIR2
/-!
# Certificates, part 0c: the optimizer preserves `rangesExact` (hence `irOK2`)

No pass of `optimizer::optimize` changes the group range of a loop or of a look-around, or the list of
capture groups of a node (`CertsOpt.GR`); a node is only replaced by one of its sub-nodes, by a leaf, or
(`unroll_loops`) by copies of the loop body followed by the loop with the same range.  Hence
`rangesExact` of `Proofs/Lemmas/CertsIR2.lean` is preserved; lifted by `E2E.optimize_rel` with the
relation `GR2` = `GR` ∧ "`rangesExact` is preserved".
-/
namespace Regress.Certs

open Regress Regress.IR Regress.Keystone Regress.Closure Regress.E2E Regress.Gen

/-- The relation lifted through the walks: `GR`, and `rangesExact` is preserved. -/
def GR2 (n m : Node) : Prop := GR n m ∧ (rangesExact n = true → rangesExact m = true)

theorem RelList.mono {R S : Node → Node → Prop} (hRS : ∀ a b, R a b → S a b) :
    ∀ {ns ns' : List Node}, RelList R ns ns' → RelList S ns ns'
  | [], [], _ => trivial
  | [], _ :: _, h => by simp [RelList] at h
  | _ :: _, [], h => by simp [RelList] at h
  | _ :: _, _ :: _, h => ⟨hRS _ _ h.1, RelList.mono hRS h.2⟩

theorem GR2_congr : RelCongr GR2 where
  refl n := ⟨GR_congr.refl n, id⟩
  trans h1 h2 := ⟨GR_congr.trans h1.1 h2.1, fun h => h2.2 (h1.2 h)⟩
  cat h := by
    refine ⟨GR_congr.cat (RelList.mono (fun _ _ r => r.1) h), ?_⟩
    simp only [rangesExact, rangesExactList_iff]
    exact relList_forall (fun _ _ r => r.2) h
  alt h1 h2 := by
    refine ⟨GR_congr.alt h1.1 h2.1, ?_⟩
    simp only [rangesExact, Bool.and_eq_true]
    exact fun hk => ⟨h1.2 hk.1, h2.2 hk.2⟩
  group h := ⟨GR_congr.group h.1, by simpa only [rangesExact] using h.2⟩
  look h := by
    refine ⟨GR_congr.look h.1, ?_⟩
    simp only [rangesExact, groupIds, Bool.and_eq_true]
    rw [h.1.1]
    exact fun hk => ⟨hk.1, h.2 hk.2⟩
  loop h := by
    refine ⟨GR_congr.loop h.1, ?_⟩
    simp only [rangesExact, groupIds, Bool.and_eq_true]
    rw [h.1.1]
    exact fun hk => ⟨hk.1, h.2 hk.2⟩
  loop1 h := ⟨GR_congr.loop1 h.1, by simpa only [rangesExact] using h.2⟩

/-! ## The passes -/

theorem decat_step2 : PassStep OptIn decat GR2 := by
  intro m w a hm h
  refine ⟨decat_step m w a hm h, ?_⟩
  unfold decat at h
  split at h
  · rename_i nodes
    split at h
    · cases h; exact fun _ => rfl
    · cases h; simp [PassAction.result, rangesExact, rangesExactList]
    · split at h
      · cases h
        simp only [PassAction.result, rangesExact, rangesExactList_iff]
        exact decatLoop_all (P := fun n => rangesExact n = true)
          (fun nn hn => by simpa only [rangesExact, rangesExactList_iff] using hn) _ _ (by simp)
      · cases h; exact id
  · cases h; exact id

theorem removeEmpties_step2 : PassStep OptIn removeEmpties GR2 := by
  intro m w a hm h
  refine ⟨removeEmpties_step m w a hm h, ?_⟩
  unfold removeEmpties at h
  split at h
  all_goals try (cases h; exact id)
  · split at h
    · cases h; exact fun _ => rfl
    · cases h; exact id
  · rename_i nodes
    dsimp only at h
    have hsub : ∀ x ∈ nodes.filter (fun nn => !nn.isEmpty), x ∈ nodes := fun x hx => (List.mem_filter.1 hx).1
    split at h
    · cases h; exact id
    · split at h
      · cases h; exact fun _ => rfl
      · rename_i x heq
        cases h
        rw [heq] at hsub
        simp only [PassAction.result, rangesExact, rangesExactList_iff]
        exact fun hk => hk x (hsub x (by simp))
      · cases h
        simp only [PassAction.result, rangesExact, rangesExactList_iff]
        exact fun hk x hx => hk x (hsub x hx)
  · split at h
    · cases h; exact fun _ => rfl
    · cases h; exact id
  · split at h
    · cases h; exact fun _ => rfl
    · cases h; exact id
  · split at h
    · cases h; exact fun _ => rfl
    · cases h; exact id

theorem propagateEarlyFails_step2 : PassStep OptIn propagateEarlyFails GR2 := by
  intro m w a hm h
  refine ⟨propagateEarlyFails_step m w a hm h, ?_⟩
  unfold propagateEarlyFails at h
  split at h
  · cases h; exact id
  · split at h
    · split at h
      · cases h; exact fun _ => rfl
      · cases h; exact id
    · dsimp only at h
      split at h
      · cases h; exact fun _ => rfl
      · cases h; exact id
      · cases h; simp only [PassAction.result, rangesExact, Bool.and_eq_true]; exact fun hk => hk.2
      · cases h; simp only [PassAction.result, rangesExact, Bool.and_eq_true]; exact fun hk => hk.1
    · split at h
      · cases h; exact id
      · split at h
        · cases h; exact fun _ => rfl
        · cases h; exact id
    · cases h; exact id

theorem promote1CharLoops_step2 : PassStep OptIn promote1CharLoops GR2 := by
  intro m w a hm h
  refine ⟨promote1CharLoops_step m w a hm h, ?_⟩
  unfold promote1CharLoops at h
  split at h
  · split at h
    · cases h; exact id
    · split at h
      · cases h
      · cases h; simp only [PassAction.result, rangesExact, Bool.and_eq_true]; exact fun hk => hk.2
  · cases h; exact id

theorem unrollLoops_step2 : PassStep OptIn unrollLoops GR2 := by
  intro m w a hm h
  refine ⟨unrollLoops_step m w a hm h, ?_⟩
  unfold unrollLoops at h
  split at h
  · rename_i loopee quant g0 g1
    split at h
    · cases h; exact id
    · split at h
      · cases h; exact id
      · split at h
        · cases h; exact id
        · split at h
          · cases h
          · cases h; exact id
          · rename_i unrolled hdup
            cases h
            have hu := unrollDup_eq loopee quant.min [] unrolled hdup
            have hul : unrolled = List.replicate quant.min loopee := by simpa using hu.1
            subst hul
            intro hk
            have hb : rangesExact loopee = true := by
              simp only [rangesExact, Bool.and_eq_true] at hk; exact hk.2
            simp only [PassAction.result, rangesExact, rangesExactList_iff]
            intro x hx
            split at hx
            · rcases List.mem_append.1 hx with hx | hx
              · rw [List.eq_of_mem_replicate hx]; exact hb
              · rw [List.mem_singleton.1 hx]
                simpa only [rangesExact] using hk
            · rw [List.eq_of_mem_replicate hx]; exact hb
  · cases h; exact id

theorem formLiteralBytes_step2 : PassStep OptIn formLiteralBytes GR2 := by
  intro m w a hm h
  refine ⟨formLiteralBytes_step m w a hm h, ?_⟩
  unfold formLiteralBytes at h
  split at h
  · split at h
    · cases h; exact fun _ => rfl
    · cases h; exact id
  · split at h
    · cases h; exact fun _ => rfl
    · cases h; exact id
  · split at h
    · cases h; exact id
    · dsimp only at h
      split at h
      · cases h
        simp only [PassAction.result, rangesExact, rangesExactList_iff]
        exact mergeLiteralBytes_all (P := fun n => rangesExact n = true) (fun _ => rfl) _ _ _
      · cases h; exact id
  · cases h; exact id

theorem simplifyBrackets_step2 : PassStep OptIn simplifyBrackets GR2 := by
  intro m w a hm h
  refine ⟨simplifyBrackets_step m w a hm h, ?_⟩
  unfold simplifyBrackets at h
  split at h
  · split at h
    · rename_i newNode hred
      cases h
      obtain ⟨_, rfl⟩ := tryReduceBracket_some' hred
      exact fun _ => rfl
    · dsimp only at h
      split at h
      · cases h; exact fun _ => rfl
      · cases h; exact id
  · cases h; exact id

/-! ## The pipeline -/

theorem GR2_passes : PassesStep GR2 where
  simplifyBrackets := simplifyBrackets_step2
  decat := decat_step2
  unrollLoops := unrollLoops_step2
  promote1CharLoops := promote1CharLoops_step2
  formLiteralBytes := formLiteralBytes_step2
  removeEmpties := removeEmpties_step2
  propagateEarlyFails := propagateEarlyFails_step2

/-- **`optimize` preserves `rangesExact`**: on a tree satisfying C07's `OptIn` (parser output does). -/
theorem optimize_rangesExact {fuel : Nat} {r r' : Regex} (hr : OptIn r.node) (h : optimize fuel r = .ok r') :
    rangesExact r.node = true → rangesExact r'.node = true :=
  (optimize_rel GR2_congr GR2_passes hr h).1.2

/-- **`optimize` preserves `irOK2`.** -/
theorem optimize_irOK2 {fuel : Nat} {r r' : Regex} (hr : OptIn r.node) (h : optimize fuel r = .ok r')
    (hk : irOK2 r.node = true) : irOK2 r'.node = true := by
  simp only [irOK2, Bool.and_eq_true] at hk ⊢
  exact ⟨optimize_irOK hr h hk.1, optimize_rangesExact hr h hk.2⟩

/-! ## Non-vacuity -/

example : irOK2 exTree = true := by decide
example : irOK2 exTree2 = true := by decide
example : irOK2 exTree2Out = true := by decide

/-- The checker is not trivial: a loop that resets a group living outside of its body, a look-around
whose range names a group that is not inside. -/
example : rangesExact (.cat [.group 0 none (.char 97), .loop (.group 1 none (.char 98)) ⟨0, none, true⟩ 0 2,
    .goal]) = false := by decide
example : rangesExact (.cat [.look false false 0 1 (.char 97), .group 0 none (.char 97), .goal]) = false := by
  decide

end Regress.Certs
