import Proofs.Lemmas.CertsOrd
/-!
# Certificates: the CANONICAL capture-order certificate `mkOrd` passes `checkOrd` on every emitted program

`Safety.mkOrd prog` is a round-robin data-flow iteration (`ordSweep` repeated until nothing changes, at most
`2 * size + 2` times).  Main results (nothing is left unfinished):

* `Root.checkOrd_mk : checkOrd prog (mkOrd prog) = true` for `R : Root r prog sk`, `sk.begins.Nodup`, `sk.rex`
  (the same hypotheses as `Root.checkOrd_ex`), via the layout-level `checkOrd_mkOrd`.
* `mkOrd_fix : ordSweep prog (mkOrd prog) = mkOrd prog` (the iteration stops because a sweep changes nothing,
  not because the fuel runs out): on a laid-out skeleton the THIRD sweep changes nothing.

Structure of the proof.

1. (Parts 1–3, generic, no skeleton.)  Entries `OV = Option (Array Nat)` with the join `jn` (`none` neutral,
   `meetVec` otherwise) form a semilattice.  Certificates are viewed as functions `CF = Nat → Option OV`
   (`vw`), `ordPropagate`/`ordStepIp`/`ordSweep` become `propF`/`stepF`/`swF`.
   `checkOrd_of_fix`: a certificate `c` with `ordSweep prog c = c` that *dominates* some valid certificate `C`
   (`DomF`: wherever `c` has a vector, `C` has a weaker one) and whose vectors have size `groups` passes
   `checkOrd`: the `Begin`/`End` requirements are inherited from `C`; the edge conditions hold because every
   step of a sweep only descends (`LeF`), so a sweep that returns to its start is the identity at every single
   propagation (`foldl_fix`), i.e. `meetVec vt w = vt`, i.e. `weaker vt w`.  The invariants (`SzF`, `DomF`)
   are preserved by every sweep (`inv_swF`), whatever the number of sweeps.  For `C` we take the explicit
   coarse certificate `ordCert` of `CertsOrd.lean`.
2. (Parts 4–9, structural.)  `fo sk o`: the entry propagated to the exit of `sk` entered with `o : OV`;
   `ct s sk o`: the entries of the addresses of `sk` after `s` sweeps (`s = 0`: all `none`; `s = 1`: the
   forward solution, loop heads met with the back edge; `s ≥ 2`: final — only the entries of the
   `ResetCaptureGroup`s of loops differ from `s = 1`).  `sweep_sk`: folding `stepF` over the addresses of a
   laid-out skeleton whose segment holds `ct s sk o`, after joining `o` into its first address, overwrites the
   segment with `ct (s + 1) sk o` and joins `fo sk o` into the exit address — by induction over `Sk`, uniformly
   in `s`.  Needs `Sk.rex` and the loop clause of `Sk.gsc` only through the frame property `fo_frame` /
   `loop_frame` (the back edge of a loop does not change the vector at the body start).
3. (Parts 10–11.)  `ct 3 = ct 2`, hence the third sweep of the root changes nothing (`mkOrd_fix`), and
   `mkOrdLoop_fix`/`mkOrdLoop_inv` transfer fixpoint and invariants to `mkOrd prog`.
-/
namespace Regress.Certs

open Regress.VM Regress.Keystone Regress.VM.Safety

/-! ## Part 1: the join semilattice of certificate entries -/

/-- A certificate entry: `none` = unreachable. -/
abbrev OV := Option (Array Nat)

def mm (x y : Nat) : Nat := if x == y then x else 0

theorem mm_self (x : Nat) : mm x x = x := by simp [mm]
theorem mm_comm (x y : Nat) : mm x y = mm y x := by
  unfold mm; by_cases h : x = y <;> simp [h]
  intro h'; exact absurd h'.symm h
theorem mm_assoc (x y z : Nat) : mm (mm x y) z = mm x (mm y z) := by
  simp only [mm, beq_iff_eq]
  repeat' split
  all_goals omega

theorem getElem?_meetVec (a b : Array Nat) (g : Nat) :
    (meetVec a b)[g]? = match a[g]?, b[g]? with
      | some x, some y => some (mm x y)
      | _, _ => none := by
  rcases ha : a[g]? with _ | x <;> rcases hb : b[g]? with _ | y
  all_goals simp only [meetVec, Array.getElem?_map]
  · have : (a.zip b)[g]? = none := by
      rw [Array.getElem?_eq_none_iff] at ha ⊢; simp; omega
    simp [this]
  · have : (a.zip b)[g]? = none := by
      rw [Array.getElem?_eq_none_iff] at ha ⊢; simp; omega
    simp [this]
  · have : (a.zip b)[g]? = none := by
      rw [Array.getElem?_eq_none_iff] at hb ⊢; simp; omega
    simp [this]
  · have : (a.zip b)[g]? = some (x, y) := Array.getElem?_zip_eq_some.2 ⟨ha, hb⟩
    simp [this, mm]

theorem meetVec_self (a : Array Nat) : meetVec a a = a := by
  apply Array.ext_getElem?; intro g
  rw [getElem?_meetVec]; cases a[g]? <;> simp [mm_self]

theorem meetVec_comm (a b : Array Nat) : meetVec a b = meetVec b a := by
  apply Array.ext_getElem?; intro g
  rw [getElem?_meetVec, getElem?_meetVec]; cases a[g]? <;> cases b[g]? <;> simp [mm_comm]

theorem meetVec_assoc (a b c : Array Nat) : meetVec (meetVec a b) c = meetVec a (meetVec b c) := by
  apply Array.ext_getElem?; intro g
  simp only [getElem?_meetVec]; cases a[g]? <;> cases b[g]? <;> cases c[g]? <;> simp [mm_assoc]

/-- The join of a certificate entry with a propagated entry (`none` is neutral). -/
def jn : OV → OV → OV
  | p, none => p
  | none, some w => some w
  | some vt, some w => some (meetVec vt w)

@[simp] theorem jn_none_right (p : OV) : jn p none = p := by cases p <;> rfl
@[simp] theorem jn_none_left (p : OV) : jn none p = p := by cases p <;> rfl
@[simp] theorem jn_self (p : OV) : jn p p = p := by cases p <;> simp [jn, meetVec_self]
theorem jn_comm (p q : OV) : jn p q = jn q p := by
  cases p <;> cases q <;> simp [jn, meetVec_comm]
theorem jn_assoc (p q r : OV) : jn (jn p q) r = jn p (jn q r) := by
  cases p <;> cases q <;> cases r <;> simp [jn, meetVec_assoc]
theorem jn_absorb (p w : OV) : jn (jn p w) w = jn p w := by rw [jn_assoc, jn_self]
theorem jn_absorb_left (p w : OV) : jn (jn p w) p = jn p w := by
  rw [jn_comm p w, jn_assoc, jn_self]


/-! ## Part 2: certificates as functions; the sweep on functions -/

/-- A certificate seen as a function (`none` = out of bounds). -/
abbrev CF := Nat → Option OV

def vw (c : OrdCert) : CF := fun x => c[x]?

theorem vw_inj {c c' : OrdCert} (h : vw c = vw c') : c = c' :=
  Array.ext_getElem? fun i => congrFun h i

/-- Join `w` into the entry at `t`. -/
def propF (f : CF) (t : Nat) (w : OV) : CF := fun x => if x = t then (f t).map (jn · w) else f x

theorem propF_none (f : CF) (t : Nat) : propF f t none = f := by
  funext x; simp only [propF, jn_none_right]
  split
  · rename_i h; subst h; cases f x <;> rfl
  · rfl

theorem vw_propagate (c : OrdCert) (t : Nat) (w : Array Nat) :
    vw (ordPropagate c t w) = propF (vw c) t (some w) := by
  funext x
  simp only [vw, propF, ordPropagate]
  rcases hc : c[t]? with _ | (_ | vt)
  · simp only [Option.map_none]
    split
    · rename_i h; subst h; exact hc
    · rfl
  · simp only [Array.getElem?_setIfInBounds]
    have hlt := lt_of_getElem?_eq_some hc
    by_cases h : x = t
    · subst h; simp [hlt, jn]
    · have : ¬ t = x := fun e => h e.symm
      simp [h, this]
  · simp only [Array.getElem?_setIfInBounds]
    have hlt := lt_of_getElem?_eq_some hc
    by_cases h : x = t
    · subst h; simp [hlt, jn]
    · have : ¬ t = x := fun e => h e.symm
      simp [h, this]

def edgeF (f : CF) (tw : Nat × Array Nat) : CF := propF f tw.1 (some tw.2)

def stepF (prog : Prog) (f : CF) (ip : Nat) : CF :=
  match prog.insns[ip]?, f ip with
  | some insn, some (some v) => (ordEdges prog ip insn v).foldl edgeF f
  | _, _ => f

theorem vw_foldl (l : List (Nat × Array Nat)) (c : OrdCert) :
    vw (l.foldl (fun c tw => ordPropagate c tw.1 tw.2) c) = l.foldl edgeF (vw c) := by
  induction l generalizing c with
  | nil => rfl
  | cons tw l ih => rw [List.foldl_cons, List.foldl_cons, ih, vw_propagate]; rfl

theorem vw_step (prog : Prog) (c : OrdCert) (ip : Nat) :
    vw (ordStepIp prog c ip) = stepF prog (vw c) ip := by
  unfold ordStepIp stepF
  simp only [vw]
  rcases prog.insns[ip]? with _ | insn
  · rfl
  · rcases hc : c[ip]? with _ | (_ | v)
    · rfl
    · rfl
    · exact vw_foldl _ c

def swF (prog : Prog) (l : List Nat) (f : CF) : CF := l.foldl (stepF prog) f

theorem swF_append (prog : Prog) (l1 l2 : List Nat) (f : CF) :
    swF prog (l1 ++ l2) f = swF prog l2 (swF prog l1 f) := List.foldl_append

theorem swF_cons (prog : Prog) (x : Nat) (l : List Nat) (f : CF) :
    swF prog (x :: l) f = swF prog l (stepF prog f x) := rfl

theorem swF_nil (prog : Prog) (f : CF) : swF prog [] f = f := rfl

theorem vw_swl (prog : Prog) (l : List Nat) (c : OrdCert) :
    vw (l.foldl (ordStepIp prog) c) = swF prog l (vw c) := by
  induction l generalizing c with
  | nil => rfl
  | cons x l ih => rw [List.foldl_cons, ih, vw_step]; rfl

theorem vw_sweep (prog : Prog) (c : OrdCert) :
    vw (ordSweep prog c) = swF prog (List.range' 0 prog.insns.size) (vw c) := by
  unfold ordSweep; rw [vw_swl, List.range_eq_range']

/-! ### `mkOrdLoop` stops at a fixpoint -/

def swN (prog : Prog) : Nat → OrdCert → OrdCert
  | 0, c => c
  | k + 1, c => swN prog k (ordSweep prog c)

theorem mkOrdLoop_fix (prog : Prog) : ∀ (n k : Nat) (c : OrdCert), k < n →
    ordSweep prog (swN prog k c) = swN prog k c →
    ordSweep prog (mkOrdLoop prog n c) = mkOrdLoop prog n c
  | 0, _, _, h, _ => by omega
  | n + 1, k, c, hk, hfix => by
    unfold mkOrdLoop
    simp only
    split
    · rename_i h; exact eq_of_beq h
    · rename_i h
      cases k with
      | zero => simp only [swN] at hfix; rw [hfix] at h; simp at h
      | succ k => exact mkOrdLoop_fix prog n k _ (by omega) hfix

theorem mkOrdLoop_inv (prog : Prog) (P : OrdCert → Prop) (hP : ∀ c, P c → P (ordSweep prog c)) :
    ∀ (n : Nat) (c : OrdCert), P c → P (mkOrdLoop prog n c)
  | 0, _, h => h
  | n + 1, c, h => by
    unfold mkOrdLoop
    simp only
    split
    · exact h
    · exact mkOrdLoop_inv prog P hP n _ (hP c h)


/-! ## Part 3: a fixpoint of the sweep that dominates a valid certificate is valid -/

/-- `weaker` as a proposition (no size condition). -/
def Wk (vt w : Array Nat) : Prop := ∀ g : Nat, vt[g]? = some 0 ∨ vt[g]? = w[g]?

theorem weaker_iff {vt w : Array Nat} : weaker vt w = true ↔ Wk vt w := by
  simp only [weaker, List.all_eq_true, List.mem_range, Bool.or_eq_true, beq_iff_eq]
  constructor
  · intro h g
    by_cases hg : g < max vt.size w.size
    · exact h g hg
    · right
      rw [Array.getElem?_eq_none (by omega), Array.getElem?_eq_none (by omega)]
  · intro h g _; exact h g

theorem Wk.trans {a b c : Array Nat} (h1 : Wk a b) (h2 : Wk b c) : Wk a c := by
  intro g
  rcases h1 g with h | h
  · exact Or.inl h
  · rcases h2 g with h' | h'
    · left; rw [h, h']
    · right; rw [h, h']

theorem Wk.meet {a x y : Array Nat} (h1 : Wk a x) (h2 : Wk a y) : Wk a (meetVec x y) := by
  intro g
  rcases h1 g with h | h
  · exact Or.inl h
  · rcases h2 g with h' | h'
    · exact Or.inl h'
    · right
      rw [getElem?_meetVec, ← h, ← h']
      cases a[g]? <;> simp [mm_self]

theorem Wk.set {a b : Array Nat} (h : Wk a b) (hs : a.size = b.size) (g k : Nat) :
    Wk (a.setIfInBounds g k) (b.setIfInBounds g k) := by
  intro x
  simp only [Array.getElem?_setIfInBounds, hs]
  by_cases hx : g = x
  · simp [hx]
  · simp only [hx, if_false]; exact h x

theorem Wk.lookBody {a b : Array Nat} (h : Wk a b) : Wk (lookBodyVec a) (lookBodyVec b) := by
  intro x
  simp only [getElem?_lookBodyVec]
  rcases h x with h | h
  · left; rw [h]; rfl
  · right; rw [h]

theorem Wk.lookCont {a b : Array Nat} (h : Wk a b) (neg : Bool) (sg eg : Nat) :
    Wk (lookContVec neg sg eg a) (lookContVec neg sg eg b) := by
  intro x
  simp only [getElem?_lookContVec]
  rcases h x with h | h
  · left; rw [h]; split <;> rfl
  · right; rw [h]

theorem Wk.outVec {a b : Array Nat} (h : Wk a b) (hs : a.size = b.size) (insn : Insn) :
    Wk (outVec insn a) (outVec insn b) := by
  cases insn <;> first | exact h | exact h.set hs _ _

/-- The edges depend monotonically on the vector. -/
theorem edges_mono (prog : Prog) (ip : Nat) (insn : Insn) {vC v : Array Nat} (h : Wk vC v)
    (hs : vC.size = v.size) : ∀ tw ∈ ordEdges prog ip insn v,
      ∃ wC, (tw.1, wC) ∈ ordEdges prog ip insn vC ∧ Wk wC tw.2 := by
  have gen : ∀ tw ∈ (allSuccs prog ip insn).map (fun t => (t, outVec insn v)),
      ∃ wC, (tw.1, wC) ∈ (allSuccs prog ip insn).map (fun t => (t, outVec insn vC)) ∧ Wk wC tw.2 := by
    intro tw htw
    simp only [List.mem_map] at htw ⊢
    obtain ⟨t, ht, rfl⟩ := htw
    exact ⟨_, ⟨t, ht, rfl⟩, h.outVec hs insn⟩
  have look : ∀ neg sg eg k, ∀ tw ∈ [(ip + 1, lookBodyVec v), (k, lookContVec neg sg eg v)],
      ∃ wC, (tw.1, wC) ∈ [(ip + 1, lookBodyVec vC), (k, lookContVec neg sg eg vC)] ∧ Wk wC tw.2 := by
    intro neg sg eg k tw htw
    simp only [List.mem_cons, List.not_mem_nil, or_false] at htw
    rcases htw with rfl | rfl
    · exact ⟨_, by simp, h.lookBody⟩
    · exact ⟨_, by simp, h.lookCont neg sg eg⟩
  cases insn <;> first | exact gen | exact look _ _ _ _

theorem edges_size (prog : Prog) (ip : Nat) (insn : Insn) (v : Array Nat) :
    ∀ tw ∈ ordEdges prog ip insn v, tw.2.size = v.size := by
  have gen : ∀ tw ∈ (allSuccs prog ip insn).map (fun t => (t, outVec insn v)), tw.2.size = v.size := by
    intro tw htw
    simp only [List.mem_map] at htw
    obtain ⟨t, _, rfl⟩ := htw
    cases insn <;> simp [outVec]
  cases insn <;> first | exact gen | (intro tw htw; simp [ordEdges] at htw; rcases htw with rfl | rfl <;> simp)

theorem size_meetVec (a b : Array Nat) : (meetVec a b).size = min a.size b.size := by
  simp [meetVec]


/-- All vectors of a certificate have size `G`. -/
def SzF (G : Nat) (f : CF) : Prop := ∀ x v, f x = some (some v) → v.size = G

/-- `f` dominates the certificate `C`: wherever `f` has a vector, `C` has a weaker one. -/
def DomF (C : OrdCert) (f : CF) : Prop := ∀ x v, f x = some (some v) → ∃ vt, C[x]? = some (some vt) ∧ Wk vt v

theorem SzF.propF {G : Nat} {f : CF} (h : SzF G f) {t : Nat} {w : Array Nat} (hw : w.size = G) :
    SzF G (propF f t (some w)) := by
  intro x v hx
  simp only [Regress.Certs.propF] at hx
  split at hx
  · rename_i e; subst e
    rcases hf : f x with _ | (_ | u)
    · rw [hf] at hx; cases hx
    · rw [hf] at hx; simp [jn] at hx; subst hx; exact hw
    · rw [hf] at hx; simp [jn] at hx; subst hx
      rw [size_meetVec, h x u hf, hw]; simp
  · exact h x v hx

theorem DomF.propF {C : OrdCert} {f : CF} (h : DomF C f) {t : Nat} {w : Array Nat}
    (hw : ∃ vt, C[t]? = some (some vt) ∧ Wk vt w) : DomF C (propF f t (some w)) := by
  intro x v hx
  simp only [Regress.Certs.propF] at hx
  split at hx
  · rename_i e; subst e
    rcases hf : f x with _ | (_ | u)
    · rw [hf] at hx; cases hx
    · rw [hf] at hx; simp [jn] at hx; subst hx; exact hw
    · rw [hf] at hx; simp [jn] at hx; subst hx
      obtain ⟨vt, h1, h2⟩ := hw
      obtain ⟨vt', h1', h2'⟩ := h x u hf
      rw [h1] at h1'; cases h1'
      exact ⟨vt, h1, h2'.meet h2⟩
  · exact h x v hx

/-- One step preserves the invariants. -/
theorem inv_step {prog : Prog} {C : OrdCert} {G : Nat} (hC : checkOrd prog C = true)
    (hCs : ∀ (x : Nat) (v : Array Nat), C[x]? = some (some v) → v.size = G) {f : CF} (hs : SzF G f) (hd : DomF C f) (ip : Nat) :
    SzF G (stepF prog f ip) ∧ DomF C (stepF prog f ip) := by
  unfold stepF
  rcases hi : prog.insns[ip]? with _ | insn
  · exact ⟨hs, hd⟩
  · rcases hf : f ip with _ | (_ | v)
    · exact ⟨hs, hd⟩
    · exact ⟨hs, hd⟩
    · simp only
      obtain ⟨vC, hvC, hW⟩ := hd ip v hf
      have hsz : vC.size = v.size := by rw [hCs ip vC hvC, hs ip v hf]
      have key : ∀ (l : List (Nat × Array Nat)), (∀ tw ∈ l, tw ∈ ordEdges prog ip insn v) → ∀ f' : CF,
          SzF G f' → DomF C f' → SzF G (l.foldl edgeF f') ∧ DomF C (l.foldl edgeF f') := by
        intro l
        induction l with
        | nil => intro _ f' h1 h2; exact ⟨h1, h2⟩
        | cons tw l ih =>
          intro hl f' h1 h2
          rw [List.foldl_cons]
          have hmem := hl tw List.mem_cons_self
          obtain ⟨wC, hwC, hWk⟩ := edges_mono prog ip insn hW hsz tw hmem
          obtain ⟨vt, hvt, hwk⟩ := (checkOrd_spec hC hi hvC).2.2 _ _ hwC
          refine ih (fun tw' h' => hl tw' (List.mem_cons_of_mem _ h')) _ (h1.propF ?_) (h2.propF ?_)
          · rw [edges_size prog ip insn v tw hmem, hs ip v hf]
          · exact ⟨vt, hvt, (weaker_iff.1 hwk).trans hWk⟩
      exact key _ (fun _ h => h) f hs hd

theorem inv_swF {prog : Prog} {C : OrdCert} {G : Nat} (hC : checkOrd prog C = true)
    (hCs : ∀ (x : Nat) (v : Array Nat), C[x]? = some (some v) → v.size = G) (l : List Nat) {f : CF} (hs : SzF G f) (hd : DomF C f) :
    SzF G (swF prog l f) ∧ DomF C (swF prog l f) := by
  induction l generalizing f with
  | nil => exact ⟨hs, hd⟩
  | cons x l ih =>
    rw [swF_cons]
    obtain ⟨h1, h2⟩ := inv_step hC hCs hs hd x
    exact ih h1 h2

/-! ### Descent -/

/-- `f` is obtained from `f'` by joining something at every address. -/
def LeF (f f' : CF) : Prop := ∀ x, ∃ w, f x = (f' x).map (jn · w)

theorem LeF.refl (f : CF) : LeF f f := fun x => ⟨none, by cases f x <;> simp⟩

theorem LeF.trans {f g h : CF} (h1 : LeF f g) (h2 : LeF g h) : LeF f h := by
  intro x
  obtain ⟨w1, e1⟩ := h1 x
  obtain ⟨w2, e2⟩ := h2 x
  refine ⟨jn w2 w1, ?_⟩
  rw [e1, e2]
  cases h x <;> simp [jn_assoc]

theorem propF_le (f : CF) (t : Nat) (w : OV) : LeF (propF f t w) f := by
  intro x
  simp only [propF]
  split
  · rename_i e; subst e; exact ⟨w, rfl⟩
  · exact ⟨none, by cases f x <;> simp⟩

theorem LeF.sandwich {f0 f1 f2 : CF} (h1 : LeF f1 f0) (h2 : LeF f2 f1) (e : f2 = f0) : f1 = f0 := by
  funext x
  obtain ⟨w1, e1⟩ := h1 x
  obtain ⟨w2, e2⟩ := h2 x
  rw [e, e1] at e2
  rw [e1]
  rcases hf : f0 x with _ | p
  · rfl
  · rw [hf] at e2
    simp only [Option.map_some, Option.some.injEq] at e2 ⊢
    calc jn p w1 = jn (jn (jn p w1) w2) w1 := by rw [← e2]
      _ = jn (jn p w1) w2 := by rw [jn_assoc (jn p w1), jn_comm w2 w1, ← jn_assoc (jn p w1), jn_absorb]
      _ = p := e2.symm

theorem foldl_le {α} (step : CF → α → CF) (hdesc : ∀ f a, LeF (step f a) f) (l : List α) (f : CF) :
    LeF (l.foldl step f) f := by
  induction l generalizing f with
  | nil => exact LeF.refl f
  | cons a l ih => rw [List.foldl_cons]; exact (ih _).trans (hdesc f a)

/-- A descending fold that returns to its start is the identity at every step. -/
theorem foldl_fix {α} (step : CF → α → CF) (hdesc : ∀ f a, LeF (step f a) f) (l : List α) (f : CF)
    (h : l.foldl step f = f) : ∀ a ∈ l, step f a = f := by
  induction l with
  | nil => intro a ha; cases ha
  | cons a l ih =>
    rw [List.foldl_cons] at h
    have e1 : step f a = f := LeF.sandwich (hdesc f a) (foldl_le step hdesc l _) h
    rw [e1] at h
    intro a' ha'
    rcases List.mem_cons.1 ha' with rfl | hm
    · exact e1
    · exact ih h a' hm

theorem edgeF_le (f : CF) (tw : Nat × Array Nat) : LeF (edgeF f tw) f := propF_le f _ _

theorem stepF_le (prog : Prog) (f : CF) (ip : Nat) : LeF (stepF prog f ip) f := by
  unfold stepF
  split
  · exact foldl_le edgeF edgeF_le _ f
  · exact LeF.refl f


theorem meet_eq_weaker {vt w : Array Nat} (h : meetVec vt w = vt) (hs : vt.size = w.size) :
    weaker vt w = true := by
  rw [weaker_iff]
  intro g
  have := congrArg (fun a : Array Nat => a[g]?) h
  simp only [getElem?_meetVec] at this
  rcases hv : vt[g]? with _ | x
  · right; rw [Array.getElem?_eq_none_iff] at hv; rw [Array.getElem?_eq_none (by omega)]
  · rcases hw : w[g]? with _ | y
    · rw [hv, hw] at this; cases this
    · rw [hv, hw] at this
      simp only [mm, beq_iff_eq, Option.some.injEq] at this
      by_cases hxy : x = y
      · right; rw [hxy]
      · left; rw [if_neg hxy] at this; rw [← this]

/-- **A fixpoint of the sweep that dominates a valid certificate is valid.** -/
theorem checkOrd_of_fix {prog : Prog} {C c : OrdCert} (hC : checkOrd prog C = true)
    (hCs : ∀ (x : Nat) (v : Array Nat), C[x]? = some (some v) → v.size = prog.groups)
    (hfix : ordSweep prog c = c) (hsz : c.size = prog.insns.size)
    (h0 : c[0]? = some (some (Array.replicate prog.groups 1)))
    (hs : SzF prog.groups (vw c)) (hd : DomF C (vw c))
    (hb : ∀ ip insn v, prog.insns[ip]? = some insn → ∀ tw ∈ ordEdges prog ip insn v, tw.1 < prog.insns.size) :
    checkOrd prog c = true := by
  simp only [checkOrd, Bool.and_eq_true, beq_iff_eq, List.all_eq_true, List.mem_range]
  refine ⟨h0, fun ip hip => ?_⟩
  obtain ⟨insn, hi⟩ := getElem?_of_lt' hip
  rw [hi]
  simp only
  have hfixF : swF prog (List.range' 0 prog.insns.size) (vw c) = vw c := by
    rw [← vw_sweep, hfix]
  have hstep : stepF prog (vw c) ip = vw c :=
    foldl_fix (stepF prog) (stepF_le prog) _ _ hfixF ip (by simp [List.mem_range'_1]; exact hip)
  unfold checkOrdInsn
  rcases hc : c[ip]? with _ | (_ | v)
  · rw [Array.getElem?_eq_none_iff] at hc; omega
  · rfl
  · simp only [Bool.and_eq_true, List.all_eq_true]
    obtain ⟨vC, hvC, hW⟩ := hd ip v hc
    have hspec := checkOrd_spec hC hi hvC
    have hvsz : v.size = prog.groups := hs ip v hc
    have hsz' : vC.size = v.size := by rw [hCs ip vC hvC, hvsz]
    refine ⟨?_, ?_⟩
    · have h1 : ∀ g : Nat, vC[g]? = some 1 → v[g]? = some 1 := by
        intro g hg
        rcases hW g with h | h
        · rw [hg] at h; cases h
        · rw [← h]; exact hg
      have h2 : ∀ g : Nat, vC[g]? = some 2 → v[g]? = some 2 := by
        intro g hg
        rcases hW g with h | h
        · rw [hg] at h; cases h
        · rw [← h]; exact hg
      cases insn <;> first | rfl | (simp only [beq_iff_eq]; first | exact h1 _ (hspec.1 _ rfl) | exact h2 _ (hspec.2.1 _ rfl))
    · intro tw htw
      have hst : (ordEdges prog ip insn v).foldl edgeF (vw c) = vw c := by
        have := hstep
        unfold stepF at this
        simp only [hi] at this
        have hv : vw c ip = some (some v) := hc
        rw [hv] at this
        exact this
      have hedge := foldl_fix edgeF edgeF_le _ _ hst tw htw
      have hlt : tw.1 < c.size := by rw [hsz]; exact hb ip insn v hi tw htw
      obtain ⟨wC, hwC, hWk⟩ := edges_mono prog ip insn hW hsz' tw htw
      obtain ⟨vtC, hvtC, hwk⟩ := hspec.2.2 _ _ hwC
      have hwsz : tw.2.size = prog.groups := by rw [edges_size prog ip insn v tw htw, hvsz]
      have hat := congrFun hedge tw.1
      simp only [edgeF, propF, if_true] at hat
      have hvw : vw c tw.1 = c[tw.1]? := rfl
      rw [hvw] at hat
      rcases hct : c[tw.1]? with _ | (_ | vt)
      · rw [Array.getElem?_eq_none_iff] at hct; omega
      · rw [hct] at hat; simp [jn] at hat
      · rw [hct] at hat
        simp only [Option.map_some, jn, Option.some.injEq] at hat
        simp only
        exact meet_eq_weaker hat (by rw [hs tw.1 vt hct, hwsz])


/-! ## Part 4: the symbolic flow over a skeleton -/

/-- `v` with the groups `[g0, g0 + k)` set to *clean*. -/
def setR (g0 k : Nat) (v : Array Nat) : Array Nat :=
  v.mapIdx (fun g x => if g0 ≤ g ∧ g < g0 + k then 1 else x)

/-- The plain instructions without successor. -/
def isTerm : Insn → Bool
  | .goal | .justFail => true
  | _ => false

/-- The entry propagated to the exit address of a skeleton entered with `o`. -/
def fo : Sk → OV → OV
  | .nil, o => o
  | .one i, o => if isTerm i then none else o
  | .seq a c, o => fo c (fo a o)
  | .alt a c, o => jn (fo a o) (fo c o)
  | .loop _ _ _ _ g0 cnt body, o => jn o (fo body (o.map (setR g0 cnt)))
  | .loop1 _ _ _ _, o => o
  | .group g body, o => (fo body (o.map (·.setIfInBounds g 2))).map (·.setIfInBounds g 0)
  | .look neg _ sg eg _, o => o.map (lookContVec neg sg eg)

/-- Stage `0` (before the first sweep): nothing. -/
def gate (s : Nat) (x : OV) : OV := if s = 0 then none else x

/-- The entry of the `k`-th reset of a loop after `s` sweeps. -/
def rs (s g0 : Nat) (o back : OV) (k : Nat) : OV :=
  if s = 0 then none else if s = 1 then (if k = 0 then jn o back else o.map (setR g0 k))
  else (jn o back).map (setR g0 k)

/-- The entries of the addresses of a skeleton entered with `o`, after `s` sweeps (`s ≥ 2`: final). -/
def ct (s : Nat) : Sk → OV → List OV
  | .nil, _ => []
  | .one _, o => [gate s o]
  | .seq a c, o => ct s a o ++ ct s c (fo a o)
  | .alt a c, o => [gate s o] ++ ct s a o ++ [gate s (fo a o)] ++ ct s c o
  | .loop _ _ _ _ g0 cnt body, o =>
    [gate s o] ++ (List.range cnt).map (rs s g0 o (fo body (o.map (setR g0 cnt)))) ++
      ct s body (o.map (setR g0 cnt)) ++ [gate s (fo body (o.map (setR g0 cnt)))]
  | .loop1 _ _ _ _, o => [gate s o, none]
  | .group g body, o => [gate s o] ++ ct s body (o.map (·.setIfInBounds g 2)) ++
      [gate s (fo body (o.map (·.setIfInBounds g 2)))]
  | .look _ _ _ _ body, o => [gate s o] ++ ct s body (o.map lookBodyVec) ++ [gate s (fo body (o.map lookBodyVec))]


/-! ## Part 5: one step at each kind of instruction -/

theorem step_one {prog : Prog} {f : CF} {ip : Nat} {i : Insn} (hi : At prog.insns ip i) (hp : plain i = true)
    {o : OV} (hf : f ip = some o) : stepF prog f ip = propF f (ip + 1) (fo (.one i) o) := by
  unfold At at hi
  unfold stepF
  rw [hi, hf]
  cases o with
  | none => simp [fo, propF_none]
  | some v => cases i <;> simp [plain] at hp <;> simp [fo, isTerm, ordEdges, allSuccs, outVec, edgeF, propF_none]

theorem step_alt {prog : Prog} {f : CF} {ip t : Nat} (hi : At prog.insns ip (.alt t))
    {o : OV} (hf : f ip = some o) : stepF prog f ip = propF (propF f (ip + 1) o) t o := by
  unfold At at hi
  unfold stepF
  rw [hi, hf]
  cases o with
  | none => simp [propF_none]
  | some v => simp [ordEdges, allSuccs, outVec, edgeF]

theorem step_jump {prog : Prog} {f : CF} {ip t : Nat} (hi : At prog.insns ip (.jump t))
    {o : OV} (hf : f ip = some o) : stepF prog f ip = propF f t o := by
  unfold At at hi
  unfold stepF
  rw [hi, hf]
  cases o with
  | none => simp [propF_none]
  | some v => simp [ordEdges, allSuccs, outVec, edgeF]

theorem step_enter {prog : Prog} {f : CF} {ip id mn : Nat} {mx : Option Nat} {gr : Bool} {t : Nat}
    (hi : At prog.insns ip (.enterLoop id mn mx gr t))
    {o : OV} (hf : f ip = some o) : stepF prog f ip = propF (propF f (ip + 1) o) t o := by
  unfold At at hi
  unfold stepF
  rw [hi, hf]
  cases o with
  | none => simp [propF_none]
  | some v => simp [ordEdges, allSuccs, outVec, edgeF]

theorem step_again {prog : Prog} {f : CF} {ip b id mn : Nat} {mx : Option Nat} {gr : Bool} {t : Nat}
    (hi : At prog.insns ip (.loopAgain b)) (hb : At prog.insns b (.enterLoop id mn mx gr t))
    {o : OV} (hf : f ip = some o) : stepF prog f ip = propF (propF f (b + 1) o) t o := by
  unfold At at hi hb
  unfold stepF
  rw [hi, hf]
  cases o with
  | none => simp [propF_none]
  | some v => simp [ordEdges, allSuccs, hb, outVec, edgeF]

theorem step_reset {prog : Prog} {f : CF} {ip g : Nat} (hi : At prog.insns ip (.resetCaptureGroup g))
    {o : OV} (hf : f ip = some o) : stepF prog f ip = propF f (ip + 1) (o.map (·.setIfInBounds g 1)) := by
  unfold At at hi
  unfold stepF
  rw [hi, hf]
  cases o with
  | none => simp [propF_none]
  | some v => simp [ordEdges, allSuccs, outVec, edgeF]

theorem step_begin {prog : Prog} {f : CF} {ip g : Nat} (hi : At prog.insns ip (.beginCaptureGroup g))
    {o : OV} (hf : f ip = some o) : stepF prog f ip = propF f (ip + 1) (o.map (·.setIfInBounds g 2)) := by
  unfold At at hi
  unfold stepF
  rw [hi, hf]
  cases o with
  | none => simp [propF_none]
  | some v => simp [ordEdges, allSuccs, outVec, edgeF]

theorem step_end {prog : Prog} {f : CF} {ip g : Nat} (hi : At prog.insns ip (.endCaptureGroup g))
    {o : OV} (hf : f ip = some o) : stepF prog f ip = propF f (ip + 1) (o.map (·.setIfInBounds g 0)) := by
  unfold At at hi
  unfold stepF
  rw [hi, hf]
  cases o with
  | none => simp [propF_none]
  | some v => simp [ordEdges, allSuccs, outVec, edgeF]

theorem step_loop1 {prog : Prog} {f : CF} {ip mn : Nat} {mx : Option Nat} {gr : Bool}
    (hi : At prog.insns ip (.loop1 mn mx gr))
    {o : OV} (hf : f ip = some o) : stepF prog f ip = propF f (ip + 2) o := by
  unfold At at hi
  unfold stepF
  rw [hi, hf]
  cases o with
  | none => simp [propF_none]
  | some v => simp [ordEdges, allSuccs, outVec, edgeF]

theorem step_look {prog : Prog} {f : CF} {ip : Nat} {neg bw : Bool} {sg eg k : Nat}
    (hi : At prog.insns ip (lookI neg bw sg eg k))
    {o : OV} (hf : f ip = some o) :
    stepF prog f ip = propF (propF f (ip + 1) (o.map lookBodyVec)) k (o.map (lookContVec neg sg eg)) := by
  unfold At at hi
  unfold stepF
  rw [hi, hf]
  cases o with
  | none => simp [propF_none]
  | some v => cases bw <;> simp [lookI, ordEdges, edgeF]

/-- An unreachable instruction does nothing. -/
theorem step_none {prog : Prog} {f : CF} {ip : Nat} (hf : f ip = some none) : stepF prog f ip = f := by
  unfold stepF
  rw [hf]
  cases prog.insns[ip]? <;> rfl


/-! ## Part 6: overwriting a segment; contents of a segment -/

/-- Overwrite the (in-bounds) entries at `[b, b + L.length)` with `L`. -/
def ovw (f : CF) (b : Nat) (L : List OV) : CF :=
  fun x => if b ≤ x ∧ x < b + L.length then (f x).map (fun _ => (L[x - b]?).getD none) else f x

theorem ovw_nil (f : CF) (b : Nat) : ovw f b [] = f := by
  funext x; simp only [ovw, List.length_nil, Nat.add_zero]
  rw [if_neg (by omega)]

theorem ovw_append (f : CF) (b : Nat) (L1 L2 : List OV) :
    ovw f b (L1 ++ L2) = ovw (ovw f b L1) (b + L1.length) L2 := by
  funext x
  simp only [ovw, List.length_append]
  by_cases h1 : b ≤ x ∧ x < b + L1.length
  · rw [if_pos (by omega), if_neg (by omega), if_pos h1, List.getElem?_append_left (by omega)]
  · by_cases h2 : b + L1.length ≤ x ∧ x < b + L1.length + L2.length
    · rw [if_pos (by omega), if_pos h2, if_neg h1, List.getElem?_append_right (by omega)]
      rw [show x - b - L1.length = x - (b + L1.length) by omega]
    · rw [if_neg (by omega), if_neg h2, if_neg h1]

/-- The segment at `b` holds the entries `L`. -/
def Has (f : CF) (b : Nat) (L : List OV) : Prop := ∀ i p, L[i]? = some p → f (b + i) = some p

theorem Has.nil (f : CF) (b : Nat) : Has f b [] := by intro i p h; simp at h

theorem has_append {f : CF} {b : Nat} {L1 L2 : List OV} :
    Has f b (L1 ++ L2) ↔ Has f b L1 ∧ Has f (b + L1.length) L2 := by
  constructor
  · intro h
    refine ⟨fun i p hi => ?_, fun i p hi => ?_⟩
    · have hlt : i < L1.length := by
        by_cases hlt : i < L1.length
        · exact hlt
        · rw [List.getElem?_eq_none (by omega)] at hi; cases hi
      exact h i p (by rw [List.getElem?_append_left hlt]; exact hi)
    · have := h (L1.length + i) p (by rw [List.getElem?_append_right (by omega), Nat.add_sub_cancel_left]; exact hi)
      rwa [← Nat.add_assoc] at this
  · rintro ⟨h1, h2⟩ i p hi
    by_cases hlt : i < L1.length
    · rw [List.getElem?_append_left hlt] at hi; exact h1 i p hi
    · rw [List.getElem?_append_right (by omega)] at hi
      have := h2 (i - L1.length) p hi
      rwa [show b + L1.length + (i - L1.length) = b + i by omega] at this

theorem has_single {f : CF} {b : Nat} {p : OV} : Has f b [p] ↔ f b = some p := by
  constructor
  · intro h; exact h 0 p rfl
  · intro h i q hi
    cases i with
    | zero => simp at hi; subst hi; exact h
    | succ i => simp at hi

theorem Has.congr {f f' : CF} {b : Nat} {L : List OV} (h : Has f b L)
    (e : ∀ x, b ≤ x → x < b + L.length → f' x = f x) : Has f' b L := by
  intro i p hi
  have hlt : i < L.length := by
    by_cases hlt : i < L.length
    · exact hlt
    · rw [List.getElem?_eq_none (by omega)] at hi; cases hi
  rw [e (b + i) (by omega) (by omega)]; exact h i p hi

theorem ovw_has {f : CF} {b : Nat} {L : List OV} (h : Has f b L) : ovw f b L = f := by
  funext x
  simp only [ovw]
  split
  · rename_i hx
    have hlt : x - b < L.length := by omega
    have := h (x - b) L[x - b] (List.getElem?_eq_getElem hlt)
    rw [show b + (x - b) = x by omega] at this
    rw [this, List.getElem?_eq_getElem hlt]; rfl
  · rfl

theorem propF_comm (f : CF) {t1 t2 : Nat} (h : t1 ≠ t2) (w1 w2 : OV) :
    propF (propF f t1 w1) t2 w2 = propF (propF f t2 w2) t1 w1 := by
  funext x
  simp only [propF]
  by_cases h1 : x = t1
  · subst h1; simp [h]
  · by_cases h2 : x = t2
    · subst h2; simp [Ne.symm h]
    · simp [h1, h2]

theorem propF_ovw (f : CF) {t b : Nat} {L : List OV} (h : t < b ∨ b + L.length ≤ t) (w : OV) :
    propF (ovw f b L) t w = ovw (propF f t w) b L := by
  funext x
  simp only [propF, ovw]
  by_cases h1 : x = t
  · subst h1; rw [if_pos rfl, if_neg (by omega), if_neg (by omega), if_pos rfl]
  · rw [if_neg h1, if_neg h1]

theorem ovw_comm (f : CF) {b1 b2 : Nat} {L1 L2 : List OV} (h : b1 + L1.length ≤ b2 ∨ b2 + L2.length ≤ b1) :
    ovw (ovw f b1 L1) b2 L2 = ovw (ovw f b2 L2) b1 L1 := by
  funext x
  simp only [ovw]
  by_cases h1 : b1 ≤ x ∧ x < b1 + L1.length
  · rw [if_neg (by omega), if_pos h1, if_pos h1, if_neg (by omega)]
  · by_cases h2 : b2 ≤ x ∧ x < b2 + L2.length
    · rw [if_pos h2, if_neg h1, if_neg h1, if_pos h2]
    · rw [if_neg h2, if_neg h1, if_neg h1, if_neg h2]

/-- Joining into an entry whose content is known. -/
theorem propF_ovw_single (f : CF) (t : Nat) (p w : OV) :
    propF (ovw f t [p]) t w = ovw f t [jn p w] := by
  funext x
  simp only [propF, ovw, List.length_singleton]
  by_cases h : x = t
  · subst h; simp; cases f x <;> simp
  · rw [if_neg h, if_neg (by omega), if_neg (by omega)]

theorem propF_propF (f : CF) (t : Nat) (w1 w2 : OV) : propF (propF f t w1) t w2 = propF f t (jn w1 w2) := by
  funext x
  simp only [propF]
  by_cases h : x = t
  · subst h; simp; cases f x <;> simp [jn_assoc]
  · simp [h]

theorem ovw_ovw (f : CF) (b : Nat) (L1 L2 : List OV) (h : L1.length = L2.length) :
    ovw (ovw f b L1) b L2 = ovw f b L2 := by
  funext x
  simp only [ovw, h]
  split
  · cases f x <;> simp
  · rfl

theorem length_ct (s : Nat) : ∀ (sk : Sk) (o : OV), (ct s sk o).length = sk.size
  | .nil, _ => rfl
  | .one _, _ => rfl
  | .seq a c, o => by simp [ct, Sk.size, length_ct s a, length_ct s c]
  | .alt a c, o => by simp [ct, Sk.size, length_ct s a, length_ct s c]; omega
  | .loop _ _ _ _ _ _ body, o => by simp [ct, Sk.size, length_ct s body]; omega
  | .loop1 _ _ _ _, _ => rfl
  | .group _ body, o => by simp [ct, Sk.size, length_ct s body]
  | .look _ _ _ _ body, o => by simp [ct, Sk.size, length_ct s body]

theorem gt_succ (s : Nat) (x : OV) : gate (s + 1) x = x := by simp [gate]

theorem jn_gt (s : Nat) (x : OV) : jn (gate s x) x = x := by
  unfold gate; split <;> simp


/-! ## Part 7: the frame property of the flow -/

theorem getElem?_setR {g0 k : Nat} {v : Array Nat} {g : Nat} :
    (setR g0 k v)[g]? = if g0 ≤ g ∧ g < g0 + k then v[g]?.map (fun _ => 1) else v[g]? := by
  simp only [setR, Array.getElem?_mapIdx]
  split <;> simp

@[simp] theorem size_setR {g0 k : Nat} {v : Array Nat} : (setR g0 k v).size = v.size := by simp [setR]

theorem setR_zero (g0 : Nat) (v : Array Nat) : setR g0 0 v = v := by
  apply Array.ext_getElem?; intro g
  rw [getElem?_setR, if_neg (by omega)]

theorem setR_succ (g0 k : Nat) (v : Array Nat) : (setR g0 k v).setIfInBounds (g0 + k) 1 = setR g0 (k + 1) v := by
  apply Array.ext_getElem?; intro g
  simp only [Array.getElem?_setIfInBounds, getElem?_setR, size_setR]
  by_cases hg : g0 + k = g
  · subst hg
    have h2 : g0 ≤ g0 + k ∧ g0 + k < g0 + (k + 1) := by omega
    rw [if_pos rfl, if_pos h2]
    by_cases hlt : g0 + k < v.size
    · simp [hlt]
    · rw [Array.getElem?_eq_none (by omega)]; simp [hlt]
  · rw [if_neg hg]
    by_cases h1 : g0 ≤ g ∧ g < g0 + k
    · rw [if_pos h1, if_pos (by omega)]
    · rw [if_neg h1, if_neg (by omega)]

theorem setR_meet (g0 k : Nat) (a b : Array Nat) : setR g0 k (meetVec a b) = meetVec (setR g0 k a) (setR g0 k b) := by
  apply Array.ext_getElem?; intro g
  simp only [getElem?_setR, getElem?_meetVec]
  split <;> cases a[g]? <;> cases b[g]? <;> simp [mm_self]

theorem map_setR_zero (g0 : Nat) (o : OV) : o.map (setR g0 0) = o := by
  cases o <;> simp [setR_zero]

theorem map_setR_succ (g0 k : Nat) (o : OV) :
    (o.map (setR g0 k)).map (·.setIfInBounds (g0 + k) 1) = o.map (setR g0 (k + 1)) := by
  cases o <;> simp [setR_succ]

theorem map_setR_jn (g0 k : Nat) (a b : OV) :
    (jn a b).map (setR g0 k) = jn (a.map (setR g0 k)) (b.map (setR g0 k)) := by
  cases a <;> cases b <;> simp [jn, setR_meet]

theorem fo_none : ∀ (sk : Sk), fo sk none = none
  | .nil => rfl
  | .one i => by simp [fo]
  | .seq a c => by simp [fo, fo_none a, fo_none c]
  | .alt a c => by simp [fo, fo_none a, fo_none c]
  | .loop _ _ _ _ _ _ body => by simp [fo, fo_none body]
  | .loop1 _ _ _ _ => rfl
  | .group _ body => by simp [fo, fo_none body]
  | .look _ _ _ _ _ => rfl

/-- `o'` is unreachable, or agrees with `v` outside the groups `B`. -/
def Fr (B : List Nat) (v : Array Nat) (o' : OV) : Prop :=
  ∀ w, o' = some w → w.size = v.size ∧ ∀ g : Nat, g ∉ B → w[g]? = v[g]?

theorem Fr.mono {B B' : List Nat} {v : Array Nat} {o' : OV} (h : Fr B v o') (hB : ∀ g, g ∈ B → g ∈ B') :
    Fr B' v o' := fun w hw => ⟨(h w hw).1, fun g hg => (h w hw).2 g (fun hm => hg (hB g hm))⟩

theorem Fr.jn {B : List Nat} {v : Array Nat} {o1 o2 : OV} (h1 : Fr B v o1) (h2 : Fr B v o2) :
    Fr B v (jn o1 o2) := by
  intro w hw
  rcases o1 with _ | w1 <;> rcases o2 with _ | w2
  · cases hw
  · simp at hw; subst hw; exact h2 _ rfl
  · simp at hw; subst hw; exact h1 _ rfl
  · simp [Regress.Certs.jn] at hw; subst hw
    obtain ⟨s1, e1⟩ := h1 _ rfl
    obtain ⟨s2, e2⟩ := h2 _ rfl
    refine ⟨by rw [size_meetVec, s1, s2]; simp, fun g hg => ?_⟩
    rw [getElem?_meetVec, e1 g hg, e2 g hg]
    cases v[g]? <;> simp [mm_self]

theorem fo_frame : ∀ (sk : Sk) (v : Array Nat), sk.rex = true → Fr sk.begins v (fo sk (some v))
  | .nil, v, _ => by intro w hw; simp [fo] at hw; subst hw; exact ⟨rfl, fun _ _ => rfl⟩
  | .one i, v, _ => by
    intro w hw
    simp only [fo] at hw
    split at hw
    · cases hw
    · cases hw; exact ⟨rfl, fun _ _ => rfl⟩
  | .seq a c, v, hr => by
    simp only [Sk.rex, Bool.and_eq_true] at hr
    intro w hw
    simp only [fo] at hw
    rcases h1 : fo a (some v) with _ | w1
    · rw [h1, fo_none] at hw; cases hw
    · rw [h1] at hw
      obtain ⟨s1, e1⟩ := fo_frame a v hr.1 w1 h1
      obtain ⟨s2, e2⟩ := fo_frame c w1 hr.2 w hw
      refine ⟨s2.trans s1, fun g hg => ?_⟩
      simp only [Sk.begins, List.mem_append, not_or] at hg
      rw [e2 g hg.2, e1 g hg.1]
  | .alt a c, v, hr => by
    simp only [Sk.rex, Bool.and_eq_true] at hr
    simp only [fo, Sk.begins]
    exact Fr.jn ((fo_frame a v hr.1).mono (fun g h => List.mem_append_left _ h))
      ((fo_frame c v hr.2).mono (fun g h => List.mem_append_right _ h))
  | .loop _ _ _ _ g0 cnt body, v, hr => by
    simp only [Sk.rex, Bool.and_eq_true, List.all_eq_true, List.mem_range'_1, List.contains_iff_mem] at hr
    simp only [fo, Sk.begins, Option.map_some]
    refine Fr.jn (fun w hw => by cases hw; exact ⟨rfl, fun _ _ => rfl⟩) ?_
    intro w hw
    obtain ⟨s1, e1⟩ := fo_frame body _ hr.2 w hw
    refine ⟨by rw [s1, size_setR], fun g hg => ?_⟩
    rw [e1 g hg, getElem?_setR, if_neg]
    intro hin
    exact hg (hr.1 g ⟨hin.1, hin.2⟩)
  | .loop1 _ _ _ _, v, _ => by intro w hw; simp [fo] at hw; subst hw; exact ⟨rfl, fun _ _ => rfl⟩
  | .group g' body, v, hr => by
    simp only [Sk.rex] at hr
    intro w hw
    simp only [fo, Option.map_some] at hw
    rcases h1 : fo body (some (v.setIfInBounds g' 2)) with _ | w1
    · rw [h1] at hw; cases hw
    · rw [h1] at hw
      simp only [Option.map_some, Option.some.injEq] at hw
      subst hw
      obtain ⟨s1, e1⟩ := fo_frame body _ hr w1 h1
      refine ⟨by simp [s1], fun g hg => ?_⟩
      simp only [Sk.begins, List.mem_cons, not_or] at hg
      have hne : ¬ g' = g := fun e => hg.1 e.symm
      rw [Array.getElem?_setIfInBounds_ne hne, e1 g hg.2, Array.getElem?_setIfInBounds_ne hne]
  | .look neg _ sg eg body, v, hr => by
    simp only [Sk.rex, Bool.and_eq_true, List.all_eq_true, List.mem_range'_1, List.contains_iff_mem] at hr
    intro w hw
    simp only [fo, Option.map_some, Option.some.injEq] at hw
    subst hw
    refine ⟨by simp, fun g hg => ?_⟩
    rw [getElem?_lookContVec, if_neg]
    intro hin
    exact hg (hr.1 g ⟨hin.2.1, by omega⟩)

/-- The vector at the body start of a loop is not changed by the back edge. -/
theorem loop_frame {g0 cnt : Nat} {body : Sk} (hr : body.rex = true)
    (hB : ∀ g ∈ body.begins, g0 ≤ g ∧ g < g0 + cnt) (o : OV) :
    (jn o (fo body (o.map (setR g0 cnt)))).map (setR g0 cnt) = o.map (setR g0 cnt) := by
  rcases o with _ | v
  · simp [fo_none]
  · simp only [Option.map_some]
    rcases h1 : fo body (some (setR g0 cnt v)) with _ | w
    · simp
    · simp only [jn, Option.map_some, Option.some.injEq]
      obtain ⟨s1, e1⟩ := fo_frame body _ hr w h1
      apply Array.ext_getElem?; intro g
      simp only [getElem?_setR, getElem?_meetVec]
      by_cases hin : g0 ≤ g ∧ g < g0 + cnt
      · rw [if_pos hin, if_pos hin]
        have hsz : w.size = v.size := by rw [s1, size_setR]
        rcases hv : v[g]? with _ | x <;> rcases hw : w[g]? with _ | y
        · rfl
        · rfl
        · have := lt_of_getElem?_eq_some hv; rw [Array.getElem?_eq_none_iff] at hw; omega
        · rfl
      · rw [if_neg hin, if_neg hin]
        have hg : g ∉ body.begins := fun hm => hin (hB g hm)
        rw [e1 g hg, getElem?_setR, if_neg hin]
        cases v[g]? <;> simp [mm_self]


/-! ## Part 8: rewriting toolkit for states of the form `propF (… (ovw f b L)) t w` -/

theorem propF_eval {f : CF} {t : Nat} {p : OV} (h : f t = some p) (w : OV) : propF f t w t = some (jn p w) := by
  simp [propF, h]

theorem propF_eval_ne {f : CF} {t x : Nat} (h : x ≠ t) (w : OV) : propF f t w x = f x := by
  simp [propF, h]

theorem ovw_eval_out {f : CF} {b x : Nat} {L : List OV} (h : x < b ∨ b + L.length ≤ x) : ovw f b L x = f x := by
  simp only [ovw]; rw [if_neg (by omega)]

theorem ovw_eval {f : CF} {b x : Nat} {L : List OV} {p q : OV} (hx : b ≤ x) (hp : L[x - b]? = some p)
    (hf : f x = some q) : ovw f b L x = some p := by
  have hlt : x - b < L.length := by
    by_cases hlt : x - b < L.length
    · exact hlt
    · rw [List.getElem?_eq_none (by omega)] at hp; cases hp
  simp only [ovw]
  rw [if_pos (by omega), hf, hp]; rfl

theorem Has.congr' {f f' : CF} {b n : Nat} {L : List OV} (h : Has f b L) (hn : L.length = n)
    (e : ∀ x, b ≤ x → x < b + n → f' x = f x) : Has f' b L := h.congr (by rw [hn]; exact e)

theorem jn_left_comm (a b c : OV) : jn a (jn b c) = jn b (jn a c) := by
  rw [← jn_assoc, jn_comm a b, jn_assoc]

/-- Joins at any two addresses commute. -/
theorem propF_swap (f : CF) (t1 t2 : Nat) (w1 w2 : OV) :
    propF (propF f t1 w1) t2 w2 = propF (propF f t2 w2) t1 w1 := by
  by_cases h : t1 = t2
  · subst h; rw [propF_propF, propF_propF, jn_comm]
  · exact propF_comm f h w1 w2

theorem st_enter {f : CF} {b s : Nat} {o : OV} (h : f b = some (gate s o)) : propF f b o = ovw f b [o] := by
  calc propF f b o = propF (ovw f b [gate s o]) b o := by rw [ovw_has (has_single.2 h)]
    _ = ovw f b [jn (gate s o) o] := propF_ovw_single _ _ _ _
    _ = ovw f b [o] := by rw [jn_gt]

/-- Join into the address just after the overwritten prefix. -/
theorem st_ext {f : CF} {b t : Nat} {L : List OV} {p : OV} (ht : t = b + L.length) (h : f t = some p) (w : OV) :
    propF (ovw f b L) t w = ovw f b (L ++ [jn p w]) := by
  subst ht
  rw [propF_ovw f (Or.inr (Nat.le_refl _)), ovw_append]
  have : propF f (b + L.length) w = ovw f (b + L.length) [jn p w] := by
    calc propF f (b + L.length) w = propF (ovw f (b + L.length) [p]) (b + L.length) w := by
          rw [ovw_has (has_single.2 h)]
      _ = _ := propF_ovw_single _ _ _ _
  rw [this, ovw_comm f (Or.inr (by simp))]

theorem st_pull {g : CF} {t b : Nat} {L : List OV} (w : OV) (h : t < b ∨ b + L.length ≤ t) :
    ovw (propF g t w) b L = propF (ovw g b L) t w := (propF_ovw g h w).symm

theorem st_merge {f : CF} {b b2 : Nat} {L1 L2 : List OV} (h : b2 = b + L1.length) :
    ovw (ovw f b L1) b2 L2 = ovw f b (L1 ++ L2) := by subst h; exact (ovw_append f b L1 L2).symm

theorem st_join {f : CF} {t t' : Nat} (w1 w2 : OV) (h : t' = t) :
    propF (propF f t w1) t' w2 = propF f t (jn w1 w2) := by subst h; exact propF_propF f _ w1 w2

/-- A join into an overwritten entry that absorbs it. -/
theorem st_inside_id {f : CF} {b t : Nat} {L : List OV} {p w : OV} (ht : b ≤ t) (hp : L[t - b]? = some p)
    (habs : jn p w = p) : propF (ovw f b L) t w = ovw f b L := by
  have hlt : t - b < L.length := by
    by_cases hlt : t - b < L.length
    · exact hlt
    · rw [List.getElem?_eq_none (by omega)] at hp; cases hp
  funext x
  simp only [propF]
  split
  · rename_i e; subst e
    simp only [ovw]
    rw [if_pos (by omega), hp]
    cases f x <;> simp [habs]
  · rfl

/-- A join into the first of a run of overwritten entries. -/
theorem st_head_map {g : CF} {t cnt : Nat} (Q : Nat → OV) (w : OV) (hc : 0 < cnt) :
    propF (ovw g t ((List.range cnt).map Q)) t w =
      ovw g t ((List.range cnt).map (fun k => if k = 0 then jn (Q k) w else Q k)) := by
  funext x
  simp only [propF]
  split
  · rename_i e; subst e
    simp only [ovw, List.length_map, List.length_range]
    rw [if_pos (by omega), Nat.sub_self]
    cases g x <;> simp [hc]
  · simp only [ovw, List.length_map, List.length_range]
    split
    · rename_i hx
      have h0 : ¬ x - t = 0 := by omega
      have hlt : x - t < cnt := by omega
      simp only [List.getElem?_map, List.getElem?_range hlt, Option.map_some, if_neg h0]
    · rfl

theorem rng_mid (b m : Nat) : List.range' b (m + 2) = b :: (List.range' (b + 1) m ++ [b + 1 + m]) := by
  rw [show m + 2 = (m + 1) + 1 by omega, List.range'_succ, ← List.range'_append_1]; rfl

theorem rng_alt (b a s : Nat) :
    List.range' b (a + s + 2) = b :: (List.range' (b + 1) a ++ (b + a + 1) :: List.range' (b + a + 2) s) := by
  rw [show a + s + 2 = (a + (s + 1)) + 1 by omega, List.range'_succ, ← List.range'_append_1,
    List.range'_succ, show b + 1 + a = b + a + 1 by omega]

theorem rng_loop (b m cnt : Nat) : List.range' b (m + cnt + 2) =
    b :: (List.range' (b + 1) cnt ++ (List.range' (b + 1 + cnt) m ++ [b + 1 + cnt + m])) := by
  rw [show m + cnt + 2 = (cnt + (m + 1)) + 1 by omega, List.range'_succ, ← List.range'_append_1,
    ← List.range'_append_1]; rfl

/-! ## Part 9: one sweep over a laid-out skeleton -/

theorem ovw_eval_head {f : CF} {b : Nat} {p q : OV} {L : List OV} (hf : f b = some q) :
    ovw f b (p :: L) b = some p :=
  ovw_eval (Nat.le_refl _) (by simp) hf

theorem ovw_eval_last {f : CF} {b t : Nat} {p q : OV} {L : List OV} (ht : t = b + L.length) (hf : f t = some q) :
    ovw f b (L ++ [p]) t = some p :=
  ovw_eval (by omega) (by subst ht; simp) hf

theorem resets_run {prog : Prog} (g0 : Nat) (u : OV) (P : Nat → OV) : ∀ (cnt b1 : Nat) (G : CF),
    (∀ i, i < cnt → At prog.insns (b1 + i) (.resetCaptureGroup (g0 + i))) →
    Has G b1 ((List.range cnt).map P) →
    (∀ k, k < cnt → jn (P k) (u.map (setR g0 k)) = u.map (setR g0 k)) →
    swF prog (List.range' b1 cnt) (propF G b1 u) =
      propF (ovw G b1 ((List.range cnt).map (fun k => u.map (setR g0 k)))) (b1 + cnt) (u.map (setR g0 cnt))
  | 0, b1, G, _, _, _ => by
    simp only [List.range'_zero, swF_nil, List.range_zero, List.map_nil, ovw_nil, Nat.add_zero, map_setR_zero]
  | cnt + 1, b1, G, hat, hH, habs => by
    rw [List.range_succ, List.map_append, has_append] at hH
    simp only [List.map_cons, List.map_nil, has_single, List.length_map, List.length_range] at hH
    rw [List.range'_1_concat, swF_append,
      resets_run g0 u P cnt b1 G (fun i hi => hat i (by omega)) hH.1 (fun k hk => habs k (by omega)),
      st_ext (p := P cnt) (by simp) hH.2, habs cnt (by omega), swF_cons, swF_nil,
      step_reset (hat cnt (by omega)) (ovw_eval_last (by simp) hH.2), map_setR_succ,
      List.range_succ, List.map_append]
    rfl

theorem fo_size0 : ∀ (sk : Sk) (o : OV), sk.size = 0 → fo sk o = o
  | .nil, _, _ => rfl
  | .one _, _, h => by simp [Sk.size] at h
  | .seq a c, o, h => by
    simp only [Sk.size] at h
    simp only [fo]
    rw [fo_size0 a o (by omega), fo_size0 c o (by omega)]
  | .alt _ _, _, h => by simp only [Sk.size] at h; omega
  | .loop _ _ _ _ _ _ _, _, h => by simp only [Sk.size] at h; omega
  | .loop1 _ _ _ _, _, h => by simp [Sk.size] at h
  | .group _ _, _, h => by simp only [Sk.size] at h; omega
  | .look _ _ _ _ _, _, h => by simp only [Sk.size] at h; omega

theorem head_ct (s : Nat) : ∀ (sk : Sk) (o : OV), 0 < sk.size → (ct s sk o)[0]? = some (gate s o)
  | .nil, _, h => by simp [Sk.size] at h
  | .one _, _, _ => rfl
  | .seq a c, o, h => by
    simp only [Sk.size] at h
    simp only [ct]
    by_cases ha : 0 < a.size
    · rw [List.getElem?_append_left (by rw [length_ct]; exact ha)]
      exact head_ct s a o ha
    · have ha0 : a.size = 0 := by omega
      have hl : ct s a o = [] := List.eq_nil_of_length_eq_zero (by rw [length_ct]; exact ha0)
      have hfo : fo a o = o := fo_size0 a o ha0
      rw [hl, List.nil_append, hfo]
      exact head_ct s c o (by omega)
  | .alt _ _, _, _ => by simp [ct]
  | .loop _ _ _ _ _ _ _, _, _ => by simp [ct]
  | .loop1 _ _ _ _, _, _ => rfl
  | .group _ _, _, _ => by simp [ct]
  | .look _ _ _ _ _, _, _ => by simp [ct]

theorem propF_congr {G : CF} {t : Nat} {p w w' : OV} (h : G t = some p) (e : jn p w = jn p w') :
    propF G t w = propF G t w' := by
  funext x
  simp only [propF]
  split
  · rw [h]; simp [e]
  · rfl

theorem rs_abs {s : Nat} (hs : 1 ≤ s) (g0 : Nat) (o back : OV) (k : Nat) :
    jn (rs s g0 o back k) ((jn o back).map (setR g0 k)) = (jn o back).map (setR g0 k) := by
  unfold rs
  rw [if_neg (by omega)]
  split
  · split
    · rename_i hk; subst hk; rw [map_setR_zero, jn_self]
    · rw [map_setR_jn, ← jn_assoc, jn_self]
  · rw [jn_self]

theorem rs_zero {s : Nat} (hs : 1 ≤ s) (g0 : Nat) (o back : OV) : rs s g0 o back 0 = jn o back := by
  unfold rs
  rw [if_neg (by omega)]
  split
  · rfl
  · rw [map_setR_zero]

theorem rs_final (s g0 : Nat) (o back : OV) (k : Nat) :
    (if k = 0 then jn ((if s = 0 then o else jn o back).map (setR g0 k)) back
      else (if s = 0 then o else jn o back).map (setR g0 k)) = rs (s + 1) g0 o back k := by
  unfold rs
  have h1 : ¬ s + 1 = 0 := by omega
  rw [if_neg h1]
  by_cases hs : s = 0
  · subst hs
    simp only [if_true, Nat.zero_add]
    by_cases hk : k = 0
    · subst hk; simp only [if_true, map_setR_zero]
    · simp only [if_neg hk]
  · have h2 : ¬ s + 1 = 1 := by omega
    simp only [if_neg hs, if_neg h2]
    by_cases hk : k = 0
    · subst hk; simp only [if_true, map_setR_zero, jn_absorb]
    · simp only [if_neg hk]

theorem sweep_sk {prog : Prog} {G nb L : Nat} : ∀ (sk : Sk) (b lo hi s : Nat) (o : OV) (f : CF),
    Lay prog.insns sk b → sk.ok G nb L = true → sk.gsc lo hi = true → sk.rex = true → Has f b (ct s sk o) →
    swF prog (List.range' b sk.size) (propF f b o) = propF (ovw f b (ct (s + 1) sk o)) (b + sk.size) (fo sk o)
  | .nil, b, lo, hi, s, o, f, _, _, _, _, _ => by
    simp only [Sk.size, ct, fo, ovw_nil, Nat.add_zero]; rfl
  | .one i, b, lo, hi, s, o, f, h, hok, _, _, hH => by
    simp only [Lay] at h
    simp only [Sk.ok, Bool.and_eq_true] at hok
    simp only [ct, has_single] at hH
    simp only [Sk.size, ct, gt_succ]
    rw [show List.range' b 1 = [b] from rfl, swF_cons, swF_nil, step_one h hok.1 (by rw [propF_eval hH, jn_gt]),
      st_enter hH]
  | .seq a c, b, lo, hi, s, o, f, h, hok, hs, hr, hH => by
    simp only [Lay] at h
    simp only [Sk.ok, Bool.and_eq_true] at hok
    simp only [Sk.gsc, Bool.and_eq_true] at hs
    simp only [Sk.rex, Bool.and_eq_true] at hr
    simp only [ct, has_append, length_ct] at hH
    simp only [Sk.size, ct, fo]
    rw [← List.range'_append_1, swF_append, sweep_sk a b lo hi s o f h.1 hok.1 hs.1 hr.1 hH.1,
      sweep_sk c (b + a.size) lo hi s (fo a o) _ h.2 hok.2 hs.2 hr.2
        (hH.2.congr' (length_ct _ _ _) (fun x h1 h2 => ovw_eval_out (by rw [length_ct]; omega))),
      st_merge (by rw [length_ct]), Nat.add_assoc]
  | .alt a c, b, lo, hi, s, o, f, h, hok, hs, hr, hH => by
    simp only [Lay] at h
    simp only [Sk.ok, Bool.and_eq_true] at hok
    simp only [Sk.gsc, Bool.and_eq_true] at hs
    simp only [Sk.rex, Bool.and_eq_true] at hr
    obtain ⟨h0, ha, hj, hc⟩ := h
    simp only [ct, has_append, has_single, List.length_append, List.length_singleton, length_ct, ← Nat.add_assoc] at hH
    obtain ⟨⟨⟨f0, fA⟩, fJ⟩, fC⟩ := hH
    simp only [Sk.size, fo, ct, gt_succ]
    rw [rng_alt, swF_cons, st_enter f0, step_alt h0 (ovw_eval_head f0),
      propF_swap, swF_append,
      sweep_sk a (b + 1) lo hi s o _ ha hok.1 hs.1 hr.1 (fA.congr' (length_ct _ _ _) (fun x h1 h2 => by
        rw [propF_eval_ne (by omega), ovw_eval_out (by simp; omega)])),
      st_pull _ (by rw [length_ct]; omega), st_merge (by simp), propF_swap,
      st_ext (p := gate s (fo a o)) (by simp [length_ct]; omega) (by rw [← fJ]), jn_gt]
    have fJ' : f (b + a.size + 1) = some (gate s (fo a o)) := by rw [← fJ]; congr 1; omega
    have fC' : Has f (b + a.size + 2) (ct s c o) := by rw [show b + a.size + 2 = b + 1 + a.size + 1 by omega]; exact fC
    rw [swF_cons, step_jump hj (by
        rw [propF_eval_ne (by omega)]
        exact ovw_eval_last (by simp [length_ct]; omega) fJ'),
      propF_swap,
      sweep_sk c (b + a.size + 2) lo hi s o _ hc hok.2 hs.2 hr.2 (fC'.congr' (length_ct _ _ _) (fun x h1 h2 => by
        rw [propF_eval_ne (by omega), ovw_eval_out (by simp [length_ct]; omega)])),
      st_pull _ (by rw [length_ct]; omega), st_merge (by simp [length_ct]; omega),
      st_join _ _ (by omega)]
    rw [show b + a.size + c.size + 2 = b + (a.size + c.size + 2) by omega]
  | .loop1 mn mx gr body, b, lo, hi, s, o, f, h, hok, _, _, hH => by
    simp only [Lay] at h
    have hH' : Has f b ([gate s o] ++ [none]) := hH
    simp only [has_append, has_single, List.length_singleton] at hH'
    simp only [Sk.size, fo, ct, gt_succ]
    rw [show List.range' b 2 = [b, b + 1] from rfl, swF_cons, swF_cons, swF_nil, st_enter hH'.1,
      step_loop1 h.1 (ovw_eval_head hH'.1),
      step_none (by rw [propF_eval_ne (by omega), ovw_eval_out (by simp)]; exact hH'.2)]
    have : ovw f b [o] = ovw f b [o, none] := by
      have := st_ext (f := f) (b := b) (t := b + 1) (L := [o]) (p := none) rfl hH'.2 none
      rw [propF_none] at this
      exact this
    rw [this]
  | .group g body, b, lo, hi, s, o, f, h, hok, hs, hr, hH => by
    simp only [Lay] at h
    simp only [Sk.ok, Bool.and_eq_true] at hok
    simp only [Sk.gsc, Bool.and_eq_true] at hs
    simp only [Sk.rex] at hr
    obtain ⟨h0, hb, hl⟩ := h
    simp only [ct, has_append, has_single, List.length_append, List.length_singleton, length_ct, ← Nat.add_assoc] at hH
    obtain ⟨⟨f0, fB⟩, fE⟩ := hH
    simp only [Sk.size, fo, ct, gt_succ]
    rw [rng_mid, swF_cons, st_enter f0, step_begin h0 (ovw_eval_head f0), swF_append,
      sweep_sk body (b + 1) lo hi s _ _ hb hok.2 hs.2 hr (fB.congr' (length_ct _ _ _) (fun x h1 h2 => by
        rw [ovw_eval_out (by simp; omega)])),
      st_merge (by simp), st_ext (p := gate s _) (by simp [length_ct]; omega) fE, jn_gt,
      swF_cons, swF_nil, step_end hl (ovw_eval_last (by simp [length_ct]; omega) fE)]
    rw [show b + 1 + body.size + 1 = b + (body.size + 2) by omega]
  | .look neg bw sg eg body, b, lo, hi, s, o, f, h, hok, hs, hr, hH => by
    simp only [Lay] at h
    simp only [Sk.ok, Bool.and_eq_true] at hok
    simp only [Sk.gsc, Bool.and_eq_true] at hs
    simp only [Sk.rex, Bool.and_eq_true] at hr
    obtain ⟨h0, hb, hl⟩ := h
    simp only [ct, has_append, has_single, List.length_append, List.length_singleton, length_ct, ← Nat.add_assoc] at hH
    obtain ⟨⟨f0, fB⟩, fE⟩ := hH
    simp only [Sk.size, fo, ct, gt_succ]
    rw [rng_mid, swF_cons, st_enter f0, step_look h0 (ovw_eval_head f0), propF_swap, swF_append,
      sweep_sk body (b + 1) sg eg s _ _ hb hok.2 hs.2 hr.2 (fB.congr' (length_ct _ _ _) (fun x h1 h2 => by
        rw [propF_eval_ne (by omega), ovw_eval_out (by simp; omega)])),
      st_pull _ (by rw [length_ct]; omega), st_merge (by simp), propF_swap,
      st_ext (p := gate s _) (by simp [length_ct]; omega) fE, jn_gt,
      swF_cons, swF_nil, step_one hl rfl (by
        rw [propF_eval_ne (by omega)]
        exact ovw_eval_last (by simp [length_ct]; omega) fE)]
    simp only [fo, isTerm, if_true, propF_none]
    rw [Nat.add_assoc]
  | .loop id mn mx gr g0 cnt body, b, lo, hi, s, o, f, h, hok, hs, hr, hH => by
    simp only [Lay] at h
    simp only [Sk.ok, Bool.and_eq_true] at hok
    simp only [Sk.gsc, Bool.and_eq_true, List.all_eq_true, decide_eq_true_eq] at hs
    simp only [Sk.rex, Bool.and_eq_true] at hr
    obtain ⟨h0, hrs, hb, hl⟩ := h
    simp only [ct, has_append, has_single, List.length_append, List.length_singleton, length_ct, List.length_map,
      List.length_range, ← Nat.add_assoc] at hH
    obtain ⟨⟨⟨f0, fR⟩, fB⟩, fL⟩ := hH
    have hfr := loop_frame (g0 := g0) (cnt := cnt) hr.2 hs.2 o
    simp only [Sk.size, fo, ct, gt_succ]
    generalize hv' : o.map (setR g0 cnt) = v' at *
    generalize hback : fo body v' = back at *
    rw [rng_loop, swF_cons, st_enter f0, step_enter h0 (ovw_eval_head f0), propF_swap]
    -- the value entering the resets
    have hu : propF (propF (ovw f b [o]) (b + cnt + body.size + 2) o) (b + 1) o =
        propF (propF (ovw f b [o]) (b + cnt + body.size + 2) o) (b + 1) (if s = 0 then o else jn o back) := by
      by_cases hs0 : s = 0
      · rw [if_pos hs0]
      · rw [if_neg hs0]
        by_cases hc0 : cnt = 0
        · subst hc0
          rw [map_setR_zero] at hfr hv'
          rw [hfr, hv']
        · have hp : f (b + 1) = some (jn o back) := by
            have := fR 0 (rs s g0 o back 0) (by rw [List.getElem?_map, List.getElem?_range (by omega)]; rfl)
            rwa [rs_zero (by omega)] at this
          refine propF_congr (p := jn o back) ?_ ?_
          · rw [propF_eval_ne (by omega), ovw_eval_out (by simp)]; exact hp
          · rw [jn_absorb_left, jn_self]
    have hu2 : (if s = 0 then o else jn o back).map (setR g0 cnt) = v' := by
      by_cases hs0 : s = 0
      · rw [if_pos hs0]; exact hv'
      · rw [if_neg hs0]; exact hfr
    rw [hu, swF_append, resets_run g0 _ (rs s g0 o back) cnt (b + 1) _ hrs
      (fR.congr' (n := cnt) (by simp) (fun x h1 h2 => by rw [propF_eval_ne (by omega), ovw_eval_out (by simp; omega)]))
      (fun k _ => by
        by_cases hs0 : s = 0
        · subst hs0; simp [rs]
        · rw [if_neg hs0]; exact rs_abs (by omega) g0 o back k),
      hu2, st_pull _ (by simp; omega), st_merge (by simp)]
    rw [swF_append, sweep_sk body (b + 1 + cnt) lo hi s v' _ hb hok.2 hs.1.2 hr.2
        (fB.congr' (length_ct _ _ _) (fun x h1 h2 => by
          rw [propF_eval_ne (by omega), ovw_eval_out (by simp; omega)])),
      hback, st_pull _ (by rw [length_ct]; omega), st_merge (by simp; omega), propF_swap,
      st_ext (p := gate s back) (by simp [length_ct]; omega) fL, jn_gt, swF_cons, swF_nil,
      step_again hl h0 (by
        rw [propF_eval_ne (by omega)]
        exact ovw_eval_last (by simp [length_ct]; omega) fL),
      propF_swap _ (b + cnt + body.size + 2) (b + 1), st_join _ _ rfl,
      show b + cnt + body.size + 2 = b + (body.size + cnt + 2) by omega]
    congr 1
    by_cases hc0 : cnt = 0
    · subst hc0
      rw [map_setR_zero] at hfr hv'
      simp only [List.range_zero, List.map_nil, List.append_nil]
      by_cases hb0 : 0 < body.size
      · refine st_inside_id (p := v') (by omega) ?_ (by rw [← hfr, jn_absorb])
        rw [Nat.add_sub_cancel_left, List.append_assoc, List.singleton_append, List.getElem?_cons_succ,
          List.getElem?_append_left (by rw [length_ct]; exact hb0), head_ct _ _ _ hb0, gt_succ]
      · have hl : ct (s + 1) body v' = [] := List.eq_nil_of_length_eq_zero (by rw [length_ct]; omega)
        rw [hl]
        exact st_inside_id (p := back) (by omega) (by simp) (jn_self _)
    · have dec : ∀ RS : List OV, ovw f b ([o] ++ RS ++ ct (s + 1) body v' ++ [back]) =
          ovw (ovw (ovw f b [o]) (b + 1) RS) (b + 1 + RS.length) (ct (s + 1) body v' ++ [back]) := by
        intro RS
        rw [st_merge rfl, st_merge (b := b) (b2 := b + 1) (L1 := [o]) (by simp)]
        simp only [List.append_assoc]
      rw [dec, dec, propF_ovw _ (Or.inl (by simp; omega)), st_head_map _ _ (by omega)]
      simp only [List.length_map, List.length_range]
      congr 2
      exact List.map_congr_left (fun k _ => rs_final s g0 o back k)

/-! ## Part 10: the three sweeps of the root -/

theorem ct_zero : ∀ (sk : Sk) (o : OV), ct 0 sk o = List.replicate sk.size none
  | .nil, _ => rfl
  | .one _, _ => rfl
  | .seq a c, o => by simp only [ct, Sk.size, ct_zero a, ct_zero c, List.replicate_append_replicate]
  | .alt a c, o => by
    simp only [ct, Sk.size, ct_zero a, ct_zero c, gate, if_true]
    rw [show a.size + c.size + 2 = 1 + a.size + 1 + c.size by omega]
    simp only [← List.replicate_append_replicate]; rfl
  | .loop _ _ _ _ g0 cnt body, o => by
    simp only [ct, Sk.size, ct_zero body, gate, if_true]
    rw [show body.size + cnt + 2 = 1 + cnt + body.size + 1 by omega]
    simp only [← List.replicate_append_replicate]
    congr 3
    apply List.ext_getElem
    · simp
    · intro i h1 h2; simp [rs]
  | .loop1 _ _ _ _, _ => rfl
  | .group _ body, o => by
    simp only [ct, Sk.size, ct_zero body, gate, if_true]
    rw [show body.size + 2 = 1 + body.size + 1 by omega]
    simp only [← List.replicate_append_replicate]; rfl
  | .look _ _ _ _ body, o => by
    simp only [ct, Sk.size, ct_zero body, gate, if_true]
    rw [show body.size + 2 = 1 + body.size + 1 by omega]
    simp only [← List.replicate_append_replicate]; rfl

theorem gt_pos {s : Nat} (h : 1 ≤ s) (x : OV) : gate s x = x := by
  unfold gate; rw [if_neg (by omega)]

theorem rs_ge2 {s : Nat} (h : 2 ≤ s) (g0 : Nat) (o back : OV) (k : Nat) : rs s g0 o back k = rs 2 g0 o back k := by
  unfold rs
  rw [if_neg (by omega), if_neg (by omega)]
  rfl

theorem ct_ge2 {s : Nat} (h : 2 ≤ s) : ∀ (sk : Sk) (o : OV), ct s sk o = ct 2 sk o
  | .nil, _ => rfl
  | .one _, _ => by simp only [ct, gt_pos (show 1 ≤ s by omega), gt_pos (show 1 ≤ 2 by omega)]
  | .seq a c, o => by simp only [ct, ct_ge2 h a, ct_ge2 h c]
  | .alt a c, o => by
    simp only [ct, ct_ge2 h a, ct_ge2 h c, gt_pos (show 1 ≤ s by omega), gt_pos (show 1 ≤ 2 by omega)]
  | .loop _ _ _ _ g0 cnt body, o => by
    simp only [ct, ct_ge2 h body, gt_pos (show 1 ≤ s by omega), gt_pos (show 1 ≤ 2 by omega)]
    congr 3
    exact List.map_congr_left (fun k _ => rs_ge2 h _ _ _ k)
  | .loop1 _ _ _ _, _ => by simp only [ct, gt_pos (show 1 ≤ s by omega), gt_pos (show 1 ≤ 2 by omega)]
  | .group _ body, o => by
    simp only [ct, ct_ge2 h body, gt_pos (show 1 ≤ s by omega), gt_pos (show 1 ≤ 2 by omega)]
  | .look _ _ _ _ body, o => by
    simp only [ct, ct_ge2 h body, gt_pos (show 1 ≤ s by omega), gt_pos (show 1 ≤ 2 by omega)]


/-- The all-`none` certificate of size `n`. -/
def fN (n : Nat) : CF := fun x => if x < n then some none else none

theorem vw_c0 (n : Nat) (init : Array Nat) :
    vw ((Array.replicate n (none : OV)).setIfInBounds 0 (some init)) = propF (fN n) 0 (some init) := by
  funext x
  simp only [vw, propF, fN, Array.getElem?_setIfInBounds, Array.size_replicate, Array.getElem?_replicate]
  by_cases hx : x = 0
  · subst hx
    by_cases hn : 0 < n
    · simp [hn, jn]
    · simp [hn]
  · have : ¬ 0 = x := fun e => hx e.symm
    simp [hx, this]

theorem propF_oob {f : CF} {t : Nat} (h : f t = none) (w : OV) : propF f t w = f := by
  funext x
  simp only [propF]
  split
  · rename_i e; subst e; rw [h]; rfl
  · rfl

theorem propF_abs {f : CF} {t : Nat} {p w : OV} (h : f t = some p) (e : jn p w = p) : propF f t w = f := by
  funext x
  simp only [propF]
  split
  · rename_i e'; subst e'; rw [h]; simp [e]
  · rfl

theorem has_ovw {f : CF} {b : Nat} {L : List OV} (h : ∀ i, i < L.length → ∃ q, f (b + i) = some q) :
    Has (ovw f b L) b L := by
  intro i p hp
  have hlt : i < L.length := by
    by_cases hlt : i < L.length
    · exact hlt
    · rw [List.getElem?_eq_none (by omega)] at hp; cases hp
  obtain ⟨q, hq⟩ := h i hlt
  exact ovw_eval (by omega) (by rw [Nat.add_sub_cancel_left]; exact hp) hq

theorem root_sweepS {prog : Prog} {G nb L lo hi : Nat} {sk : Sk} (hlay : Lay prog.insns sk 0)
    (hok : sk.ok G nb L = true) (hgsc : sk.gsc lo hi = true) (hrex : sk.rex = true) (o : OV) {s : Nat}
    (hs : 1 ≤ s) :
    swF prog (List.range' 0 sk.size) (ovw (fN sk.size) 0 (ct s sk o)) = ovw (fN sk.size) 0 (ct (s + 1) sk o) := by
  have hH : Has (ovw (fN sk.size) 0 (ct s sk o)) 0 (ct s sk o) :=
    has_ovw (fun i hi => ⟨none, by rw [length_ct] at hi; simp [fN, hi]⟩)
  have hent : propF (ovw (fN sk.size) 0 (ct s sk o)) 0 o = ovw (fN sk.size) 0 (ct s sk o) := by
    by_cases h0 : 0 < sk.size
    · refine propF_abs (p := o) ?_ (jn_self o)
      have := hH 0 (gate s o) (head_ct s sk o h0)
      rwa [gt_pos hs] at this
    · refine propF_oob ?_ o
      rw [ovw_eval_out (by rw [length_ct]; omega)]
      simp [fN]; omega
  have := sweep_sk sk 0 lo hi s o _ hlay hok hgsc hrex hH
  rw [hent] at this
  rw [this, propF_oob, ovw_ovw _ _ _ _ (by rw [length_ct, length_ct])]
  rw [ovw_eval_out (by rw [length_ct]; omega), ovw_eval_out (by rw [length_ct]; omega)]
  simp [fN]

theorem root_sweep0 {prog : Prog} {G nb L lo hi : Nat} {sk : Sk} (hlay : Lay prog.insns sk 0)
    (hok : sk.ok G nb L = true) (hgsc : sk.gsc lo hi = true) (hrex : sk.rex = true) (o : OV) :
    swF prog (List.range' 0 sk.size) (propF (fN sk.size) 0 o) = ovw (fN sk.size) 0 (ct 1 sk o) := by
  have hH : Has (fN sk.size) 0 (ct 0 sk o) := by
    intro i p hp
    rw [ct_zero] at hp
    have hlt : i < sk.size := by
      by_cases hlt : i < sk.size
      · exact hlt
      · rw [List.getElem?_eq_none (by simp; omega)] at hp; cases hp
    simp [hlt] at hp
    subst hp
    simp [fN, hlt]
  rw [sweep_sk sk 0 lo hi 0 o _ hlay hok hgsc hrex hH, propF_oob]
  rw [ovw_eval_out (by rw [length_ct]; omega)]
  simp [fN]


/-- **`mkOrd` stops at a fixpoint of the sweep** (after at most three sweeps) on a laid-out skeleton. -/
theorem mkOrd_fix {prog : Prog} {nb L lo hi : Nat} {sk : Sk} (hlay : Lay prog.insns sk 0)
    (hsz : prog.insns.size = sk.size) (hok : sk.ok prog.groups nb L = true) (hgsc : sk.gsc lo hi = true)
    (hrex : sk.rex = true) : ordSweep prog (mkOrd prog) = mkOrd prog := by
  unfold mkOrd
  generalize hc0 : (Array.replicate prog.insns.size (none : OV)).setIfInBounds 0
    (some (Array.replicate prog.groups 1)) = c0
  by_cases hn : prog.insns.size = 0
  · rw [hn]
    refine mkOrdLoop_fix prog _ 0 c0 (by omega) ?_
    simp [swN, ordSweep, hn]
  · refine mkOrdLoop_fix prog _ 2 c0 (by omega) ?_
    have v0 : vw c0 = propF (fN sk.size) 0 (some (Array.replicate prog.groups 1)) := by
      rw [← hc0, hsz]; exact vw_c0 _ _
    have v1 : vw (ordSweep prog c0) = ovw (fN sk.size) 0 (ct 1 sk (some (Array.replicate prog.groups 1))) := by
      rw [vw_sweep, v0, hsz]; exact root_sweep0 hlay hok hgsc hrex _
    have v2 : vw (ordSweep prog (ordSweep prog c0)) =
        ovw (fN sk.size) 0 (ct 2 sk (some (Array.replicate prog.groups 1))) := by
      rw [vw_sweep, v1, hsz]; exact root_sweepS hlay hok hgsc hrex _ (Nat.le_refl _)
    have v3 : vw (ordSweep prog (ordSweep prog (ordSweep prog c0))) =
        ovw (fN sk.size) 0 (ct 2 sk (some (Array.replicate prog.groups 1))) := by
      rw [vw_sweep, v2, hsz, root_sweepS hlay hok hgsc hrex _ (by omega), ct_ge2 (by omega)]
    show ordSweep prog (ordSweep prog (ordSweep prog c0)) = ordSweep prog (ordSweep prog c0)
    exact vw_inj (v3.trans v2.symm)


/-! ## Part 11: the invariants of the iteration, and the result -/

/-- The invariant of the iteration, on the function view. -/
def RInv (C : OrdCert) (G n : Nat) (F : CF) : Prop :=
  (∀ x, F x = none ↔ n ≤ x) ∧ (∃ v, F 0 = some (some v)) ∧ SzF G F ∧ DomF C F

theorem RInv.swF {prog : Prog} {C : OrdCert} {n : Nat} (hC : checkOrd prog C = true)
    (hCs : ∀ (x : Nat) (v : Array Nat), C[x]? = some (some v) → v.size = prog.groups) {F : CF}
    (h : RInv C prog.groups n F) (l : List Nat) : RInv C prog.groups n (swF prog l F) := by
  obtain ⟨h1, ⟨v, h2⟩, h3, h4⟩ := h
  have hle : LeF (Regress.Certs.swF prog l F) F := foldl_le (stepF prog) (stepF_le prog) l F
  obtain ⟨i3, i4⟩ := inv_swF hC hCs l h3 h4
  refine ⟨fun x => ?_, ?_, i3, i4⟩
  · obtain ⟨w, hw⟩ := hle x
    rw [hw, ← h1 x]
    cases F x <;> simp
  · obtain ⟨w, hw⟩ := hle 0
    rw [h2] at hw
    rcases w with _ | w
    · exact ⟨v, by rw [hw]; rfl⟩
    · exact ⟨meetVec v w, by rw [hw]; rfl⟩

theorem allSuccs_lt {prog : Prog} (hwf : ∀ x i, prog.insns[x]? = some i → VM.wfInsn prog x i = true)
    (hlast : prog.insns[prog.insns.size - 1]? = some .goal ∨ prog.insns[prog.insns.size - 1]? = some .justFail)
    {ip : Nat} {insn : Insn} (hi : prog.insns[ip]? = some insn) :
    ∀ t ∈ allSuccs prog ip insn, t < prog.insns.size := by
  have next : ∀ (x : Nat) (i : Insn), prog.insns[x]? = some i → i ≠ .goal → i ≠ .justFail →
      x + 1 < prog.insns.size := by
    intro x i hx hg hj
    have hlt := lt_of_getElem?_eq_some hx
    by_cases hl : x + 1 < prog.insns.size
    · exact hl
    · exfalso
      have : x = prog.insns.size - 1 := by omega
      rw [← this, hx] at hlast
      rcases hlast with h | h
      · cases h; exact hg rfl
      · cases h; exact hj rfl
  have hw := hwf ip insn hi
  intro t ht
  cases insn
  case goal => simp [allSuccs] at ht
  case justFail => simp [allSuccs] at ht
  case jump t' =>
    simp only [allSuccs, List.mem_cons, List.not_mem_nil, or_false] at ht
    simp only [VM.wfInsn, decide_eq_true_eq] at hw
    omega
  case alt s' =>
    simp only [allSuccs, List.mem_cons, List.not_mem_nil, or_false] at ht
    simp only [VM.wfInsn, decide_eq_true_eq] at hw
    have := next ip _ hi (by simp) (by simp)
    omega
  case enterLoop id mn mx gr ex =>
    simp only [allSuccs, List.mem_cons, List.not_mem_nil, or_false] at ht
    simp only [VM.wfInsn, Bool.and_eq_true, decide_eq_true_eq] at hw
    have := next ip _ hi (by simp) (by simp)
    omega
  case loopAgain b' =>
    simp only [allSuccs] at ht
    split at ht
    · rename_i id mn mx gr ex hb
      simp only [List.mem_cons, List.not_mem_nil, or_false] at ht
      have hw' := hwf b' _ hb
      simp only [VM.wfInsn, Bool.and_eq_true, decide_eq_true_eq] at hw'
      have := next b' _ hb (by simp) (by simp)
      omega
    · simp at ht
  case lookahead neg sg eg k =>
    simp only [allSuccs, List.mem_cons, List.not_mem_nil, or_false] at ht
    have := wfLook_spec (show VM.wfLook prog ip sg eg k = true from hw)
    omega
  case lookbehind neg sg eg k =>
    simp only [allSuccs, List.mem_cons, List.not_mem_nil, or_false] at ht
    have := wfLook_spec (show VM.wfLook prog ip sg eg k = true from hw)
    omega
  case loop1 mn mx gr =>
    simp only [allSuccs, List.mem_cons, List.not_mem_nil, or_false] at ht
    simp only [VM.wfInsn, Bool.and_eq_true, decide_eq_true_eq] at hw
    omega
  all_goals
    simp only [allSuccs, List.mem_cons, List.not_mem_nil, or_false] at ht
    have := next ip _ hi (by simp) (by simp)
    omega

theorem edges_lt {prog : Prog} (hwf : ∀ x i, prog.insns[x]? = some i → VM.wfInsn prog x i = true)
    (hlast : prog.insns[prog.insns.size - 1]? = some .goal ∨ prog.insns[prog.insns.size - 1]? = some .justFail)
    (ip : Nat) (insn : Insn) (v : Array Nat) (hi : prog.insns[ip]? = some insn) :
    ∀ tw ∈ ordEdges prog ip insn v, tw.1 < prog.insns.size := by
  have gen : ∀ tw ∈ (allSuccs prog ip insn).map (fun t => (t, outVec insn v)), tw.1 < prog.insns.size := by
    intro tw htw
    simp only [List.mem_map] at htw
    obtain ⟨t, ht, rfl⟩ := htw
    exact allSuccs_lt hwf hlast hi t ht
  have hw := hwf ip insn hi
  cases insn
  case lookahead neg sg eg k =>
    intro tw htw
    simp only [ordEdges, List.mem_cons, List.not_mem_nil, or_false] at htw
    have := wfLook_spec (show VM.wfLook prog ip sg eg k = true from hw)
    rcases htw with rfl | rfl <;> simp <;> omega
  case lookbehind neg sg eg k =>
    intro tw htw
    simp only [ordEdges, List.mem_cons, List.not_mem_nil, or_false] at htw
    have := wfLook_spec (show VM.wfLook prog ip sg eg k = true from hw)
    rcases htw with rfl | rfl <;> simp <;> omega
  all_goals exact gen

theorem ordAt_size : ∀ (sk : Sk) (v w : Array Nat), w ∈ ordAt sk v → w.size = v.size
  | .nil, _, _, h => by simp [ordAt] at h
  | .one _, _, _, h => by simp [ordAt] at h; rw [h]
  | .seq a c, v, w, h => by
    simp only [ordAt, List.mem_append] at h
    rcases h with h | h
    · exact ordAt_size a v w h
    · rw [ordAt_size c _ w h]; simp
  | .alt a c, v, w, h => by
    simp only [ordAt, List.mem_append, List.mem_singleton] at h
    rcases h with ((h | h) | h) | h
    · rw [h]
    · exact ordAt_size a v w h
    · rw [h]; simp
    · exact ordAt_size c v w h
  | .loop _ _ _ _ g0 cnt body, v, w, h => by
    simp only [ordAt, List.mem_append, List.mem_singleton, List.mem_map] at h
    rcases h with ((h | ⟨i, _, h⟩) | h) | h
    · rw [h]
    · rw [← h]; simp
    · rw [ordAt_size body _ w h]; simp
    · rw [h]; simp
  | .loop1 _ _ _ _, v, w, h => by simp [ordAt] at h; rw [h]
  | .group g body, v, w, h => by
    simp only [ordAt, List.mem_append, List.mem_singleton] at h
    rcases h with (h | h) | h
    · rw [h]
    · rw [ordAt_size body _ w h]; simp
    · rw [h]; simp
  | .look _ _ _ _ body, v, w, h => by
    simp only [ordAt, List.mem_append, List.mem_singleton] at h
    rcases h with (h | h) | h
    · rw [h]
    · rw [ordAt_size body _ w h]; simp
    · rw [h]; simp

theorem ordCert_size (sk : Sk) (G : Nat) (x : Nat) (v : Array Nat) (h : (ordCert sk G)[x]? = some (some v)) :
    v.size = G := by
  simp only [ordCert, List.getElem?_toArray, List.getElem?_map] at h
  rcases hx : (ordAt sk (Array.replicate G 1) ++ [killL sk.begins (Array.replicate G 1)])[x]? with _ | w
  · rw [hx] at h; cases h
  · rw [hx] at h
    simp only [Option.map_some, Option.some.injEq] at h
    subst h
    have hm := List.mem_of_getElem? hx
    simp only [List.mem_append, List.mem_singleton] at hm
    rcases hm with hm | hm
    · rw [ordAt_size sk _ _ hm]; simp
    · rw [hm]; simp


/-- **The canonical capture-order certificate of a laid-out skeleton is valid.** -/
theorem checkOrd_mkOrd {prog : Prog} {nb L lo hi : Nat} {sk : Sk} (hlay : Lay prog.insns sk 0)
    (hsz : prog.insns.size = sk.size) (hok : sk.ok prog.groups nb L = true) (hgsc : sk.gsc lo hi = true)
    (hrex : sk.rex = true) (hnd : sk.begins.Nodup) (hpos : 0 < sk.size)
    (hwf : ∀ x i, prog.insns[x]? = some i → VM.wfInsn prog x i = true)
    (hlast : prog.insns[prog.insns.size - 1]? = some .goal ∨ prog.insns[prog.insns.size - 1]? = some .justFail) :
    checkOrd prog (mkOrd prog) = true := by
  have hC := checkOrd_ordCert hlay hsz hok hgsc hrex hnd
  have hCs := ordCert_size sk prog.groups
  have hC0 : (ordCert sk prog.groups)[0]? = some (some (Array.replicate prog.groups 1)) := by
    have := hC
    simp only [checkOrd, Bool.and_eq_true, beq_iff_eq] at this
    exact this.1
  have hfix := mkOrd_fix hlay hsz hok hgsc hrex
  have hn : 0 < prog.insns.size := by omega
  -- the invariant
  have hinv : RInv (ordCert sk prog.groups) prog.groups prog.insns.size (vw (mkOrd prog)) := by
    unfold mkOrd
    refine mkOrdLoop_inv prog (fun c => RInv (ordCert sk prog.groups) prog.groups prog.insns.size (vw c))
      (fun c hc => by rw [vw_sweep]; exact hc.swF hC hCs _) _ _ ?_
    rw [vw_c0]
    have hev : ∀ x, propF (fN prog.insns.size) 0 (some (Array.replicate prog.groups 1)) x =
        if x = 0 then some (some (Array.replicate prog.groups 1)) else if x < prog.insns.size then some none
        else none := by
      intro x
      simp only [propF, fN]
      by_cases hx : x = 0
      · subst hx; simp [hn, jn]
      · simp [hx]
    refine ⟨fun x => ?_, ⟨Array.replicate prog.groups 1, ?_⟩, ?_, ?_⟩
    · rw [hev]
      by_cases hx : x = 0
      · subst hx; simp only [if_true]
        constructor
        · intro h; cases h
        · intro h; omega
      · simp [hx]
    · rw [hev]; simp
    · intro x v hx
      rw [hev] at hx
      split at hx
      · cases hx; simp
      · split at hx <;> cases hx
    · intro x v hx
      rw [hev] at hx
      split at hx
      · rename_i e; subst e
        cases hx
        exact ⟨_, hC0, fun g => Or.inr rfl⟩
      · split at hx <;> cases hx
  obtain ⟨i1, ⟨v, i2⟩, i3, i4⟩ := hinv
  have hsize : (mkOrd prog).size = prog.insns.size := by
    have a := (i1 (mkOrd prog).size).1 (Array.getElem?_eq_none (Nat.le_refl _))
    have b := (i1 prog.insns.size).2 (Nat.le_refl _)
    have b' : (mkOrd prog)[prog.insns.size]? = none := b
    rw [Array.getElem?_eq_none_iff] at b'
    omega
  have h0 : (mkOrd prog)[0]? = some (some (Array.replicate prog.groups 1)) := by
    have hv : (mkOrd prog)[0]? = some (some v) := i2
    rw [hv]
    obtain ⟨vC, hvC, hW⟩ := i4 0 v i2
    rw [hC0] at hvC; cases hvC
    have hvs := i3 0 v i2
    congr 2
    apply Array.ext_getElem?
    intro g
    rcases hW g with h | h
    · by_cases hg : g < prog.groups
      · simp [hg] at h
      · rw [Array.getElem?_eq_none (by simp; omega)] at h; cases h
    · exact h.symm
  exact checkOrd_of_fix hC hCs hfix hsize h0 i3 i4 (fun ip insn v hi => edges_lt hwf hlast ip insn v hi)

/-- **C06, the canonical capture-order certificate:** `mkOrd` (the round-robin data-flow iteration, which
stops after at most three sweeps) passes `checkOrd` on every emitted program whose groups have one `Begin`
each and whose reset / look-around ranges are exact. -/
theorem Root.checkOrd_mk {r : IR.Regex} {prog : Prog} {sk : Sk} (R : Root r prog sk) (hnd : sk.begins.Nodup)
    (hrex : sk.rex = true) : Safety.checkOrd prog (Safety.mkOrd prog) = true := by
  have hpos := endsPlain_size_pos R.ends
  refine checkOrd_mkOrd R.lay R.size R.ok R.gsc hrex hnd hpos ?_ ?_
  · intro x i hi
    have hlt := lt_of_getElem?_eq_some hi
    exact R.lay.root_wfInsn R.ok R.gsc R.ends (by rw [R.size]; omega) x (Nat.zero_le _)
      (by rw [← R.size]; omega) i hi
  · have := R.lay.root_last R.ends
    rw [Nat.zero_add, ← R.size] at this
    exact this


/-! ## Non-vacuity: a loop with three resets, an unreachable instruction after `JustFail`, a look-ahead -/

def mkExSk : Sk :=
  .seq (.loop 0 0 none true 1 3 (.alt (.group 1 (.seq (.group 2 (.one (.char 97))) (.one (.char 1))))
      (.seq (.group 3 (.one (.char 98))) (.seq (.one .justFail) (.one (.char 99))))))
    (.seq (.look false false 4 5 (.group 4 (.one .matchAny))) (.one .goal))

def mkExProg : Prog :=
  { (default : Prog) with
    insns := #[.enterLoop 0 0 none true 18, .resetCaptureGroup 1, .resetCaptureGroup 2, .resetCaptureGroup 3,
      .alt 12, .beginCaptureGroup 1, .beginCaptureGroup 2, .char 97, .endCaptureGroup 2, .char 1,
      .endCaptureGroup 1, .jump 17, .beginCaptureGroup 3, .char 98, .endCaptureGroup 3, .justFail, .char 99,
      .loopAgain 0, .lookahead false 4 5 23, .beginCaptureGroup 4, .matchAny, .endCaptureGroup 4, .goal, .goal]
    loops := 1
    groups := 5 }

theorem mkExLay : Lay mkExProg.insns mkExSk 0 := by
  simp only [mkExSk, Lay, Sk.size, At, lookI]
  refine ⟨⟨rfl, ?_, ⟨rfl, ⟨rfl, ⟨⟨rfl, rfl, rfl⟩, rfl⟩, rfl⟩, rfl, ⟨rfl, rfl, rfl⟩, rfl, rfl⟩, rfl⟩,
    ⟨rfl, ⟨rfl, rfl, rfl⟩, rfl⟩, rfl⟩
  intro i hi
  have : i = 0 ∨ i = 1 ∨ i = 2 := by omega
  rcases this with rfl | rfl | rfl <;> rfl

/-- The hypotheses of `checkOrd_mkOrd` are satisfiable … -/
example : checkOrd mkExProg (mkOrd mkExProg) = true := by
  have hall : ∀ x, x < 24 → (match mkExProg.insns[x]? with
      | some i => VM.wfInsn mkExProg x i
      | none => true) = true := by decide +kernel
  refine checkOrd_mkOrd (nb := 0) (L := 1) (lo := 0) (hi := 5) mkExLay (by decide) (by decide) (by decide)
    (by decide) (by decide) (by decide) ?_ (by decide)
  intro x i hi
  have := hall x (lt_of_getElem?_eq_some hi)
  rw [hi] at this
  exact this

/-- … the canonical certificate is the explicit final one (`ct 2`), it has an unreachable entry, the first
sweep does not yet produce it (three sweeps are needed), … -/
example : mkOrd mkExProg = (ct 2 mkExSk (some (Array.replicate 5 1))).toArray ∧ (mkOrd mkExProg)[16]? = some none ∧
    ct 1 mkExSk (some (Array.replicate 5 1)) ≠ ct 2 mkExSk (some (Array.replicate 5 1)) := by decide +kernel

/-- … and the checker indeed evaluates to `true` on it. -/
example : checkOrd mkExProg (mkOrd mkExProg) = true := by decide +kernel

#print axioms Root.checkOrd_mk
#print axioms mkOrd_fix

end Regress.Certs
