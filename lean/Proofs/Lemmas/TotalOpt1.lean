import Proofs.C03
import Proofs.Lemmas.SemWf
import Proofs.Lemmas.CodePointSet
/-!
# Totality of the optimizer, part 1: the generic machinery

* `HW` / `wt`: compositional weights of IR trees (a head weight per constructor; the weight of a
  `Loop` may depend on its quantifier and, monotonically, on the weight of its body).
* `InvCongr Inv`: the invariant `Inv` is compositional (a parent is fine iff its children are, the
  only thing a parent may look at in a child being its number of capture groups).
* `PassGood Inv h U f`: on a node satisfying `Inv` the pass `f` does not panic, keeps `Inv` and the
  number of groups, does not increase the weight `U`, and every answer other than `Keep` strictly
  decreases the weight `h`.
* `processPost_good`: lifted through one post-order walk (`Pass::run_postorder`): no panic, and
  either `changed` is untouched or the weight `h` of the tree strictly decreased.
* `runToFixpoint_good`: `run_to_fixpoint` terminates within `wt h n + 1` rounds, without panic.
-/
namespace Regress.IR

/-! ## Weights -/

/-- Head weights. -/
structure HW where
  leaf : Node → Nat
  cat : Nat
  alt : Nat
  group : Nat
  look : Nat
  loop1 : Nat
  loop : Quant → Nat → Nat

/-- The loop weight is strictly monotone in the weight of the body. -/
def HW.Mono (h : HW) : Prop := ∀ q a b, a < b → h.loop q a < h.loop q b

theorem HW.Mono.le {h : HW} (hm : h.Mono) (q : Quant) {a b : Nat} (hab : a ≤ b) : h.loop q a ≤ h.loop q b := by
  rcases Nat.lt_or_eq_of_le hab with hlt | rfl
  · exact Nat.le_of_lt (hm q a b hlt)
  · exact Nat.le_refl _

mutual
/-- The weight of a tree. -/
def wt (h : HW) : Node → Nat
  | .cat ns => h.cat + wtList h ns
  | .alt l r => h.alt + wt h l + wt h r
  | .group _ _ c => h.group + wt h c
  | .look _ _ _ _ c => h.look + wt h c
  | .loop b q _ _ => h.loop q (wt h b)
  | .loop1 b _ => h.loop1 + wt h b
  | .empty => h.leaf .empty
  | .goal => h.leaf .goal
  | .char c => h.leaf (.char c)
  | .byteSeq bs => h.leaf (.byteSeq bs)
  | .byteSet bs => h.leaf (.byteSet bs)
  | .charSet cs => h.leaf (.charSet cs)
  | .matchAny => h.leaf .matchAny
  | .matchAnyExceptLT => h.leaf .matchAnyExceptLT
  | .anchor a b => h.leaf (.anchor a b)
  | .wordBoundary a b => h.leaf (.wordBoundary a b)
  | .backRef a b => h.leaf (.backRef a b)
  | .bracket bc => h.leaf (.bracket bc)
  | .stringSet a b => h.leaf (.stringSet a b)
def wtList (h : HW) : List Node → Nat
  | [] => 0
  | n :: ns => wt h n + wtList h ns
end

theorem wt_leaf (h : HW) (n : Node) (hl : n.isLeaf = true) : wt h n = h.leaf n := by
  cases n <;> first | rfl | simp [Node.isLeaf] at hl

theorem wtList_append (h : HW) (xs ys : List Node) : wtList h (xs ++ ys) = wtList h xs + wtList h ys := by
  induction xs with
  | nil => simp [wtList]
  | cons x xs ih => simp only [List.cons_append, wtList, ih]; omega

theorem wtList_replicate (h : HW) (k : Nat) (b : Node) : wtList h (List.replicate k b) = k * wt h b := by
  induction k with
  | zero => simp [wtList]
  | succ k ih => simp only [List.replicate_succ, wtList, ih, Nat.succ_mul]; omega

/-- Pointwise comparison of head weights. -/
structure HW.Le (h U : HW) : Prop where
  leaf : ∀ n, h.leaf n ≤ U.leaf n
  cat : h.cat ≤ U.cat
  alt : h.alt ≤ U.alt
  group : h.group ≤ U.group
  look : h.look ≤ U.look
  loop1 : h.loop1 ≤ U.loop1
  loop : ∀ q a b, a ≤ b → h.loop q a ≤ U.loop q b

mutual
theorem wt_le {h U : HW} (hle : h.Le U) : ∀ n : Node, wt h n ≤ wt U n
  | .cat ns => by have := wtList_le hle ns; have := hle.cat; simp only [wt]; omega
  | .alt l r => by
    have := wt_le hle l; have := wt_le hle r; have := hle.alt; simp only [wt]; omega
  | .group _ _ c => by have := wt_le hle c; have := hle.group; simp only [wt]; omega
  | .look _ _ _ _ c => by have := wt_le hle c; have := hle.look; simp only [wt]; omega
  | .loop b q _ _ => by simp only [wt]; exact hle.loop q _ _ (wt_le hle b)
  | .loop1 b _ => by have := wt_le hle b; have := hle.loop1; simp only [wt]; omega
  | .empty => hle.leaf _
  | .goal => hle.leaf _
  | .char _ => hle.leaf _
  | .byteSeq _ => hle.leaf _
  | .byteSet _ => hle.leaf _
  | .charSet _ => hle.leaf _
  | .matchAny => hle.leaf _
  | .matchAnyExceptLT => hle.leaf _
  | .anchor _ _ => hle.leaf _
  | .wordBoundary _ _ => hle.leaf _
  | .backRef _ _ => hle.leaf _
  | .bracket _ => hle.leaf _
  | .stringSet _ _ => hle.leaf _
theorem wtList_le {h U : HW} (hle : h.Le U) : ∀ ns : List Node, wtList h ns ≤ wtList U ns
  | [] => Nat.le_refl _
  | n :: ns => by have := wt_le hle n; have := wtList_le hle ns; simp only [wtList]; omega
end

/-! ## Compositional invariants -/

/-- `Inv` is compositional; a parent only looks at the number of groups of a child. -/
structure InvCongr (Inv : Node → Prop) : Prop where
  cat : ∀ ns, Inv (.cat ns) ↔ ∀ n ∈ ns, Inv n
  alt : ∀ l r, Inv (.alt l r) ↔ Inv l ∧ Inv r
  group_sub : ∀ {i nm c}, Inv (.group i nm c) → Inv c
  group_re : ∀ {i nm c c'}, Inv (.group i nm c) → Inv c' → numGroups c' = numGroups c → Inv (.group i nm c')
  look_sub : ∀ {ng bw sg eg c}, Inv (.look ng bw sg eg c) → Inv c
  look_re : ∀ {ng bw sg eg c c'}, Inv (.look ng bw sg eg c) → Inv c' → numGroups c' = numGroups c →
    Inv (.look ng bw sg eg c')
  loop_sub : ∀ {b q g0 g1}, Inv (.loop b q g0 g1) → Inv b
  loop_re : ∀ {b q g0 g1 b'}, Inv (.loop b q g0 g1) → Inv b' → numGroups b' = numGroups b →
    Inv (.loop b' q g0 g1)
  loop1_sub : ∀ {b q}, Inv (.loop1 b q) → Inv b
  loop1_re : ∀ {b q b'}, Inv (.loop1 b q) → Inv b' → numGroups b' = numGroups b → Inv (.loop1 b' q)

theorem InvCongr.and {A B : Node → Prop} (ha : InvCongr A) (hb : InvCongr B) :
    InvCongr (fun n => A n ∧ B n) where
  cat ns := by
    simp only [ha.cat, hb.cat]
    exact ⟨fun h n hn => ⟨h.1 n hn, h.2 n hn⟩, fun h => ⟨fun n hn => (h n hn).1, fun n hn => (h n hn).2⟩⟩
  alt l r := by simp only [ha.alt, hb.alt]; exact ⟨fun h => ⟨⟨h.1.1, h.2.1⟩, h.1.2, h.2.2⟩, fun h => ⟨⟨h.1.1, h.2.1⟩, h.1.2, h.2.2⟩⟩
  group_sub h := ⟨ha.group_sub h.1, hb.group_sub h.2⟩
  group_re h h' e := ⟨ha.group_re h.1 h'.1 e, hb.group_re h.2 h'.2 e⟩
  look_sub h := ⟨ha.look_sub h.1, hb.look_sub h.2⟩
  look_re h h' e := ⟨ha.look_re h.1 h'.1 e, hb.look_re h.2 h'.2 e⟩
  loop_sub h := ⟨ha.loop_sub h.1, hb.loop_sub h.2⟩
  loop_re h h' e := ⟨ha.loop_re h.1 h'.1 e, hb.loop_re h.2 h'.2 e⟩
  loop1_sub h := ⟨ha.loop1_sub h.1, hb.loop1_sub h.2⟩
  loop1_re h h' e := ⟨ha.loop1_re h.1 h'.1 e, hb.loop1_re h.2 h'.2 e⟩

/-! ## Passes -/

/-- What a pass must satisfy, node by node. -/
def PassGood (Inv : Node → Prop) (h U : HW) (f : PassFn) : Prop :=
  ∀ n w, Inv n → ∃ a, f n w = .ok a ∧ Inv (a.result n) ∧ numGroups (a.result n) = numGroups n ∧
    wt U (a.result n) ≤ wt U n ∧ (a = .keep ∨ wt h (a.result n) < wt h n)

/-- What a walk establishes: from `n` (with `changed = c`) to `n'` (with `changed = c'`). -/
def Step (Inv : Node → Prop) (h U : HW) (n : Node) (c : Bool) (n' : Node) (c' : Bool) : Prop :=
  Inv n' ∧ numGroups n' = numGroups n ∧ wt U n' ≤ wt U n ∧
    ((c' = c ∧ wt h n' ≤ wt h n) ∨ (c' = true ∧ wt h n' < wt h n))

def StepList (Inv : Node → Prop) (h U : HW) (ns : List Node) (c : Bool) (ns' : List Node) (c' : Bool) : Prop :=
  (∀ n ∈ ns', Inv n) ∧ numGroupsList ns' = numGroupsList ns ∧ wtList U ns' ≤ wtList U ns ∧
    ((c' = c ∧ wtList h ns' ≤ wtList h ns) ∨ (c' = true ∧ wtList h ns' < wtList h ns))

theorem step_add {c c1 : Bool} {x x' : Nat} (k : Nat)
    (h4 : (c1 = c ∧ x' ≤ x) ∨ (c1 = true ∧ x' < x)) :
    (c1 = c ∧ k + x' ≤ k + x) ∨ (c1 = true ∧ k + x' < k + x) := by
  rcases h4 with ⟨e, _⟩ | ⟨e, _⟩
  · left; exact ⟨e, by omega⟩
  · right; exact ⟨e, by omega⟩

theorem Step.refl {Inv : Node → Prop} {h U : HW} {n : Node} (c : Bool) (hn : Inv n) : Step Inv h U n c n c :=
  ⟨hn, rfl, Nat.le_refl _, .inl ⟨rfl, Nat.le_refl _⟩⟩

section Generic
variable {Inv : Node → Prop} {h U : HW} {f : PassFn}

/-- The visitor at the end of `process`. -/
theorem visit_good (hf : PassGood Inv h U f) {n m : Node} {c cm : Bool} (w : Walk)
    (hm : Step Inv h U n c m cm) :
    ∃ n' w' c', passVisitor f m w cm = .ok (n', w', c') ∧ Step Inv h U n c n' c' := by
  obtain ⟨a, ha, h1, h2, h3, h4⟩ := hf m w hm.1
  obtain ⟨_, m2, m3, m4⟩ := hm
  have hchg : wt h (a.result m) < wt h m → Step Inv h U n c (a.result m) true := by
    intro hlt
    refine ⟨h1, h2.trans m2, Nat.le_trans h3 m3, .inr ⟨rfl, ?_⟩⟩
    rcases m4 with ⟨_, hle⟩ | ⟨_, hlt'⟩ <;> omega
  unfold passVisitor
  rw [ha]
  cases a with
  | keep =>
    refine ⟨m, w, cm, rfl, h1, h2.trans m2, Nat.le_trans h3 m3, ?_⟩
    simpa [PassAction.result] using m4
  | modified n' =>
    rcases h4 with h4 | h4
    · cases h4
    · exact ⟨n', w, true, rfl, hchg h4⟩
  | remove =>
    rcases h4 with h4 | h4
    · cases h4
    · exact ⟨.empty, w, true, rfl, hchg h4⟩
  | replace n' =>
    rcases h4 with h4 | h4
    · cases h4
    · exact ⟨n', w, true, rfl, hchg h4⟩

theorem finish_visit_good (hf : PassGood Inv h U f) {n m : Node} {c cm : Bool} (w : Walk)
    (hm : Step Inv h U n c m cm) :
    ∃ n' w' c', finish (passVisitor f) (.ok (m, w, cm)) = .ok (n', w', c') ∧ Step Inv h U n c n' c' :=
  visit_good hf w.leave hm

mutual
theorem processPost_good (hI : InvCongr Inv) (hh : h.Mono) (hU : U.Mono) (hf : PassGood Inv h U f) :
    ∀ (n : Node) (w : Walk) (c : Bool), Inv n →
      ∃ n' w' c', processPost (passVisitor f) n w c = .ok (n', w', c') ∧ Step Inv h U n c n' c'
  | .cat ns, w, c, hn => by
    obtain ⟨ns', w1, c1, e, s1, s2, s3, s4⟩ :=
      processPostList_good hI hh hU hf ns w.enter c ((hI.cat ns).1 hn)
    rw [processPost_cat, e]
    refine finish_visit_good hf w1 ⟨(hI.cat ns').2 s1, by simpa [numGroups] using s2, ?_, ?_⟩
    · simp only [wt]; omega
    · simp only [wt]; exact step_add _ s4
  | .alt l r, w, c, hn => by
    have hlr := (hI.alt l r).1 hn
    obtain ⟨l', w1, c1, e1, a1, a2, a3, a4⟩ := processPost_good hI hh hU hf l w.enter c hlr.1
    obtain ⟨r', w2, c2, e2, b1, b2, b3, b4⟩ := processPost_good hI hh hU hf r w1 c1 hlr.2
    rw [processPost_alt, e1]
    simp only []
    rw [e2]
    refine finish_visit_good hf w2 ⟨(hI.alt l' r').2 ⟨a1, b1⟩, by simp [numGroups, a2, b2], ?_, ?_⟩
    · simp only [wt]; omega
    · simp only [wt]
      rcases a4 with ⟨rfl, _⟩ | ⟨rfl, _⟩ <;> rcases b4 with ⟨rfl, _⟩ | ⟨rfl, _⟩
      · left; exact ⟨rfl, by omega⟩
      · right; exact ⟨rfl, by omega⟩
      · right; exact ⟨rfl, by omega⟩
      · right; exact ⟨rfl, by omega⟩
  | .loop b q g0 g1, w, c, hn => by
    obtain ⟨b', w1, c1, e1, a1, a2, a3, a4⟩ := processPost_good hI hh hU hf b w.enter c (hI.loop_sub hn)
    rw [processPost_loop, e1]
    refine finish_visit_good hf w1 ⟨hI.loop_re hn a1 a2, by simp [numGroups, a2], ?_, ?_⟩
    · simp only [wt]; exact hU.le q a3
    · simp only [wt]
      rcases a4 with ⟨rfl, hle⟩ | ⟨rfl, hlt⟩
      · left; exact ⟨rfl, hh.le q hle⟩
      · right; exact ⟨rfl, hh q _ _ hlt⟩
  | .loop1 b q, w, c, hn => by
    obtain ⟨b', w1, c1, e1, a1, a2, a3, a4⟩ := processPost_good hI hh hU hf b w.enter c (hI.loop1_sub hn)
    rw [processPost_loop1, e1]
    refine finish_visit_good hf w1 ⟨hI.loop1_re hn a1 a2, by simp [numGroups, a2], ?_, ?_⟩
    · simp only [wt]; omega
    · simp only [wt]; exact step_add _ a4
  | .group i nm b, w, c, hn => by
    obtain ⟨b', w1, c1, e1, a1, a2, a3, a4⟩ := processPost_good hI hh hU hf b w.enter c (hI.group_sub hn)
    rw [processPost_group, e1]
    refine finish_visit_good hf w1 ⟨hI.group_re hn a1 a2, by simp [numGroups, a2], ?_, ?_⟩
    · simp only [wt]; omega
    · simp only [wt]; exact step_add _ a4
  | .look ng bw sg eg b, w, c, hn => by
    obtain ⟨b', w1, c1, e1, a1, a2, a3, a4⟩ :=
      processPost_good hI hh hU hf b { w.enter with inLookbehind := bw } c (hI.look_sub hn)
    rw [processPost_look, e1]
    refine finish_visit_good hf _ ⟨hI.look_re hn a1 a2, by simp [numGroups, a2], ?_, ?_⟩
    · simp only [wt]; omega
    · simp only [wt]; exact step_add _ a4
  | .empty, w, c, hn => by rw [processPost_leaf _ _ rfl]; exact visit_good hf _ (Step.refl c hn)
  | .goal, w, c, hn => by rw [processPost_leaf _ _ rfl]; exact visit_good hf _ (Step.refl c hn)
  | .char _, w, c, hn => by rw [processPost_leaf _ _ rfl]; exact visit_good hf _ (Step.refl c hn)
  | .byteSeq _, w, c, hn => by rw [processPost_leaf _ _ rfl]; exact visit_good hf _ (Step.refl c hn)
  | .byteSet _, w, c, hn => by rw [processPost_leaf _ _ rfl]; exact visit_good hf _ (Step.refl c hn)
  | .charSet _, w, c, hn => by rw [processPost_leaf _ _ rfl]; exact visit_good hf _ (Step.refl c hn)
  | .matchAny, w, c, hn => by rw [processPost_leaf _ _ rfl]; exact visit_good hf _ (Step.refl c hn)
  | .matchAnyExceptLT, w, c, hn => by rw [processPost_leaf _ _ rfl]; exact visit_good hf _ (Step.refl c hn)
  | .anchor _ _, w, c, hn => by rw [processPost_leaf _ _ rfl]; exact visit_good hf _ (Step.refl c hn)
  | .wordBoundary _ _, w, c, hn => by rw [processPost_leaf _ _ rfl]; exact visit_good hf _ (Step.refl c hn)
  | .backRef _ _, w, c, hn => by rw [processPost_leaf _ _ rfl]; exact visit_good hf _ (Step.refl c hn)
  | .bracket _, w, c, hn => by rw [processPost_leaf _ _ rfl]; exact visit_good hf _ (Step.refl c hn)
  | .stringSet _ _, w, c, hn => by rw [processPost_leaf _ _ rfl]; exact visit_good hf _ (Step.refl c hn)
theorem processPostList_good (hI : InvCongr Inv) (hh : h.Mono) (hU : U.Mono) (hf : PassGood Inv h U f) :
    ∀ (ns : List Node) (w : Walk) (c : Bool), (∀ n ∈ ns, Inv n) →
      ∃ ns' w' c', processPostList (passVisitor f) ns w c = .ok (ns', w', c') ∧ StepList Inv h U ns c ns' c'
  | [], w, c, _ => ⟨[], w, c, rfl, by simp, rfl, Nat.le_refl _, .inl ⟨rfl, Nat.le_refl _⟩⟩
  | n :: ns, w, c, hn => by
    obtain ⟨n', w1, c1, e1, a1, a2, a3, a4⟩ :=
      processPost_good hI hh hU hf n w c (hn n (List.mem_cons_self ..))
    obtain ⟨ns', w2, c2, e2, b1, b2, b3, b4⟩ :=
      processPostList_good hI hh hU hf ns w1 c1 (fun x hx => hn x (List.mem_cons_of_mem _ hx))
    rw [processPostList_cons, e1]
    simp only []
    rw [e2]
    refine ⟨n' :: ns', w2, c2, rfl, ?_, by simp [numGroupsList, a2, b2], ?_, ?_⟩
    · intro x hx
      rcases List.mem_cons.1 hx with rfl | hx
      · exact a1
      · exact b1 x hx
    · simp only [wtList]; omega
    · simp only [wtList]
      rcases a4 with ⟨rfl, _⟩ | ⟨rfl, _⟩ <;> rcases b4 with ⟨rfl, _⟩ | ⟨rfl, _⟩
      · left; exact ⟨rfl, by omega⟩
      · right; exact ⟨rfl, by omega⟩
      · right; exact ⟨rfl, by omega⟩
      · right; exact ⟨rfl, by omega⟩
end

/-- `Pass::run_postorder` from `changed = false`. -/
theorem runPostorder_good (hI : InvCongr Inv) (hh : h.Mono) (hU : U.Mono) (hf : PassGood Inv h U f)
    (unicode : Bool) (n : Node) (hn : Inv n) :
    ∃ n' c', runPostorder f unicode n false = .ok (n', c') ∧ Step Inv h U n false n' c' := by
  obtain ⟨n', w', c', e, hs⟩ := processPost_good hI hh hU hf n (Walk.new unicode) false hn
  exact ⟨n', c', by simp only [runPostorder, walkMutPost, e], hs⟩

/-- `Pass::run_to_fixpoint` terminates (no panic) within `wt h n + 1` rounds. -/
theorem runToFixpoint_good (hI : InvCongr Inv) (hh : h.Mono) (hU : U.Mono) (hf : PassGood Inv h U f)
    (unicode : Bool) : ∀ (fuel : Nat) (n : Node), Inv n → wt h n < fuel →
      ∃ n', runToFixpoint f unicode fuel n = .ok (n', false) ∧ Inv n' ∧ numGroups n' = numGroups n ∧
        wt U n' ≤ wt U n := by
  intro fuel
  induction fuel with
  | zero => intro n _ hlt; omega
  | succ k ih =>
    intro n hn hlt
    obtain ⟨n1, c1, e, s1, s2, s3, s4⟩ := runPostorder_good hI hh hU hf unicode n hn
    unfold runToFixpoint
    rw [e]
    rcases s4 with ⟨rfl, _⟩ | ⟨rfl, hdec⟩
    · exact ⟨n1, rfl, s1, s2, s3⟩
    · obtain ⟨n2, e2, t1, t2, t3⟩ := ih n1 s1 (by omega)
      exact ⟨n2, by simpa using e2, t1, t2.trans s2, Nat.le_trans t3 s3⟩

end Generic

/-- More fuel does not change the result of `run_to_fixpoint`. -/
theorem runToFixpoint_mono (f : PassFn) (unicode : Bool) : ∀ (fuel fuel' : Nat) (n : Node) (x : Node × Bool),
    runToFixpoint f unicode fuel n = .ok x → fuel ≤ fuel' → runToFixpoint f unicode fuel' n = .ok x := by
  intro fuel
  induction fuel with
  | zero => intro _ _ _ h; simp [runToFixpoint] at h
  | succ k ih =>
    intro fuel' n x h hle
    obtain ⟨k', rfl⟩ : ∃ k', fuel' = k' + 1 := ⟨fuel' - 1, by omega⟩
    unfold runToFixpoint at h ⊢
    split at h
    · cases h
    · rename_i n1 c1 e
      split at h
      · rename_i hc; rw [if_pos hc]; exact h
      · rename_i hc; rw [if_neg hc]; exact ih k' n1 x h (by omega)

end Regress.IR
