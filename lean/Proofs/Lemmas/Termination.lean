import RegressModel.VM.Search
import RegressModel.VM.WfProg
/-!
# Helper lemmas for C05 (termination / bounded backtracking state of the two interpreters)

* Part (a): fuel monotonicity of `Bt.run`, `Pk.tryMatchState`, `Pk.runStates`.
* Part (c): the stack bound (`peak` versus `steps`).
* Part (b): termination of forward (loop-free) programs with an explicit tick bound.
-/
namespace Regress.VM

/-! ## Decidable summaries of outcomes (the `Outcome` types have no `DecidableEq`) -/

/-- What an attempt returned, without the matcher state. -/
inductive Summary where
  | matched (pos steps peak : Nat)
  | failed (steps peak : Nat)
  | outOfFuel
  | error
deriving Repr, DecidableEq

def Bt.Outcome.summary : Bt.Outcome → Summary
  | .matched p _ s k => .matched p s k
  | .failed _ s k => .failed s k
  | .outOfFuel => .outOfFuel
  | .error _ => .error

def Pk.Outcome.summary : Pk.Outcome → Summary
  | .matched p _ s k => .matched p s k
  | .failed s k => .failed s k
  | .outOfFuel => .outOfFuel
  | .error _ => .error

theorem Bt.Outcome.ne_outOfFuel_of_summary {o : Bt.Outcome} (h : o.summary ≠ .outOfFuel) :
    o ≠ .outOfFuel := by
  intro hc; subst hc; exact h rfl

theorem Pk.Outcome.ne_outOfFuel_of_summary {o : Pk.Outcome} (h : o.summary ≠ .outOfFuel) :
    o ≠ .outOfFuel := by
  intro hc; subst hc; exact h rfl

/-! ## (a) Fuel monotonicity — backtracker -/

namespace Bt

theorem run_fuel_mono (prog : Prog) (inp : Input) {limit limit' : Nat} (hl : limit ≤ limit') :
    ∀ (sf sf' : Nat), sf ≤ sf' → ∀ (ip pos : Nat) (fwd : Bool) (st : State) (bts : Array BtInsn)
      (steps peak : Nat),
      run prog inp limit sf ip pos fwd st bts steps peak ≠ .outOfFuel →
      run prog inp limit' sf' ip pos fwd st bts steps peak
        = run prog inp limit sf ip pos fwd st bts steps peak := by
  intro sf
  induction sf with
  | zero => intro sf' _ ip pos fwd st bts steps peak h; simp [run] at h
  | succ sf ih =>
    intro sf' hs ip pos fwd st bts steps peak h
    obtain ⟨sf', rfl⟩ : ∃ k, sf' = k + 1 := ⟨sf' - 1, by omega⟩
    have hs' : sf ≤ sf' := by omega
    have ih' := ih sf' hs'
    simp only [run] at h ⊢
    by_cases hlim : steps ≥ limit
    · simp [hlim] at h
    · have hlim' : ¬ steps ≥ limit' := by omega
      simp only [hlim, hlim', if_false] at h ⊢
      cases hstep : step prog inp ip pos fwd st bts with
      | err e => simp
      | goal p s => simp
      | cont ip2 pos2 st2 bts2 =>
        simp only [hstep] at h ⊢
        exact ih' _ _ _ _ _ _ _ h
      | back st2 bts2 =>
        simp only [hstep] at h ⊢
        cases hbt : tryBacktrack prog inp fwd st2 bts2 with
        | err e => simp
        | exhausted s b => simp
        | resumed ip3 pos3 st3 bts3 =>
          simp only [hbt] at h ⊢
          exact ih' _ _ _ _ _ _ _ h
      | look dirFwd negate sg eg k st0 bts0 =>
        simp only [hstep] at h ⊢
        by_cases hg : sg > eg || eg > st0.groups.size
        · simp [hg]
        · simp only [hg] at h ⊢
          simp only [Bool.false_eq_true, if_false] at h ⊢
          have hn : run prog inp limit sf (ip + 1) pos dirFwd st0 #[.exhausted] (steps + 1)
              (if peak < bts.size then bts.size else peak) ≠ .outOfFuel := by
            intro hc; simp [hc] at h
          rw [ih' _ _ _ _ _ _ _ hn]
          cases hr : run prog inp limit sf (ip + 1) pos dirFwd st0 #[.exhausted] (steps + 1)
              (if peak < bts.size then bts.size else peak) with
          | outOfFuel => exact absurd hr hn
          | error e => simp
          | matched p2 st2 steps2 peak2 =>
            simp only [hr] at h ⊢
            by_cases hneg : negate
            · simp only [hneg] at h ⊢
              simp only [Bool.not_true, Bool.false_eq_true, if_false] at h ⊢
              cases hbt : tryBacktrack prog inp fwd
                  { st2 with groups := spliceGroups (st0.groups.extract sg eg).toList sg st2.groups }
                  bts0 with
              | err e => simp
              | exhausted s b => simp
              | resumed ip3 pos3 st3 bts3 =>
                simp only [hbt] at h ⊢
                exact ih' _ _ _ _ _ _ _ h
            · simp only [hneg] at h ⊢
              simp only [Bool.not_false, if_true] at h ⊢
              exact ih' _ _ _ _ _ _ _ h
          | failed st2 steps2 peak2 =>
            simp only [hr] at h ⊢
            by_cases hneg : negate
            · simp only [hneg, if_true] at h ⊢
              exact ih' _ _ _ _ _ _ _ h
            · simp only [hneg] at h ⊢
              simp only [Bool.false_eq_true, if_false] at h ⊢
              cases hbt : tryBacktrack prog inp fwd
                  { st2 with groups := spliceGroups (st0.groups.extract sg eg).toList sg st2.groups }
                  bts0 with
              | err e => simp
              | exhausted s b => simp
              | resumed ip3 pos3 st3 bts3 =>
                simp only [hbt] at h ⊢
                exact ih' _ _ _ _ _ _ _ h

theorem tryAtPos_fuel_mono (prog : Prog) (inp : Input) {fuel fuel' : Nat} (hf : fuel ≤ fuel')
    (ip pos : Nat) (fwd : Bool) (st : State)
    (h : tryAtPos prog inp fuel ip pos fwd st ≠ .outOfFuel) :
    tryAtPos prog inp fuel' ip pos fwd st = tryAtPos prog inp fuel ip pos fwd st :=
  run_fuel_mono prog inp hf fuel fuel' hf _ _ _ _ _ _ _ h

theorem attempt_fuel_mono (prog : Prog) (inp : Input) {fuel fuel' : Nat} (hf : fuel ≤ fuel')
    (pos : Nat) (h : attempt prog inp fuel pos ≠ .outOfFuel) :
    attempt prog inp fuel' pos = attempt prog inp fuel pos :=
  tryAtPos_fuel_mono prog inp hf _ _ _ _ h

end Bt

/-! ## (a) Fuel monotonicity — PikeVM -/

namespace Pk

/-- `look ≼ look'`: wherever `look` does not run out of fuel, `look'` returns the same outcome. -/
def Runner.le (look look' : Runner) : Prop :=
  ∀ s d steps peak, look s d steps peak ≠ .outOfFuel → look' s d steps peak = look s d steps peak

theorem lookArm_mono {look look' : Runner} (hle : Runner.le look look') (dirFwd negate : Bool)
    (k : Nat) (s : State) (steps peak : Nat)
    (h : lookArm look dirFwd negate k s steps peak ≠ .outOfFuel) :
    lookArm look' dirFwd negate k s steps peak = lookArm look dirFwd negate k s steps peak := by
  unfold lookArm at h ⊢
  have hn : look { s with ip := s.ip + 1 } dirFwd steps peak ≠ .outOfFuel := by
    intro hc; simp [hc] at h
  simp only [hle _ _ _ _ hn]

theorem tryMatchState_mono (prog : Prog) (inp : Input) {look look' : Runner}
    (hle : Runner.le look look') :
    ∀ (d : Nat) (s : State) (fwd : Bool) (steps peak : Nat),
      tryMatchState prog inp look d s fwd steps peak ≠ .outOfFuel →
      tryMatchState prog inp look' d s fwd steps peak
        = tryMatchState prog inp look d s fwd steps peak := by
  intro d
  induction d with
  | zero => intro s fwd steps peak _; simp [tryMatchState]
  | succ d ih =>
    intro s fwd steps peak h
    unfold tryMatchState at h ⊢
    split
    · rfl
    · rename_i insn hin
      simp only [hin] at h
      cases insn with
      | lookahead n sg eg k => exact lookArm_mono hle _ _ _ _ _ _ h
      | lookbehind n sg eg k => exact lookArm_mono hle _ _ _ _ _ _ h
      | loop1 mn mx g =>
        simp only at h ⊢
        by_cases hlt : Bt.ltMax s.loop1Iters mx
        · simp only [hlt, if_true] at h ⊢
          have hn : tryMatchState prog inp look d { s with ip := s.ip + 1 } fwd steps peak
              ≠ .outOfFuel := by
            intro hc; simp [hc] at h
          rw [ih _ _ _ _ hn]
        · simp [hlt]
      | _ => rfl

theorem runStates_fuel_mono (prog : Prog) (inp : Input) {limit limit' : Nat} (hl : limit ≤ limit') :
    ∀ (sf sf' : Nat), sf ≤ sf' → ∀ (states : Array State) (fwd : Bool) (steps peak : Nat),
      runStates prog inp limit sf states fwd steps peak ≠ .outOfFuel →
      runStates prog inp limit' sf' states fwd steps peak
        = runStates prog inp limit sf states fwd steps peak := by
  intro sf
  induction sf with
  | zero => intro sf' _ states fwd steps peak h; simp [runStates] at h
  | succ sf ih =>
    intro sf' hs states fwd steps peak h
    obtain ⟨sf', rfl⟩ : ∃ k, sf' = k + 1 := ⟨sf' - 1, by omega⟩
    have hs' : sf ≤ sf' := by omega
    have ih' := ih sf' hs'
    simp only [runStates] at h ⊢
    cases hb : states.back? with
    | none => simp
    | some s =>
      simp only [hb] at h ⊢
      by_cases hlim : steps ≥ limit
      · simp [hlim] at h
      · have hlim' : ¬ steps ≥ limit' := by omega
        simp only [hlim, hlim', if_false] at h ⊢
        have hle : Runner.le
            (fun s0 dirFwd steps peak => runStates prog inp limit sf #[s0] dirFwd steps peak)
            (fun s0 dirFwd steps peak => runStates prog inp limit' sf' #[s0] dirFwd steps peak) := by
          intro s0 d st pk hne
          exact ih' _ _ _ _ hne
        have hn : tryMatchState prog inp
            (fun s0 dirFwd steps peak => runStates prog inp limit sf #[s0] dirFwd steps peak)
            (prog.insns.size + 1) s fwd (steps + 1)
            (if peak < states.size then states.size else peak) ≠ .outOfFuel := by
          intro hc; simp [hc] at h
        rw [tryMatchState_mono prog inp hle _ _ _ _ _ hn]
        cases hr : tryMatchState prog inp
            (fun s0 dirFwd steps peak => runStates prog inp limit sf #[s0] dirFwd steps peak)
            (prog.insns.size + 1) s fwd (steps + 1)
            (if peak < states.size then states.size else peak) with
        | err e => simp
        | outOfFuel => exact absurd hr hn
        | complete s2 st2 pk2 => simp
        | fail s2 st2 pk2 =>
          simp only [hr] at h ⊢
          exact ih' _ _ _ _ h
        | cont s2 st2 pk2 =>
          simp only [hr] at h ⊢
          exact ih' _ _ _ _ h
        | split s2 new st2 pk2 =>
          simp only [hr] at h ⊢
          exact ih' _ _ _ _ h

theorem tryAtPos_fuel_mono (prog : Prog) (inp : Input) {fuel fuel' : Nat} (hf : fuel ≤ fuel')
    (init : State) (fwd : Bool) (h : tryAtPos prog inp fuel init fwd ≠ .outOfFuel) :
    tryAtPos prog inp fuel' init fwd = tryAtPos prog inp fuel init fwd :=
  runStates_fuel_mono prog inp hf (fuel + 1) (fuel' + 1) (by omega) _ _ _ _ h

theorem attempt_fuel_mono (prog : Prog) (inp : Input) {fuel fuel' : Nat} (hf : fuel ≤ fuel')
    (pos : Nat) (h : attempt prog inp fuel pos ≠ .outOfFuel) :
    attempt prog inp fuel' pos = attempt prog inp fuel pos :=
  tryAtPos_fuel_mono prog inp hf _ _ h

end Pk

/-! ## What one instruction / one `try_backtrack` can do (shared by parts (b) and (c)) -/

end Regress.VM

namespace Regress.VM.Bt

theorem runLoop_spec {st : State} {bts : Array BtInsn} {id min max greedy exit pos ip next st' bts'}
    (h : runLoop st bts id min max greedy exit pos ip = .ok next st' bts') :
    (next = none → bts' = bts) ∧ bts'.size ≤ bts.size + 2 := by
  unfold runLoop at h
  cases hl : st.loops[id]? with
  | none => simp [hl] at h
  | some ld =>
    simp only [hl] at h
    split at h
    · cases h; simp
    · cases hA : ltMax ld.iters max <;> cases hB : decide (ld.iters ≥ min) <;>
        simp only [hA, hB] at h
      · cases h; simp
      · cases h; simp
      · simp only [prepareToEnterLoop] at h; cases h; simp
      · cases greedy
        · simp only [Bool.not_false, if_true] at h; cases h; simp
        · simp only [prepareToEnterLoop, Bool.not_true, Bool.false_eq_true, if_false] at h
          cases h; simp

theorem runScmLoop_size {prog inp fwd} {bts : Array BtInsn} {pos min max ip greedy nip p bts'}
    (h : runScmLoop prog inp fwd bts pos min max ip greedy = .ok (some (nip, p, bts'))) :
    nip = ip + 2 ∧ bts'.size ≤ bts.size + 1 := by
  unfold runScmLoop at h
  simp only [] at h
  generalize (if greedy = true then withScmLoopImpl prog inp fwd pos min max ip else _) = mm at h
  match mm, h with
  | .error e, h => simp at h
  | .ok none, h => simp at h
  | .ok (some (a, b)), h =>
    simp only [Except.ok.injEq, Option.some.injEq, Prod.mk.injEq] at h
    obtain ⟨rfl, _, rfl⟩ := h
    refine ⟨rfl, ?_⟩
    split <;> simp

end Regress.VM.Bt

namespace Regress.VM.Bt

/-- `enterLoop` or `loopAgain`. -/
def isLoopInsn : Insn → Bool
  | .enterLoop .. => true
  | .loopAgain _ => true
  | _ => false

/-- Everything `step` can return, arm by arm, with the facts the termination and stack-size arguments
need (which instruction, the next `ip`, how the stack changed). -/
inductive StepSpec (prog : Prog) (inp : Input) (ip pos : Nat) (fwd : Bool) (st : State)
    (bts : Array BtInsn) : Act → Prop
  | err (e) : StepSpec prog inp ip pos fwd st bts (.err e)
  | goal (p s) : StepSpec prog inp ip pos fwd st bts (.goal p s)
  | back (h : ip < prog.insns.size) : StepSpec prog inp ip pos fwd st bts (.back st bts)
  | next (h : ip < prog.insns.size) (p : Nat) : StepSpec prog inp ip pos fwd st bts (.cont (ip + 1) p st bts)
  | group (h : ip < prog.insns.size) (g cg st') :
      StepSpec prog inp ip pos fwd st bts (.cont (ip + 1) pos st' (bts.push (.setCaptureGroup g cg)))
  | jump (t) (h : prog.insns[ip]? = some (.jump t)) :
      StepSpec prog inp ip pos fwd st bts (.cont t pos st bts)
  | alt (s) (h : prog.insns[ip]? = some (.alt s)) :
      StepSpec prog inp ip pos fwd st bts (.cont (ip + 1) pos st (bts.push (.setPosition s pos)))
  | look (d neg sg eg k)
      (h : prog.insns[ip]? = some (.lookahead neg sg eg k) ∨ prog.insns[ip]? = some (.lookbehind neg sg eg k)) :
      StepSpec prog inp ip pos fwd st bts (.look d neg sg eg k st bts)
  | loopCont (i) (h : prog.insns[ip]? = some i) (hi : isLoopInsn i = true) (nip st' bts')
      (hsz : bts'.size ≤ bts.size + 3) : StepSpec prog inp ip pos fwd st bts (.cont nip pos st' bts')
  | loopBack (i) (h : prog.insns[ip]? = some i) (hi : isLoopInsn i = true) (st' bts')
      (hsz : bts'.size ≤ bts.size + 1) : StepSpec prog inp ip pos fwd st bts (.back st' bts')
  | loop1 (mn mx g) (h : prog.insns[ip]? = some (.loop1 mn mx g)) (nip p bts')
      (hr : runScmLoop prog inp fwd bts pos mn mx ip g = .ok (some (nip, p, bts'))) :
      StepSpec prog inp ip pos fwd st bts (.cont nip p st bts')

section
variable {prog : Prog} {inp : Input} {ip pos : Nat} {fwd : Bool} {st : State} {bts : Array BtInsn}

theorem nextOrBt_spec (h : ip < prog.insns.size) (r site) :
    StepSpec prog inp ip pos fwd st bts (nextOrBt r site ip st bts) := by
  unfold nextOrBt; split
  · exact .err _
  · exact .back h
  · exact .next h _

theorem wordBoundaryAct_spec (h : ip < prog.insns.size) (f invert) :
    StepSpec prog inp ip pos fwd st bts (wordBoundaryAct inp f invert ip pos st bts) := by
  unfold wordBoundaryAct; split
  · exact .err _
  · split
    · exact .err _
    · simp only []
      split
      · exact .next h _
      · exact .back h

theorem lineAct_spec (h : ip < prog.insns.size) (r multiline site) :
    StepSpec prog inp ip pos fwd st bts (lineAct r multiline site ip pos st bts) := by
  unfold lineAct; split
  · exact .err _
  · exact .next h _
  · split
    · exact .next h _
    · exact .back h

theorem groupAct_spec (h : ip < prog.insns.size) (g upd site) :
    StepSpec prog inp ip pos fwd st bts (groupAct g upd site ip pos st bts) := by
  unfold groupAct; split
  · exact .err _
  · exact .group h _ _ _

theorem step_spec : StepSpec prog inp ip pos fwd st bts (step prog inp ip pos fwd st bts) := by
  unfold step
  cases hin : prog.insns[ip]? with
  | none => exact .err _
  | some insn =>
    have hlt : ip < prog.insns.size := by
      rcases Nat.lt_or_ge ip prog.insns.size with h | h
      · exact h
      · simp [Array.getElem?_eq_none h] at hin
    simp only []
    cases insn with
    | char c => simp only []; split; exact nextOrBt_spec hlt _ _; exact .back hlt
    | charSet cs => exact nextOrBt_spec hlt _ _
    | byteSet bs => exact nextOrBt_spec hlt _ _
    | byteSeq bs => exact nextOrBt_spec hlt _ _
    | asciiBracket bm => exact nextOrBt_spec hlt _ _
    | bracket idx => simp only []; split; exact .err _; exact nextOrBt_spec hlt _ _
    | matchAny => exact nextOrBt_spec hlt _ _
    | matchAnyExceptLineTerminator => exact nextOrBt_spec hlt _ _
    | wordBoundary invert => exact wordBoundaryAct_spec hlt _ _
    | wordBoundaryUnicodeICase invert => exact wordBoundaryAct_spec hlt _ _
    | startOfLine m => exact lineAct_spec hlt _ _ _
    | endOfLine m => exact lineAct_spec hlt _ _ _
    | jump t => exact .jump t hin
    | beginCaptureGroup g => exact groupAct_spec hlt _ _ _
    | endCaptureGroup g => exact groupAct_spec hlt _ _ _
    | resetCaptureGroup g => exact groupAct_spec hlt _ _ _
    | backRef g icase =>
      simp only []; split
      · exact .err _
      · split
        · split
          · exact nextOrBt_spec hlt _ _
          · exact nextOrBt_spec hlt _ _
        · exact .next hlt _
    | lookahead n sg eg k => exact .look _ _ _ _ _ (.inl hin)
    | lookbehind n sg eg k => exact .look _ _ _ _ _ (.inr hin)
    | alt s => exact .alt s hin
    | enterLoop id mn mx g ex =>
      simp only []; split
      · exact .err _
      · split
        · exact .err _
        · rename_i hr
          have := (runLoop_spec hr).2
          exact .loopCont _ hin rfl _ _ _ (by simp at this; omega)
        · rename_i hr
          have := (runLoop_spec hr).1 rfl
          exact .loopBack _ hin rfl _ _ (by subst this; simp)
    | loopAgain b =>
      simp only []; split
      · exact .err _
      · split
        · exact .err _
        · rename_i hr
          have := (runLoop_spec hr).2
          exact .loopCont _ hin rfl _ _ _ (by omega)
        · rename_i hr
          have := (runLoop_spec hr).1 rfl
          exact .loopBack _ hin rfl _ _ (by subst this; simp)
      · exact .err _
    | loop1 mn mx g =>
      simp only []; split
      · exact .err _
      · exact .back hlt
      · rename_i hr; exact .loop1 _ _ _ hin _ _ _ hr
    | goal => exact .goal _ _
    | justFail => exact .back hlt

end
end Regress.VM.Bt

namespace Regress.VM

theorem setIfInBounds_push_last {α} (rest : Array α) (r r' : α) :
    (rest.push r).setIfInBounds ((rest.push r).size - 1) r' = rest.push r' := by
  apply Array.ext_getElem?
  intro i
  simp only [Array.size_push, Nat.add_sub_cancel, Array.getElem?_setIfInBounds, Array.getElem?_push]
  by_cases h : rest.size = i
  · subst h; simp
  · have h2 : ¬ i = rest.size := fun e => h e.symm
    simp [h, h2]

namespace Bt

/-- Records that `try_backtrack` may pop without resuming. -/
def skippable : BtInsn → Bool
  | .setLoopData .. => true
  | .setCaptureGroup .. => true
  | .greedyLoop1Char .. => true
  | .nonGreedyLoop1Char .. => true
  | _ => false

/-- Everything a resuming `tryBacktrack` can do: `BtSpec bts ip pos bts'`. -/
inductive BtSpec (prog : Prog) (inp : Input) (fwd : Bool) :
    Array BtInsn → Nat → Nat → Array BtInsn → Prop
  | setPos (rest : Array BtInsn) (ip pos : Nat) : BtSpec prog inp fwd (rest.push (.setPosition ip pos)) ip pos rest
  | skip (rest : Array BtInsn) (r : BtInsn) (ip pos : Nat) (bts' : Array BtInsn) (hr : skippable r = true) (h : BtSpec prog inp fwd rest ip pos bts') :
      BtSpec prog inp fwd (rest.push r) ip pos bts'
  | greedy (rest : Array BtInsn) (c mn mx newmax : Nat) (hne : mx ≠ mn)
      (hnew : (if fwd then inp.nextLeftPos mx else inp.nextRightPos mx) = .ok (some newmax)) :
      BtSpec prog inp fwd (rest.push (.greedyLoop1Char c mn mx)) c newmax
        (rest.push (.greedyLoop1Char c mn newmax))
  | nonGreedy (rest : Array BtInsn) (c mn mx newmin : Nat) (hne : mx ≠ mn)
      (hnew : (if fwd then inp.nextRightPos mn else inp.nextLeftPos mn) = .ok (some newmin)) :
      BtSpec prog inp fwd (rest.push (.nonGreedyLoop1Char c mn mx)) c newmin
        (rest.push (.nonGreedyLoop1Char c newmin mx))
  | enterNG (rest : Array BtInsn) (loopIp orig : Nat) (data : LoopData) (id a b c d)
      (hin : prog.insns[loopIp]? = some (.enterLoop id a b c d)) :
      BtSpec prog inp fwd (rest.push (.enterNonGreedyLoop loopIp orig data)) (loopIp + 1) data.entry
        ((rest.push (.setLoopData id { data with entry := orig })).push (.setLoopData id data))

theorem tryBacktrackLoop_spec (prog : Prog) (inp : Input) (fwd : Bool) :
    ∀ (n : Nat) (st : State) (bts : Array BtInsn) {ip pos st' bts'},
      tryBacktrackLoop prog inp fwd n st bts = .resumed ip pos st' bts' →
      BtSpec prog inp fwd bts ip pos bts' := by
  intro n
  induction n with
  | zero => intro st bts ip pos st' bts' h; simp [tryBacktrackLoop] at h
  | succ n ih =>
    intro st bts ip pos st' bts' h
    unfold tryBacktrackLoop at h
    cases hb : bts.back? with
    | none => simp [hb] at h
    | some bt =>
      obtain ⟨rest, rfl⟩ := Array.back?_eq_some_iff.mp hb
      simp only [hb, Array.pop_push] at h
      cases bt with
      | exhausted => simp at h
      | setPosition ip2 pos2 =>
        simp only [BtRes.resumed.injEq] at h
        obtain ⟨rfl, rfl, _, rfl⟩ := h
        exact .setPos _ _ _
      | setLoopData id data =>
        simp only at h
        split at h
        · exact .skip _ _ _ _ _ rfl (ih _ _ h)
        · simp at h
      | setCaptureGroup id data =>
        simp only at h
        split at h
        · exact .skip _ _ _ _ _ rfl (ih _ _ h)
        · simp at h
      | enterNonGreedyLoop loopIp orig data =>
        simp only at h
        split at h
        · simp at h
        · rename_i hin
          split at h
          · simp only [prepareToEnterLoop, setIfInBounds_push_last, BtRes.resumed.injEq] at h
            obtain ⟨rfl, rfl, _, rfl⟩ := h
            exact .enterNG _ _ _ _ _ _ _ _ _ hin
          · simp at h
        · simp at h
      | greedyLoop1Char c mn mx =>
        simp only at h
        split at h
        · exact .skip _ _ _ _ _ rfl (ih _ _ h)
        · rename_i hne
          split at h
          · simp at h
          · simp at h
          · rename_i hnew
            simp only [setIfInBounds_push_last, BtRes.resumed.injEq] at h
            obtain ⟨rfl, rfl, _, rfl⟩ := h
            exact .greedy _ _ _ _ _ (by simpa using hne) hnew
      | nonGreedyLoop1Char c mn mx =>
        simp only at h
        split at h
        · exact .skip _ _ _ _ _ rfl (ih _ _ h)
        · rename_i hne
          split at h
          · simp at h
          · simp at h
          · rename_i hnew
            simp only [setIfInBounds_push_last, BtRes.resumed.injEq] at h
            obtain ⟨rfl, rfl, _, rfl⟩ := h
            exact .nonGreedy _ _ _ _ _ (by simpa using hne) hnew

theorem tryBacktrack_spec {prog : Prog} {inp : Input} {fwd : Bool} {st : State} {bts : Array BtInsn}
    {ip pos st' bts'} (h : tryBacktrack prog inp fwd st bts = .resumed ip pos st' bts') :
    BtSpec prog inp fwd bts ip pos bts' :=
  tryBacktrackLoop_spec prog inp fwd _ _ _ h

theorem BtSpec.size_le {prog : Prog} {inp : Input} {fwd : Bool} {bts : Array BtInsn} {ip pos bts'}
    (h : BtSpec prog inp fwd bts ip pos bts') : bts'.size ≤ bts.size + 1 := by
  induction h with
  | setPos => simp; omega
  | skip _ _ _ _ _ _ _ ih => simp at ih ⊢; omega
  | greedy => simp
  | nonGreedy => simp
  | enterNG => simp

end Bt
end Regress.VM

namespace Regress.VM.Bt

/-! ## (c) The stack bound — backtracker -/

theorem step_cont_size {prog : Prog} {inp : Input} {ip pos : Nat} {fwd : Bool} {st : State}
    {bts : Array BtInsn} {ip' p st' bts'}
    (h : step prog inp ip pos fwd st bts = .cont ip' p st' bts') : bts'.size ≤ bts.size + 3 := by
  have hs := step_spec (prog := prog) (inp := inp) (ip := ip) (pos := pos) (fwd := fwd) (st := st)
    (bts := bts)
  rw [h] at hs
  cases hs with
  | next => omega
  | group => simp
  | jump => omega
  | alt => simp
  | loopCont _ _ _ _ _ _ hsz => exact hsz
  | loop1 _ _ _ _ _ _ _ hr => have := (runScmLoop_size hr).2; omega

theorem step_back_size {prog : Prog} {inp : Input} {ip pos : Nat} {fwd : Bool} {st : State}
    {bts : Array BtInsn} {st' bts'}
    (h : step prog inp ip pos fwd st bts = .back st' bts') : bts'.size ≤ bts.size + 1 := by
  have hs := step_spec (prog := prog) (inp := inp) (ip := ip) (pos := pos) (fwd := fwd) (st := st)
    (bts := bts)
  rw [h] at hs
  cases hs with
  | back => omega
  | loopBack _ _ _ _ _ hsz => exact hsz

/-- Number of records a successful positive look-around instruction pushes. -/
def insnPush : Insn → Nat
  | .lookahead _ sg eg _ => eg - sg
  | .lookbehind _ sg eg _ => eg - sg
  | _ => 0

/-- `max 3 (max over the look-around instructions of endGroup - startGroup)`: the most records one
tick can add to the backtrack stack. -/
def maxPush (prog : Prog) : Nat := prog.insns.toList.foldl (fun m i => max m (insnPush i)) 3

theorem foldl_max_spec (f : Insn → Nat) : ∀ (l : List Insn) (init : Nat),
    init ≤ l.foldl (fun m i => max m (f i)) init ∧
    ∀ x ∈ l, f x ≤ l.foldl (fun m i => max m (f i)) init := by
  intro l
  induction l with
  | nil => intro init; simp
  | cons a l ih =>
    intro init
    simp only [List.foldl_cons, List.mem_cons, forall_eq_or_imp]
    have h1 := (ih (max init (f a))).1
    have h2 := (ih (max init (f a))).2
    refine ⟨by omega, by omega, h2⟩

theorem three_le_maxPush (prog : Prog) : 3 ≤ maxPush prog := (foldl_max_spec _ _ _).1

theorem insnPush_le_maxPush {prog : Prog} {ip : Nat} {i : Insn} (h : prog.insns[ip]? = some i) :
    insnPush i ≤ maxPush prog := by
  apply (foldl_max_spec _ _ _).2
  have := Array.mem_of_getElem? h
  simpa using this

theorem step_look_push {prog : Prog} {inp : Input} {ip pos : Nat} {fwd : Bool} {st : State}
    {bts : Array BtInsn} {d neg sg eg k}
    {st0 : State} {bts0 : Array BtInsn}
    (h : step prog inp ip pos fwd st bts = .look d neg sg eg k st0 bts0) :
    eg - sg ≤ maxPush prog ∧ st = st0 ∧ bts = bts0 := by
  have hs := step_spec (prog := prog) (inp := inp) (ip := ip) (pos := pos) (fwd := fwd) (st := st)
    (bts := bts)
  rw [h] at hs
  cases hs with
  | look _ _ _ _ _ hin =>
    refine ⟨?_, rfl, rfl⟩
    rcases hin with hin | hin
    · exact insnPush_le_maxPush hin
    · exact insnPush_le_maxPush hin

theorem pushSavedGroups_size : ∀ (l : List GroupData) (id : Nat) (bts : Array BtInsn),
    (pushSavedGroups l id bts).size = bts.size + l.length := by
  intro l
  induction l with
  | nil => intro id bts; simp [pushSavedGroups]
  | cons a l ih => intro id bts; simp [pushSavedGroups, ih]; omega

/-- `(steps, peak)` of a `matched`/`failed` outcome. -/
def Outcome.stats : Outcome → Option (Nat × Nat)
  | .matched _ _ s k => some (s, k)
  | .failed _ s k => some (s, k)
  | _ => none

theorem run_peak_bound (prog : Prog) (inp : Input) (limit : Nat) :
    ∀ (sf ip pos : Nat) (fwd : Bool) (st : State) (bts : Array BtInsn) (steps peak s' k' : Nat),
      (run prog inp limit sf ip pos fwd st bts steps peak).stats = some (s', k') →
      ∃ t, s' = steps + 1 + t ∧ k' ≤ max peak (bts.size + maxPush prog * t) := by
  obtain ⟨K, hKdef⟩ : ∃ K, maxPush prog = K := ⟨_, rfl⟩
  have hK : 3 ≤ K := hKdef ▸ three_le_maxPush prog
  rw [hKdef]
  intro sf
  induction sf with
  | zero => intro ip pos fwd st bts steps peak s' k' h; simp [run, Outcome.stats] at h
  | succ sf ih =>
    intro ip pos fwd st bts steps peak s' k' h
    simp only [run] at h
    by_cases hlim : steps ≥ limit
    · simp [hlim, Outcome.stats] at h
    · simp only [hlim, if_false] at h
      have hpk : (if peak < bts.size then bts.size else peak) = max peak bts.size := by
        split <;> omega
      rw [hpk] at h
      -- the tail shared by every `tryBacktrack` site
      have hback : ∀ (st2 : State) (steps2 peak2 : Nat) (t0 : Nat),
          steps2 = steps + 1 + t0 → peak2 ≤ max peak (bts.size + K * t0) →
          ∀ bts2 : Array BtInsn, bts2.size ≤ bts.size + 1 →
          (match tryBacktrack prog inp fwd st2 bts2 with
            | .err e => Outcome.error e
            | .exhausted st _ => .failed st steps2 peak2
            | .resumed ip pos st bts => run prog inp limit sf ip pos fwd st bts steps2 peak2).stats
            = some (s', k') →
          ∃ t, s' = steps + 1 + t ∧ k' ≤ max peak (bts.size + K * t) := by
        intro st2 steps2 peak2 t0 hs2 hp2 bts2 hb2 h
        cases hbt : tryBacktrack prog inp fwd st2 bts2 with
        | err e => simp [hbt, Outcome.stats] at h
        | exhausted s b =>
          simp only [hbt, Outcome.stats, Option.some.injEq, Prod.mk.injEq] at h
          exact ⟨t0, by omega, by omega⟩
        | resumed ip3 pos3 st3 bts3 =>
          simp only [hbt] at h
          obtain ⟨t, ht, hk⟩ := ih _ _ _ _ _ _ _ _ _ h
          have := (tryBacktrack_spec hbt).size_le
          refine ⟨t0 + 1 + t, by omega, ?_⟩
          have e : K * (t0 + 1 + t) = K * t0 + K + K * t := by
            rw [Nat.mul_add, Nat.mul_add, Nat.mul_one]
          omega
      cases hstep : step prog inp ip pos fwd st bts with
      | err e => simp [hstep, Outcome.stats] at h
      | goal p s =>
        simp only [hstep, Outcome.stats, Option.some.injEq, Prod.mk.injEq] at h
        exact ⟨0, by omega, by simp; omega⟩
      | cont ip2 pos2 st2 bts2 =>
        simp only [hstep] at h
        obtain ⟨t, ht, hk⟩ := ih _ _ _ _ _ _ _ _ _ h
        have := step_cont_size hstep
        refine ⟨t + 1, by omega, ?_⟩
        have e : K * (t + 1) = K * t + K := by rw [Nat.mul_add, Nat.mul_one]
        omega
      | back st2 bts2 =>
        simp only [hstep] at h
        have hsz := step_back_size hstep
        exact hback st2 (steps + 1) _ 0 (by omega) (by simp) bts2 hsz h
      | look dirFwd negate sg eg k st0 bts0 =>
        simp only [hstep] at h
        obtain ⟨hpush, rfl, rfl⟩ := step_look_push hstep
        rw [hKdef] at hpush
        by_cases hg : sg > eg || eg > st.groups.size
        · simp [hg, Outcome.stats] at h
        · simp only [hg] at h
          simp only [Bool.false_eq_true, if_false] at h
          have hg' : sg ≤ eg ∧ eg ≤ st.groups.size := by
            simp only [Bool.or_eq_true, decide_eq_true_eq, not_or] at hg; omega
          have hlen : (st.groups.extract sg eg).toList.length = eg - sg := by
            simp; omega
          cases hr : run prog inp limit sf (ip + 1) pos dirFwd st #[.exhausted] (steps + 1)
              (max peak bts.size) with
          | outOfFuel => simp [hr, Outcome.stats] at h
          | error e => simp [hr, Outcome.stats] at h
          | matched p2 st2 steps2 peak2 =>
            have hn := ih (ip + 1) pos dirFwd st #[.exhausted] (steps + 1) (max peak bts.size)
              steps2 peak2 (by rw [hr]; rfl)
            obtain ⟨t1, ht1, hk1⟩ := hn
            rw [show (#[BtInsn.exhausted] : Array BtInsn).size = 1 from rfl] at hk1
            simp only [hr] at h
            have e1 : K * (1 + t1) = K + K * t1 := by rw [Nat.mul_add, Nat.mul_one]
            have hK1 : K * t1 ≤ K * (1 + t1) := by omega
            by_cases hneg : negate
            · simp only [hneg, Bool.not_true, Bool.false_eq_true, if_false] at h
              refine hback _ steps2 peak2 (1 + t1) (by omega) ?_ bts (by omega) h
              omega
            · simp only [hneg, Bool.not_false, if_true] at h
              obtain ⟨t, ht, hk⟩ := ih _ _ _ _ _ _ _ _ _ h
              rw [pushSavedGroups_size, hlen] at hk
              refine ⟨1 + t1 + 1 + t, by omega, ?_⟩
              have e : K * (1 + t1 + 1 + t) = K + K * t1 + K + K * t := by
                rw [Nat.mul_add, Nat.mul_add, Nat.mul_add, Nat.mul_one]
              omega
          | failed st2 steps2 peak2 =>
            have hn := ih (ip + 1) pos dirFwd st #[.exhausted] (steps + 1) (max peak bts.size)
              steps2 peak2 (by rw [hr]; rfl)
            obtain ⟨t1, ht1, hk1⟩ := hn
            rw [show (#[BtInsn.exhausted] : Array BtInsn).size = 1 from rfl] at hk1
            simp only [hr] at h
            have e1 : K * (1 + t1) = K + K * t1 := by rw [Nat.mul_add, Nat.mul_one]
            by_cases hneg : negate
            · simp only [hneg, if_true] at h
              obtain ⟨t, ht, hk⟩ := ih _ _ _ _ _ _ _ _ _ h
              refine ⟨1 + t1 + 1 + t, by omega, ?_⟩
              have e : K * (1 + t1 + 1 + t) = K + K * t1 + K + K * t := by
                rw [Nat.mul_add, Nat.mul_add, Nat.mul_add, Nat.mul_one]
              omega
            · simp only [hneg, Bool.false_eq_true, if_false] at h
              refine hback _ steps2 peak2 (1 + t1) (by omega) ?_ bts (by omega) h
              omega

end Regress.VM.Bt

namespace Regress.VM.Pk
open Regress.VM.Bt (isLoopInsn)

/-- `(steps, peak)` carried by a `StateMatch`. -/
def SM.stats : SM → Option (Nat × Nat)
  | .fail _ s k => some (s, k)
  | .cont _ s k => some (s, k)
  | .split _ _ s k => some (s, k)
  | .complete _ s k => some (s, k)
  | _ => none

def isLookOrLoop1 : Insn → Bool
  | .lookahead .. => true
  | .lookbehind .. => true
  | .loop1 .. => true
  | _ => false

/-- What `tryMatchState` can return on an instruction other than a look-around or a `loop1`. -/
inductive SimpleSpec (prog : Prog) (s : State) (steps peak : Nat) : SM → Prop
  | err (e) : SimpleSpec prog s steps peak (.err e)
  | fail (h : s.ip < prog.insns.size) (s') : SimpleSpec prog s steps peak (.fail s' steps peak)
  | complete (h : prog.insns[s.ip]? = some .goal) : SimpleSpec prog s steps peak (.complete s steps peak)
  | next (h : s.ip < prog.insns.size) (s' : State) (hip : s'.ip = s.ip + 1) :
      SimpleSpec prog s steps peak (.cont s' steps peak)
  | jump (t) (h : prog.insns[s.ip]? = some (.jump t)) (s' : State) (hip : s'.ip = t) :
      SimpleSpec prog s steps peak (.cont s' steps peak)
  | alt (sec) (h : prog.insns[s.ip]? = some (.alt sec)) (s1 s2 : State) (h1 : s1.ip = sec)
      (h2 : s2.ip = s.ip + 1) : SimpleSpec prog s steps peak (.split s1 s2 steps peak)
  | loopI (i) (h : prog.insns[s.ip]? = some i) (hi : isLoopInsn i = true) (sm : SM)
      (hs : ∀ s' k', sm.stats = some (s', k') → s' = steps ∧ k' = peak) :
      SimpleSpec prog s steps peak sm

section
variable {prog : Prog} {inp : Input} {s : State} {steps peak : Nat}

theorem nextOrFail_spec (h : s.ip < prog.insns.size) (b : Bool) (s1 : State) (h1 : s1.ip = s.ip) :
    SimpleSpec prog s steps peak (nextOrFail b s1 steps peak) := by
  unfold nextOrFail; split
  · exact .next h _ (by simp [h1])
  · exact .fail h _

theorem nextElemArm_spec (h : s.ip < prog.insns.size) (fwd f site) :
    SimpleSpec prog s steps peak (nextElemArm inp fwd s f site steps peak) := by
  unfold nextElemArm; split
  · exact .err _
  · exact .fail h _
  · split
    · exact .err _
    · exact nextOrFail_spec h _ _ rfl

theorem scmArm_spec (h : s.ip < prog.insns.size) (r site) :
    SimpleSpec prog s steps peak (scmArm r s site steps peak) := by
  unfold scmArm; split
  · exact .err _
  · exact .fail h _
  · exact .next h _ rfl

theorem lineArm_spec (h : s.ip < prog.insns.size) (r m site) :
    SimpleSpec prog s steps peak (lineArm r m s site steps peak) := by
  unfold lineArm; split
  · exact .err _
  · exact nextOrFail_spec h _ _ rfl
  · exact nextOrFail_spec h _ _ rfl

theorem wordBoundaryArm_spec (h : s.ip < prog.insns.size) (f invert) :
    SimpleSpec prog s steps peak (wordBoundaryArm inp f invert s steps peak) := by
  unfold wordBoundaryArm; split
  · exact .err _
  · split
    · exact .err _
    · exact nextOrFail_spec h _ _ rfl

theorem groupArm_spec (h : s.ip < prog.insns.size) (g upd site) :
    SimpleSpec prog s steps peak (groupArm g upd s site steps peak) := by
  unfold groupArm; split
  · exact .err _
  · exact nextOrFail_spec h _ _ rfl

/-- The result carries the counters `(st, pk)` unchanged (or none at all). -/
def SM.Same (st pk : Nat) (sm : SM) : Prop :=
  ∀ s' k', sm.stats = some (s', k') → s' = st ∧ k' = pk

theorem SM.Same.ite {st pk : Nat} {c : Prop} [Decidable c] {a b : SM} (ha : SM.Same st pk a)
    (hb : SM.Same st pk b) : SM.Same st pk (if c then a else b) := by
  split <;> assumption
theorem SM.same_fail {st pk : Nat} {s : State} : SM.Same st pk (.fail s st pk) := by
  intro s' k' h; simp [SM.stats] at h; omega
theorem SM.same_cont {st pk : Nat} {s : State} : SM.Same st pk (.cont s st pk) := by
  intro s' k' h; simp [SM.stats] at h; omega
theorem SM.same_split {st pk : Nat} {s n : State} : SM.Same st pk (.split s n st pk) := by
  intro s' k' h; simp [SM.stats] at h; omega
theorem SM.same_err {st pk : Nat} {e : String} : SM.Same st pk (.err e) := by
  intro s' k' h; simp [SM.stats] at h

theorem runLoop_stats (s : State) (id mn mx g ex b steps peak) :
    SM.Same steps peak (runLoop s id mn mx g ex b steps peak) := by
  unfold runLoop
  split
  · exact SM.same_err
  · dsimp only
    repeat' (first | exact SM.same_fail | exact SM.same_cont
                   | exact SM.same_split | exact SM.same_err | apply SM.Same.ite)

theorem tryMatchState_simple {look : Runner} {d : Nat} {fwd : Bool} {i : Insn}
    (hin : prog.insns[s.ip]? = some i) (hi : isLookOrLoop1 i = false) :
    SimpleSpec prog s steps peak (tryMatchState prog inp look (d + 1) s fwd steps peak) := by
  have hlt : s.ip < prog.insns.size := by
    rcases Nat.lt_or_ge s.ip prog.insns.size with h | h
    · exact h
    · simp [Array.getElem?_eq_none h] at hin
  unfold tryMatchState
  simp only [hin]
  cases i with
  | goal => exact .complete hin
  | justFail => exact .fail hlt _
  | char c => exact nextElemArm_spec hlt _ _ _
  | charSet v => exact nextElemArm_spec hlt _ _ _
  | byteSeq v => exact scmArm_spec hlt _ _
  | startOfLine m => exact lineArm_spec hlt _ _ _
  | endOfLine m => exact lineArm_spec hlt _ _ _
  | matchAny => exact nextElemArm_spec hlt _ _ _
  | matchAnyExceptLineTerminator => exact nextElemArm_spec hlt _ _ _
  | jump t => exact .jump t hin _ rfl
  | alt sec => exact .alt sec hin _ _ rfl rfl
  | beginCaptureGroup g => exact groupArm_spec hlt _ _ _
  | endCaptureGroup g => exact groupArm_spec hlt _ _ _
  | resetCaptureGroup g => exact groupArm_spec hlt _ _ _
  | backRef g icase =>
    simp only []; split
    · exact .err _
    · split
      · split
        · exact scmArm_spec hlt _ _
        · exact scmArm_spec hlt _ _
      · exact nextOrFail_spec hlt _ _ rfl
  | lookahead n sg eg k => simp [isLookOrLoop1] at hi
  | lookbehind n sg eg k => simp [isLookOrLoop1] at hi
  | enterLoop id mn mx g ex => exact .loopI _ hin rfl _ (runLoop_stats _ _ _ _ _ _ _ _ _)
  | loopAgain b =>
    simp only []; split
    · exact .err _
    · exact .loopI _ hin rfl _ (runLoop_stats _ _ _ _ _ _ _ _ _)
    · exact .err _
  | loop1 mn mx g => simp [isLookOrLoop1] at hi
  | bracket idx => exact nextElemArm_spec hlt _ _ _
  | asciiBracket bm => exact scmArm_spec hlt _ _
  | byteSet bs => exact scmArm_spec hlt _ _
  | wordBoundary inv => exact wordBoundaryArm_spec hlt _ _
  | wordBoundaryUnicodeICase inv => exact wordBoundaryArm_spec hlt _ _

end

/-! ## (c) The stack bound — PikeVM -/

/-- `(steps, peak)` of a `matched`/`failed` outcome. -/
def Outcome.stats : Outcome → Option (Nat × Nat)
  | .matched _ _ s k => some (s, k)
  | .failed s k => some (s, k)
  | _ => none

theorem SimpleSpec.same {prog : Prog} {s : State} {steps peak : Nat} {sm : SM}
    (hs : SimpleSpec prog s steps peak sm) : SM.Same steps peak sm := by
  cases hs with
  | err => exact SM.same_err
  | fail => exact SM.same_fail
  | complete => intro a b hh; simp [SM.stats] at hh; omega
  | next => exact SM.same_cont
  | jump => exact SM.same_cont
  | alt => exact SM.same_split
  | loopI _ _ _ _ hs => exact hs

/-- A nested attempt that uses `t` ticks sees at most `t` states on its stack. -/
def Runner.Ticks (look : Runner) : Prop :=
  ∀ s0 d st pk s' k', (look s0 d st pk).stats = some (s', k') → ∃ t, s' = st + t ∧ k' ≤ max pk t

theorem lookArm_ticks {look : Runner} (hl : look.Ticks) {dirFwd negate k s steps peak s' k'}
    (h : (lookArm look dirFwd negate k s steps peak).stats = some (s', k')) :
    ∃ t, s' = steps + t ∧ k' ≤ max peak t := by
  unfold lookArm at h
  simp only [] at h
  split at h
  · simp [SM.stats] at h
  · simp [SM.stats] at h
  · rename_i hr
    apply hl _ _ _ _ s' k'
    rw [hr]
    split at h <;> simpa [SM.stats, Outcome.stats] using h
  · rename_i hr
    apply hl _ _ _ _ s' k'
    rw [hr]
    split at h <;> simpa [SM.stats, Outcome.stats] using h

theorem tryMatchState_ticks (prog : Prog) (inp : Input) {look : Runner} (hl : look.Ticks) :
    ∀ (d : Nat) (s : State) (fwd : Bool) (steps peak s' k' : Nat),
      (tryMatchState prog inp look d s fwd steps peak).stats = some (s', k') →
      ∃ t, s' = steps + t ∧ k' ≤ max peak t := by
  intro d
  induction d with
  | zero => intro s fwd steps peak s' k' h; simp [tryMatchState, SM.stats] at h
  | succ d ih =>
    intro s fwd steps peak s' k' h
    cases hin : prog.insns[s.ip]? with
    | none => simp [tryMatchState, hin, SM.stats] at h
    | some i =>
      by_cases hi : isLookOrLoop1 i = false
      · have hs := tryMatchState_simple (inp := inp) (look := look) (d := d) (fwd := fwd)
          (steps := steps) (peak := peak) hin hi
        obtain ⟨rfl, rfl⟩ := hs.same _ _ h
        exact ⟨0, by omega, by omega⟩
      · unfold tryMatchState at h
        simp only [hin] at h
        cases i with
        | lookahead n sg eg k => exact lookArm_ticks hl h
        | lookbehind n sg eg k => exact lookArm_ticks hl h
        | loop1 mn mx g =>
          simp only [] at h
          split at h
          · -- early exit with an `SM` of the body
            rename_i sm heq
            split at heq
            · split at heq <;> simp at heq <;> subst heq <;> simp [SM.stats] at h
            · simp at heq
          · rename_i tp s2 st2 pk2 heq
            have h2 : s' = st2 ∧ k' = pk2 := by
              repeat' split at h
              all_goals (simp [SM.stats] at h; omega)
            obtain ⟨rfl, rfl⟩ := h2
            split at heq
            · split at heq
              · rename_i hr
                simp only [Except.ok.injEq, Prod.mk.injEq] at heq
                obtain ⟨_, _, rfl, rfl⟩ := heq
                exact ih _ _ _ _ _ _ (by rw [hr]; rfl)
              · rename_i hr
                simp only [Except.ok.injEq, Prod.mk.injEq] at heq
                obtain ⟨_, _, rfl, rfl⟩ := heq
                exact ih _ _ _ _ _ _ (by rw [hr]; rfl)
              all_goals simp at heq
            · simp only [Except.ok.injEq, Prod.mk.injEq] at heq
              obtain ⟨_, _, rfl, rfl⟩ := heq
              exact ⟨0, by omega, by omega⟩
        | _ => simp [isLookOrLoop1] at hi

theorem runStates_peak_bound (prog : Prog) (inp : Input) (limit : Nat) :
    ∀ (sf : Nat) (states : Array State) (fwd : Bool) (steps peak s' k' : Nat),
      (runStates prog inp limit sf states fwd steps peak).stats = some (s', k') →
      ∃ t, s' = steps + t ∧ k' ≤ max peak (states.size + t - 1) := by
  intro sf
  induction sf with
  | zero => intro states fwd steps peak s' k' h; simp [runStates, Outcome.stats] at h
  | succ sf ih =>
    intro states fwd steps peak s' k' h
    simp only [runStates] at h
    cases hb : states.back? with
    | none =>
      simp only [hb, Outcome.stats, Option.some.injEq, Prod.mk.injEq] at h
      exact ⟨0, by omega, by omega⟩
    | some s =>
      have hne : states.size ≠ 0 := by
        intro h0
        have : states = #[] := Array.size_eq_zero_iff.mp h0
        subst this; simp at hb
      simp only [hb] at h
      by_cases hlim : steps ≥ limit
      · simp [hlim, Outcome.stats] at h
      · simp only [hlim, if_false] at h
        have hpk : (if peak < states.size then states.size else peak) = max peak states.size := by
          split <;> omega
        rw [hpk] at h
        have hl : Runner.Ticks
            (fun s0 dirFwd steps peak => runStates prog inp limit sf #[s0] dirFwd steps peak) := by
          intro s0 d st pk a b hh
          obtain ⟨t, ht, hk⟩ := ih _ _ _ _ _ _ hh
          refine ⟨t, ht, ?_⟩
          rw [show (#[s0] : Array State).size = 1 from rfl] at hk
          omega
        have hticks := tryMatchState_ticks prog inp hl (prog.insns.size + 1) s fwd (steps + 1)
          (max peak states.size)
        cases hr : tryMatchState prog inp
            (fun s0 dirFwd steps peak => runStates prog inp limit sf #[s0] dirFwd steps peak)
            (prog.insns.size + 1) s fwd (steps + 1) (max peak states.size) with
        | err e => simp [hr, Outcome.stats] at h
        | outOfFuel => simp [hr, Outcome.stats] at h
        | complete s2 st2 pk2 =>
          obtain ⟨u, hu, hku⟩ := hticks st2 pk2 (by rw [hr]; rfl)
          simp only [hr, Outcome.stats, Option.some.injEq, Prod.mk.injEq] at h
          exact ⟨1 + u, by omega, by omega⟩
        | fail s2 st2 pk2 =>
          obtain ⟨u, hu, hku⟩ := hticks st2 pk2 (by rw [hr]; rfl)
          simp only [hr] at h
          obtain ⟨t, ht, hk⟩ := ih _ _ _ _ _ _ h
          simp only [Array.size_pop] at hk
          exact ⟨1 + u + t, by omega, by omega⟩
        | cont s2 st2 pk2 =>
          obtain ⟨u, hu, hku⟩ := hticks st2 pk2 (by rw [hr]; rfl)
          simp only [hr] at h
          obtain ⟨t, ht, hk⟩ := ih _ _ _ _ _ _ h
          simp only [Array.size_push, Array.size_pop] at hk
          exact ⟨1 + u + t, by omega, by omega⟩
        | split s2 new st2 pk2 =>
          obtain ⟨u, hu, hku⟩ := hticks st2 pk2 (by rw [hr]; rfl)
          simp only [hr] at h
          obtain ⟨t, ht, hk⟩ := ih _ _ _ _ _ _ h
          simp only [Array.size_push, Array.size_pop] at hk
          exact ⟨1 + u + t, by omega, by omega⟩

end Regress.VM.Pk

/-! ## (c) corollaries in subtraction form -/
namespace Regress.VM

theorem Bt.run_peak_le (prog : Prog) (inp : Input) (limit sf ip pos : Nat) (fwd : Bool)
    (st : Bt.State) (bts : Array Bt.BtInsn) (steps peak s' k' : Nat)
    (h : (Bt.run prog inp limit sf ip pos fwd st bts steps peak).stats = some (s', k')) :
    steps < s' ∧ k' ≤ max peak (bts.size + Bt.maxPush prog * (s' - steps - 1)) := by
  obtain ⟨t, ht, hk⟩ := Bt.run_peak_bound prog inp limit sf ip pos fwd st bts steps peak s' k' h
  have : s' - steps - 1 = t := by omega
  rw [this]; exact ⟨by omega, hk⟩

theorem Bt.tryAtPos_peak_le (prog : Prog) (inp : Input) (fuel ip pos : Nat) (fwd : Bool)
    (st : Bt.State) (s' k' : Nat)
    (h : (Bt.tryAtPos prog inp fuel ip pos fwd st).stats = some (s', k')) :
    1 ≤ s' ∧ k' ≤ 1 + Bt.maxPush prog * (s' - 1) := by
  have := Bt.run_peak_le prog inp fuel fuel ip pos fwd st #[.exhausted] 0 0 s' k' h
  rw [show (#[Bt.BtInsn.exhausted] : Array Bt.BtInsn).size = 1 from rfl] at this
  have e : s' - 0 - 1 = s' - 1 := by omega
  rw [e] at this
  omega

theorem Pk.runStates_peak_le (prog : Prog) (inp : Input) (limit sf : Nat) (states : Array Pk.State)
    (fwd : Bool) (steps peak s' k' : Nat)
    (h : (Pk.runStates prog inp limit sf states fwd steps peak).stats = some (s', k')) :
    steps ≤ s' ∧ k' ≤ max peak (states.size + (s' - steps) - 1) := by
  obtain ⟨t, ht, hk⟩ := Pk.runStates_peak_bound prog inp limit sf states fwd steps peak s' k' h
  have : s' - steps = t := by omega
  rw [this]; exact ⟨by omega, hk⟩

theorem Pk.tryAtPos_peak_le (prog : Prog) (inp : Input) (fuel : Nat) (init : Pk.State) (fwd : Bool)
    (s' k' : Nat) (h : (Pk.tryAtPos prog inp fuel init fwd).stats = some (s', k')) : k' ≤ s' := by
  have := Pk.runStates_peak_le prog inp fuel (fuel + 1) #[init] fwd 0 0 s' k' h
  rw [show (#[init] : Array Pk.State).size = 1 from rfl] at this
  omega

end Regress.VM

namespace Regress.VM

/-! ## (b) Forward programs: definitions -/

/-- The instruction at index `j` is not a general loop instruction and only transfers control to
larger indices. -/
def fwdInsn (j : Nat) : Insn → Bool
  | .enterLoop .. => false
  | .loopAgain _ => false
  | .jump t => decide (j < t)
  | .alt s => decide (j < s)
  | .lookahead _ _ _ k => decide (j < k)
  | .lookbehind _ _ _ k => decide (j < k)
  | _ => true

/-- A loop-free program whose control flow only goes forward (`loop1` and look-arounds allowed). -/
def forwardProg (prog : Prog) : Bool :=
  (List.range prog.insns.size).all (fun j =>
    match prog.insns[j]? with
    | some i => fwdInsn j i
    | none => true)

theorem forwardProg_insn {prog : Prog} (hf : forwardProg prog = true) {j : Nat} {i : Insn}
    (h : prog.insns[j]? = some i) : fwdInsn j i = true := by
  have hlt : j < prog.insns.size := by
    rcases Nat.lt_or_ge j prog.insns.size with h' | h'
    · exact h'
    · simp [Array.getElem?_eq_none h'] at h
  unfold forwardProg at hf
  rw [List.all_eq_true] at hf
  have := hf j (List.mem_range.mpr hlt)
  simpa [h] using this

/-- The tick bound of a run starting at `ip`: `(L + 3) ^ (n + 1 - ip)`. -/
def tickB (n L ip : Nat) : Nat := (L + 3) ^ (n + 1 - ip)

theorem tickB_pos (n L ip : Nat) : 1 ≤ tickB n L ip := Nat.one_le_pow _ _ (by omega)

theorem tickB_anti (n L : Nat) {a b : Nat} (h : a ≤ b) : tickB n L b ≤ tickB n L a :=
  Nat.pow_le_pow_right (by omega) (by omega)

theorem tickB_succ {n L ip : Nat} (h : ip < n) : tickB n L ip = (L + 3) * tickB n L (ip + 1) := by
  unfold tickB
  have : n + 1 - ip = (n + 1 - (ip + 1)) + 1 := by omega
  rw [this, Nat.pow_succ, Nat.mul_comm]

/-! ## Position facts about the input primitives -/

theorem seqLen_pos (b : Nat) : 1 ≤ Utf8.seqLen b := by
  unfold Utf8.seqLen; repeat' split
  all_goals omega

theorem nextLeftPos_lt {inp : Input} {p q : Nat} (h : inp.nextLeftPos p = .ok (some q)) : q < p := by
  unfold Input.nextLeftPos at h
  split at h
  · unfold Utf8.nextLeftPos at h
    repeat' split at h
    all_goals (simp at *)
    all_goals omega
  · simp only [Input.tryMoveLeft, Utf8.tryMoveLeft, Except.ok.injEq] at h
    split at h
    · simp at h
    · simp at h; omega

theorem nextRightPos_gt {inp : Input} {p q : Nat} (h : inp.nextRightPos p = .ok (some q)) :
    p < q ∧ p < inp.bytes.size := by
  unfold Input.nextRightPos at h
  split at h
  · unfold Utf8.nextRightPos at h
    split at h
    · simp at h
    · split at h
      · simp at h
      · rename_i b0 hb
        have hlt : p < inp.bytes.size := by
          rcases Nat.lt_or_ge p inp.bytes.size with h' | h'
          · exact h'
          · simp [Array.getElem?_eq_none h'] at hb
        have := seqLen_pos b0
        split at h <;> simp at h <;> omega
  · simp only [Input.tryMoveRight, Utf8.tryMoveRight, Except.ok.injEq] at h
    split at h
    · simp at h
    · simp at h; omega

end Regress.VM

namespace Regress.VM

theorem lt_size_of_getElem? {α} {a : Array α} {i : Nat} {x : α} (h : a[i]? = some x) : i < a.size := by
  rcases Nat.lt_or_ge i a.size with h' | h'
  · exact h'
  · simp [Array.getElem?_eq_none h'] at h

/-- A successful move from `pos` to `p` in direction `fwd` is strict and stays inside the input. -/
def MoveOk (inp : Input) (fwd : Bool) (pos p : Nat) : Prop :=
  (fwd = true → pos < p ∧ p ≤ inp.bytes.size) ∧ (fwd = false → p < pos ∧ pos ≤ inp.bytes.size)

theorem seqLen_le (b : Nat) : Utf8.seqLen b ≤ 4 := by
  unfold Utf8.seqLen; repeat' split
  all_goals omega

theorem utf8_nextRight_bound {bytes : Array Nat} {pos c p : Nat}
    (h : Utf8.nextRight bytes pos = .ok (some (c, p))) : pos < p ∧ p ≤ bytes.size := by
  unfold Utf8.nextRight at h
  split at h
  · simp at h
  · split at h
    · simp at h
    · rename_i b0 hb0
      have h0 := lt_size_of_getElem? hb0
      split at h
      · simp at h; omega
      · simp only [] at h
        have h1 := seqLen_pos b0
        have h4 := seqLen_le b0
        split at h
        · simp at h
        · rename_i cp hcp
          split at h
          · simp only [Except.ok.injEq, Option.some.injEq, Prod.mk.injEq] at h
            obtain ⟨_, rfl⟩ := h
            refine ⟨by omega, ?_⟩
            split at hcp
            · rename_i h2
              split at hcp
              · rename_i hb1; have := lt_size_of_getElem? hb1; simp at h2; omega
              · simp at hcp
            · split at hcp
              · rename_i h3
                split at hcp
                · rename_i hb1 hb2; have := lt_size_of_getElem? hb2; simp at h3; omega
                · simp at hcp
              · split at hcp
                · rename_i hb1 hb2 hb3; have := lt_size_of_getElem? hb3; omega
                · simp at hcp
          · simp at h

theorem utf8_nextLeft_bound {bytes : Array Nat} {pos c p : Nat}
    (h : Utf8.nextLeft bytes pos = .ok (some (c, p))) : p < pos ∧ pos ≤ bytes.size := by
  unfold Utf8.nextLeft at h
  split at h
  · simp at h
  · rename_i hp0
    split at h
    · simp at h
    · rename_i z hz
      have hz' := lt_size_of_getElem? hz
      have hp : pos ≠ 0 := by simpa using hp0
      refine ⟨?_, by omega⟩
      repeat' split at h
      all_goals (try dsimp only at h)
      all_goals (try split at h)
      all_goals (simp at h)
      all_goals omega

theorem cursor_next_ok {inp : Input} {fwd : Bool} {pos c p : Nat}
    (h : Cursor.next inp fwd pos = .ok (some (c, p))) : MoveOk inp fwd pos p := by
  unfold Cursor.next at h
  cases fwd with
  | true =>
    simp only [if_true] at h
    refine ⟨fun _ => ?_, fun hc => by simp at hc⟩
    unfold Input.nextRight at h
    split at h
    · exact utf8_nextRight_bound h
    · split at h
      · simp at h
      · split at h
        · simp at h
        · rename_i hb; have := lt_size_of_getElem? hb
          simp at h; omega
  | false =>
    simp only [Bool.false_eq_true, if_false] at h
    refine ⟨fun hc => by simp at hc, fun _ => ?_⟩
    unfold Input.nextLeft at h
    split at h
    · exact utf8_nextLeft_bound h
    · split at h
      · simp at h
      · rename_i hp0
        split at h
        · simp at h
        · rename_i hb; have := lt_size_of_getElem? hb
          have hp : pos ≠ 0 := by simpa using hp0
          simp at h; omega

theorem cursor_nextByte_ok {inp : Input} {fwd : Bool} {pos b p : Nat}
    (h : Cursor.nextByte inp fwd pos = .ok (some (b, p))) : MoveOk inp fwd pos p := by
  unfold Cursor.nextByte at h
  cases fwd with
  | true =>
    simp only [if_true] at h
    refine ⟨fun _ => ?_, fun hc => by simp at hc⟩
    split at h
    · simp at h
    · simp at h
    · rename_i b' hpk
      simp only [Except.ok.injEq, Option.some.injEq, Prod.mk.injEq] at h
      obtain ⟨_, rfl⟩ := h
      unfold Input.peekByteRight at hpk
      split at hpk
      · simp at hpk
      · simp only [Utf8.peekByteRight, Except.ok.injEq] at hpk
        split at hpk
        · simp at hpk
        · have := lt_size_of_getElem? hpk; omega
  | false =>
    simp only [Bool.false_eq_true, if_false] at h
    refine ⟨fun hc => by simp at hc, fun _ => ?_⟩
    split at h
    · simp at h
    · simp at h
    · rename_i b' hpk
      simp only [Except.ok.injEq, Option.some.injEq, Prod.mk.injEq] at h
      obtain ⟨_, rfl⟩ := h
      unfold Input.peekByteLeft at hpk
      split at hpk
      · simp at hpk
      · simp only [Utf8.peekByteLeft, Except.ok.injEq] at hpk
        split at hpk
        · simp at hpk
        · rename_i hp0
          have hp : pos ≠ 0 := by simpa using hp0
          omega

theorem matchBytes_ok {inp : Input} {fwd : Bool} {pos p : Nat} {lit : List Nat} (hl : lit ≠ [])
    (h : inp.matchBytes fwd pos lit = some p) : MoveOk inp fwd pos p := by
  have hlen : 1 ≤ lit.length := by
    cases lit with
    | nil => exact absurd rfl hl
    | cons a l => simp
  unfold Input.matchBytes Utf8.matchBytes at h
  cases fwd with
  | true =>
    simp only [if_true] at h
    refine ⟨fun _ => ?_, fun hc => by simp at hc⟩
    unfold Utf8.tryMoveRight at h
    split at h
    · simp at h
    · rename_i e he
      split at he
      · simp at he
      · simp only [Option.some.injEq] at he
        split at h
        · simp only [Option.some.injEq] at h; omega
        · simp at h
  | false =>
    simp only [Bool.false_eq_true, if_false] at h
    refine ⟨fun hc => by simp at hc, fun _ => ?_⟩
    unfold Utf8.tryMoveLeft at h
    split at h
    · simp at h
    · rename_i s hs
      split at hs
      · simp at hs
      · simp only [Option.some.injEq] at hs
        split at h
        · rename_i heq
          simp only [Option.some.injEq] at h
          have h1 : Utf8.slice inp.bytes s pos = lit := by simpa using heq
          have h2 := congrArg List.length h1
          simp only [Utf8.slice, Array.length_toList, Array.size_extract] at h2
          omega
        · simp at h

/-- The matchers selected by `scmSelect`: a `byteSeq` is non-empty. -/
def Scm.good : Scm → Bool
  | .byteSeq bs => !bs.isEmpty
  | _ => true

theorem Scm.matches_ok {m : Scm} (hg : m.good = true) {inp : Input} {fwd : Bool} {pos p : Nat}
    (h : m.matches inp fwd pos = .ok (some p)) : MoveOk inp fwd pos p := by
  have hite : ∀ {c : Prop} [Decidable c] {q : Nat},
      (Except.ok (if c then some q else none) : Except Unit (Option Nat)) = .ok (some p) → q = p := by
    intro c _ q hh
    split at hh <;> simp at hh
    exact hh
  cases m with
  | byteSeq bs =>
    simp only [Scm.matches, Cursor.tryMatchLit, Except.ok.injEq] at h
    exact matchBytes_ok (by intro hc; subst hc; simp [Scm.good] at hg) h
  | byteSet bm =>
    simp only [Scm.matches] at h
    split at h
    · simp at h
    · simp at h
    · rename_i hn; have := hite h; subst this; exact cursor_nextByte_ok hn
  | byteArraySet bs =>
    simp only [Scm.matches] at h
    split at h
    · simp at h
    · simp at h
    · rename_i hn; have := hite h; subst this; exact cursor_nextByte_ok hn
  | char c =>
    simp only [Scm.matches] at h
    split at h
    · simp at h
    · simp at h
    · rename_i hn; have := hite h; subst this; exact cursor_next_ok hn
  | charSet cs =>
    simp only [Scm.matches] at h
    split at h
    · simp at h
    · simp at h
    · rename_i hn; have := hite h; subst this; exact cursor_next_ok hn
  | bracket bc =>
    simp only [Scm.matches] at h
    split at h
    · simp at h
    · simp at h
    · rename_i hn; have := hite h; subst this; exact cursor_next_ok hn
  | matchAny =>
    simp only [Scm.matches] at h
    split at h
    · simp at h
    · simp at h
    · rename_i hn; simp at h; subst h; exact cursor_next_ok hn
  | matchAnyExceptLineTerminator =>
    simp only [Scm.matches] at h
    split at h
    · simp at h
    · simp at h
    · rename_i hn; have := hite h; subst this; exact cursor_next_ok hn

end Regress.VM

namespace Regress.VM.Bt

/-! ## (b) Backtracker: single-char loops push a record whose positions are inside the input -/

/-- Either nothing moved, or the positions a loop record needs are inside the input. -/
def SpanOk (inp : Input) (fwd : Bool) (a b : Nat) : Prop :=
  b = a ∨ ((fwd = true → b ≤ inp.bytes.size) ∧ (fwd = false → a ≤ inp.bytes.size))

theorem scmUpTo_span {m : Scm} (hg : m.good = true) (inp : Input) (fwd : Bool) :
    ∀ (fuel : Nat) (limit : Option Nat) (pos q : Nat),
      scmUpTo m inp fwd fuel limit pos = .ok q → SpanOk inp fwd pos q := by
  intro fuel
  induction fuel with
  | zero => intro limit pos q h; simp [scmUpTo] at h
  | succ fuel ih =>
    intro limit pos q h
    unfold scmUpTo at h
    split at h
    · simp at h; exact .inl h.symm
    · split at h
      · simp at h
      · simp at h; exact .inl h.symm
      · rename_i p hm
        have hmv := Scm.matches_ok hg hm
        rcases ih _ _ _ h with h1 | h1
        · subst h1
          exact .inr ⟨fun hf => (hmv.1 hf).2, fun hf => (hmv.2 hf).2⟩
        · exact .inr ⟨h1.1, fun hf => (hmv.2 hf).2⟩

theorem scmSelect_good {prog : Prog} {kind : InputKind} {ip : Nat} {m : Scm}
    (h : scmSelect prog kind ip = .scm m) : m.good = true := by
  unfold scmSelect at h
  split at h
  · simp at h
  · split at h
    all_goals first
      | (simp only [ScmSel.scm.injEq] at h; subst h; rfl)
      | skip
    · split at h
      · simp only [ScmSel.scm.injEq] at h; subst h; rfl
      · simp at h
    · split at h
      · simp only [ScmSel.scm.injEq] at h; subst h; rfl
      · simp at h
    · split at h
      · rename_i hl
        simp only [ScmSel.scm.injEq] at h; subst h
        simp only [Scm.good, Bool.not_eq_true', List.isEmpty_eq_false_iff]
        intro hc; subst hc; simp at hl
      · simp at h
    · simp at h

theorem runScmLoopImpl_span {m : Scm} (hg : m.good = true) {inp : Input} {fwd : Bool}
    {pos mn : Nat} {mx : Option Nat} {a b : Nat}
    (h : runScmLoopImpl m inp fwd pos mn mx = .ok (some (a, b))) : SpanOk inp fwd a b := by
  unfold runScmLoopImpl at h
  split at h
  · simp at h
  · simp at h
  · simp only [] at h
    split at h
    · simp at h
    · split at h
      · simp at h
      · rename_i hup
        simp only [Except.ok.injEq, Option.some.injEq, Prod.mk.injEq] at h
        obtain ⟨rfl, rfl⟩ := h
        exact scmUpTo_span hg inp fwd _ _ _ _ hup

theorem withScmLoopImpl_span {prog : Prog} {inp : Input} {fwd : Bool} {pos mn : Nat}
    {mx : Option Nat} {ip a b : Nat}
    (h : withScmLoopImpl prog inp fwd pos mn mx ip = .ok (some (a, b))) : SpanOk inp fwd a b := by
  unfold withScmLoopImpl at h
  split at h
  · rename_i m hsel; exact runScmLoopImpl_span (scmSelect_good hsel) h
  · split at h
    · simp at h; exact .inl (by omega)
    · simp at h
  all_goals simp at h

theorem withScmComputeMax_span {prog : Prog} {inp : Input} {fwd : Bool} {pos : Nat}
    {limit : Option Nat} {ip q : Nat}
    (h : withScmComputeMax prog inp fwd pos limit ip = .ok q) : SpanOk inp fwd pos q := by
  unfold withScmComputeMax at h
  split at h
  · rename_i m hsel; exact scmUpTo_span (scmSelect_good hsel) inp fwd _ _ _ _ h
  · simp at h; exact .inl h.symm
  all_goals simp at h

/-- What `runScmLoop` returns: the continuation `ip + 2` and the stack, unchanged or with one loop
record whose span is inside the input. -/
theorem runScmLoop_spec {prog : Prog} {inp : Input} {fwd : Bool} {bts : Array BtInsn}
    {pos mn : Nat} {mx : Option Nat} {ip : Nat} {g : Bool} {nip p : Nat} {bts' : Array BtInsn}
    (h : runScmLoop prog inp fwd bts pos mn mx ip g = .ok (some (nip, p, bts'))) :
    nip = ip + 2 ∧ (bts' = bts ∨ ∃ a b, SpanOk inp fwd a b ∧ a ≠ b ∧
      bts' = bts.push (if g then .greedyLoop1Char (ip + 2) a b else .nonGreedyLoop1Char (ip + 2) a b)) := by
  unfold runScmLoop at h
  simp only [] at h
  split at h
  · simp at h
  · simp at h
  · rename_i a b hmm
    simp only [Except.ok.injEq, Option.some.injEq, Prod.mk.injEq] at h
    obtain ⟨rfl, _, rfl⟩ := h
    refine ⟨rfl, ?_⟩
    by_cases hab : a = b
    · left; simp [hab]
    · right
      refine ⟨a, b, ?_, hab, by simp [hab]⟩
      cases g with
      | true => simp only [if_true] at hmm; exact withScmLoopImpl_span hmm
      | false =>
        simp only [Bool.false_eq_true, if_false] at hmm
        split at hmm
        · simp at hmm
        · simp at hmm
        · split at hmm
          · split at hmm
            · simp at hmm
            · rename_i hcm
              simp only [Except.ok.injEq, Option.some.injEq, Prod.mk.injEq] at hmm
              obtain ⟨rfl, rfl⟩ := hmm
              exact withScmComputeMax_span hcm
          · simp only [Except.ok.injEq, Option.some.injEq, Prod.mk.injEq] at hmm
            obtain ⟨rfl, rfl⟩ := hmm
            exact .inl rfl

end Regress.VM.Bt

namespace Regress.VM.Bt

/-! ## (b) Backtracker: the potential -/

/-- Ticks a backtrack record can still cause (`n` instructions, `L` input bytes, direction `fwd`). -/
def cost (n L : Nat) (fwd : Bool) : BtInsn → Nat
  | .setPosition ip _ => tickB n L ip
  | .greedyLoop1Char c _ mx => (if fwd then mx else L - mx) * tickB n L c
  | .nonGreedyLoop1Char c mn _ => (if fwd then L - mn else mn) * tickB n L c
  | _ => 0

def costSum (n L : Nat) (fwd : Bool) (bts : Array BtInsn) : Nat :=
  (bts.toList.map (cost n L fwd)).sum

theorem costSum_push (n L : Nat) (fwd : Bool) (bts : Array BtInsn) (r : BtInsn) :
    costSum n L fwd (bts.push r) = costSum n L fwd bts + cost n L fwd r := by
  simp [costSum, List.sum_append]

theorem costSum_pushSavedGroups (n L : Nat) (fwd : Bool) : ∀ (l : List GroupData) (id : Nat)
    (bts : Array BtInsn), costSum n L fwd (pushSavedGroups l id bts) = costSum n L fwd bts := by
  intro l
  induction l with
  | nil => intro id bts; rfl
  | cons a l ih => intro id bts; simp [pushSavedGroups, ih, costSum_push, cost]

theorem BtSpec.cost_le {prog : Prog} (hf : forwardProg prog = true) {inp : Input} {fwd : Bool}
    {bts : Array BtInsn} {ip pos : Nat} {bts' : Array BtInsn}
    (h : BtSpec prog inp fwd bts ip pos bts') :
    tickB prog.insns.size inp.bytes.size ip + costSum prog.insns.size inp.bytes.size fwd bts'
      ≤ costSum prog.insns.size inp.bytes.size fwd bts := by
  induction h with
  | setPos rest ip pos => rw [costSum_push]; simp only [cost]; omega
  | skip rest r ip pos bts' _ _ ih => rw [costSum_push]; omega
  | greedy rest c mn mx newmax hne hnew =>
    rw [costSum_push, costSum_push]
    simp only [cost]
    cases fwd with
    | true =>
      simp only [if_true] at hnew ⊢
      have := nextLeftPos_lt hnew
      have h2 : (newmax + 1) * tickB prog.insns.size inp.bytes.size c
          ≤ mx * tickB prog.insns.size inp.bytes.size c := Nat.mul_le_mul_right _ (by omega)
      rw [Nat.add_mul, Nat.one_mul] at h2
      omega
    | false =>
      simp only [Bool.false_eq_true, if_false] at hnew ⊢
      have := nextRightPos_gt hnew
      have h2 : (inp.bytes.size - newmax + 1) * tickB prog.insns.size inp.bytes.size c
          ≤ (inp.bytes.size - mx) * tickB prog.insns.size inp.bytes.size c :=
        Nat.mul_le_mul_right _ (by omega)
      rw [Nat.add_mul, Nat.one_mul] at h2
      omega
  | nonGreedy rest c mn mx newmin hne hnew =>
    rw [costSum_push, costSum_push]
    simp only [cost]
    cases fwd with
    | true =>
      simp only [if_true] at hnew ⊢
      have := nextRightPos_gt hnew
      have h2 : (inp.bytes.size - newmin + 1) * tickB prog.insns.size inp.bytes.size c
          ≤ (inp.bytes.size - mn) * tickB prog.insns.size inp.bytes.size c :=
        Nat.mul_le_mul_right _ (by omega)
      rw [Nat.add_mul, Nat.one_mul] at h2
      omega
    | false =>
      simp only [Bool.false_eq_true, if_false] at hnew ⊢
      have := nextLeftPos_lt hnew
      have h2 : (newmin + 1) * tickB prog.insns.size inp.bytes.size c
          ≤ mn * tickB prog.insns.size inp.bytes.size c := Nat.mul_le_mul_right _ (by omega)
      rw [Nat.add_mul, Nat.one_mul] at h2
      omega
  | enterNG rest loopIp orig data id a b c d hin =>
    have := forwardProg_insn hf hin
    simp [fwdInsn] at this

section
variable {prog : Prog} {inp : Input} {ip pos : Nat} {fwd : Bool} {st : State} {bts : Array BtInsn}

theorem loopInsn_not_fwd {j : Nat} {i : Insn} (hi : isLoopInsn i = true) : fwdInsn j i = false := by
  cases i <;> simp [isLoopInsn] at hi <;> rfl

theorem step_cont_cost (hf : forwardProg prog = true) {ip' p st' bts'}
    (h : step prog inp ip pos fwd st bts = .cont ip' p st' bts') :
    ip < prog.insns.size ∧ ip < ip' ∧
    costSum prog.insns.size inp.bytes.size fwd bts'
      ≤ costSum prog.insns.size inp.bytes.size fwd bts
        + (inp.bytes.size + 1) * tickB prog.insns.size inp.bytes.size (ip + 1) := by
  have hs := step_spec (prog := prog) (inp := inp) (ip := ip) (pos := pos) (fwd := fwd) (st := st)
    (bts := bts)
  rw [h] at hs
  cases hs with
  | next hlt => exact ⟨hlt, by omega, by omega⟩
  | group hlt => exact ⟨hlt, by omega, by rw [costSum_push]; simp [cost]⟩
  | jump t hin =>
    have := forwardProg_insn hf hin
    simp only [fwdInsn, decide_eq_true_eq] at this
    exact ⟨lt_size_of_getElem? hin, this, by omega⟩
  | alt s hin =>
    have := forwardProg_insn hf hin
    simp only [fwdInsn, decide_eq_true_eq] at this
    refine ⟨lt_size_of_getElem? hin, by omega, ?_⟩
    rw [costSum_push]
    simp only [cost]
    have h1 := tickB_anti prog.insns.size inp.bytes.size (show ip + 1 ≤ s by omega)
    have h2 : (inp.bytes.size + 1) * tickB prog.insns.size inp.bytes.size (ip + 1)
        = inp.bytes.size * tickB prog.insns.size inp.bytes.size (ip + 1)
          + tickB prog.insns.size inp.bytes.size (ip + 1) := by rw [Nat.add_mul, Nat.one_mul]
    omega
  | loopCont i hin hi =>
    have := forwardProg_insn hf hin
    rw [loopInsn_not_fwd hi] at this
    simp at this
  | loop1 mn mx g hin nip p bts' hr =>
    obtain ⟨rfl, hb⟩ := runScmLoop_spec hr
    refine ⟨lt_size_of_getElem? hin, by omega, ?_⟩
    rcases hb with rfl | ⟨a, b, hspan, hab, rfl⟩
    · omega
    · rw [costSum_push]
      have hB := tickB_anti prog.insns.size inp.bytes.size (show ip + 1 ≤ ip + 2 by omega)
      have h2 : (inp.bytes.size + 1) * tickB prog.insns.size inp.bytes.size (ip + 1)
          = inp.bytes.size * tickB prog.insns.size inp.bytes.size (ip + 1)
            + tickB prog.insns.size inp.bytes.size (ip + 1) := by rw [Nat.add_mul, Nat.one_mul]
      have hsp : (fwd = true → b ≤ inp.bytes.size) ∧ (fwd = false → a ≤ inp.bytes.size) := by
        rcases hspan with h' | h'
        · exact absurd h'.symm hab
        · exact h'
      have key : ∀ x, x ≤ inp.bytes.size →
          x * tickB prog.insns.size inp.bytes.size (ip + 2)
            ≤ inp.bytes.size * tickB prog.insns.size inp.bytes.size (ip + 1) :=
        fun x hx => Nat.mul_le_mul hx hB
      cases g <;> cases fwd <;> simp only [cost, if_true, Bool.false_eq_true, if_false]
      · have := key a (hsp.2 rfl); omega
      · have := key (inp.bytes.size - a) (by omega); omega
      · have := key (inp.bytes.size - b) (by omega); omega
      · have := key b (hsp.1 rfl); omega

theorem step_back_same (hf : forwardProg prog = true) {st' bts'}
    (h : step prog inp ip pos fwd st bts = .back st' bts') : bts' = bts := by
  have hs := step_spec (prog := prog) (inp := inp) (ip := ip) (pos := pos) (fwd := fwd) (st := st)
    (bts := bts)
  rw [h] at hs
  cases hs with
  | back => rfl
  | loopBack i hin hi =>
    have := forwardProg_insn hf hin
    rw [loopInsn_not_fwd hi] at this
    simp at this

theorem step_look_fwd (hf : forwardProg prog = true) {d neg sg eg k}
    {st0 : State} {bts0 : Array BtInsn}
    (h : step prog inp ip pos fwd st bts = .look d neg sg eg k st0 bts0) :
    ip < prog.insns.size ∧ ip < k ∧ st = st0 ∧ bts = bts0 := by
  have hs := step_spec (prog := prog) (inp := inp) (ip := ip) (pos := pos) (fwd := fwd) (st := st)
    (bts := bts)
  rw [h] at hs
  cases hs with
  | look _ _ _ _ _ hin =>
    rcases hin with hin | hin
    · have := forwardProg_insn hf hin
      simp only [fwdInsn, decide_eq_true_eq] at this
      exact ⟨lt_size_of_getElem? hin, this, rfl, rfl⟩
    · have := forwardProg_insn hf hin
      simp only [fwdInsn, decide_eq_true_eq] at this
      exact ⟨lt_size_of_getElem? hin, this, rfl, rfl⟩

end
end Regress.VM.Bt

namespace Regress.VM.Bt

/-- The outcome is not `.outOfFuel`, and a `matched`/`failed` outcome used at most `b` ticks. -/
def Outcome.within (b : Nat) : Outcome → Prop
  | .matched _ _ s _ => s ≤ b
  | .failed _ s _ => s ≤ b
  | .outOfFuel => False
  | .error _ => True

/-- The potential: ticks still needed from `ip` with stack `bts`. -/
def potential (prog : Prog) (inp : Input) (fwd : Bool) (ip : Nat) (bts : Array BtInsn) : Nat :=
  tickB prog.insns.size inp.bytes.size ip + costSum prog.insns.size inp.bytes.size fwd bts

theorem run_terminates (prog : Prog) (hf : forwardProg prog = true) (inp : Input) (limit : Nat) :
    ∀ (sf ip pos : Nat) (fwd : Bool) (st : State) (bts : Array BtInsn) (steps peak : Nat),
      potential prog inp fwd ip bts ≤ sf →
      steps + potential prog inp fwd ip bts ≤ limit →
      (run prog inp limit sf ip pos fwd st bts steps peak).within
        (steps + potential prog inp fwd ip bts) := by
  intro sf
  induction sf with
  | zero =>
    intro ip pos fwd st bts steps peak h1 _
    have := tickB_pos prog.insns.size inp.bytes.size ip
    unfold potential at h1; omega
  | succ sf ih =>
    intro ip pos fwd st bts steps peak h1 h2
    unfold potential at h1 h2 ⊢
    have hBip := tickB_pos prog.insns.size inp.bytes.size ip
    simp only [run]
    have hlim : ¬ steps ≥ limit := by omega
    simp only [hlim, if_false]
    generalize (if peak < bts.size then bts.size else peak) = peak1
    -- the tail shared by every `tryBacktrack` site: `u` ticks used so far, `u ≤ B ip`
    have hback : ∀ (st2 : State) (steps2 peak2 : Nat),
        steps2 ≤ steps + tickB prog.insns.size inp.bytes.size ip →
        (match tryBacktrack prog inp fwd st2 bts with
          | .err e => Outcome.error e
          | .exhausted st _ => .failed st steps2 peak2
          | .resumed ip pos st bts => run prog inp limit sf ip pos fwd st bts steps2 peak2).within
          (steps + (tickB prog.insns.size inp.bytes.size ip
            + costSum prog.insns.size inp.bytes.size fwd bts)) := by
      intro st2 steps2 peak2 hs2
      cases hbt : tryBacktrack prog inp fwd st2 bts with
      | err e => simp [Outcome.within]
      | exhausted s b => simp only [Outcome.within]; omega
      | resumed ip3 pos3 st3 bts3 =>
        simp only []
        have hc := (tryBacktrack_spec hbt).cost_le hf
        have := ih ip3 pos3 fwd st3 bts3 steps2 peak2 (by unfold potential; omega)
          (by unfold potential; omega)
        unfold potential at this
        revert this
        cases run prog inp limit sf ip3 pos3 fwd st3 bts3 steps2 peak2 <;>
          simp only [Outcome.within] <;> intro h <;> omega
    cases hstep : step prog inp ip pos fwd st bts with
    | err e => simp [Outcome.within]
    | goal p s => simp only [Outcome.within]; omega
    | cont ip2 pos2 st2 bts2 =>
      simp only []
      obtain ⟨hlt, hip, hc⟩ := step_cont_cost hf hstep
      have hsucc := tickB_succ (L := inp.bytes.size) hlt
      have hanti := tickB_anti prog.insns.size inp.bytes.size (show ip + 1 ≤ ip2 by omega)
      have hB1 := tickB_pos prog.insns.size inp.bytes.size (ip + 1)
      have e1 : (inp.bytes.size + 3) * tickB prog.insns.size inp.bytes.size (ip + 1)
          = (inp.bytes.size + 1) * tickB prog.insns.size inp.bytes.size (ip + 1)
            + 2 * tickB prog.insns.size inp.bytes.size (ip + 1) := by
        rw [← Nat.add_mul]
      have := ih ip2 pos2 fwd st2 bts2 (steps + 1) peak1 (by unfold potential; omega)
        (by unfold potential; omega)
      unfold potential at this
      revert this
      cases run prog inp limit sf ip2 pos2 fwd st2 bts2 (steps + 1) peak1 <;>
        simp only [Outcome.within] <;> intro h <;> omega
    | back st2 bts2 =>
      simp only []
      have := step_back_same hf hstep
      subst this
      exact hback st2 (steps + 1) peak1 (by omega)
    | look dirFwd negate sg eg k st0 bts0 =>
      simp only []
      obtain ⟨hlt, hk, rfl, rfl⟩ := step_look_fwd hf hstep
      have hsucc := tickB_succ (L := inp.bytes.size) hlt
      have hanti := tickB_anti prog.insns.size inp.bytes.size (show ip + 1 ≤ k by omega)
      have hB1 := tickB_pos prog.insns.size inp.bytes.size (ip + 1)
      have e1 : (inp.bytes.size + 3) * tickB prog.insns.size inp.bytes.size (ip + 1)
          = inp.bytes.size * tickB prog.insns.size inp.bytes.size (ip + 1)
            + 3 * tickB prog.insns.size inp.bytes.size (ip + 1) := by
        rw [Nat.add_mul]
      split
      · simp [Outcome.within]
      · have hc0 : costSum prog.insns.size inp.bytes.size dirFwd #[BtInsn.exhausted] = 0 := by
          simp [costSum, cost]
        have hn := ih (ip + 1) pos dirFwd st #[.exhausted] (steps + 1) peak1
          (by unfold potential; omega) (by unfold potential; omega)
        unfold potential at hn
        rw [hc0] at hn
        cases hr : run prog inp limit sf (ip + 1) pos dirFwd st #[.exhausted] (steps + 1) peak1 with
        | outOfFuel => rw [hr] at hn; simp [Outcome.within] at hn
        | error e => simp [Outcome.within]
        | matched p2 st2 steps2 peak2 =>
          rw [hr] at hn
          simp only [Outcome.within] at hn
          simp only []
          split
          · -- positive look-around matched: continue at `k`
            have := ih k pos fwd st2 (pushSavedGroups (st.groups.extract sg eg).toList sg bts)
              steps2 peak2
              (by unfold potential; rw [costSum_pushSavedGroups]; omega)
              (by unfold potential; rw [costSum_pushSavedGroups]; omega)
            unfold potential at this
            rw [costSum_pushSavedGroups] at this
            revert this
            cases run prog inp limit sf k pos fwd st2
              (pushSavedGroups (st.groups.extract sg eg).toList sg bts) steps2 peak2 <;>
              simp only [Outcome.within] <;> intro h <;> omega
          · exact hback _ steps2 peak2 (by omega)
        | failed st2 steps2 peak2 =>
          rw [hr] at hn
          simp only [Outcome.within] at hn
          simp only []
          split
          · have := ih k pos fwd
              { st2 with groups := spliceGroups (st.groups.extract sg eg).toList sg st2.groups }
              bts steps2 peak2
              (by unfold potential; omega) (by unfold potential; omega)
            unfold potential at this
            revert this
            cases run prog inp limit sf k pos fwd
              { st2 with groups := spliceGroups (st.groups.extract sg eg).toList sg st2.groups }
              bts steps2 peak2 <;>
              simp only [Outcome.within] <;> intro h <;> omega
          · exact hback _ steps2 peak2 (by omega)

theorem tryAtPos_terminates (prog : Prog) (hf : forwardProg prog = true) (inp : Input)
    (fuel ip pos : Nat) (fwd : Bool) (st : State)
    (h : tickB prog.insns.size inp.bytes.size ip ≤ fuel) :
    (tryAtPos prog inp fuel ip pos fwd st).within (tickB prog.insns.size inp.bytes.size ip) := by
  have hp : potential prog inp fwd ip #[.exhausted] = tickB prog.insns.size inp.bytes.size ip := by
    simp [potential, costSum, cost]
  have := run_terminates prog hf inp fuel fuel ip pos fwd st #[.exhausted] 0 0
    (by rw [hp]; exact h) (by rw [hp]; omega)
  rw [hp, Nat.zero_add] at this
  exact this

theorem Outcome.within_ne {b : Nat} {o : Outcome} (h : o.within b) : o ≠ .outOfFuel := by
  intro hc; subst hc; exact h

end Regress.VM.Bt

namespace Regress.VM.Pk
open Regress.VM.Bt (isLoopInsn)

/-! ## (b) PikeVM: forward programs -/

/-- Every `loop1` is followed by an instruction accepted as a single-char matcher (`wfProg` clause
I9). Without it a `loop1` whose body does not consume input (`jump`, a group instruction, …) makes the
PikeVM model spin forever: the state stays at the `loop1` with the same position. -/
def loop1Scm (prog : Prog) : Bool :=
  (List.range prog.insns.size).all (fun j =>
    match prog.insns[j]? with
    | some (.loop1 _ _ _) =>
      (match prog.insns[j + 1]? with
       | some b => scmAccepted b
       | none => false)
    | _ => true)

theorem loop1Scm_body {prog : Prog} (h : loop1Scm prog = true) {j mn mx g}
    (hin : prog.insns[j]? = some (.loop1 mn mx g)) :
    ∃ b, prog.insns[j + 1]? = some b ∧ scmAccepted b = true := by
  have hlt := lt_size_of_getElem? hin
  unfold loop1Scm at h
  rw [List.all_eq_true] at h
  have := h j (List.mem_range.mpr hlt)
  simp only [hin] at this
  split at this
  · exact ⟨_, ‹_›, this⟩
  · simp at this

/-- What a `loop1` body (an `scmAccepted` instruction) returns. -/
inductive BodySpec (inp : Input) (fwd : Bool) (s : State) (steps peak : Nat) : SM → Prop
  | err (e) : BodySpec inp fwd s steps peak (.err e)
  | fail (s') : BodySpec inp fwd s steps peak (.fail s' steps peak)
  | cont (s' : State) (h : MoveOk inp fwd s.pos s'.pos) : BodySpec inp fwd s steps peak (.cont s' steps peak)

theorem nextElemArm_body (inp : Input) (fwd : Bool) (s : State) (f site steps peak) :
    BodySpec inp fwd s steps peak (nextElemArm inp fwd s f site steps peak) := by
  unfold nextElemArm
  split
  · exact .err _
  · exact .fail _
  · rename_i c p hn
    split
    · exact .err _
    · unfold nextOrFail
      split
      · exact .cont _ (cursor_next_ok hn)
      · exact .fail _

theorem scmArm_body (inp : Input) (fwd : Bool) (s : State) (r site steps peak)
    (h : ∀ p, r = .ok (some p) → MoveOk inp fwd s.pos p) :
    BodySpec inp fwd s steps peak (scmArm r s site steps peak) := by
  unfold scmArm
  split
  · exact .err _
  · exact .fail _
  · exact .cont _ (h _ rfl)

theorem tryMatchState_body {prog : Prog} {inp : Input} {look : Runner} {d : Nat} {s : State}
    {fwd : Bool} {steps peak : Nat} {b : Insn}
    (hin : prog.insns[s.ip]? = some b) (hb : scmAccepted b = true) :
    BodySpec inp fwd s steps peak (tryMatchState prog inp look (d + 1) s fwd steps peak) := by
  unfold tryMatchState
  simp only [hin]
  cases b with
  | char c => exact nextElemArm_body ..
  | charSet v => exact nextElemArm_body ..
  | matchAny => exact nextElemArm_body ..
  | matchAnyExceptLineTerminator => exact nextElemArm_body ..
  | bracket idx => exact nextElemArm_body ..
  | byteSeq v =>
    apply scmArm_body
    intro p hp
    simp only [Cursor.tryMatchLit, Except.ok.injEq] at hp
    refine matchBytes_ok ?_ hp
    intro hc; subst hc; simp [scmAccepted] at hb
  | asciiBracket bm =>
    apply scmArm_body
    intro p hp
    exact Scm.matches_ok rfl hp
  | byteSet bs =>
    apply scmArm_body
    intro p hp
    exact Scm.matches_ok rfl hp
  | _ => simp [scmAccepted] at hb

/-- Remaining input in direction `fwd` (at most `L`). -/
def rem (L : Nat) (fwd : Bool) (pos : Nat) : Nat := if fwd then L - pos else min pos L

theorem rem_le (L : Nat) (fwd : Bool) (pos : Nat) : rem L fwd pos ≤ L := by
  unfold rem; split <;> omega

theorem rem_lt_of_moveOk {inp : Input} {fwd : Bool} {pos p : Nat} (h : MoveOk inp fwd pos p) :
    rem inp.bytes.size fwd p < rem inp.bytes.size fwd pos := by
  unfold rem
  cases fwd with
  | true => have := h.1 rfl; simp only [if_true]; omega
  | false => have := h.2 rfl; simp only [Bool.false_eq_true, if_false]; omega

/-- Ticks a state on the stack can still cause. -/
def cost (prog : Prog) (L : Nat) (fwd : Bool) (s : State) : Nat :=
  match prog.insns[s.ip]? with
  | some (.loop1 _ _ _) => (rem L fwd s.pos + 1) * (1 + tickB prog.insns.size L (s.ip + 2))
  | _ => tickB prog.insns.size L s.ip

theorem cost_loop1 {prog : Prog} {L : Nat} {fwd : Bool} {s : State} {mn mx g}
    (hin : prog.insns[s.ip]? = some (.loop1 mn mx g)) :
    cost prog L fwd s = (rem L fwd s.pos + 1) * (1 + tickB prog.insns.size L (s.ip + 2)) := by
  simp [cost, hin]

theorem cost_simple {prog : Prog} {L : Nat} {fwd : Bool} {s : State} {i : Insn}
    (hin : prog.insns[s.ip]? = some i) (hi : isLookOrLoop1 i = false) :
    cost prog L fwd s = tickB prog.insns.size L s.ip := by
  unfold cost
  rw [hin]
  cases i <;> first | rfl | simp [isLookOrLoop1] at hi

theorem cost_look {prog : Prog} {L : Nat} {fwd : Bool} {s : State} {i : Insn}
    (hin : prog.insns[s.ip]? = some i) (hi : ∀ a b c, i ≠ .loop1 a b c) :
    cost prog L fwd s = tickB prog.insns.size L s.ip := by
  unfold cost
  rw [hin]
  cases i <;> first | rfl | exact absurd rfl (hi _ _ _)

theorem tickB_succ2 {n L ip : Nat} (h : ip < n) :
    tickB n L ip = (L + 3) * (L + 3) * tickB n L (ip + 2) := by
  unfold tickB
  have : n + 1 - ip = (n + 1 - (ip + 2)) + 2 := by omega
  rw [this, Nat.pow_add]
  rw [Nat.mul_comm]
  congr 1
  rw [Nat.pow_succ, Nat.pow_one]

theorem cost_pos (prog : Prog) (L : Nat) (fwd : Bool) (s : State) : 1 ≤ cost prog L fwd s := by
  unfold cost
  split
  · exact Nat.mul_pos (by omega) (by omega)
  · exact tickB_pos _ _ _

theorem cost_le_tickB (prog : Prog) (L : Nat) (fwd : Bool) (s : State) :
    cost prog L fwd s ≤ tickB prog.insns.size L s.ip := by
  unfold cost
  split
  · rename_i hin
    have hlt := lt_size_of_getElem? hin
    rw [tickB_succ2 hlt]
    have hx := tickB_pos prog.insns.size L (s.ip + 2)
    generalize tickB prog.insns.size L (s.ip + 2) = x at hx ⊢
    have hr := rem_le L fwd s.pos
    generalize rem L fwd s.pos = r at hr
    calc (r + 1) * (1 + x) ≤ (L + 1) * (x + x) := Nat.mul_le_mul (by omega) (by omega)
      _ = (2 * (L + 1)) * x := by rw [← Nat.two_mul, Nat.mul_left_comm, Nat.mul_assoc]
      _ ≤ ((L + 3) * (L + 3)) * x :=
          Nat.mul_le_mul_right _ (Nat.mul_le_mul (by omega) (by omega))
  · exact Nat.le_refl _

end Regress.VM.Pk

namespace Regress.VM.Pk
open Regress.VM.Bt (isLoopInsn loopInsn_not_fwd)

/-- The outcome is not `.outOfFuel`, and a `matched`/`failed` outcome used at most `b` ticks. -/
def Outcome.within (b : Nat) : Outcome → Prop
  | .matched _ _ s _ => s ≤ b
  | .failed s _ => s ≤ b
  | .outOfFuel => False
  | .error _ => True

/-- One tick on a state of cost `c` (counter `steps` after the tick): the new states cost less, and
the ticks used by a nested attempt are paid for. -/
def SM.Ok (C : State → Nat) (steps c : Nat) : SM → Prop
  | .fail _ st _ => st + 1 ≤ steps + c
  | .complete _ st _ => st + 1 ≤ steps + c
  | .cont s' st _ => C s' + 1 ≤ c ∧ st + C s' + 1 ≤ steps + c
  | .split s1 s2 st _ => C s1 + C s2 + 1 ≤ c ∧ st + C s1 + C s2 + 1 ≤ steps + c
  | .outOfFuel => False
  | .err _ => True

/-- What the termination argument needs from the nested-attempt runner. -/
def Runner.Terminates (prog : Prog) (L : Nat) (sf limit : Nat) (look : Runner) : Prop :=
  ∀ s0 dfwd st pk, cost prog L dfwd s0 + 1 ≤ sf → st + cost prog L dfwd s0 ≤ limit →
    (look s0 dfwd st pk).within (st + cost prog L dfwd s0)

section
variable {prog : Prog} {inp : Input}

theorem lookArm_ok {look : Runner} {sf limit : Nat}
    (hl : look.Terminates prog inp.bytes.size sf limit) {s : State} {fwd : Bool} {steps peak : Nat}
    (dirFwd negate : Bool) (k : Nat) (hlt : s.ip < prog.insns.size) (hk : s.ip < k)
    (hc : cost prog inp.bytes.size fwd s = tickB prog.insns.size inp.bytes.size s.ip)
    (hsf : cost prog inp.bytes.size fwd s ≤ sf)
    (hlim : steps + cost prog inp.bytes.size fwd s ≤ limit + 1) :
    (lookArm look dirFwd negate k s steps peak).Ok (cost prog inp.bytes.size fwd) steps
      (cost prog inp.bytes.size fwd s) := by
  rw [hc] at hsf hlim ⊢
  have hsucc := tickB_succ (L := inp.bytes.size) hlt
  have hanti := tickB_anti prog.insns.size inp.bytes.size (show s.ip + 1 ≤ k by omega)
  have hB1 := tickB_pos prog.insns.size inp.bytes.size (s.ip + 1)
  have e1 : (inp.bytes.size + 3) * tickB prog.insns.size inp.bytes.size (s.ip + 1)
      = inp.bytes.size * tickB prog.insns.size inp.bytes.size (s.ip + 1)
        + 3 * tickB prog.insns.size inp.bytes.size (s.ip + 1) := by rw [Nat.add_mul]
  have hc1 := cost_le_tickB prog inp.bytes.size dirFwd { s with ip := s.ip + 1 }
  simp only [] at hc1
  have hn := hl { s with ip := s.ip + 1 } dirFwd steps peak (by omega) (by omega)
  unfold lookArm
  simp only []
  cases hr : look { s with ip := s.ip + 1 } dirFwd steps peak with
  | error e => simp [SM.Ok]
  | outOfFuel => rw [hr] at hn; exact hn
  | matched p s' st2 pk2 =>
    rw [hr] at hn; simp only [Outcome.within] at hn
    simp only []
    split
    · have hck := cost_le_tickB prog inp.bytes.size fwd { s' with ip := k, pos := s.pos }
      simp only [] at hck
      simp only [SM.Ok]; omega
    · simp only [SM.Ok]; omega
  | failed st2 pk2 =>
    rw [hr] at hn; simp only [Outcome.within] at hn
    simp only []
    split
    · have hck := cost_le_tickB prog inp.bytes.size fwd
        { s with ip := k, pos := s.pos }
      simp only [] at hck
      simp only [SM.Ok]; omega
    · simp only [SM.Ok]; omega

theorem simple_ok (hf : forwardProg prog = true) {s : State} {fwd : Bool} {steps peak : Nat}
    {i : Insn} (hin : prog.insns[s.ip]? = some i) (hi : isLookOrLoop1 i = false) {sm : SM}
    (hs : SimpleSpec prog s steps peak sm) :
    sm.Ok (cost prog inp.bytes.size fwd) steps (cost prog inp.bytes.size fwd s) := by
  rw [cost_simple hin hi]
  have hlt := lt_size_of_getElem? hin
  have hsucc := tickB_succ (L := inp.bytes.size) hlt
  have hB1 := tickB_pos prog.insns.size inp.bytes.size (s.ip + 1)
  have e1 : (inp.bytes.size + 3) * tickB prog.insns.size inp.bytes.size (s.ip + 1)
      = inp.bytes.size * tickB prog.insns.size inp.bytes.size (s.ip + 1)
        + 3 * tickB prog.insns.size inp.bytes.size (s.ip + 1) := by rw [Nat.add_mul]
  cases hs with
  | err => simp [SM.Ok]
  | fail => simp only [SM.Ok]; omega
  | complete => simp only [SM.Ok]; omega
  | next _ s' hip =>
    have := cost_le_tickB prog inp.bytes.size fwd s'
    rw [hip] at this
    simp only [SM.Ok]; omega
  | jump t hj s' hip =>
    have hfw := forwardProg_insn hf hj
    simp only [fwdInsn, decide_eq_true_eq] at hfw
    have := cost_le_tickB prog inp.bytes.size fwd s'
    rw [hip] at this
    have hanti := tickB_anti prog.insns.size inp.bytes.size (show s.ip + 1 ≤ t by omega)
    simp only [SM.Ok]; omega
  | alt sec ha s1 s2 h1 h2 =>
    have hfw := forwardProg_insn hf ha
    simp only [fwdInsn, decide_eq_true_eq] at hfw
    have c1 := cost_le_tickB prog inp.bytes.size fwd s1
    have c2 := cost_le_tickB prog inp.bytes.size fwd s2
    rw [h1] at c1; rw [h2] at c2
    have hanti := tickB_anti prog.insns.size inp.bytes.size (show s.ip + 1 ≤ sec by omega)
    simp only [SM.Ok]; omega
  | loopI i' hl hli =>
    have := forwardProg_insn hf hl
    rw [loopInsn_not_fwd hli] at this
    simp at this

/-- The tail of the `Loop1CharBody` arm, given what the body did. -/
theorem loop1_tail_ok {s : State} {fwd : Bool} {mn : Nat} {mx : Option Nat} {g : Bool}
    (hin : prog.insns[s.ip]? = some (.loop1 mn mx g))
    (tp : Option Nat) (s2 : State) (steps peak : Nat) (hip : s2.ip = s.ip)
    (htp : ∀ p, tp = some p → MoveOk inp fwd s.pos p) :
    (match tp, decide (s.loop1Iters ≥ mn) with
      | none, false => SM.fail s2 steps peak
      | none, true => .cont { s2 with ip := s.ip + 2, loop1Iters := 0 } steps peak
      | some tp, false => .cont { s2 with pos := tp, loop1Iters := s.loop1Iters + 1 } steps peak
      | some tp, true =>
        if g then
          .split { s2 with ip := s.ip + 2, loop1Iters := 0 }
            { s2 with pos := tp, loop1Iters := s.loop1Iters + 1 } steps peak
        else
          .split { s2 with pos := tp, loop1Iters := s.loop1Iters + 1 }
            { s2 with ip := s.ip + 2, loop1Iters := 0 } steps peak).Ok
      (cost prog inp.bytes.size fwd) steps (cost prog inp.bytes.size fwd s) := by
  rw [cost_loop1 hin]
  have hx := tickB_pos prog.insns.size inp.bytes.size (s.ip + 2)
  -- cost of the exit state
  have hexit : ∀ (q : Nat) (it : Nat), cost prog inp.bytes.size fwd
      { s2 with pos := q, ip := s.ip + 2, loop1Iters := it }
        ≤ tickB prog.insns.size inp.bytes.size (s.ip + 2) := fun q it => cost_le_tickB _ _ _ _
  -- cost of the state that stays at the loop with position `p`
  have hstay : ∀ (p : Nat) (it : Nat), MoveOk inp fwd s.pos p →
      cost prog inp.bytes.size fwd { s2 with pos := p, loop1Iters := it }
        + (1 + tickB prog.insns.size inp.bytes.size (s.ip + 2))
        ≤ (rem inp.bytes.size fwd s.pos + 1) * (1 + tickB prog.insns.size inp.bytes.size (s.ip + 2)) := by
    intro p it hmv
    have hin' : prog.insns[({ s2 with pos := p, loop1Iters := it } : State).ip]?
        = some (.loop1 mn mx g) := by simp only [hip]; exact hin
    rw [cost_loop1 hin']
    simp only [hip]
    have hlt := rem_lt_of_moveOk hmv
    have := Nat.mul_le_mul_right (1 + tickB prog.insns.size inp.bytes.size (s.ip + 2))
      (show rem inp.bytes.size fwd p + 1 + 1 ≤ rem inp.bytes.size fwd s.pos + 1 by omega)
    rw [Nat.add_mul _ 1, Nat.one_mul] at this
    exact this
  have hone : 1 * (1 + tickB prog.insns.size inp.bytes.size (s.ip + 2))
      ≤ (rem inp.bytes.size fwd s.pos + 1) * (1 + tickB prog.insns.size inp.bytes.size (s.ip + 2)) :=
    Nat.mul_le_mul_right _ (by omega)
  rw [Nat.one_mul] at hone
  cases tp with
  | none =>
    cases decide (s.loop1Iters ≥ mn) with
    | false => simp only [SM.Ok]; omega
    | true =>
      have := hexit s2.pos 0
      simp only [SM.Ok]; omega
  | some p =>
    have hmv := htp p rfl
    cases decide (s.loop1Iters ≥ mn) with
    | false =>
      have := hstay p (s.loop1Iters + 1) hmv
      simp only [SM.Ok]; omega
    | true =>
      have h1 := hstay p (s.loop1Iters + 1) hmv
      have h2 := hexit s2.pos 0
      cases g <;> simp only [SM.Ok, if_true, Bool.false_eq_true, if_false] <;> omega

theorem tryMatchState_ok (hf : forwardProg prog = true) (hl1 : loop1Scm prog = true)
    {look : Runner} {sf limit : Nat} (hl : look.Terminates prog inp.bytes.size sf limit)
    (d : Nat) (s : State) (fwd : Bool) (steps peak : Nat)
    (hsf : cost prog inp.bytes.size fwd s ≤ sf)
    (hlim : steps + cost prog inp.bytes.size fwd s ≤ limit + 1) :
    (tryMatchState prog inp look d s fwd steps peak).Ok (cost prog inp.bytes.size fwd) steps
      (cost prog inp.bytes.size fwd s) := by
  cases d with
  | zero => simp [tryMatchState, SM.Ok]
  | succ d =>
    cases hin : prog.insns[s.ip]? with
    | none => simp [tryMatchState, hin, SM.Ok]
    | some i =>
      by_cases hi : isLookOrLoop1 i = false
      · exact simple_ok hf hin hi (tryMatchState_simple hin hi)
      · have hlt := lt_size_of_getElem? hin
        cases i with
        | lookahead n sg eg k =>
          have hfw := forwardProg_insn hf hin
          simp only [fwdInsn, decide_eq_true_eq] at hfw
          have hc := cost_look (L := inp.bytes.size) (fwd := fwd) hin (by intro a b c h; cases h)
          unfold tryMatchState; simp only [hin]
          exact lookArm_ok hl true n k hlt hfw hc hsf hlim
        | lookbehind n sg eg k =>
          have hfw := forwardProg_insn hf hin
          simp only [fwdInsn, decide_eq_true_eq] at hfw
          have hc := cost_look (L := inp.bytes.size) (fwd := fwd) hin (by intro a b c h; cases h)
          unfold tryMatchState; simp only [hin]
          exact lookArm_ok hl false n k hlt hfw hc hsf hlim
        | loop1 mn mx g =>
          obtain ⟨b, hbin, hb⟩ := loop1Scm_body hl1 hin
          unfold tryMatchState; simp only [hin]
          by_cases hlt' : Bt.ltMax s.loop1Iters mx = true
          · simp only [hlt', if_true]
            cases d with
            | zero => simp [tryMatchState, SM.Ok]
            | succ d =>
              have hbody := tryMatchState_body (inp := inp) (look := look) (d := d)
                (s := { s with ip := s.ip + 1 }) (fwd := fwd) (steps := steps) (peak := peak)
                hbin hb
              generalize tryMatchState prog inp look (d + 1) { s with ip := s.ip + 1 } fwd steps peak
                = r at hbody
              cases hbody with
              | err e => simp [SM.Ok]
              | fail s' =>
                simp only []
                exact loop1_tail_ok hin none _ steps peak rfl (by intro p hp; cases hp)
              | cont s' hmv =>
                simp only []
                exact loop1_tail_ok hin (some s'.pos) _ steps peak rfl
                  (by intro p hp; cases hp; exact hmv)
          · simp only [hlt']
            exact loop1_tail_ok hin none s steps peak rfl (by intro p hp; cases hp)
        | _ => simp [isLookOrLoop1] at hi

end

/-- The potential of a state stack. -/
def costSum (prog : Prog) (L : Nat) (fwd : Bool) (states : Array State) : Nat :=
  (states.toList.map (cost prog L fwd)).sum

theorem costSum_push (prog : Prog) (L : Nat) (fwd : Bool) (states : Array State) (s : State) :
    costSum prog L fwd (states.push s) = costSum prog L fwd states + cost prog L fwd s := by
  simp [costSum, List.sum_append]

theorem Outcome.within_mono {a b : Nat} (h : a ≤ b) {o : Outcome} (ho : o.within a) : o.within b := by
  cases o <;> simp only [Outcome.within] at ho ⊢ <;> omega

theorem runStates_terminates (prog : Prog) (hf : forwardProg prog = true)
    (hl1 : loop1Scm prog = true) (inp : Input) (limit : Nat) :
    ∀ (sf : Nat) (states : Array State) (fwd : Bool) (steps peak : Nat),
      costSum prog inp.bytes.size fwd states + 1 ≤ sf →
      steps + costSum prog inp.bytes.size fwd states ≤ limit →
      (runStates prog inp limit sf states fwd steps peak).within
        (steps + costSum prog inp.bytes.size fwd states) := by
  intro sf
  induction sf with
  | zero => intro states fwd steps peak h1 _; omega
  | succ sf ih =>
    intro states fwd steps peak h1 h2
    simp only [runStates]
    cases hb : states.back? with
    | none => simp only [Outcome.within]; omega
    | some s =>
      obtain ⟨rest, rfl⟩ := Array.back?_eq_some_iff.mp hb
      rw [costSum_push] at h1 h2 ⊢
      have hc := cost_pos prog inp.bytes.size fwd s
      simp only []
      have hlim : ¬ steps ≥ limit := by omega
      simp only [hlim, if_false]
      generalize (if peak < (rest.push s).size then (rest.push s).size else peak) = peak1
      have hl : Runner.Terminates prog inp.bytes.size sf limit
          (fun s0 dirFwd steps peak => runStates prog inp limit sf #[s0] dirFwd steps peak) := by
        intro s0 dfwd st pk hh1 hh2
        have e : costSum prog inp.bytes.size dfwd #[s0] = cost prog inp.bytes.size dfwd s0 := by
          simp [costSum]
        have := ih #[s0] dfwd st pk (by rw [e]; exact hh1) (by rw [e]; exact hh2)
        rw [e] at this
        exact this
      have hok := tryMatchState_ok hf hl1 hl (prog.insns.size + 1) s fwd (steps + 1) peak1
        (by omega) (by omega)
      cases hr : tryMatchState prog inp
          (fun s0 dirFwd steps peak => runStates prog inp limit sf #[s0] dirFwd steps peak)
          (prog.insns.size + 1) s fwd (steps + 1) peak1 with
      | err e => simp [Outcome.within]
      | outOfFuel => rw [hr] at hok; exact hok
      | complete s2 st2 pk2 =>
        rw [hr] at hok; simp only [SM.Ok] at hok
        simp only [Outcome.within]; omega
      | fail s2 st2 pk2 =>
        rw [hr] at hok; simp only [SM.Ok] at hok
        simp only [Array.pop_push]
        exact Outcome.within_mono (by omega) (ih rest fwd st2 pk2 (by omega) (by omega))
      | cont s2 st2 pk2 =>
        rw [hr] at hok; simp only [SM.Ok] at hok
        simp only [Array.pop_push]
        have := ih (rest.push s2) fwd st2 pk2 (by rw [costSum_push]; omega)
          (by rw [costSum_push]; omega)
        rw [costSum_push] at this
        exact Outcome.within_mono (by omega) this
      | split s2 new st2 pk2 =>
        rw [hr] at hok; simp only [SM.Ok] at hok
        simp only [Array.pop_push]
        have := ih ((rest.push s2).push new) fwd st2 pk2
          (by rw [costSum_push, costSum_push]; omega) (by rw [costSum_push, costSum_push]; omega)
        rw [costSum_push, costSum_push] at this
        exact Outcome.within_mono (by omega) this

theorem tryAtPos_terminates (prog : Prog) (hf : forwardProg prog = true)
    (hl1 : loop1Scm prog = true) (inp : Input) (fuel : Nat) (init : State) (fwd : Bool)
    (h : tickB prog.insns.size inp.bytes.size init.ip ≤ fuel) :
    (tryAtPos prog inp fuel init fwd).within (tickB prog.insns.size inp.bytes.size init.ip) := by
  have e : costSum prog inp.bytes.size fwd #[init] = cost prog inp.bytes.size fwd init := by
    simp [costSum]
  have hc := cost_le_tickB prog inp.bytes.size fwd init
  have := runStates_terminates prog hf hl1 inp fuel (fuel + 1) #[init] fwd 0 0
    (by rw [e]; omega) (by rw [e]; omega)
  rw [e] at this
  exact Outcome.within_mono (by omega) this

theorem Outcome.within_ne {b : Nat} {o : Outcome} (h : o.within b) : o ≠ .outOfFuel := by
  intro hc; subst hc; exact h

end Regress.VM.Pk

namespace Regress.VM.Pk
open Regress.VM.Bt (LoopData)

/-! ## (d) Programs with general loops (PikeVM): the lexicographic rank -/

/-- Largest value of the digit of an instruction. -/
def digitMax : Insn → Nat
  | .enterLoop _ mn _ _ _ => 2 * (mn + 1) + 1
  | _ => 0

/-- What a loop still may do: `2 * (free iterations left) + (1 if the position moved since entry)`. -/
def loopActual (mn : Nat) (pos : Nat) : Option LoopData → Nat
  | some ld => 2 * (mn + 1 - ld.iters) + (if ld.entry = pos then 0 else 1)
  | none => 0

/-- The digit of the instruction `i` at index `j` in the configuration `(ip, pos, loops)`:
for `enterLoop`: maximal while `ip ≤ j` (the loop is still ahead), `loopActual` inside the body,
`0` after the loop. -/
def digit (j : Nat) (i : Insn) (ip pos : Nat) (loops : Array LoopData) : Nat :=
  match i with
  | .enterLoop id mn _ _ exit =>
    if ip ≤ j then 2 * (mn + 1) + 1
    else if ip < exit then loopActual mn pos loops[id]?
    else 0
  | _ => 0

theorem loopActual_le (mn pos : Nat) (o : Option LoopData) : loopActual mn pos o ≤ 2 * (mn + 1) + 1 := by
  cases o with
  | none => simp [loopActual]
  | some ld => simp only [loopActual]; split <;> omega

theorem digit_le_max (j : Nat) (i : Insn) (ip pos : Nat) (loops : Array LoopData) :
    digit j i ip pos loops ≤ digitMax i := by
  cases i <;> simp only [digit, digitMax, Nat.le_refl]
  rename_i id mn mx g exit
  split
  · omega
  · split
    · exact loopActual_le _ _ _
    · omega

/-- Monotonicity in `ip` (same position and loop data). -/
theorem digit_mono_ip (j : Nat) (i : Insn) {ip ip' : Nat} (h : ip ≤ ip') (pos : Nat)
    (loops : Array LoopData) : digit j i ip' pos loops ≤ digit j i ip pos loops := by
  cases i <;> simp only [digit, Nat.le_refl]
  rename_i id mn mx g exit
  by_cases h1 : ip' ≤ j
  · have : ip ≤ j := by omega
    simp [h1, this]
  · by_cases h0 : ip ≤ j
    · simp only [h1, h0, if_true, if_false]
      split
      · exact loopActual_le _ _ _
      · omega
    · simp only [h1, h0, if_false]
      by_cases h2 : ip' < exit
      · have : ip < exit := by omega
        simp [h2, this]
      · simp [h2]

/-- Product of the radices from an instruction list on (the last radix `n + 1` is for `n - ip`). -/
def wFrom (n : Nat) : List Insn → Nat
  | [] => n + 1
  | i :: is => (digitMax i + 1) * wFrom n is

/-- Mixed-radix encoding of the digits of `is` (first instruction at index `j`), then `n - ip`. -/
def encFrom (n ip pos : Nat) (loops : Array LoopData) : Nat → List Insn → Nat
  | _, [] => n - ip
  | j, i :: is => digit j i ip pos loops * wFrom n is + encFrom n ip pos loops (j + 1) is

theorem wFrom_pos (n : Nat) (is : List Insn) : 1 ≤ wFrom n is := by
  induction is with
  | nil => simp [wFrom]
  | cons i is ih => simp only [wFrom]; exact Nat.mul_pos (by omega) ih

theorem encFrom_lt (n ip pos : Nat) (loops : Array LoopData) : ∀ (is : List Insn) (j : Nat),
    encFrom n ip pos loops j is < wFrom n is := by
  intro is
  induction is with
  | nil => intro j; simp only [encFrom, wFrom]; omega
  | cons i is ih =>
    intro j
    simp only [encFrom, wFrom]
    have h1 := ih (j + 1)
    have h2 := digit_le_max j i ip pos loops
    have h3 := Nat.mul_le_mul_right (wFrom n is) h2
    rw [Nat.add_mul, Nat.one_mul]
    omega

/-- Lexicographic decrease, case "all digits `≤`, and `ip` increased". -/
theorem encFrom_lt_of_le (n : Nat) {ip pos ip' pos' : Nat} {loops loops' : Array LoopData}
    (hip : n - ip' < n - ip) : ∀ (is : List Insn) (j0 : Nat),
    (∀ k i, is[k]? = some i → digit (j0 + k) i ip' pos' loops' ≤ digit (j0 + k) i ip pos loops) →
    encFrom n ip' pos' loops' j0 is < encFrom n ip pos loops j0 is := by
  intro is
  induction is with
  | nil => intro j0 _; simpa [encFrom] using hip
  | cons i is ih =>
    intro j0 hle
    simp only [encFrom]
    have h0 := hle 0 i (by simp)
    rw [Nat.add_zero] at h0
    have hrec := ih (j0 + 1) (by
      intro k i' hk
      have := hle (k + 1) i' (by simpa using hk)
      rwa [show j0 + (k + 1) = j0 + 1 + k by omega] at this)
    have := Nat.mul_le_mul_right (wFrom n is) h0
    omega

/-- Lexicographic decrease, case "digits before index `b` are `≤`, digit `b` is `<`". -/
theorem encFrom_lt_of_digit (n : Nat) {ip pos ip' pos' : Nat} {loops loops' : Array LoopData} :
    ∀ (is : List Insn) (j0 b : Nat) (ib : Insn), is[b]? = some ib →
    digit (j0 + b) ib ip' pos' loops' < digit (j0 + b) ib ip pos loops →
    (∀ k i, k < b → is[k]? = some i → digit (j0 + k) i ip' pos' loops' ≤ digit (j0 + k) i ip pos loops) →
    encFrom n ip' pos' loops' j0 is < encFrom n ip pos loops j0 is := by
  intro is
  induction is with
  | nil => intro j0 b ib h; simp at h
  | cons i is ih =>
    intro j0 b ib hb hlt hle
    simp only [encFrom]
    have hbound := encFrom_lt n ip' pos' loops' is (j0 + 1)
    cases b with
    | zero =>
      simp only [List.getElem?_cons_zero, Option.some.injEq] at hb
      subst hb
      rw [Nat.add_zero] at hlt
      have := Nat.mul_le_mul_right (wFrom n is) (show digit j0 i ip' pos' loops' + 1 ≤ digit j0 i ip pos loops from hlt)
      rw [Nat.add_mul, Nat.one_mul] at this
      omega
    | succ b =>
      have h0 := hle 0 i (by omega) (by simp)
      rw [Nat.add_zero] at h0
      have hrec := ih (j0 + 1) b ib (by simpa using hb)
        (by rwa [show j0 + (b + 1) = j0 + 1 + b by omega] at hlt)
        (by
          intro k i' hk hki
          have := hle (k + 1) i' (by omega) (by simpa using hki)
          rwa [show j0 + (k + 1) = j0 + 1 + k by omega] at this)
      have := Nat.mul_le_mul_right (wFrom n is) h0
      omega

end Regress.VM.Pk

namespace Regress.VM.Pk
open Regress.VM.Bt (LoopData)

/-- The rank of a state: `(rem pos, digits of all instructions…, n - ip)` in mixed radix. Every tick
replaces a state by states of smaller rank. -/
def rank (prog : Prog) (L : Nat) (fwd : Bool) (s : State) : Nat :=
  rem L fwd s.pos * wFrom prog.insns.size prog.insns.toList
    + encFrom prog.insns.size s.ip s.pos s.loops 0 prog.insns.toList

/-- `rank s < rankBound prog L`. -/
def rankBound (prog : Prog) (L : Nat) : Nat := (L + 1) * wFrom prog.insns.size prog.insns.toList

theorem rank_lt_bound (prog : Prog) (L : Nat) (fwd : Bool) (s : State) :
    rank prog L fwd s < rankBound prog L := by
  unfold rank rankBound
  have h1 := encFrom_lt prog.insns.size s.ip s.pos s.loops prog.insns.toList 0
  have h2 := Nat.mul_le_mul_right (wFrom prog.insns.size prog.insns.toList) (rem_le L fwd s.pos)
  rw [Nat.add_mul, Nat.one_mul]
  omega

theorem rank_lt_of_rem {prog : Prog} {L : Nat} {fwd : Bool} {s s' : State}
    (h : rem L fwd s'.pos < rem L fwd s.pos) : rank prog L fwd s' < rank prog L fwd s := by
  unfold rank
  have h1 := encFrom_lt prog.insns.size s'.ip s'.pos s'.loops prog.insns.toList 0
  have h2 := Nat.mul_le_mul_right (wFrom prog.insns.size prog.insns.toList)
    (show rem L fwd s'.pos + 1 ≤ rem L fwd s.pos from h)
  rw [Nat.add_mul, Nat.one_mul] at h2
  omega

theorem rank_lt_of_le {prog : Prog} {L : Nat} {fwd : Bool} {s s' : State}
    (hpos : s'.pos = s.pos) (hip : s.ip < s'.ip) (hlt : s.ip < prog.insns.size)
    (hle : ∀ j i, prog.insns[j]? = some i →
      digit j i s'.ip s'.pos s'.loops ≤ digit j i s.ip s.pos s.loops) :
    rank prog L fwd s' < rank prog L fwd s := by
  unfold rank
  rw [hpos]
  have := encFrom_lt_of_le prog.insns.size (ip := s.ip) (pos := s.pos) (ip' := s'.ip)
    (pos' := s'.pos) (loops := s.loops) (loops' := s'.loops) (by omega) prog.insns.toList 0
    (by intro k i hk; rw [Nat.zero_add]; exact hle k i (by simpa using hk))
  rw [hpos] at this
  omega

theorem rank_lt_of_digit {prog : Prog} {L : Nat} {fwd : Bool} {s s' : State}
    (hpos : s'.pos = s.pos) {b : Nat} {ib : Insn} (hb : prog.insns[b]? = some ib)
    (hlt : digit b ib s'.ip s'.pos s'.loops < digit b ib s.ip s.pos s.loops)
    (hle : ∀ j i, j < b → prog.insns[j]? = some i →
      digit j i s'.ip s'.pos s'.loops ≤ digit j i s.ip s.pos s.loops) :
    rank prog L fwd s' < rank prog L fwd s := by
  unfold rank
  rw [hpos]
  have := encFrom_lt_of_digit prog.insns.size (ip := s.ip) (pos := s.pos) (ip' := s'.ip)
    (pos' := s'.pos) (loops := s.loops) (loops' := s'.loops) prog.insns.toList 0 b ib
    (by simpa using hb) (by rw [Nat.zero_add]; exact hlt)
    (by intro k i hk hki; rw [Nat.zero_add]; exact hle k i hk (by simpa using hki))
  rw [hpos] at this
  omega

/-! ### The structural hypothesis -/

/-- Per-instruction clause of `loopProg`. -/
def loopInsnOk (prog : Prog) (j : Nat) : Insn → Bool
  | .jump t => decide (j < t)
  | .alt s => decide (j < s)
  | .lookahead .. => false
  | .lookbehind .. => false
  | .enterLoop id _ _ _ exit =>
    decide (j < exit) &&
    (List.range prog.insns.size).all (fun j' =>
      j' == j ||
      match prog.insns[j']? with
      | some (.enterLoop id' _ _ _ _) => id' != id
      | _ => true)
  | .loopAgain b =>
    decide (b < j) &&
    (match prog.insns[b]? with
     | some (.enterLoop _ _ _ _ exit) =>
       decide (j < exit) &&
       (List.range b).all (fun j'' =>
         match prog.insns[j'']? with
         | some (.enterLoop _ _ _ _ exit'') => !decide (b + 1 < exit'') || decide (j < exit'')
         | _ => true)
     | _ => false)
  | _ => true

/-- Forward jumps/alternations, no look-arounds, and properly nested general loops: every
`enterLoop` at `j` has `exit > j` and a loop id of its own; every `loopAgain b` at `j` has `b < j`,
`insns[b]` is an `enterLoop` whose `exit > j`, and every earlier loop whose body contains `b + 1`
also contains `j`. -/
def loopProg (prog : Prog) : Bool :=
  (List.range prog.insns.size).all (fun j =>
    match prog.insns[j]? with
    | some i => loopInsnOk prog j i
    | none => true)

theorem loopProg_insn {prog : Prog} (hf : loopProg prog = true) {j : Nat} {i : Insn}
    (h : prog.insns[j]? = some i) : loopInsnOk prog j i = true := by
  have hlt := lt_size_of_getElem? h
  unfold loopProg at hf
  rw [List.all_eq_true] at hf
  have := hf j (List.mem_range.mpr hlt)
  simpa [h] using this

theorem loopProg_enterLoop {prog : Prog} (hf : loopProg prog = true) {j id mn mx g exit}
    (h : prog.insns[j]? = some (Insn.enterLoop id mn mx g exit)) :
    j < exit ∧ ∀ j' id' mn' mx' g' exit', prog.insns[j']? = some (Insn.enterLoop id' mn' mx' g' exit') →
      j' ≠ j → id' ≠ id := by
  have := loopProg_insn hf h
  simp only [loopInsnOk, Bool.and_eq_true, decide_eq_true_eq, List.all_eq_true, List.mem_range,
    Bool.or_eq_true, beq_iff_eq] at this
  refine ⟨this.1, ?_⟩
  intro j' id' mn' mx' g' exit' h' hne
  have h2 := this.2 j' (lt_size_of_getElem? h')
  rcases h2 with h2 | h2
  · exact absurd h2 hne
  · simpa [h'] using h2

theorem loopProg_loopAgain {prog : Prog} (hf : loopProg prog = true) {j b}
    (h : prog.insns[j]? = some (Insn.loopAgain b)) :
    b < j ∧ ∃ id mn mx g exit, prog.insns[b]? = some (Insn.enterLoop id mn mx g exit) ∧ j < exit ∧
      ∀ j'' id'' mn'' mx'' g'' exit'', j'' < b →
        prog.insns[j'']? = some (Insn.enterLoop id'' mn'' mx'' g'' exit'') → b + 1 < exit'' → j < exit'' := by
  have := loopProg_insn hf h
  simp only [loopInsnOk, Bool.and_eq_true, decide_eq_true_eq] at this
  refine ⟨this.1, ?_⟩
  have h2 := this.2
  split at h2
  · rename_i id mn mx g exit hb
    simp only [Bool.and_eq_true, decide_eq_true_eq, List.all_eq_true, List.mem_range] at h2
    refine ⟨id, mn, mx, g, exit, hb, h2.1, ?_⟩
    intro j'' id'' mn'' mx'' g'' exit'' hlt h'' hin
    have := h2.2 j'' hlt
    simp only [h'', Bool.or_eq_true, Bool.not_eq_true', decide_eq_false_iff_not, decide_eq_true_eq] at this
    rcases this with h3 | h3
    · exact absurd hin h3
    · exact h3
  · simp at h2

end Regress.VM.Pk

namespace Regress.VM.Pk
open Regress.VM.Bt (LoopData)

/-! ### What a plain instruction does to `ip`, `pos` and the loop data -/

/-- `p = pos`, or a strict move inside the input. -/
def Adv (inp : Input) (fwd : Bool) (pos p : Nat) : Prop := p = pos ∨ MoveOk inp fwd pos p

theorem MoveOk.trans {inp : Input} {fwd : Bool} {a b c : Nat} (h1 : MoveOk inp fwd a b)
    (h2 : MoveOk inp fwd b c) : MoveOk inp fwd a c := by
  refine ⟨fun hf => ?_, fun hf => ?_⟩
  · have := h1.1 hf; have := h2.1 hf; omega
  · have := h1.2 hf; have := h2.2 hf; omega

theorem Adv.trans {inp : Input} {fwd : Bool} {a b c : Nat} (h1 : Adv inp fwd a b)
    (h2 : Adv inp fwd b c) : Adv inp fwd a c := by
  rcases h1 with rfl | h1
  · exact h2
  · rcases h2 with rfl | h2
    · exact .inr h1
    · exact .inr (MoveOk.trans h1 h2)

theorem matchBytes_adv {inp : Input} {fwd : Bool} {pos p : Nat} {lit : List Nat}
    (h : inp.matchBytes fwd pos lit = some p) : Adv inp fwd pos p := by
  by_cases hl : lit = []
  · subst hl
    left
    unfold Input.matchBytes Utf8.matchBytes Utf8.tryMoveRight Utf8.tryMoveLeft at h
    cases fwd <;> simp at h <;> omega
  · exact .inr (matchBytes_ok hl h)

theorem backref_adv {inp : Input} {fwd : Bool} {rs re pos p : Nat}
    (h : backref inp fwd rs re pos = some p) : Adv inp fwd pos p := by
  unfold backref Input.subrangeEq at h
  split at h
  · simp at h
  · exact matchBytes_adv (lit := Utf8.slice inp.bytes rs re) h

theorem backrefIcaseLoop_adv (inp ref : Input) (fwd : Bool) : ∀ (fuel refPos pos p : Nat),
    backrefIcaseLoop inp ref fwd fuel refPos pos = .ok (some p) → Adv inp fwd pos p := by
  intro fuel
  induction fuel with
  | zero => intro refPos pos p h; simp [backrefIcaseLoop] at h
  | succ fuel ih =>
    intro refPos pos p h
    unfold backrefIcaseLoop at h
    split at h
    · simp at h
    · simp at h; exact .inl h.symm
    · split at h
      · simp at h
      · simp at h
      · rename_i hn
        split at h
        · exact Adv.trans (.inr (cursor_next_ok hn)) (ih _ _ _ h)
        · simp at h

theorem backrefIcase_adv {inp : Input} {fwd : Bool} {rs re pos p : Nat}
    (h : backrefIcase inp fwd rs re pos = .ok (some p)) : Adv inp fwd pos p := by
  unfold backrefIcase at h
  split at h
  · simp at h
  · exact backrefIcaseLoop_adv _ _ _ _ _ _ _ h

/-- Instructions other than look-arounds, `loop1`, `enterLoop`, `loopAgain`. -/
def isPlain : Insn → Bool
  | .lookahead .. => false
  | .lookbehind .. => false
  | .loop1 .. => false
  | .enterLoop .. => false
  | .loopAgain _ => false
  | _ => true

inductive FullSpec (prog : Prog) (inp : Input) (s : State) (fwd : Bool) (steps peak : Nat) : SM → Prop
  | err (e) : FullSpec prog inp s fwd steps peak (.err e)
  | fail (s' : State) (hl : s'.loops = s.loops) : FullSpec prog inp s fwd steps peak (.fail s' steps peak)
  | complete (h : prog.insns[s.ip]? = some .goal) : FullSpec prog inp s fwd steps peak (.complete s steps peak)
  | next (s' : State) (hip : s'.ip = s.ip + 1) (hl : s'.loops = s.loops)
      (hp : Adv inp fwd s.pos s'.pos) : FullSpec prog inp s fwd steps peak (.cont s' steps peak)
  | jump (t) (h : prog.insns[s.ip]? = some (.jump t)) (s' : State) (hip : s'.ip = t)
      (hl : s'.loops = s.loops) (hp : s'.pos = s.pos) :
      FullSpec prog inp s fwd steps peak (.cont s' steps peak)
  | alt (sec) (h : prog.insns[s.ip]? = some (.alt sec)) (s1 s2 : State) (h1 : s1.ip = sec)
      (h2 : s2.ip = s.ip + 1) (hl1 : s1.loops = s.loops) (hl2 : s2.loops = s.loops)
      (hp1 : s1.pos = s.pos) (hp2 : s2.pos = s.pos) :
      FullSpec prog inp s fwd steps peak (.split s1 s2 steps peak)

section
variable {prog : Prog} {inp : Input} {s : State} {fwd : Bool} {steps peak : Nat}

theorem nextOrFail_full (b : Bool) (s1 : State) (h1 : s1.ip = s.ip) (hl : s1.loops = s.loops)
    (hp : Adv inp fwd s.pos s1.pos) :
    FullSpec prog inp s fwd steps peak (nextOrFail b s1 steps peak) := by
  unfold nextOrFail; split
  · exact .next _ (by simp [h1]) hl hp
  · exact .fail _ hl

theorem nextElemArm_full (f site) :
    FullSpec prog inp s fwd steps peak (nextElemArm inp fwd s f site steps peak) := by
  unfold nextElemArm; split
  · exact .err _
  · exact .fail _ rfl
  · rename_i hn
    split
    · exact .err _
    · exact nextOrFail_full _ _ rfl rfl (.inr (cursor_next_ok hn))

theorem scmArm_full (r site) (h : ∀ p, r = .ok (some p) → Adv inp fwd s.pos p) :
    FullSpec prog inp s fwd steps peak (scmArm r s site steps peak) := by
  unfold scmArm; split
  · exact .err _
  · exact .fail _ rfl
  · exact .next _ rfl rfl (h _ rfl)

theorem lineArm_full (r m site) :
    FullSpec prog inp s fwd steps peak (lineArm r m s site steps peak) := by
  unfold lineArm; split
  · exact .err _
  · exact nextOrFail_full _ _ rfl rfl (.inl rfl)
  · exact nextOrFail_full _ _ rfl rfl (.inl rfl)

theorem wordBoundaryArm_full (f invert) :
    FullSpec prog inp s fwd steps peak (wordBoundaryArm inp f invert s steps peak) := by
  unfold wordBoundaryArm; split
  · exact .err _
  · split
    · exact .err _
    · exact nextOrFail_full _ _ rfl rfl (.inl rfl)

theorem groupArm_full (g upd site) :
    FullSpec prog inp s fwd steps peak (groupArm g upd s site steps peak) := by
  unfold groupArm; split
  · exact .err _
  · exact nextOrFail_full _ _ rfl rfl (.inl rfl)

theorem tryMatchState_full {look : Runner} {d : Nat} {i : Insn}
    (hin : prog.insns[s.ip]? = some i) (hi : isPlain i = true) :
    FullSpec prog inp s fwd steps peak (tryMatchState prog inp look (d + 1) s fwd steps peak) := by
  unfold tryMatchState
  simp only [hin]
  cases i with
  | goal => exact .complete hin
  | justFail => exact .fail _ rfl
  | char c => exact nextElemArm_full _ _
  | charSet v => exact nextElemArm_full _ _
  | byteSeq v =>
    apply scmArm_full
    intro p hp
    simp only [Cursor.tryMatchLit, Except.ok.injEq] at hp
    exact matchBytes_adv hp
  | startOfLine m => exact lineArm_full _ _ _
  | endOfLine m => exact lineArm_full _ _ _
  | matchAny => exact nextElemArm_full _ _
  | matchAnyExceptLineTerminator => exact nextElemArm_full _ _
  | jump t => exact .jump t hin _ rfl rfl rfl
  | alt sec => exact .alt sec hin _ _ rfl rfl rfl rfl rfl rfl
  | beginCaptureGroup g => exact groupArm_full _ _ _
  | endCaptureGroup g => exact groupArm_full _ _ _
  | resetCaptureGroup g => exact groupArm_full _ _ _
  | backRef g icase =>
    simp only []; split
    · exact .err _
    · split
      · split
        · apply scmArm_full; intro p hp; exact backrefIcase_adv hp
        · apply scmArm_full; intro p hp
          simp only [Except.ok.injEq] at hp
          exact backref_adv hp
      · exact nextOrFail_full _ _ rfl rfl (.inl rfl)
  | bracket idx => exact nextElemArm_full _ _
  | asciiBracket bm =>
    apply scmArm_full; intro p hp; exact .inr (Scm.matches_ok rfl hp)
  | byteSet bs =>
    apply scmArm_full; intro p hp; exact .inr (Scm.matches_ok rfl hp)
  | wordBoundary inv => exact wordBoundaryArm_full _ _
  | wordBoundaryUnicodeICase inv => exact wordBoundaryArm_full _ _
  | _ => simp [isPlain] at hi

end
end Regress.VM.Pk

namespace Regress.VM.Pk
open Regress.VM.Bt (LoopData)

/-! ### Every tick lowers the rank -/

theorem pow3_step {a b c : Nat} (ha : a < c) (hb : b < c) : 3 ^ a + 3 ^ b + 1 ≤ 3 ^ c := by
  obtain ⟨c, rfl⟩ : ∃ k, c = k + 1 := ⟨c - 1, by omega⟩
  have h1 : 3 ^ a ≤ 3 ^ c := Nat.pow_le_pow_right (by omega) (by omega)
  have h2 : 3 ^ b ≤ 3 ^ c := Nat.pow_le_pow_right (by omega) (by omega)
  have h3 : 1 ≤ 3 ^ c := Nat.one_le_pow _ _ (by omega)
  rw [Nat.pow_succ]; omega

/-- The cost of a state in the loop argument. -/
def rcost (prog : Prog) (L : Nat) (fwd : Bool) (s : State) : Nat := 3 ^ rank prog L fwd s

theorem rcost_pos (prog : Prog) (L : Nat) (fwd : Bool) (s : State) : 1 ≤ rcost prog L fwd s :=
  Nat.one_le_pow _ _ (by omega)

section
variable {prog : Prog} {inp : Input} {fwd : Bool}

theorem ok_fail (s s' : State) (steps peak : Nat) :
    (SM.fail s' steps peak).Ok (rcost prog inp.bytes.size fwd) steps (rcost prog inp.bytes.size fwd s) := by
  have := rcost_pos prog inp.bytes.size fwd s
  simp only [SM.Ok]; omega

theorem ok_cont {s s' : State} (steps peak : Nat)
    (h : rank prog inp.bytes.size fwd s' < rank prog inp.bytes.size fwd s) :
    (SM.cont s' steps peak).Ok (rcost prog inp.bytes.size fwd) steps (rcost prog inp.bytes.size fwd s) := by
  have := pow3_step h h
  have := rcost_pos prog inp.bytes.size fwd s'
  simp only [SM.Ok, rcost] at *; omega

theorem ok_split {s s1 s2 : State} (steps peak : Nat)
    (h1 : rank prog inp.bytes.size fwd s1 < rank prog inp.bytes.size fwd s)
    (h2 : rank prog inp.bytes.size fwd s2 < rank prog inp.bytes.size fwd s) :
    (SM.split s1 s2 steps peak).Ok (rcost prog inp.bytes.size fwd) steps (rcost prog inp.bytes.size fwd s) := by
  have := pow3_step h1 h2
  simp only [SM.Ok, rcost] at *; omega

/-- A state with the same loop data and position (or a strictly advanced position) and a larger `ip`
has a smaller rank. -/
theorem rank_lt_forward {s s' : State} (hlt : s.ip < prog.insns.size) (hip : s.ip < s'.ip)
    (hl : s'.loops = s.loops) (hp : Adv inp fwd s.pos s'.pos) :
    rank prog inp.bytes.size fwd s' < rank prog inp.bytes.size fwd s := by
  rcases hp with hp | hp
  · apply rank_lt_of_le hp hip hlt
    intro j i _
    rw [hl, hp]
    exact digit_mono_ip j i (by omega) _ _
  · exact rank_lt_of_rem (rem_lt_of_moveOk hp)

theorem plain_ok (hf : loopProg prog = true) {s : State} {steps peak : Nat} {sm : SM}
    (hs : FullSpec prog inp s fwd steps peak sm) (hlt : s.ip < prog.insns.size) :
    sm.Ok (rcost prog inp.bytes.size fwd) steps (rcost prog inp.bytes.size fwd s) := by
  cases hs with
  | err => simp [SM.Ok]
  | fail s' => exact ok_fail _ _ _ _
  | complete =>
    have := rcost_pos prog inp.bytes.size fwd s
    simp only [SM.Ok]; omega
  | next s' hip hl hp => exact ok_cont _ _ (rank_lt_forward hlt (by omega) hl hp)
  | jump t hj s' hip hl hp =>
    have := loopProg_insn hf hj
    simp only [loopInsnOk, decide_eq_true_eq] at this
    exact ok_cont _ _ (rank_lt_forward hlt (by omega) hl (.inl hp))
  | alt sec ha s1 s2 h1 h2 hl1 hl2 hp1 hp2 =>
    have := loopProg_insn hf ha
    simp only [loopInsnOk, decide_eq_true_eq] at this
    exact ok_split _ _ (rank_lt_forward hlt (by omega) hl1 (.inl hp1))
      (rank_lt_forward hlt (by omega) hl2 (.inl hp2))

/-- The tail of the `Loop1CharBody` arm. -/
theorem loop1_tail_ok2 {s : State} {mn : Nat} {g : Bool} (hlt : s.ip < prog.insns.size)
    (tp : Option Nat) (s2 : State) (steps peak : Nat) (_hip : s2.ip = s.ip)
    (hl : s2.loops = s.loops) (hpos : s2.pos = s.pos)
    (htp : ∀ p, tp = some p → MoveOk inp fwd s.pos p) :
    (match tp, decide (s.loop1Iters ≥ mn) with
      | none, false => SM.fail s2 steps peak
      | none, true => .cont { s2 with ip := s.ip + 2, loop1Iters := 0 } steps peak
      | some tp, false => .cont { s2 with pos := tp, loop1Iters := s.loop1Iters + 1 } steps peak
      | some tp, true =>
        if g then
          .split { s2 with ip := s.ip + 2, loop1Iters := 0 }
            { s2 with pos := tp, loop1Iters := s.loop1Iters + 1 } steps peak
        else
          .split { s2 with pos := tp, loop1Iters := s.loop1Iters + 1 }
            { s2 with ip := s.ip + 2, loop1Iters := 0 } steps peak).Ok
      (rcost prog inp.bytes.size fwd) steps (rcost prog inp.bytes.size fwd s) := by
  have hexit : rank prog inp.bytes.size fwd { s2 with ip := s.ip + 2, loop1Iters := 0 }
      < rank prog inp.bytes.size fwd s :=
    rank_lt_forward hlt (by simp) hl (.inl hpos)
  have hstay : ∀ p, MoveOk inp fwd s.pos p →
      rank prog inp.bytes.size fwd { s2 with pos := p, loop1Iters := s.loop1Iters + 1 }
        < rank prog inp.bytes.size fwd s := fun p hmv => rank_lt_of_rem (rem_lt_of_moveOk hmv)
  cases tp with
  | none =>
    cases decide (s.loop1Iters ≥ mn) with
    | false => exact ok_fail _ _ _ _
    | true => exact ok_cont _ _ hexit
  | some p =>
    have hmv := htp p rfl
    cases decide (s.loop1Iters ≥ mn) with
    | false => exact ok_cont _ _ (hstay p hmv)
    | true =>
      cases g
      · simp only [Bool.false_eq_true, if_false]; exact ok_split _ _ (hstay p hmv) hexit
      · simp only [if_true]; exact ok_split _ _ hexit (hstay p hmv)

end
end Regress.VM.Pk

namespace Regress.VM.Pk
open Regress.VM.Bt (LoopData)

theorem digit_set_ne (j : Nat) (i : Insn) (ip pos : Nat) (loops : Array LoopData) (id : Nat)
    (ld : LoopData) (h : ∀ id' mn mx g e, i = Insn.enterLoop id' mn mx g e → id' ≠ id) :
    digit j i ip pos (loops.setIfInBounds id ld) = digit j i ip pos loops := by
  cases i <;> simp only [digit]
  rename_i id' mn mx g e
  have := h id' mn mx g e rfl
  rw [Array.getElem?_setIfInBounds_ne (by omega)]

/-- Going back from `j'` to `b + 1` does not raise the digit of an earlier loop `j'' < b` whose body,
if it contains `b + 1`, also contains `j'`. -/
theorem digit_back {j'' b j' : Nat} (i : Insn) (pos : Nat) (loops : Array LoopData)
    (h1 : j'' < b) (h2 : b < j')
    (hn : ∀ id mn mx g e, i = Insn.enterLoop id mn mx g e → b + 1 < e → j' < e) :
    digit j'' i (b + 1) pos loops ≤ digit j'' i j' pos loops := by
  cases i <;> simp only [digit, Nat.le_refl]
  rename_i id mn mx g e
  have := hn id mn mx g e rfl
  have c1 : ¬ b + 1 ≤ j'' := by omega
  have c2 : ¬ j' ≤ j'' := by omega
  simp only [c1, c2, if_false]
  by_cases h3 : b + 1 < e
  · simp [h3, this h3]
  · simp [h3]

section
variable {prog : Prog} {inp : Input} {fwd : Bool}

/-- Digits of the other instructions after `run_loop` updated the data of loop `id` (the loop at
index `b`). -/
theorem digit_other_set (hf : loopProg prog = true) {b id mn mx g exit}
    (hb : prog.insns[b]? = some (Insn.enterLoop id mn mx g exit)) {j : Nat} {i : Insn}
    (hj : prog.insns[j]? = some i) (hne : j ≠ b) (ip pos : Nat) (loops : Array LoopData)
    (ld : LoopData) :
    digit j i ip pos (loops.setIfInBounds id ld) = digit j i ip pos loops := by
  apply digit_set_ne
  intro id' mn' mx' g' e' hi
  subst hi
  exact (loopProg_enterLoop hf hb).2 j id' mn' mx' g' e' hj hne

/-- `enterLoop` at `s.ip`: the two possible successor states have smaller rank. -/
theorem rank_enterLoop (hf : loopProg prog = true) {s : State} {id mn mx g exit}
    (hin : prog.insns[s.ip]? = some (Insn.enterLoop id mn mx g exit)) {ld : LoopData}
    (hld : s.loops[id]? = some ld) (s' : State) (hpos : s'.pos = s.pos)
    (hl : s'.loops = s.loops.setIfInBounds id { iters := 0, entry := s.pos })
    (hip : s'.ip = s.ip + 1 ∨ s'.ip = exit) :
    rank prog inp.bytes.size fwd s' < rank prog inp.bytes.size fwd s := by
  have hexit := (loopProg_enterLoop hf hin).1
  have hidlt : id < s.loops.size := lt_size_of_getElem? hld
  apply rank_lt_of_digit hpos hin
  · -- the digit of the loop itself
    rw [hl, hpos]
    simp only [digit, Nat.le_refl, if_true]
    have hget : (s.loops.setIfInBounds id { iters := 0, entry := s.pos })[id]?
        = some { iters := 0, entry := s.pos } := by
      simp [hidlt]
    rcases hip with hip | hip
    · rw [hip]
      have c1 : ¬ s.ip + 1 ≤ s.ip := by omega
      simp only [c1, if_false]
      split
      · rw [hget]; simp [loopActual]
      · omega
    · rw [hip]
      have c1 : ¬ exit ≤ s.ip := by omega
      simp [c1]
  · intro j i hj hji
    rw [hl, hpos, digit_other_set hf hin hji (by omega)]
    apply digit_mono_ip
    rcases hip with hip | hip <;> omega

/-- `loopAgain b` at `s.ip`: the two possible successor states have smaller rank. -/
theorem rank_loopAgain (hf : loopProg prog = true) {s : State} {b : Nat}
    (hin : prog.insns[s.ip]? = some (Insn.loopAgain b)) {id mn mx g exit}
    (hb : prog.insns[b]? = some (Insn.enterLoop id mn mx g exit)) {ld : LoopData}
    (hld : s.loops[id]? = some ld)
    (hgo : ¬ (ld.iters + 1 > mn ∧ ld.entry = s.pos))
    (s' : State) (hpos : s'.pos = s.pos)
    (hl : s'.loops = s.loops.setIfInBounds id { iters := ld.iters + 1, entry := s.pos })
    (hip : s'.ip = b + 1 ∨ s'.ip = exit) :
    rank prog inp.bytes.size fwd s' < rank prog inp.bytes.size fwd s := by
  obtain ⟨hbj, id2, mn2, mx2, g2, exit2, hb2, hjexit, hnest⟩ := loopProg_loopAgain hf hin
  rw [hb] at hb2
  simp only [Option.some.injEq, Insn.enterLoop.injEq] at hb2
  obtain ⟨rfl, rfl, rfl, rfl, rfl⟩ := hb2
  have hidlt : id < s.loops.size := lt_size_of_getElem? hld
  have hget : (s.loops.setIfInBounds id { iters := ld.iters + 1, entry := s.pos })[id]?
      = some { iters := ld.iters + 1, entry := s.pos } := by
    simp [hidlt]
  apply rank_lt_of_digit hpos hb
  · rw [hl, hpos]
    simp only [digit]
    have c0 : ¬ s.ip ≤ b := by omega
    simp only [c0, hjexit, if_true, if_false, hld, loopActual]
    rcases hip with hip | hip
    · rw [hip]
      have c1 : ¬ b + 1 ≤ b := by omega
      have c2 : b + 1 < exit := by omega
      simp only [c1, c2, if_true, if_false, hget]
      by_cases he : ld.entry = s.pos
      · have hle : ld.iters + 1 ≤ mn := Nat.le_of_not_gt (fun hc => hgo ⟨hc, he⟩)
        simp only [he, if_true]; omega
      · simp only [he, if_false]; omega
    · rw [hip]
      have c1 : ¬ exit ≤ b := by omega
      simp only [c1, Nat.lt_irrefl, if_false]
      by_cases he : ld.entry = s.pos
      · have hle : ld.iters + 1 ≤ mn := Nat.le_of_not_gt (fun hc => hgo ⟨hc, he⟩)
        simp only [he, if_true]; omega
      · simp only [he, if_false]; omega
  · intro j i hj hji
    rw [hl, hpos, digit_other_set hf hb hji (by omega)]
    rcases hip with hip | hip
    · rw [hip]
      apply digit_back i s.pos s.loops hj hbj
      intro id' mn' mx' g' e' hi hlt
      subst hi
      exact hnest j id' mn' mx' g' e' hj hji hlt
    · rw [hip]; exact digit_mono_ip j i (by omega) _ _

end
end Regress.VM.Pk

namespace Regress.VM.Pk
open Regress.VM.Bt (LoopData)

section
variable {prog : Prog} {inp : Input} {fwd : Bool}

theorem runLoop_init_ok (hf : loopProg prog = true) {s : State} {id mn mx g exit}
    (hin : prog.insns[s.ip]? = some (Insn.enterLoop id mn mx g exit)) (steps peak : Nat) :
    (runLoop s id mn mx g exit true steps peak).Ok (rcost prog inp.bytes.size fwd) steps
      (rcost prog inp.bytes.size fwd s) := by
  unfold runLoop
  cases hld : s.loops[id]? with
  | none => simp [SM.Ok]
  | some ld =>
    have hr := rank_enterLoop (inp := inp) (fwd := fwd) hf hin hld
    simp only [if_true]
    repeat' split
    all_goals first
      | exact ok_fail _ _ _ _
      | exact ok_cont _ _ (hr _ rfl rfl (.inl rfl))
      | exact ok_cont _ _ (hr _ rfl rfl (.inr rfl))
      | exact ok_split _ _ (hr _ rfl rfl (.inr rfl)) (hr _ rfl rfl (.inl rfl))
      | exact ok_split _ _ (hr _ rfl rfl (.inl rfl)) (hr _ rfl rfl (.inr rfl))

theorem runLoop_again_ok (hf : loopProg prog = true) {s : State} {b : Nat}
    (hin : prog.insns[s.ip]? = some (Insn.loopAgain b)) {id mn mx g exit}
    (hb : prog.insns[b]? = some (Insn.enterLoop id mn mx g exit)) (steps peak : Nat) :
    (runLoop { s with ip := b } id mn mx g exit false steps peak).Ok
      (rcost prog inp.bytes.size fwd) steps (rcost prog inp.bytes.size fwd s) := by
  unfold runLoop
  cases hld : s.loops[id]? with
  | none => simp [SM.Ok]
  | some ld =>
    simp only [Bool.false_eq_true, if_false]
    split
    · exact ok_fail _ _ _ _
    · rename_i hc
      have hgo : ¬ (ld.iters + 1 > mn ∧ ld.entry = s.pos) := by
        intro h; apply hc; simp [h.1, h.2]
      have hr := rank_loopAgain (inp := inp) (fwd := fwd) hf hin hb hld hgo
      repeat' split
      all_goals first
        | exact ok_fail _ _ _ _
        | exact ok_cont _ _ (hr _ rfl rfl (.inl rfl))
        | exact ok_cont _ _ (hr _ rfl rfl (.inr rfl))
        | exact ok_split _ _ (hr _ rfl rfl (.inr rfl)) (hr _ rfl rfl (.inl rfl))
        | exact ok_split _ _ (hr _ rfl rfl (.inl rfl)) (hr _ rfl rfl (.inr rfl))

theorem tryMatchState_ok2 (hf : loopProg prog = true) (hl1 : loop1Scm prog = true)
    (look : Runner) (d : Nat) (s : State) (steps peak : Nat) :
    (tryMatchState prog inp look d s fwd steps peak).Ok (rcost prog inp.bytes.size fwd) steps
      (rcost prog inp.bytes.size fwd s) := by
  cases d with
  | zero => simp [tryMatchState, SM.Ok]
  | succ d =>
    cases hin : prog.insns[s.ip]? with
    | none => simp [tryMatchState, hin, SM.Ok]
    | some i =>
      have hlt := lt_size_of_getElem? hin
      by_cases hi : isPlain i = true
      · exact plain_ok hf (tryMatchState_full hin hi) hlt
      · cases i with
        | lookahead n sg eg k =>
          have := loopProg_insn hf hin
          simp [loopInsnOk] at this
        | lookbehind n sg eg k =>
          have := loopProg_insn hf hin
          simp [loopInsnOk] at this
        | enterLoop id mn mx g exit =>
          unfold tryMatchState; simp only [hin]
          exact runLoop_init_ok hf hin steps peak
        | loopAgain b =>
          obtain ⟨_, id, mn, mx, g, exit, hb, _, _⟩ := loopProg_loopAgain hf hin
          unfold tryMatchState; simp only [hin, hb]
          exact runLoop_again_ok hf hin hb steps peak
        | loop1 mn mx g =>
          obtain ⟨b, hbin, hb⟩ := loop1Scm_body hl1 hin
          have hbp : isPlain b = true := by cases b <;> simp [scmAccepted] at hb <;> rfl
          unfold tryMatchState; simp only [hin]
          by_cases hlt' : Bt.ltMax s.loop1Iters mx = true
          · simp only [hlt', if_true]
            cases d with
            | zero => simp [tryMatchState, SM.Ok]
            | succ d =>
              have hbody := tryMatchState_body (inp := inp) (look := look) (d := d)
                (s := { s with ip := s.ip + 1 }) (fwd := fwd) (steps := steps) (peak := peak)
                hbin hb
              have hfull := tryMatchState_full (inp := inp) (look := look) (d := d)
                (s := { s with ip := s.ip + 1 }) (fwd := fwd) (steps := steps) (peak := peak)
                hbin hbp
              generalize tryMatchState prog inp look (d + 1) { s with ip := s.ip + 1 } fwd steps peak
                = r at hbody hfull
              cases hbody with
              | err e => simp [SM.Ok]
              | fail s' =>
                have hl : s'.loops = s.loops := by cases hfull with | fail _ hl => exact hl
                simp only []
                exact loop1_tail_ok2 hlt none _ steps peak rfl hl rfl (by intro p hp; cases hp)
              | cont s' hmv =>
                have hl : s'.loops = s.loops := by
                  cases hfull with
                  | next _ _ hl _ => exact hl
                  | jump _ _ _ _ hl _ => exact hl
                simp only []
                exact loop1_tail_ok2 hlt (some s'.pos) _ steps peak rfl hl rfl
                  (by intro p hp; cases hp; exact hmv)
          · simp only [hlt']
            exact loop1_tail_ok2 hlt none s steps peak rfl rfl rfl (by intro p hp; cases hp)
        | _ => simp [isPlain] at hi

end

/-- The potential of a state stack in the loop argument. -/
def rcostSum (prog : Prog) (L : Nat) (fwd : Bool) (states : Array State) : Nat :=
  (states.toList.map (rcost prog L fwd)).sum

theorem rcostSum_push (prog : Prog) (L : Nat) (fwd : Bool) (states : Array State) (s : State) :
    rcostSum prog L fwd (states.push s) = rcostSum prog L fwd states + rcost prog L fwd s := by
  simp [rcostSum, List.sum_append]

theorem runStates_terminates2 (prog : Prog) (hf : loopProg prog = true)
    (hl1 : loop1Scm prog = true) (inp : Input) (limit : Nat) :
    ∀ (sf : Nat) (states : Array State) (fwd : Bool) (steps peak : Nat),
      rcostSum prog inp.bytes.size fwd states + 1 ≤ sf →
      steps + rcostSum prog inp.bytes.size fwd states ≤ limit →
      (runStates prog inp limit sf states fwd steps peak).within
        (steps + rcostSum prog inp.bytes.size fwd states) := by
  intro sf
  induction sf with
  | zero => intro states fwd steps peak h1 _; omega
  | succ sf ih =>
    intro states fwd steps peak h1 h2
    simp only [runStates]
    cases hb : states.back? with
    | none => simp only [Outcome.within]; omega
    | some s =>
      obtain ⟨rest, rfl⟩ := Array.back?_eq_some_iff.mp hb
      rw [rcostSum_push] at h1 h2 ⊢
      have hc := rcost_pos prog inp.bytes.size fwd s
      simp only []
      have hlim : ¬ steps ≥ limit := by omega
      simp only [hlim, if_false]
      generalize (if peak < (rest.push s).size then (rest.push s).size else peak) = peak1
      have hok := tryMatchState_ok2 (inp := inp) (fwd := fwd) hf hl1
        (fun s0 dirFwd steps peak => runStates prog inp limit sf #[s0] dirFwd steps peak)
        (prog.insns.size + 1) s (steps + 1) peak1
      cases hr : tryMatchState prog inp
          (fun s0 dirFwd steps peak => runStates prog inp limit sf #[s0] dirFwd steps peak)
          (prog.insns.size + 1) s fwd (steps + 1) peak1 with
      | err e => simp [Outcome.within]
      | outOfFuel => rw [hr] at hok; exact hok
      | complete s2 st2 pk2 =>
        rw [hr] at hok; simp only [SM.Ok] at hok
        simp only [Outcome.within]; omega
      | fail s2 st2 pk2 =>
        rw [hr] at hok; simp only [SM.Ok] at hok
        simp only [Array.pop_push]
        exact Outcome.within_mono (by omega) (ih rest fwd st2 pk2 (by omega) (by omega))
      | cont s2 st2 pk2 =>
        rw [hr] at hok; simp only [SM.Ok] at hok
        simp only [Array.pop_push]
        have := ih (rest.push s2) fwd st2 pk2 (by rw [rcostSum_push]; omega)
          (by rw [rcostSum_push]; omega)
        rw [rcostSum_push] at this
        exact Outcome.within_mono (by omega) this
      | split s2 new st2 pk2 =>
        rw [hr] at hok; simp only [SM.Ok] at hok
        simp only [Array.pop_push]
        have := ih ((rest.push s2).push new) fwd st2 pk2
          (by rw [rcostSum_push, rcostSum_push]; omega) (by rw [rcostSum_push, rcostSum_push]; omega)
        rw [rcostSum_push, rcostSum_push] at this
        exact Outcome.within_mono (by omega) this

/-- Explicit tick bound for one attempt on a program with loops: `3 ^ rankBound prog L`. -/
theorem tryAtPos_terminates2 (prog : Prog) (hf : loopProg prog = true)
    (hl1 : loop1Scm prog = true) (inp : Input) (fuel : Nat) (init : State) (fwd : Bool)
    (h : 3 ^ rankBound prog inp.bytes.size ≤ fuel) :
    (tryAtPos prog inp fuel init fwd).within (3 ^ rankBound prog inp.bytes.size) := by
  have e : rcostSum prog inp.bytes.size fwd #[init] = rcost prog inp.bytes.size fwd init := by
    simp [rcostSum]
  have hc : rcost prog inp.bytes.size fwd init ≤ 3 ^ rankBound prog inp.bytes.size :=
    Nat.pow_le_pow_right (by omega) (Nat.le_of_lt (rank_lt_bound _ _ _ _))
  have := runStates_terminates2 prog hf hl1 inp fuel (fuel + 1) #[init] fwd 0 0
    (by rw [e]; omega) (by rw [e]; omega)
  rw [e] at this
  exact Outcome.within_mono (by omega) this

end Regress.VM.Pk
