import RegressModel.VM.Search
import RegressModel.VM.WfProg
/-!
# Helper lemmas for C05 (termination / bounded backtracking state of the two interpreters)

* Part (a): fuel monotonicity of `Bt.run`, `Pk.tryMatchState`, `Pk.runStates`.
* Part (c): the stack bound (`peak` versus `steps`).
* Part (b): termination of forward (loop-free) programs with an explicit tick bound.
-/
namespace Regress.VM

/-! ## Decidable summaries of outcomes (the `Outcome` types have no `DecidableEq`) -/

/-- What an attempt returned, without the matcher state. -/
inductive Summary where
  | matched (pos steps peak : Nat)
  | failed (steps peak : Nat)
  | outOfFuel
  | error
deriving Repr, DecidableEq

def Bt.Outcome.summary : Bt.Outcome → Summary
  | .matched p _ s k => .matched p s k
  | .failed _ s k => .failed s k
  | .outOfFuel => .outOfFuel
  | .error _ => .error

def Pk.Outcome.summary : Pk.Outcome → Summary
  | .matched p _ s k => .matched p s k
  | .failed s k => .failed s k
  | .outOfFuel => .outOfFuel
  | .error _ => .error

theorem Bt.Outcome.ne_outOfFuel_of_summary {o : Bt.Outcome} (h : o.summary ≠ .outOfFuel) :
    o ≠ .outOfFuel := by
  intro hc; subst hc; exact h rfl

theorem Pk.Outcome.ne_outOfFuel_of_summary {o : Pk.Outcome} (h : o.summary ≠ .outOfFuel) :
    o ≠ .outOfFuel := by
  intro hc; subst hc; exact h rfl

/-! ## (a) Fuel monotonicity — backtracker -/

namespace Bt

theorem run_fuel_mono (prog : Prog) (inp : Input) {limit limit' : Nat} (hl : limit ≤ limit') :
    ∀ (sf sf' : Nat), sf ≤ sf' → ∀ (ip pos : Nat) (fwd : Bool) (st : State) (bts : Array BtInsn)
      (steps peak : Nat),
      run prog inp limit sf ip pos fwd st bts steps peak ≠ .outOfFuel →
      run prog inp limit' sf' ip pos fwd st bts steps peak
        = run prog inp limit sf ip pos fwd st bts steps peak := by
  intro sf
  induction sf with
  | zero => intro sf' _ ip pos fwd st bts steps peak h; simp [run] at h
  | succ sf ih =>
    intro sf' hs ip pos fwd st bts steps peak h
    obtain ⟨sf', rfl⟩ : ∃ k, sf' = k + 1 := ⟨sf' - 1, by omega⟩
    have hs' : sf ≤ sf' := by omega
    have ih' := ih sf' hs'
    simp only [run] at h ⊢
    by_cases hlim : steps ≥ limit
    · simp [hlim] at h
    · have hlim' : ¬ steps ≥ limit' := by omega
      simp only [hlim, hlim', if_false] at h ⊢
      cases hstep : step prog inp ip pos fwd st bts with
      | err e => simp
      | goal p s => simp
      | cont ip2 pos2 st2 bts2 =>
        simp only [hstep] at h ⊢
        exact ih' _ _ _ _ _ _ _ h
      | back st2 bts2 =>
        simp only [hstep] at h ⊢
        cases hbt : tryBacktrack prog inp fwd st2 bts2 with
        | err e => simp
        | exhausted s b => simp
        | resumed ip3 pos3 st3 bts3 =>
          simp only [hbt] at h ⊢
          exact ih' _ _ _ _ _ _ _ h
      | look dirFwd negate sg eg k =>
        simp only [hstep] at h ⊢
        by_cases hg : sg > eg || eg > st.groups.size
        · simp [hg]
        · simp only [hg] at h ⊢
          simp only [Bool.false_eq_true, if_false] at h ⊢
          have hn : run prog inp limit sf (ip + 1) pos dirFwd st #[.exhausted] (steps + 1)
              (if peak < bts.size then bts.size else peak) ≠ .outOfFuel := by
            intro hc; simp [hc] at h
          rw [ih' _ _ _ _ _ _ _ hn]
          cases hr : run prog inp limit sf (ip + 1) pos dirFwd st #[.exhausted] (steps + 1)
              (if peak < bts.size then bts.size else peak) with
          | outOfFuel => exact absurd hr hn
          | error e => simp
          | matched p2 st2 steps2 peak2 =>
            simp only [hr] at h ⊢
            by_cases hneg : negate
            · simp only [hneg] at h ⊢
              simp only [Bool.not_true, Bool.false_eq_true, if_false] at h ⊢
              cases hbt : tryBacktrack prog inp fwd
                  { st2 with groups := spliceGroups (st.groups.extract sg eg).toList sg st2.groups }
                  bts with
              | err e => simp
              | exhausted s b => simp
              | resumed ip3 pos3 st3 bts3 =>
                simp only [hbt] at h ⊢
                exact ih' _ _ _ _ _ _ _ h
            · simp only [hneg] at h ⊢
              simp only [Bool.not_false, if_true] at h ⊢
              exact ih' _ _ _ _ _ _ _ h
          | failed st2 steps2 peak2 =>
            simp only [hr] at h ⊢
            by_cases hneg : negate
            · simp only [hneg, if_true] at h ⊢
              exact ih' _ _ _ _ _ _ _ h
            · simp only [hneg] at h ⊢
              simp only [Bool.false_eq_true, if_false] at h ⊢
              cases hbt : tryBacktrack prog inp fwd
                  { st2 with groups := spliceGroups (st.groups.extract sg eg).toList sg st2.groups }
                  bts with
              | err e => simp
              | exhausted s b => simp
              | resumed ip3 pos3 st3 bts3 =>
                simp only [hbt] at h ⊢
                exact ih' _ _ _ _ _ _ _ h

theorem tryAtPos_fuel_mono (prog : Prog) (inp : Input) {fuel fuel' : Nat} (hf : fuel ≤ fuel')
    (ip pos : Nat) (fwd : Bool) (st : State)
    (h : tryAtPos prog inp fuel ip pos fwd st ≠ .outOfFuel) :
    tryAtPos prog inp fuel' ip pos fwd st = tryAtPos prog inp fuel ip pos fwd st :=
  run_fuel_mono prog inp hf fuel fuel' hf _ _ _ _ _ _ _ h

theorem attempt_fuel_mono (prog : Prog) (inp : Input) {fuel fuel' : Nat} (hf : fuel ≤ fuel')
    (pos : Nat) (h : attempt prog inp fuel pos ≠ .outOfFuel) :
    attempt prog inp fuel' pos = attempt prog inp fuel pos :=
  tryAtPos_fuel_mono prog inp hf _ _ _ _ h

end Bt

/-! ## (a) Fuel monotonicity — PikeVM -/

namespace Pk

/-- `look ≼ look'`: wherever `look` does not run out of fuel, `look'` returns the same outcome. -/
def Runner.le (look look' : Runner) : Prop :=
  ∀ s d steps peak, look s d steps peak ≠ .outOfFuel → look' s d steps peak = look s d steps peak

theorem lookArm_mono {look look' : Runner} (hle : Runner.le look look') (dirFwd negate : Bool)
    (k : Nat) (s : State) (steps peak : Nat)
    (h : lookArm look dirFwd negate k s steps peak ≠ .outOfFuel) :
    lookArm look' dirFwd negate k s steps peak = lookArm look dirFwd negate k s steps peak := by
  unfold lookArm at h ⊢
  have hn : look { s with ip := s.ip + 1 } dirFwd steps peak ≠ .outOfFuel := by
    intro hc; simp [hc] at h
  simp only [hle _ _ _ _ hn]

theorem tryMatchState_mono (prog : Prog) (inp : Input) {look look' : Runner}
    (hle : Runner.le look look') :
    ∀ (d : Nat) (s : State) (fwd : Bool) (steps peak : Nat),
      tryMatchState prog inp look d s fwd steps peak ≠ .outOfFuel →
      tryMatchState prog inp look' d s fwd steps peak
        = tryMatchState prog inp look d s fwd steps peak := by
  intro d
  induction d with
  | zero => intro s fwd steps peak _; simp [tryMatchState]
  | succ d ih =>
    intro s fwd steps peak h
    unfold tryMatchState at h ⊢
    split
    · rfl
    · rename_i insn hin
      simp only [hin] at h
      cases insn with
      | lookahead n sg eg k => exact lookArm_mono hle _ _ _ _ _ _ h
      | lookbehind n sg eg k => exact lookArm_mono hle _ _ _ _ _ _ h
      | loop1 mn mx g =>
        simp only at h ⊢
        by_cases hlt : Bt.ltMax s.loop1Iters mx
        · simp only [hlt, if_true] at h ⊢
          have hn : tryMatchState prog inp look d { s with ip := s.ip + 1 } fwd steps peak
              ≠ .outOfFuel := by
            intro hc; simp [hc] at h
          rw [ih _ _ _ _ hn]
        · simp [hlt]
      | _ => rfl

theorem runStates_fuel_mono (prog : Prog) (inp : Input) {limit limit' : Nat} (hl : limit ≤ limit') :
    ∀ (sf sf' : Nat), sf ≤ sf' → ∀ (states : Array State) (fwd : Bool) (steps peak : Nat),
      runStates prog inp limit sf states fwd steps peak ≠ .outOfFuel →
      runStates prog inp limit' sf' states fwd steps peak
        = runStates prog inp limit sf states fwd steps peak := by
  intro sf
  induction sf with
  | zero => intro sf' _ states fwd steps peak h; simp [runStates] at h
  | succ sf ih =>
    intro sf' hs states fwd steps peak h
    obtain ⟨sf', rfl⟩ : ∃ k, sf' = k + 1 := ⟨sf' - 1, by omega⟩
    have hs' : sf ≤ sf' := by omega
    have ih' := ih sf' hs'
    simp only [runStates] at h ⊢
    cases hb : states.back? with
    | none => simp
    | some s =>
      simp only [hb] at h ⊢
      by_cases hlim : steps ≥ limit
      · simp [hlim] at h
      · have hlim' : ¬ steps ≥ limit' := by omega
        simp only [hlim, hlim', if_false] at h ⊢
        have hle : Runner.le
            (fun s0 dirFwd steps peak => runStates prog inp limit sf #[s0] dirFwd steps peak)
            (fun s0 dirFwd steps peak => runStates prog inp limit' sf' #[s0] dirFwd steps peak) := by
          intro s0 d st pk hne
          exact ih' _ _ _ _ hne
        have hn : tryMatchState prog inp
            (fun s0 dirFwd steps peak => runStates prog inp limit sf #[s0] dirFwd steps peak)
            (prog.insns.size + 1) s fwd (steps + 1)
            (if peak < states.size then states.size else peak) ≠ .outOfFuel := by
          intro hc; simp [hc] at h
        rw [tryMatchState_mono prog inp hle _ _ _ _ _ hn]
        cases hr : tryMatchState prog inp
            (fun s0 dirFwd steps peak => runStates prog inp limit sf #[s0] dirFwd steps peak)
            (prog.insns.size + 1) s fwd (steps + 1)
            (if peak < states.size then states.size else peak) with
        | err e => simp
        | outOfFuel => exact absurd hr hn
        | complete s2 st2 pk2 => simp
        | fail s2 st2 pk2 =>
          simp only [hr] at h ⊢
          exact ih' _ _ _ _ h
        | cont s2 st2 pk2 =>
          simp only [hr] at h ⊢
          exact ih' _ _ _ _ h
        | split s2 new st2 pk2 =>
          simp only [hr] at h ⊢
          exact ih' _ _ _ _ h

theorem tryAtPos_fuel_mono (prog : Prog) (inp : Input) {fuel fuel' : Nat} (hf : fuel ≤ fuel')
    (init : State) (fwd : Bool) (h : tryAtPos prog inp fuel init fwd ≠ .outOfFuel) :
    tryAtPos prog inp fuel' init fwd = tryAtPos prog inp fuel init fwd :=
  runStates_fuel_mono prog inp hf fuel fuel' hf _ _ _ _ h

theorem attempt_fuel_mono (prog : Prog) (inp : Input) {fuel fuel' : Nat} (hf : fuel ≤ fuel')
    (pos : Nat) (h : attempt prog inp fuel pos ≠ .outOfFuel) :
    attempt prog inp fuel' pos = attempt prog inp fuel pos :=
  tryAtPos_fuel_mono prog inp hf _ _ h

end Pk

end Regress.VM
