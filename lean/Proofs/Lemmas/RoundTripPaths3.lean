import Proofs.Lemmas.RoundTripPaths2
/-!
# Round trip, part 22: the paths recorded for the named groups of a node do not conflict

`noDup n`: two groups of `n` with the same name are always in different alternatives of a common
disjunction (the specification's early error "duplicate group name", `ES.groupNames`).
`scan_paths`: the pre-scan of the printed text of such a node records paths that pairwise do not conflict
(`PRel`).
-/
namespace Regress.RoundTrip
open Regress Regress.IR Regress.Parse Regress.Lower Regress.Print

/-! ## The relation -/

/-- The scan of a piece of text that contains named groups `names` (in order) at the current depth, with
`bars` top-level `|`, each group in an alternative with index offset in `[lo, hi]`. -/
def PRel (names : List (List Nat)) (lo hi bars : Nat) (a b : Scan) : Prop :=
  Sh bars a b ∧ ∃ ps : List (List (Nat × Nat)), ps.length = names.length ∧
    b.locs = pushLocs a.locs names ps ∧
    (∀ p ∈ ps, PathK a (altAt a a.parenDepth + lo) (altAt a a.parenDepth + hi) p) ∧
    PairOK (names.zip ps)

theorem PRel.nil {a b : Scan} (lo hi : Nat) (h : SEq a b) : PRel [] lo hi 0 a b := by
  unfold SEq at h; subst h
  refine ⟨Sh.refl _, [], rfl, rfl, ?_, PairOK.nil⟩
  intro p hp
  cases hp

theorem PRel.mono {names : List (List Nat)} {lo hi lo' hi' bars : Nat} {a b : Scan}
    (h : PRel names lo hi bars a b) (h1 : lo' ≤ lo) (h2 : hi ≤ hi') : PRel names lo' hi' bars a b := by
  obtain ⟨sh, ps, l, e, pk, ok⟩ := h
  exact ⟨sh, ps, l, e, fun p hp => (pk p hp).mono (by omega) (by omega), ok⟩

theorem mem_zip_fst {names : List (List Nat)} {ps : List (List (Nat × Nat))} {x : List Nat × List (Nat × Nat)}
    (h : x ∈ names.zip ps) : x.1 ∈ names ∧ x.2 ∈ ps := by
  obtain ⟨a, b⟩ := x
  exact List.of_mem_zip h

/-- Two pieces in sequence (children of a `cat`): their names must be disjoint. -/
theorem PRel.seq {n1 n2 : List (List Nat)} {a b c : Scan} (h1 : PRel n1 0 0 0 a b) (h2 : PRel n2 0 0 0 b c)
    (hdis : ∀ x ∈ n1, x ∉ n2) : PRel (n1 ++ n2) 0 0 0 a c := by
  obtain ⟨sh1, p1, l1, e1, k1, ok1⟩ := h1
  obtain ⟨sh2, p2, l2, e2, k2, ok2⟩ := h2
  have htop := sh1.top
  refine ⟨sh1.trans sh2, p1 ++ p2, by simp [l1, l2], ?_, ?_, ?_⟩
  · rw [pushLocs_append _ _ _ _ _ l1, ← e1, e2]
  · intro p hp
    rcases List.mem_append.1 hp with hp | hp
    · exact k1 p hp
    · have := (k2 p hp).of_agree sh1.depth sh1.agree
      rw [sh1.depth, htop] at this
      exact this
  · rw [List.zip_append l1.symm]
    refine ok1.append ok2 ?_
    intro x hx y hy hxy
    exact absurd (hxy ▸ (mem_zip_fst hy).1) (hdis x.1 (mem_zip_fst hx).1)

/-- The first alternative followed by the others (each after its `|`). -/
theorem PRel.alt_cons {n1 n2 : List (List Nat)} {hi bars : Nat} {a b c : Scan} (h1 : PRel n1 0 0 0 a b)
    (h2 : PRel n2 1 hi bars b c) : PRel (n1 ++ n2) 0 hi bars a c := by
  obtain ⟨sh1, p1, l1, e1, k1, ok1⟩ := h1
  obtain ⟨sh2, p2, l2, e2, k2, ok2⟩ := h2
  have htop := sh1.top
  have k2' : ∀ p ∈ p2, PathK a (altAt a a.parenDepth + 1) (altAt a a.parenDepth + hi) p := by
    intro p hp
    have := (k2 p hp).of_agree sh1.depth sh1.agree
    rw [sh1.depth, htop] at this
    exact this
  refine ⟨by simpa using sh1.trans sh2, p1 ++ p2, by simp [l1, l2], ?_, ?_, ?_⟩
  · rw [pushLocs_append _ _ _ _ _ l1, ← e1, e2]
  · intro p hp
    rcases List.mem_append.1 hp with hp | hp
    · exact (k1 p hp).mono (by omega) (by omega)
    · exact (k2' p hp).mono (by omega) (by omega)
  · rw [List.zip_append l1.symm]
    refine ok1.append ok2 ?_
    intro x hx y hy _
    exact pathK_noConflict (k1 x.2 (mem_zip_fst hx).2) (k2' y.2 (mem_zip_fst hy).2) (by omega)

/-- `|`, an alternative, the remaining alternatives. -/
theorem PRel.tail_cons {n1 n2 : List (List Nat)} {hi bars : Nat} {a a' b c : Scan}
    (h0 : a'.locs = a.locs ∧ Sh 1 a a') (h1 : PRel n1 0 0 0 a' b) (h2 : PRel n2 1 hi bars b c) :
    PRel (n1 ++ n2) 1 (1 + hi) (1 + bars) a c := by
  obtain ⟨hl0, sh0⟩ := h0
  obtain ⟨sh1, p1, l1, e1, k1, ok1⟩ := h1
  obtain ⟨sh2, p2, l2, e2, k2, ok2⟩ := h2
  have htop0 := sh0.top
  have htop1 := sh1.top
  rw [sh0.depth] at htop1
  have k1' : ∀ p ∈ p1, PathK a (altAt a a.parenDepth + 1) (altAt a a.parenDepth + 1) p := by
    intro p hp
    have := (k1 p hp).of_agree sh0.depth sh0.agree
    rw [sh0.depth, htop0] at this
    exact this
  have k2' : ∀ p ∈ p2, PathK a (altAt a a.parenDepth + 2) (altAt a a.parenDepth + (1 + hi)) p := by
    intro p hp
    have h := (k2 p hp).of_agree sh1.depth sh1.agree
    rw [sh1.depth] at h
    have h := h.of_agree sh0.depth sh0.agree
    rw [sh0.depth, htop1, htop0] at h
    exact h.mono (by omega) (by omega)
  refine ⟨by simpa [Nat.add_assoc] using (sh0.trans sh1).trans sh2, p1 ++ p2, by simp [l1, l2], ?_, ?_, ?_⟩
  · rw [pushLocs_append _ _ _ _ _ l1, ← hl0, ← e1, e2]
  · intro p hp
    rcases List.mem_append.1 hp with hp | hp
    · exact (k1' p hp).mono (by omega) (by omega)
    · exact (k2' p hp).mono (by omega) (by omega)
  · rw [List.zip_append l1.symm]
    refine ok1.append ok2 ?_
    intro x hx y hy _
    exact pathK_noConflict (k1' x.2 (mem_zip_fst hx).2) (k2' y.2 (mem_zip_fst hy).2) (by omega)

/-- A parenthesis that records nothing for itself: `opening  body  )`. -/
theorem PRel.paren {names : List (List Nat)} {lo hi bars : Nat} {a a1 b1 b : Scan} (ho : OpenL a a1)
    (hb : PRel names lo hi bars a1 b1) (hc : b.locs = b1.locs ∧ CloseRel b1 b) : PRel names 0 0 0 a b := by
  obtain ⟨hl1, op⟩ := ho
  obtain ⟨sh, ps, l, e, pk, ok⟩ := hb
  obtain ⟨hl2, cl⟩ := hc
  have hdb : b.parenDepth = a.parenDepth := by
    have h1 := cl.depth
    have h2 := sh.depth
    have h3 := op.depth
    omega
  have hag : Agree a.parenDepth a b := by
    refine op.agree.trans ((sh.agree.mono (by rw [op.depth]; omega)).trans ?_)
    rw [← hdb]; exact cl.agree
  have htop : altAt b a.parenDepth = altAt a a.parenDepth + 0 := by
    have h1 := cl.top
    rw [hdb] at h1
    rw [h1, sh.agree.alts _ (by rw [op.depth]; omega), op.top]
    rfl
  refine ⟨⟨hdb, hag, htop⟩, ps, l, by rw [hl2, e, hl1], ?_, ok⟩
  intro p hp
  simpa using (pk p hp).of_inner op.depth op.agree op.top

/-- A named group: `(?<name>  body  )`. -/
theorem PRel.named {names : List (List Nat)} {lo hi bars : Nat} {a a1 b1 b : Scan} (nm : List Nat)
    (hl1 : a1.locs = mapPush a.locs nm (curPath a)) (op : OpenRel a a1)
    (hb : PRel names lo hi bars a1 b1) (hc : b.locs = b1.locs ∧ CloseRel b1 b) (hnm : nm ∉ names) :
    PRel (nm :: names) 0 0 0 a b := by
  obtain ⟨sh, ps, l, e, pk, ok⟩ := hb
  obtain ⟨hl2, cl⟩ := hc
  have hdb : b.parenDepth = a.parenDepth := by
    have h1 := cl.depth
    have h2 := sh.depth
    have h3 := op.depth
    omega
  have hag : Agree a.parenDepth a b := by
    refine op.agree.trans ((sh.agree.mono (by rw [op.depth]; omega)).trans ?_)
    rw [← hdb]; exact cl.agree
  have htop : altAt b a.parenDepth = altAt a a.parenDepth + 0 := by
    have h1 := cl.top
    rw [hdb] at h1
    rw [h1, sh.agree.alts _ (by rw [op.depth]; omega), op.top]
    rfl
  refine ⟨⟨hdb, hag, htop⟩, curPath a :: ps, by simp [l], ?_, ?_, ?_⟩
  · rw [hl2, e, hl1]; rfl
  · intro p hp
    rcases List.mem_cons.1 hp with rfl | hp
    · simpa using pathK_cur a
    · simpa using (pk p hp).of_inner op.depth op.agree op.top
  · simp only [List.zip_cons_cons]
    refine List.Pairwise.cons ?_ ok
    intro y hy hxy
    have hxy' : nm = y.1 := hxy
    exact absurd (hxy' ▸ (mem_zip_fst hy).1) hnm

end Regress.RoundTrip
