import Proofs.Lemmas.RoundTripScan
/-!
# Round trip, part 9: the pre-scan over the printed text of a node

`scan_node`: the scan of `pr ctx n` relates the scan states by `NodeRel n`, for every node whose classes
are of the kind the flags select (`modeOK`: legacy brackets without `v`, class sets with `v`) and whose
names are printable (`lexOK`).  The two class cases are hypotheses here (`ClsScan`, `VClsScan`); they are
proved in `RoundTripClassScan.lean`.
-/
namespace Regress.RoundTrip
open Regress Regress.IR Regress.Parse Regress.Lower Regress.Print

mutual
/-- Legacy brackets only without the `v` flag, class sets only with it (`toIR` fails otherwise). -/
def modeOK (v : Bool) : ES.Node → Bool
  | .cat ns => modeOKList v ns
  | .alt ns => modeOKList v ns
  | .group _ _ n => modeOK v n
  | .nc n => modeOK v n
  | .mod _ _ n => modeOK v n
  | .look _ _ n => modeOK v n
  | .quant _ _ _ n => modeOK v n
  | .cls _ _ => !v
  | .vcls _ _ _ => v
  | _ => true
def modeOKList (v : Bool) : List ES.Node → Bool
  | [] => true
  | n :: ns => modeOK v n && modeOKList v ns
end

/-- The scan skips a printed legacy bracket. -/
def ClsScan (fl : Flags) : Prop :=
  fl.unicodeSets = false → ∀ (neg : Bool) (items : List ES.ClassItem), items.all lexItem = true →
    Scans fl (printClass neg items) SEq

/-- The scan skips a printed class set. -/
def VClsScan (fl : Flags) : Prop :=
  fl.unicodeSets = true → ∀ (neg : Bool) (op : ES.VSetOp) (ops : List ES.VOp), lexVOps ops = true →
    Scans fl (printVClass neg op ops) SEq

section
variable {fl : Flags}

theorem scans_wrap {t : List Nat} {n : ES.Node} (h : Scans fl t (NodeRel n)) : Scans fl (wrap t) (NodeRel n) := by
  have := (scans_wrapOpen (fl := fl)).append (h.append (scans_rparen (fl := fl)))
  simp only [wrap, List.append_assoc] at this ⊢
  exact this.mono (fun a d ⟨b, h1, c, h2, h3⟩ => (h2.tr_left h1).tr_right h3)

/-- A leaf: some text that leaves the tracked fields alone. -/
theorem scans_leaf {t : List Nat} {n : ES.Node} (h : Scans fl t SEq) (h1 : ES.countParens n = 0)
    (h2 : ∀ g, ES.namedGroups n g = []) : Scans fl t (NodeRel n) :=
  h.mono (fun _ _ h => NodeRel.leaf h1 h2 h.tr)

/-- The four contexts of a node that is wrapped in some of them. -/
theorem scans_ctx {n : ES.Node} {t : List Nat} (h : Scans fl t (NodeRel n))
    (hp : ∀ ctx, pr ctx n = t ∨ pr ctx n = wrap t) : ∀ ctx, Scans fl (pr ctx n) (NodeRel n) := by
  intro ctx
  rcases hp ctx with e | e <;> rw [e]
  · exact h
  · exact scans_wrap h

theorem scans_terms : ∀ (ns : List ES.Node), (∀ n ∈ ns, Scans fl (pr .term n) (NodeRel n)) →
    Scans fl (prTerms ns) (NodeRel (.cat ns)) := by
  intro ns
  induction ns with
  | nil => intro _; exact Scans.nil.mono (fun _ _ h => NodeRel.nil (TrEq.of_eq h))
  | cons n ns ih =>
    intro h
    simp only [prTerms]
    exact ((h n (by simp)).append (ih (fun m hm => h m (by simp [hm])))).mono
      (fun _ _ ⟨_, h1, h2⟩ => h1.cons h2)

theorem scans_altsTail : ∀ (ns : List ES.Node), (∀ n ∈ ns, Scans fl (pr .alt n) (NodeRel n)) →
    Scans fl (prAltsTail ns) (NodeRel (.cat ns)) := by
  intro ns
  induction ns with
  | nil => intro _; exact Scans.nil.mono (fun _ _ h => NodeRel.nil (TrEq.of_eq h))
  | cons n ns ih =>
    intro h
    simp only [prAltsTail, List.append_assoc]
    exact ((scans_bar (fl := fl)).append ((h n (by simp)).append (ih (fun m hm => h m (by simp [hm]))))).mono
      (fun _ _ ⟨_, h0, _, h1, h2⟩ => (h1.cons h2).tr_left h0)

theorem scans_alts (ns : List ES.Node) (h : ∀ n ∈ ns, Scans fl (pr .alt n) (NodeRel n)) :
    Scans fl (prAlts ns) (NodeRel (.alt ns)) := by
  cases ns with
  | nil => exact Scans.nil.mono (fun _ _ h => (NodeRel.nil (TrEq.of_eq h)).alt_of_cat)
  | cons n ns =>
    simp only [prAlts]
    exact ((h n (by simp)).append (scans_altsTail ns (fun m hm => h m (by simp [hm])))).mono
      (fun _ _ ⟨_, h1, h2⟩ => (h1.cons h2).alt_of_cat)

/-- `(` body `)`, unnamed. -/
theorem scans_group (idx : Nat) {n : ES.Node} (h : Scans fl (pr .disj n) (NodeRel n)) :
    Scans fl ([0x28] ++ pr .disj n ++ [0x29]) (NodeRel (.group idx none n)) := by
  intro sc rest fuel hf
  obtain ⟨f, rfl⟩ : ∃ f, fuel = f + 1 := ⟨fuel - 1, by simp at hf; omega⟩
  obtain ⟨b, tl, hbt, hb⟩ := body_head n rest
  obtain ⟨sc1, g1, n1, l1, e1⟩ := scan_open_cap (fl := fl) f tl sc hb
  obtain ⟨sc2, f2, hf2, e2, r2⟩ := h sc1 (0x29 :: rest) f (by simp at hf ⊢; omega)
  obtain ⟨f3, rfl⟩ : ∃ f3, f2 = f3 + 1 := ⟨f2 - 1, by simp at hf2; omega⟩
  obtain ⟨sc3, t3, e3⟩ := scan_rparen (fl := fl) f3 rest sc2
  refine ⟨sc3, f3, by simp at hf2; omega, ?_, (NodeRel.group_none idx g1 n1 l1 r2).tr_right t3⟩
  simp only [List.append_assoc, List.cons_append, List.nil_append]
  rw [hbt, e1, ← hbt, e2, e3]

/-- `(?<name>` body `)`. -/
theorem scans_named_group (idx : Nat) {nm : List Nat} (hnm : nameOK nm = true) {n : ES.Node}
    (h : Scans fl (pr .disj n) (NodeRel n)) :
    Scans fl (groupOpen (some nm) ++ pr .disj n ++ [0x29]) (NodeRel (.group idx (some nm) n)) := by
  intro sc rest fuel hf
  obtain ⟨f, rfl⟩ : ∃ f, fuel = f + 1 := ⟨fuel - 1, by simp at hf; omega⟩
  obtain ⟨sc1, segs, g1, n1, l1, e1⟩ := scan_open_named (fl := fl) f hnm (pr .disj n ++ 0x29 :: rest) sc
  obtain ⟨sc2, f2, hf2, e2, r2⟩ := h sc1 (0x29 :: rest) f
    (by simp [groupOpen] at hf ⊢; omega)
  obtain ⟨f3, rfl⟩ : ∃ f3, f2 = f3 + 1 := ⟨f2 - 1, by simp at hf2; omega⟩
  obtain ⟨sc3, t3, e3⟩ := scan_rparen (fl := fl) f3 rest sc2
  refine ⟨sc3, f3, by simp at hf2; omega, ?_, (NodeRel.group_some idx nm segs g1 n1 l1 r2).tr_right t3⟩
  simp only [groupOpen, List.append_assoc, List.cons_append, List.nil_append]
  rw [e1, e2, e3]

/-- A group-like construct that does not capture: some opening text, the body, `)`. -/
theorem scans_transparent {opn : List Nat} {n m : ES.Node} (ho : Scans fl opn TrEq)
    (h : Scans fl (pr .disj n) (NodeRel n)) (h1 : ES.countParens n = ES.countParens m)
    (h2 : ∀ g, ES.namedGroups n g = ES.namedGroups m g) :
    Scans fl (opn ++ pr .disj n ++ [0x29]) (NodeRel m) := by
  have := ho.append (h.append (scans_rparen (fl := fl)))
  simp only [List.append_assoc] at this ⊢
  exact this.mono (fun a d ⟨b, r1, c, r2, r3⟩ => ((r2.tr_left r1).tr_right r3).congr h1 h2)

theorem scans_bref (k : Nat) : Scans fl ([0x5C] ++ printDec k) SEq := by
  cases h : printDec k with
  | nil => exact absurd h (printDec_ne_nil k)
  | cons d tl => exact scans_esc d tl (fun c hc => plain_printDec k c (by rw [h]; simp [hc]))

theorem scan_node (hc : ClsScan fl) (hv : VClsScan fl) (n : ES.Node) :
    modeOK fl.unicodeSets n = true → lexOK n = true → ∀ ctx, Scans fl (pr ctx n) (NodeRel n) := by
  induction n using ES.Node.rec
    (motive_2 := fun ns => modeOKList fl.unicodeSets ns = true → lexOKList ns = true →
      ∀ n ∈ ns, ∀ ctx, Scans fl (pr ctx n) (NodeRel n)) with
  | empty =>
    intro _ _
    refine scans_ctx (t := []) (Scans.nil.mono (fun _ _ h => NodeRel.leaf rfl (fun _ => rfl) (TrEq.of_eq h))) ?_
    intro ctx; cases ctx <;> simp [pr]
  | char c => intro _ _ ctx; exact scans_leaf (by simpa only [pr] using scans_printChar c) rfl (fun _ => rfl)
  | dot =>
    intro _ _ ctx
    exact scans_leaf (by simpa only [pr] using scans_plain [0x2E] (by decide)) rfl (fun _ => rfl)
  | bol =>
    intro _ _ ctx
    exact scans_leaf (by simpa only [pr] using scans_plain [0x5E] (by decide)) rfl (fun _ => rfl)
  | eol =>
    intro _ _ ctx
    exact scans_leaf (by simpa only [pr] using scans_plain [0x24] (by decide)) rfl (fun _ => rfl)
  | wb =>
    intro _ _ ctx
    exact scans_leaf (by simpa only [pr] using scans_esc 0x62 [] (by decide)) rfl (fun _ => rfl)
  | nwb =>
    intro _ _ ctx
    exact scans_leaf (by simpa only [pr] using scans_esc 0x42 [] (by decide)) rfl (fun _ => rfl)
  | cat ns ih =>
    intro hm hl
    simp only [modeOK] at hm
    simp only [lexOK] at hl
    have := ih hm hl
    refine scans_ctx (scans_terms ns (fun n hn => this n hn .term)) ?_
    intro ctx; cases ctx <;> simp [pr]
  | alt ns ih =>
    intro hm hl
    simp only [modeOK] at hm
    simp only [lexOK] at hl
    have := ih hm hl
    refine scans_ctx (scans_alts ns (fun n hn => this n hn .alt)) ?_
    intro ctx; cases ctx <;> simp [pr]
  | group idx nm n ih =>
    intro hm hl ctx
    simp only [modeOK] at hm
    simp only [lexOK, Bool.and_eq_true] at hl
    cases nm with
    | none => simpa only [pr, groupOpen] using scans_group idx (ih hm hl.2 .disj)
    | some nm => simpa only [pr] using scans_named_group idx hl.1 (ih hm hl.2 .disj)
  | nc n ih =>
    intro hm hl ctx
    simp only [modeOK] at hm
    simp only [lexOK] at hl
    have := scans_transparent (m := .nc n) (scans_wrapOpen (fl := fl)) (ih hm hl .disj)
      (by simp [ES.countParens]) (fun g => by simp [ES.namedGroups])
    simpa only [pr, wrap] using this
  | mod a r n ih =>
    intro hm hl ctx
    simp only [modeOK] at hm
    simp only [lexOK] at hl
    have := scans_transparent (m := .mod a r n) (scans_modOpen (fl := fl) a r) (ih hm hl .disj)
      (by simp [ES.countParens]) (fun g => by simp [ES.namedGroups])
    simpa only [pr] using this
  | look ahead neg n ih =>
    intro hm hl ctx
    simp only [modeOK] at hm
    simp only [lexOK] at hl
    have := scans_transparent (m := .look ahead neg n) (scans_lookOpen (fl := fl) ahead neg) (ih hm hl .disj)
      (by simp [ES.countParens]) (fun g => by simp [ES.namedGroups])
    simpa only [pr] using this
  | bref k => intro _ _ ctx; exact scans_leaf (by simpa only [pr] using scans_bref k) rfl (fun _ => rfl)
  | nref nm =>
    intro _ hl ctx
    simp only [lexOK] at hl
    exact scans_leaf (by simpa only [pr] using scans_nref hl) rfl (fun _ => rfl)
  | quant mn mx g n ih =>
    intro hm hl
    simp only [modeOK] at hm
    simp only [lexOK] at hl
    have h1 : Scans fl (pr .atom n ++ printQuant mn mx g) (NodeRel (.quant mn mx g n)) :=
      ((ih hm hl .atom).append (scans_printQuant (fl := fl) mn mx g)).mono
        (fun _ _ ⟨_, r1, r2⟩ => (r1.tr_right r2.tr).congr (by simp [ES.countParens])
          (fun g => by simp [ES.namedGroups]))
    refine scans_ctx h1 ?_
    intro ctx; cases ctx <;> simp [pr]
  | esc e => intro _ _ ctx; exact scans_leaf (by simpa only [pr] using scans_printEsc e) rfl (fun _ => rfl)
  | prop g k nm =>
    intro _ hl ctx
    simp only [lexOK] at hl
    exact scans_leaf (by simpa only [pr] using scans_printProp g k nm hl) rfl (fun _ => rfl)
  | cls g items =>
    intro hm hl ctx
    simp only [modeOK, Bool.not_eq_true'] at hm
    simp only [lexOK] at hl
    exact scans_leaf (by simpa only [pr] using hc hm g items hl) rfl (fun _ => rfl)
  | vcls g op ops =>
    intro hm hl ctx
    simp only [modeOK] at hm
    simp only [lexOK] at hl
    exact scans_leaf (by simpa only [pr] using hv hm g op ops hl) rfl (fun _ => rfl)
  | nil => rename_i hm hl n hn ctx; cases hn
  | cons a as iha ihas =>
    rename_i hm hl n hn ctx
    simp only [modeOKList, Bool.and_eq_true] at hm
    simp only [lexOKList, Bool.and_eq_true] at hl
    rcases List.mem_cons.1 hn with rfl | hn
    · exact iha hm.1 hl.1 ctx
    · exact ihas hm.2 hl.2 n hn ctx

end

end Regress.RoundTrip
