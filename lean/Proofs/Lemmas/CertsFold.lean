import RegressModel.VM.Emit
import Proofs.Lemmas.Fold
import Proofs.Lemmas.Utf8
import Proofs.C10
/-!
# Certificates about `expand_code_point` and `lower_code_point_sequence`

* `expand_le`: every element of `Fold.expandCodePoint c icase unicode` is a code point
  (`≤ 0x10FFFF`) when `c` is. The table fact used (every row's sources and images stay
  `≤ 0x10FFFF`) is part of `RowsWF`, established for both tables by the `O(#rows)` kernel check
  `C10.folds_rows_wf`.
* `lower_pieces_ok`: every `Piece` produced by `VM.lowerCodePointSequence` on code points satisfies
  `pieceOK` (the shape `IR.WF` asks of the leaf node the piece becomes).
-/
namespace Regress.Certs

open Regress.Fold

/-! ## 1. Expansions are code points -/

/-- On a well-formed row table, folding a code point gives a code point. -/
theorem foldWith_le_max {tbl : List FoldRange} (hw : RowsWF tbl) {c : Nat} (h : c ≤ 0x10FFFF) :
    foldWith tbl c ≤ 0x10FFFF := by
  unfold foldWith
  cases hf : findRow tbl c with
  | none => exact h
  | some fr =>
    obtain ⟨hfr, h1, h2⟩ := findRow_some hf
    have hok := hw.1 fr hfr
    show fr.apply c ≤ 0x10FFFF
    rw [apply_eq]
    split
    · exact Nat.le_trans (hok.addDelta_le h1 h2) hok.image_le
    · exact h

/-- On a well-formed row table, every element of `unfoldCharWith tbl c` is a code point. -/
theorem unfoldCharWith_le_max {tbl : List FoldRange} (hw : RowsWF tbl) {c : Nat}
    (h : c ≤ 0x10FFFF) : ∀ x ∈ unfoldCharWith tbl c, x ≤ 0x10FFFF := by
  intro x hx
  unfold unfoldCharWith at hx
  simp only [mem_dedup, mem_sortNat, mem_foldl_unfoldRow] at hx
  rcases hx with hx | ⟨tr, htr, -, -, h2, -⟩
  · have hf := foldWith_le_max hw h
    split at hx
    · rcases List.mem_append.1 hx with hx | hx
      · simp only [List.mem_singleton] at hx; rw [hx]; exact h
      · simp only [List.mem_singleton] at hx; rw [hx]; exact hf
    · simp only [List.mem_singleton] at hx; rw [hx]; exact h
  · exact Nat.le_trans h2 (hw.1 tr htr).last_le

/-- Every element of an expansion of a code point is a code point. -/
theorem expand_le {c : Nat} {icase unicode : Bool} (h : c ≤ 0x10FFFF) :
    ∀ x ∈ Fold.expandCodePoint c icase unicode, x ≤ 0x10FFFF := by
  intro x hx
  unfold expandCodePoint at hx
  split at hx
  · simp only [List.mem_singleton] at hx; rw [hx]; exact h
  · split at hx
    · exact unfoldCharWith_le_max C10.folds_rows_wf.1 h x hx
    · exact unfoldCharWith_le_max C10.folds_rows_wf.2 h x hx

/-- Non-vacuity: a four-element expansion, all code points. -/
example : Fold.expandCodePoint 0x3B8 true true = [0x398, 0x3B8, 0x3D1, 0x3F4] ∧
    Fold.expandCodePoint 0x10FFFF true false = [0x10FFFF] := by decide +kernel

/-! ## 2. The pieces of `lower_code_point_sequence` -/

/-- What `lower_code_point_sequence` guarantees of each piece. -/
def pieceOK : VM.Piece → Prop
  | .char c => c ≤ 0x10FFFF
  | .byteSequence bs => ∃ cs, Utf8.AllScalar cs ∧ cs ≠ [] ∧ bs = Utf8.encodeAll cs
  | .byteSet bs => 2 ≤ bs.length ∧ bs.length ≤ 4 ∧ ∀ b ∈ bs, b < 128
  | .charSet cs => 2 ≤ cs.length ∧ cs.length ≤ 4 ∧ ∀ c ∈ cs, c ≤ 0x10FFFF

theorem max_char_set_length : Gen.MAX_CHAR_SET_LENGTH = 4 := by decide

/-- The loop invariant: all pieces stay `pieceOK`. -/
theorem lowerLoop_ok (icase uni : Bool) : ∀ (cps : List Nat) (pieces out : List VM.Piece),
    (∀ c ∈ cps, c ≤ 0x10FFFF) → (∀ p ∈ pieces, pieceOK p) →
    VM.lowerLoop icase uni cps pieces = .ok out → ∀ p ∈ out, pieceOK p := by
  intro cps
  induction cps with
  | nil =>
    intro pieces out _ hp h
    simp only [VM.lowerLoop, Except.ok.injEq] at h
    subst h; exact hp
  | cons cp cps ih =>
    intro pieces out hc hp h
    have hcp : cp ≤ 0x10FFFF := hc cp (by simp)
    have hcs : ∀ c ∈ cps, c ≤ 0x10FFFF := fun c hm => hc c (List.mem_cons_of_mem _ hm)
    have hexp := expand_le (icase := icase) (unicode := uni) hcp
    -- appending one good piece keeps the invariant
    have happ : ∀ q, pieceOK q → ∀ p ∈ pieces ++ [q], pieceOK p := by
      intro q hq p hm
      rcases List.mem_append.1 hm with hm | hm
      · exact hp p hm
      · simp only [List.mem_singleton] at hm; rw [hm]; exact hq
    unfold VM.lowerLoop at h
    rcases hch : Fold.expandCodePoint cp icase uni with _ | ⟨c0, _ | ⟨c1, r⟩⟩
    · simp [hch] at h
    · -- a single expansion
      rw [hch] at hexp
      have hc0 : c0 ≤ 0x10FFFF := hexp c0 (by simp)
      simp only [hch] at h
      split at h
      · rename_i hsc
        split at h
        · rename_i prev hlast
          -- extend the previous byte sequence
          refine ih _ out hcs ?_ h
          have hmem : VM.Piece.byteSequence prev ∈ pieces := List.mem_of_getLast? hlast
          obtain ⟨cs, hs, hne, hbs⟩ := hp _ hmem
          intro p hm
          rcases List.mem_append.1 hm with hm | hm
          · exact hp p (List.dropLast_subset _ hm)
          · simp only [List.mem_singleton] at hm
            rw [hm]
            refine ⟨cs ++ [c0], ?_, by simp, ?_⟩
            · intro x hx
              rcases List.mem_append.1 hx with hx | hx
              · exact hs x hx
              · simp only [List.mem_singleton] at hx; rw [hx]; exact hsc
            · rw [hbs, Utf8.encodeAll_append]; simp
        · refine ih _ out hcs (happ _ ?_) h
          refine ⟨[c0], ?_, by simp, by simp⟩
          intro x hx; simp only [List.mem_singleton] at hx; rw [hx]; exact hsc
      · exact ih _ out hcs (happ (.char c0) hc0) h
    · -- two or more expansions
      rw [hch] at hexp
      simp only [hch] at h
      split at h
      · rename_i hlen
        have hlen4 : (c0 :: c1 :: r).length ≤ 4 := max_char_set_length ▸ hlen
        refine ih _ out hcs (happ _ ?_) h
        split
        · rename_i hall
          refine ⟨by simp, hlen4, ?_⟩
          intro b hb
          have := (List.all_eq_true.1 hall) b hb
          simp only [decide_eq_true_eq] at this
          omega
        · exact ⟨by simp, hlen4, hexp⟩
      · simp at h

/-- Every piece of `lower_code_point_sequence` on code points is well-formed. -/
theorem lower_pieces_ok {cps : List Nat} {icase uni : Bool} {pieces : List VM.Piece}
    (hc : ∀ c ∈ cps, c ≤ 0x10FFFF)
    (h : VM.lowerCodePointSequence cps icase uni = .ok pieces) : ∀ p ∈ pieces, pieceOK p :=
  lowerLoop_ok icase uni cps [] pieces hc (by simp) h

/-- Non-vacuity: all four piece kinds occur (with `icase`, `a` expands to an ASCII byte set and
`θ` to a four-element char set; without `icase` adjacent scalars merge into one byte sequence and a
lone surrogate stays a `char`). -/
example :
    (VM.lowerCodePointSequence [0x61, 0x3B8] true true).toOption =
      some [.byteSet [0x41, 0x61], .charSet [0x398, 0x3B8, 0x3D1, 0x3F4]] ∧
    (VM.lowerCodePointSequence [0x61, 0xE9, 0xD800, 0x62] false true).toOption =
      some [.byteSequence [0x61, 0xC3, 0xA9], .char 0xD800, .byteSequence [0x62]] := by
  decide +kernel

end Regress.Certs

#print axioms Regress.Certs.expand_le
#print axioms Regress.Certs.lower_pieces_ok
