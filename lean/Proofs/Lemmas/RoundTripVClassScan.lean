import Proofs.Lemmas.RoundTripVClass3
/-!
# Round trip, part 18: the pre-scan skips a printed class set (`vclsScan`)
-/
namespace Regress.RoundTrip
open Regress Regress.IR Regress.Parse Regress.Lower Regress.Print

/-- Text that `skipBracketV` walks over at any depth `≥ 1`, ending at the same depth. -/
def SkipV (t : List Nat) : Prop := ∀ r d, 1 ≤ d → skipBracketV (t ++ r) d = skipBracketV r d

theorem SkipV.append {a b : List Nat} (ha : SkipV a) (hb : SkipV b) : SkipV (a ++ b) := by
  intro r d hd; rw [List.append_assoc, ha _ d hd, hb _ d hd]

theorem skipV_nil : SkipV [] := fun _ _ _ => rfl

theorem skipV_plain : ∀ (t : List Nat), (∀ c ∈ t, c ≠ 0x5C ∧ c ≠ 0x5B ∧ c ≠ 0x5D) → SkipV t := by
  intro t
  induction t with
  | nil => intro _; exact skipV_nil
  | cons c t ih =>
    intro h r d hd
    obtain ⟨h1, h2, h3⟩ := h c (by simp)
    have e1 : (c == 0x5C) = false := by simpa using h1
    have e2 : (c == 0x5B) = false := by simpa using h2
    have e3 : (c == 0x5D) = false := by simpa using h3
    rw [List.cons_append, skipBracketV.eq_def]
    simp only [e1, e2, e3, Bool.false_eq_true, if_false]
    exact ih (fun x hx => h x (by simp [hx])) r d hd

theorem skipV_esc (x : Nat) (t : List Nat) (h : ∀ c ∈ t, c ≠ 0x5C ∧ c ≠ 0x5B ∧ c ≠ 0x5D) :
    SkipV (0x5C :: x :: t) := by
  intro r d hd
  rw [List.cons_append, List.cons_append, skipBracketV.eq_def]
  simp only [show ((0x5C : Nat) == 0x5C) = true from rfl, if_true]
  exact skipV_plain t h r d hd

theorem hexDig_neV : ∀ d, d < 16 → hexDig d ≠ 0x5C ∧ hexDig d ≠ 0x5B ∧ hexDig d ≠ 0x5D := by decide

theorem skipV_printChar (c : Nat) : SkipV (printChar c) := by
  rcases printChar_cases c with ⟨h, e⟩ | ⟨_, _, e⟩ | ⟨_, _, _, _, e⟩ | ⟨_, h, e⟩ <;> rw [e]
  · have := alpha_cases h
    exact skipV_plain _ (by intro d hd; simp at hd; subst hd; omega)
  · apply skipV_esc
    intro d hd
    simp only [hex2, List.mem_cons, List.not_mem_nil, or_false] at hd
    rcases hd with rfl | rfl <;> exact hexDig_neV _ (Nat.mod_lt _ (by decide))
  · apply skipV_esc
    intro d hd
    simp only [hex4, List.mem_cons, List.not_mem_nil, or_false] at hd
    rcases hd with rfl | rfl | rfl | rfl <;> exact hexDig_neV _ (Nat.mod_lt _ (by decide))
  · exact skipV_plain _ (by intro d hd; simp at hd; subst hd; omega)

theorem alnum_ne_brV {b : Nat} (h : (Props.isAsciiAlnum b || b == 0x5F) = true) :
    b ≠ 0x5C ∧ b ≠ 0x5B ∧ b ≠ 0x5D := by
  simp only [Props.isAsciiAlnum, Bool.or_eq_true, Bool.and_eq_true, decide_eq_true_eq, beq_iff_eq] at h
  omega

theorem skipV_printProp (neg : Bool) (kind name : Nat) (h : propNameOK name = true) :
    SkipV (printProp neg kind name) := by
  simp only [propNameOK, Bool.and_eq_true, List.all_eq_true] at h
  simp only [printProp, List.cons_append, List.nil_append, List.append_assoc]
  apply skipV_esc
  intro d hd
  simp only [List.mem_cons, List.mem_append, List.not_mem_nil, or_false] at hd
  rcases hd with rfl | hd | hd | rfl
  · decide
  · match kind, hd with
    | 0, hd => cases hd
    | 1, hd => simp [propPrefix] at hd; rcases hd with rfl | rfl | rfl <;> decide
    | 2, hd => simp [propPrefix] at hd; rcases hd with rfl | rfl | rfl <;> decide
    | k + 3, hd => simp [propPrefix] at hd; rcases hd with rfl | rfl | rfl | rfl <;> decide
  · exact alnum_ne_brV (h.2 d hd)
  · decide

theorem skipV_printString : ∀ (s : List Nat), SkipV (printString s) := by
  intro s
  induction s with
  | nil => exact skipV_nil
  | cons c cs ih => exact (skipV_printChar c).append ih

theorem skipV_stringsTail : ∀ (ss : List (List Nat)), SkipV (printStringsTail ss) := by
  intro ss
  induction ss with
  | nil => exact skipV_nil
  | cons s ss ih =>
    simp only [printStringsTail, List.append_assoc]
    exact (skipV_plain [0x7C] (by decide)).append ((skipV_printString s).append ih)

theorem skipV_strings (ss : List (List Nat)) : SkipV (printStrings ss) := by
  cases ss with
  | nil => exact skipV_nil
  | cons s ss => exact (skipV_printString s).append (skipV_stringsTail ss)

theorem skipV_q (strs : List (List Nat)) : SkipV (printVOp (.q strs)) := by
  intro r d hd
  simp only [printVOp, List.cons_append, List.nil_append, List.append_assoc]
  rw [skipBracketV.eq_def]
  simp only [show ((0x5C : Nat) == 0x5C) = true from rfl, if_true]
  have := ((skipV_plain [0x7B] (by decide)).append ((skipV_strings strs).append (skipV_plain [0x7D] (by decide))))
    r d hd
  simpa only [List.append_assoc, List.cons_append, List.nil_append] using this

/-- `[` body `]` / `[^` body `]` nested in a class. -/
theorem skipV_nested (neg : Bool) {body : List Nat} (h : SkipV body) :
    SkipV ([0x5B] ++ (if neg then [0x5E] else []) ++ body ++ [0x5D]) := by
  intro r d hd
  have hneg : SkipV (if neg then [0x5E] else []) := by
    cases neg
    · exact skipV_nil
    · exact skipV_plain [0x5E] (by decide)
  simp only [List.append_assoc, List.cons_append, List.nil_append]
  rw [skipBracketV.eq_def]
  simp only [show ((0x5B : Nat) == 0x5C) = false from rfl, show ((0x5B : Nat) == 0x5B) = true from rfl,
    Bool.false_eq_true, if_false, if_true]
  rw [hneg _ (d + 1) (by omega), h _ (d + 1) (by omega), skipBracketV.eq_def]
  have hd1 : ((d == 0) = false) := by simp; omega
  simp only [show ((0x5D : Nat) == 0x5C) = false from rfl, show ((0x5D : Nat) == 0x5B) = false from rfl,
    show ((0x5D : Nat) == 0x5D) = true from rfl, Bool.false_eq_true, if_false, if_true, Nat.add_sub_cancel, hd1]

theorem skipV_union : ∀ (ops : List ES.VOp), (∀ o ∈ ops, SkipV (printVOp o)) → SkipV (printVUnion ops) := by
  intro ops
  induction ops with
  | nil => intro _; exact skipV_nil
  | cons o os ih =>
    intro h
    exact (h o (by simp)).append (ih (fun p hp => h p (by simp [hp])))

theorem skipV_sepTail (sep : Nat) (hsep : sep ≠ 0x5C ∧ sep ≠ 0x5B ∧ sep ≠ 0x5D) : ∀ (ops : List ES.VOp),
    (∀ o ∈ ops, SkipV (printVOp o)) → SkipV (printVSepTail sep ops) := by
  intro ops
  induction ops with
  | nil => intro _; exact skipV_nil
  | cons o os ih =>
    intro h
    simp only [printVSepTail, List.append_assoc]
    exact (skipV_plain [sep, sep] (by intro c hc; simp at hc; subst hc; exact hsep)).append
      ((h o (by simp)).append (ih (fun p hp => h p (by simp [hp]))))

theorem skipV_sep (sep : Nat) (hsep : sep ≠ 0x5C ∧ sep ≠ 0x5B ∧ sep ≠ 0x5D) (ops : List ES.VOp)
    (h : ∀ o ∈ ops, SkipV (printVOp o)) : SkipV (printVSep sep ops) := by
  cases ops with
  | nil => exact skipV_nil
  | cons o os =>
    exact (h o (by simp)).append (skipV_sepTail sep hsep os (fun p hp => h p (by simp [hp])))

theorem skipV_body (op : ES.VSetOp) (ops : List ES.VOp) (h : ∀ o ∈ ops, SkipV (printVOp o)) :
    SkipV (vBody op ops) := by
  cases op
  · exact skipV_union ops h
  · exact skipV_sep 0x26 (by decide) ops h
  · exact skipV_sep 0x2D (by decide) ops h

theorem skipV_op (o : ES.VOp) : lexVOp o = true → SkipV (printVOp o) := by
  induction o using ES.VOp.rec (motive_2 := fun ops => lexVOps ops = true → ∀ o ∈ ops, SkipV (printVOp o)) with
  | c c => intro _; exact skipV_printChar c
  | r lo hi =>
    intro _
    simp only [printVOp]
    exact ((skipV_printChar lo).append (skipV_plain [0x2D] (by decide))).append (skipV_printChar hi)
  | esc e => intro _; exact skipV_esc _ [] (by intro d hd; cases hd)
  | prop g k nm => intro h; exact skipV_printProp g k nm h
  | q strs => intro _; exact skipV_q strs
  | cls g op ops ih =>
    intro h
    simp only [lexVOp] at h
    rw [printVOp_cls]
    exact skipV_nested g (skipV_body op ops (ih h))
  | nil => rename_i h o ho; cases ho
  | cons a as iha ihas =>
    rename_i h o ho
    simp only [lexVOps, Bool.and_eq_true] at h
    rcases List.mem_cons.1 ho with rfl | ho
    · exact iha h.1
    · exact ihas h.2 o ho

theorem lexVOps_mem {ops : List ES.VOp} (h : lexVOps ops = true) : ∀ o ∈ ops, lexVOp o = true := by
  induction ops with
  | nil => intro o ho; cases ho
  | cons a as ih =>
    intro o ho
    simp only [lexVOps, Bool.and_eq_true] at h
    rcases List.mem_cons.1 ho with rfl | ho
    · exact h.1
    · exact ih h.2 o ho

theorem vclsScan (fl : Flags) : VClsScan fl := by
  intro hv neg op ops hlex sc rest fuel hf
  obtain ⟨f, rfl⟩ : ∃ f, fuel = f + 1 := ⟨fuel - 1, by omega⟩
  simp only [printVClass] at hf ⊢
  rw [printVOp_cls] at hf ⊢
  refine ⟨sc, f, by simp only [List.length_append, List.length_cons] at hf; omega, ?_, rfl⟩
  have hskip : skipBracketV ((if neg then [0x5E] else []) ++ vBody op ops ++ 0x5D :: rest) 1 = rest := by
    have h1 : SkipV ((if neg then [0x5E] else []) ++ vBody op ops) := by
      apply SkipV.append _ (skipV_body op ops (fun o ho => skipV_op o (lexVOps_mem hlex o ho)))
      cases neg
      · exact skipV_nil
      · exact skipV_plain [0x5E] (by decide)
    rw [h1 _ 1 (by omega), skipBracketV.eq_def]
    simp only [show ((0x5D : Nat) == 0x5C) = false from rfl, show ((0x5D : Nat) == 0x5B) = false from rfl,
      show ((0x5D : Nat) == 0x5D) = true from rfl, Bool.false_eq_true, if_false, if_true,
      show ((1 - 1 == 0) = true) from rfl]
  simp only [List.append_assoc, List.cons_append, List.nil_append] at hskip ⊢
  rw [scanLoop.eq_def]
  simp only [show ((0x5B : Nat) == 0x5C) = false from rfl, show ((0x5B : Nat) == 0x5B) = true from rfl,
    Bool.false_eq_true, if_false, if_true, hv, hskip]

end Regress.RoundTrip
