import Proofs.Lemmas.RoundTripProp
import Proofs.Lemmas.RoundTripScanNode
/-!
# Round trip, part 14: legacy / `u`-mode brackets

`bracketClassAtom_char`: a printed class character is read back as that code point;
`bracketLoop_items`: the loop of `consume_bracket` over the printed items is `Lower.lowerClassItems`;
`atom_cls`: the atom; `clsScan`: the pre-scan skips the bracket.
-/
namespace Regress.RoundTrip
open Regress Regress.IR Regress.Parse Regress.Lower Regress.Print

/-! ## Heads of class members -/

/-- A class member's text starts with a letter, a backslash or a raw non-BMP / surrogate code point. -/
def HeadI (l : List Nat) : Prop :=
  ∃ c tl, l = c :: tl ∧ (isAsciiAlpha c = true ∨ c = 0x5C ∨ 0xD800 ≤ c)

theorem headI_ne {c : Nat} (h : isAsciiAlpha c = true ∨ c = 0x5C ∨ 0xD800 ≤ c) :
    c ≠ 0x2D ∧ c ≠ 0x5D ∧ c ≠ 0x5E ∧ c ≠ 0x5B ∧ c ≠ 0x26 := by
  rcases h with h | h | h
  · have := alpha_cases h; omega
  · omega
  · omega

theorem printChar_headI (c : Nat) : HeadI (printChar c) := by
  rcases printChar_cases c with ⟨h, e⟩ | ⟨_, _, e⟩ | ⟨_, _, _, _, e⟩ | ⟨_, h, e⟩ <;> rw [e]
  · exact ⟨c, [], rfl, .inl h⟩
  · exact ⟨0x5C, _, rfl, .inr (.inl rfl)⟩
  · exact ⟨0x5C, _, rfl, .inr (.inl rfl)⟩
  · exact ⟨c, [], rfl, .inr (.inr h)⟩

theorem HeadI.append {l : List Nat} (h : HeadI l) (r : List Nat) : HeadI (l ++ r) := by
  obtain ⟨c, tl, rfl, hc⟩ := h
  exact ⟨c, tl ++ r, rfl, hc⟩

theorem printClassItem_headI (i : ES.ClassItem) : HeadI (printClassItem i) := by
  cases i with
  | c c => exact printChar_headI c
  | r lo hi => simp only [printClassItem, List.append_assoc]; exact (printChar_headI lo).append _
  | esc e => exact ⟨0x5C, _, rfl, .inr (.inl rfl)⟩
  | prop g k nm => exact ⟨0x5C, _, rfl, .inr (.inl rfl)⟩

/-- What follows a class member: another member or the closing bracket (never `-`, never `^`). -/
def AfterItem (more : List Nat) : Prop := ∃ c tl, more = c :: tl ∧ c ≠ 0x2D ∧ c ≠ 0x5E

theorem afterItem_items (items : List ES.ClassItem) (rest : List Nat) :
    AfterItem (printClassItems items ++ 0x5D :: rest) := by
  cases items with
  | nil => exact ⟨0x5D, rest, rfl, by decide, by decide⟩
  | cons i is =>
    obtain ⟨c, tl, hc, hh⟩ := printClassItem_headI i
    have := headI_ne hh
    exact ⟨c, tl ++ (printClassItems is ++ 0x5D :: rest), by simp [printClassItems, hc], this.1, this.2.2.1⟩

/-! ## Class atoms -/

theorem bracketClassAtom_char (fl : Flags) (hn : Bool) (c : Nat) (more : List Nat) :
    bracketClassAtom fl hn (printChar c ++ more) = .ok (some (.codePoint c), more) := by
  rcases printChar_cases c with ⟨h, e⟩ | ⟨_, hlt, e⟩ | ⟨_, h1, h2, h3, e⟩ | ⟨_, h, e⟩ <;> rw [e]
  · have := alpha_cases h
    have e1 : (c == 0x5D) = false := by simp; omega
    have e2 : (c == 0x5C) = false := by simp; omega
    simp [bracketClassAtom, e1, e2]
  · have := characterEscape_x fl.unicode hn hlt more
    simp only [List.cons_append] at this ⊢
    simp [bracketClassAtom, this]
  · have := characterEscape_u fl.unicode hn h2 (by omega) more
    simp only [List.cons_append] at this ⊢
    simp [bracketClassAtom, this]
  · have e1 : (c == 0x5D) = false := by simp; omega
    have e2 : (c == 0x5C) = false := by simp; omega
    simp [bracketClassAtom, e1, e2]

theorem bracketClassAtom_esc (fl : Flags) (hn : Bool) (e : ES.ClassEsc) (more : List Nat) :
    bracketClassAtom fl hn (printEsc e ++ more) =
      .ok (some (.charClass (classOfEsc e).1 (classOfEsc e).2), more) := by
  cases e <;> simp [bracketClassAtom, printEsc, escLetter, classOfEsc]

theorem bracketClassAtom_prop (fl : Flags) (hn : Bool) (neg : Bool) {kind name : Nat} {s : CPS.IvList}
    (more : List Nat) (hu : fl.unicode = true) (h : lowerProp fl.unicodeSets kind name = .ok (.charClass s))
    (hlex : propNameOK name = true) :
    bracketClassAtom fl hn (printProp neg kind name ++ more) = .ok (some (.range s neg), more) := by
  have hpe := propertyEscape_print fl.unicodeSets more h hlex
  simp only [List.cons_append, List.nil_append, List.append_assoc] at hpe
  cases neg <;>
    simp [bracketClassAtom, printProp, hu, hpe]

/-! ## The loop of `consume_bracket` -/

theorem bracketLoop_item (fl : Flags) (hn inv : Bool) (fuel : Nat) (item : ES.ClassItem) (more : List Nat)
    (cps cps' : CPS.IvList) (h : lowerClassItem fl cps item = .ok cps') (hlex : lexItem item = true)
    (hmore : AfterItem more) :
    bracketLoop fl hn inv (fuel + 1) (printClassItem item ++ more) cps = bracketLoop fl hn inv fuel more cps' := by
  obtain ⟨m0, mtl, rfl, hm0, _⟩ := hmore
  obtain ⟨c, tl, hc, hh⟩ := printClassItem_headI item
  have hne := headI_ne hh
  have e5d : (c == 0x5D) = false := by simpa using hne.2.1
  rw [bracketLoop.eq_def]
  simp only [hc, List.cons_append, e5d, Bool.false_eq_true, if_false]
  rw [← List.cons_append, ← hc]
  cases item with
  | c ch =>
    simp only [lowerClassItem, Except.ok.injEq] at h
    subst h
    simp only [printClassItem, bracketClassAtom_char]
    split
    · next heq => simp only [List.cons.injEq] at heq; exact absurd heq.1 hm0
    · rfl
  | r lo hi =>
    simp only [lowerClassItem] at h
    split at h
    · cases h
    · next hle =>
      simp only [Except.ok.injEq] at h
      subst h
      simp only [printClassItem, List.append_assoc, List.cons_append, List.nil_append, bracketClassAtom_char]
      simp only [hle, if_false]
  | esc e =>
    simp only [lowerClassItem, Except.ok.injEq] at h
    subst h
    simp only [printClassItem, bracketClassAtom_esc]
    split
    · next heq => simp only [List.cons.injEq] at heq; exact absurd heq.1 hm0
    · rfl
  | prop g k nm =>
    simp only [lexItem] at hlex
    simp only [lowerClassItem] at h
    cases hu : fl.unicode with
    | false => rw [hu] at h; simp at h
    | true =>
      rw [hu] at h
      simp only [Bool.not_true, Bool.false_eq_true, if_false] at h
      cases hp : lowerProp fl.unicodeSets k nm with
      | error e => rw [hp] at h; cases h
      | ok pk =>
        rw [hp] at h
        cases pk with
        | stringSet strs => cases h
        | charClass s =>
          simp only [Except.ok.injEq] at h
          subst h
          simp only [printClassItem, bracketClassAtom_prop fl hn g _ hu hp hlex]
          split
          · next heq => simp only [List.cons.injEq] at heq; exact absurd heq.1 hm0
          · rfl

theorem bracketLoop_items (fl : Flags) (hn inv : Bool) : ∀ (items : List ES.ClassItem) (fuel : Nat)
    (rest : List Nat) (cps cps' : CPS.IvList), lowerClassItems fl items cps = .ok cps' →
    items.all lexItem = true → items.length < fuel →
    bracketLoop fl hn inv fuel (printClassItems items ++ 0x5D :: rest) cps =
      .ok (mkBracket inv (if fl.icase then Fold.addIcaseCodePoints cps' else cps'), rest) := by
  intro items
  induction items with
  | nil =>
    intro fuel rest cps cps' h _ hf
    obtain ⟨f, rfl⟩ : ∃ f, fuel = f + 1 := ⟨fuel - 1, by simp at hf; omega⟩
    simp only [lowerClassItems, Except.ok.injEq] at h
    subst h
    rw [bracketLoop.eq_def]
    simp [printClassItems]
  | cons i is ih =>
    intro fuel rest cps cps' h hlex hf
    obtain ⟨f, rfl⟩ : ∃ f, fuel = f + 1 := ⟨fuel - 1, by simp at hf; omega⟩
    simp only [List.all_cons, Bool.and_eq_true] at hlex
    simp only [lowerClassItems] at h
    cases h1 : lowerClassItem fl cps i with
    | error e => rw [h1] at h; cases h
    | ok cps1 =>
      rw [h1] at h
      simp only [printClassItems, List.append_assoc]
      rw [bracketLoop_item fl hn inv f i _ cps cps1 h1 hlex.1 (afterItem_items is rest)]
      exact ih f rest cps1 cps' h hlex.2 (by simp at hf; omega)

theorem printClassItems_length (items : List ES.ClassItem) : items.length ≤ (printClassItems items).length := by
  induction items with
  | nil => simp
  | cons i is ih =>
    obtain ⟨c, tl, hc, _⟩ := printClassItem_headI i
    simp only [printClassItems, List.length_append, List.length_cons, hc]
    omega

/-- `consume_bracket` on the printed class is `lowerClass`. -/
theorem consumeBracket_print (fl : Flags) (hn : Bool) (neg : Bool) (items : List ES.ClassItem) (rest : List Nat)
    {x : Node} (h : lowerClass fl neg items = .ok x) (hlex : items.all lexItem = true) :
    consumeBracket fl hn (printClass neg items ++ rest) = .ok (x, rest) := by
  simp only [lowerClass] at h
  cases hcs : lowerClassItems fl items [] with
  | error e => rw [hcs] at h; cases h
  | ok cps =>
    rw [hcs] at h
    simp only [Except.ok.injEq] at h
    subst h
    have hlen := printClassItems_length items
    cases neg with
    | true =>
      simp only [printClass, if_true, List.append_assoc, List.cons_append, List.nil_append, consumeBracket]
      exact bracketLoop_items fl hn true items _ rest [] cps hcs hlex (by simp; omega)
    | false =>
      simp only [printClass, Bool.false_eq_true, if_false, List.append_assoc, List.cons_append, List.nil_append,
        consumeBracket]
      obtain ⟨m0, mtl, hm, _, hm5e⟩ := afterItem_items items rest
      split
      · next r heq =>
        rw [hm] at heq
        simp only [List.cons.injEq] at heq
        exact absurd heq.1 hm5e
      · simp only
        exact bracketLoop_items fl hn false items _ rest [] cps hcs hlex (by simp; omega)

section
variable {P : ES.Node} {T : Nat}

theorem atom_cls (neg : Bool) (items : List ES.ClassItem) : AtomR P T (.cls neg items) := by
  intro st x rest result f c0 hl hin hc hnd hinv hlim hlex hf
  simp only [lexOK] at hlex
  simp only [lowerNode] at hl
  cases hv : st.flags.unicodeSets with
  | true => rw [hv] at hl; simp at hl
  | false =>
    rw [hv] at hl
    simp only [Bool.false_eq_true, if_false] at hl
    simp only [pr] at hin hf
    have hc0 : c0 = 0x5B := by rw [hin] at hc; simpa [printClass] using hc.symm
    subst hc0
    obtain ⟨f', rfl⟩ : ∃ f', f = f' + 1 := ⟨f - 1, by simp [printClass] at hf; omega⟩
    have hcb := consumeBracket_print st.flags (!st.named.isEmpty) neg items rest hl hlex
    rw [adv_leaf st rest rfl rfl rfl, consumeAtom]
    simp [hv, hin, hcb, quantifiable]

end

/-! ## The pre-scan -/

/-- Text that `skipBracket` walks over without ending the bracket. -/
def SkipN (t : List Nat) : Prop := ∀ r, skipBracket (t ++ r) = skipBracket r

theorem SkipN.append {a b : List Nat} (ha : SkipN a) (hb : SkipN b) : SkipN (a ++ b) := by
  intro r; rw [List.append_assoc, ha, hb]

theorem skipN_nil : SkipN [] := fun _ => rfl

theorem skipN_plain : ∀ (t : List Nat), (∀ c ∈ t, c ≠ 0x5C ∧ c ≠ 0x5D) → SkipN t := by
  intro t
  induction t with
  | nil => intro _; exact skipN_nil
  | cons c t ih =>
    intro h r
    obtain ⟨h1, h2⟩ := h c (by simp)
    have e1 : (c == 0x5C) = false := by simpa using h1
    have e2 : (c == 0x5D) = false := by simpa using h2
    rw [List.cons_append, skipBracket.eq_def]
    simp only [e1, e2, Bool.false_eq_true, if_false]
    exact ih (fun d hd => h d (by simp [hd])) r

theorem skipN_esc (d : Nat) (t : List Nat) (h : ∀ c ∈ t, c ≠ 0x5C ∧ c ≠ 0x5D) : SkipN (0x5C :: d :: t) := by
  intro r
  rw [List.cons_append, List.cons_append, skipBracket.eq_def]
  simp only [show ((0x5C : Nat) == 0x5C) = true from rfl, if_true]
  exact skipN_plain t h r

theorem hexDig_ne : ∀ d, d < 16 → hexDig d ≠ 0x5C ∧ hexDig d ≠ 0x5D := by decide

theorem skipN_printChar (c : Nat) : SkipN (printChar c) := by
  rcases printChar_cases c with ⟨h, e⟩ | ⟨_, _, e⟩ | ⟨_, _, _, _, e⟩ | ⟨_, h, e⟩ <;> rw [e]
  · have := alpha_cases h
    exact skipN_plain _ (by intro d hd; simp at hd; subst hd; omega)
  · apply skipN_esc
    intro d hd
    simp only [hex2, List.mem_cons, List.not_mem_nil, or_false] at hd
    rcases hd with rfl | rfl <;> exact hexDig_ne _ (Nat.mod_lt _ (by decide))
  · apply skipN_esc
    intro d hd
    simp only [hex4, List.mem_cons, List.not_mem_nil, or_false] at hd
    rcases hd with rfl | rfl | rfl | rfl <;> exact hexDig_ne _ (Nat.mod_lt _ (by decide))
  · exact skipN_plain _ (by intro d hd; simp at hd; subst hd; omega)

theorem alnum_ne_br {b : Nat} (h : (Props.isAsciiAlnum b || b == 0x5F) = true) : b ≠ 0x5C ∧ b ≠ 0x5D := by
  simp only [Props.isAsciiAlnum, Bool.or_eq_true, Bool.and_eq_true, decide_eq_true_eq, beq_iff_eq] at h
  omega

theorem skipN_printProp (neg : Bool) (kind name : Nat) (h : propNameOK name = true) :
    SkipN (printProp neg kind name) := by
  simp only [propNameOK, Bool.and_eq_true, List.all_eq_true] at h
  simp only [printProp, List.cons_append, List.nil_append, List.append_assoc]
  apply skipN_esc
  intro d hd
  simp only [List.mem_cons, List.mem_append, List.not_mem_nil, or_false] at hd
  rcases hd with rfl | hd | hd | rfl
  · decide
  · match kind, hd with
    | 0, hd => cases hd
    | 1, hd => simp [propPrefix] at hd; rcases hd with rfl | rfl | rfl <;> decide
    | 2, hd => simp [propPrefix] at hd; rcases hd with rfl | rfl | rfl <;> decide
    | k + 3, hd => simp [propPrefix] at hd; rcases hd with rfl | rfl | rfl | rfl <;> decide
  · exact alnum_ne_br (h.2 d hd)
  · decide

theorem skipN_item (i : ES.ClassItem) (h : lexItem i = true) : SkipN (printClassItem i) := by
  cases i with
  | c c => exact skipN_printChar c
  | r lo hi =>
    exact ((skipN_printChar lo).append (skipN_plain [0x2D] (by decide))).append (skipN_printChar hi)
  | esc e => exact skipN_esc _ [] (by intro d hd; cases hd)
  | prop g k nm => exact skipN_printProp g k nm h

theorem skipN_items : ∀ (items : List ES.ClassItem), items.all lexItem = true → SkipN (printClassItems items) := by
  intro items
  induction items with
  | nil => intro _; exact skipN_nil
  | cons i is ih =>
    intro h
    simp only [List.all_cons, Bool.and_eq_true] at h
    exact (skipN_item i h.1).append (ih h.2)

theorem clsScan (fl : Flags) : ClsScan fl := by
  intro hv neg items hlex sc rest fuel hf
  obtain ⟨f, rfl⟩ : ∃ f, fuel = f + 1 := ⟨fuel - 1, by omega⟩
  refine ⟨sc, f, by simp only [printClass, List.length_append, List.length_cons] at hf; omega, ?_, rfl⟩
  have hskip : skipBracket ((if neg then [0x5E] else []) ++ printClassItems items ++ 0x5D :: rest) = rest := by
    have h1 : SkipN ((if neg then [0x5E] else []) ++ printClassItems items) := by
      apply SkipN.append _ (skipN_items items hlex)
      cases neg
      · exact skipN_nil
      · exact skipN_plain [0x5E] (by decide)
    rw [h1, skipBracket.eq_def]
    simp only [show ((0x5D : Nat) == 0x5C) = false from rfl,
      show ((0x5D : Nat) == 0x5D) = true from rfl, Bool.false_eq_true, if_false, if_true]
  simp only [printClass, List.append_assoc, List.cons_append, List.nil_append] at hskip ⊢
  rw [scanLoop.eq_def]
  simp only [show ((0x5B : Nat) == 0x5C) = false from rfl, show ((0x5B : Nat) == 0x5B) = true from rfl,
    Bool.false_eq_true, if_false, if_true, hv, hskip]

end Regress.RoundTrip
