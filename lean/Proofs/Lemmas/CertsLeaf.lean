import Proofs.Lemmas.CertsSk
import Proofs.Lemmas.CertsIR
import Proofs.Lemmas.CertsFold
import Proofs.Lemmas.KeystoneSS
import Proofs.Lemmas.TotalEmit
import Proofs.Lemmas.FrameLoop1
/-!
# Certificates, part 3: straight-line code (leaf nodes, `StringSet` alternatives)

`seqOnes is`: the skeleton of a list of plain instructions.  `UnitL fwd G nb is`: every instruction is
plain with a well-formed payload, and the list is entered and left on a char boundary (phase `0 → 0`)
when executed in direction `fwd`.  The code of every leaf node and of every `Piece` is such a unit.
-/
namespace Regress.Certs

open Regress.VM Regress.IR Regress.Keystone Regress.VM.Safety Regress.Gen

/-- A list of plain instructions. -/
def seqOnes : List Insn → Sk
  | [] => .nil
  | i :: is => .seq (.one i) (seqOnes is)

theorem seqOnes_size (is : List Insn) : (seqOnes is).size = is.length := by
  induction is with
  | nil => rfl
  | cons i is ih => simp [seqOnes, Sk.size, ih]; omega

theorem seqOnes_begins (is : List Insn) : (seqOnes is).begins = [] := by
  induction is with
  | nil => rfl
  | cons i is ih => simp [seqOnes, Sk.begins, ih]

theorem seqOnes_lids (is : List Insn) : (seqOnes is).lids = [] := by
  induction is with
  | nil => rfl
  | cons i is ih => simp [seqOnes, Sk.lids, ih]

theorem seqOnes_gsc (lo hi : Nat) (is : List Insn) : (seqOnes is).gsc lo hi = true := by
  induction is with
  | nil => rfl
  | cons i is ih => simp [seqOnes, Sk.gsc, ih]

theorem seqOnes_rex (is : List Insn) : (seqOnes is).rex = true := by
  induction is with
  | nil => rfl
  | cons i is ih => simp [seqOnes, Sk.rex, ih]

theorem seqOnes_ok {G nb L : Nat} {is : List Insn}
    (h : ∀ i ∈ is, plain i = true ∧ Sk.leafWf G nb i = true) : (seqOnes is).ok G nb L = true := by
  induction is with
  | nil => rfl
  | cons i is ih =>
    simp only [seqOnes, Sk.ok, Bool.and_eq_true]
    exact ⟨h i (by simp), ih (fun j hj => h j (by simp [hj]))⟩

theorem seqOnes_lay {I : Array Insn} : ∀ {is : List Insn} {b : Nat}, InsnsAt I b is → Lay I (seqOnes is) b
  | [], _, _ => trivial
  | i :: is, b, h => by
    simp only [seqOnes, Lay, Sk.size]
    refine ⟨h 0 (by simp), seqOnes_lay (fun k hk => ?_)⟩
    have := h (k + 1) (by simp; omega)
    simpa [Nat.add_assoc, Nat.add_comm 1 k] using this

theorem seqOnes_phase_append (fwd : Bool) : ∀ (a c : List Insn) (k : Nat),
    (seqOnes (a ++ c)).phase fwd k =
      match (seqOnes a).phase fwd k with
      | some k' => (seqOnes c).phase fwd k'
      | none => none
  | [], c, k => by simp [seqOnes, Sk.phase]
  | i :: a, c, k => by
    simp only [List.cons_append, seqOnes, Sk.phase]
    cases (Sk.one i).phase fwd k with
    | none => rfl
    | some k1 => exact seqOnes_phase_append fwd a c k1

/-- A unit of straight-line code. -/
def UnitL (fwd : Bool) (G nb : Nat) (is : List Insn) : Prop :=
  (∀ i ∈ is, plain i = true ∧ Sk.leafWf G nb i = true) ∧ (seqOnes is).phase fwd 0 = some 0

theorem UnitL.nil (fwd : Bool) (G nb : Nat) : UnitL fwd G nb [] := ⟨by simp, by simp [seqOnes, Sk.phase]⟩

theorem UnitL.append {fwd : Bool} {G nb : Nat} {a c : List Insn} (ha : UnitL fwd G nb a)
    (hc : UnitL fwd G nb c) : UnitL fwd G nb (a ++ c) := by
  refine ⟨fun i hi => ?_, ?_⟩
  · rcases List.mem_append.1 hi with h | h
    · exact ha.1 i h
    · exact hc.1 i h
  · rw [seqOnes_phase_append, ha.2]; exact hc.2

/-- A single instruction that is not a `byteSeq`. -/
theorem UnitL.single {fwd : Bool} {G nb : Nat} {i : Insn} (hp : plain i = true)
    (hw : Sk.leafWf G nb i = true) (hn : ∀ bs, i ≠ .byteSeq bs) : UnitL fwd G nb [i] := by
  refine ⟨fun j hj => ?_, ?_⟩
  · simp only [List.mem_singleton] at hj; subst hj; exact ⟨hp, hw⟩
  · cases i <;> first | (exact absurd rfl (hn _)) | (simp [seqOnes, Sk.phase])

/-! ## Phases of encoded text -/

section Phases
open Regress.Utf8

theorem text_get (cs : List Nat) (t : Nat) : (text cs)[t]? = (encodeAll cs)[t]? := by
  simp [text]

theorem transF_encodeAll {cs : List Nat} (hcs : AllScalar cs) : transF 0 (encodeAll cs) = some 0 := by
  have hph : Ph cs 0 0 := Or.inl ⟨rfl, 0, Nat.zero_le _, by simp⟩
  obtain ⟨k', hk', hp⟩ := transF_ok hcs (encodeAll cs) 0 0 hph (by
    intro t _; rw [Nat.zero_add]; exact text_get cs t)
  have := hp.le_size
  simp only [Nat.zero_add, size_text] at this
  have : k' = 0 := by omega
  subst this; exact hk'

theorem transB_encodeAll {cs : List Nat} (hcs : AllScalar cs) : transB 0 (encodeAll cs) = some 0 := by
  have hph : Ph cs (encodeAll cs).length 0 :=
    Or.inl ⟨rfl, cs.length, Nat.le_refl _, by rw [off_length]; simp⟩
  obtain ⟨k', hk', hp⟩ := transWith_bwd_ok hcs (encodeAll cs).reverse (encodeAll cs).length 0 hph
    (by simp) (by
      intro t ht
      simp only [List.length_reverse] at ht
      rw [List.getElem?_reverse ht, text_get])
  simp only [List.length_reverse, Nat.sub_self] at hp
  have : k' = 0 := by
    rcases hp with ⟨h, _⟩ | ⟨hk, i, hi, j, hj, _, hpos⟩
    · exact h
    · omega
  subst this
  exact hk'

theorem transWith_append (step : Nat → Nat → Option Nat) : ∀ (a c : List Nat) (k : Nat),
    transWith step k (a ++ c) =
      match transWith step k a with
      | some k' => transWith step k' c
      | none => none
  | [], c, k => by simp [transWith]
  | x :: a, c, k => by
    simp only [List.cons_append, transWith]
    cases step k x with
    | none => rfl
    | some k1 => exact transWith_append step a c k1

/-- Phases through a run of `byteSeq` chunks executed forwards. -/
theorem phase_chunks_fwd : ∀ (L : List (List Nat)) (k : Nat),
    (seqOnes (L.map Insn.byteSeq)).phase true k = transWith fwdStep k L.flatten
  | [], k => by simp [seqOnes, Sk.phase, transWith]
  | c :: L, k => by
    simp only [List.map_cons, seqOnes, Sk.phase, List.flatten_cons, if_true]
    rw [transWith_append, transF]
    cases transWith fwdStep k c with
    | none => rfl
    | some k1 => exact phase_chunks_fwd L k1

/-- … and backwards (each chunk is matched last byte first). -/
theorem phase_chunks_bwd : ∀ (L : List (List Nat)) (k : Nat),
    (seqOnes (L.map Insn.byteSeq)).phase false k = transWith bwdStep k (L.map List.reverse).flatten
  | [], k => by simp [seqOnes, Sk.phase, transWith]
  | c :: L, k => by
    simp only [List.map_cons, seqOnes, Sk.phase, List.flatten_cons, Bool.false_eq_true, if_false]
    rw [transWith_append, transB]
    cases transWith bwdStep k c.reverse with
    | none => rfl
    | some k1 => exact phase_chunks_bwd L k1

theorem flatten_map_reverse (L : List (List Nat)) :
    (L.reverse.map List.reverse).flatten = L.flatten.reverse := by
  induction L with
  | nil => rfl
  | cons c L ih =>
    rw [List.reverse_cons, List.map_append, List.flatten_append, ih]
    simp

theorem encodeAll_lt_256 {cs : List Nat} (hcs : AllScalar cs) : ∀ b ∈ encodeAll cs, b < 256 := by
  intro b hb
  simp only [encodeAll, List.mem_flatMap] at hb
  obtain ⟨c, hc, hbc⟩ := hb
  exact encode_bytes_lt_256 (hcs c hc) b hbc

/-- **The `Node::ByteSequence` arm**: the chunks of a UTF-8 string are a unit, in both directions. -/
theorem unit_bytes {cs : List Nat} (hcs : AllScalar cs) (lb : Bool) (G nb : Nat) :
    UnitL (!lb) G nb ((bytesChunks lb (encodeAll cs)).map Insn.byteSeq) := by
  refine ⟨fun i hi => ?_, ?_⟩
  · simp only [List.mem_map] at hi
    obtain ⟨c, hc, rfl⟩ := hi
    have hc' : c ∈ chunks MAX_BYTE_SEQ_LENGTH (encodeAll cs) := by
      unfold bytesChunks at hc
      split at hc
      · exact List.mem_reverse.1 hc
      · exact hc
    have hlen := chunks_len _ _ hc'
    refine ⟨rfl, ?_⟩
    simp only [Sk.leafWf, Bool.and_eq_true, decide_eq_true_eq, List.all_eq_true]
    refine ⟨⟨hlen.1, hlen.2⟩, fun b hb => ?_⟩
    apply encodeAll_lt_256 hcs
    rw [← chunks_flatten (encodeAll cs)]
    exact List.mem_flatten.2 ⟨c, hc', hb⟩
  · cases lb with
    | false =>
      simp only [bytesChunks, Bool.not_false, Bool.false_eq_true, if_false]
      rw [phase_chunks_fwd, chunks_flatten]
      exact transF_encodeAll hcs
    | true =>
      simp only [bytesChunks, Bool.not_true, if_true]
      rw [phase_chunks_bwd, flatten_map_reverse, chunks_flatten]
      exact transB_encodeAll hcs

theorem isOne_encode {c : Nat} (hc : isScalar c = true) : isOneCharSeq (encode c) = true := by
  unfold isOneCharSeq
  have h : HasAt (encode c).toArray 0 (encode c) := by
    intro i _; simp
  rw [nextRight_of_hasAt hc h]
  simp

end Phases

/-! ## The leaf instructions -/

theorem unit_byteSet {fwd : Bool} {G nb : Nat} {bs : List Nat} {i : Insn} (hb : ∀ b ∈ bs, b < 128)
    (h : byteSetInsn bs = some i) : UnitL fwd G nb [i] := by
  unfold byteSetInsn at h
  split at h
  · cases h; exact UnitL.single rfl rfl (fun _ h => by cases h)
  · rename_i hl
    cases h
    -- one ASCII byte: a `byteSeq` of length 1
    obtain ⟨b, rfl⟩ : ∃ b, bs = [b] := by
      match bs, hl with
      | [b], _ => exact ⟨b, rfl⟩
    have hb128 : b < 128 := hb b (by simp)
    refine ⟨fun j hj => ?_, ?_⟩
    · simp only [List.mem_singleton] at hj; subst hj
      refine ⟨rfl, ?_⟩
      simp [Sk.leafWf]; omega
    · cases fwd with
      | true =>
        simp only [seqOnes, Sk.phase, if_true, transF, transWith, fwdStep, hb128]
      | false =>
        have hnc : Utf8.isCont b = false := by
          simp only [Utf8.isCont]
          have : b / 64 = 0 ∨ b / 64 = 1 := by omega
          rcases this with h | h <;> simp [h] <;> omega
        simp only [seqOnes, Sk.phase, Bool.false_eq_true, if_false, transB, List.reverse_singleton, transWith,
          bwdStep, hnc, hb128, if_true]
  all_goals first
    | (rename_i hl
       cases h
       refine UnitL.single rfl ?_ (fun _ h => by cases h)
       simp only [Sk.leafWf, Bool.and_eq_true, decide_eq_true_eq, List.all_eq_true, hl]
       exact ⟨⟨by omega, by omega⟩, hb⟩)
    | cases h

theorem unit_charSet {fwd : Bool} {G nb : Nat} {cs : List Nat} {i : Insn} (hc : ∀ c ∈ cs, c < 4294967296)
    (h : charSetInsn cs = some i) : UnitL fwd G nb [i] := by
  unfold charSetInsn at h
  split at h
  · cases h; exact UnitL.single rfl rfl (fun _ h => by cases h)
  · rename_i c0 rest
    split at h
    · cases h
    · rename_i hlen
      cases h
      refine UnitL.single rfl ?_ (fun _ h => by cases h)
      simp only [MAX_CHAR_SET_LENGTH] at hlen ⊢
      simp only [Sk.leafWf, Bool.and_eq_true, beq_iff_eq, List.all_eq_true, decide_eq_true_eq,
        List.length_append, List.length_replicate]
      refine ⟨by omega, fun c hcm => ?_⟩
      rcases List.mem_append.1 hcm with h1 | h1
      · exact hc c h1
      · rw [List.mem_replicate] at h1
        rw [h1.2]; exact hc c0 (by simp)

theorem asciiBitmap_lt (bm : AsciiBitmap) : bm.toList.all (· < 128) = true := by
  simp only [AsciiBitmap.toList, List.all_eq_true, List.mem_filter, decide_eq_true_eq]
  intro b hb
  have := hb.2
  simp only [AsciiBitmap.contains, Bool.and_eq_true, decide_eq_true_eq] at this
  exact this.1

/-! ## `Piece`s and `StringSet` alternatives -/

theorem unit_piece {lb : Bool} {G nb : Nat} {p : Piece} {c : List Insn} (hp : pieceOK p)
    (h : pieceInsns lb p = some c) : UnitL (!lb) G nb c := by
  cases p with
  | char ch =>
    simp only [pieceInsns, Option.some.injEq] at h; subst h
    simp only [pieceOK] at hp
    refine UnitL.single rfl ?_ (fun _ h => by cases h)
    simp only [Sk.leafWf, decide_eq_true_eq]; omega
  | byteSequence bs =>
    simp only [pieceInsns, Option.some.injEq] at h; subst h
    obtain ⟨cs, hcs, _, rfl⟩ := hp
    exact unit_bytes hcs lb G nb
  | byteSet bs =>
    simp only [pieceInsns, Option.map_eq_some_iff] at h
    obtain ⟨i, hi, rfl⟩ := h
    exact unit_byteSet hp.2.2 hi
  | charSet cs =>
    simp only [pieceInsns, Option.map_eq_some_iff] at h
    obtain ⟨i, hi, rfl⟩ := h
    exact unit_charSet (fun c hc => by have := hp.2.2 c hc; omega) hi

theorem unit_pieces {lb : Bool} {G nb : Nat} : ∀ {ps : List Piece} {c : List Insn},
    (∀ p ∈ ps, pieceOK p) → piecesInsns lb ps = some c → UnitL (!lb) G nb c
  | [], c, _, h => by simp only [piecesInsns, Option.some.injEq] at h; subst h; exact UnitL.nil _ _ _
  | p :: ps, c, hp, h => by
    simp only [piecesInsns] at h
    split at h
    · rename_i a b' ha hb
      cases h
      exact (unit_piece (hp p (by simp)) ha).append (unit_pieces (fun q hq => hp q (by simp [hq])) hb)
    · cases h

theorem unit_cps {uni lb icase : Bool} {G nb : Nat} {cps : List Nat} {c : List Insn}
    (hc : ∀ x ∈ cps, x ≤ 0x10FFFF) (h : cpsInsns uni lb icase cps = some c) : UnitL (!lb) G nb c := by
  unfold cpsInsns at h
  split at h
  · cases h
  · rename_i pieces hl
    have hok := lower_pieces_ok hc hl
    refine unit_pieces (fun p hp => hok p ?_) h
    split at hp
    · exact List.mem_reverse.1 hp
    · exact hp

theorem unit_codes {uni lb icase : Bool} {G nb : Nat} : ∀ {alts : List (List Nat)} {codes : List (List Insn)},
    (∀ a ∈ alts, ∀ x ∈ a, x ≤ 0x10FFFF) → Keystone.allSome (alts.map (cpsInsns uni lb icase)) = some codes →
    ∀ c ∈ codes, UnitL (!lb) G nb c
  | [], codes, _, h => by
    simp only [List.map_nil, Keystone.allSome, Option.some.injEq] at h; subst h; simp
  | a :: alts, codes, ha, h => by
    simp only [List.map_cons, Keystone.allSome] at h
    split at h
    · rename_i x xs hx hxs
      cases h
      intro c hc
      rcases List.mem_cons.1 hc with rfl | hc
      · exact unit_cps (ha a (by simp)) hx
      · exact unit_codes (fun a' ha' => ha a' (by simp [ha'])) hxs c hc
    · cases h

theorem _root_.Regress.Keystone.InsnsAt.cast {I : Array Insn} {b b' : Nat} {c : List Insn} (h : InsnsAt I b c)
    (hb : b = b') : InsnsAt I b' c := hb ▸ h

/-- The skeleton of `emit_string_set`. -/
def strSk : List (List Insn) → Sk
  | [] => .one .justFail
  | [c] => seqOnes c
  | c :: c2 :: cs => .alt (seqOnes c) (strSk (c2 :: cs))

theorem strSk_size (e : Nat) : ∀ (codes : List (List Insn)) (b : Nat),
    (strSk codes).size = (strSetInsns e b codes).length
  | [], _ => rfl
  | [c], _ => by simp [strSk, strSetInsns, seqOnes_size]
  | c :: c2 :: cs, b => by
    simp only [strSk, Sk.size, strSetInsns, seqOnes_size, List.length_append, List.length_cons, List.length_nil]
    rw [strSk_size e (c2 :: cs) (b + c.length + 2)]
    omega

theorem strSk_lay {I : Array Insn} (e : Nat) : ∀ (codes : List (List Insn)) (b : Nat),
    InsnsAt I b (strSetInsns e b codes) → e = b + (strSetInsns e b codes).length → Lay I (strSk codes) b
  | [], b, h, _ => by
    simp only [strSk, Lay]
    simpa [strSetInsns] using h 0 (by simp [strSetInsns])
  | [c], b, h, _ => by
    simp only [strSk]; exact seqOnes_lay (by simpa [strSetInsns] using h)
  | c :: c2 :: cs, b, h, he => by
    simp only [strSetInsns] at h he
    simp only [strSk, Lay, seqOnes_size]
    have h1 := h.left.left.left
    have h2 : InsnsAt I (b + 1) c := h.left.left.right.cast (by simp)
    have h3 : InsnsAt I (b + c.length + 1) [Insn.jump e] := h.left.right.cast (by simp; omega)
    have h4 : InsnsAt I (b + c.length + 2) (strSetInsns e (b + c.length + 2) (c2 :: cs)) :=
      h.right.cast (by simp; omega)
    simp only [List.length_append, List.length_cons, List.length_nil] at he
    rw [← strSk_size e (c2 :: cs) (b + c.length + 2)] at he
    refine ⟨h1 0 (by simp), seqOnes_lay h2, ?_, ?_⟩
    · have := h3 0 (by simp)
      rw [show b + c.length + (strSk (c2 :: cs)).size + 2 = e by omega]
      exact this
    · apply strSk_lay e (c2 :: cs) (b + c.length + 2) h4
      rw [← strSk_size e (c2 :: cs) (b + c.length + 2)]
      omega

theorem strSk_static {fwd : Bool} {G nb L : Nat} : ∀ (codes : List (List Insn)),
    (∀ c ∈ codes, UnitL fwd G nb c) →
    (strSk codes).begins = [] ∧ (strSk codes).lids = [] ∧ (∀ lo hi, (strSk codes).gsc lo hi = true) ∧
      (strSk codes).ok G nb L = true ∧ (strSk codes).phase fwd 0 = some 0 ∧ (strSk codes).rex = true
  | [], _ => ⟨rfl, rfl, fun _ _ => rfl, rfl, by simp [strSk, Sk.phase], rfl⟩
  | [c], h => by
    have := h c (by simp)
    exact ⟨seqOnes_begins c, seqOnes_lids c, fun lo hi => seqOnes_gsc lo hi c, seqOnes_ok this.1, this.2,
      seqOnes_rex c⟩
  | c :: c2 :: cs, h => by
    have hc := h c (by simp)
    obtain ⟨i1, i2, i3, i4, i5, i6⟩ := strSk_static (fwd := fwd) (G := G) (nb := nb) (L := L) (c2 :: cs)
      (fun x hx => h x (by simp [hx]))
    refine ⟨?_, ?_, fun lo hi => ?_, ?_, ?_, ?_⟩
    · simp [strSk, Sk.begins, seqOnes_begins, i1]
    · simp [strSk, Sk.lids, seqOnes_lids, i2]
    · simp [strSk, Sk.gsc, seqOnes_gsc, i3]
    · simp [strSk, Sk.ok, seqOnes_ok hc.1, i4]
    · simp [strSk, Sk.phase, hc.2, i5]
    · simp [strSk, Sk.rex, seqOnes_rex, i6]

end Regress.Certs
