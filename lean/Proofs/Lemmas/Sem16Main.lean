import Proofs.Lemmas.Sem16Sim
/-!
# Every well-formed node without byte-level nodes: `sem16` is the translation of `sem`
-/
namespace Regress.IR

open Regress.VM Regress
open Regress.Utf16 (off16 text16)

section
variable {inp8 : Input} {inp16 : Input16} {cs : List Nat}

/-- A node that is emitted as one single-character instruction: its UTF-8 semantics is the test of
the decoded char. -/
theorem scm_sem8 {body : Node} {p : Nat → Bool} (hp : scmPred16 body = some p) (fwd : Bool) (s : St) :
    sem inp8 body fwd s = optSt s (charStep inp8 fwd s.pos p) := by
  cases body with
  | char c => simp only [scmPred16, Option.some.injEq] at hp; subst hp; simp only [sem]
  | charSet cs' =>
    simp only [scmPred16] at hp
    split at hp
    · cases hp
    · simp only [Option.some.injEq] at hp; subst hp; simp only [sem]
  | bracket bc => simp only [scmPred16, Option.some.injEq] at hp; subst hp; simp only [sem, bracketTest16_fun]
  | matchAny => simp only [scmPred16, Option.some.injEq] at hp; subst hp; simp only [sem]
  | matchAnyExceptLT => simp only [scmPred16, Option.some.injEq] at hp; subst hp; simp only [sem]
  | _ => simp [scmPred16] at hp

theorem leaf_sim (h : SameText inp8 inp16 cs) (fwd : Bool) (st : St) (hg : Good cs st) (t : Nat → Bool) :
    optOut (st.mapPos (to16 cs)) (charStep16 inp16 fwd (st.mapPos (to16 cs)).pos t) =
      (optSt st (charStep inp8 fwd st.pos t)).map (okMap (to16 cs)) := by
  rw [St.mapPos_pos, charStep_to16 h fwd hg.1]
  exact optOut_map _ _ _

mutual
theorem sem16_sim (h : SameText inp8 inp16 cs) :
    ∀ (n : Node) (fwd : Bool) (st : St), WF n → noByteNodes n = true → Good cs st →
      sem16 inp16 n fwd (st.mapPos (to16 cs)) = (sem inp8 n fwd st).map (okMap (to16 cs))
  | .empty, fwd, st, _, _, _ => by simp only [sem16, sem, List.map_cons, List.map_nil, okMap]
  | .goal, fwd, st, _, _, _ => by simp only [sem16, sem, List.map_cons, List.map_nil, okMap]
  | .char c, fwd, st, _, _, hg => by simp only [sem16, sem]; exact leaf_sim h fwd st hg _
  | .byteSeq bs, fwd, st, _, hn, _ => by simp [noByteNodes] at hn
  | .byteSet bs, fwd, st, _, hn, _ => by simp [noByteNodes] at hn
  | .charSet cs', fwd, st, _, _, hg => by simp only [sem16, sem]; exact leaf_sim h fwd st hg _
  | .cat ns, fwd, st, hw, hn, hg => by
    simp only [sem16, sem]; simp only [WF] at hw; simp only [noByteNodes] at hn
    exact semCat16_sim h ns fwd st hw hn hg
  | .alt l r, fwd, st, hw, hn, hg => by
    simp only [sem16, sem, List.map_append]; simp only [WF] at hw
    simp only [noByteNodes, Bool.and_eq_true] at hn
    rw [sem16_sim h l fwd st hw.1 hn.1 hg, sem16_sim h r fwd st hw.2 hn.2 hg]
  | .matchAny, fwd, st, _, _, hg => by simp only [sem16, sem]; exact leaf_sim h fwd st hg _
  | .matchAnyExceptLT, fwd, st, _, _, hg => by simp only [sem16, sem]; exact leaf_sim h fwd st hg _
  | .anchor sol multiline, fwd, st, _, _, hg => by
    simp only [sem16, sem, St.mapPos_pos]
    rw [startOfLine_to16 h multiline hg.1, endOfLine_to16 h multiline hg.1]
    exact guardOut_map _ _ _
  | .wordBoundary invert ui, fwd, st, _, _, hg => by
    simp only [sem16, sem, St.mapPos_pos]
    rw [wordBoundary_to16 h invert ui hg.1]
    exact guardOut_map _ _ _
  | .group id nm c, fwd, st, hw, hn, hg => by
    simp only [WF] at hw; simp only [noByteNodes] at hn
    simp only [sem16, sem, St.mapPos_pos]
    cases fwd
    · simp only [Bool.false_eq_true, if_false]
      rw [← mapPos_setEnd, sem16_sim h c false _ hw hn ((utf8Inv cs).setEnd st id hg), List.map_map, List.map_map]
      apply List.map_congr_left
      intro s _
      simp only [Function.comp, okMap, mapPos_setStart, St.mapPos_pos]
    · simp only [if_true]
      rw [← mapPos_setStart, sem16_sim h c true _ hw hn ((utf8Inv cs).setStart st id hg), List.map_map, List.map_map]
      apply List.map_congr_left
      intro s _
      simp only [Function.comp, okMap, mapPos_setEnd, St.mapPos_pos]
  | .backRef g icase, fwd, st, _, _, hg => by
    simp only [sem16, sem]
    split
    · rfl
    · rw [St.mapPos_caps, List.getElem?_map]
      cases hc : st.caps[g - 1]? with
      | none => rfl
      | some c =>
        obtain ⟨a, b⟩ := c
        have hmem : (a, b) ∈ st.caps := List.mem_of_getElem? hc
        have hgc := hg.2 _ hmem
        cases a with
        | none => rfl
        | some rs =>
          cases b with
          | none => rfl
          | some re =>
            simp only [Option.map_some, capMap, St.mapPos_pos]
            rw [backRefStep_to16 h icase fwd (hgc.1 rs rfl) (hgc.2 re rfl) hg.1]
            exact optOut_map _ _ _
  | .bracket bc, fwd, st, _, _, hg => by
    simp only [sem16, sem, bracketTest16_fun]; exact leaf_sim h fwd st hg _
  | .stringSet alts icase, fwd, st, _, _, hg => by
    simp only [sem16, sem, List.map_flatMap, St.mapPos_pos]
    apply flatMap_congr_mem
    intro a _
    rw [cpSeq_to16 h icase fwd a hg.1]
    exact optOut_map _ _ _
  | .look negate backwards sg eg c, fwd, st, hw, hn, hg => by
    simp only [WF] at hw; simp only [noByteNodes] at hn
    simp only [sem16, sem]
    rw [sem16_sim h c (!backwards) st hw hn hg]
    cases sem inp8 c (!backwards) st with
    | nil => cases negate <;> rfl
    | cons s t => cases negate <;> rfl
  | .loop body q g0 g1, fwd, st, hw, hn, hg => by
    simp only [WF] at hw; simp only [noByteNodes] at hn
    simp only [sem16, sem]
    have hbody : ∀ s, Good cs s →
        (fun s => sem16 inp16 body fwd s) (s.mapPos (to16 cs)) = ((fun s => sem inp8 body fwd s) s).map (okMap (to16 cs)) :=
      fun s hs => sem16_sim h body fwd s hw.1 hn hs
    have hgood : ∀ s s', Good cs s → s' ∈ (fun s => sem inp8 body fwd s) s → Good cs s' ∧ WeakAdv inp8 fwd s.pos s'.pos :=
      fun s s' hs hm => ⟨sem_good h.t8 body fwd s s' hw.1 hs hm, sem_adv inp8 body fwd s s' hm⟩
    have hsim := loopIter_sim h fwd q g0 g1 hbody hgood (loopBudget16 inp16 q fwd (st.mapPos (to16 cs))) 0 0 st hg
      (atBoundary_zero cs) (by simp only [loopBudget16, St.mapPos_pos]; omega)
    rw [to16_zero] at hsim
    rw [hsim]
    congr 1
    apply loopIter_fuel_gen q g0 g1 (Good cs) (fun p => mu16 inp16 fwd (to16 cs p))
      (fun s hs => (utf8Inv cs).reset s g0 g1 hs)
    · intro s s' hs hm
      have := hgood s s' hs hm
      refine ⟨this.1, ?_⟩
      by_cases hp : s'.pos = s.pos
      · exact Or.inl hp
      · exact Or.inr (mu16_lt_of_adv h fwd hs.1 this.1.1 (this.2.adv_of_ne hp))
    · exact hg
    · simp only [loopBudget16, St.mapPos_pos]; omega
    · have := mu16_le_mu8 h fwd hg.1
      simp only [loopBudget]; omega
  | .loop1 body q, fwd, st, hw, hn, hg => by
    simp only [WF] at hw; simp only [noByteNodes] at hn
    simp only [sem16, sem]
    cases hp : scmPred16 body with
    | none => rw [hp] at hn; simp at hn
    | some p =>
      simp only []
      exact loop1_sim h fwd p hw.2.1 (fun s => scm_sem8 hp fwd s) st hg
theorem semCat16_sim (h : SameText inp8 inp16 cs) :
    ∀ (ns : List Node) (fwd : Bool) (st : St), WFList ns → noByteNodesList ns = true → Good cs st →
      semCat16 inp16 ns fwd (st.mapPos (to16 cs)) = (semCat inp8 ns fwd st).map (okMap (to16 cs))
  | [], fwd, st, _, _, _ => by simp only [semCat16, semCat, List.map_cons, List.map_nil, okMap]
  | n :: ns, fwd, st, hw, hn, hg => by
    simp only [WFList] at hw
    simp only [noByteNodesList, Bool.and_eq_true] at hn
    simp only [semCat16, semCat]
    rw [sem16_sim h n fwd st hw.1 hn.1 hg, bindOut_map, List.map_flatMap]
    apply flatMap_congr_mem
    intro s hs
    exact semCat16_sim h ns fwd s hw.2 hn.2 (sem_good h.t8 n fwd st s hw.1 hg hs)
end

/-! ## One attempt, and the search -/

theorem good_initSt16 (cs : List Nat) (n : Node) {p : Nat} (hb : AtBoundary cs p) : Good cs (initSt n p) := by
  refine ⟨hb, fun c hc => ?_⟩
  have : c = (none, none) := List.eq_of_mem_replicate hc
  subst this
  exact ⟨fun a ha => (by cases ha), fun b hb => (by cases hb)⟩

theorem firstMatch16_sim (h : SameText inp8 inp16 cs) {n : Node} (hw : WF n) (hn : noByteNodes n = true) {p : Nat}
    (hb : AtBoundary cs p) :
    firstMatch16 inp16 n (to16 cs p) = (firstMatch inp8 n p).map (okMap (to16 cs)) := by
  unfold firstMatch16 firstMatch
  rw [← mapPos_initSt, sem16_sim h n true _ hw hn (good_initSt16 cs n hb), List.head?_map]

end

end Regress.IR
