import Proofs.Lemmas.CertsIR
/-!
# Certificates, part 0b: the group ranges of loops and look-arounds are exact

`rangesExact n`: every group id in the reset range `[g0, g1)` of a loop is the id of a capture group of
the loop body, and every id in the range `[sg, eg)` of a look-around is the id of a capture group of its
contents.  (The converse inclusions are part of `gscoped`.)  The capture-order certificate (`checkOrd`)
needs it: a loop must not reset, and a positive look-around must not "forget", a group that lives
outside of it.  The parser guarantees it (`g1 = g0 + numGroups body`, ids are handed out consecutively);
no optimizer pass changes a range or the group list of a node.
-/
namespace Regress.Certs

open Regress.IR Regress.Closure

mutual
def rangesExact : Node → Bool
  | .cat ns => rangesExactList ns
  | .alt l r => rangesExact l && rangesExact r
  | .group _ _ c => rangesExact c
  | .look _ _ sg eg c => (List.range' sg (eg - sg)).all (fun g => (groupIds c).contains g) && rangesExact c
  | .loop b _ g0 g1 => (List.range' g0 (g1 - g0)).all (fun g => (groupIds b).contains g) && rangesExact b
  | .loop1 b _ => rangesExact b
  | _ => true
def rangesExactList : List Node → Bool
  | [] => true
  | n :: ns => rangesExact n && rangesExactList ns
end

theorem rangesExactList_iff (ns : List Node) : rangesExactList ns = true ↔ ∀ n ∈ ns, rangesExact n = true := by
  induction ns with
  | nil => simp [rangesExactList]
  | cons a t ih => simp [rangesExactList, ih]

/-- **All IR-level side conditions of the program certificates** (decidable). -/
def irOK2 (n : Node) : Bool := irOK n && rangesExact n

end Regress.Certs
