import Proofs.Lemmas.CertsEmit
import Proofs.Lemmas.CertsNest2
import Proofs.Lemmas.Frame
/-!
# Certificates: the nesting certificate `Sim.looksStructured` (all but `Bt.lookClosed`)

`Sim.looksStructured prog = Bt.lookClosed prog && (List.range prog.insns.size).all …`.  This file proves the
second conjunct for every program that is the layout of a root skeleton (`Root r prog sk`):

* `encl_congr`: `Sim.encl prog x` is the maximum of the set `{j | j < x ∧ lookOver prog j x}`, hence two
  addresses with the same set have the same `encl`;
* `lookOver_iff`: `lookOver prog j x` ↔ a look-around occurrence `(j, k)` of the root with `x < k`;
* `succ_look_iff`: a successor `s` of the instruction at `x` lies in the body of exactly the look-around
  occurrences whose body contains `x` (`Lay.entry_sub` + `Lay.succ_in` on the body occurrence);
* `encl_succ`: hence `encl prog s = encl prog x`;
* `Root.looksNested`: the per-instruction clauses; `Root.looksStructured`: the certificate, given
  `Bt.lookClosed prog`.
-/
namespace Regress.Certs

open Regress.VM Regress.Keystone Regress.VM.Safety Regress.VM.Sim

/-! ## `encl` is the maximum of a set -/

theorem enclAux_spec {prog : Prog} {x : Nat} : ∀ n,
    (enclAux prog x n = none → ∀ j, j < n → lookOver prog j x = false) ∧
    (∀ j, enclAux prog x n = some j → j < n ∧ lookOver prog j x = true ∧
      ∀ j', j < j' → j' < n → lookOver prog j' x = false)
  | 0 => by simp [enclAux]
  | n + 1 => by
    have ih := enclAux_spec (prog := prog) (x := x) n
    simp only [enclAux]
    by_cases h : lookOver prog n x = true
    · simp only [h, if_true]
      refine ⟨by simp, ?_⟩
      intro j hj
      cases hj
      exact ⟨by omega, h, by intro j' h1 h2; omega⟩
    · have h' : lookOver prog n x = false := by simpa using h
      simp only [h', Bool.false_eq_true, if_false]
      refine ⟨?_, ?_⟩
      · intro hn j hj
        by_cases hjn : j = n
        · subst hjn; exact h'
        · exact ih.1 hn j (by omega)
      · intro j hj
        obtain ⟨h1, h2, h3⟩ := ih.2 j hj
        refine ⟨by omega, h2, ?_⟩
        intro j' h4 h5
        by_cases hjn : j' = n
        · subst hjn; exact h'
        · exact h3 j' h4 (by omega)

theorem encl_none {prog : Prog} {x : Nat} (h : encl prog x = none) : ∀ j, j < x → lookOver prog j x = false :=
  (enclAux_spec x).1 h

theorem encl_some {prog : Prog} {x j : Nat} (h : encl prog x = some j) :
    j < x ∧ lookOver prog j x = true ∧ ∀ j', j < j' → j' < x → lookOver prog j' x = false :=
  (enclAux_spec x).2 j h

/-- `encl prog x` depends only on the set of look-arounds `j < x` whose continuation is `> x`. -/
theorem encl_congr {prog : Prog} {x y : Nat}
    (h : ∀ j, (j < x ∧ lookOver prog j x = true) ↔ (j < y ∧ lookOver prog j y = true)) :
    encl prog x = encl prog y := by
  cases hx : encl prog x with
  | none =>
    cases hy : encl prog y with
    | none => rfl
    | some j' =>
      obtain ⟨h1, h2, _⟩ := encl_some hy
      have h3 := (h j').2 ⟨h1, h2⟩
      have := encl_none hx j' h3.1
      rw [h3.2] at this; cases this
  | some j =>
    obtain ⟨h1, h2, h3⟩ := encl_some hx
    have h4 := (h j).1 ⟨h1, h2⟩
    cases hy : encl prog y with
    | none =>
      have := encl_none hy j h4.1
      rw [h4.2] at this; cases this
    | some j' =>
      obtain ⟨g1, g2, g3⟩ := encl_some hy
      have g4 := (h j').2 ⟨g1, g2⟩
      rcases Nat.lt_trichotomy j j' with hlt | heq | hgt
      · have := h3 j' hlt g4.1
        rw [g4.2] at this; cases this
      · rw [heq]
      · have := g3 j hgt h4.1
        rw [h4.2] at this; cases this

theorem encl_eq_some {prog : Prog} {x j : Nat} (h1 : j < x) (h2 : lookOver prog j x = true)
    (h3 : ∀ j', j < j' → j' < x → lookOver prog j' x = false) : encl prog x = some j := by
  obtain ⟨j', hj', hle⟩ := enclAux_ge (n := x) h1 h2
  obtain ⟨g1, g2, _⟩ := encl_some (x := x) hj'
  rcases Nat.lt_or_ge j j' with hlt | hge
  · have := h3 j' hlt g1
    rw [g2] at this; cases this
  · have : j' = j := by omega
    subst this; exact hj'

/-! ## `insnIn` with trivial footprints -/

theorem insnIn_of_succs {prog : Prog} {R : Nat → Bool} {x : Nat} {i : Insn}
    (h : ∀ s ∈ allSuccs prog x i, R s = true) : Bt.insnIn prog R allTrue allTrue allTrue x i = true := by
  cases i with
  | loopAgain b =>
    simp only [Bt.insnIn, allSuccs] at h ⊢
    split
    · next id mn mx gr ex he =>
      simp only [he, List.mem_cons, List.not_mem_nil, or_false] at h
      simp [h, allTrue]
    · rfl
  | _ => simp [Bt.insnIn, allSuccs, allTrue] at h ⊢ <;> simp_all

/-! ## Look-around occurrences -/

theorem lookOf_lookI (neg bw : Bool) (sg eg k : Nat) : Bt.lookOf (lookI neg bw sg eg k) = some (sg, eg, k) := by
  cases bw <;> simp [lookI, Bt.lookOf]

section Occ
variable {prog : Prog} {G nb L : Nat} {sk : Sk} (hl : Lay prog.insns sk 0) (hsz : prog.insns.size = sk.size)
  (hok : sk.ok G nb L = true)
include hl hok

section
include hsz

/-- `lookOver prog j x`: `j` is a look-around occurrence of the root whose continuation is `> x`. -/
theorem lookOver_iff {j x : Nat} : lookOver prog j x = true ↔
    ∃ neg bw sg eg body, Sub sk 0 (.look neg bw sg eg body) j ∧ x < j + body.size + 2 := by
  constructor
  · intro h
    unfold lookOver at h
    cases hi : prog.insns[j]? with
    | none => simp [hi] at h
    | some i =>
      simp only [hi, Option.bind_some] at h
      cases hk : Bt.lookOf i with
      | none => simp [hk] at h
      | some t =>
        obtain ⟨sg, eg, k⟩ := t
        simp only [hk, decide_eq_true_eq] at h
        have hj : j < prog.insns.size := lt_of_getElem?_eq_some hi
        obtain ⟨neg, bw, body, hs, hk', _⟩ := Lay.look_inv hl hok (Nat.zero_le _) (by omega) hi hk
        exact ⟨neg, bw, sg, eg, body, hs, by omega⟩
  · rintro ⟨neg, bw, sg, eg, body, hs, hx⟩
    have := (Sub.look_at hl hs).1
    unfold At at this
    simp [lookOver, this, lookOf_lookI, hx]

end

/-- A successor of `x` is in the body of a look-around occurrence iff `x` is. -/
theorem succ_look_iff {x : Nat} {i : Insn} (hx : x < sk.size) (hat : At prog.insns x i) {s : Nat}
    (hs : s ∈ allSuccs prog x i) {neg bw : Bool} {sg eg : Nat} {body : Sk} {j : Nat}
    (ho : Sub sk 0 (.look neg bw sg eg body) j) :
    (j < s ∧ s < j + body.size + 2) ↔ (j < x ∧ x < j + body.size + 2) := by
  constructor
  · intro hsin
    by_cases hin : j ≤ x ∧ x < j + (Sk.look neg bw sg eg body).size
    · simp only [Sk.size] at hin
      by_cases hxj : x = j
      · subst hxj
        have := at_inj (Sub.look_at hl ho).1 hat
        subst this
        cases bw <;> simp only [lookI, allSuccs, Bool.false_eq_true, if_false, if_true, List.mem_cons,
          List.not_mem_nil, or_false] at hs <;> omega
      · omega
    · have := Lay.entry_sub ho hl hok x (Nat.zero_le _) (by omega) hin i hat s hs
      simp only [Sk.size] at this
      exact absurd hsin this
  · intro hxin
    by_cases hg : x = j + 1 + body.size
    · subst hg
      have := at_inj (Sub.look_at hl ho).2 hat
      subst this
      simp [allSuccs] at hs
    · have hb : Sub sk 0 body (j + 1) := ho.trans (.look (.refl _ _))
      have := Lay.succ_in (hb.lay hl) (hb.ok hok) x (by omega) (by omega) i hat s hs
      omega

include hsz

/-- **Successors have the same `encl`.** -/
theorem encl_succ {x : Nat} {i : Insn} (hx : x < sk.size) (hat : At prog.insns x i) {s : Nat}
    (hs : s ∈ allSuccs prog x i) : encl prog s = encl prog x := by
  apply encl_congr
  intro j
  rw [lookOver_iff hl hsz hok, lookOver_iff hl hsz hok]
  constructor
  · rintro ⟨h1, neg, bw, sg, eg, body, ho, h2⟩
    have := (succ_look_iff hl hok hx hat hs ho).1 ⟨h1, h2⟩
    exact ⟨this.1, neg, bw, sg, eg, body, ho, this.2⟩
  · rintro ⟨h1, neg, bw, sg, eg, body, ho, h2⟩
    have := (succ_look_iff hl hok hx hat hs ho).2 ⟨h1, h2⟩
    exact ⟨this.1, neg, bw, sg, eg, body, ho, this.2⟩

/-- The body of a look-around occurrence starts with `encl = some` the look-around. -/
theorem encl_body_start {neg bw : Bool} {sg eg : Nat} {body : Sk} {x : Nat}
    (ho : Sub sk 0 (.look neg bw sg eg body) x) : encl prog (x + 1) = some x := by
  apply encl_eq_some (by omega)
  · exact (lookOver_iff hl hsz hok).2 ⟨neg, bw, sg, eg, body, ho, by omega⟩
  · intro j' h1 h2; omega

/-- A loop live at the continuation of a look-around occurrence is live on its body. -/
theorem live_body {neg bw : Bool} {sg eg : Nat} {body : Sk} {x : Nat}
    (ho : Sub sk 0 (.look neg bw sg eg body) x) {id : Nat} (hlive : live prog id (x + body.size + 2) = true)
    {y : Nat} (h1 : x < y) (h2 : y < x + body.size + 2) : live prog id y = true := by
  obtain ⟨e, mn, mx, gr, g0, cnt, lb, hs, g1, g2⟩ := (live_iff hl hsz hok).1 hlive
  refine (live_iff hl hsz hok).2 ⟨e, mn, mx, gr, g0, cnt, lb, hs, ?_, ?_⟩ <;>
  · rcases Sub.laminar hs ho with h | h | h | h
    · have := h.range; simp only [Sk.size] at this; omega
    · have := h.range; simp only [Sk.size] at this; omega
    · simp only [Sk.size] at h; omega
    · simp only [Sk.size] at h; omega

/-- A loop entered inside the body of a look-around occurrence is live only inside the body. -/
theorem live_in_body (hnd : sk.lids.Nodup) {neg bw : Bool} {sg eg : Nat} {body : Sk} {x : Nat}
    (ho : Sub sk 0 (.look neg bw sg eg body) x) {id : Nat}
    (hbl : Bt.bodyLoop prog x (x + body.size + 2) id = true) {y : Nat} (hlive : live prog id y = true) :
    x < y ∧ y < x + body.size + 2 := by
  simp only [Bt.bodyLoop, List.any_eq_true, List.mem_range] at hbl
  obtain ⟨d, hd, hm⟩ := hbl
  have hor := ho.range
  simp only [Sk.size] at hor
  cases hi : prog.insns[x + 1 + d]? with
  | none => simp [hi] at hm
  | some i =>
    cases i with
    | enterLoop id' mn mx gr ex =>
      simp only [hi, beq_iff_eq] at hm
      subst hm
      obtain ⟨g0, cnt, lb, hs, _⟩ := Lay.enter_inv hl hok (Nat.zero_le _) (by omega) hi
      obtain ⟨e, mn', mx', gr', g0', cnt', lb', hs', g1, g2⟩ := (live_iff hl hsz hok).1 hlive
      obtain ⟨he, heq⟩ := Sub.loop_unique hnd hs hs'
      cases heq
      subst he
      rcases Sub.laminar hs ho with h | h | h | h
      · have := h.range; simp only [Sk.size] at this; omega
      · have := h.range; simp only [Sk.size] at this; omega
      · simp only [Sk.size] at h; omega
      · simp only [Sk.size] at h; omega
    | _ => simp [hi] at hm

end Occ

/-! ## The certificate -/

/-- The per-instruction clauses of `Sim.looksStructured`. -/
theorem Root.looksNested {r : IR.Regex} {prog : Prog} {sk : Sk} (R : Root r prog sk) :
    ∀ x, x < prog.insns.size → ∀ i, prog.insns[x]? = some i →
      Bt.insnIn prog (enclIs prog (encl prog x)) allTrue allTrue allTrue x i = true ∧
      (match Bt.lookOf i with
       | none => True
       | some (_, _, k) =>
         encl prog (x + 1) = some x ∧
         ∀ id ∈ loopIds prog,
           (live prog id k = true → ∀ d, d < k - (x + 1) → live prog id (x + 1 + d) = true) ∧
           (Bt.bodyLoop prog x k id = true → ∀ y, y < prog.insns.size + 1 → live prog id y = true →
              Bt.inBody x k y = true)) := by
  intro x hx i hi
  have hx' : x < sk.size := by rw [← R.size]; exact hx
  refine ⟨?_, ?_⟩
  · apply insnIn_of_succs
    intro s hs
    simp only [enclIs, beq_iff_eq]
    exact encl_succ R.lay R.size R.ok hx' hi hs
  · cases hk : Bt.lookOf i with
    | none => trivial
    | some t =>
      obtain ⟨sg, eg, k⟩ := t
      obtain ⟨neg, bw, body, ho, hk', _⟩ := Lay.look_inv R.lay R.ok (Nat.zero_le _) (by omega) hi hk
      subst hk'
      refine ⟨encl_body_start R.lay R.size R.ok ho, ?_⟩
      intro id _
      refine ⟨?_, ?_⟩
      · intro hlive d hd
        exact live_body R.lay R.size R.ok ho hlive (by omega) (by omega)
      · intro hbl y _ hlive
        have hnd : sk.lids.Nodup := by rw [R.lids]; exact List.nodup_range
        have := live_in_body R.lay R.size R.ok hnd ho hbl hlive
        simp [Bt.inBody, this.1, this.2]

/-- **The nesting certificate** of an emitted program, given that its look-around bodies are closed. -/
theorem Root.looksStructured {r : IR.Regex} {prog : Prog} {sk : Sk} (R : Root r prog sk)
    (hc : Bt.lookClosed prog = true) : Sim.looksStructured prog = true := by
  simp only [Sim.looksStructured, hc, Bool.true_and, List.all_eq_true, List.mem_range]
  intro x hx
  cases hi : prog.insns[x]? with
  | none => rfl
  | some i =>
    obtain ⟨h1, h2⟩ := R.looksNested x hx i hi
    simp only [h1, Bool.true_and]
    cases hk : Bt.lookOf i with
    | none => rfl
    | some t =>
      obtain ⟨sg, eg, k⟩ := t
      simp only [hk] at h2
      obtain ⟨h3, h4⟩ := h2
      simp only [h3, beq_self_eq_true, Bool.true_and, List.all_eq_true, Bool.and_eq_true, Bool.or_eq_true,
        Bool.not_eq_true', List.mem_range]
      intro id hid
      obtain ⟨h5, h6⟩ := h4 id hid
      refine ⟨?_, ?_⟩
      · cases hlv : live prog id k with
        | false => exact Or.inl rfl
        | true => exact Or.inr (h5 hlv)
      · cases hbl : Bt.bodyLoop prog x k id with
        | false => exact Or.inl rfl
        | true =>
          refine Or.inr ?_
          intro y hy
          cases hlv : live prog id y with
          | false => exact Or.inl rfl
          | true => exact Or.inr (h6 hbl y hy hlv)

end Regress.Certs
