import Proofs.Lemmas.CertsEmit
import Proofs.Lemmas.CertsNest2
/-!
# Certificates: the capture-order certificate (`checkOrd`, C06) of every emitted program

An explicit (coarse, not least-fixpoint) data-flow certificate, defined by recursion over the skeleton:
`ordAt sk v` lists one fact vector per instruction of `sk` entered with the vector `v`; the vector after
`sk` is `killL sk.begins v` (`v` with the groups opened inside `sk` set to *unknown*).

* `W vt w`: `vt` claims at most `w` and the sizes agree (reflexive, transitive, implies `weaker`).
* `Cert C sk b v`: the certificate `C` holds the explicit vectors on `[b, b + sk.size)`;
  `Exit C t w`: `C` has at `t` a vector `vt` with `W vt w`.
* `Lay.ord`: structural induction — every instruction of a layout passes `checkOrdInsn`, given
  `Cert C sk b v`, `Exit C (b + sk.size) (killL sk.begins v)`, and the entry invariant
  `∀ g ∈ sk.begins, v[g]? = some 1`. Static facts used: `Sk.ok` (plain leaves), `Sk.gsc` (only its loop
  clause: the `Begin`s of a loop body are in the reset range), `Sk.rex` (reset / look-around ranges
  contain only groups opened inside), `sk.begins.Nodup`.
* `ordCert sk G`: the vectors `ordAt sk (replicate G 1)` plus ONE extra entry for the exit address
  `sk.size` (never inspected by `checkOrd`; it makes the root an ordinary instance of `Lay.ord`, so
  `Sk.endsPlain` is not needed).
* `checkOrd_ordCert`, `Root.checkOrd_ex`: the result. Nothing is left unfinished.
-/
namespace Regress.Certs

open Regress.VM Regress.Keystone Regress.VM.Safety

/-! ## Fact vectors -/

/-- `vt` claims at most what `w` claims (and the sizes agree): implies `weaker`, and is transitive. -/
def W (vt w : Array Nat) : Prop := vt.size = w.size ∧ ∀ g : Nat, vt[g]? = some 0 ∨ vt[g]? = w[g]?

theorem W.refl (v : Array Nat) : W v v := ⟨rfl, fun _ => Or.inr rfl⟩

theorem W.trans {a b c : Array Nat} (h1 : W a b) (h2 : W b c) : W a c := by
  refine ⟨h1.1.trans h2.1, fun g => ?_⟩
  rcases h1.2 g with h | h
  · exact Or.inl h
  · rcases h2.2 g with h' | h'
    · left; rw [h, h']
    · right; rw [h, h']

theorem W.to_weaker {vt w : Array Nat} (h : W vt w) : Safety.weaker vt w = true := by
  simp only [Safety.weaker, List.all_eq_true, List.mem_range, Bool.or_eq_true, beq_iff_eq]
  intro g _
  exact h.2 g

/-- The entries of the groups of `L` are forgotten. -/
def killL (L : List Nat) (v : Array Nat) : Array Nat := v.mapIdx (fun g x => if g ∈ L then 0 else x)

/-- The vector at the `k`-th reset of a loop with reset range `[g0, g0 + cnt)` entered with `v`. -/
def resetVec (g0 cnt k : Nat) (v : Array Nat) : Array Nat :=
  v.mapIdx (fun g x => if g0 ≤ g ∧ g < g0 + k then 1 else if g0 ≤ g ∧ g < g0 + cnt then 0 else x)

@[simp] theorem size_killL {L : List Nat} {v : Array Nat} : (killL L v).size = v.size := by simp [killL]
@[simp] theorem size_resetVec {g0 cnt k : Nat} {v : Array Nat} : (resetVec g0 cnt k v).size = v.size := by
  simp [resetVec]
@[simp] theorem size_lookBodyVec {v : Array Nat} : (lookBodyVec v).size = v.size := by simp [lookBodyVec]
@[simp] theorem size_lookContVec {neg : Bool} {sg eg : Nat} {v : Array Nat} :
    (lookContVec neg sg eg v).size = v.size := by simp [lookContVec]

theorem getElem?_killL {L : List Nat} {v : Array Nat} {g : Nat} :
    (killL L v)[g]? = if g ∈ L then v[g]?.map (fun _ => 0) else v[g]? := by
  simp only [killL, Array.getElem?_mapIdx]
  split <;> simp

theorem getElem?_resetVec {g0 cnt k : Nat} {v : Array Nat} {g : Nat} :
    (resetVec g0 cnt k v)[g]? = if g0 ≤ g ∧ g < g0 + k then v[g]?.map (fun _ => 1)
      else if g0 ≤ g ∧ g < g0 + cnt then v[g]?.map (fun _ => 0) else v[g]? := by
  simp only [resetVec, Array.getElem?_mapIdx]
  split
  · simp
  · split <;> simp

theorem getElem?_resetVec0 {g0 cnt : Nat} {v : Array Nat} {g : Nat} :
    (resetVec g0 cnt 0 v)[g]? = if g0 ≤ g ∧ g < g0 + cnt then v[g]?.map (fun _ => 0) else v[g]? := by
  rw [getElem?_resetVec, if_neg (by omega)]

theorem getElem?_lookBodyVec {v : Array Nat} {g : Nat} :
    (lookBodyVec v)[g]? = v[g]?.map (fun x => if x = 2 then 0 else x) := by
  simp [lookBodyVec]

theorem getElem?_lookContVec {neg : Bool} {sg eg : Nat} {v : Array Nat} {g : Nat} :
    (lookContVec neg sg eg v)[g]? = if neg = false ∧ sg ≤ g ∧ g < eg then v[g]?.map (fun _ => 0) else v[g]? := by
  simp only [lookContVec, Array.getElem?_mapIdx]
  cases neg <;> simp
  split <;> simp

theorem killL_nil {v : Array Nat} : killL [] v = v := by
  apply Array.ext_getElem?
  intro g
  simp [getElem?_killL]

/-! ## `W` facts used by the induction -/

theorem W_killL_nil {v : Array Nat} : W (killL [] v) v := by rw [killL_nil]; exact W.refl v

theorem W_killL {B : List Nat} {v : Array Nat} : W (killL B v) v := by
  refine ⟨by simp, fun g => ?_⟩
  simp only [getElem?_killL]
  rcases hv : v[g]? with _ | x <;> by_cases h : g ∈ B <;> simp [h]

theorem W_killL_seq {A B : List Nat} {v : Array Nat} : W (killL (A ++ B) v) (killL B (killL A v)) := by
  refine ⟨by simp, fun g => ?_⟩
  simp only [getElem?_killL, List.mem_append]
  rcases hv : v[g]? with _ | x <;> by_cases h : g ∈ A <;> by_cases h' : g ∈ B <;> simp [h, h']

theorem W_killL_altL {A B : List Nat} {v : Array Nat} : W (killL (A ++ B) v) (killL A v) := by
  refine ⟨by simp, fun g => ?_⟩
  simp only [getElem?_killL, List.mem_append]
  rcases hv : v[g]? with _ | x <;> by_cases h : g ∈ A <;> by_cases h' : g ∈ B <;> simp [h, h']

theorem W_killL_altR {A B : List Nat} {v : Array Nat} : W (killL (A ++ B) v) (killL B v) := by
  refine ⟨by simp, fun g => ?_⟩
  simp only [getElem?_killL, List.mem_append]
  rcases hv : v[g]? with _ | x <;> by_cases h : g ∈ A <;> by_cases h' : g ∈ B <;> simp [h, h']

theorem W_killL_group {B : List Nat} {g0 : Nat} {v : Array Nat} :
    W (killL (g0 :: B) v) ((killL B (v.setIfInBounds g0 2)).setIfInBounds g0 0) := by
  refine ⟨by simp, fun g => ?_⟩
  simp only [getElem?_killL, List.mem_cons, Array.getElem?_setIfInBounds, size_killL,
    Array.size_setIfInBounds]
  by_cases hg : g0 = g
  · subst hg
    by_cases hlt : g0 < v.size
    · simp [hlt]
    · simp [hlt]
  · have hg' : ¬ g = g0 := fun h => hg h.symm
    rcases hv : v[g]? with _ | x <;> by_cases h' : g ∈ B <;> simp [hg, hg', h']

theorem W_reset0 {g0 cnt : Nat} {v : Array Nat} : W (resetVec g0 cnt 0 v) v := by
  refine ⟨by simp, fun g => ?_⟩
  simp only [getElem?_resetVec0]
  rcases hv : v[g]? with _ | x <;> by_cases h : g0 ≤ g ∧ g < g0 + cnt <;> simp [h]

theorem W_reset_back {g0 cnt : Nat} {B : List Nat} {v : Array Nat}
    (hB : ∀ g ∈ B, g0 ≤ g ∧ g < g0 + cnt) :
    W (resetVec g0 cnt 0 v) (killL B (resetVec g0 cnt cnt v)) := by
  refine ⟨by simp, fun g => ?_⟩
  simp only [getElem?_resetVec0]
  simp only [getElem?_resetVec, getElem?_killL]
  by_cases h : g0 ≤ g ∧ g < g0 + cnt
  · rcases hv : v[g]? with _ | x <;> by_cases h' : g ∈ B <;> simp [h, h']
  · have h' : g ∉ B := fun hm => h (hB g hm)
    simp [h, h']

theorem W_reset_step {g0 cnt k : Nat} {v : Array Nat} :
    W (resetVec g0 cnt (k + 1) v) ((resetVec g0 cnt k v).setIfInBounds (g0 + k) 1) := by
  refine ⟨by simp, fun g => ?_⟩
  simp only [getElem?_resetVec, Array.getElem?_setIfInBounds, size_resetVec]
  right
  by_cases hg : g0 + k = g
  · subst hg
    by_cases hlt : g0 + k < v.size
    · have : g0 ≤ g0 + k ∧ g0 + k < g0 + (k + 1) := by omega
      simp [hlt, this]
    · simp [hlt]
  · simp only [hg, if_false]
    by_cases h1 : g0 ≤ g ∧ g < g0 + k
    · have : g0 ≤ g ∧ g < g0 + (k + 1) := by omega
      simp [h1, this]
    · have : ¬ (g0 ≤ g ∧ g < g0 + (k + 1)) := by omega
      simp [h1, this]

theorem W_loop_exit {g0 cnt : Nat} {B : List Nat} {v : Array Nat}
    (hB : ∀ g, g0 ≤ g → g < g0 + cnt → g ∈ B) :
    W (killL B v) (killL B (resetVec g0 cnt cnt v)) := by
  refine ⟨by simp, fun g => ?_⟩
  simp only [getElem?_resetVec, getElem?_killL]
  by_cases h' : g ∈ B
  · rcases hv : v[g]? with _ | x <;> simp [h']
  · have h : ¬ (g0 ≤ g ∧ g < g0 + cnt) := fun h => h' (hB g h.1 h.2)
    simp [h, h']

theorem W_look_exit {neg : Bool} {sg eg : Nat} {B : List Nat} {v : Array Nat}
    (hB : ∀ g, sg ≤ g → g < eg → g ∈ B) :
    W (killL B v) (lookContVec neg sg eg v) := by
  refine ⟨by simp, fun g => ?_⟩
  simp only [getElem?_lookContVec, getElem?_killL]
  by_cases h' : g ∈ B
  · rcases hv : v[g]? with _ | x <;> simp [h']
  · have h : ¬ (neg = false ∧ sg ≤ g ∧ g < eg) := fun h => h' (hB g h.2.1 h.2.2)
    simp [h, h']

/-! ## The certificate of a laid-out skeleton -/

/-- The certificate `C` holds, on the addresses of the layout of `sk` at `b`, the explicit vectors for
the entry vector `v`. -/
def Cert (C : OrdCert) : Sk → Nat → Array Nat → Prop
  | .nil, _, _ => True
  | .one _, b, v => C[b]? = some (some v)
  | .seq a c, b, v => Cert C a b v ∧ Cert C c (b + a.size) (killL a.begins v)
  | .alt a c, b, v => C[b]? = some (some v) ∧ Cert C a (b + 1) v ∧
      C[b + a.size + 1]? = some (some (killL a.begins v)) ∧ Cert C c (b + a.size + 2) v
  | .loop _ _ _ _ g0 cnt body, b, v => C[b]? = some (some v) ∧
      (∀ i, i < cnt → C[b + 1 + i]? = some (some (resetVec g0 cnt i v))) ∧
      Cert C body (b + 1 + cnt) (resetVec g0 cnt cnt v) ∧
      C[b + 1 + cnt + body.size]? = some (some (killL body.begins (resetVec g0 cnt cnt v)))
  | .loop1 _ _ _ _, b, v => C[b]? = some (some v) ∧ C[b + 1]? = some (some v)
  | .group g body, b, v => C[b]? = some (some v) ∧ Cert C body (b + 1) (v.setIfInBounds g 2) ∧
      C[b + 1 + body.size]? = some (some (killL body.begins (v.setIfInBounds g 2)))
  | .look _ _ _ _ body, b, v => C[b]? = some (some v) ∧ Cert C body (b + 1) (lookBodyVec v) ∧
      C[b + 1 + body.size]? = some (some (killL body.begins (lookBodyVec v)))

/-- The certificate has at address `t` a vector that claims at most `w`. -/
def Exit (C : OrdCert) (t : Nat) (w : Array Nat) : Prop := ∃ vt, C[t]? = some (some vt) ∧ W vt w

theorem Exit.mono {C : OrdCert} {t : Nat} {w w' : Array Nat} (h : Exit C t w) (hw : W w w') : Exit C t w' := by
  obtain ⟨vt, h1, h2⟩ := h
  exact ⟨vt, h1, h2.trans hw⟩

theorem Exit.of_eq {C : OrdCert} {t : Nat} {w : Array Nat} (h : C[t]? = some (some w)) : Exit C t w :=
  ⟨w, h, W.refl w⟩

/-- The vector at the first address of a layout claims at most the entry vector. -/
theorem Cert.entry {C : OrdCert} : ∀ {sk : Sk} {b : Nat} {v : Array Nat}, Cert C sk b v →
    Exit C (b + sk.size) (killL sk.begins v) → Exit C b v
  | .nil, b, v, _, hex => by
    simp only [Sk.size, Sk.begins, Nat.add_zero] at hex
    exact hex.mono W_killL_nil
  | .one _, b, v, hc, _ => Exit.of_eq hc
  | .seq a c, b, v, hc, hex => by
    simp only [Cert] at hc
    simp only [Sk.size, Sk.begins, ← Nat.add_assoc] at hex
    exact Cert.entry hc.1 (Cert.entry hc.2 (hex.mono W_killL_seq))
  | .alt a c, b, v, hc, _ => Exit.of_eq hc.1
  | .loop _ _ _ _ _ _ _, b, v, hc, _ => Exit.of_eq hc.1
  | .loop1 _ _ _ _, b, v, hc, _ => Exit.of_eq hc.1
  | .group _ _, b, v, hc, _ => Exit.of_eq hc.1
  | .look _ _ _ _ _, b, v, hc, _ => Exit.of_eq hc.1

theorem chk {prog : Prog} {C : OrdCert} {x : Nat} {insn : Insn} {v : Array Nat}
    (hv : C[x]? = some (some v))
    (h1 : ∀ g, insn = .beginCaptureGroup g → v[g]? = some 1)
    (h2 : ∀ g, insn = .endCaptureGroup g → v[g]? = some 2)
    (h3 : ∀ t w, (t, w) ∈ ordEdges prog x insn v → Exit C t w) : checkOrdInsn prog C x insn = true := by
  simp only [checkOrdInsn, hv, Bool.and_eq_true, List.all_eq_true]
  refine ⟨?_, ?_⟩
  · cases insn <;> first | rfl | (simp only [beq_iff_eq]; first | exact h1 _ rfl | exact h2 _ rfl)
  · rintro ⟨t, w⟩ htw
    obtain ⟨vt, hvt, hw⟩ := h3 t w htw
    simp only [hvt]; exact hw.to_weaker

theorem chk_plain {prog : Prog} {C : OrdCert} {x : Nat} {i : Insn} {v : Array Nat} (hp : plain i = true)
    (hv : C[x]? = some (some v)) (hex : Exit C (x + 1) v) : checkOrdInsn prog C x i = true := by
  refine chk hv ?_ ?_ ?_
  · intro g hg; subst hg; simp [plain] at hp
  · intro g hg; subst hg; simp [plain] at hp
  · intro t w htw
    have : t = x + 1 ∧ w = v := by
      cases i <;> simp [plain] at hp <;> simp [ordEdges, allSuccs, outVec] at htw <;> exact htw
    rw [this.1, this.2]; exact hex

theorem Exit.at {C : OrdCert} {t t' : Nat} {w : Array Nat} (h : Exit C t w) (e : t = t') : Exit C t' w := e ▸ h

/-- **Every instruction of a laid-out skeleton passes `checkOrdInsn`** for a certificate that holds the
explicit vectors on the layout and, at the exit address, a vector that claims at most `killL sk.begins v`. -/
theorem Lay.ord {prog : Prog} {C : OrdCert} {G nb L : Nat} : ∀ {sk : Sk} {b lo hi : Nat} {v : Array Nat},
    Lay prog.insns sk b → sk.ok G nb L = true → sk.gsc lo hi = true → sk.rex = true → sk.begins.Nodup →
    (∀ g ∈ sk.begins, v[g]? = some 1) → Cert C sk b v → Exit C (b + sk.size) (killL sk.begins v) →
    ∀ x, b ≤ x → x < b + sk.size → ∀ i, At prog.insns x i → checkOrdInsn prog C x i = true
  | .nil, b, lo, hi, v, _, _, _, _, _, _, _, _, x, h1, h2, _, _ => by simp [Sk.size] at h2; omega
  | .one i, b, lo, hi, v, h, hok, _, _, _, _, hc, hex, x, h1, h2, i', hat => by
    simp only [Sk.size] at h2
    have : x = b := by omega
    subst this
    simp only [Lay] at h
    have := at_inj h hat; subst this
    simp only [Sk.ok, Bool.and_eq_true] at hok
    simp only [Sk.size, Sk.begins] at hex
    exact chk_plain hok.1 hc (hex.mono W_killL_nil)
  | .seq a c, b, lo, hi, v, h, hok, hs, hr, hnd, hv, hc, hex, x, h1, h2, i, hat => by
    simp only [Sk.size] at h2
    simp only [Sk.size, Sk.begins, ← Nat.add_assoc] at hex
    simp only [Lay] at h
    simp only [Sk.ok, Bool.and_eq_true] at hok
    simp only [Sk.gsc, Bool.and_eq_true] at hs
    simp only [Sk.rex, Bool.and_eq_true] at hr
    simp only [Sk.begins] at hnd hv
    simp only [Cert] at hc
    have hnd' := List.nodup_append.1 hnd
    have hexc : Exit C (b + a.size + c.size) (killL c.begins (killL a.begins v)) := hex.mono W_killL_seq
    by_cases hx : x < b + a.size
    · exact Lay.ord h.1 hok.1 hs.1 hr.1 hnd'.1 (fun g hg => hv g (List.mem_append_left _ hg)) hc.1
        (Cert.entry hc.2 hexc) x h1 hx i hat
    · refine Lay.ord h.2 hok.2 hs.2 hr.2 hnd'.2.1 ?_ hc.2 hexc x (by omega) (by omega) i hat
      intro g hg
      have : g ∉ a.begins := fun hga => hnd'.2.2 g hga g hg rfl
      rw [getElem?_killL, if_neg this]; exact hv g (List.mem_append_right _ hg)
  | .alt a c, b, lo, hi, v, h, hok, hs, hr, hnd, hv, hc, hex, x, h1, h2, i, hat => by
    simp only [Sk.size] at h2
    simp only [Sk.size, Sk.begins] at hex
    simp only [Lay] at h
    simp only [Sk.ok, Bool.and_eq_true] at hok
    simp only [Sk.gsc, Bool.and_eq_true] at hs
    simp only [Sk.rex, Bool.and_eq_true] at hr
    simp only [Sk.begins] at hnd hv
    simp only [Cert] at hc
    have hnd' := List.nodup_append.1 hnd
    obtain ⟨h0, ha, hj, hcl⟩ := h
    obtain ⟨c0, ca, cj, cc⟩ := hc
    have hexa : Exit C (b + 1 + a.size) (killL a.begins v) := (Exit.of_eq cj).at (by omega)
    have hexc : Exit C (b + a.size + 2 + c.size) (killL c.begins v) :=
      (hex.mono W_killL_altR).at (by omega)
    by_cases hx0 : x = b
    · subst hx0; have := at_inj h0 hat; subst this
      refine chk c0 (fun _ h => by cases h) (fun _ h => by cases h) ?_
      intro t w htw
      simp only [ordEdges, allSuccs, outVec, List.map_cons, List.map_nil, List.mem_cons, Prod.mk.injEq,
        List.not_mem_nil, or_false] at htw
      rcases htw with ⟨rfl, rfl⟩ | ⟨rfl, rfl⟩
      · exact Cert.entry ca hexa
      · exact Cert.entry cc hexc
    · by_cases hx1 : x < b + 1 + a.size
      · exact Lay.ord ha hok.1 hs.1 hr.1 hnd'.1 (fun g hg => hv g (List.mem_append_left _ hg)) ca hexa
          x (by omega) hx1 i hat
      · by_cases hx2 : x = b + a.size + 1
        · subst hx2; have := at_inj hj hat; subst this
          refine chk cj (fun _ h => by cases h) (fun _ h => by cases h) ?_
          intro t w htw
          simp only [ordEdges, allSuccs, outVec, List.map_cons, List.map_nil, List.mem_cons, Prod.mk.injEq,
            List.not_mem_nil, or_false] at htw
          obtain ⟨rfl, rfl⟩ := htw
          exact (hex.mono W_killL_altL).at (by omega)
        · exact Lay.ord hcl hok.2 hs.2 hr.2 hnd'.2.1 (fun g hg => hv g (List.mem_append_right _ hg)) cc hexc
            x (by omega) (by omega) i hat
  | .loop id mn mx gr g0 cnt body, b, lo, hi, v, h, hok, hs, hr, hnd, hv, hc, hex, x, h1, h2, i, hat => by
    simp only [Sk.size] at h2
    simp only [Sk.size, Sk.begins] at hex
    simp only [Lay] at h
    simp only [Sk.ok, Bool.and_eq_true] at hok
    simp only [Sk.gsc, Bool.and_eq_true, List.all_eq_true, decide_eq_true_eq] at hs
    simp only [Sk.rex, Bool.and_eq_true, List.all_eq_true, List.mem_range'_1, List.contains_iff_mem] at hr
    simp only [Sk.begins] at hnd hv
    simp only [Cert] at hc
    obtain ⟨h0, hrs, hb, hl⟩ := h
    obtain ⟨c0, cr, cb, cl⟩ := hc
    have hR : ∀ g, g0 ≤ g → g < g0 + cnt → g ∈ body.begins := fun g ha hb => hr.1 g ⟨ha, hb⟩
    have hEnt : ∀ j, j ≤ cnt → Exit C (b + 1 + j) (resetVec g0 cnt j v) := by
      intro j hj
      by_cases hj' : j < cnt
      · exact Exit.of_eq (cr j hj')
      · have : j = cnt := by omega
        subst this
        exact Cert.entry cb (Exit.of_eq cl)
    by_cases hx0 : x = b
    · subst hx0; have := at_inj h0 hat; subst this
      refine chk c0 (fun _ h => by cases h) (fun _ h => by cases h) ?_
      intro t w htw
      simp only [ordEdges, allSuccs, outVec, List.map_cons, List.map_nil, List.mem_cons, Prod.mk.injEq,
        List.not_mem_nil, or_false] at htw
      rcases htw with ⟨rfl, rfl⟩ | ⟨rfl, rfl⟩
      · exact ((hEnt 0 (Nat.zero_le _)).mono W_reset0).at (by omega)
      · exact (hex.mono W_killL).at (by omega)
    · by_cases hx1 : x < b + 1 + cnt
      · have hri := hrs (x - (b + 1)) (by omega)
        rw [show b + 1 + (x - (b + 1)) = x by omega] at hri
        have := at_inj hri hat; subst this
        have hci := cr (x - (b + 1)) (by omega)
        rw [show b + 1 + (x - (b + 1)) = x by omega] at hci
        refine chk hci (fun _ h => by cases h) (fun _ h => by cases h) ?_
        intro t w htw
        simp only [ordEdges, allSuccs, outVec, List.map_cons, List.map_nil, List.mem_cons, Prod.mk.injEq,
          List.not_mem_nil, or_false] at htw
        obtain ⟨rfl, rfl⟩ := htw
        exact ((hEnt (x - (b + 1) + 1) (by omega)).mono W_reset_step).at (by omega)
      · by_cases hx2 : x < b + 1 + cnt + body.size
        · refine Lay.ord hb hok.2 hs.1.2 hr.2 hnd ?_ cb (Exit.of_eq cl) x (by omega) hx2 i hat
          intro g hg
          rw [getElem?_resetVec, if_pos (hs.2 g hg), hv g hg]; rfl
        · have : x = b + 1 + cnt + body.size := by omega
          subst this; have := at_inj hl hat; subst this
          refine chk cl (fun _ h => by cases h) (fun _ h => by cases h) ?_
          intro t w htw
          unfold At at h0
          simp only [ordEdges, allSuccs, h0, outVec, List.map_cons, List.map_nil, List.mem_cons, Prod.mk.injEq,
            List.not_mem_nil, or_false] at htw
          rcases htw with ⟨rfl, rfl⟩ | ⟨rfl, rfl⟩
          · exact ((hEnt 0 (Nat.zero_le _)).mono (W_reset_back hs.2)).at (by omega)
          · exact (hex.mono (W_loop_exit hR)).at (by omega)
  | .loop1 mn mx gr body, b, lo, hi, v, h, hok, _, _, _, _, hc, hex, x, h1, h2, i, hat => by
    simp only [Sk.size] at h2
    simp only [Sk.size, Sk.begins] at hex
    simp only [Lay] at h
    simp only [Sk.ok, Bool.and_eq_true] at hok
    simp only [Cert] at hc
    have hex' : Exit C (b + 2) v := hex.mono W_killL_nil
    by_cases hx0 : x = b
    · subst hx0; have := at_inj h.1 hat; subst this
      refine chk hc.1 (fun _ h => by cases h) (fun _ h => by cases h) ?_
      intro t w htw
      simp only [ordEdges, allSuccs, outVec, List.map_cons, List.map_nil, List.mem_cons, Prod.mk.injEq,
        List.not_mem_nil, or_false] at htw
      obtain ⟨rfl, rfl⟩ := htw
      exact hex'
    · have : x = b + 1 := by omega
      subst this; have := at_inj h.2 hat; subst this
      exact chk_plain hok.1.1.1.2 hc.2 hex'
  | .group g' body, b, lo, hi, v, h, hok, hs, hr, hnd, hv, hc, hex, x, h1, h2, i, hat => by
    simp only [Sk.size] at h2
    simp only [Sk.size, Sk.begins] at hex
    simp only [Lay] at h
    simp only [Sk.ok, Bool.and_eq_true, decide_eq_true_eq] at hok
    simp only [Sk.gsc, Bool.and_eq_true, decide_eq_true_eq] at hs
    simp only [Sk.rex] at hr
    simp only [Sk.begins, List.nodup_cons] at hnd
    simp only [Sk.begins] at hv
    simp only [Cert] at hc
    obtain ⟨h0, hb, hl⟩ := h
    obtain ⟨c0, cb, cl⟩ := hc
    have hvg : v[g']? = some 1 := hv g' List.mem_cons_self
    have hlt : g' < v.size := lt_of_getElem?_eq_some hvg
    by_cases hx0 : x = b
    · subst hx0; have := at_inj h0 hat; subst this
      refine chk c0 (fun _ h => by cases h; exact hvg) (fun _ h => by cases h) ?_
      intro t w htw
      simp only [ordEdges, allSuccs, outVec, List.map_cons, List.map_nil, List.mem_cons, Prod.mk.injEq,
        List.not_mem_nil, or_false] at htw
      obtain ⟨rfl, rfl⟩ := htw
      exact Cert.entry cb (Exit.of_eq cl)
    · by_cases hx2 : x < b + 1 + body.size
      · refine Lay.ord hb hok.2 hs.2 hr hnd.2 ?_ cb (Exit.of_eq cl) x (by omega) hx2 i hat
        intro g hg
        have hne : g' ≠ g := fun e => hnd.1 (e ▸ hg)
        rw [Array.getElem?_setIfInBounds_ne hne]
        exact hv g (List.mem_cons_of_mem _ hg)
      · have : x = b + 1 + body.size := by omega
        subst this; have := at_inj hl hat; subst this
        refine chk cl (fun _ h => by cases h) (fun _ h => ?_) ?_
        · cases h
          rw [getElem?_killL, if_neg hnd.1]
          simp [hlt]
        · intro t w htw
          simp only [ordEdges, allSuccs, outVec, List.map_cons, List.map_nil, List.mem_cons, Prod.mk.injEq,
            List.not_mem_nil, or_false] at htw
          obtain ⟨rfl, rfl⟩ := htw
          exact (hex.mono W_killL_group).at (by omega)
  | .look neg bw sg eg body, b, lo, hi, v, h, hok, hs, hr, hnd, hv, hc, hex, x, h1, h2, i, hat => by
    simp only [Sk.size] at h2
    simp only [Sk.size, Sk.begins] at hex
    simp only [Lay] at h
    simp only [Sk.ok, Bool.and_eq_true, decide_eq_true_eq] at hok
    simp only [Sk.gsc, Bool.and_eq_true, decide_eq_true_eq] at hs
    simp only [Sk.rex, Bool.and_eq_true, List.all_eq_true, List.mem_range'_1, List.contains_iff_mem] at hr
    simp only [Sk.begins] at hnd hv
    simp only [Cert] at hc
    obtain ⟨h0, hb, hl⟩ := h
    obtain ⟨c0, cb, cl⟩ := hc
    have hR : ∀ g, sg ≤ g → g < eg → g ∈ body.begins := fun g ha hb => hr.1 g ⟨ha, by omega⟩
    by_cases hx0 : x = b
    · subst hx0; have := at_inj h0 hat; subst this
      have key : ∀ t w, (t = x + 1 ∧ w = lookBodyVec v) ∨ (t = x + body.size + 2 ∧ w = lookContVec neg sg eg v) →
          Exit C t w := by
        intro t w htw
        rcases htw with ⟨rfl, rfl⟩ | ⟨rfl, rfl⟩
        · exact Cert.entry cb (Exit.of_eq cl)
        · exact (hex.mono (W_look_exit hR)).at (by omega)
      cases bw
      · refine chk c0 (fun _ h => by cases h) (fun _ h => by cases h) ?_
        intro t w htw
        simp only [lookI, Bool.false_eq_true, ↓reduceIte, ordEdges, List.mem_cons, Prod.mk.injEq, List.not_mem_nil, or_false] at htw
        exact key t w htw
      · refine chk c0 (fun _ h => by cases h) (fun _ h => by cases h) ?_
        intro t w htw
        simp only [lookI, ↓reduceIte, ordEdges, List.mem_cons, Prod.mk.injEq, List.not_mem_nil, or_false] at htw
        exact key t w htw
    · by_cases hx2 : x < b + 1 + body.size
      · refine Lay.ord hb hok.2 hs.2 hr.2 hnd ?_ cb (Exit.of_eq cl) x (by omega) hx2 i hat
        intro g hg
        rw [getElem?_lookBodyVec, hv g hg]; rfl
      · have : x = b + 1 + body.size := by omega
        subst this; have := at_inj hl hat; subst this
        refine chk cl (fun _ h => by cases h) (fun _ h => by cases h) ?_
        intro t w htw
        simp [ordEdges, allSuccs] at htw

/-! ## The explicit certificate -/

/-- The vectors of the instructions of `sk`, entered with `v`. -/
def ordAt : Sk → Array Nat → List (Array Nat)
  | .nil, _ => []
  | .one _, v => [v]
  | .seq a c, v => ordAt a v ++ ordAt c (killL a.begins v)
  | .alt a c, v => [v] ++ ordAt a v ++ [killL a.begins v] ++ ordAt c v
  | .loop _ _ _ _ g0 cnt body, v => [v] ++ (List.range cnt).map (fun i => resetVec g0 cnt i v) ++
      ordAt body (resetVec g0 cnt cnt v) ++ [killL body.begins (resetVec g0 cnt cnt v)]
  | .loop1 _ _ _ _, v => [v, v]
  | .group g body, v => [v] ++ ordAt body (v.setIfInBounds g 2) ++ [killL body.begins (v.setIfInBounds g 2)]
  | .look _ _ _ _ body, v => [v] ++ ordAt body (lookBodyVec v) ++ [killL body.begins (lookBodyVec v)]

theorem length_ordAt : ∀ (sk : Sk) (v : Array Nat), (ordAt sk v).length = sk.size
  | .nil, _ => rfl
  | .one _, _ => rfl
  | .seq a c, v => by simp [ordAt, Sk.size, length_ordAt a, length_ordAt c]
  | .alt a c, v => by simp [ordAt, Sk.size, length_ordAt a, length_ordAt c]; omega
  | .loop _ _ _ _ _ _ body, v => by simp [ordAt, Sk.size, length_ordAt body]; omega
  | .loop1 _ _ _ _, _ => rfl
  | .group _ body, v => by simp [ordAt, Sk.size, length_ordAt body]
  | .look _ _ _ _ body, v => by simp [ordAt, Sk.size, length_ordAt body]

theorem getElem?_mid {α} (l1 l2 l3 : List α) (i : Nat) (w : α) (h : l2[i]? = some w) :
    (l1 ++ l2 ++ l3)[l1.length + i]? = some w := by
  have hi : i < l2.length := by
    by_cases hi : i < l2.length
    · exact hi
    · rw [List.getElem?_eq_none (by omega)] at h; cases h
  rw [List.append_assoc, List.getElem?_append_right (by omega), Nat.add_sub_cancel_left,
    List.getElem?_append_left hi]
  exact h

/-- A certificate that lists `ordAt sk v` from address `b` on is a `Cert`. -/
theorem cert_of {C : OrdCert} : ∀ (sk : Sk) (b : Nat) (v : Array Nat),
    (∀ i w, (ordAt sk v)[i]? = some w → C[b + i]? = some (some w)) → Cert C sk b v
  | .nil, _, _, _ => trivial
  | .one _, b, v, h => h 0 v rfl
  | .seq a c, b, v, h => by
    simp only [ordAt] at h
    refine ⟨cert_of a b v fun i w hi => ?_, cert_of c _ _ fun i w hi => ?_⟩
    · have := getElem?_mid [] _ (ordAt c (killL a.begins v)) i w hi
      simpa using h _ _ this
    · have := getElem?_mid (ordAt a v) _ [] i w hi
      rw [List.append_nil, length_ordAt] at this
      have := h _ _ this
      rwa [← Nat.add_assoc] at this
  | .alt a c, b, v, h => by
    simp only [ordAt] at h
    refine ⟨h 0 v rfl, cert_of a _ _ fun i w hi => ?_, ?_, cert_of c _ _ fun i w hi => ?_⟩
    · have := getElem?_mid [v] _ ([killL a.begins v] ++ ordAt c v) i w hi
      rw [← List.append_assoc] at this
      have := h _ _ this
      rwa [List.length_singleton, ← Nat.add_assoc] at this
    · have := getElem?_mid ([v] ++ ordAt a v) [killL a.begins v] (ordAt c v) 0 _ rfl
      have := h _ _ this
      simp only [List.length_append, List.length_singleton, length_ordAt, Nat.add_zero] at this
      rwa [show b + (1 + a.size) = b + a.size + 1 by omega] at this
    · have := getElem?_mid ([v] ++ ordAt a v ++ [killL a.begins v]) _ [] i w hi
      rw [List.append_nil] at this
      have := h _ _ this
      simp only [List.length_append, List.length_singleton, length_ordAt] at this
      rwa [show b + (1 + a.size + 1 + i) = b + a.size + 2 + i by omega] at this
  | .loop _ _ _ _ g0 cnt body, b, v, h => by
    simp only [ordAt] at h
    refine ⟨h 0 v rfl, fun i hi => ?_, cert_of body _ _ fun i w hi => ?_, ?_⟩
    · have := getElem?_mid [v] ((List.range cnt).map (fun i => resetVec g0 cnt i v))
        (ordAt body (resetVec g0 cnt cnt v) ++ [killL body.begins (resetVec g0 cnt cnt v)]) i
        (resetVec g0 cnt i v) (by simp [hi])
      rw [← List.append_assoc] at this
      have := h _ _ this
      rwa [List.length_singleton, ← Nat.add_assoc] at this
    · have := getElem?_mid ([v] ++ (List.range cnt).map (fun i => resetVec g0 cnt i v)) _
        [killL body.begins (resetVec g0 cnt cnt v)] i w hi
      have := h _ _ this
      simp only [List.length_append, List.length_singleton, List.length_map, List.length_range] at this
      rwa [show b + (1 + cnt + i) = b + 1 + cnt + i by omega] at this
    · have := getElem?_mid ([v] ++ (List.range cnt).map (fun i => resetVec g0 cnt i v) ++
        ordAt body (resetVec g0 cnt cnt v)) [killL body.begins (resetVec g0 cnt cnt v)] [] 0 _ rfl
      rw [List.append_nil] at this
      have := h _ _ this
      simp only [List.length_append, List.length_singleton, List.length_map, List.length_range,
        length_ordAt, Nat.add_zero] at this
      rwa [show b + (1 + cnt + body.size) = b + 1 + cnt + body.size by omega] at this
  | .loop1 _ _ _ _, b, v, h => ⟨h 0 v rfl, h 1 v rfl⟩
  | .group g body, b, v, h => by
    simp only [ordAt] at h
    refine ⟨h 0 v rfl, cert_of body _ _ fun i w hi => ?_, ?_⟩
    · have := getElem?_mid [v] _ [killL body.begins (v.setIfInBounds g 2)] i w hi
      have := h _ _ this
      rwa [List.length_singleton, ← Nat.add_assoc] at this
    · have := getElem?_mid ([v] ++ ordAt body (v.setIfInBounds g 2)) [killL body.begins (v.setIfInBounds g 2)]
        [] 0 _ rfl
      rw [List.append_nil] at this
      have := h _ _ this
      simp only [List.length_append, List.length_singleton, length_ordAt, Nat.add_zero] at this
      rwa [show b + (1 + body.size) = b + 1 + body.size by omega] at this
  | .look _ _ _ _ body, b, v, h => by
    simp only [ordAt] at h
    refine ⟨h 0 v rfl, cert_of body _ _ fun i w hi => ?_, ?_⟩
    · have := getElem?_mid [v] _ [killL body.begins (lookBodyVec v)] i w hi
      have := h _ _ this
      rwa [List.length_singleton, ← Nat.add_assoc] at this
    · have := getElem?_mid ([v] ++ ordAt body (lookBodyVec v)) [killL body.begins (lookBodyVec v)]
        [] 0 _ rfl
      rw [List.append_nil] at this
      have := h _ _ this
      simp only [List.length_append, List.length_singleton, length_ordAt, Nat.add_zero] at this
      rwa [show b + (1 + body.size) = b + 1 + body.size by omega] at this

theorem size_zero_begins : ∀ {sk : Sk}, sk.size = 0 → sk.begins = []
  | .nil, _ => rfl
  | .one _, _ => rfl
  | .seq a c, h => by
    simp only [Sk.size] at h
    simp only [Sk.begins, size_zero_begins (sk := a) (by omega), size_zero_begins (sk := c) (by omega),
      List.append_nil]
  | .alt _ _, h => by simp only [Sk.size] at h; omega
  | .loop _ _ _ _ _ _ _, h => by simp only [Sk.size] at h; omega
  | .loop1 _ _ _ _, _ => rfl
  | .group _ _, h => by simp only [Sk.size] at h; omega
  | .look _ _ _ _ _, h => by simp only [Sk.size] at h; omega

/-- The first vector is the entry vector. -/
theorem ordAt_head : ∀ (sk : Sk) (v : Array Nat), 0 < sk.size → (ordAt sk v)[0]? = some v
  | .nil, _, h => by simp [Sk.size] at h
  | .one _, _, _ => rfl
  | .seq a c, v, h => by
    simp only [Sk.size] at h
    simp only [ordAt]
    by_cases ha : 0 < a.size
    · rw [List.getElem?_append_left (by rw [length_ordAt]; exact ha)]
      exact ordAt_head a v ha
    · have ha0 : a.size = 0 := by omega
      have hl : ordAt a v = [] := List.eq_nil_of_length_eq_zero (by rw [length_ordAt]; exact ha0)
      rw [hl, List.nil_append, size_zero_begins ha0, killL_nil]
      exact ordAt_head c v (by omega)
  | .alt _ _, _, _ => by simp [ordAt]
  | .loop _ _ _ _ _ _ _, _, _ => by simp [ordAt]
  | .loop1 _ _ _ _, _, _ => rfl
  | .group _ _, _, _ => by simp [ordAt]
  | .look _ _ _ _ _, _, _ => by simp [ordAt]

theorem begins_lt {G nb L : Nat} : ∀ {sk : Sk}, sk.ok G nb L = true → ∀ g ∈ sk.begins, g < G
  | .nil, _, g, hg => by simp [Sk.begins] at hg
  | .one _, _, g, hg => by simp [Sk.begins] at hg
  | .seq a c, hok, g, hg => by
    simp only [Sk.ok, Bool.and_eq_true] at hok
    simp only [Sk.begins, List.mem_append] at hg
    rcases hg with hg | hg
    · exact begins_lt hok.1 g hg
    · exact begins_lt hok.2 g hg
  | .alt a c, hok, g, hg => by
    simp only [Sk.ok, Bool.and_eq_true] at hok
    simp only [Sk.begins, List.mem_append] at hg
    rcases hg with hg | hg
    · exact begins_lt hok.1 g hg
    · exact begins_lt hok.2 g hg
  | .loop _ _ _ _ _ _ body, hok, g, hg => by
    simp only [Sk.ok, Bool.and_eq_true] at hok
    exact begins_lt hok.2 g hg
  | .loop1 _ _ _ _, _, g, hg => by simp [Sk.begins] at hg
  | .group g' body, hok, g, hg => by
    simp only [Sk.ok, Bool.and_eq_true, decide_eq_true_eq] at hok
    simp only [Sk.begins, List.mem_cons] at hg
    rcases hg with hg | hg
    · subst hg; exact hok.1
    · exact begins_lt hok.2 g hg
  | .look _ _ _ _ body, hok, g, hg => by
    simp only [Sk.ok, Bool.and_eq_true] at hok
    exact begins_lt hok.2 g hg

/-- The explicit certificate of the root skeleton `sk` of a program with `G` groups: the vectors of
`ordAt`, plus one (never inspected) entry for the exit address. -/
def ordCert (sk : Sk) (G : Nat) : OrdCert :=
  ((ordAt sk (Array.replicate G 1) ++ [killL sk.begins (Array.replicate G 1)]).map
    (fun w => some w)).toArray

/-- **The explicit certificate passes `checkOrd`** for every program that is the layout of a skeleton
with scoped (`gsc`), exact (`rex`) group ranges and one `Begin` per group. -/
theorem checkOrd_ordCert {prog : Prog} {sk : Sk} {nb L lo hi : Nat} (hlay : Lay prog.insns sk 0)
    (hsz : prog.insns.size = sk.size) (hok : sk.ok prog.groups nb L = true) (hgsc : sk.gsc lo hi = true)
    (hrex : sk.rex = true) (hnd : sk.begins.Nodup) : checkOrd prog (ordCert sk prog.groups) = true := by
  have hget : ∀ i : Nat, (ordCert sk prog.groups)[i]? =
      ((ordAt sk (Array.replicate prog.groups 1) ++ [killL sk.begins (Array.replicate prog.groups 1)])[i]?).map
        (fun w => some w) := by
    intro i
    simp only [ordCert, List.getElem?_toArray, List.getElem?_map]
  have hcert : Cert (ordCert sk prog.groups) sk 0 (Array.replicate prog.groups 1) := by
    apply cert_of
    intro i w hi
    have hlt : i < (ordAt sk (Array.replicate prog.groups 1)).length := by
      by_cases hlt : i < (ordAt sk (Array.replicate prog.groups 1)).length
      · exact hlt
      · rw [List.getElem?_eq_none (by omega)] at hi; cases hi
    rw [Nat.zero_add, hget, List.getElem?_append_left hlt, hi]; rfl
  have hexit : Exit (ordCert sk prog.groups) (0 + sk.size) (killL sk.begins (Array.replicate prog.groups 1)) := by
    apply Exit.of_eq
    rw [Nat.zero_add, hget, List.getElem?_append_right (by rw [length_ordAt]; exact Nat.le_refl _),
      length_ordAt, Nat.sub_self]
    rfl
  simp only [checkOrd, Bool.and_eq_true, beq_iff_eq, List.all_eq_true, List.mem_range]
  refine ⟨?_, ?_⟩
  · rw [hget]
    by_cases h0 : 0 < sk.size
    · rw [List.getElem?_append_left (by rw [length_ordAt]; exact h0), ordAt_head _ _ h0]; rfl
    · have h0' : sk.size = 0 := by omega
      have hl : ordAt sk (Array.replicate prog.groups 1) = [] :=
        List.eq_nil_of_length_eq_zero (by rw [length_ordAt]; exact h0')
      rw [hl, size_zero_begins h0', killL_nil]; rfl
  · intro x hx
    obtain ⟨i, hi⟩ := hlay.get x (Nat.zero_le _) (by omega)
    rw [hi]
    refine Lay.ord hlay hok hgsc hrex hnd ?_ hcert hexit x (Nat.zero_le _) (by omega) i hi
    intro g hg
    have := begins_lt hok g hg
    simp [this]

/-- **C06, capture-order certificate:** every emitted program (the layout of a `Root`) whose groups have
one `Begin` each and whose reset / look-around ranges are exact has a certificate accepted by `checkOrd`. -/
theorem Root.checkOrd_ex {r : IR.Regex} {prog : Prog} {sk : Sk} (R : Root r prog sk) (hnd : sk.begins.Nodup)
    (hrex : sk.rex = true) : ∃ c, Safety.checkOrd prog c = true :=
  ⟨ordCert sk prog.groups, checkOrd_ordCert R.lay R.size R.ok R.gsc hrex hnd⟩

/-! ## Non-vacuity: the program of `(?:(a)|b)*(?=(.))` -/

def ordExSk : Sk :=
  .seq (.loop 0 0 none true 1 1 (.alt (.group 1 (.one (.char 97))) (.one (.char 98))))
    (.seq (.look false false 2 3 (.group 2 (.one .matchAny))) (.one .goal))

def ordExProg : Prog :=
  { (default : Prog) with
    insns := #[.enterLoop 0 0 none true 9, .resetCaptureGroup 1, .alt 7, .beginCaptureGroup 1, .char 97,
      .endCaptureGroup 1, .jump 8, .char 98, .loopAgain 0, .lookahead false 2 3 14, .beginCaptureGroup 2,
      .matchAny, .endCaptureGroup 2, .goal, .goal]
    loops := 1
    groups := 3 }

theorem ordExLay : Lay ordExProg.insns ordExSk 0 := by
  simp only [ordExSk, Lay, Sk.size, At, lookI]
  refine ⟨⟨rfl, ?_, ⟨rfl, ⟨rfl, rfl, rfl⟩, rfl, rfl⟩, rfl⟩, ⟨rfl, ⟨rfl, rfl, rfl⟩, rfl⟩, rfl⟩
  intro i hi
  have : i = 0 := by omega
  subst this; rfl

example : ordExProg.insns.size = ordExSk.size ∧ ordExSk.ok ordExProg.groups 0 1 = true ∧ ordExSk.gsc 0 3 = true ∧
    ordExSk.rex = true ∧ ordExSk.begins.Nodup := by decide

/-- The hypotheses of `checkOrd_ordCert` are satisfiable … -/
example : checkOrd ordExProg (ordCert ordExSk ordExProg.groups) = true :=
  checkOrd_ordCert (nb := 0) (L := 1) (lo := 0) (hi := 3) ordExLay (by decide) (by decide) (by decide) (by decide)
    (by decide)

/-- … and the checker indeed evaluates to `true` on the explicit certificate. -/
example : checkOrd ordExProg (ordCert ordExSk ordExProg.groups) = true := by decide +kernel

#print axioms Root.checkOrd_ex

end Regress.Certs
