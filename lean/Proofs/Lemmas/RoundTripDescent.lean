import Proofs.Lemmas.RoundTripMods
/-!
# Round trip, part 5: the induction over the AST

`node_ok`: for every node of the fragment `frag` (the constructs whose atom case is proved so far),
the four statements of `RoundTripDefs.lean` hold, for every pattern `P` and group total `T`.
-/
namespace Regress.RoundTrip
open Regress Regress.IR Regress.Parse Regress.Lower Regress.Print

section
variable {P : ES.Node} {T : Nat}

/-! ## Assembling the four statements of one node -/

/-- A node that prints the same way in all four contexts. -/
theorem node_of_atom {n : ES.Node} (ha : AtomR P T n)
    (h1 : pr .term n = pr .atom n) (d1 : prDepth .term n = prDepth .atom n)
    (h2 : pr .alt n = pr .term n) (d2 : prDepth .alt n = prDepth .term n)
    (h3 : pr .disj n = pr .alt n) (d3 : prDepth .disj n = prDepth .alt n) : NodeR P T n := by
  have ht := term_of_atom ha h1 d1 (atom_head n)
  have hal := alt_of_term ht h2 d2 (term_head n)
  exact ⟨ha, ht, hal, disj_of_alt hal h3 d3⟩

theorem node_cat {ns : List ES.Node} (h : TermsR P T ns) : NodeR P T (.cat ns) := by
  have hal : AltR P T (.cat ns) := alt_of_terms h
  have hd : DisjR P T (.cat ns) := disj_of_alt hal (by simp only [pr]) (by simp only [prDepth])
  have ha : AtomR P T (.cat ns) :=
    atom_wrapped hd (by simp only [pr]) (by simp only [prDepth]) (fun _ => rfl)
  exact ⟨ha, term_of_atom ha (by simp only [pr]) (by simp only [prDepth]) (atom_head _), hal, hd⟩

theorem node_alt {ns : List ES.Node} (h : ns = [] ∨ AltsR P T ns) : NodeR P T (.alt ns) := by
  have hd : DisjR P T (.alt ns) := disj_of_alts h
  have ha : AtomR P T (.alt ns) :=
    atom_wrapped hd (by simp only [pr]) (by simp only [prDepth]) (fun _ => rfl)
  have ht := term_of_atom ha (by simp only [pr]) (by simp only [prDepth]) (atom_head _)
  exact ⟨ha, ht, alt_of_term ht (by simp only [pr]) (by simp only [prDepth]) (term_head _), hd⟩

theorem node_empty : NodeR P T .empty := by
  have hal : AltR P T .empty := alt_empty
  have hd : DisjR P T .empty := disj_of_alt hal (by simp only [pr]) (by simp only [prDepth])
  have ha : AtomR P T .empty :=
    atom_wrapped hd (by simp only [pr]) (by simp only [prDepth]) (fun _ => rfl)
  exact ⟨ha, term_of_atom ha (by simp only [pr]) (by simp only [prDepth]) (atom_head _), hal, hd⟩

theorem node_quant {n : ES.Node} (mn : Nat) (mx : Option Nat) (g : Bool) (h : AtomR P T n) :
    NodeR P T (.quant mn mx g n) := by
  have ht := term_quant mn mx g h
  have hal := alt_of_term ht (by simp only [pr]) (by simp only [prDepth]) (term_head _)
  have hd := disj_of_alt hal (by simp only [pr]) (by simp only [prDepth])
  exact ⟨atom_wrapped hd (by simp only [pr]) (by simp only [prDepth]) (fun _ => rfl), ht, hal, hd⟩

end

/-! ## The induction -/

/-- The atom cases that are proved separately (`RoundTripProp.lean`, `RoundTripClass.lean`,
`RoundTripVClass.lean`). -/
structure ClassAtoms (P : ES.Node) (T : Nat) : Prop where
  prop : ∀ g k nm, AtomR P T (.prop g k nm)
  cls : ∀ g items, AtomR P T (.cls g items)
  vcls : ∀ g op ops, AtomR P T (.vcls g op ops)

theorem node_ok (P : ES.Node) (T : Nat) (hC : ClassAtoms P T) (n : ES.Node) : NodeR P T n := by
  induction n using ES.Node.rec
    (motive_2 := fun ns => ∀ n ∈ ns, NodeR P T n) with
  | empty => exact node_empty
  | char c => exact node_of_atom (atom_char c) rfl rfl rfl rfl rfl rfl
  | dot => exact node_of_atom atom_dot rfl rfl rfl rfl rfl rfl
  | bol => exact node_of_atom atom_bol rfl rfl rfl rfl rfl rfl
  | eol => exact node_of_atom atom_eol rfl rfl rfl rfl rfl rfl
  | wb => exact node_of_atom atom_wb rfl rfl rfl rfl rfl rfl
  | nwb => exact node_of_atom atom_nwb rfl rfl rfl rfl rfl rfl
  | cat ns ih =>
    have := ih
    exact node_cat (terms_ok ns (fun n hn => (this n hn).term) (fun n _ => term_head n))
  | alt ns ih =>
    have := ih
    cases ns with
    | nil => exact node_alt (.inl rfl)
    | cons n ns => exact node_alt (.inr (alts_ok ns n (fun m hm => (this m hm).alt)))
  | group idx nm n ih =>
    cases nm with
    | none =>
      exact node_of_atom (atom_group idx ih.disj) (by simp only [pr]) (by simp only [prDepth])
        (by simp only [pr]) (by simp only [prDepth]) (by simp only [pr]) (by simp only [prDepth])
    | some nm =>
      exact node_of_atom (atom_named_group idx nm ih.disj) (by simp only [pr]) (by simp only [prDepth])
        (by simp only [pr]) (by simp only [prDepth]) (by simp only [pr]) (by simp only [prDepth])
  | nc n ih =>
    exact node_of_atom (atom_nc ih.disj) (by simp only [pr]) (by simp only [prDepth])
      (by simp only [pr]) (by simp only [prDepth]) (by simp only [pr]) (by simp only [prDepth])
  | mod a r n ih =>
    exact node_of_atom (atom_mod a r ih.disj) (by simp only [pr]) (by simp only [prDepth])
      (by simp only [pr]) (by simp only [prDepth]) (by simp only [pr]) (by simp only [prDepth])
  | look ahead neg n ih =>
    exact node_of_atom (atom_look ahead neg ih.disj) (by simp only [pr]) (by simp only [prDepth])
      (by simp only [pr]) (by simp only [prDepth]) (by simp only [pr]) (by simp only [prDepth])
  | bref k => exact node_of_atom (atom_bref k) rfl rfl rfl rfl rfl rfl
  | nref nm => exact node_of_atom (atom_nref nm) rfl rfl rfl rfl rfl rfl
  | quant mn mx g n ih => exact node_quant mn mx g ih.atom
  | esc e => exact node_of_atom (atom_esc e) rfl rfl rfl rfl rfl rfl
  | prop g k nm => exact node_of_atom (hC.prop g k nm) rfl rfl rfl rfl rfl rfl
  | cls g items => exact node_of_atom (hC.cls g items) rfl rfl rfl rfl rfl rfl
  | vcls g op ops => exact node_of_atom (hC.vcls g op ops) rfl rfl rfl rfl rfl rfl
  | nil => rename_i n hn; cases hn
  | cons a as iha ihas =>
    rename_i n hn
    rcases List.mem_cons.1 hn with rfl | hn
    · exact iha
    · exact ihas n hn

end Regress.RoundTrip
