import Proofs.Lemmas.LowerStringsIV
/-!
# ES specification ⇒ IR semantics: the induction over the AST

`lower_node` / `lower_list`: for every supported AST node, the IR that `lowerNode` produces and
`reverse_cats` finalizes simulates (`Sim`) the Matcher that `compileNode` builds from the same node,
in both directions.  `supported` delimits the constructs covered so far (see `Proofs/Lower.lean`).
-/
namespace Regress.Lower

open Regress Regress.IR Regress.VM Regress.Parse

/-! ## The supported fragment -/

/-- Class-like atoms: without `i` (`classSupported`), with `i` under `u` (`classSupportedIU`) or
with `i` under `v` (`classSupportedIV`); `v`-mode classes with `\\q{…}` strings without `i`
(`classSupportedS`) and with `i` (`classSupportedSI`). -/
def classSupportedAny (fl : IR.Flags) (n : ES.Node) : Bool :=
  classSupported fl n || (fl.icase && fl.unicode && !fl.unicodeSets && classSupportedIU fl n) ||
    (fl.icase && fl.unicode && fl.unicodeSets && classSupportedIV fl n) || classSupportedS fl n ||
    (fl.icase && fl.unicode && fl.unicodeSets && classSupportedSI fl n)

theorem unicode_of_icase {fl : IR.Flags} (hs : fl.icase = false ∨ fl.unicode = true) (hfi : fl.icase = true) :
    fl.unicode = true := by
  rcases hs with h | h
  · rw [hfi] at h; cases h
  · exact h

theorem applyMods_unicode (fl : IR.Flags) (m : Parse.Mods) : (applyMods fl m).unicode = fl.unicode := by
  simp only [applyMods]
  cases m.icase <;> cases m.multiline <;> cases m.dotAll <;> rfl

mutual
/-- The constructs for which the simulation is proved: everything except case-insensitive matching
without `u`/`v` (legacy `Canonicalize`) and properties of strings; a named back-reference must
resolve to a single group; class members and the code points of `\\q{…}` strings must be valid
(scalar) code points. -/
def supported (pattern : ES.Node) : IR.Flags → ES.Node → Bool
  | _, .empty => true
  | fl, .char _ => !fl.icase || fl.unicode
  | fl, .dot => !fl.icase || fl.unicode
  | _, .bol => true
  | _, .eol => true
  | fl, .wb => !fl.icase || fl.unicode
  | fl, .nwb => !fl.icase || fl.unicode
  | fl, .cat ns => supportedList pattern fl ns
  | fl, .alt ns => supportedList pattern fl ns
  | fl, .group _ _ n => supported pattern fl n
  | fl, .nc n => supported pattern fl n
  | fl, .mod add rem n => supported pattern (applyMods fl (modsOf add rem)) n
  | fl, .look _ _ n => supported pattern fl n
  | fl, .bref _ => !fl.icase || fl.unicode
  | fl, .nref name => (!fl.icase || fl.unicode) && (ES.groupSpecifiersThatMatch pattern name).length == 1
  | fl, .quant _ _ _ n => supported pattern fl n
  | fl, .esc e => classSupportedAny fl (.esc e)
  | fl, .prop neg kind name => classSupportedAny fl (.prop neg kind name)
  | fl, .cls neg items => classSupportedAny fl (.cls neg items)
  | fl, .vcls neg op ops => classSupportedAny fl (.vcls neg op ops)
def supportedList (pattern : ES.Node) : IR.Flags → List ES.Node → Bool
  | _, [] => true
  | fl, n :: ns => supported pattern fl n && supportedList pattern fl ns
end

/-! ## Inversion of `lowerList`, leaves of `reverse_cats` -/

theorem lowerList_cons {pattern : ES.Node} {total : Nat} {n : ES.Node} {ns : List ES.Node} {fl : IR.Flags}
    {pi : Nat} {l : List Node} :
    lowerList pattern total (n :: ns) fl pi = .ok l ↔
      ∃ x xs, lowerNode pattern total n fl pi = .ok x ∧
        lowerList pattern total ns fl (pi + ES.countParens n) = .ok xs ∧ l = x :: xs := by
  simp only [lowerList]
  cases h1 : lowerNode pattern total n fl pi <;>
    cases h2 : lowerList pattern total ns fl (pi + ES.countParens n) <;> simp
  exact eq_comm

section
variable {inp : Input} {cs : List Nat}

/-! ## The induction -/

/-- What is proved about the children of a `cat` / `alt`. -/
def ListSim (inp : Input) (cs : List Nat) (total : Nat) (pattern : ES.Node) (ns : List ES.Node) (rer : ES.RER)
    (pi : Nat) (back : Bool) (xs' : List Node) : Prop :=
  (∀ (fuel : Nat) (x : ES.State) (st : St) (c : ES.Cont) (k : St → Option St),
      Rel cs x st → st.caps.length = total → Fresh st pi (pi + ES.countParensList ns) →
      (∀ y s, s ∈ semCat inp (if back then xs'.reverse else xs') (!back) st → Rel cs y s → ResRel cs (c y) (k s)) →
      ResRel cs ((ES.compileAlternative cs.toArray pattern ES.emptyMatcher ns rer (dirOf back) pi).run fuel x c)
        ((semCat inp (if back then xs'.reverse else xs') (!back) st).findSome? k)) ∧
  (∀ (fuel : Nat) (x : ES.State) (st : St) (c : ES.Cont) (k : St → Option St),
      Rel cs x st → st.caps.length = total → Fresh st pi (pi + ES.countParensList ns) →
      (∀ y s, s ∈ xs'.flatMap (fun i => sem inp i (!back) st) → Rel cs y s → ResRel cs (c y) (k s)) →
      ResRel cs ((ES.compileDisjunction cs.toArray pattern ns rer (dirOf back) pi).run fuel x c)
        ((xs'.flatMap (fun i => sem inp i (!back) st)).findSome? k)) ∧
  (∀ x ∈ xs', InRange pi (pi + ES.countParensList ns) x)

mutual
theorem lower_node (ht : Utf8Text inp cs) (pattern : ES.Node) (total : Nat) (htot : ES.countParens pattern ≤ total) :
    ∀ (n : ES.Node) (fl : IR.Flags) (rer : ES.RER) (pi : Nat) (back : Bool) (ir : Node),
      FlagsRel rer fl → inp.unicode = fl.unicode → supported pattern fl n = true →
      lowerNode pattern total n fl pi = .ok ir → pi + ES.countParens n ≤ total →
      ∃ ir', Parse.reverseCats back ir = .ok ir' ∧ NodeSim inp cs total pattern n rer pi back ir ir'
  | .empty, fl, rer, pi, back, ir, hfl, hiu, hs, hl, hb => by
    simp only [lowerNode, Except.ok.injEq] at hl; subst hl
    apply NodeSim.leaf (by simp [Parse.reverseCats]) rfl rfl (by simp [InRange])
    simp only [ES.compileNode]
    exact sim_empty inp cs total _ _ _ _ (fun st => by simp [sem])
  | .char c, fl, rer, pi, back, ir, hfl, hiu, hs, hl, hb => by
    simp only [supported, Bool.or_eq_true, Bool.not_eq_true'] at hs
    cases hfi : fl.icase with
    | false =>
      simp only [lowerNode, charNode, hfi, Bool.not_false, if_true, Except.ok.injEq] at hl; subst hl
      apply NodeSim.leaf (by simp [Parse.reverseCats]) rfl rfl (by simp [InRange])
      simp only [ES.compileNode]
      have hic : rer.ignoreCase = false := by rw [hfl.icase]; exact hfi
      apply sim_charset ht total rer _ false back (fun c2 => c2 == c) _ _ _ (fun st => by simp only [sem])
      intro ch _
      simp [existsCanonMember_noicase hic, ES.CharSet.single]
    | true =>
      have hfu : fl.unicode = true := unicode_of_icase hs hfi
      have hic : rer.ignoreCase = true := by rw [hfl.icase]; exact hfi
      have hu : rer.hasEitherUnicodeFlag = true := by rw [hfl.unicode]; exact hfu
      simp only [lowerNode] at hl
      cases hcn : charNode fl c with
      | error e => rw [hcn] at hl; cases hl
      | ok n0 =>
        rw [hcn] at hl
        simp only [Except.ok.injEq] at hl; subst hl
        obtain ⟨test, hsem, htest, hrv, hng, hin⟩ := charNode_icase (inp := inp) hfi hfu hcn
        apply NodeSim.leaf (hrv back) rfl hng (hin _ _)
        simp only [ES.compileNode]
        exact sim_char_icase ht total rer hic hu c test n0 back _ _ (fun st => hsem _ st) htest
  | .dot, fl, rer, pi, back, ir, hfl, hiu, hs, hl, hb => by
    simp only [supported, Bool.or_eq_true, Bool.not_eq_true'] at hs
    simp only [lowerNode, Except.ok.injEq] at hl; subst hl
    have htestAll : ∀ ch, Utf8.isScalar ch = true →
        (ES.existsCanonMember rer
          (if rer.dotAll then ES.allCharacters rer
           else { chars := fun c => (ES.allCharacters rer).chars c && !ES.isLineTerminator c }) ch != false) =
        (if fl.dotAll then true else !VM.isLineTerminator ch) := by
      intro ch hsc
      have hle := isScalar_le' hsc
      cases hfi : fl.icase with
      | false =>
        have hic : rer.ignoreCase = false := by rw [hfl.icase]; exact hfi
        rw [existsCanonMember_noicase hic]
        cases hd : fl.dotAll <;>
          simp [ES.allCharacters, hic, hfl.dotAll, hd, hle, es_isLT_eq]
      | true =>
        have hfu : fl.unicode = true := unicode_of_icase hs hfi
        have hic : rer.ignoreCase = true := by rw [hfl.icase]; exact hfi
        have hu : rer.hasEitherUnicodeFlag = true := by rw [hfl.unicode]; exact hfu
        exact dot_icase_test hic hu fl.dotAll hfl.dotAll hle
    cases hd : fl.dotAll with
    | true =>
      simp only [if_true]
      apply NodeSim.leaf (by simp [Parse.reverseCats]) rfl rfl (by simp [InRange])
      simp only [ES.compileNode]
      apply sim_charset ht total rer _ false back (fun _ => true) _ _ _ (fun st => by simp only [sem])
      intro ch hsc
      have := htestAll ch hsc
      simp only [hd, if_true] at this
      exact this
    | false =>
      simp only [Bool.false_eq_true, if_false]
      apply NodeSim.leaf (by simp [Parse.reverseCats]) rfl rfl (by simp [InRange])
      simp only [ES.compileNode]
      apply sim_charset ht total rer _ false back (fun c => !VM.isLineTerminator c) _ _ _
        (fun st => by simp only [sem])
      intro ch hsc
      have := htestAll ch hsc
      simp only [hd, Bool.false_eq_true, if_false] at this
      exact this
  | .bol, fl, rer, pi, back, ir, hfl, hiu, hs, hl, hb => by
    simp only [lowerNode, Except.ok.injEq] at hl; subst hl
    apply NodeSim.leaf (by simp [Parse.reverseCats]) rfl rfl (by simp [InRange])
    simp only [ES.compileNode]
    exact sim_bol ht total rer _ _ hfl.multiline _ _
  | .eol, fl, rer, pi, back, ir, hfl, hiu, hs, hl, hb => by
    simp only [lowerNode, Except.ok.injEq] at hl; subst hl
    apply NodeSim.leaf (by simp [Parse.reverseCats]) rfl rfl (by simp [InRange])
    simp only [ES.compileNode]
    exact sim_eol ht total rer _ _ hfl.multiline _ _
  | .wb, fl, rer, pi, back, ir, hfl, hiu, hs, hl, hb => by
    simp only [supported, Bool.or_eq_true, Bool.not_eq_true'] at hs
    simp only [lowerNode, Except.ok.injEq] at hl; subst hl
    apply NodeSim.leaf (by simp [Parse.reverseCats]) rfl rfl (by simp [InRange])
    simp only [ES.compileNode]
    apply sim_wordBoundary ht total rer false (fl.unicode && fl.icase) _ _ _
    intro ch _
    cases hfi : fl.icase with
    | false =>
      have hic : rer.ignoreCase = false := by rw [hfl.icase]; exact hfi
      simp [wordCharacters_noicase hic]
    | true =>
      have hfu : fl.unicode = true := unicode_of_icase hs hfi
      have hic : rer.ignoreCase = true := by rw [hfl.icase]; exact hfi
      have hu : rer.hasEitherUnicodeFlag = true := by rw [hfl.unicode]; exact hfu
      simp [hfu, wordCharacters_icase hic hu]
  | .nwb, fl, rer, pi, back, ir, hfl, hiu, hs, hl, hb => by
    simp only [supported, Bool.or_eq_true, Bool.not_eq_true'] at hs
    simp only [lowerNode, Except.ok.injEq] at hl; subst hl
    apply NodeSim.leaf (by simp [Parse.reverseCats]) rfl rfl (by simp [InRange])
    simp only [ES.compileNode]
    apply sim_wordBoundary ht total rer true (fl.unicode && fl.icase) _ _ _
    intro ch _
    cases hfi : fl.icase with
    | false =>
      have hic : rer.ignoreCase = false := by rw [hfl.icase]; exact hfi
      simp [wordCharacters_noicase hic]
    | true =>
      have hfu : fl.unicode = true := unicode_of_icase hs hfi
      have hic : rer.ignoreCase = true := by rw [hfl.icase]; exact hfi
      have hu : rer.hasEitherUnicodeFlag = true := by rw [hfl.unicode]; exact hfu
      simp [hfu, wordCharacters_icase hic hu]
  | .cat ns, fl, rer, pi, back, ir, hfl, hiu, hs, hl, hb => by
    simp only [supported] at hs
    simp only [lowerNode] at hl
    cases hxs : lowerList pattern total ns fl pi with
    | error e => rw [hxs] at hl; cases hl
    | ok xs =>
      rw [hxs] at hl
      simp only [Except.ok.injEq] at hl; subst hl
      simp only [ES.countParens] at hb
      obtain ⟨xs', hxs', ⟨hcat, _, hin⟩, hng, hid⟩ :=
        lower_list ht pattern total htot ns fl rer pi back xs hfl hiu hs hxs hb
      refine ⟨_, reverseCats_makeCat_ok hxs', ?_,
        inRange_makeCat (fun x hx => hin x (by cases back <;> simpa using hx)), ?_, ?_⟩
      · intro fuel x st c k hr hlen hf hc
        simp only [ES.compileNode]
        rw [sem_makeCat] at hc ⊢
        exact hcat fuel x st c k hr hlen hf hc
      · rw [numGroups_makeCat]; simp only [ES.countParens]
        cases back <;> simp [numGroupsList_reverse, hng]
      · intro hb0 hlb; subst hb0
        simp only [hasLookbehind] at hlb
        simp [hid rfl hlb]
  | .alt ns, fl, rer, pi, back, ir, hfl, hiu, hs, hl, hb => by
    simp only [supported] at hs
    simp only [lowerNode] at hl
    by_cases hne : ns.isEmpty = true
    · simp [hne] at hl
    · simp only [hne, Bool.false_eq_true, if_false] at hl
      cases hxs : lowerList pattern total ns fl pi with
      | error e => rw [hxs] at hl; cases hl
      | ok xs =>
        rw [hxs] at hl
        simp only [Except.ok.injEq] at hl; subst hl
        have hxne : xs ≠ [] := by
          intro h; subst h
          cases ns with
          | nil => simp at hne
          | cons a t => obtain ⟨_, _, _, _, h⟩ := lowerList_cons.1 hxs; cases h
        simp only [ES.countParens] at hb
        obtain ⟨xs', hxs', ⟨_, halt, hin⟩, hng, hid⟩ :=
          lower_list ht pattern total htot ns fl rer pi back xs hfl hiu hs hxs hb
        have hxne' : xs' ≠ [] := by
          intro h; have := reverseCatsList_length hxs'; rw [h] at this
          exact hxne (List.length_eq_zero_iff.1 this.symm)
        refine ⟨_, reverseCats_makeAlt_ok hxne hxs', ?_, inRange_makeAltFuel _ _ hin,
          by rw [numGroups_makeAlt]; exact hng, ?_⟩
        · intro fuel x st c k hr hlen hf hc
          simp only [ES.compileNode]
          rw [sem_makeAlt inp _ _ _ hxne'] at hc ⊢
          exact halt fuel x st c k hr hlen hf hc
        · intro hb0 hlb
          simp only [hasLookbehind] at hlb
          rw [hid hb0 hlb]
  | .group idx name n, fl, rer, pi, back, ir, hfl, hiu, hs, hl, hb => by
    simp only [supported] at hs
    simp only [lowerNode] at hl
    cases hc0 : lowerNode pattern total n fl (pi + 1) with
    | error e => rw [hc0] at hl; cases hl
    | ok c0 =>
      rw [hc0] at hl
      simp only [Except.ok.injEq] at hl; subst hl
      simp only [ES.countParens] at hb
      have hrange : pi + 1 + ES.countParens n = pi + (1 + ES.countParens n) := by omega
      obtain ⟨c', hc', hsim, hin, hng, hid⟩ :=
        lower_node ht pattern total htot n fl rer (pi + 1) back c0 hfl hiu hs hc0 (by omega)
      rw [hrange] at hsim hin
      refine ⟨.group pi name c', by simp [Parse.reverseCats, hc'], ?_, ?_,
        by simp only [numGroups, hng, ES.countParens]; omega, ?_⟩
      · simp only [ES.compileNode, ES.countParens]
        exact sim_group total _ c' back pi _ name hsim hin (by omega)
      · simp only [InRange, ES.countParens]
        exact ⟨Nat.le_refl _, by omega, InRange.mono (by omega) (Nat.le_refl _) _ hin⟩
      · intro hb0 hlb
        simp only [hasLookbehind] at hlb
        rw [hid hb0 hlb]
  | .nc n, fl, rer, pi, back, ir, hfl, hiu, hs, hl, hb => by
    simp only [supported] at hs
    simp only [lowerNode] at hl
    simp only [ES.countParens] at hb
    obtain ⟨ir', hrv, hsim, hin, hng, hid⟩ := lower_node ht pattern total htot n fl rer pi back ir hfl hiu hs hl hb
    refine ⟨ir', hrv, ?_, ?_, ?_, ?_⟩
    · simpa only [ES.countParens, ES.compileNode] using hsim
    · simpa only [ES.countParens] using hin
    · simpa only [ES.countParens] using hng
    · simpa only [hasLookbehind] using hid
  | .mod add rem n, fl, rer, pi, back, ir, hfl, hiu, hs, hl, hb => by
    simp only [supported] at hs
    simp only [lowerNode] at hl
    split at hl
    · cases hl
    · simp only [ES.countParens] at hb
      obtain ⟨ir', hrv, hsim, hin, hng, hid⟩ :=
        lower_node ht pattern total htot n _ _ pi back ir (hfl.mods add rem) (by rw [applyMods_unicode]; exact hiu) hs hl hb
      refine ⟨ir', hrv, ?_, ?_, ?_, ?_⟩
      · simpa only [ES.countParens, ES.compileNode] using hsim
      · simpa only [ES.countParens] using hin
      · simpa only [ES.countParens] using hng
      · simpa only [hasLookbehind] using hid
  | .look ahead neg n, fl, rer, pi, back, ir, hfl, hiu, hs, hl, hb => by
    simp only [supported] at hs
    simp only [lowerNode] at hl
    cases hc0 : lowerNode pattern total n fl pi with
    | error e => rw [hc0] at hl; cases hl
    | ok c0 =>
      rw [hc0] at hl
      simp only [Except.ok.injEq] at hl; subst hl
      simp only [ES.countParens] at hb
      obtain ⟨c', hc', hsim, hin, hng, hid⟩ :=
        lower_node ht pattern total htot n fl rer pi (!ahead) c0 hfl hiu hs hc0 hb
      have hdir : (if ahead = true then ES.Direction.forward else ES.Direction.backward) = dirOf (!ahead) := by
        cases ahead <;> rfl
      simp only [Bool.not_not] at hsim
      refine ⟨.look neg (!ahead) pi (pi + ES.countParens n) c', by simp [Parse.reverseCats, hc'], ?_,
        by simpa [InRange, ES.countParens] using hin, by simpa [numGroups, ES.countParens] using hng, ?_⟩
      · simp only [ES.compileNode, hdir, ES.countParens]
        cases neg with
        | false => exact sim_look_pos total _ c' ahead _ _ _ _ _ hsim
        | true => exact sim_look_neg total _ c' ahead _ _ _ _ _ hsim
      · intro _ hlb
        simp only [hasLookbehind, Bool.or_eq_false_iff, Bool.not_eq_false'] at hlb
        rw [hid (by simp [hlb.1]) hlb.2]
  | .bref k, fl, rer, pi, back, ir, hfl, hiu, hs, hl, hb => by
    simp only [supported, Bool.or_eq_true, Bool.not_eq_true'] at hs
    simp only [lowerNode] at hl
    split at hl
    · rename_i hk
      simp only [Except.ok.injEq] at hl; subst hl
      apply NodeSim.leaf (by simp [Parse.reverseCats]) rfl rfl (by simp [InRange])
      simp only [ES.compileNode]
      cases hfi : fl.icase with
      | false =>
        have hic : rer.ignoreCase = false := by rw [hfl.icase]; exact hfi
        exact sim_backref ht total rer hic k hk.1 hk.2 back _ _
      | true =>
        have hfu : fl.unicode = true := unicode_of_icase hs hfi
        have hic : rer.ignoreCase = true := by rw [hfl.icase]; exact hfi
        have hu : rer.hasEitherUnicodeFlag = true := by rw [hfl.unicode]; exact hfu
        exact sim_backref_icase ht (by rw [hiu]; exact hfu) total rer hic hu k hk.1 hk.2 back _ _
    · cases hl
  | .nref name, fl, rer, pi, back, ir, hfl, hiu, hs, hl, hb => by
    simp only [supported, Bool.and_eq_true, Bool.or_eq_true, Bool.not_eq_true', beq_iff_eq] at hs
    simp only [lowerNode] at hl
    match hg : ES.groupSpecifiersThatMatch pattern name, hs.2 with
    | [i], _ =>
      rw [hg] at hl
      simp only [Except.ok.injEq] at hl; subst hl
      apply NodeSim.leaf (by simp [Parse.reverseCats]) rfl rfl (by simp [InRange])
      have hbd := groupSpecifiers_bound pattern name i (by rw [hg]; simp)
      simp only [ES.compileNode, hg]
      cases hfi : fl.icase with
      | false =>
        have hic : rer.ignoreCase = false := by rw [hfl.icase]; exact hfi
        exact sim_backref ht total rer hic i hbd.1 (by omega) back _ _
      | true =>
        have hfu : fl.unicode = true := unicode_of_icase hs.1 hfi
        have hic : rer.ignoreCase = true := by rw [hfl.icase]; exact hfi
        have hu : rer.hasEitherUnicodeFlag = true := by rw [hfl.unicode]; exact hfu
        exact sim_backref_icase ht (by rw [hiu]; exact hfu) total rer hic hu i hbd.1 (by omega) back _ _
  | .quant min max greedy n, fl, rer, pi, back, ir, hfl, hiu, hs, hl, hb => by
    simp only [supported] at hs
    simp only [lowerNode] at hl
    have hq : ∀ mx, max = some mx → min ≤ mx := by
      intro mx hmx
      subst hmx
      cases hqa : quantifiable fl n
      · simp [hqa] at hl
      · simp only [hqa, Bool.not_true, Bool.false_eq_true, if_false] at hl
        by_cases hgt : min > mx
        · simp [hgt] at hl
        · omega
    have hl' : ∃ c0, lowerNode pattern total n fl pi = .ok c0 ∧
        ir = .loop c0 ⟨min, max, greedy⟩ pi (pi + ES.countParens n) := by
      cases hqa : quantifiable fl n
      · simp [hqa] at hl
      · simp only [hqa, Bool.not_true, Bool.false_eq_true, if_false] at hl
        cases max with
        | none =>
          simp only [Bool.false_eq_true, if_false, Bool.or_false, decide_eq_true_eq] at hl
          by_cases hu : Parse.USIZE_MAX < min
          · simp [hu] at hl
          · simp only [hu, if_false] at hl
            cases hc0 : lowerNode pattern total n fl pi with
            | error e => rw [hc0] at hl; cases hl
            | ok c0 => rw [hc0] at hl; simp only [Except.ok.injEq] at hl; exact ⟨c0, rfl, hl.symm⟩
        | some mx =>
          simp only [decide_eq_true_eq, Bool.or_eq_true] at hl
          by_cases hgt : min > mx
          · simp [hgt] at hl
          · simp only [hgt, if_false] at hl
            by_cases hu : Parse.USIZE_MAX < min ∨ Parse.USIZE_MAX < mx
            · simp [hu] at hl
            · simp only [hu, if_false] at hl
              cases hc0 : lowerNode pattern total n fl pi with
              | error e => rw [hc0] at hl; cases hl
              | ok c0 => rw [hc0] at hl; simp only [Except.ok.injEq] at hl; exact ⟨c0, rfl, hl.symm⟩
    obtain ⟨c0, hc0, rfl⟩ := hl'
    simp only [ES.countParens] at hb
    obtain ⟨c', hc', hsim, hin, hng, hid⟩ := lower_node ht pattern total htot n fl rer pi back c0 hfl hiu hs hc0 hb
    refine ⟨.loop c' ⟨min, max, greedy⟩ pi (pi + ES.countParens n), by simp [Parse.reverseCats, hc'], ?_,
      by simp only [InRange, ES.countParens]; exact ⟨Nat.le_refl _, Nat.le_refl _, hin⟩,
      by simpa [numGroups, ES.countParens] using hng, ?_⟩
    · simp only [ES.compileNode, ES.countParens]
      exact sim_loop total _ c' (!back) pi (ES.countParens n) ⟨min, max, greedy⟩ hsim
        (fun st s hs => sem_frame inp _ _ c' (!back) st s hin hs) hq
    · intro hb0 hlb
      simp only [hasLookbehind] at hlb
      rw [hid hb0 hlb]
  | .esc e, fl, rer, pi, back, ir, hfl, hiu, hs, hl, hb => by
    simp only [supported, classSupportedAny, Bool.or_eq_true, Bool.and_eq_true, Bool.not_eq_true'] at hs
    rcases hs with (((hs | ⟨⟨⟨h1, h2⟩, h3⟩, h4⟩) | ⟨⟨⟨h1, h2⟩, h3⟩, h4⟩) | hs) | ⟨⟨⟨h1, h2⟩, h3⟩, h4⟩
    · exact lower_class_node ht pattern total _ fl rer pi back ir hfl hs hl
    · exact lower_class_node_iu ht pattern total _ fl rer pi back ir hfl h1 h2 h3 h4 hl
    · exact lower_class_node_iv ht pattern total _ fl rer pi back ir hfl h1 h2 h3 h4 hl
    · exact lower_class_node_s ht pattern total _ fl rer pi back ir hfl hs hl
    · exact lower_class_node_si ht (by rw [hiu]; exact h2) pattern total _ fl rer pi back ir hfl h1 h2 h3 h4 hl
  | .prop neg kind name, fl, rer, pi, back, ir, hfl, hiu, hs, hl, hb => by
    simp only [supported, classSupportedAny, Bool.or_eq_true, Bool.and_eq_true, Bool.not_eq_true'] at hs
    rcases hs with (((hs | ⟨⟨⟨h1, h2⟩, h3⟩, h4⟩) | ⟨⟨⟨h1, h2⟩, h3⟩, h4⟩) | hs) | ⟨⟨⟨h1, h2⟩, h3⟩, h4⟩
    · exact lower_class_node ht pattern total _ fl rer pi back ir hfl hs hl
    · exact lower_class_node_iu ht pattern total _ fl rer pi back ir hfl h1 h2 h3 h4 hl
    · exact lower_class_node_iv ht pattern total _ fl rer pi back ir hfl h1 h2 h3 h4 hl
    · exact lower_class_node_s ht pattern total _ fl rer pi back ir hfl hs hl
    · exact lower_class_node_si ht (by rw [hiu]; exact h2) pattern total _ fl rer pi back ir hfl h1 h2 h3 h4 hl
  | .cls neg items, fl, rer, pi, back, ir, hfl, hiu, hs, hl, hb => by
    simp only [supported, classSupportedAny, Bool.or_eq_true, Bool.and_eq_true, Bool.not_eq_true'] at hs
    rcases hs with (((hs | ⟨⟨⟨h1, h2⟩, h3⟩, h4⟩) | ⟨⟨⟨h1, h2⟩, h3⟩, h4⟩) | hs) | ⟨⟨⟨h1, h2⟩, h3⟩, h4⟩
    · exact lower_class_node ht pattern total _ fl rer pi back ir hfl hs hl
    · exact lower_class_node_iu ht pattern total _ fl rer pi back ir hfl h1 h2 h3 h4 hl
    · exact lower_class_node_iv ht pattern total _ fl rer pi back ir hfl h1 h2 h3 h4 hl
    · exact lower_class_node_s ht pattern total _ fl rer pi back ir hfl hs hl
    · exact lower_class_node_si ht (by rw [hiu]; exact h2) pattern total _ fl rer pi back ir hfl h1 h2 h3 h4 hl
  | .vcls neg op ops, fl, rer, pi, back, ir, hfl, hiu, hs, hl, hb => by
    simp only [supported, classSupportedAny, Bool.or_eq_true, Bool.and_eq_true, Bool.not_eq_true'] at hs
    rcases hs with (((hs | ⟨⟨⟨h1, h2⟩, h3⟩, h4⟩) | ⟨⟨⟨h1, h2⟩, h3⟩, h4⟩) | hs) | ⟨⟨⟨h1, h2⟩, h3⟩, h4⟩
    · exact lower_class_node ht pattern total _ fl rer pi back ir hfl hs hl
    · exact lower_class_node_iu ht pattern total _ fl rer pi back ir hfl h1 h2 h3 h4 hl
    · exact lower_class_node_iv ht pattern total _ fl rer pi back ir hfl h1 h2 h3 h4 hl
    · exact lower_class_node_s ht pattern total _ fl rer pi back ir hfl hs hl
    · exact lower_class_node_si ht (by rw [hiu]; exact h2) pattern total _ fl rer pi back ir hfl h1 h2 h3 h4 hl
theorem lower_list (ht : Utf8Text inp cs) (pattern : ES.Node) (total : Nat) (htot : ES.countParens pattern ≤ total) :
    ∀ (ns : List ES.Node) (fl : IR.Flags) (rer : ES.RER) (pi : Nat) (back : Bool) (xs : List Node),
      FlagsRel rer fl → inp.unicode = fl.unicode → supportedList pattern fl ns = true →
      lowerList pattern total ns fl pi = .ok xs → pi + ES.countParensList ns ≤ total →
      ∃ xs', reverseCatsList back xs = .ok xs' ∧
        ListSim inp cs total pattern ns rer pi back xs' ∧ numGroupsList xs' = ES.countParensList ns ∧
        (back = false → hasLookbehindList ns = false → xs' = xs)
  | [], fl, rer, pi, back, xs, hfl, hiu, hs, hl, hb => by
    simp only [lowerList, Except.ok.injEq] at hl; subst hl
    refine ⟨[], by simp [reverseCatsList], ⟨?_, ?_, by simp⟩, by simp [numGroupsList, ES.countParensList],
      fun _ _ => rfl⟩
    · intro fuel x st c k hr _ _ hc
      simp only [ES.compileAlternative, ES.emptyMatcher, List.reverse_nil, ite_self, semCat, findSome?_single] at hc ⊢
      exact hc x st (by simp) hr
    · intro fuel x st c k _ _ _ _
      simp [ES.compileDisjunction, ResRel]
  | n :: ns, fl, rer, pi, back, xs, hfl, hiu, hs, hl, hb => by
    simp only [supportedList, Bool.and_eq_true] at hs
    obtain ⟨x0, xs0, hx0, hxs0, rfl⟩ := lowerList_cons.1 hl
    simp only [ES.countParensList] at hb
    obtain ⟨x1, hx1, hsimN, hinN, hngN, hidN⟩ :=
      lower_node ht pattern total htot n fl rer pi back x0 hfl hiu hs.1 hx0 (by omega)
    obtain ⟨xs1, hxs1, ⟨hcatL, haltL, hinL⟩, hngL, hidL⟩ :=
      lower_list ht pattern total htot ns fl rer (pi + ES.countParens n) back xs0 hfl hiu hs.2 hxs0 (by omega)
    have hrangeL : pi + ES.countParens n + ES.countParensList ns = pi + (ES.countParens n + ES.countParensList ns) := by
      omega
    refine ⟨x1 :: xs1, reverseCatsList_cons.2 ⟨x1, xs1, hx1, hxs1, rfl⟩, ⟨?_, ?_, ?_⟩,
      by simp [numGroupsList, ES.countParensList, hngN, hngL], ?_⟩
    rotate_left 3
    · intro hb0 hlb
      simp only [hasLookbehindList, Bool.or_eq_false_iff] at hlb
      rw [hidN hb0 hlb.1, hidL hb0 hlb.2]
    · -- sequence
      intro fuel x st c k hr hlen hf hc
      simp only [ES.countParensList] at hf
      cases back with
      | false =>
        simp only [Bool.false_eq_true, if_false, dirOf_false, Bool.not_false] at hc hcatL hsimN ⊢
        rw [compileAlternative_cons_fwd]
        simp only [semCat] at hc ⊢
        rw [findSome?_flatMap']
        apply hsimN fuel x st _ _ hr hlen (hf.mono (Nat.le_refl _) (by omega))
        intro y s hs' hys
        have hfs := sem_frame inp _ _ x1 true st s hinN hs'
        apply hcatL fuel y s c k hys (by rw [hfs.1]; exact hlen)
        · rw [hrangeL]; exact (hf.mono (by omega) (Nat.le_refl _)).of_frame hfs (Or.inr (Nat.le_refl _))
        · intro y' s' hs'' hys'
          exact hc y' s' (List.mem_flatMap.2 ⟨s, hs', hs''⟩) hys'
      | true =>
        simp only [if_true, dirOf_true, Bool.not_true, List.reverse_cons] at hc hcatL hsimN ⊢
        rw [compileAlternative_cons_bwd]
        rw [semCat_append] at hc ⊢
        rw [findSome?_flatMap']
        apply hcatL fuel x st _ _ hr hlen (by rw [hrangeL]; exact hf.mono (by omega) (Nat.le_refl _))
        intro y s hs' hys
        have hfs := semCat_frame inp (pi + ES.countParens n) (pi + ES.countParens n + ES.countParensList ns)
          xs1.reverse false st s (fun z hz => hinL z (by simpa using hz)) hs'
        rw [semCat_singleton]
        apply hsimN fuel y s c k hys (by rw [hfs.1]; exact hlen)
        · exact (hf.mono (Nat.le_refl _) (by omega)).of_frame hfs (Or.inl (Nat.le_refl _))
        · intro y' s' hs'' hys'
          exact hc y' s' (List.mem_flatMap.2 ⟨s, hs', by rw [semCat_singleton]; exact hs''⟩) hys'
    · -- alternatives
      intro fuel x st c k hr hlen hf hc
      simp only [ES.countParensList] at hf
      cases ns with
      | nil =>
        simp only [lowerList, Except.ok.injEq] at hxs0; subst hxs0
        simp only [reverseCatsList, Except.ok.injEq] at hxs1; subst hxs1
        simp only [ES.compileDisjunction, List.flatMap_cons, List.flatMap_nil, List.append_nil] at hc ⊢
        exact hsimN fuel x st c k hr hlen (hf.mono (Nat.le_refl _) (by omega)) hc
      | cons m rest =>
        simp only [ES.compileDisjunction, ES.matchTwoAlternatives, List.flatMap_cons] at hc ⊢
        rw [findSome?_append']
        apply ResRel.alt
        · exact hsimN fuel x st c k hr hlen (hf.mono (Nat.le_refl _) (by omega))
            (fun y s hs' => hc y s (List.mem_append_left _ hs'))
        · apply haltL fuel x st c k hr hlen (by rw [hrangeL]; exact hf.mono (by omega) (Nat.le_refl _))
          intro y s hs' hys
          exact hc y s (List.mem_append_right _ (by simpa using hs')) hys
    · intro z hz
      simp only [ES.countParensList]
      rcases List.mem_cons.1 hz with rfl | hz
      · exact InRange.mono (Nat.le_refl _) (by omega) _ hinN
      · rw [← hrangeL]; exact InRange.mono (by omega) (Nat.le_refl _) _ (hinL z hz)
end

end

end Regress.Lower
