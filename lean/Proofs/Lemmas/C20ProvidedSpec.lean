import RegressModel.Api.SearcherProvided
import Proofs.Lemmas.SearcherSpec
/-!
# Specification for C20-provided: the two-ended walk of the forward step list

Only definitions. `L` is the full list of forward steps of a searcher (`forwardSteps ctx`, without the
final `Done`). The abstract searcher is a pair of indices `i ≤ j` into `L` (initially `0` and
`L.length`): `L[i..j)` is what has not been handed out yet.

* `next`            — if `i < j` return `L[i]` and increment `i`, else `Done`;
* `next_back`       — if `i < j` return `L[j-1]` and decrement `j`, else `Done`;
* `next_match`      — advance `i` until a `Match` step has been passed (return its range) or `i = j`
                      (return `None`);
* `next_reject`     — the same for `Reject`;
* `next_match_back`, `next_reject_back` — the same with `j` moving downwards.
-/
namespace Regress.C20
open Regress.Api

/-- The range of a `Match` step. -/
def isMatch : SearchStep → Option (Nat × Nat)
  | .match a b => some (a, b)
  | _ => none

/-- The range of a `Reject` step. -/
def isReject : SearchStep → Option (Nat × Nat)
  | .reject a b => some (a, b)
  | _ => none

/-- `scanFwd L p n i`: look at `L[i], L[i+1], …` (at most `n` of them); stop after the first step
wanted by `p` (returning its range and the index after it), or after `n` steps (returning `none`). -/
def scanFwd (L : List SearchStep) (p : SearchStep → Option (Nat × Nat)) :
    Nat → Nat → Option (Nat × Nat) × Nat
  | 0, i => (none, i)
  | n + 1, i =>
    match p (L.getD i .done) with
    | some r => (some r, i + 1)
    | none => scanFwd L p n (i + 1)

/-- `scanBack L p n j`: look at `L[j-1], L[j-2], …` (at most `n` of them); stop after the first step
wanted by `p` (returning its range and its index), or after `n` steps (returning `none`). -/
def scanBack (L : List SearchStep) (p : SearchStep → Option (Nat × Nat)) :
    Nat → Nat → Option (Nat × Nat) × Nat
  | 0, j => (none, j)
  | n + 1, j =>
    match p (L.getD (j - 1) .done) with
    | some r => (some r, j - 1)
    | none => scanBack L p n (j - 1)

/-- One call on the abstract searcher `(i, j)`: the result and the new indices. -/
def walkOp (L : List SearchStep) : SOp → Nat × Nat → SOpResult × (Nat × Nat)
  | .next, (i, j) =>
    if i < j then (.step (L.getD i .done), (i + 1, j)) else (.step .done, (i, j))
  | .nextBack, (i, j) =>
    if i < j then (.step (L.getD (j - 1) .done), (i, j - 1)) else (.step .done, (i, j))
  | .nextMatch, (i, j) =>
    let r := scanFwd L isMatch (j - i) i
    (.range r.1, (r.2, j))
  | .nextReject, (i, j) =>
    let r := scanFwd L isReject (j - i) i
    (.range r.1, (r.2, j))
  | .nextMatchBack, (i, j) =>
    let r := scanBack L isMatch (j - i) j
    (.range r.1, (i, r.2))
  | .nextRejectBack, (i, j) =>
    let r := scanBack L isReject (j - i) j
    (.range r.1, (i, r.2))

/-- A sequence of calls on the abstract searcher `w = (i, j)`. -/
def walkOpsFrom (L : List SearchStep) : List SOp → Nat × Nat → List SOpResult
  | [], _ => []
  | op :: ops, w => (walkOp L op w).1 :: walkOpsFrom L ops (walkOp L op w).2

/-- The two-ended walk of `L`: what the calls `ops` return on a fresh abstract searcher. -/
def walkOps (L : List SearchStep) (ops : List SOp) : List SOpResult :=
  walkOpsFrom L ops (0, L.length)

/-- The indices after the calls `ops`. -/
def walkEnd (L : List SearchStep) : List SOp → Nat × Nat → Nat × Nat
  | [], w => w
  | op :: ops, w => walkEnd L ops (walkOp L op w).2

end Regress.C20
