import Proofs.Lemmas.C08FragDefs
import Proofs.C11
/-!
# C08 on a fragment: Unicode property escapes `\p{…}` / `\P{…}`

The crate's `try_consume_unicode_property_escape` (one loop accumulating the name as a number, the
generated name tables of `src/unicodetables.rs`) against the grammar's `propEscape` (two maximal
runs of property characters around an optional `=`, the name lists of the Unicode 17 / ECMA-262
snapshot).  That the two table families hold the same names is C11 (`Proofs/C11.lean`,
`*_sound` / `*_complete`); what is added here is the agreement of the two scanners, the empty
names, the six property-name spellings, and the seven properties of strings.
-/
namespace Regress.C08Frag
open Regress Regress.IR Regress.Parse Regress.ESG Regress.Packed Regress.Props

/-! ## `nameOfBytes` is injective on byte strings -/

theorem nobr_cons (b : Nat) (l : List Nat) :
    nameOfBytes (b :: l).reverse = nameOfBytes l.reverse * 256 + b := by
  simp [nameOfBytes, List.foldl_append]

theorem nobr_pos (l : List Nat) : 1 ≤ nameOfBytes l.reverse := by
  induction l with
  | nil => exact Nat.le_refl 1
  | cons b l ih => rw [nobr_cons]; omega

theorem nobr_inj : ∀ (l l' : List Nat), (∀ x ∈ l, x < 256) → (∀ x ∈ l', x < 256) →
    nameOfBytes l.reverse = nameOfBytes l'.reverse → l = l' := by
  intro l
  induction l with
  | nil =>
    intro l' _ h2 h
    cases l' with
    | nil => rfl
    | cons b l' =>
      rw [nobr_cons] at h
      have := nobr_pos l'
      have : nameOfBytes ([] : List Nat).reverse = 1 := rfl
      omega
  | cons a l ih =>
    intro l' h1 h2 h
    cases l' with
    | nil =>
      rw [nobr_cons] at h
      have := nobr_pos l
      have : nameOfBytes ([] : List Nat).reverse = 1 := rfl
      omega
    | cons b l' =>
      rw [nobr_cons, nobr_cons] at h
      have ha := h1 a (by simp)
      have hb := h2 b (by simp)
      have e1 : a = b := by omega
      have e2 : nameOfBytes l.reverse = nameOfBytes l'.reverse := by omega
      rw [e1, ih l' (fun x hx => h1 x (by simp [hx])) (fun x hx => h2 x (by simp [hx])) e2]

def Bytes (l : List Nat) : Prop := ∀ x ∈ l, x < 256

theorem key_inj {a b : List Nat} (ha : Bytes a) (hb : Bytes b) (h : key a = key b) : a = b := by
  have := nobr_inj a.reverse b.reverse (fun x hx => ha x (by simpa using hx)) (fun x hx => hb x (by simpa using hx))
    (by simpa [key] using h)
  simpa using congrArg List.reverse this

/-! ## The two scanners -/

theorem propChar_facts {x : Nat} (h : isPropChar x = true) :
    x ≠ 0x7D ∧ x ≠ 0x3D ∧ (isAsciiAlnum x || x == 0x5F) = true ∧ x < 256 ∧ Plain x := by
  simp only [isPropChar, ESG.isAsciiLetter, ESG.isDigit, Bool.or_eq_true, Bool.and_eq_true, decide_eq_true_eq,
    beq_iff_eq] at h
  refine ⟨by omega, by omega, ?_, by omega, ⟨by omega, by omega, by omega, by omega, by omega⟩⟩
  simp only [isAsciiAlnum, Bool.or_eq_true, Bool.and_eq_true, decide_eq_true_eq, beq_iff_eq]
  omega

theorem takeProp_spec : ∀ (s acc : List Nat), ∃ pre rest, s = pre ++ rest ∧ (∀ x ∈ pre, isPropChar x = true) ∧
    (∀ x r, rest = x :: r → isPropChar x = false) ∧ takeProp s acc = (acc.reverse ++ pre, rest) := by
  intro s
  induction s with
  | nil => intro acc; exact ⟨[], [], rfl, by simp, by simp, by simp [takeProp]⟩
  | cons x r ih =>
    intro acc
    cases hx : isPropChar x with
    | true =>
      obtain ⟨pre, rest, h1, h2, h3, h4⟩ := ih (x :: acc)
      refine ⟨x :: pre, rest, by rw [h1]; rfl, ?_, h3, ?_⟩
      · intro y hy
        rcases List.mem_cons.1 hy with rfl | hy
        · exact hx
        · exact h2 y hy
      · rw [takeProp, if_pos hx, h4]; simp
    | false =>
      refine ⟨[], x :: r, rfl, by simp, ?_, ?_⟩
      · intro y r' h; cases h; exact hx
      · rw [takeProp, if_neg (by rw [hx]; simp)]; simp

theorem cel_cons (v : Bool) (c : Nat) (rest : List Nat) (buf : Nat) (name : Option Nat) :
    consumeEscapeLoop v (c :: rest) buf name =
      if c == 0x7D then
        match propertyFromStr buf name v with
        | some k => some (k, rest)
        | none => none
      else if c == 0x3D && name.isNone then
        match propertyNameFromStr buf with
        | some n => consumeEscapeLoop v rest 1 (some n)
        | none => none
      else if isAsciiAlnum c || c == 0x5F then
        consumeEscapeLoop v rest (buf * 256 + c) name
      else none := by
  rw [consumeEscapeLoop]; rfl

/-- A run of property characters is accumulated into the buffer. -/
theorem cel_run (v : Bool) : ∀ (pre rest : List Nat) (buf : Nat) (name : Option Nat),
    (∀ x ∈ pre, isPropChar x = true) →
    consumeEscapeLoop v (pre ++ rest) buf name =
      consumeEscapeLoop v rest (pre.foldl (fun a b => a * 256 + b) buf) name := by
  intro pre
  induction pre with
  | nil => intro rest buf name _; rfl
  | cons x pre ih =>
    intro rest buf name h
    obtain ⟨h1, h2, h3, _, _⟩ := propChar_facts (h x (by simp))
    rw [List.cons_append, cel_cons]
    have e1 : (x == 0x7D) = false := by simp [h1]
    have e2 : (x == 0x3D) = false := by simp [h2]
    simp only [e1, e2, Bool.false_and, Bool.false_eq_true, if_false, h3, if_true]
    rw [ih rest _ name (fun y hy => h y (by simp [hy]))]
    rfl

/-- What is neither a property character nor `}` nor an admissible `=` ends the escape in error. -/
theorem cel_stop (v : Bool) {rest : List Nat} (buf : Nat) (name : Option Nat)
    (h0 : ∀ x r, rest = x :: r → isPropChar x = false) (h1 : ∀ r, rest ≠ 0x7D :: r)
    (h2 : (∀ r, rest ≠ 0x3D :: r) ∨ name.isSome = true) :
    consumeEscapeLoop v rest buf name = none := by
  rcases rest with _ | ⟨x, r⟩
  · rw [consumeEscapeLoop]
  · have hp := h0 x r rfl
    have hc : (x == 0x7D) = false := by
      have : x ≠ 0x7D := fun e => h1 r (by rw [e])
      simp [this]
    have ha : (isAsciiAlnum x || x == 0x5F) = false := by
      simp only [isPropChar, ESG.isAsciiLetter, ESG.isDigit, Bool.or_eq_false_iff, Bool.and_eq_false_iff,
        decide_eq_false_iff_not, beq_eq_false_iff_ne] at hp
      simp only [isAsciiAlnum, Bool.or_eq_false_iff, Bool.and_eq_false_iff, decide_eq_false_iff_not,
        beq_eq_false_iff_ne]
      omega
    have he : (x == 0x3D && name.isNone) = false := by
      rcases h2 with h2 | h2
      · have : x ≠ 0x3D := fun e => h2 r (by rw [e])
        simp [this]
      · cases name with
        | none => cases h2
        | some n => simp
    rw [cel_cons]
    simp only [hc, he, ha, Bool.false_eq_true, if_false]

/-! ## Table lookups -/

theorem lookup2_some_mem {tbl : List (Nat × Nat)} {nm i : Nat} (h : lookup2 tbl nm = some i) :
    (nm, i) ∈ tbl := by
  unfold lookup2 at h
  split at h
  · rename_i e he
    have hm := List.mem_of_find?_eq_some he
    have hk := List.find?_some he
    simp only [beq_iff_eq] at hk
    cases h
    have : e = (nm, e.2) := by cases e; simp_all
    rw [← this]; exact hm
  · cases h

/-- A table all of whose keys are keys of `names` has no entry for any other byte string. -/
theorem lookup2_key_none (tbl : List (Nat × Nat)) (names : List (List Nat))
    (hall : tbl.all (fun e => (names.map key).contains e.1) = true) (hb : ∀ s ∈ names, Bytes s)
    {name : List Nat} (hn : Bytes name) (hnot : name ∉ names) : lookup2 tbl (key name) = none := by
  cases h : lookup2 tbl (key name) with
  | none => rfl
  | some i =>
    have hm := lookup2_some_mem h
    have := List.all_eq_true.1 hall _ hm
    simp only [List.contains_iff_mem, List.mem_map] at this
    obtain ⟨s, hs, hk⟩ := this
    exact absurd (key_inj (hb s hs) hn hk ▸ hs) hnot

/-- With `unicode_sets` off the lookup never yields a property of strings. -/
theorem pfs_false_cc {s : Nat} {no : Option Nat} {k : Kind} (h : propertyFromStr s no false = some k) :
    ∃ p l, k = .charClass p l := by
  unfold propertyFromStr at h
  split at h
  · cases hl : lookup3 Gen.gcNames s with
    | none => rw [hl] at h; cases h
    | some t => rw [hl] at h; cases h; exact ⟨_, _, rfl⟩
  · cases hl : lookup3 Gen.scriptNames s with
    | none => rw [hl] at h; cases h
    | some t => rw [hl] at h; cases h; exact ⟨_, _, rfl⟩
  · cases hl : lookup3 Gen.scriptExtNames s with
    | none => rw [hl] at h; cases h
    | some t => rw [hl] at h; cases h; exact ⟨_, _, rfl⟩
  · cases hb : lookup3 Gen.binaryNames s with
    | some t => rw [hb] at h; cases h; exact ⟨_, _, rfl⟩
    | none =>
      rw [hb] at h
      simp only [Bool.false_eq_true, if_false] at h
      cases hl : lookup3 Gen.gcNames s with
      | none => rw [hl] at h; cases h
      | some t => rw [hl] at h; cases h; exact ⟨_, _, rfl⟩

/-- The option of the property name that `resolve kind` passes on. -/
def kindName (kind : Nat) : Option Nat := match kind with | 0 => none | 1 => some 0 | 2 => some 1 | _ => some 2

theorem resolve_isSome (kind K : Nat) :
    (resolve kind K).isSome = (propertyFromStr K (kindName kind) false).isSome := by
  have e : resolve kind K = match propertyFromStr K (kindName kind) false with
      | some (.charClass p l) => some (p, l)
      | _ => none := rfl
  rw [e]
  cases h : propertyFromStr K (kindName kind) false with
  | none => rfl
  | some k =>
    obtain ⟨p, l, rfl⟩ := pfs_false_cc h
    rfl

/-- C11, as one statement per kind: the name list of the snapshot holds `K` iff the crate's lookup
(without `unicode_sets`) succeeds. -/
theorem contains_iff (L : List (Nat × Nat × Nat)) (kind : Nat)
    (hs : ∀ nm t, resolve kind nm = some t → (nm, t) ∈ L)
    (hc : ∀ nm t, (nm, t) ∈ L → (resolve kind nm).isSome = true) (K : Nat) :
    (L.map (·.1)).contains K = (propertyFromStr K (kindName kind) false).isSome := by
  rw [← resolve_isSome]
  cases h : resolve kind K with
  | some t =>
    have := hs K t h
    simp only [Option.isSome_some, List.contains_iff_mem, List.mem_map]
    exact ⟨(K, t), this, rfl⟩
  | none =>
    simp only [Option.isSome_none]
    cases hcont : (L.map (·.1)).contains K with
    | false => rfl
    | true =>
      simp only [List.contains_iff_mem, List.mem_map] at hcont
      obtain ⟨⟨K', t⟩, hm, rfl⟩ := hcont
      have := hc K' t hm
      rw [h] at this; cases this

theorem lone_iff (K : Nat) : tabs.lone.contains K = (propertyFromStr K none false).isSome :=
  contains_iff Oracle.acceptedLone 0 C11.lone_sound C11.lone_complete K
theorem gc_iff (K : Nat) : tabs.gc.contains K = (propertyFromStr K (some 0) false).isSome :=
  contains_iff Oracle.acceptedGc 1 C11.gc_sound C11.gc_complete K
theorem sc_iff (K : Nat) : tabs.sc.contains K = (propertyFromStr K (some 1) false).isSome :=
  contains_iff Oracle.acceptedSc 2 C11.sc_sound C11.sc_complete K
theorem scx_iff (K : Nat) : tabs.scx.contains K = (propertyFromStr K (some 2) false).isSome :=
  contains_iff Oracle.acceptedScx 3 C11.scx_sound C11.scx_complete K

/-- The empty name is in no list (the grammar requires a non-empty name, the crate just looks the
empty buffer up). -/
theorem empty_name :
    tabs.lone.contains 1 = false ∧ tabs.gc.contains 1 = false ∧ tabs.sc.contains 1 = false ∧
      tabs.scx.contains 1 = false := by decide +kernel

/-! ### Properties of strings -/

theorem sp_facts : stringProps.all (fun nm => nm.all (· < 256) &&
    (lookup3 Gen.binaryNames (key nm)).isNone && (lookup3 Gen.gcNames (key nm)).isNone &&
    (match lookup2 Gen.stringNames (key nm) with | some i => Gen.stringTables[i]?.isSome | none => false)) = true := by
  decide +kernel

theorem sn_keys : Gen.stringNames.all (fun e => (stringProps.map key).contains e.1) = true := by decide +kernel

theorem sp_bytes : ∀ s ∈ stringProps, Bytes s := by
  intro s hs
  have := List.all_eq_true.1 sp_facts s hs
  simp only [Bool.and_eq_true, List.all_eq_true, decide_eq_true_eq] at this
  exact this.1.1.1

/-- A property of strings: resolved through `stringNames` (only under `v`), in no other table. -/
theorem sp_lookup {name : List Nat} (h : name ∈ stringProps) :
    lookup3 Gen.binaryNames (key name) = none ∧ lookup3 Gen.gcNames (key name) = none ∧
      ∃ i t, lookup2 Gen.stringNames (key name) = some i ∧ Gen.stringTables[i]? = some t := by
  have := List.all_eq_true.1 sp_facts name h
  simp only [Bool.and_eq_true, Option.isNone_iff_eq_none] at this
  obtain ⟨⟨⟨_, h1⟩, h2⟩, h3⟩ := this
  refine ⟨h1, h2, ?_⟩
  cases hl : lookup2 Gen.stringNames (key name) with
  | none => rw [hl] at h3; cases h3
  | some i =>
    rw [hl] at h3
    simp only at h3
    cases ht : Gen.stringTables[i]? with
    | none => rw [ht] at h3; cases h3
    | some t => exact ⟨i, t, rfl, ht⟩

theorem not_sp_lookup {name : List Nat} (hn : Bytes name) (h : name ∉ stringProps) :
    lookup2 Gen.stringNames (key name) = none :=
  lookup2_key_none Gen.stringNames stringProps sn_keys sp_bytes hn h

/-- Without a property of strings in play, `unicode_sets` does not matter. -/
theorem pfs_lone_v {K : Nat} (v : Bool) (h : lookup2 Gen.stringNames K = none) :
    propertyFromStr K none v = propertyFromStr K none false := by
  unfold propertyFromStr
  simp only [h]
  cases v <;> rfl

theorem pfs_named_v (K n : Nat) (v : Bool) :
    propertyFromStr K (some n) v = propertyFromStr K (some n) false := by
  unfold propertyFromStr
  rcases n with _ | _ | n <;> rfl

/-! ### The six property-name spellings -/

def names6 : List (List Nat) :=
  [str "General_Category", str "gc", str "Script", str "sc", str "Script_Extensions", str "scx"]

theorem pn_keys : Gen.propertyNames.all (fun e => (names6.map key).contains e.1) = true := by decide +kernel
theorem pn_bytes : ∀ s ∈ names6, Bytes s := by
  have : names6.all (fun nm => nm.all (· < 256)) = true := by decide +kernel
  intro s hs
  have := List.all_eq_true.1 this s hs
  simpa [Bytes] using this
theorem pn_vals : propertyNameFromStr (key (str "General_Category")) = some 0 ∧
    propertyNameFromStr (key (str "gc")) = some 0 ∧ propertyNameFromStr (key (str "Script")) = some 1 ∧
    propertyNameFromStr (key (str "sc")) = some 1 ∧
    propertyNameFromStr (key (str "Script_Extensions")) = some 2 ∧
    propertyNameFromStr (key (str "scx")) = some 2 := by decide +kernel

/-- The grammar's chain of name comparisons, as the index the crate's `propertyNames` map gives. -/
theorem pn_eq {name : List Nat} (hn : Bytes name) :
    propertyNameFromStr (key name) =
      if name == str "General_Category" || name == str "gc" then some 0
      else if name == str "Script" || name == str "sc" then some 1
      else if name == str "Script_Extensions" || name == str "scx" then some 2
      else none := by
  obtain ⟨v1, v2, v3, v4, v5, v6⟩ := pn_vals
  by_cases h1 : name = str "General_Category"
  · subst h1; rw [v1]; rfl
  by_cases h2 : name = str "gc"
  · subst h2; rw [v2]; rfl
  by_cases h3 : name = str "Script"
  · subst h3; rw [v3]; rfl
  by_cases h4 : name = str "sc"
  · subst h4; rw [v4]; rfl
  by_cases h5 : name = str "Script_Extensions"
  · subst h5; rw [v5]; rfl
  by_cases h6 : name = str "scx"
  · subst h6; rw [v6]; rfl
  have hnot : name ∉ names6 := by
    simp only [names6, List.mem_cons, List.not_mem_nil, or_false, not_or]
    exact ⟨h1, h2, h3, h4, h5, h6⟩
  have := lookup2_key_none Gen.propertyNames names6 pn_keys pn_bytes hn hnot
  unfold propertyNameFromStr
  rw [this]
  simp [h1, h2, h3, h4, h5, h6]

/-! ## `propEscape` by the shape of the input -/

theorem pe_nobrace (c : Cfg) (neg : Bool) {s : List Nat} (h : ∀ r, s ≠ 0x7B :: r) :
    propEscape c neg s = .bad := by
  unfold propEscape
  split
  · rename_i r; exact absurd rfl (h r)
  · rfl

theorem pe_close (c : Cfg) (neg : Bool) {r name r' : List Nat} (h : takeProp r [] = (name, 0x7D :: r')) :
    propEscape c neg (0x7B :: r) =
      if stringProps.contains name then (if c.v && !neg then .ok (r', true) else .bad)
      else if c.t.lone.contains (key name) && !name.isEmpty then .ok (r', false) else .bad := by
  unfold propEscape; simp only; rw [h]; rfl

theorem pe_eq_close (c : Cfg) (neg : Bool) {r name r1 val r' : List Nat}
    (h : takeProp r [] = (name, 0x3D :: r1)) (h2 : takeProp r1 [] = (val, 0x7D :: r')) :
    propEscape c neg (0x7B :: r) =
      if (if name == str "General_Category" || name == str "gc" then c.t.gc.contains (key val)
          else if name == str "Script" || name == str "sc" then c.t.sc.contains (key val)
          else if name == str "Script_Extensions" || name == str "scx" then c.t.scx.contains (key val)
          else false) && !val.isEmpty then .ok (r', false) else .bad := by
  unfold propEscape; simp only; rw [h]; simp only; rw [h2]; rfl

theorem pe_eq_other (c : Cfg) (neg : Bool) {r name r1 val rest2 : List Nat}
    (h : takeProp r [] = (name, 0x3D :: r1)) (h2 : takeProp r1 [] = (val, rest2))
    (hr : ∀ r', rest2 ≠ 0x7D :: r') : propEscape c neg (0x7B :: r) = .bad := by
  unfold propEscape; simp only; rw [h]; simp only; rw [h2]
  split
  · rename_i heq; simp only [Prod.mk.injEq] at heq; exact absurd heq.2 (hr _)
  · rfl

theorem pe_other (c : Cfg) (neg : Bool) {r name rest : List Nat} (h : takeProp r [] = (name, rest))
    (h1 : ∀ r', rest ≠ 0x7D :: r') (h2 : ∀ r', rest ≠ 0x3D :: r') : propEscape c neg (0x7B :: r) = .bad := by
  unfold propEscape; simp only; rw [h]
  split
  · rename_i heq; simp only [Prod.mk.injEq] at heq; exact absurd heq.2 (h1 _)
  · rename_i heq; simp only [Prod.mk.injEq] at heq; exact absurd heq.2 (h2 _)
  · rfl

theorem key_foldl (l : List Nat) : l.foldl (fun a b => a * 256 + b) 1 = key l := rfl

theorem bytes_of_prop {l : List Nat} (h : ∀ x ∈ l, isPropChar x = true) : Bytes l :=
  fun x hx => (propChar_facts (h x hx)).2.2.2.1

theorem propertyEscape_none {v : Bool} {s : List Nat} (h : consumePropertyEscape v s = none) :
    IsSyn (propertyEscape v s) := by
  unfold propertyEscape; rw [h]; exact isSyn_synErr _

theorem propertyEscape_cc {v : Bool} {s r' : List Nat} {p l : Nat}
    (h : consumePropertyEscape v s = some (.charClass p l, r')) :
    ∃ ivs, propertyEscape v s = .ok (.charClass ivs, r') := by
  unfold propertyEscape; rw [h]; exact ⟨_, rfl⟩

theorem propertyEscape_ss {v : Bool} {s r' : List Nat} {i : Nat} {t : Nat × Nat}
    (h : consumePropertyEscape v s = some (.stringSet i, r')) (ht : Gen.stringTables[i]? = some t) :
    ∃ strs, propertyEscape v s = .ok (.stringSet strs, r') := by
  unfold propertyEscape; rw [h]; simp only; rw [ht]; exact ⟨_, rfl⟩

/-- **Property escapes** (after `\p` / `\P`): the two recognizers accept the same escapes and leave
the same rest; a property of strings is accepted exactly under `v` and not negated — the grammar
rejects `\P{RGI_Emoji}`, the crate's scanner resolves it and the caller rejects the negation. -/
theorem prop_sim (c : Cfg) (hct : c.t = tabs) (neg : Bool) (s : List Nat) :
    match propEscape c neg s with
    | .ok (r', ms) => (∃ p, s = p ++ r' ∧ ∀ x ∈ p, Plain x) ∧
        (if ms then neg = false ∧ c.v = true ∧ ∃ strs, propertyEscape c.v s = .ok (.stringSet strs, r')
         else ∃ ivs, propertyEscape c.v s = .ok (.charClass ivs, r'))
    | .bad => IsSyn (propertyEscape c.v s) ∨
        (neg = true ∧ c.v = true ∧ ∃ strs r', propertyEscape c.v s = .ok (.stringSet strs, r'))
    | .fuel => False := by
  by_cases hbN : ¬ (∃ r, s = 0x7B :: r)
  · have hb := hbN
    rw [pe_nobrace c neg (fun r e => hb ⟨r, e⟩)]
    refine .inl (propertyEscape_none ?_)
    unfold consumePropertyEscape
    split
    · rename_i rest; exact absurd ⟨rest, rfl⟩ hb
    · rfl
  have hb := Classical.not_not.1 hbN
  obtain ⟨r, rfl⟩ := hb
  obtain ⟨pre, rest, h1, h2, h3, h4⟩ := takeProp_spec r []
  simp only [List.reverse_nil, List.nil_append] at h4
  have hcr : consumePropertyEscape c.v (0x7B :: r) = consumeEscapeLoop c.v rest (key pre) none := by
    unfold consumePropertyEscape
    simp only
    rw [h1, cel_run c.v pre rest 1 none h2, key_foldl]
  have hpb := bytes_of_prop h2
  have hplain : ∀ x ∈ pre, Plain x := fun x hx => (propChar_facts (h2 x hx)).2.2.2.2
  by_cases hc : ∃ r', rest = 0x7D :: r'
  · -- `{name}`
    obtain ⟨r', rfl⟩ := hc
    rw [pe_close c neg h4]
    have hcr' : consumePropertyEscape c.v (0x7B :: r) =
        match propertyFromStr (key pre) none c.v with
        | some k => some (k, r')
        | none => none := by
      rw [hcr, cel_cons]; rfl
    have hpfx : ∃ p, 0x7B :: r = p ++ r' ∧ ∀ x ∈ p, Plain x := by
      refine ⟨0x7B :: (pre ++ [0x7D]), by rw [h1]; simp, ?_⟩
      intro x hx
      simp only [List.mem_cons, List.mem_append, List.not_mem_nil, or_false] at hx
      rcases hx with rfl | hx | rfl
      · refine ⟨?_, ?_, ?_, ?_, ?_, ?_⟩ <;> decide
      · exact hplain x hx
      · refine ⟨?_, ?_, ?_, ?_, ?_, ?_⟩ <;> decide
    cases hsp : stringProps.contains pre with
    | true =>
      -- a property of strings
      have hmem : pre ∈ stringProps := by simpa using hsp
      obtain ⟨s1, s2, i, t, s3, s4⟩ := sp_lookup hmem
      simp only [if_true]
      cases hv : c.v with
      | false =>
        simp only [Bool.false_and, Bool.false_eq_true, if_false]
        refine .inl (propertyEscape_none ?_)
        rw [hv] at hcr'
        rw [hcr']
        have : propertyFromStr (key pre) none false = none := by
          unfold propertyFromStr
          simp only [s1, Bool.false_eq_true, if_false, s2]
          rfl
        rw [this]
      | true =>
        have hpf : propertyFromStr (key pre) none true = some (.stringSet i) := by
          unfold propertyFromStr
          simp only [s1, if_true, s3]
        rw [hv] at hcr'
        rw [hpf] at hcr'
        obtain ⟨strs, hstrs⟩ := propertyEscape_ss hcr' s4
        cases neg with
        | true =>
          simp only [Bool.not_true, Bool.and_false, Bool.false_eq_true, if_false]
          exact .inr ⟨trivial, trivial, strs, r', hstrs⟩
        | false =>
          simp only [Bool.not_false, Bool.and_self, if_true]
          exact ⟨hpfx, trivial, trivial, strs, hstrs⟩
    | false =>
      have hnm : pre ∉ stringProps := by
        intro h; have : stringProps.contains pre = true := by simpa using h
        rw [hsp] at this; cases this
      have hv0 := pfs_lone_v c.v (not_sp_lookup hpb hnm)
      rw [hv0] at hcr'
      simp only [Bool.false_eq_true, if_false, hct, lone_iff]
      cases hpf : propertyFromStr (key pre) none false with
      | none =>
        simp only [Option.isSome_none, Bool.false_and, Bool.false_eq_true, if_false]
        rw [hpf] at hcr'
        exact .inl (propertyEscape_none hcr')
      | some k =>
        obtain ⟨p, l, rfl⟩ := pfs_false_cc hpf
        rw [hpf] at hcr'
        cases hemp : pre.isEmpty with
        | true =>
          -- the empty name is in no table
          have : pre = [] := by simpa using hemp
          subst this
          have := empty_name.1
          rw [lone_iff] at this
          have hk : key [] = 1 := rfl
          rw [hk] at hpf
          rw [hpf] at this; cases this
        | false =>
          simp only [Option.isSome_some, Bool.not_false, Bool.and_self, if_true]
          exact ⟨hpfx, propertyEscape_cc hcr'⟩
  by_cases heN : ¬ (∃ r1, rest = 0x3D :: r1)
  · have he := heN
    rw [pe_other c neg h4 (fun r' e => hc ⟨r', e⟩) (fun r' e => he ⟨r', e⟩)]
    refine .inl (propertyEscape_none ?_)
    rw [hcr]
    exact cel_stop c.v _ none h3 (fun r' e => hc ⟨r', e⟩) (.inl (fun r' e => he ⟨r', e⟩))
  have he := Classical.not_not.1 heN
  -- `{name=value}`
  obtain ⟨r1, rfl⟩ := he
  obtain ⟨pre2, rest2, g1, g2, g3, g4⟩ := takeProp_spec r1 []
  simp only [List.reverse_nil, List.nil_append] at g4
  have hpb2 := bytes_of_prop g2
  have hstep : consumeEscapeLoop c.v (0x3D :: r1) (key pre) none =
      match propertyNameFromStr (key pre) with
      | some n => consumeEscapeLoop c.v rest2 (key pre2) (some n)
      | none => none := by
    rw [cel_cons]
    simp only [Nat.reduceBEq, Bool.false_eq_true, if_false, Option.isNone_none, Bool.and_self, if_true]
    cases propertyNameFromStr (key pre) with
    | none => rfl
    | some n =>
      simp only
      rw [g1, cel_run c.v pre2 rest2 1 (some n) g2, key_foldl]
  by_cases hc2N : ¬ (∃ r', rest2 = 0x7D :: r')
  · have hc2 := hc2N
    rw [pe_eq_other c neg h4 g4 (fun r' e => hc2 ⟨r', e⟩)]
    refine .inl (propertyEscape_none ?_)
    rw [hcr, hstep]
    cases propertyNameFromStr (key pre) with
    | none => rfl
    | some n =>
      simp only
      exact cel_stop c.v _ (some n) g3 (fun r' e => hc2 ⟨r', e⟩) (.inr rfl)
  have hc2 := Classical.not_not.1 hc2N
  obtain ⟨r', rfl⟩ := hc2
  rw [pe_eq_close c neg h4 g4]
  have hpfx : ∃ p, 0x7B :: r = p ++ r' ∧ ∀ x ∈ p, Plain x := by
    refine ⟨0x7B :: (pre ++ 0x3D :: (pre2 ++ [0x7D])), by rw [h1, g1]; simp, ?_⟩
    intro x hx
    simp only [List.mem_cons, List.mem_append, List.not_mem_nil, or_false] at hx
    rcases hx with rfl | hx | rfl | hx | rfl
    · refine ⟨?_, ?_, ?_, ?_, ?_, ?_⟩ <;> decide
    · exact hplain x hx
    · refine ⟨?_, ?_, ?_, ?_, ?_, ?_⟩ <;> decide
    · exact (propChar_facts (g2 x hx)).2.2.2.2
    · refine ⟨?_, ?_, ?_, ?_, ?_, ?_⟩ <;> decide
  -- the crate: name index, then the value table
  have hfin : ∀ n, consumeEscapeLoop c.v (0x7D :: r') (key pre2) (some n) =
      match propertyFromStr (key pre2) (some n) false with
      | some k => some (k, r')
      | none => none := by
    intro n
    rw [cel_cons, pfs_named_v]; rfl
  -- the value, given the table it is looked up in
  have hval : ∀ (n : Nat) (b : Bool), b = (propertyFromStr (key pre2) (some n) false).isSome →
      propertyNameFromStr (key pre) = some n →
      match (if (b && !pre2.isEmpty) = true then (R.ok (r', false) : R (List Nat × Bool)) else .bad) with
      | .ok (r'', ms) => (∃ p, 0x7B :: r = p ++ r'' ∧ ∀ x ∈ p, Plain x) ∧
          (if ms then neg = false ∧ c.v = true ∧ ∃ strs, propertyEscape c.v (0x7B :: r) = .ok (.stringSet strs, r'')
           else ∃ ivs, propertyEscape c.v (0x7B :: r) = .ok (.charClass ivs, r''))
      | .bad => IsSyn (propertyEscape c.v (0x7B :: r)) ∨
          (neg = true ∧ c.v = true ∧ ∃ strs r', propertyEscape c.v (0x7B :: r) = .ok (.stringSet strs, r'))
      | .fuel => False := by
    intro n b hb hpn
    have hcr2 : consumePropertyEscape c.v (0x7B :: r) =
        match propertyFromStr (key pre2) (some n) false with
        | some k => some (k, r')
        | none => none := by
      rw [hcr, hstep, hpn]; simp only; exact hfin n
    cases hpf : propertyFromStr (key pre2) (some n) false with
    | none =>
      rw [hpf] at hb hcr2
      subst hb
      simp only [Option.isSome_none, Bool.false_and, Bool.false_eq_true, if_false]
      exact .inl (propertyEscape_none hcr2)
    | some k =>
      obtain ⟨p, l, rfl⟩ := pfs_false_cc hpf
      rw [hpf] at hb hcr2
      subst hb
      cases hemp : pre2.isEmpty with
      | true =>
        have : pre2 = [] := by simpa using hemp
        subst this
        have hk : key [] = 1 := rfl
        rw [hk] at hpf
        obtain ⟨_, e1, e2, e3⟩ := empty_name
        rw [gc_iff] at e1; rw [sc_iff] at e2; rw [scx_iff] at e3
        -- which table: `n` is 0, 1 or 2 (or behaves like 2)
        have : (propertyFromStr 1 (some n) false).isSome = false := by
          rcases n with _ | _ | n
          · exact e1
          · exact e2
          · exact e3
        rw [hpf] at this; cases this
      | false =>
        simp only [Option.isSome_some, Bool.not_false, Bool.and_self, if_true]
        exact ⟨hpfx, propertyEscape_cc hcr2⟩
  have hpn := pn_eq hpb
  rw [hct]
  by_cases n1 : (pre == str "General_Category" || pre == str "gc") = true
  · rw [if_pos n1] at hpn ⊢
    exact hval 0 _ (gc_iff _) hpn
  rw [if_neg n1] at hpn ⊢
  by_cases n2 : (pre == str "Script" || pre == str "sc") = true
  · rw [if_pos n2] at hpn ⊢
    exact hval 1 _ (sc_iff _) hpn
  rw [if_neg n2] at hpn ⊢
  by_cases n3 : (pre == str "Script_Extensions" || pre == str "scx") = true
  · rw [if_pos n3] at hpn ⊢
    exact hval 2 _ (scx_iff _) hpn
  rw [if_neg n3] at hpn ⊢
  simp only [Bool.false_and, Bool.false_eq_true, if_false]
  refine .inl (propertyEscape_none ?_)
  rw [hcr, hstep, hpn]

end Regress.C08Frag
