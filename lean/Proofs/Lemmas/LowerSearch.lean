import Proofs.Lemmas.LowerNorm
/-!
# ES specification ⇒ IR semantics: from one attempt to the search

The loop of `RegExpBuiltinExec` tries the code point indices `start, start+1, …`; `semFind` tries
every byte offset and skips those that are not char boundaries.  Given attempt-wise agreement the
two searches agree.
-/
namespace Regress.Lower

open Regress Regress.IR Regress.VM

/-- The outcome of the specification's search against the outcome of `semFind`. -/
def SearchRel (cs : List Nat) (r : ES.ExecResult) (q : Option (Nat × St)) : Prop :=
  match r with
  | .outOfFuel => True
  | .noMatch => q = none
  | .matched s e caps => ∃ st, q = some (Utf8.off cs s, st) ∧ s ≤ cs.length ∧ Rel cs ⟨e, caps⟩ st

section
variable {inp : Input} {cs : List Nat}

theorem not_boundary_between (ht : Utf8Text inp cs) {i p : Nat} (hi : i < cs.length)
    (h1 : Utf8.off cs i < p) (h2 : p < Utf8.off cs (i + 1)) : Utf8.isBoundary inp.bytes p = false := by
  cases hb : Utf8.isBoundary inp.bytes p with
  | false => rfl
  | true =>
    rw [ht.bytes] at hb
    have hp : p ≤ (Utf8.text cs).size := by
      have := Utf8.off_le_size cs (i + 1); omega
    obtain ⟨k, hk, rfl⟩ := (Utf8.isBoundary_iff cs hp).1 hb
    have a1 := (Utf8.off_lt_iff (Nat.le_of_lt hi) hk).1 h1
    have a2 := (Utf8.off_lt_iff hk (by omega : i + 1 ≤ cs.length)).1 h2
    omega

/-- Skipping the offsets inside the encoding of code point `i`. -/
theorem semFindFrom_skip (ht : Utf8Text inp cs) (n : Node) {i : Nat} (hi : i < cs.length) :
    ∀ (d k p : Nat), p + d = Utf8.off cs (i + 1) → Utf8.off cs i < p → d ≤ k →
      semFindFrom inp n k p = semFindFrom inp n (k - d) (Utf8.off cs (i + 1)) := by
  intro d
  induction d with
  | zero => intro k p hp _ _; simp at hp; rw [hp]; simp
  | succ d ih =>
    intro k p hp h1 hk
    obtain ⟨k', rfl⟩ : ∃ k', k = k' + 1 := ⟨k - 1, by omega⟩
    have hlen : ¬ (p > inp.len) := by
      have := Utf8.off_le_size cs (i + 1)
      rw [ht.len]; omega
    have hnb := not_boundary_between ht hi h1 (by omega : p < Utf8.off cs (i + 1))
    simp only [semFindFrom, hlen, if_false, hnb, Bool.false_eq_true]
    rw [ih k' (p + 1) (by omega) (by omega) (by omega)]
    congr 1; omega

theorem search_agrees (ht : Utf8Text inp cs) (n : Node) (run : Nat → ES.MatchResult)
    (hrun : ∀ j, j ≤ cs.length → ResRel cs (run j) (firstMatch inp n (Utf8.off cs j))) :
    ∀ (tries i k : Nat), i ≤ cs.length → i + tries = cs.length + 1 → inp.len + 1 - Utf8.off cs i ≤ k →
      SearchRel cs (ES.searchLoop run tries i) (semFindFrom inp n k (Utf8.off cs i)) := by
  intro tries
  induction tries with
  | zero => intro i k hi ht' _; omega
  | succ t ih =>
    intro i k hi htr hk
    have hoff : Utf8.off cs i ≤ inp.len := by rw [ht.len]; exact Utf8.off_le_size cs i
    obtain ⟨k', rfl⟩ : ∃ k', k = k' + 1 := ⟨k - 1, by omega⟩
    have hnl : ¬ (Utf8.off cs i > inp.len) := by omega
    have hbd : Utf8.isBoundary inp.bytes (Utf8.off cs i) = true := by
      rw [ht.bytes]; exact Utf8.isBoundary_off cs hi
    simp only [ES.searchLoop, semFindFrom, hnl, if_false, hbd, if_true]
    have hr := hrun i hi
    cases hres : run i with
    | outOfFuel => trivial
    | success y =>
      rw [hres] at hr
      obtain ⟨s, hs, hys⟩ := hr
      simp only [hs]
      exact ⟨s, rfl, hi, hys⟩
    | failure =>
      rw [hres] at hr
      simp only [ResRel] at hr
      simp only [hr]
      by_cases hil : i < cs.length
      · have hlt := Utf8.off_lt_succ hil
        have hle : Utf8.off cs (i + 1) ≤ inp.len := by rw [ht.len]; exact Utf8.off_le_size cs (i + 1)
        rw [semFindFrom_skip ht n hil (Utf8.off cs (i + 1) - (Utf8.off cs i + 1)) k' (Utf8.off cs i + 1)
          (by omega) (by omega) (by omega)]
        exact ih (i + 1) _ (by omega) (by omega) (by omega)
      · have hie : i = cs.length := by omega
        have ht0 : t = 0 := by omega
        subst ht0
        simp only [ES.searchLoop, SearchRel]
        have : Utf8.off cs i = inp.len := by rw [hie, Utf8.off_length, ht.len]
        cases k' with
        | zero => rfl
        | succ k'' =>
          have : Utf8.off cs i + 1 > inp.len := by omega
          simp [semFindFrom, this]

end

end Regress.Lower
