import Proofs.Lemmas.CertsLeaf
import Proofs.Lemmas.CertsWf
import Proofs.Lemmas.SemWalk
import Proofs.Lemmas.CertsIR2
/-!
# Certificates, part 4: every `Keystone.Code` block is the layout of a skeleton

`code_sk`: for an IR node satisfying `WF` and the side conditions of `Proofs/Lemmas/CertsIR.lean`, the code
block `Code I B uni n lb b e l` is `Lay I sk b` for a skeleton `sk` of size `e - b` with

* `sk.begins = groupIds n`, `sk.lids` = the loop ids `l, l+1, …` (mod `65536`),
* `sk.gsc lo hi` whenever `gscoped lo hi n`,
* `sk.ok G |B| L` (payloads, loop ids `< L`, groups `< G`),
* the phase discipline `sk.phase (!lb) 0 = some 0`,
* `sk.endsPlain` when `endsOK n`.
-/
namespace Regress.Certs

open Regress.VM Regress.IR Regress.Keystone Regress.VM.Safety Regress.Gen Regress.Closure

/-- The loop ids `l, l+1, …, l+k-1` as `u16`s. -/
def loopIdsFrom (l k : Nat) : List Nat := (List.range' l k).map (· % 65536)

theorem loopIdsFrom_add (l a c : Nat) : loopIdsFrom l (a + c) = loopIdsFrom l a ++ loopIdsFrom (l + a) c := by
  simp [loopIdsFrom, ← List.range'_append_1]

theorem loopIdsFrom_succ (l k : Nat) : loopIdsFrom l (k + 1) = l % 65536 :: loopIdsFrom (l + 1) k := by
  simp [loopIdsFrom, List.range'_succ]

def groupIdsList (ns : List Node) : List Nat := (groupLists ns).map (·.1)

structure SkSpec (I : Array Insn) (G nb L : Nat) (lb : Bool) (b e l : Nat) (sk : Sk)
    (gids : List Nat) (nl : Nat) (sc : Nat → Nat → Bool) (ends ex : Bool) : Prop where
  lay : Lay I sk b
  size : e = b + sk.size
  begins : sk.begins = gids
  lids : sk.lids = loopIdsFrom l nl
  gsc : ∀ lo hi, sc lo hi = true → sk.gsc lo hi = true
  ok : sk.ok G nb L = true
  phase : sk.phase (!lb) 0 = some 0
  ends : ends = true → sk.endsPlain = true
  rex : ex = true → sk.rex = true

/-- A leaf node: a unit of straight-line code. -/
theorem spec_unit {I : Array Insn} {G nb L : Nat} {lb : Bool} {b e l : Nat} {is : List Insn}
    {sc : Nat → Nat → Bool} {ends ex : Bool}
    (hat : InsnsAt I b is) (he : e = b + is.length) (hu : UnitL (!lb) G nb is)
    (hends : ends = true → (seqOnes is).endsPlain = true) :
    SkSpec I G nb L lb b e l (seqOnes is) [] 0 sc ends ex :=
  { lay := seqOnes_lay hat
    size := by rw [seqOnes_size]; exact he
    begins := seqOnes_begins is
    lids := by simp [seqOnes_lids, loopIdsFrom]
    gsc := fun lo hi _ => seqOnes_gsc lo hi is
    ok := seqOnes_ok hu.1
    phase := hu.2
    ends := hends
    rex := fun _ => seqOnes_rex is }

theorem insnsAt_single {I : Array Insn} {b : Nat} {i : Insn} (h : At I b i) : InsnsAt I b [i] := by
  intro k hk
  simp only [List.length_singleton] at hk
  have : k = 0 := by omega
  subst this; exact h

theorem spec_one {I : Array Insn} {G nb L : Nat} {lb : Bool} {b e l : Nat} {i : Insn}
    {sc : Nat → Nat → Bool} {ends ex : Bool}
    (hat : At I b i) (he : e = b + 1) (hu : UnitL (!lb) G nb [i])
    (hends : ends = true → i = .goal ∨ i = .justFail) :
    SkSpec I G nb L lb b e l (seqOnes [i]) [] 0 sc ends ex :=
  spec_unit (insnsAt_single hat) (by simpa using he) hu (fun h => by
    rcases hends h with rfl | rfl <;> simp [seqOnes, Sk.endsPlain, Sk.size])

theorem leMax_maxIters {q : Quant} (h : quantOk q = true) : leMax q.min (maxIters q) = true := by
  unfold quantOk at h
  unfold maxIters
  split
  · rfl
  · rename_i v hv
    rw [hv] at h
    split
    · rfl
    · simpa [leMax] using h

theorem phase_one_of_unit {fwd : Bool} {G nb : Nat} {i : Insn} (h : UnitL fwd G nb [i]) :
    (Sk.one i).phase fwd 0 = some 0 := by
  have := h.2
  simp only [seqOnes, Sk.phase] at this
  split at this
  · rename_i k' hk
    simp only [Option.some.injEq] at this
    subst this; exact hk
  · cases this

/-- The instruction of a `Loop1CharBody` body. -/
theorem l1_insn {I : Array Insn} {B : Array VM.Bracket} {uni : Bool} {G : Nat} {body : Node} {lb : Bool}
    {b e l : Nat} (hc : Code I B uni body lb b e l) (hw : WF body) (hl : l1ok body = true)
    (hlf : leafOK body = true) :
    ∃ i, At I b i ∧ e = b + 1 ∧ UnitL (!lb) G B.size [i] ∧ scmAccepted i = true ∧
      loop1BodyOneChar i = true ∧ numLoops body = 0 ∧ groupIds body = [] := by
  cases body <;> simp only [l1ok] at hl <;> try (cases hl)
  case char c =>
    simp only [Code] at hc
    have hlf' : c < 4294967296 := by simp only [leafOK] at hlf; exact of_decide_eq_true hlf
    exact ⟨_, hc.1, hc.2, UnitL.single rfl (by simpa [Sk.leafWf] using hlf') (fun _ h => by cases h), rfl, rfl,
      rfl, rfl⟩
  case matchAny =>
    simp only [Code] at hc
    exact ⟨_, hc.1, hc.2, UnitL.single rfl rfl (fun _ h => by cases h), rfl, rfl, rfl, rfl⟩
  case matchAnyExceptLT =>
    simp only [Code] at hc
    exact ⟨_, hc.1, hc.2, UnitL.single rfl rfl (fun _ h => by cases h), rfl, rfl, rfl, rfl⟩
  case bracket bc =>
    simp only [Code] at hc
    obtain ⟨h1, h2⟩ := hc
    rcases h1 with ⟨bm, _, hat⟩ | ⟨_, idx, hat, hB⟩
    · exact ⟨_, hat, h2, UnitL.single rfl (by simpa [Sk.leafWf] using asciiBitmap_lt bm) (fun _ h => by cases h),
        rfl, by simpa [loop1BodyOneChar] using asciiBitmap_lt bm, rfl, rfl⟩
    · have : idx < B.size := lt_of_getElem?_eq_some hB
      exact ⟨_, hat, h2, UnitL.single rfl (by simpa [Sk.leafWf] using this) (fun _ h => by cases h), rfl, rfl,
        rfl, rfl⟩
  case charSet cs =>
    simp only [Code] at hc
    obtain ⟨i, hi, hat, he⟩ := hc
    have hlf' : ∀ c ∈ cs, c < 4294967296 := by
      simp only [leafOK, List.all_eq_true] at hlf; exact fun c hc => of_decide_eq_true (hlf c hc)
    have hu := unit_charSet (fwd := !lb) (G := G) (nb := B.size) hlf' hi
    refine ⟨i, hat, he, hu, ?_, ?_, rfl, rfl⟩
    all_goals
      unfold charSetInsn at hi
      split at hi
      · simp at hl
      · split at hi
        · cases hi
        · cases hi; rfl
  case byteSet bs =>
    simp only [Code] at hc
    obtain ⟨i, hi, hat, he⟩ := hc
    simp only [WF] at hw
    have hu := unit_byteSet (fwd := !lb) (G := G) (nb := B.size) hw hi
    refine ⟨i, hat, he, hu, ?_, ?_, rfl, rfl⟩
    · unfold byteSetInsn at hi
      split at hi <;> first | (cases hi; done) | skip
      · rename_i h0
        have : bs = [] := List.length_eq_zero_iff.1 h0
        subst this; simp at hl
      all_goals
        rename_i hlen
        cases hi
        simp [scmAccepted, hlen]
    · unfold byteSetInsn at hi
      split at hi <;> first | (cases hi; done) | skip
      · rename_i h0
        have : bs = [] := List.length_eq_zero_iff.1 h0
        subst this; simp at hl
      · rename_i hlen
        cases hi
        obtain ⟨b0, rfl⟩ : ∃ b0, bs = [b0] := by
          match bs, hlen with
          | [b0], _ => exact ⟨b0, rfl⟩
        have hb0 : b0 < 128 := hw b0 (by simp)
        have : [b0] = Utf8.encode b0 := by simp [Utf8.encode, hb0]
        simp only [loop1BodyOneChar]
        rw [this]
        exact isOne_encode (by simp [Utf8.isScalar]; omega)
      all_goals
        cases hi
        simpa [loop1BodyOneChar] using hw
  case byteSeq bs =>
    simp only [Code] at hc
    obtain ⟨c, hcs, rfl⟩ := Regress.VM.L1.isOneCharSeq_spec hl
    have hlen1 := Utf8.encode_length_pos c
    have hlen4 := Utf8.encode_length_le c
    have hch : bytesChunks lb (Utf8.encode c) = [Utf8.encode c] := by
      unfold bytesChunks
      rw [chunks_short (by omega) (by omega)]
      simp
    have hall : Utf8.AllScalar [c] := by intro x hx; simp at hx; subst hx; exact hcs
    have hu := unit_bytes hall lb G B.size
    simp only [Utf8.encodeAll_cons, Utf8.encodeAll_nil, List.append_nil, hch, List.map_cons, List.map_nil] at hu
    rw [hch] at hc
    refine ⟨_, hc.1 0 (by simp), by simpa using hc.2, hu, ?_, ?_, rfl, rfl⟩
    · simp [scmAccepted]; omega
    · simpa [loop1BodyOneChar] using hl

theorem groupIds_alt (x y : Node) : groupIds (.alt x y) = groupIds x ++ groupIds y := by
  simp [groupIds, groupList]
theorem groupIds_cat (ns : List Node) : groupIds (.cat ns) = groupIdsList ns := rfl
theorem groupIds_group (id : Nat) (nm : Option (List Nat)) (c : Node) :
    groupIds (.group id nm c) = id :: groupIds c := by simp [groupIds, groupList]
theorem groupIds_look (ng bw : Bool) (sg eg : Nat) (c : Node) : groupIds (.look ng bw sg eg c) = groupIds c := rfl
theorem groupIds_loop (b : Node) (q : Quant) (g0 g1 : Nat) : groupIds (.loop b q g0 g1) = groupIds b := rfl
theorem groupIds_loop1 (b : Node) (q : Quant) : groupIds (.loop1 b q) = groupIds b := rfl
theorem groupIdsList_cons (n : Node) (ns : List Node) :
    groupIdsList (n :: ns) = groupIds n ++ groupIdsList ns := by
  simp [groupIdsList, groupLists, groupIds]

mutual
/-- **`Code` blocks are laid-out skeletons.** -/
theorem code_sk {I : Array Insn} {B : Array VM.Bracket} {uni : Bool} {G L : Nat} (hL : L ≤ 65536) :
    ∀ (n : Node) (lb : Bool) (b e l lo hi : Nat), Code I B uni n lb b e l → WF n → leafOK n = true →
      refsOK G n = true → gscoped lo hi n = true → hi ≤ G → l + numLoops n ≤ L →
      ∃ sk, SkSpec I G B.size L lb b e l sk (groupIds n) (numLoops n) (fun lo hi => gscoped lo hi n) (endsOK n)
        (rangesExact n)
  | .empty, lb, b, e, l, lo, hi, hc, _, _, _, _, _, _ => by
    simp only [Code] at hc
    exact ⟨.nil, ⟨trivial, by simp [Sk.size, hc], rfl, by simp [Sk.lids, loopIdsFrom, numLoops],
      fun _ _ _ => rfl, rfl, by simp [Sk.phase], fun h => by simp [endsOK] at h, fun _ => rfl⟩⟩
  | .goal, lb, b, e, l, lo, hi, hc, _, _, _, _, _, _ => by
    simp only [Code] at hc
    exact ⟨_, spec_one hc.1 hc.2 (UnitL.single rfl rfl (fun _ h => by cases h)) (fun _ => Or.inl rfl)⟩
  | .char c, lb, b, e, l, lo, hi, hc, _, hlf, _, _, _, _ => by
    simp only [Code] at hc
    have hlf' : c < 4294967296 := by simp only [leafOK] at hlf; exact of_decide_eq_true hlf
    exact ⟨_, spec_one hc.1 hc.2 (UnitL.single rfl (by simpa [Sk.leafWf] using hlf') (fun _ h => by cases h))
      (fun h => by simp [endsOK] at h)⟩
  | .matchAny, lb, b, e, l, lo, hi, hc, _, _, _, _, _, _ => by
    simp only [Code] at hc
    exact ⟨_, spec_one hc.1 hc.2 (UnitL.single rfl rfl (fun _ h => by cases h)) (fun h => by simp [endsOK] at h)⟩
  | .matchAnyExceptLT, lb, b, e, l, lo, hi, hc, _, _, _, _, _, _ => by
    simp only [Code] at hc
    exact ⟨_, spec_one hc.1 hc.2 (UnitL.single rfl rfl (fun _ h => by cases h)) (fun h => by simp [endsOK] at h)⟩
  | .anchor sol ml, lb, b, e, l, lo, hi, hc, _, _, _, _, _, _ => by
    simp only [Code] at hc
    refine ⟨_, spec_one hc.1 hc.2 (UnitL.single ?_ ?_ ?_) (fun h => by simp [endsOK] at h)⟩
    all_goals cases sol <;> simp [makeAnchor, plain, Sk.leafWf]
  | .wordBoundary inv ui, lb, b, e, l, lo, hi, hc, _, _, _, _, _, _ => by
    simp only [Code] at hc
    refine ⟨_, spec_one hc.1 hc.2 (UnitL.single ?_ ?_ ?_) (fun h => by simp [endsOK] at h)⟩
    all_goals cases ui <;> simp [plain, Sk.leafWf]
  | .backRef g ic, lb, b, e, l, lo, hi, hc, _, _, hr, _, _, _ => by
    simp only [Code] at hc
    simp only [refsOK, Bool.and_eq_true, decide_eq_true_eq] at hr
    refine ⟨_, spec_one hc.1 hc.2 (UnitL.single rfl ?_ (fun _ h => by simp [backRefInsn] at h))
      (fun h => by simp [endsOK] at h)⟩
    have : (g == 0) = false := by simp; omega
    simp only [backRefInsn, this, Bool.false_eq_true, if_false, Sk.leafWf, decide_eq_true_eq]
    omega
  | .bracket bc, lb, b, e, l, lo, hi, hc, _, _, _, _, _, _ => by
    simp only [Code] at hc
    obtain ⟨h1, h2⟩ := hc
    rcases h1 with ⟨bm, _, hat⟩ | ⟨_, idx, hat, hB⟩
    · exact ⟨_, spec_one hat h2 (UnitL.single rfl (by simpa [Sk.leafWf] using asciiBitmap_lt bm)
        (fun _ h => by cases h)) (fun h => by simp [endsOK] at h)⟩
    · have : idx < B.size := lt_of_getElem?_eq_some hB
      exact ⟨_, spec_one hat h2 (UnitL.single rfl (by simpa [Sk.leafWf] using this) (fun _ h => by cases h))
        (fun h => by simp [endsOK] at h)⟩
  | .byteSet bs, lb, b, e, l, lo, hi, hc, hw, _, _, _, _, _ => by
    simp only [Code] at hc
    obtain ⟨i, hi, hat, he⟩ := hc
    simp only [WF] at hw
    refine ⟨_, spec_one hat he (unit_byteSet hw hi) (fun h => ?_)⟩
    simp only [endsOK, List.isEmpty_iff] at h
    subst h
    simp only [byteSetInsn, List.length_nil, Option.some.injEq] at hi
    exact Or.inr hi.symm
  | .charSet cs, lb, b, e, l, lo, hi, hc, _, hlf, _, _, _, _ => by
    simp only [Code] at hc
    obtain ⟨i, hi, hat, he⟩ := hc
    have hlf' : ∀ c ∈ cs, c < 4294967296 := by
      simp only [leafOK, List.all_eq_true] at hlf; exact fun c hc => of_decide_eq_true (hlf c hc)
    refine ⟨_, spec_one hat he (unit_charSet hlf' hi) (fun h => ?_)⟩
    simp only [endsOK, List.isEmpty_iff] at h
    subst h
    simp only [charSetInsn, Option.some.injEq] at hi
    exact Or.inr hi.symm
  | .byteSeq bs, lb, b, e, l, lo, hi, hc, hw, _, _, _, _, _ => by
    simp only [Code] at hc
    simp only [WF] at hw
    obtain ⟨cs, hcs, rfl⟩ := hw
    exact ⟨_, spec_unit hc.1 (by simpa using hc.2) (unit_bytes hcs lb G B.size) (fun h => by simp [endsOK] at h)⟩
  | .stringSet alts icase, lb, b, e, l, lo, hi, hc, _, hlf, _, _, _, _ => by
    simp only [Code] at hc
    obtain ⟨codes, hcodes, hat, he⟩ := hc
    simp only [leafOK, List.all_eq_true, decide_eq_true_eq] at hlf
    have hu := unit_codes (G := G) (nb := B.size) hlf hcodes
    obtain ⟨s1, s2, s3, s4, s5, s6⟩ := strSk_static (L := L) codes hu
    exact ⟨strSk codes, ⟨strSk_lay e codes b hat he, by rw [strSk_size e codes b]; exact he, s1,
      by simp [s2, loopIdsFrom, numLoops], fun lo hi _ => s3 lo hi, s4, s5, fun h => by simp [endsOK] at h,
      fun _ => s6⟩⟩
  | .cat ns, lb, b, e, l, lo, hi, hc, hw, hlf, hr, hg, hhi, hnl => by
    simp only [Code] at hc
    simp only [WF] at hw
    simp only [leafOK] at hlf
    simp only [refsOK] at hr
    simp only [gscoped] at hg
    simp only [numLoops] at hnl
    obtain ⟨sk, hs⟩ := codeList_sk hL ns lb b e l lo hi hc hw hlf hr hg hhi hnl
    exact ⟨sk, ⟨hs.lay, hs.size, hs.begins, hs.lids, fun lo hi h => hs.gsc lo hi (by simpa [gscoped] using h),
      hs.ok, hs.phase, fun h => hs.ends (by simpa [endsOK] using h),
      fun h => hs.rex (by simpa [rangesExact] using h)⟩⟩
  | .alt x y, lb, b, e, l, lo, hi, hc, hw, hlf, hr, hg, hhi, hnl => by
    simp only [Code] at hc
    obtain ⟨j, h0, hx, hj, hy⟩ := hc
    simp only [WF] at hw
    simp only [leafOK, Bool.and_eq_true] at hlf
    simp only [refsOK, Bool.and_eq_true] at hr
    simp only [gscoped, Bool.and_eq_true] at hg
    simp only [numLoops] at hnl
    obtain ⟨sx, hsx⟩ := code_sk hL x lb (b + 1) j l lo hi hx hw.1 hlf.1 hr.1 hg.1 hhi (by omega)
    obtain ⟨sy, hsy⟩ := code_sk hL y lb (j + 1) e (l + numLoops x) lo hi hy hw.2 hlf.2 hr.2 hg.2 hhi (by omega)
    have e1 := hsx.size
    have e2 := hsy.size
    refine ⟨.alt sx sy, ⟨?_, ?_, ?_, ?_, ?_, ?_, ?_, fun h => by simp [endsOK] at h, fun h => by
      simp only [rangesExact, Bool.and_eq_true] at h
      simp [Sk.rex, hsx.rex h.1, hsy.rex h.2]⟩⟩
    · simp only [Lay]
      refine ⟨?_, hsx.lay, ?_, ?_⟩
      · rw [show b + sx.size + 2 = j + 1 by omega]; exact h0
      · rw [show b + sx.size + 1 = j by omega, show b + sx.size + sy.size + 2 = e by omega]; exact hj
      · rw [show b + sx.size + 2 = j + 1 by omega]; exact hsy.lay
    · simp only [Sk.size]; omega
    · simp [Sk.begins, hsx.begins, hsy.begins, groupIds_alt]
    · simp [Sk.lids, hsx.lids, hsy.lids, numLoops, loopIdsFrom_add]
    · intro lo hi h
      simp only [gscoped, Bool.and_eq_true] at h
      simp [Sk.gsc, hsx.gsc lo hi h.1, hsy.gsc lo hi h.2]
    · simp [Sk.ok, hsx.ok, hsy.ok]
    · simp [Sk.phase, hsx.phase, hsy.phase]
  | .group id nm c, lb, b, e, l, lo, hi, hc, hw, hlf, hr, hg, hhi, hnl => by
    simp only [Code] at hc
    obtain ⟨j, h0, hcc, hj, he⟩ := hc
    simp only [WF] at hw
    simp only [leafOK] at hlf
    simp only [refsOK] at hr
    simp only [gscoped, Bool.and_eq_true, decide_eq_true_eq] at hg
    simp only [numLoops] at hnl
    obtain ⟨sc, hsc⟩ := code_sk hL c lb (b + 1) j l lo hi hcc hw hlf hr hg.2 hhi hnl
    have e1 := hsc.size
    refine ⟨.group id sc, ⟨?_, ?_, ?_, ?_, ?_, ?_, ?_, fun h => by simp [endsOK] at h, fun h => by
      simp only [rangesExact] at h
      simp [Sk.rex, hsc.rex h]⟩⟩
    · simp only [Lay]
      refine ⟨h0, hsc.lay, ?_⟩
      rw [show b + 1 + sc.size = j by omega]; exact hj
    · simp only [Sk.size]; omega
    · simp [Sk.begins, hsc.begins, groupIds_group]
    · simp [Sk.lids, hsc.lids, numLoops]
    · intro lo hi h
      simp only [gscoped, Bool.and_eq_true, decide_eq_true_eq] at h
      simp [Sk.gsc, hsc.gsc lo hi h.2, h.1.1, h.1.2]
    · simp only [Sk.ok, Bool.and_eq_true, decide_eq_true_eq]
      exact ⟨by omega, hsc.ok⟩
    · simp [Sk.phase, hsc.phase]
  | .look neg bw sg eg c, lb, b, e, l, lo, hi, hc, hw, hlf, hr, hg, hhi, hnl => by
    simp only [Code] at hc
    obtain ⟨j, h0, hcc, hj, he⟩ := hc
    simp only [WF] at hw
    simp only [leafOK] at hlf
    simp only [refsOK] at hr
    simp only [gscoped, Bool.and_eq_true, decide_eq_true_eq] at hg
    simp only [numLoops] at hnl
    obtain ⟨sc, hsc⟩ := code_sk hL c bw (b + 1) j l sg eg hcc hw hlf hr hg.2 (by omega) hnl
    have e1 := hsc.size
    refine ⟨.look neg bw sg eg sc, ⟨?_, ?_, ?_, ?_, ?_, ?_, ?_, fun h => by simp [endsOK] at h, fun h => by
      simp only [rangesExact, Bool.and_eq_true] at h
      simp only [Sk.rex, Bool.and_eq_true, hsc.begins]
      exact ⟨h.1, hsc.rex h.2⟩⟩⟩
    · simp only [Lay]
      refine ⟨?_, hsc.lay, ?_⟩
      · rw [show b + sc.size + 2 = e by omega]; exact h0
      · rw [show b + 1 + sc.size = j by omega]; exact hj
    · simp only [Sk.size]; omega
    · simp [Sk.begins, hsc.begins, groupIds_look]
    · simp [Sk.lids, hsc.lids, numLoops]
    · intro lo hi h
      simp only [gscoped, Bool.and_eq_true, decide_eq_true_eq] at h
      simp [Sk.gsc, hsc.gsc sg eg h.2, h.1.1.1, h.1.1.2, h.1.2]
    · simp only [Sk.ok, Bool.and_eq_true, decide_eq_true_eq]
      exact ⟨⟨hg.1.1.2, by omega⟩, hsc.ok⟩
    · simp [Sk.phase, hsc.phase]
  | .loop body q g0 g1, lb, b, e, l, lo, hi, hc, hw, hlf, hr, hg, hhi, hnl => by
    simp only [Code] at hc
    obtain ⟨j, h0, hres, hcc, hj, he⟩ := hc
    simp only [WF] at hw
    simp only [leafOK] at hlf
    simp only [refsOK] at hr
    simp only [gscoped, Bool.and_eq_true, Bool.or_eq_true, decide_eq_true_eq] at hg
    simp only [numLoops] at hnl
    obtain ⟨sc, hsc⟩ := code_sk hL body lb (b + 1 + (g1 - g0)) j (l + 1) lo hi hcc hw.1 hlf hr hg.1.2 hhi (by omega)
    have e1 := hsc.size
    refine ⟨.loop (l % 65536) q.min (maxIters q) q.greedy g0 (g1 - g0) sc,
      ⟨?_, ?_, ?_, ?_, ?_, ?_, ?_, fun h => by simp [endsOK] at h, fun h => by
        simp only [rangesExact, Bool.and_eq_true] at h
        simp only [Sk.rex, Bool.and_eq_true, hsc.begins]
        exact ⟨h.1, hsc.rex h.2⟩⟩⟩
    · simp only [Lay]
      refine ⟨?_, hres, hsc.lay, ?_⟩
      · rw [show b + (g1 - g0) + sc.size + 2 = e by omega]; exact h0
      · rw [show b + 1 + (g1 - g0) + sc.size = j by omega]; exact hj
    · simp only [Sk.size]; omega
    · simp [Sk.begins, hsc.begins, groupIds_loop]
    · simp [Sk.lids, hsc.lids, numLoops, loopIdsFrom_succ]
    · intro lo hi h
      simp only [gscoped, Bool.and_eq_true, Bool.or_eq_true, decide_eq_true_eq, List.all_eq_true] at h
      simp only [Sk.gsc, Bool.and_eq_true, Bool.or_eq_true, decide_eq_true_eq, List.all_eq_true]
      refine ⟨⟨?_, hsc.gsc lo hi h.1.2⟩, ?_⟩
      · by_cases hle : g1 ≤ g0
        · left; omega
        · right
          rcases h.1.1 with h1 | h1
          · omega
          · omega
      · intro g hgm
        rw [hsc.begins] at hgm
        have := h.2 g hgm
        omega
    · simp only [Sk.ok, Bool.and_eq_true, Bool.or_eq_true, decide_eq_true_eq]
      refine ⟨⟨⟨?_, leMax_maxIters hw.2.1⟩, ?_⟩, hsc.ok⟩
      · have : l % 65536 = l := Nat.mod_eq_of_lt (by omega)
        omega
      · by_cases hle : g1 ≤ g0
        · left; omega
        · right
          rcases hg.1.1 with h1 | h1
          · omega
          · omega
    · simp [Sk.phase, hsc.phase]
  | .loop1 body q, lb, b, e, l, lo, hi, hc, hw, hlf, hr, hg, hhi, hnl => by
    simp only [Code] at hc
    simp only [WF] at hw
    simp only [leafOK, Bool.and_eq_true] at hlf
    obtain ⟨i, hat, he, hu, hscm, h1c, hnl0, hg0⟩ := l1_insn (G := G) hc.2 hw.1 hlf.1 hlf.2
    have hp := hu.1 i (by simp)
    refine ⟨.loop1 q.min (maxIters q) q.greedy i, ⟨?_, ?_, ?_, ?_, ?_, ?_, ?_, fun h => by simp [endsOK] at h,
      fun _ => rfl⟩⟩
    · simp only [Lay]; exact ⟨hc.1, hat⟩
    · simp only [Sk.size]; omega
    · simp [Sk.begins, groupIds_loop1, hg0]
    · simp [Sk.lids, numLoops, hnl0, loopIdsFrom]
    · intro _ _ _; rfl
    · simp only [Sk.ok, Bool.and_eq_true]
      exact ⟨⟨⟨⟨leMax_maxIters hw.2.1, hp.1⟩, hp.2⟩, hscm⟩, h1c⟩
    · simp [Sk.phase, phase_one_of_unit hu]
theorem codeList_sk {I : Array Insn} {B : Array VM.Bracket} {uni : Bool} {G L : Nat} (hL : L ≤ 65536) :
    ∀ (ns : List Node) (lb : Bool) (b e l lo hi : Nat), CodeList I B uni ns lb b e l → WFList ns →
      leafOKList ns = true → refsOKList G ns = true → gscopedList lo hi ns = true → hi ≤ G →
      l + numLoopsList ns ≤ L →
      ∃ sk, SkSpec I G B.size L lb b e l sk (groupIdsList ns) (numLoopsList ns)
        (fun lo hi => gscopedList lo hi ns) (endsOKList ns) (rangesExactList ns)
  | [], lb, b, e, l, lo, hi, hc, _, _, _, _, _, _ => by
    simp only [CodeList] at hc
    exact ⟨.nil, ⟨trivial, by simp [Sk.size, hc], rfl, by simp [Sk.lids, loopIdsFrom, numLoopsList],
      fun _ _ _ => rfl, rfl, by simp [Sk.phase], fun h => by simp [endsOKList] at h, fun _ => rfl⟩⟩
  | n :: ns, lb, b, e, l, lo, hi, hc, hw, hlf, hr, hg, hhi, hnl => by
    simp only [CodeList] at hc
    obtain ⟨m, hn, hns⟩ := hc
    simp only [WFList] at hw
    simp only [leafOKList, Bool.and_eq_true] at hlf
    simp only [refsOKList, Bool.and_eq_true] at hr
    simp only [gscopedList, Bool.and_eq_true] at hg
    simp only [numLoopsList] at hnl
    obtain ⟨sx, hsx⟩ := code_sk hL n lb b m l lo hi hn hw.1 hlf.1 hr.1 hg.1 hhi (by omega)
    obtain ⟨sy, hsy⟩ := codeList_sk hL ns lb m e (l + numLoops n) lo hi hns hw.2 hlf.2 hr.2 hg.2 hhi (by omega)
    have e1 := hsx.size
    have e2 := hsy.size
    refine ⟨.seq sx sy, ⟨?_, ?_, ?_, ?_, ?_, ?_, ?_, ?_, fun h => by
      simp only [rangesExactList, Bool.and_eq_true] at h
      simp [Sk.rex, hsx.rex h.1, hsy.rex h.2]⟩⟩
    · simp only [Lay]
      refine ⟨hsx.lay, ?_⟩
      rw [show b + sx.size = m by omega]; exact hsy.lay
    · simp only [Sk.size]; omega
    · simp [Sk.begins, hsx.begins, hsy.begins, groupIdsList_cons]
    · simp [Sk.lids, hsx.lids, hsy.lids, numLoopsList, loopIdsFrom_add]
    · intro lo hi h
      simp only [gscopedList, Bool.and_eq_true] at h
      simp [Sk.gsc, hsx.gsc lo hi h.1, hsy.gsc lo hi h.2]
    · simp [Sk.ok, hsx.ok, hsy.ok]
    · simp [Sk.phase, hsx.phase, hsy.phase]
    · intro h
      simp only [endsOKList] at h
      simp only [Sk.endsPlain]
      split at h
      · rename_i hemp
        have : ns = [] := by simpa using hemp
        subst this
        have : sy.size = 0 := by
          simp only [CodeList] at hns
          omega
        simp [this, hsx.ends h]
      · have h2 := hsy.ends h
        have := endsPlain_size_pos h2
        rw [if_neg (by omega)]; exact h2
end

end Regress.Certs
