import RegressModel.VM.Search
import RegressModel.VM.WfProg
/-!
# The frame lemma of the backtracking executor (`undo_restores`)

The backtracker (`Regress.VM.Bt`) mutates one shared `State {loops, groups}` and records every
mutation on the stack `bts`, so that resuming a choice point sees the state it had when the choice
point was pushed.

* `restore prog r st`: the effect on the state of popping the record `r` (what `try_backtrack` does
  with it; a choice record `EnterNonGreedyLoop` is, when it is finally discarded, turned into a
  `SetLoopData` record: that is its restoring effect).
* `unwind bts st`: the state obtained by popping records from the top of `bts` down to (not
  including) the first *choice* record — the state `try_backtrack` resumes in.
* `rewind prog bts st`: the state obtained by popping *all* records down to (not including) the first
  `Exhausted` record — the state in which the attempt fails.
-/
namespace Regress.VM.Bt

/-! ## Array plumbing -/

theorem array_cases {α} (a : Array α) : a = #[] ∨ ∃ (b : Array α) (r : α), a = b.push r := by
  rcases a with ⟨l⟩
  rcases List.eq_nil_or_concat l with h | ⟨l', x, h⟩
  · left; simp [h]
  · right; refine ⟨⟨l'⟩, x, ?_⟩; subst h; simp

@[simp] theorem set_last_push {α} (b : Array α) (r r' : α) :
    (b.push r).setIfInBounds ((b.push r).size - 1) r' = b.push r' := by
  apply Array.ext_getElem?
  intro i
  simp only [Array.getElem?_setIfInBounds, Array.getElem?_push, Array.size_push]
  split <;> split <;> first | rfl | omega | (split <;> first | rfl | omega)

theorem append_cons_toArray {α} (bts : Array α) (x : α) (l : List α) :
    bts ++ (x :: l).toArray = bts.push x ++ l.toArray := by
  apply Array.ext'; simp

theorem append_two {α} (bts : Array α) (x y : α) :
    bts ++ #[x, y] = (bts.push x).push y := by
  apply Array.ext'; simp

theorem setIfInBounds_same {α} (a : Array α) (i : Nat) (x : α) (h : a[i]? = some x) :
    a.setIfInBounds i x = a := by
  apply Array.ext_getElem?
  intro j
  simp only [Array.getElem?_setIfInBounds]
  split
  · next he =>
    subst he; split
    · exact h.symm
    · next h' => simp [Array.getElem?_eq_none (Nat.le_of_not_lt h')] at h
  · rfl

/-! ## Restoring effect of the records -/

/-- The records that end the popping loop of `try_backtrack` (a `…Loop1Char` record with
`max = min` is dead: it is popped and the loop continues). -/
def BtInsn.isChoice : BtInsn → Bool
  | .exhausted => true
  | .setPosition _ _ => true
  | .enterNonGreedyLoop _ _ _ => true
  | .greedyLoop1Char _ min max => max != min
  | .nonGreedyLoop1Char _ min max => max != min
  | .setLoopData _ _ => false
  | .setCaptureGroup _ _ => false

/-- The state change made by `try_backtrack` when it pops `r`. For `EnterNonGreedyLoop` this is the
change made when the record is *discarded* (it was rewritten to `SetLoopData { id, {entry: orig_pos,
..data} }` when it was resumed). -/
def restore (prog : Prog) (r : BtInsn) (st : State) : State :=
  match r with
  | .setLoopData id d => { st with loops := st.loops.setIfInBounds id d }
  | .setCaptureGroup id d => { st with groups := st.groups.setIfInBounds id d }
  | .enterNonGreedyLoop ip origPos data =>
    match prog.insns[ip]? with
    | some (.enterLoop id _ _ _ _) =>
      { st with loops := st.loops.setIfInBounds id { data with entry := origPos } }
    | _ => st
  | _ => st

/-- `unwind` on the list of records, top first. -/
def unwindL (prog : Prog) : List BtInsn → State → State
  | [], st => st
  | r :: rs, st => if r.isChoice then st else unwindL prog rs (restore prog r st)

/-- The state in which `try_backtrack` resumes (or reports exhaustion): pop the restoring records
down to, not including, the first choice record. (`prog` is not used: `restore` consults it only
for choice records.) -/
def unwind (prog : Prog) (bts : Array BtInsn) (st : State) : State := unwindL prog bts.toList.reverse st

/-- `rewind` on the list of records, top first. -/
def rewindL (prog : Prog) : List BtInsn → State → State
  | [], st => st
  | r :: rs, st => if r = .exhausted then st else rewindL prog rs (restore prog r st)

/-- Pop everything down to (not including) the first `Exhausted` record. -/
def rewind (prog : Prog) (bts : Array BtInsn) (st : State) : State := rewindL prog bts.toList.reverse st

@[simp] theorem rewind_empty (prog : Prog) (st : State) : rewind prog #[] st = st := rfl

theorem rewind_push (prog : Prog) (bts : Array BtInsn) (r : BtInsn) (st : State) :
    rewind prog (bts.push r) st = if r = .exhausted then st else rewind prog bts (restore prog r st) := by
  simp [rewind, rewindL]

theorem unwind_push (prog : Prog) (bts : Array BtInsn) (r : BtInsn) (st : State) :
    unwind prog (bts.push r) st = if r.isChoice then st else unwind prog bts (restore prog r st) := by
  simp [unwind, unwindL]

theorem rewindL_append (prog : Prog) (a b : List BtInsn) (st : State) (h : ∀ r ∈ a, r ≠ .exhausted) :
    rewindL prog (a ++ b) st = rewindL prog b (rewindL prog a st) := by
  induction a generalizing st with
  | nil => rfl
  | cons r rs ih =>
    have hr : r ≠ .exhausted := h r (by simp)
    simp only [List.cons_append, rewindL, hr, if_false]
    exact ih _ (fun x hx => h x (by simp [hx]))

/-- Rewinding `bts ++ pushed`: first the pushed records (top first), then `bts`. -/
theorem rewind_append (prog : Prog) (bts : Array BtInsn) (pushed : List BtInsn) (st : State)
    (h : ∀ r ∈ pushed, r ≠ .exhausted) :
    rewind prog (bts ++ pushed.toArray) st = rewind prog bts (rewindL prog pushed.reverse st) := by
  simp only [rewind, Array.toList_append, List.reverse_append]
  rw [rewindL_append prog _ _ _ (by intro r hr; exact h r (by simpa using hr))]

theorem unwindL_append (prog : Prog) (a b : List BtInsn) (st : State) (h : ∀ r ∈ a, r.isChoice = false) :
    unwindL prog (a ++ b) st = unwindL prog b (rewindL prog a st) := by
  induction a generalizing st with
  | nil => rfl
  | cons r rs ih =>
    have hr : r.isChoice = false := h r (by simp)
    have hne : r ≠ .exhausted := by intro e; subst e; simp [BtInsn.isChoice] at hr
    simp only [List.cons_append, unwindL, rewindL, hr, hne, if_false, Bool.false_eq_true]
    exact ih _ (fun x hx => h x (by simp [hx]))

/-- Unwinding `bts ++ pushed` when no choice record was pushed. -/
theorem unwind_append (prog : Prog) (bts : Array BtInsn) (pushed : List BtInsn) (st : State)
    (h : ∀ r ∈ pushed, r.isChoice = false) :
    unwind prog (bts ++ pushed.toArray) st = unwind prog bts (rewindL prog pushed.reverse st) := by
  simp only [unwind, Array.toList_append, List.reverse_append]
  rw [unwindL_append prog _ _ _ (by intro r hr; exact h r (by simpa using hr))]

theorem restore_size (prog : Prog) (r : BtInsn) (st : State) :
    (restore prog r st).loops.size = st.loops.size ∧ (restore prog r st).groups.size = st.groups.size := by
  unfold restore
  split <;> try simp
  split <;> simp

/-! ## One instruction -/

/-- `st', bts'` arise from `st, bts` by pushing at most `k` records (none of them `Exhausted`) whose
restoring effect undoes the state change. -/
def PushedN (prog : Prog) (k : Nat) (st : State) (bts : Array BtInsn) (st' : State)
    (bts' : Array BtInsn) : Prop :=
  ∃ pushed : List BtInsn, bts' = bts ++ pushed.toArray ∧ (∀ r ∈ pushed, r ≠ .exhausted) ∧
    rewindL prog pushed.reverse st' = st ∧ pushed.length ≤ k

theorem PushedN.refl (prog : Prog) (k : Nat) (st : State) (bts : Array BtInsn) :
    PushedN prog k st bts st bts := ⟨[], by simp, by simp, rfl, by simp⟩

theorem PushedN.mono {prog : Prog} {k k' : Nat} {st st' : State} {bts bts' : Array BtInsn}
    (h : PushedN prog k st bts st' bts') (hk : k ≤ k') : PushedN prog k' st bts st' bts' := by
  obtain ⟨p, h1, h2, h3, h4⟩ := h
  exact ⟨p, h1, h2, h3, by omega⟩

theorem PushedN.trans {prog : Prog} {k1 k2 : Nat} {st st1 st2 : State} {bts bts1 bts2 : Array BtInsn}
    (h1 : PushedN prog k1 st bts st1 bts1) (h2 : PushedN prog k2 st1 bts1 st2 bts2) :
    PushedN prog (k1 + k2) st bts st2 bts2 := by
  obtain ⟨p, a1, a2, a3, a4⟩ := h1
  obtain ⟨q, b1, b2, b3, b4⟩ := h2
  refine ⟨p ++ q, ?_, ?_, ?_, ?_⟩
  · simp [b1, a1, Array.append_assoc]
  · intro r hr; rcases List.mem_append.1 hr with h | h
    · exact a2 r h
    · exact b2 r h
  · rw [List.reverse_append, rewindL_append prog _ _ _ (by intro r hr; exact b2 r (by simpa using hr)), b3, a3]
  · simp; omega

/-- Consequence for the whole stack. -/
theorem PushedN.rewind_eq {prog : Prog} {k : Nat} {st st' : State} {bts bts' : Array BtInsn}
    (h : PushedN prog k st bts st' bts') : rewind prog bts' st' = rewind prog bts st := by
  obtain ⟨p, h1, h2, h3, _⟩ := h
  rw [h1, rewind_append prog bts p st' h2, h3]

theorem PushedN.size_le {prog : Prog} {k : Nat} {st st' : State} {bts bts' : Array BtInsn}
    (h : PushedN prog k st bts st' bts') : bts'.size ≤ bts.size + k := by
  obtain ⟨p, h1, _, _, h4⟩ := h
  simp [h1]; omega

/-- The fields `(start_group, end_group, continuation)` of a look-around instruction. -/
def lookOf : Insn → Option (Nat × Nat × Nat)
  | .lookahead _ sg eg k => some (sg, eg, k)
  | .lookbehind _ sg eg k => some (sg, eg, k)
  | _ => none

/-- The frame property of one instruction (at address `ip`). -/
def ActFrame (prog : Prog) (ip : Nat) (st : State) (bts : Array BtInsn) : Act → Prop
  | .cont _ _ st' bts' => PushedN prog 3 st bts st' bts'
  | .back st' bts' => PushedN prog 3 st bts st' bts'
  | .goal _ st' => st' = st
  | .look _ _ sg eg k st' bts' =>
    st' = st ∧ bts' = bts ∧ ∃ i, prog.insns[ip]? = some i ∧ lookOf i = some (sg, eg, k)
  | .err _ => True

theorem nextOrBt_frame (prog : Prog) (r : Except Unit (Option Nat)) (site : String) (ip : Nat)
    (st : State) (bts : Array BtInsn) : ActFrame prog ip st bts (nextOrBt r site ip st bts) := by
  unfold nextOrBt
  split <;> simp [ActFrame, PushedN.refl]

theorem wordBoundaryAct_frame (prog : Prog) (inp : Input) (f : Nat → Bool) (invert : Bool) (ip pos : Nat)
    (st : State) (bts : Array BtInsn) :
    ActFrame prog ip st bts (wordBoundaryAct inp f invert ip pos st bts) := by
  unfold wordBoundaryAct
  split
  · simp [ActFrame]
  · split
    · simp [ActFrame]
    · simp only []; split <;> simp [ActFrame, PushedN.refl]

theorem lineAct_frame (prog : Prog) (r : Except Unit (Option Nat)) (multiline : Bool) (site : String)
    (ip pos : Nat) (st : State) (bts : Array BtInsn) :
    ActFrame prog ip st bts (lineAct r multiline site ip pos st bts) := by
  unfold lineAct
  split
  · simp [ActFrame]
  · simp [ActFrame, PushedN.refl]
  · split <;> simp [ActFrame, PushedN.refl]

theorem groupAct_frame (prog : Prog) (g : Nat) (upd : GroupData → GroupData) (site : String)
    (ip pos : Nat) (st : State) (bts : Array BtInsn) :
    ActFrame prog ip st bts (groupAct g upd site ip pos st bts) := by
  unfold groupAct
  split
  · simp [ActFrame]
  · next cg hcg =>
    refine ⟨[.setCaptureGroup g cg], by simp, by simp, ?_, by simp⟩
    simp [rewindL, restore, Array.setIfInBounds_setIfInBounds, setIfInBounds_same _ _ _ hcg]

/-- `run_loop` pushes at most two records (`SetPosition` + `SetLoopData`, or `EnterNonGreedyLoop`);
`ip` must be the address of the `EnterLoop` instruction whose fields are passed. -/
theorem runLoop_frame (prog : Prog) (st : State) (bts : Array BtInsn) (id min : Nat) (max : Option Nat)
    (greedy : Bool) (exit pos ip : Nat)
    (hip : prog.insns[ip]? = some (.enterLoop id min max greedy exit))
    {next : Option Nat} {st' : State} {bts' : Array BtInsn}
    (h : runLoop st bts id min max greedy exit pos ip = .ok next st' bts') :
    PushedN prog 2 st bts st' bts' := by
  unfold runLoop at h
  split at h
  · cases h
  · next ld hld =>
    simp only [] at h
    split at h
    · cases h; exact PushedN.refl ..
    · split at h
      · cases h; exact PushedN.refl ..
      · cases h; exact PushedN.refl ..
      · cases h
        refine ⟨[.setLoopData id ld], by simp [prepareToEnterLoop], by simp, ?_, by simp⟩
        simp [rewindL, restore, prepareToEnterLoop, Array.setIfInBounds_setIfInBounds, setIfInBounds_same _ _ _ hld]
      · split at h
        · cases h
          refine ⟨[.enterNonGreedyLoop ip ld.entry { ld with entry := pos }], by simp, by simp, ?_, by simp⟩
          simp [rewindL, restore, hip, Array.setIfInBounds_setIfInBounds, setIfInBounds_same _ _ _ hld]
        · cases h
          refine ⟨[.setPosition exit pos, .setLoopData id ld], by simp [prepareToEnterLoop, append_two], by simp, ?_, by simp⟩
          simp [rewindL, restore, prepareToEnterLoop, Array.setIfInBounds_setIfInBounds, setIfInBounds_same _ _ _ hld]

theorem runScmLoop_frame (prog : Prog) (inp : Input) (fwd : Bool) (st : State) (bts : Array BtInsn)
    (pos min : Nat) (max : Option Nat) (ip : Nat) (greedy : Bool)
    {nextIp pos' : Nat} {bts' : Array BtInsn}
    (h : runScmLoop prog inp fwd bts pos min max ip greedy = .ok (some (nextIp, pos', bts'))) :
    PushedN prog 1 st bts st bts' := by
  unfold runScmLoop at h
  simp only [] at h
  split at h
  · cases h
  · cases h
  · next minPos maxPos _ =>
    simp only [Except.ok.injEq, Option.some.injEq, Prod.mk.injEq] at h
    obtain ⟨-, -, rfl⟩ := h
    split
    · refine ⟨[_], by simp; rfl, ?_, ?_, by simp⟩
      · intro r hr; simp at hr; subst hr; split <;> simp
      · simp only [List.reverse_cons, List.reverse_nil, List.nil_append, rewindL]
        split <;> simp [restore]
    · exact PushedN.refl ..

/-- **The frame property of every instruction** (`Bt.step`, all arms): an instruction only pushes
records (at most 3), none of them `Exhausted`, and popping the pushed records restores the state the
instruction started from — exactly, for every loop slot and every group slot. -/
theorem step_frame (prog : Prog) (inp : Input) (ip pos : Nat) (fwd : Bool) (st : State)
    (bts : Array BtInsn) : ActFrame prog ip st bts (step prog inp ip pos fwd st bts) := by
  unfold step
  split
  · trivial
  · next insn hinsn =>
    split
    · split
      · exact nextOrBt_frame ..
      · exact PushedN.refl ..
    · exact nextOrBt_frame ..
    · exact nextOrBt_frame ..
    · exact nextOrBt_frame ..
    · exact nextOrBt_frame ..
    · split
      · trivial
      · exact nextOrBt_frame ..
    · exact nextOrBt_frame ..
    · exact nextOrBt_frame ..
    · exact wordBoundaryAct_frame ..
    · exact wordBoundaryAct_frame ..
    · exact lineAct_frame ..
    · exact lineAct_frame ..
    · exact PushedN.refl ..
    · exact groupAct_frame ..
    · exact groupAct_frame ..
    · exact groupAct_frame ..
    · split
      · trivial
      · split
        · split
          · exact nextOrBt_frame ..
          · exact nextOrBt_frame ..
        · exact PushedN.refl ..
    · exact ⟨rfl, rfl, _, hinsn, rfl⟩
    · exact ⟨rfl, rfl, _, hinsn, rfl⟩
    · exact ⟨[_], by simp; rfl, by simp, by simp [rewindL, restore], by simp⟩
    · -- enterLoop
      next id min max greedy exit =>
      split
      · trivial
      · next ld hld =>
        simp only []
        have h1 : PushedN prog 1 st bts
            { st with loops := st.loops.setIfInBounds id { ld with iters := 0 } }
            (bts.push (.setLoopData id ld)) := by
          refine ⟨[.setLoopData id ld], by simp, by simp, ?_, by simp⟩
          simp [rewindL, restore, Array.setIfInBounds_setIfInBounds, setIfInBounds_same _ _ _ hld]
        split
        · trivial
        · next hrl => exact (h1.trans (runLoop_frame prog _ _ _ _ _ _ _ _ _ hinsn hrl)).mono (by omega)
        · next hrl => exact (h1.trans (runLoop_frame prog _ _ _ _ _ _ _ _ _ hinsn hrl)).mono (by omega)
    · -- loopAgain
      split
      · trivial
      · next hb =>
        split
        · trivial
        · next hrl => exact (runLoop_frame prog _ _ _ _ _ _ _ _ _ hb hrl).mono (by omega)
        · next hrl => exact (runLoop_frame prog _ _ _ _ _ _ _ _ _ hb hrl).mono (by omega)
      · trivial
    · -- loop1
      split
      · trivial
      · exact PushedN.refl ..
      · next hr => exact (runScmLoop_frame prog inp fwd st bts _ _ _ _ _ hr).mono (by omega)
    · rfl
    · exact PushedN.refl ..

/-! ## `try_backtrack` -/

theorem tryBacktrackLoop_fuel (prog : Prog) (inp : Input) (fwd : Bool) :
    ∀ (n m : Nat) (st : State) (bts : Array BtInsn), bts.size < n → bts.size < m →
      tryBacktrackLoop prog inp fwd n st bts = tryBacktrackLoop prog inp fwd m st bts := by
  intro n
  induction n with
  | zero => intro m st bts h; omega
  | succ n ih =>
    intro m st bts hn hm
    cases m with
    | zero => omega
    | succ m =>
      rcases array_cases bts with rfl | ⟨b, r, rfl⟩
      · simp [tryBacktrackLoop]
      · have hb1 : b.size < n := by simp at hn; omega
        have hb2 : b.size < m := by simp at hm; omega
        unfold tryBacktrackLoop
        simp only [Array.back?_push, Array.pop_push]
        cases r <;> simp only [ih m _ b hb1 hb2]

theorem tryBacktrack_push (prog : Prog) (inp : Input) (fwd : Bool) (st : State) (b : Array BtInsn)
    (r : BtInsn) :
    tryBacktrack prog inp fwd st (b.push r) =
      match r with
      | .exhausted => .exhausted st (b.push r)
      | .setPosition ip pos => .resumed ip pos st b
      | .setLoopData id data =>
        if id < st.loops.size then
          tryBacktrack prog inp fwd { st with loops := st.loops.setIfInBounds id data } b
        else .err "try_backtrack: SetLoopData loops.mat(id) out of range"
      | .setCaptureGroup id data =>
        if id < st.groups.size then
          tryBacktrack prog inp fwd { st with groups := st.groups.setIfInBounds id data } b
        else .err "try_backtrack: SetCaptureGroup groups.mat(id) out of range"
      | .enterNonGreedyLoop loopIp origPos data =>
        match prog.insns[loopIp]? with
        | none => .err "try_backtrack: EnterNonGreedyLoop insns.iat(loop_ip) out of range"
        | some (.enterLoop id _ _ _ _) =>
          if id < st.loops.size then
            .resumed (loopIp + 1) data.entry
              { st with loops := st.loops.setIfInBounds id { iters := data.iters + 1, entry := data.entry } }
              ((b.push (.setLoopData id { data with entry := origPos })).push (.setLoopData id data))
          else .err "try_backtrack: EnterNonGreedyLoop loops.mat(loop_id) out of range"
        | some _ =>
          .err "try_backtrack: rs_unreachable!(EnterNonGreedyLoop must point at a loop instruction)"
      | .greedyLoop1Char continuation min max =>
        if max == min then tryBacktrack prog inp fwd st b
        else
          match (if fwd then inp.nextLeftPos max else inp.nextRightPos max) with
          | .error _ => .err "try_backtrack: GreedyLoop1Char input read out of range"
          | .ok none =>
            .err "try_backtrack: rs_unreachable!(Should always be able to advance since min != max)"
          | .ok (some newmax) =>
            .resumed continuation newmax st (b.push (.greedyLoop1Char continuation min newmax))
      | .nonGreedyLoop1Char continuation min max =>
        if max == min then tryBacktrack prog inp fwd st b
        else
          match (if fwd then inp.nextRightPos min else inp.nextLeftPos min) with
          | .error _ => .err "try_backtrack: NonGreedyLoop1Char input read out of range"
          | .ok none =>
            .err "try_backtrack: rs_unreachable!(Should always be able to advance since min != max)"
          | .ok (some newmin) =>
            .resumed continuation newmin st (b.push (.nonGreedyLoop1Char continuation newmin max)) := by
  have hf : ∀ st', tryBacktrackLoop prog inp fwd (b.size + 1) st' b = tryBacktrack prog inp fwd st' b :=
    fun _ => rfl
  unfold tryBacktrack
  simp only [Array.size_push]
  unfold tryBacktrackLoop
  simp only [Array.back?_push, Array.pop_push, hf]
  cases r <;> simp only [set_last_push, prepareToEnterLoop]
  all_goals rfl

theorem tryBacktrack_empty (prog : Prog) (inp : Input) (fwd : Bool) (st : State) :
    tryBacktrack prog inp fwd st #[] =
      .err "try_backtrack: rs_unreachable!(BT stack should never be empty)" := by
  simp [tryBacktrack, tryBacktrackLoop]

/-- The frame property of `try_backtrack` relative to a protected prefix `base` of the stack
(`bts = base ++ suffix`). -/
inductive BtFrame (prog : Prog) (inp : Input) (fwd : Bool) (base suffix : Array BtInsn) (st : State) :
    BtRes → Prop
  | err (e : String) : BtFrame prog inp fwd base suffix st (.err e)
  /-- a choice record of `suffix` was resumed: the stack is still `base ++ suffix'`, and popping all
  of `suffix'` gives the same state as popping all of `suffix` did before -/
  | resumed (ip pos : Nat) (st' : State) (suffix' : Array BtInsn) :
      rewind prog suffix' st' = rewind prog suffix st → suffix'.size ≤ suffix.size + 1 →
      BtFrame prog inp fwd base suffix st (.resumed ip pos st' (base ++ suffix'))
  /-- an `Exhausted` record inside `suffix` was reached -/
  | exhausted (st' : State) (suffix' : Array BtInsn) :
      suffix'.back? = some .exhausted → st' = rewind prog suffix st → suffix'.size ≤ suffix.size →
      BtFrame prog inp fwd base suffix st (.exhausted st' (base ++ suffix'))
  /-- `suffix` held no (live) choice record: it was popped completely, and `try_backtrack` behaves
  as if called with the stack `base` in the state that popping `suffix` restores -/
  | intoBase : (∀ r ∈ suffix, r.isChoice = false) →
      BtFrame prog inp fwd base suffix st (tryBacktrack prog inp fwd (rewind prog suffix st) base)

theorem BtFrame.push_restoring {prog : Prog} {inp : Input} {fwd : Bool} {base s : Array BtInsn}
    {st : State} {r : BtInsn} {R : BtRes} (hr : r.isChoice = false)
    (h : BtFrame prog inp fwd base s (restore prog r st) R) :
    BtFrame prog inp fwd base (s.push r) st R := by
  have hne : r ≠ .exhausted := by intro h; subst h; simp [BtInsn.isChoice] at hr
  have hrw : rewind prog (s.push r) st = rewind prog s (restore prog r st) := by
    simp [rewind_push, hne]
  cases h with
  | err e => exact .err e
  | resumed ip pos st' suffix' h1 h2 => exact .resumed ip pos st' suffix' (by rw [hrw]; exact h1) (by simp; omega)
  | exhausted st' suffix' h1 h2 h3 => exact .exhausted st' suffix' h1 (by rw [hrw]; exact h2) (by simp; omega)
  | intoBase h1 =>
    rw [← hrw]
    refine .intoBase ?_
    intro x hx
    rcases Array.mem_push.1 hx with h | h
    · exact h1 x h
    · subst h; exact hr

/-- **The frame property of `try_backtrack`**, for every split `bts = base ++ suffix`. -/
theorem tryBacktrack_frame (prog : Prog) (inp : Input) (fwd : Bool) (base : Array BtInsn) :
    ∀ (n : Nat) (suffix : Array BtInsn) (st : State), suffix.size = n →
      BtFrame prog inp fwd base suffix st (tryBacktrack prog inp fwd st (base ++ suffix)) := by
  intro n
  induction n with
  | zero =>
    intro suffix st h
    have : suffix = #[] := by simpa using h
    subst this
    simpa using BtFrame.intoBase (prog := prog) (inp := inp) (fwd := fwd) (base := base) (suffix := #[])
      (st := st) (by simp)
  | succ n ih =>
    intro suffix st h
    rcases array_cases suffix with rfl | ⟨s, r, rfl⟩
    · simp at h
    · have hs : s.size = n := by simpa using h
      rw [Array.append_push, tryBacktrack_push]
      cases r with
      | exhausted =>
        simp only []
        rw [Array.push_append]
        exact .exhausted st _ (by simp) (by simp [rewind_push]) (by simp)
      | setPosition ip pos =>
        exact .resumed ip pos st s (by simp [rewind_push, restore]) (by simp; omega)
      | setLoopData id data =>
        simp only []
        split
        · exact BtFrame.push_restoring (by rfl) (ih s _ hs)
        · exact .err _
      | setCaptureGroup id data =>
        simp only []
        split
        · exact BtFrame.push_restoring (by rfl) (ih s _ hs)
        · exact .err _
      | enterNonGreedyLoop loopIp origPos data =>
        simp only []
        split
        · exact .err _
        · next id _ _ _ _ hip =>
          split
          · rw [Array.push_append, Array.push_append]
            refine .resumed _ _ _ _ ?_ (by simp)
            simp [rewind_push, restore, hip, Array.setIfInBounds_setIfInBounds]
          · exact .err _
        · exact .err _
      | greedyLoop1Char continuation min max =>
        simp only []
        split
        · next hmm =>
          exact BtFrame.push_restoring (by simpa [BtInsn.isChoice] using hmm) (by simpa [restore] using ih s st hs)
        · split
          · exact .err _
          · exact .err _
          · rw [Array.push_append]
            exact .resumed _ _ _ _ (by simp [rewind_push, restore]) (by simp)
      | nonGreedyLoop1Char continuation min max =>
        simp only []
        split
        · next hmm =>
          exact BtFrame.push_restoring (by simpa [BtInsn.isChoice] using hmm) (by simpa [restore] using ih s st hs)
        · split
          · exact .err _
          · exact .err _
          · rw [Array.push_append]
            exact .resumed _ _ _ _ (by simp [rewind_push, restore]) (by simp)

/-- Whole-stack form: `try_backtrack` preserves "the state that popping everything restores". -/
theorem tryBacktrack_rewind (prog : Prog) (inp : Input) (fwd : Bool) (st : State) (bts : Array BtInsn) :
    match tryBacktrack prog inp fwd st bts with
    | .resumed _ _ st' bts' => rewind prog bts' st' = rewind prog bts st ∧ bts'.size ≤ bts.size + 1
    | .exhausted st' _ => st' = rewind prog bts st
    | .err _ => True := by
  have h := tryBacktrack_frame prog inp fwd #[] bts.size bts st rfl
  simp only [Array.empty_append] at h
  generalize tryBacktrack prog inp fwd st bts = R at h
  cases h with
  | err e => trivial
  | resumed ip pos st' suffix' h1 h2 => simpa using ⟨h1, h2⟩
  | exhausted st' suffix' h1 h2 h3 => simpa using h2
  | intoBase h1 => simp [tryBacktrack_empty]

/-- `u` is the state in which `try_backtrack` resumed: exactly for `SetPosition` and the
`…Loop1Char` choice records and for exhaustion; for `EnterNonGreedyLoop` the loop slot of the
re-entered loop is then advanced (`prepare_to_enter_loop`). -/
def ResumesAt (u : State) : BtRes → Prop
  | .resumed _ _ st' _ =>
    st' = u ∨ ∃ (id : Nat) (data : LoopData),
      st' = { u with loops := u.loops.setIfInBounds id { iters := data.iters + 1, entry := data.entry } }
  | .exhausted st' _ => st' = u
  | .err _ => True

/-- `unwind bts st` is the state in which `try_backtrack` resumes. -/
theorem tryBacktrack_unwind (prog : Prog) (inp : Input) (fwd : Bool) :
    ∀ (n : Nat) (bts : Array BtInsn) (st : State), bts.size = n →
      ResumesAt (unwind prog bts st) (tryBacktrack prog inp fwd st bts) := by
  intro n
  induction n with
  | zero =>
    intro bts st h
    have : bts = #[] := by simpa using h
    subst this; simp [tryBacktrack_empty, ResumesAt]
  | succ n ih =>
    intro bts st h
    rcases array_cases bts with rfl | ⟨s, r, rfl⟩
    · simp at h
    · have hs : s.size = n := by simpa using h
      rw [tryBacktrack_push, unwind_push]
      cases r with
      | exhausted => simp [BtInsn.isChoice, ResumesAt]
      | setPosition ip pos => simp [BtInsn.isChoice, ResumesAt]
      | setLoopData id data =>
        simp only [BtInsn.isChoice, Bool.false_eq_true, if_false]
        by_cases hid : id < st.loops.size
        · simp only [hid, if_true]; exact ih s _ hs
        · simp [hid, ResumesAt]
      | setCaptureGroup id data =>
        simp only [BtInsn.isChoice, Bool.false_eq_true, if_false]
        by_cases hid : id < st.groups.size
        · simp only [hid, if_true]; exact ih s _ hs
        · simp [hid, ResumesAt]
      | enterNonGreedyLoop loopIp origPos data =>
        simp only [BtInsn.isChoice, if_true]
        split
        · trivial
        · split
          · right; exact ⟨_, data, rfl⟩
          · trivial
        · trivial
      | greedyLoop1Char continuation min max =>
        by_cases hmm : max = min
        · subst hmm; simpa [BtInsn.isChoice, restore] using ih s st hs
        · simp only [BtInsn.isChoice, bne_iff_ne, ne_eq, hmm, not_false_eq_true, if_true, beq_iff_eq, if_false]
          split
          · trivial
          · trivial
          · left; rfl
      | nonGreedyLoop1Char continuation min max =>
        by_cases hmm : max = min
        · subst hmm; simpa [BtInsn.isChoice, restore] using ih s st hs
        · simp only [BtInsn.isChoice, bne_iff_ne, ne_eq, hmm, not_false_eq_true, if_true, beq_iff_eq, if_false]
          split
          · trivial
          · trivial
          · left; rfl

/-! ## Footprints: which slots a run inside a closed region of the program can touch -/

/-- Agreement of two states outside the loop slots `L` and the group slots `G`. -/
structure Agree (L G : Nat → Bool) (a b : State) : Prop where
  lsize : a.loops.size = b.loops.size
  gsize : a.groups.size = b.groups.size
  loops : ∀ i, L i = false → a.loops[i]? = b.loops[i]?
  groups : ∀ g, G g = false → a.groups[g]? = b.groups[g]?

theorem Agree.refl (L G : Nat → Bool) (a : State) : Agree L G a a := ⟨rfl, rfl, fun _ _ => rfl, fun _ _ => rfl⟩

theorem Agree.symm {L G : Nat → Bool} {a b : State} (h : Agree L G a b) : Agree L G b a :=
  ⟨h.lsize.symm, h.gsize.symm, fun i hi => (h.loops i hi).symm, fun g hg => (h.groups g hg).symm⟩

theorem Agree.trans {L G : Nat → Bool} {a b c : State} (h1 : Agree L G a b) (h2 : Agree L G b c) :
    Agree L G a c :=
  ⟨h1.lsize.trans h2.lsize, h1.gsize.trans h2.gsize, fun i hi => (h1.loops i hi).trans (h2.loops i hi),
   fun g hg => (h1.groups g hg).trans (h2.groups g hg)⟩

theorem Agree.mono {L G L' G' : Nat → Bool} {a b : State} (h : Agree L G a b)
    (hL : ∀ i, L i = true → L' i = true) (hG : ∀ g, G g = true → G' g = true) : Agree L' G' a b :=
  ⟨h.lsize, h.gsize,
   fun i hi => h.loops i (by cases hl : L i <;> simp_all),
   fun g hg => h.groups g (by cases hl : G g <;> simp_all)⟩

/-- With no group slot excepted the group arrays are equal. -/
theorem Agree.groups_eq {L : Nat → Bool} {a b : State} (h : Agree L (fun _ => false) a b) :
    a.groups = b.groups := Array.ext_getElem? (fun g => h.groups g rfl)

theorem Agree.loops_eq {G : Nat → Bool} {a b : State} (h : Agree (fun _ => false) G a b) :
    a.loops = b.loops := Array.ext_getElem? (fun g => h.loops g rfl)

theorem Agree.setLoop {L G : Nat → Bool} {a b : State} (h : Agree L G a b) (id : Nat) (d : LoopData)
    (hid : L id = true) : Agree L G { a with loops := a.loops.setIfInBounds id d } b := by
  refine ⟨by simpa using h.lsize, h.gsize, ?_, h.groups⟩
  intro i hi
  have : id ≠ i := by intro e; subst e; simp [hid] at hi
  simp [this, h.loops i hi]

theorem Agree.setGroup {L G : Nat → Bool} {a b : State} (h : Agree L G a b) (g : Nat) (d : GroupData)
    (hg : G g = true) : Agree L G { a with groups := a.groups.setIfInBounds g d } b := by
  refine ⟨h.lsize, by simpa using h.gsize, h.loops, ?_⟩
  intro i hi
  have : g ≠ i := by intro e; subst e; simp [hg] at hi
  simp [this, h.groups i hi]

/-- Popping the same record from two agreeing states gives agreeing states. -/
theorem Agree.restore {L G : Nat → Bool} {a b : State} (h : Agree L G a b) (prog : Prog) (r : BtInsn) :
    Agree L G (restore prog r a) (restore prog r b) := by
  have hl : ∀ id d, Agree L G { a with loops := a.loops.setIfInBounds id d }
      { b with loops := b.loops.setIfInBounds id d } := by
    intro id d
    refine ⟨by simpa using h.lsize, h.gsize, ?_, h.groups⟩
    intro i hi
    simp only [Array.getElem?_setIfInBounds, h.lsize, h.loops i hi]
  unfold Bt.restore
  split
  · exact hl _ _
  · refine ⟨h.lsize, by simpa using h.gsize, h.loops, ?_⟩
    intro i hi
    simp only [Array.getElem?_setIfInBounds, h.gsize, h.groups i hi]
  · split
    · exact hl _ _
    · exact h
  · exact h

theorem Agree.rewindL {L G : Nat → Bool} (prog : Prog) (rs : List BtInsn) {a b : State}
    (h : Agree L G a b) : Agree L G (rewindL prog rs a) (rewindL prog rs b) := by
  induction rs generalizing a b with
  | nil => exact h
  | cons r rs ih =>
    simp only [Bt.rewindL]
    split
    · exact h
    · exact ih (h.restore prog r)

theorem Agree.rewind {L G : Nat → Bool} (prog : Prog) (bts : Array BtInsn) {a b : State}
    (h : Agree L G a b) : Agree L G (rewind prog bts a) (rewind prog bts b) := h.rewindL prog _

/-- The instruction `i` at address `j` stays inside the region `R` of the program (all addresses
it can continue at or push are in `R`) and writes only loop slots in `L` and group slots in `G`.
The nested run of a look-around starts at an address satisfying `N`. -/
def insnIn (prog : Prog) (R N L G : Nat → Bool) (j : Nat) (i : Insn) : Bool :=
  match i with
  | .goal => true
  | .justFail => true
  | .jump t => R t
  | .alt s => R (j + 1) && R s
  | .enterLoop id _ _ _ exit => R (j + 1) && R exit && L id
  | .loopAgain b =>
    match prog.insns[b]? with
    | some (.enterLoop id _ _ _ exit) => R (b + 1) && R exit && L id
    | _ => true
  | .loop1 _ _ _ => R (j + 2)
  | .lookahead _ sg eg k => N (j + 1) && R k && (List.range (eg - sg)).all (fun d => G (sg + d))
  | .lookbehind _ sg eg k => N (j + 1) && R k && (List.range (eg - sg)).all (fun d => G (sg + d))
  | .beginCaptureGroup g => R (j + 1) && G g
  | .endCaptureGroup g => R (j + 1) && G g
  | .resetCaptureGroup g => R (j + 1) && G g
  | _ => R (j + 1)

/-- `R` is a closed region of the program with footprint `L` (loop slots), `G` (group slots). -/
def Region (prog : Prog) (R N L G : Nat → Bool) : Prop :=
  ∀ j i, R j = true → prog.insns[j]? = some i → insnIn prog R N L G j i = true

/-- A stack record that resumes inside `R` / restores only slots of the footprint. -/
def recIn (prog : Prog) (R L G : Nat → Bool) : BtInsn → Bool
  | .exhausted => true
  | .setPosition ip _ => R ip
  | .setLoopData id _ => L id
  | .setCaptureGroup g _ => G g
  | .enterNonGreedyLoop ip _ _ =>
    R (ip + 1) && (match prog.insns[ip]? with
      | some (.enterLoop id _ _ _ _) => L id
      | _ => true)
  | .greedyLoop1Char c _ _ => R c
  | .nonGreedyLoop1Char c _ _ => R c

def RecsIn (prog : Prog) (R L G : Nat → Bool) (bts : Array BtInsn) : Prop :=
  ∀ r ∈ bts, recIn prog R L G r = true

theorem RecsIn.push {prog : Prog} {R L G : Nat → Bool} {bts : Array BtInsn} {r : BtInsn}
    (h : RecsIn prog R L G bts) (hr : recIn prog R L G r = true) : RecsIn prog R L G (bts.push r) := by
  intro x hx
  rcases Array.mem_push.1 hx with h' | h'
  · exact h x h'
  · subst h'; exact hr

theorem RecsIn.of_push {prog : Prog} {R L G : Nat → Bool} {bts : Array BtInsn} {r : BtInsn}
    (h : RecsIn prog R L G (bts.push r)) : RecsIn prog R L G bts ∧ recIn prog R L G r = true :=
  ⟨fun x hx => h x (Array.mem_push.2 (Or.inl hx)), h r (Array.mem_push.2 (Or.inr rfl))⟩

/-- What one instruction inside a closed region does. -/
def ActIn (prog : Prog) (R N L G : Nat → Bool) (ip : Nat) (st : State) (bts : Array BtInsn) : Act → Prop
  | .cont ip' _ st' bts' => R ip' = true ∧ RecsIn prog R L G bts' ∧ Agree L G st' st
  | .back st' bts' => RecsIn prog R L G bts' ∧ Agree L G st' st
  | .goal _ st' => st' = st
  | .look _ _ sg eg k st' bts' =>
    st' = st ∧ bts' = bts ∧ N (ip + 1) = true ∧ R k = true ∧ ∀ g, sg ≤ g → g < eg → G g = true
  | .err _ => True

theorem nextOrBt_in (prog : Prog) (R N L G : Nat → Bool) (r : Except Unit (Option Nat)) (site : String)
    (ip : Nat) (st : State) (bts : Array BtInsn) (hR : R (ip + 1) = true) (hb : RecsIn prog R L G bts) :
    ActIn prog R N L G ip st bts (nextOrBt r site ip st bts) := by
  unfold nextOrBt
  split <;> simp [ActIn, hR, hb, Agree.refl]

theorem wordBoundaryAct_in (prog : Prog) (R N L G : Nat → Bool) (inp : Input) (f : Nat → Bool)
    (invert : Bool) (ip pos : Nat) (st : State) (bts : Array BtInsn) (hR : R (ip + 1) = true)
    (hb : RecsIn prog R L G bts) :
    ActIn prog R N L G ip st bts (wordBoundaryAct inp f invert ip pos st bts) := by
  unfold wordBoundaryAct
  split
  · simp [ActIn]
  · split
    · simp [ActIn]
    · simp only []; split <;> simp [ActIn, hR, hb, Agree.refl]

theorem lineAct_in (prog : Prog) (R N L G : Nat → Bool) (r : Except Unit (Option Nat)) (multiline : Bool)
    (site : String) (ip pos : Nat) (st : State) (bts : Array BtInsn) (hR : R (ip + 1) = true)
    (hb : RecsIn prog R L G bts) :
    ActIn prog R N L G ip st bts (lineAct r multiline site ip pos st bts) := by
  unfold lineAct
  split
  · simp [ActIn]
  · simp [ActIn, hR, hb, Agree.refl]
  · split <;> simp [ActIn, hR, hb, Agree.refl]

theorem groupAct_in (prog : Prog) (R N L G : Nat → Bool) (g : Nat) (upd : GroupData → GroupData)
    (site : String) (ip pos : Nat) (st : State) (bts : Array BtInsn) (hR : R (ip + 1) = true)
    (hG : G g = true) (hb : RecsIn prog R L G bts) :
    ActIn prog R N L G ip st bts (groupAct g upd site ip pos st bts) := by
  unfold groupAct
  split
  · simp [ActIn]
  · exact ⟨hR, hb.push (by simpa [recIn] using hG), (Agree.refl L G st).setGroup g _ hG⟩

theorem runLoop_in (prog : Prog) (R L G : Nat → Bool) (st : State) (bts : Array BtInsn) (id min : Nat)
    (max : Option Nat) (greedy : Bool) (exit pos ip : Nat)
    (hip : prog.insns[ip]? = some (.enterLoop id min max greedy exit))
    (hR1 : R (ip + 1) = true) (hRe : R exit = true) (hL : L id = true) (hb : RecsIn prog R L G bts)
    {next : Option Nat} {st' : State} {bts' : Array BtInsn}
    (h : runLoop st bts id min max greedy exit pos ip = .ok next st' bts') :
    (∀ n, next = some n → R n = true) ∧ RecsIn prog R L G bts' ∧ Agree L G st' st := by
  unfold runLoop at h
  split at h
  · cases h
  · next ld hld =>
    simp only [] at h
    split at h
    · cases h; exact ⟨by simp, hb, Agree.refl ..⟩
    · split at h
      · cases h; exact ⟨by simp, hb, Agree.refl ..⟩
      · cases h; exact ⟨by simp [hRe], hb, Agree.refl ..⟩
      · cases h
        exact ⟨by simp [hR1], hb.push (by simpa [recIn] using hL), (Agree.refl L G st).setLoop id _ hL⟩
      · split at h
        · cases h
          exact ⟨by simp [hRe], hb.push (by simp [recIn, hR1, hip, hL]), (Agree.refl L G st).setLoop id _ hL⟩
        · cases h
          exact ⟨by simp [hR1], (hb.push (by simpa [recIn] using hRe)).push (by simpa [recIn] using hL),
            (Agree.refl L G st).setLoop id _ hL⟩

theorem runScmLoop_in (prog : Prog) (R L G : Nat → Bool) (inp : Input) (fwd : Bool) (bts : Array BtInsn)
    (pos min : Nat) (max : Option Nat) (ip : Nat) (greedy : Bool) (hR : R (ip + 2) = true)
    (hb : RecsIn prog R L G bts) {nextIp pos' : Nat} {bts' : Array BtInsn}
    (h : runScmLoop prog inp fwd bts pos min max ip greedy = .ok (some (nextIp, pos', bts'))) :
    R nextIp = true ∧ RecsIn prog R L G bts' := by
  unfold runScmLoop at h
  simp only [] at h
  split at h
  · cases h
  · cases h
  · simp only [Except.ok.injEq, Option.some.injEq, Prod.mk.injEq] at h
    obtain ⟨rfl, -, rfl⟩ := h
    refine ⟨hR, ?_⟩
    split
    · refine hb.push ?_
      split <;> simpa [recIn] using hR
    · exact hb

/-- Every instruction inside a closed region stays inside it. -/
theorem step_in (prog : Prog) (R N L G : Nat → Bool) (hReg : Region prog R N L G) (inp : Input)
    (ip pos : Nat) (fwd : Bool) (st : State) (bts : Array BtInsn) (hip : R ip = true)
    (hb : RecsIn prog R L G bts) : ActIn prog R N L G ip st bts (step prog inp ip pos fwd st bts) := by
  unfold step
  split
  · trivial
  · next insn hinsn =>
    have hI := hReg ip insn hip hinsn
    split <;> simp only [insnIn, Bool.and_eq_true] at hI
    · split
      · exact nextOrBt_in _ _ _ _ _ _ _ _ _ _ hI hb
      · exact ⟨hb, Agree.refl ..⟩
    · exact nextOrBt_in _ _ _ _ _ _ _ _ _ _ hI hb
    · exact nextOrBt_in _ _ _ _ _ _ _ _ _ _ hI hb
    · exact nextOrBt_in _ _ _ _ _ _ _ _ _ _ hI hb
    · exact nextOrBt_in _ _ _ _ _ _ _ _ _ _ hI hb
    · split
      · trivial
      · exact nextOrBt_in _ _ _ _ _ _ _ _ _ _ hI hb
    · exact nextOrBt_in _ _ _ _ _ _ _ _ _ _ hI hb
    · exact nextOrBt_in _ _ _ _ _ _ _ _ _ _ hI hb
    · exact wordBoundaryAct_in _ _ _ _ _ _ _ _ _ _ _ _ hI hb
    · exact wordBoundaryAct_in _ _ _ _ _ _ _ _ _ _ _ _ hI hb
    · exact lineAct_in _ _ _ _ _ _ _ _ _ _ _ _ hI hb
    · exact lineAct_in _ _ _ _ _ _ _ _ _ _ _ _ hI hb
    · exact ⟨hI, hb, Agree.refl ..⟩
    · exact groupAct_in _ _ _ _ _ _ _ _ _ _ _ _ hI.1 hI.2 hb
    · exact groupAct_in _ _ _ _ _ _ _ _ _ _ _ _ hI.1 hI.2 hb
    · exact groupAct_in _ _ _ _ _ _ _ _ _ _ _ _ hI.1 hI.2 hb
    · split
      · trivial
      · split
        · split
          · exact nextOrBt_in _ _ _ _ _ _ _ _ _ _ hI hb
          · exact nextOrBt_in _ _ _ _ _ _ _ _ _ _ hI hb
        · exact ⟨hI, hb, Agree.refl ..⟩
    · next neg sg eg k =>
      refine ⟨rfl, rfl, hI.1.1, hI.1.2, ?_⟩
      intro g h1 h2
      have := List.all_eq_true.1 hI.2 (g - sg) (List.mem_range.2 (by omega))
      rwa [Nat.add_sub_cancel' h1] at this
    · next neg sg eg k =>
      refine ⟨rfl, rfl, hI.1.1, hI.1.2, ?_⟩
      intro g h1 h2
      have := List.all_eq_true.1 hI.2 (g - sg) (List.mem_range.2 (by omega))
      rwa [Nat.add_sub_cancel' h1] at this
    · exact ⟨hI.1, hb.push (by simpa [recIn] using hI.2), Agree.refl ..⟩
    · -- enterLoop
      next id min max greedy exit =>
      split
      · trivial
      · next ld hld =>
        simp only []
        have hb1 : RecsIn prog R L G (bts.push (.setLoopData id ld)) := hb.push (by simpa [recIn] using hI.2)
        have ha1 : Agree L G { st with loops := st.loops.setIfInBounds id { ld with iters := 0 } } st :=
          (Agree.refl L G st).setLoop id _ hI.2
        split
        · trivial
        · next hrl =>
          obtain ⟨h1, h2, h3⟩ := runLoop_in prog R L G _ _ _ _ _ _ _ _ _ hinsn hI.1.1 hI.1.2 hI.2 hb1 hrl
          exact ⟨h1 _ rfl, h2, h3.trans ha1⟩
        · next hrl =>
          obtain ⟨h1, h2, h3⟩ := runLoop_in prog R L G _ _ _ _ _ _ _ _ _ hinsn hI.1.1 hI.1.2 hI.2 hb1 hrl
          exact ⟨h2, h3.trans ha1⟩
    · -- loopAgain
      split
      · trivial
      · next hbeg =>
        simp only [hbeg, Bool.and_eq_true] at hI
        split
        · trivial
        · next hrl =>
          obtain ⟨h1, h2, h3⟩ := runLoop_in prog R L G _ _ _ _ _ _ _ _ _ hbeg hI.1.1 hI.1.2 hI.2 hb hrl
          exact ⟨h1 _ rfl, h2, h3⟩
        · next hrl =>
          obtain ⟨h1, h2, h3⟩ := runLoop_in prog R L G _ _ _ _ _ _ _ _ _ hbeg hI.1.1 hI.1.2 hI.2 hb hrl
          exact ⟨h2, h3⟩
      · trivial
    · -- loop1
      split
      · trivial
      · exact ⟨hb, Agree.refl ..⟩
      · next hr =>
        obtain ⟨h1, h2⟩ := runScmLoop_in prog R L G inp fwd bts _ _ _ _ _ hI hb hr
        exact ⟨h1, h2, Agree.refl ..⟩
    · rfl
    · exact ⟨hb, Agree.refl ..⟩

def BtIn (prog : Prog) (R L G : Nat → Bool) (st : State) : BtRes → Prop
  | .resumed ip' _ st' bts' => R ip' = true ∧ RecsIn prog R L G bts' ∧ Agree L G st' st
  | .exhausted st' _ => Agree L G st' st
  | .err _ => True

theorem BtIn.trans {prog : Prog} {R L G : Nat → Bool} {st1 st0 : State} {r : BtRes}
    (h : BtIn prog R L G st1 r) (h0 : Agree L G st1 st0) : BtIn prog R L G st0 r := by
  cases r with
  | resumed ip pos st' bts' => exact ⟨h.1, h.2.1, h.2.2.trans h0⟩
  | exhausted st' bts' => exact Agree.trans h h0
  | err e => trivial

theorem tryBacktrack_in (prog : Prog) (R L G : Nat → Bool) (inp : Input) (fwd : Bool) :
    ∀ (n : Nat) (bts : Array BtInsn) (st : State), bts.size = n → RecsIn prog R L G bts →
      BtIn prog R L G st (tryBacktrack prog inp fwd st bts) := by
  intro n
  induction n with
  | zero =>
    intro bts st h _
    have : bts = #[] := by simpa using h
    subst this; simp [tryBacktrack_empty, BtIn]
  | succ n ih =>
    intro bts st h hb
    rcases array_cases bts with rfl | ⟨s, r, rfl⟩
    · simp at h
    · have hs : s.size = n := by simpa using h
      obtain ⟨hbs, hr⟩ := hb.of_push
      rw [tryBacktrack_push]
      cases r with
      | exhausted => exact Agree.refl ..
      | setPosition ip pos => exact ⟨by simpa [recIn] using hr, hbs, Agree.refl ..⟩
      | setLoopData id data =>
        simp only []
        split
        · exact (ih s _ hs hbs).trans ((Agree.refl L G st).setLoop id _ (by simpa [recIn] using hr))
        · trivial
      | setCaptureGroup id data =>
        simp only []
        split
        · exact (ih s _ hs hbs).trans ((Agree.refl L G st).setGroup id _ (by simpa [recIn] using hr))
        · trivial
      | enterNonGreedyLoop loopIp origPos data =>
        simp only []
        split
        · trivial
        · next id _ _ _ _ hip =>
          simp only [recIn, hip, Bool.and_eq_true] at hr
          split
          · exact ⟨hr.1, (hbs.push (by simpa [recIn] using hr.2)).push (by simpa [recIn] using hr.2),
              (Agree.refl L G st).setLoop id _ hr.2⟩
          · trivial
        · trivial
      | greedyLoop1Char continuation min max =>
        simp only []
        split
        · exact ih s st hs hbs
        · split
          · trivial
          · trivial
          · exact ⟨by simpa [recIn] using hr, hbs.push (by simpa [recIn] using hr), Agree.refl ..⟩
      | nonGreedyLoop1Char continuation min max =>
        simp only []
        split
        · exact ih s st hs hbs
        · split
          · trivial
          · trivial
          · exact ⟨by simpa [recIn] using hr, hbs.push (by simpa [recIn] using hr), Agree.refl ..⟩

/-! ## The run -/

/-- The `break 'backtrack` continuation of `try_at_pos`. -/
def backtrackThen (prog : Prog) (inp : Input) (limit sf : Nat) (fwd : Bool) (st : State)
    (bts : Array BtInsn) (steps peak : Nat) : Outcome :=
  match tryBacktrack prog inp fwd st bts with
  | .err e => .error e
  | .exhausted st _ => .failed st steps peak
  | .resumed ip pos st bts => run prog inp limit sf ip pos fwd st bts steps peak

/-- What happens after the nested run of a look-around returned. -/
def afterLook (prog : Prog) (inp : Input) (limit sf : Nat) (pos : Nat) (fwd negate : Bool)
    (sg continuation : Nat) (saved : List GroupData) (bts : Array BtInsn) : Outcome → Outcome
  | .error e => .error e
  | .outOfFuel => .outOfFuel
  | .matched _ st steps peak =>
    if !negate then
      run prog inp limit sf continuation pos fwd st (pushSavedGroups saved sg bts) steps peak
    else
      backtrackThen prog inp limit sf fwd { st with groups := spliceGroups saved sg st.groups } bts steps peak
  | .failed st steps peak =>
    if negate then
      run prog inp limit sf continuation pos fwd { st with groups := spliceGroups saved sg st.groups } bts
        steps peak
    else
      backtrackThen prog inp limit sf fwd { st with groups := spliceGroups saved sg st.groups } bts steps peak

theorem run_zero (prog : Prog) (inp : Input) (limit ip pos : Nat) (fwd : Bool) (st : State)
    (bts : Array BtInsn) (steps peak : Nat) :
    run prog inp limit 0 ip pos fwd st bts steps peak = .outOfFuel := rfl

/-- One iteration of the `'nextinsn` loop. -/
theorem run_succ (prog : Prog) (inp : Input) (limit sf ip pos : Nat) (fwd : Bool) (st : State)
    (bts : Array BtInsn) (steps peak : Nat) :
    run prog inp limit (sf + 1) ip pos fwd st bts steps peak =
      if steps ≥ limit then .outOfFuel else
      match step prog inp ip pos fwd st bts with
      | .err e => .error e
      | .goal pos st => .matched pos st (steps + 1) (if peak < bts.size then bts.size else peak)
      | .cont ip pos st bts' =>
        run prog inp limit sf ip pos fwd st bts' (steps + 1) (if peak < bts.size then bts.size else peak)
      | .back st bts' =>
        backtrackThen prog inp limit sf fwd st bts' (steps + 1) (if peak < bts.size then bts.size else peak)
      | .look dirFwd negate sg eg continuation st' bts' =>
        if sg > eg || eg > st'.groups.size then
          .error "run_lookaround: groups.iat(start_group..end_group) out of range"
        else
          afterLook prog inp limit sf pos fwd negate sg continuation (st'.groups.extract sg eg).toList bts'
            (run prog inp limit sf (ip + 1) pos dirFwd st' #[.exhausted] (steps + 1)
              (if peak < bts.size then bts.size else peak)) := by
  rw [run]
  split
  · rfl
  · simp only []
    cases step prog inp ip pos fwd st bts with
    | err e => rfl
    | goal pos st => rfl
    | cont ip pos st bts' => rfl
    | back st bts' => rfl
    | look dirFwd negate sg eg continuation st' bts' =>
      simp only []
      split
      · rfl
      · generalize run prog inp limit sf (ip + 1) pos dirFwd st' #[.exhausted] (steps + 1)
          (if peak < bts.size then bts.size else peak) = o
        cases o <;> rfl

/-! ## Saving and restoring the groups of a look-around -/

/-- The records pushed by `pushSavedGroups`, bottom first. -/
def savedRecs : List GroupData → Nat → List BtInsn
  | [], _ => []
  | cg :: rest, id => .setCaptureGroup id cg :: savedRecs rest (id + 1)

theorem pushSavedGroups_eq (saved : List GroupData) (id : Nat) (bts : Array BtInsn) :
    pushSavedGroups saved id bts = bts ++ (savedRecs saved id).toArray := by
  induction saved generalizing id bts with
  | nil => simp [pushSavedGroups, savedRecs]
  | cons c rest ih => rw [pushSavedGroups, ih, savedRecs, append_cons_toArray]

theorem savedRecs_length (saved : List GroupData) (id : Nat) : (savedRecs saved id).length = saved.length := by
  induction saved generalizing id with
  | nil => rfl
  | cons c rest ih => simp [savedRecs, ih]

theorem savedRecs_mem {saved : List GroupData} {id : Nat} {r : BtInsn} (h : r ∈ savedRecs saved id) :
    ∃ g d, r = .setCaptureGroup g d ∧ id ≤ g ∧ g < id + saved.length := by
  induction saved generalizing id with
  | nil => simp [savedRecs] at h
  | cons c rest ih =>
    simp only [savedRecs, List.mem_cons] at h
    rcases h with h | h
    · exact ⟨id, c, h, by omega, by simp⟩
    · obtain ⟨g, d, h1, h2, h3⟩ := ih h
      exact ⟨g, d, h1, by omega, by simp; omega⟩

theorem savedRecs_ne_exhausted {saved : List GroupData} {id : Nat} {r : BtInsn}
    (h : r ∈ savedRecs saved id) : r ≠ .exhausted := by
  obtain ⟨g, d, h1, -, -⟩ := savedRecs_mem h
  subst h1; simp

theorem spliceGroups_size (saved : List GroupData) (id : Nat) (gs : Array GroupData) :
    (spliceGroups saved id gs).size = gs.size := by
  induction saved generalizing id gs with
  | nil => rfl
  | cons c rest ih => simp [spliceGroups, ih]

theorem spliceGroups_getElem? (saved : List GroupData) (id : Nat) (gs : Array GroupData) (g : Nat) :
    (spliceGroups saved id gs)[g]? =
      if id ≤ g ∧ g < id + saved.length ∧ g < gs.size then saved[g - id]? else gs[g]? := by
  induction saved generalizing id gs with
  | nil => simp [spliceGroups]; omega
  | cons c rest ih =>
    rw [spliceGroups, ih]
    simp only [Array.size_setIfInBounds, Array.getElem?_setIfInBounds, List.length_cons, List.getElem?_cons]
    by_cases h1 : id = g
    · subst h1
      have : ¬ (id + 1 ≤ id) := by omega
      by_cases h : id < gs.size <;> simp [h]
      omega
    · by_cases h2 : id + 1 ≤ g ∧ g < id + 1 + rest.length ∧ g < gs.size
      · have h3 : id ≤ g ∧ g < id + (rest.length + 1) ∧ g < gs.size := by omega
        have h4 : g - id ≠ 0 := by omega
        have h5 : g - id - 1 = g - (id + 1) := by omega
        simp [h2, h3, h4, h5]
      · have h3 : ¬ (id ≤ g ∧ g < id + (rest.length + 1) ∧ g < gs.size) := by omega
        simp [h1, h2, h3]

/-- Popping the saved-group records: the loops are untouched, the groups `[id, id + len)` get the
saved values. -/
theorem rewindL_savedRecs (prog : Prog) (saved : List GroupData) (id : Nat) (a : State) :
    (rewindL prog (savedRecs saved id).reverse a).loops = a.loops ∧
    (rewindL prog (savedRecs saved id).reverse a).groups.size = a.groups.size ∧
    ∀ g, (rewindL prog (savedRecs saved id).reverse a).groups[g]? =
      if id ≤ g ∧ g < id + saved.length ∧ g < a.groups.size then saved[g - id]? else a.groups[g]? := by
  induction saved generalizing id with
  | nil => simp [savedRecs, rewindL]; omega
  | cons c rest ih =>
    obtain ⟨i1, i2, i3⟩ := ih (id + 1)
    have hne : ∀ r ∈ (savedRecs rest (id + 1)).reverse, r ≠ .exhausted := by
      intro r hr; exact savedRecs_ne_exhausted (List.mem_reverse.1 hr)
    simp only [savedRecs, List.reverse_cons]
    rw [rewindL_append prog _ _ _ hne]
    simp only [rewindL, reduceCtorEq, if_false, restore]
    refine ⟨i1, by simpa using i2, ?_⟩
    intro g
    simp only [Array.getElem?_setIfInBounds, i2, i3, List.length_cons, List.getElem?_cons]
    by_cases h1 : id = g
    · subst h1
      have : ¬ (id + 1 ≤ id) := by omega
      by_cases h : id < a.groups.size <;> simp [h]
    · by_cases h2 : id + 1 ≤ g ∧ g < id + 1 + rest.length ∧ g < a.groups.size
      · have h3 : id ≤ g ∧ g < id + (rest.length + 1) ∧ g < a.groups.size := by omega
        have h4 : g - id ≠ 0 := by omega
        have h5 : g - id - 1 = g - (id + 1) := by omega
        simp [h1, h2, h3, h4, h5]
      · have h3 : ¬ (id ≤ g ∧ g < id + (rest.length + 1) ∧ g < a.groups.size) := by omega
        simp [h1, h2, h3]

theorem splice_agree (L G : Nat → Bool) (saved : List GroupData) (sg eg : Nat) (st2 : State)
    (hG : ∀ g, sg ≤ g → g < eg → G g = true) (hlen : saved.length ≤ eg - sg) :
    Agree L G { st2 with groups := spliceGroups saved sg st2.groups } st2 := by
  refine ⟨rfl, spliceGroups_size .., fun _ _ => rfl, ?_⟩
  intro g hg
  simp only [spliceGroups_getElem?]
  split
  · next h => have := hG g h.1 (by omega); simp [this] at hg
  · rfl

theorem recsIn_pushSaved {prog : Prog} {R L G : Nat → Bool} {bts : Array BtInsn}
    (hb : RecsIn prog R L G bts) (saved : List GroupData) (sg eg : Nat)
    (hG : ∀ g, sg ≤ g → g < eg → G g = true) (hlen : saved.length ≤ eg - sg) :
    RecsIn prog R L G (pushSavedGroups saved sg bts) := by
  rw [pushSavedGroups_eq]
  intro r hr
  rcases Array.mem_append.1 hr with h | h
  · exact hb r h
  · obtain ⟨g, d, h1, h2, h3⟩ := savedRecs_mem (List.mem_toArray.1 h)
    subst h1
    simpa [recIn] using hG g h2 (by omega)

theorem extract_length_le (gs : Array GroupData) (sg eg : Nat) :
    (gs.extract sg eg).toList.length ≤ eg - sg := by
  simp; omega

/-- What a run inside a closed region leaves behind. -/
def OutIn (L G : Nat → Bool) (st : State) : Outcome → Prop
  | .matched _ st' _ _ => Agree L G st' st
  | .failed st' _ _ => Agree L G st' st
  | _ => True

theorem OutIn.trans {L G : Nat → Bool} {st1 st0 : State} {o : Outcome}
    (h : OutIn L G st1 o) (h0 : Agree L G st1 st0) : OutIn L G st0 o := by
  cases o with
  | matched p st' a b => exact Agree.trans h h0
  | failed st' a b => exact Agree.trans h h0
  | outOfFuel => trivial
  | error e => trivial

/-- **Footprint of a run**: a run that starts inside a closed region `R` of the program, on a stack
whose records resume inside `R`, changes (whether it matches or fails) only the loop slots `L` and
the group slots `G` of the region. -/
theorem run_in (prog : Prog) (R L G : Nat → Bool) (hReg : Region prog R R L G) (inp : Input) (limit : Nat) :
    ∀ (sf ip pos : Nat) (fwd : Bool) (st : State) (bts : Array BtInsn) (steps peak : Nat),
      R ip = true → RecsIn prog R L G bts →
      OutIn L G st (run prog inp limit sf ip pos fwd st bts steps peak) := by
  intro sf
  induction sf with
  | zero => intro ip pos fwd st bts steps peak _ _; rw [run_zero]; trivial
  | succ sf ih =>
    intro ip pos fwd st bts steps peak hip hb
    have hbt : ∀ (fwd : Bool) (st : State) (bts : Array BtInsn) (steps peak : Nat),
        RecsIn prog R L G bts → OutIn L G st (backtrackThen prog inp limit sf fwd st bts steps peak) := by
      intro fwd st bts steps peak hb
      unfold backtrackThen
      have h := tryBacktrack_in prog R L G inp fwd bts.size bts st rfl hb
      generalize tryBacktrack prog inp fwd st bts = r at h
      cases r with
      | err e => trivial
      | exhausted st' b => exact h
      | resumed ip' pos' st' bts' => exact (ih ip' pos' fwd st' bts' steps peak h.1 h.2.1).trans h.2.2
    rw [run_succ]
    split
    · trivial
    · have hs := step_in prog R R L G hReg inp ip pos fwd st bts hip hb
      generalize step prog inp ip pos fwd st bts = a at hs
      cases a with
      | err e => trivial
      | goal p st' => simp only [ActIn] at hs; subst hs; exact Agree.refl ..
      | cont ip' pos' st' bts' => exact (ih ip' pos' fwd st' bts' _ _ hs.1 hs.2.1).trans hs.2.2
      | back st' bts' => exact (hbt fwd st' bts' _ _ hs.1).trans hs.2
      | look dirFwd negate sg eg k st' bts' =>
        obtain ⟨h1, h2, hs⟩ := hs
        rw [h1, h2]
        simp only []
        split
        · trivial
        · have hin := ih (ip + 1) pos dirFwd st #[.exhausted] (steps + 1)
            (if peak < bts.size then bts.size else peak) hs.1 (by intro r hr; simp at hr; subst hr; rfl)
          generalize run prog inp limit sf (ip + 1) pos dirFwd st #[.exhausted] (steps + 1)
            (if peak < bts.size then bts.size else peak) = o at hin
          have hlen := extract_length_le st.groups sg eg
          cases o with
          | error e => trivial
          | outOfFuel => trivial
          | matched p st2 s2 p2 =>
            simp only [afterLook]
            split
            · exact (ih k pos fwd st2 _ s2 p2 hs.2.1 (recsIn_pushSaved hb _ sg eg hs.2.2 hlen)).trans hin
            · exact ((hbt fwd _ bts s2 p2 hb).trans (splice_agree L G _ sg eg st2 hs.2.2 hlen)).trans hin
          | failed st2 s2 p2 =>
            simp only [afterLook]
            split
            · exact ((ih k pos fwd _ bts s2 p2 hs.2.1 hb).trans (splice_agree L G _ sg eg st2 hs.2.2 hlen)).trans hin
            · exact ((hbt fwd _ bts s2 p2 hb).trans (splice_agree L G _ sg eg st2 hs.2.2 hlen)).trans hin

/-! ## Look-around bodies as closed regions -/

/-- The loop ids of the `EnterLoop` instructions that lie inside a look-around body. A completed
look-around leaves these slots modified: its nested run has its own stack, which is dropped. -/
def lookLoopIds (prog : Prog) : List Nat :=
  (List.range prog.insns.size).flatMap fun ip =>
    match prog.insns[ip]?.bind lookOf with
    | some (_, _, k) =>
      (List.range (k - (ip + 1))).filterMap fun d =>
        match prog.insns[ip + 1 + d]? with
        | some (.enterLoop id _ _ _ _) => some id
        | _ => none
    | none => []

def lookLoop (prog : Prog) (id : Nat) : Bool := (lookLoopIds prog).contains id

/-- `id` is the loop id of an `EnterLoop` strictly between `ip` and `k`. -/
def bodyLoop (prog : Prog) (ip k : Nat) (id : Nat) : Bool :=
  (List.range (k - (ip + 1))).any fun d =>
    match prog.insns[ip + 1 + d]? with
    | some (.enterLoop id' _ _ _ _) => id' == id
    | _ => false

/-- `ip < j < k`. -/
def inBody (ip k : Nat) (j : Nat) : Bool := decide (ip < j) && decide (j < k)

/-- `sg ≤ g < eg`. -/
def inRange (sg eg : Nat) (g : Nat) : Bool := decide (sg ≤ g) && decide (g < eg)

/-- Every look-around body `(ip, continuation)` is non-empty and closed: its instructions continue
inside the body (the body ends with a `Goal`), write only capture groups in
`[start_group, end_group)` and only loop slots of loops inside the body. A decidable check; the emitter
establishes it (the body of a look-around is emitted contiguously, followed by `Goal`). -/
def lookClosed (prog : Prog) : Bool :=
  (List.range prog.insns.size).all fun ip =>
    match prog.insns[ip]?.bind lookOf with
    | some (sg, eg, k) =>
      decide (ip + 1 < k) &&
      (List.range (k - (ip + 1))).all fun d =>
        match prog.insns[ip + 1 + d]? with
        | some i => insnIn prog (inBody ip k) (inBody ip k) (bodyLoop prog ip k) (inRange sg eg) (ip + 1 + d) i
        | none => true
    | none => true

theorem lookClosed_region {prog : Prog} (hc : lookClosed prog = true) {ip : Nat} {i : Insn}
    {sg eg k : Nat} (hi : prog.insns[ip]? = some i) (hl : lookOf i = some (sg, eg, k)) :
    ip + 1 < k ∧ Region prog (inBody ip k) (inBody ip k) (bodyLoop prog ip k) (inRange sg eg) := by
  have hip : ip < prog.insns.size := by
    rcases Nat.lt_or_ge ip prog.insns.size with h | h
    · exact h
    · simp [Array.getElem?_eq_none h] at hi
  have h := List.all_eq_true.1 hc ip (List.mem_range.2 hip)
  simp only [hi, Option.bind_some, hl, Bool.and_eq_true, decide_eq_true_eq] at h
  refine ⟨h.1, ?_⟩
  intro j i' hj hi'
  simp only [inBody, Bool.and_eq_true, decide_eq_true_eq] at hj
  have h2 := List.all_eq_true.1 h.2 (j - (ip + 1)) (List.mem_range.2 (by omega))
  have : ip + 1 + (j - (ip + 1)) = j := by omega
  simpa [this, hi'] using h2

theorem bodyLoop_lookLoop {prog : Prog} {ip : Nat} {i : Insn} {sg eg k : Nat}
    (hi : prog.insns[ip]? = some i) (hl : lookOf i = some (sg, eg, k)) {id : Nat}
    (h : bodyLoop prog ip k id = true) : lookLoop prog id = true := by
  have hip : ip < prog.insns.size := by
    rcases Nat.lt_or_ge ip prog.insns.size with h' | h'
    · exact h'
    · simp [Array.getElem?_eq_none h'] at hi
  simp only [bodyLoop, List.any_eq_true, List.mem_range] at h
  obtain ⟨d, hd, hm⟩ := h
  simp only [lookLoop, lookLoopIds, List.contains_eq_mem, List.mem_flatMap, List.mem_range,
    decide_eq_true_eq]
  refine ⟨ip, hip, ?_⟩
  simp only [hi, Option.bind_some, hl, List.mem_filterMap, List.mem_range]
  refine ⟨d, hd, ?_⟩
  split at hm
  · next id' _ _ _ _ he => simp only [beq_iff_eq] at hm; subst hm; simp
  · cases hm

theorem OutIn.mono {L G L' : Nat → Bool} {st : State} {o : Outcome} (h : OutIn L G st o)
    (hL : ∀ i, L i = true → L' i = true) : OutIn L' G st o := by
  cases o with
  | matched p st' a b => exact Agree.mono h hL (fun _ h => h)
  | failed st' a b => exact Agree.mono h hL (fun _ h => h)
  | outOfFuel => trivial
  | error e => trivial

theorem splice_restores {LL : Nat → Bool} {sg eg : Nat} {st2 st : State}
    (h : Agree LL (inRange sg eg) st2 st) (hse : ¬ (sg > eg ∨ eg > st.groups.size)) :
    Agree LL (fun _ => false)
      { st2 with groups := spliceGroups (st.groups.extract sg eg).toList sg st2.groups } st := by
  refine ⟨h.lsize, by simpa [spliceGroups_size] using h.gsize, h.loops, ?_⟩
  intro g _
  simp only [spliceGroups_getElem?]
  have hlen : (st.groups.extract sg eg).toList.length = eg - sg := by simp; omega
  split
  · next hc =>
    rw [hlen] at hc
    simp only [Array.getElem?_toList, Array.getElem?_extract]
    have h1 : g - sg < min eg st.groups.size - sg := by omega
    have h2 : sg + (g - sg) = g := by omega
    simp [h1, h2]
  · next hc =>
    rw [hlen] at hc
    by_cases hg : g < st2.groups.size
    · exact h.groups g (by simp [inRange]; omega)
    · have h1 : st2.groups.size ≤ g := by omega
      have h2 : st.groups.size ≤ g := by rw [← h.gsize]; exact h1
      simp [Array.getElem?_eq_none h1, Array.getElem?_eq_none h2]

theorem restoreSaved_agree (prog : Prog) {LL : Nat → Bool} {sg eg : Nat} {st2 st : State}
    (h : Agree LL (inRange sg eg) st2 st) (hse : ¬ (sg > eg ∨ eg > st.groups.size)) :
    Agree LL (fun _ => false)
      (rewindL prog (savedRecs (st.groups.extract sg eg).toList sg).reverse st2) st := by
  obtain ⟨r1, r2, r3⟩ := rewindL_savedRecs prog (st.groups.extract sg eg).toList sg st2
  refine ⟨by rw [r1]; exact h.lsize, by rw [r2]; exact h.gsize, by rw [r1]; exact h.loops, ?_⟩
  intro g _
  rw [r3]
  have hlen : (st.groups.extract sg eg).toList.length = eg - sg := by simp; omega
  split
  · next hc =>
    rw [hlen] at hc
    simp only [Array.getElem?_toList, Array.getElem?_extract]
    have h1 : g - sg < min eg st.groups.size - sg := by omega
    have h2 : sg + (g - sg) = g := by omega
    simp [h1, h2]
  · next hc =>
    rw [hlen] at hc
    by_cases hg : g < st2.groups.size
    · exact h.groups g (by simp [inRange]; omega)
    · have h1 : st2.groups.size ≤ g := by omega
      have h2 : st.groups.size ≤ g := by rw [← h.gsize]; exact h1
      simp [Array.getElem?_eq_none h1, Array.getElem?_eq_none h2]

/-- On failure the final state is `target` up to the loop slots `LL`. -/
def FailIn (LL : Nat → Bool) (target : State) : Outcome → Prop
  | .failed st' _ _ => Agree LL (fun _ => false) st' target
  | _ => True

theorem FailIn.trans {LL : Nat → Bool} {t1 t0 : State} {o : Outcome}
    (h : FailIn LL t1 o) (h0 : Agree LL (fun _ => false) t1 t0) : FailIn LL t0 o := by
  cases o with
  | failed st' a b => exact Agree.trans h h0
  | matched p st' a b => trivial
  | outOfFuel => trivial
  | error e => trivial

/-- **`undo_restores` for a whole run**: if a run from `(st, bts)` fails (it reached the first
`Exhausted` record from the top of `bts`), the state it leaves is the one obtained by popping all
records of `bts` above that `Exhausted` from `st` — exactly for every group slot and for every loop
slot except those of loops inside look-around bodies. -/
theorem run_failed_frame (prog : Prog) (hc : lookClosed prog = true) (inp : Input) (limit : Nat) :
    ∀ (sf ip pos : Nat) (fwd : Bool) (st : State) (bts : Array BtInsn) (steps peak : Nat),
      FailIn (lookLoop prog) (rewind prog bts st) (run prog inp limit sf ip pos fwd st bts steps peak) := by
  intro sf
  induction sf with
  | zero => intro ip pos fwd st bts steps peak; rw [run_zero]; trivial
  | succ sf ih =>
    intro ip pos fwd st bts steps peak
    have hbt : ∀ (fwd : Bool) (st : State) (bts : Array BtInsn) (steps peak : Nat),
        FailIn (lookLoop prog) (rewind prog bts st) (backtrackThen prog inp limit sf fwd st bts steps peak) := by
      intro fwd st bts steps peak
      unfold backtrackThen
      have h := tryBacktrack_rewind prog inp fwd st bts
      generalize tryBacktrack prog inp fwd st bts = r at h
      cases r with
      | err e => trivial
      | exhausted st' b => simp only [] at h; subst h; exact Agree.refl ..
      | resumed ip' pos' st' bts' => simp only [] at h; rw [← h.1]; exact ih ..
    rw [run_succ]
    split
    · trivial
    · have hs := step_frame prog inp ip pos fwd st bts
      generalize step prog inp ip pos fwd st bts = a at hs
      cases a with
      | err e => trivial
      | goal p st' => trivial
      | cont ip' pos' st' bts' => simp only [ActFrame] at hs; rw [← hs.rewind_eq]; exact ih ..
      | back st' bts' => simp only [ActFrame] at hs; rw [← hs.rewind_eq]; exact hbt ..
      | look dirFwd negate sg eg k st' bts' =>
        obtain ⟨h1, h2, i, hi, hl⟩ := hs
        rw [h1, h2]
        obtain ⟨hk, hReg⟩ := lookClosed_region hc hi hl
        simp only []
        split
        · trivial
        · next hse =>
          simp only [Bool.or_eq_true, decide_eq_true_eq] at hse
          have hin := (run_in prog _ _ _ hReg inp limit sf (ip + 1) pos dirFwd st #[.exhausted] (steps + 1)
            (if peak < bts.size then bts.size else peak) (by simp [inBody]; omega)
            (by intro r hr; simp at hr; subst hr; rfl)).mono (L' := lookLoop prog)
            (fun id h => bodyLoop_lookLoop hi hl h)
          generalize run prog inp limit sf (ip + 1) pos dirFwd st #[.exhausted] (steps + 1)
            (if peak < bts.size then bts.size else peak) = o at hin
          cases o with
          | error e => trivial
          | outOfFuel => trivial
          | matched p st2 s2 p2 =>
            simp only [afterLook]
            split
            · refine (ih k pos fwd st2 _ s2 p2).trans ?_
              rw [pushSavedGroups_eq, rewind_append prog _ _ _ (fun r hr => savedRecs_ne_exhausted hr)]
              exact (restoreSaved_agree prog hin hse).rewind prog bts
            · exact (hbt fwd _ bts s2 p2).trans ((splice_restores hin hse).rewind prog bts)
          | failed st2 s2 p2 =>
            simp only [afterLook]
            split
            · exact (ih k pos fwd _ bts s2 p2).trans ((splice_restores hin hse).rewind prog bts)
            · exact (hbt fwd _ bts s2 p2).trans ((splice_restores hin hse).rewind prog bts)

end Regress.VM.Bt

/-!
# Regression record: the two unrecorded writes of the previous backtracker

On the pinned upstream tree `EndCaptureGroup` overwrote the group without pushing a
`SetCaptureGroup` record (repaired by "fix: record an undo entry when a capture group is closed"),
and `EnterLoop` reset `iters = 0` without pushing a `SetLoopData` record (repaired by "fix: make the
iteration-count reset on loop entry undoable"). `stepOld` is `Bt.step` with those two arms as they
were; `runOld` is `Bt.run` over `stepOld`. The witnesses show that `stepOld` violates the frame
property that `Bt.step` has (`Bt.step_frame`), and the observable consequences.
-/
namespace Regress.Regressions.OldBacktrack

open Regress.VM Regress.VM.Bt

/-- The old `EndCaptureGroup` arm: `cg.end = Some(pos)` (`cg.start` backwards), no push. -/
def endGroupOld (g : Nat) (fwd : Bool) (ip pos : Nat) (st : State) (bts : Array BtInsn) : Act :=
  match st.groups[g]? with
  | none => .err "try_at_pos: EndCaptureGroup groups.mat(id) out of range"
  | some cg =>
    let cg' : GroupData := if fwd then { cg with end_ := some pos } else { cg with start := some pos }
    .cont (ip + 1) pos { st with groups := st.groups.setIfInBounds g cg' } bts

/-- The old `EnterLoop` arm: `self.s.loops.mat(id).iters = 0` with no push, then `run_loop`. -/
def enterLoopOld (id min : Nat) (max : Option Nat) (greedy : Bool) (exit ip pos : Nat) (st : State)
    (bts : Array BtInsn) : Act :=
  match st.loops[id]? with
  | none => .err "try_at_pos: EnterLoop loops.mat(loop_id) out of range"
  | some ld =>
    let st := { st with loops := st.loops.setIfInBounds id { ld with iters := 0 } }
    match runLoop st bts id min max greedy exit pos ip with
    | .err e => .err e
    | .ok (some nextIp) st bts => .cont nextIp pos st bts
    | .ok none st bts => .back st bts

def stepOld (prog : Prog) (inp : Input) (ip pos : Nat) (fwd : Bool) (st : State)
    (bts : Array BtInsn) : Act :=
  match prog.insns[ip]? with
  | some (.endCaptureGroup g) => endGroupOld g fwd ip pos st bts
  | some (.enterLoop id min max greedy exit) => enterLoopOld id min max greedy exit ip pos st bts
  | _ => step prog inp ip pos fwd st bts

/-- `Bt.run` with `stepOld` in place of `step`. -/
def runOld (prog : Prog) (inp : Input) (limit : Nat) :
    Nat → (ip pos : Nat) → (fwd : Bool) → State → Array BtInsn → (steps peak : Nat) → Outcome
  | 0, _, _, _, _, _, _, _ => .outOfFuel
  | sf + 1, ip, pos, fwd, st, bts, steps, peak =>
    if steps ≥ limit then .outOfFuel else
    let steps := steps + 1
    let peak := if peak < bts.size then bts.size else peak
    match stepOld prog inp ip pos fwd st bts with
    | .err e => .error e
    | .goal pos st => .matched pos st steps peak
    | .cont ip pos st bts => runOld prog inp limit sf ip pos fwd st bts steps peak
    | .back st bts =>
      match tryBacktrack prog inp fwd st bts with
      | .err e => .error e
      | .exhausted st _ => .failed st steps peak
      | .resumed ip pos st bts => runOld prog inp limit sf ip pos fwd st bts steps peak
    | .look dirFwd negate sg eg continuation st bts =>
      if sg > eg || eg > st.groups.size then
        .error "run_lookaround: groups.iat(start_group..end_group) out of range"
      else
        let saved := (st.groups.extract sg eg).toList
        match runOld prog inp limit sf (ip + 1) pos dirFwd st #[.exhausted] steps peak with
        | .error e => .error e
        | .outOfFuel => .outOfFuel
        | .matched _ st steps peak =>
          if !negate then
            let bts := pushSavedGroups saved sg bts
            runOld prog inp limit sf continuation pos fwd st bts steps peak
          else
            let st := { st with groups := spliceGroups saved sg st.groups }
            match tryBacktrack prog inp fwd st bts with
            | .err e => .error e
            | .exhausted st _ => .failed st steps peak
            | .resumed ip pos st bts => runOld prog inp limit sf ip pos fwd st bts steps peak
        | .failed st steps peak =>
          let st := { st with groups := spliceGroups saved sg st.groups }
          if negate then
            runOld prog inp limit sf continuation pos fwd st bts steps peak
          else
            match tryBacktrack prog inp fwd st bts with
            | .err e => .error e
            | .exhausted st _ => .failed st steps peak
            | .resumed ip pos st bts => runOld prog inp limit sf ip pos fwd st bts steps peak

/-! ## Witness 1: `EndCaptureGroup` -/

/-- `begin 0; end 0; goal`. -/
def progEnd : Prog :=
  { insns := #[.endCaptureGroup 0, .goal], brackets := #[], loops := 0, groups := 1, flags := {},
    names := [], startPred := .arbitrary }

def inpA : Input := { kind := .utf8, bytes := #[0x61], unicode := false }

def stOpen : State := { loops := #[], groups := #[{ start := some 0, end_ := none }] }

/-- The old arm changes the state and pushes nothing: the frame property fails — popping the
(unchanged) stack no longer restores the group. -/
theorem endGroup_old_violates_frame :
    ¬ ActFrame progEnd 0 stOpen #[.exhausted] (stepOld progEnd inpA 0 1 true stOpen #[.exhausted]) := by
  have h : stepOld progEnd inpA 0 1 true stOpen #[.exhausted] =
      .cont 1 1 { loops := #[], groups := #[{ start := some 0, end_ := some 1 }] } #[.exhausted] := by
    rfl
  rw [h]
  rintro ⟨pushed, h1, -, h3, -⟩
  have hp : pushed = [] := by
    have := congrArg Array.size h1
    simp at this
    exact this
  subst hp
  simp only [List.reverse_nil, rewindL] at h3
  exact absurd h3 (by decide)

/-- …whereas the repaired arm satisfies it (instance of `Bt.step_frame`). -/
example : ActFrame progEnd 0 stOpen #[.exhausted] (step progEnd inpA 0 1 true stOpen #[.exhausted]) :=
  step_frame ..

/-- In terms of `rewind`: after the old step the state that backtracking would restore differs from
the one before the step. -/
theorem endGroup_old_rewind_differs :
    (match stepOld progEnd inpA 0 1 true stOpen #[.exhausted] with
     | .cont _ _ st' bts' => rewind progEnd bts' st'
     | _ => stOpen) ≠ rewind progEnd #[.exhausted] stOpen := by decide

/-- The observable consequence (the example of the fix commit): `/(a{1,2}?\1?)c/` on `"aaac"`,
attempt at offset 0. -/
def progBackref : Prog :=
  { insns := #[.beginCaptureGroup 0, .byteSeq [0x61], .loop1 0 (some 1) false, .byteSeq [0x61],
               .enterLoop 0 0 (some 1) true 7, .backRef 0 false, .loopAgain 4, .endCaptureGroup 0,
               .byteSeq [0x63], .goal],
    brackets := #[], loops := 1, groups := 1, flags := {}, names := [], startPred := .set [0x61] }

def inpAAAC : Input := { kind := .utf8, bytes := #[0x61, 0x61, 0x61, 0x63], unicode := false }

def outcomeSummary : Outcome → Option (Option (Nat × Api.Caps))
  | .matched e st _ _ => some (some (e, capsOf st))
  | .failed _ _ _ => some none
  | _ => none

/-- The old code matched `0..4` with group 1 = `0..3` (after backtracking into the group the
backreference saw the stale end). -/
theorem backref_old_witness :
    outcomeSummary (runOld progBackref inpAAAC 100 100 0 0 true (freshState progBackref 0) #[.exhausted] 0 0)
      = some (some (4, [some (0, 3)])) := by decide +kernel

/-- The repaired code fails at offset 0 (and then matches `1..4` at offset 1, like the PikeVM). -/
theorem backref_new_witness :
    outcomeSummary (run progBackref inpAAAC 100 100 0 0 true (freshState progBackref 0) #[.exhausted] 0 0)
      = some none ∧
    outcomeSummary (run progBackref inpAAAC 100 100 0 1 true (freshState progBackref 0) #[.exhausted] 0 0)
      = some (some (4, [some (1, 3)])) := ⟨by decide +kernel, by decide +kernel⟩

/-! ## Witness 2: the `iters = 0` reset of `EnterLoop` -/

/-- `/(?:(?:a?){1}){2}b/`. -/
def progNested : Prog :=
  { insns := #[.enterLoop 0 2 (some 2) true 6, .enterLoop 1 1 (some 1) true 5, .loop1 0 (some 1) true,
               .byteSeq [0x61], .loopAgain 1, .loopAgain 0, .byteSeq [0x62], .goal],
    brackets := #[], loops := 2, groups := 0, flags := {}, names := [], startPred := .arbitrary }

def stL : State := { loops := #[{ iters := 5, entry := 0 }], groups := #[] }

def progLoop : Prog :=
  { insns := #[.enterLoop 0 1 (some 1) true 2, .justFail, .goal], brackets := #[], loops := 1, groups := 0,
    flags := {}, names := [], startPred := .arbitrary }

/-- The old arm loses the previous iteration count: popping what it pushed does not give back the
state it started from. -/
theorem enterLoop_old_rewind_differs :
    (match stepOld progLoop inpA 0 0 true stL #[.exhausted] with
     | .cont _ _ st' bts' => rewind progLoop bts' st'
     | _ => stL) ≠ rewind progLoop #[.exhausted] stL := by decide

example : (match step progLoop inpA 0 0 true stL #[.exhausted] with
     | .cont _ _ st' bts' => rewind progLoop bts' st'
     | _ => stL) = rewind progLoop #[.exhausted] stL := by decide

/-- The observable consequence (the example of the fix commit): on `"a"` the old code is still
running after 300 ticks (it never returned); the repaired code fails after 20 ticks. -/
theorem nested_old_witness :
    outcomeSummary (runOld progNested inpA 300 300 0 0 true (freshState progNested 0) #[.exhausted] 0 0)
      = none := by decide +kernel

theorem nested_new_witness :
    (match run progNested inpA 300 300 0 0 true (freshState progNested 0) #[.exhausted] 0 0 with
     | .failed _ steps _ => some steps
     | _ => none) = some 20 := by decide +kernel

end Regress.Regressions.OldBacktrack

/-!
# The backtracker refines the PikeVM (all programs without `Loop1CharBody`)

Lock-step simulation between `Bt.run` and `Pk.runStates`: the PikeVM's explicit state stack is
(the saved state of every choice record of `bts`, bottom first) followed by the current state.
-/
namespace Regress.VM.Sim

open Regress.VM Regress.VM.Bt

/-! ## Loop bodies -/

/-- The loops `(id, e, l)`: `EnterLoop` with loop id `id` at `e`, its `LoopAgain` at `l`. -/
def loopTriples (prog : Prog) : List (Nat × Nat × Nat) :=
  (List.range prog.insns.size).filterMap fun (l : Nat) =>
    match (prog.insns[l]? : Option Insn) with
    | some (Insn.loopAgain e) =>
      match (prog.insns[e]? : Option Insn) with
      | some (Insn.enterLoop id _ _ _ _) => some (id, e, l)
      | _ => none
    | _ => none

def loopIds (prog : Prog) : List Nat := (loopTriples prog).map (·.1)

/-- The slot of loop `id` is live at address `x`: `x` lies in the body `(e, l]` of a loop with this id. -/
def live (prog : Prog) (id x : Nat) : Bool :=
  (loopTriples prog).any fun t => t.1 == id && decide (t.2.1 < x) && decide (x ≤ t.2.2)

theorem live_mem {prog : Prog} {id x : Nat} (h : live prog id x = true) : id ∈ loopIds prog := by
  simp only [live, List.any_eq_true, Bool.and_eq_true, beq_iff_eq] at h
  obtain ⟨t, ht, ⟨h1, _⟩, _⟩ := h
  exact List.mem_map.2 ⟨t, ht, h1⟩

/-- The successors of the instructions other than `EnterLoop`/`LoopAgain`. -/
def succs (prog : Prog) (j : Nat) : List Nat :=
  match prog.insns[j]? with
  | none => []
  | some i =>
    match i with
    | .goal => []
    | .justFail => []
    | .jump t => [t]
    | .alt s => [j + 1, s]
    | .enterLoop _ _ _ _ _ => []
    | .loopAgain _ => []
    | .lookahead _ _ _ k => [j + 1, k]
    | .lookbehind _ _ _ k => [j + 1, k]
    | _ => [j + 1]

/-- Loop bodies are entered only through their `EnterLoop`, and the exit of a loop lies outside
every body with the same loop id. (Decidable; true of the emitter's output, where a loop is
`EnterLoop; body; LoopAgain` with `exit` = the address after `LoopAgain`.) -/
def loopsStructured (prog : Prog) : Bool :=
  (List.range prog.insns.size).all fun j =>
    (succs prog j).all (fun s => (loopIds prog).all fun id => !live prog id s || live prog id j) &&
    (match prog.insns[j]? with
     | some (.enterLoop id _ _ _ exit) =>
       !live prog id exit &&
       (loopIds prog).all (fun id2 =>
         (!live prog id2 exit || live prog id2 j) && (id2 == id || !live prog id2 (j + 1) || live prog id2 j))
     | some (.loopAgain b) =>
       (match prog.insns[b]? with
        | some (.enterLoop id _ _ _ exit) =>
          decide (b < j) &&
          (loopIds prog).all (fun id2 =>
            (!live prog id2 exit || live prog id2 j) && (id2 == id || !live prog id2 (b + 1) || live prog id2 j))
        | _ => true)
     | _ => true)

/-- Instructions handled by the one-instruction simulation `step_sim`. -/
def simpleInsn : Insn → Bool
  | .loop1 _ _ _ => false
  | .lookahead _ _ _ _ => false
  | .lookbehind _ _ _ _ => false
  | _ => true

/-- The fragment: no `Loop1CharBody`. -/
def noLoop1Insn : Insn → Bool
  | .loop1 _ _ _ => false
  | _ => true

def simpleProg (prog : Prog) : Bool := prog.insns.all noLoop1Insn

/-- ASCII input holds bytes. -/
def inpOK (inp : Input) : Bool :=
  match inp.kind with
  | .utf8 => true
  | .ascii => inp.bytes.all (· < 256)

/-! ## The simulation relation -/

/-- Relation of one loop slot inside the body of its loop: the backtracker counts the iteration it
is in, the PikeVM the completed ones. -/
def LoopOK : Option LoopData → Option LoopData → Prop
  | some bl, some pl => bl.iters = pl.iters + 1 ∧ bl.entry = pl.entry
  | none, none => True
  | _, _ => False

/-- A backtracker state and a PikeVM state at address `ip`. Loop slots that are not live at `ip` are
unrelated (they are overwritten before they are read). -/
structure StRel (prog : Prog) (ip : Nat) (b : Bt.State) (p : Pk.State) : Prop where
  groups : p.groups = b.groups
  lsize : p.loops.size = b.loops.size
  loops : ∀ id, live prog id ip = true → LoopOK b.loops[id]? p.loops[id]?

theorem StRel.mono {prog : Prog} {ip ip' : Nat} {b : Bt.State} {p p' : Pk.State}
    (h : StRel prog ip b p) (hg : p'.groups = p.groups) (hl : p'.loops = p.loops)
    (hm : ∀ id, live prog id ip' = true → live prog id ip = true) : StRel prog ip' b p' :=
  ⟨hg.trans h.groups, by rw [hl]; exact h.lsize, fun id hid => by rw [hl]; exact h.loops id (hm id hid)⟩

/-- The saved PikeVM states (top first) that correspond to the choice records of `bts`. -/
inductive SnapRel (prog : Prog) : Array BtInsn → Bt.State → List Pk.State → Prop
  | bottom (b : Array BtInsn) (st : Bt.State) : SnapRel prog (b.push .exhausted) st []
  | choice (b : Array BtInsn) (st : Bt.State) (ip pos : Nat) (s : Pk.State) (saved : List Pk.State) :
      s.ip = ip → s.pos = pos → StRel prog ip st s → SnapRel prog b st saved →
      SnapRel prog (b.push (.setPosition ip pos)) st (s :: saved)
  | loopRec (b : Array BtInsn) (st : Bt.State) (id : Nat) (d : LoopData) (saved : List Pk.State) :
      SnapRel prog b { st with loops := st.loops.setIfInBounds id d } saved →
      SnapRel prog (b.push (.setLoopData id d)) st saved
  | groupRec (b : Array BtInsn) (st : Bt.State) (id : Nat) (d : GroupData) (saved : List Pk.State) :
      SnapRel prog b { st with groups := st.groups.setIfInBounds id d } saved →
      SnapRel prog (b.push (.setCaptureGroup id d)) st saved
  /-- `EnterNonGreedyLoop`: the saved PikeVM state is the loop body entry; it is related to the
  state the backtracker has after resuming the record. -/
  | ngl (b : Array BtInsn) (st : Bt.State) (ip origPos : Nat) (data : LoopData) (id mn : Nat)
      (mx : Option Nat) (gr : Bool) (ex : Nat) (s : Pk.State) (saved : List Pk.State) :
      prog.insns[ip]? = some (.enterLoop id mn mx gr ex) → s.ip = ip + 1 → s.pos = data.entry →
      StRel prog (ip + 1)
        { st with loops := st.loops.setIfInBounds id { iters := data.iters + 1, entry := data.entry } } s →
      SnapRel prog b { st with loops := st.loops.setIfInBounds id { data with entry := origPos } } saved →
      SnapRel prog (b.push (.enterNonGreedyLoop ip origPos data)) st (s :: saved)

/-- What `try_backtrack` does on a stack related to the saved PikeVM states. -/
def BtSimRes (prog : Prog) (r : BtRes) : List Pk.State → Prop
  | [] => ∃ st' bts', r = .exhausted st' bts'
  | s :: saved' => ∃ st' bts', r = .resumed s.ip s.pos st' bts' ∧
      StRel prog s.ip st' s ∧ SnapRel prog bts' st' saved'

theorem tryBacktrack_sim (prog : Prog) (inp : Input) (fwd : Bool) {bts : Array BtInsn} {st : Bt.State}
    {saved : List Pk.State} (h : SnapRel prog bts st saved) :
    (∃ e, tryBacktrack prog inp fwd st bts = .err e) ∨
      BtSimRes prog (tryBacktrack prog inp fwd st bts) saved := by
  induction h with
  | bottom b st => right; exact ⟨st, _, by rw [tryBacktrack_push]⟩
  | choice b st ip pos s saved h1 h2 h3 h4 _ =>
    right; subst h1; subst h2
    exact ⟨st, b, by rw [tryBacktrack_push], h3, h4⟩
  | loopRec b st id d saved _ ih =>
    rw [tryBacktrack_push]
    simp only []
    split
    · exact ih
    · left; exact ⟨_, rfl⟩
  | groupRec b st id d saved _ ih =>
    rw [tryBacktrack_push]
    simp only []
    split
    · exact ih
    · left; exact ⟨_, rfl⟩
  | ngl b st ip origPos data id mn mx gr ex s saved h1 h2 h3 h4 h5 _ =>
    rw [tryBacktrack_push]
    simp only [h1]
    split
    · right
      refine ⟨_, _, by rw [h2, h3], by rw [h2]; exact h4, ?_⟩
      refine .loopRec _ _ _ _ _ (.loopRec _ _ _ _ _ ?_)
      simpa [Array.setIfInBounds_setIfInBounds] using h5
    · left; exact ⟨_, rfl⟩

/-! ## One instruction of each machine -/

/-- The results of `Bt.step` at `(cur.ip, cur.pos, st, bts)` and of `Pk.tryMatchState` on `cur`
correspond. -/
inductive StepSim (prog : Prog) (st : Bt.State) (bts : Array BtInsn) (cur : Pk.State)
    (saved : List Pk.State) (steps peak : Nat) : Bt.Act → Pk.SM → Prop
  | errB (e : String) (a : Pk.SM) : StepSim prog st bts cur saved steps peak (.err e) a
  | errP (a : Bt.Act) (e : String) : StepSim prog st bts cur saved steps peak a (.err e)
  | goal : cur.groups = st.groups →
      StepSim prog st bts cur saved steps peak (.goal cur.pos st) (.complete cur steps peak)
  | cont (ip' pos' : Nat) (st' : Bt.State) (bts' : Array BtInsn) (s' : Pk.State) :
      s'.ip = ip' → s'.pos = pos' → StRel prog ip' st' s' → SnapRel prog bts' st' saved →
      StepSim prog st bts cur saved steps peak (.cont ip' pos' st' bts') (.cont s' steps peak)
  | split (ip' pos' : Nat) (st' : Bt.State) (bts' : Array BtInsn) (s new : Pk.State) :
      new.ip = ip' → new.pos = pos' → StRel prog ip' st' new → SnapRel prog bts' st' (s :: saved) →
      StepSim prog st bts cur saved steps peak (.cont ip' pos' st' bts') (.split s new steps peak)
  | back (st' : Bt.State) (bts' : Array BtInsn) (s' : Pk.State) : SnapRel prog bts' st' saved →
      StepSim prog st bts cur saved steps peak (.back st' bts') (.fail s' steps peak)

section plain
variable {prog : Prog} {st : Bt.State} {bts : Array BtInsn} {cur : Pk.State} {saved : List Pk.State}
  {steps peak : Nat}
  (hrel : StRel prog cur.ip st cur) (hsnap : SnapRel prog bts st saved)
  (hm : ∀ id, live prog id (cur.ip + 1) = true → live prog id cur.ip = true)
include hrel hsnap hm

theorem sim_adv (p : Nat) :
    StepSim prog st bts cur saved steps peak (.cont (cur.ip + 1) p st bts)
      (.cont { cur with pos := p, ip := cur.ip + 1 } steps peak) :=
  .cont _ _ _ _ _ rfl rfl (hrel.mono rfl rfl hm) hsnap

theorem sim_adv' (p : Nat) :
    StepSim prog st bts cur saved steps peak (.cont (cur.ip + 1) p st bts)
      (.cont { ({ cur with pos := p } : Pk.State) with ip := cur.ip + 1 } steps peak) :=
  .cont _ _ _ _ _ rfl rfl (hrel.mono rfl rfl hm) hsnap

theorem sim_scmArm (r : Except Unit (Option Nat)) (site site' : String) :
    StepSim prog st bts cur saved steps peak (nextOrBt r site cur.ip st bts)
      (Pk.scmArm r cur site' steps peak) := by
  unfold nextOrBt Pk.scmArm
  rcases r with e | (_ | p)
  · exact .errB _ _
  · exact .back _ _ _ hsnap
  · exact sim_adv hrel hsnap hm p

theorem sim_nextElem (inp : Input) (fwd : Bool) (g : Nat → Bool) (site site' : String)
    (r : Except Unit (Option Nat))
    (hr : r = match Cursor.next inp fwd cur.pos with
      | .error e => .error e
      | .ok none => .ok none
      | .ok (some (c, p)) => .ok (if g c then some p else none)) :
    StepSim prog st bts cur saved steps peak (nextOrBt r site cur.ip st bts)
      (Pk.nextElemArm inp fwd cur (fun c => .ok (g c)) site' steps peak) := by
  subst hr
  unfold nextOrBt Pk.nextElemArm
  rcases Cursor.next inp fwd cur.pos with e | (_ | ⟨c, p⟩)
  · exact .errB _ _
  · exact .back _ _ _ hsnap
  · simp only [Pk.nextOrFail]
    by_cases hg : g c = true
    · simp only [hg, if_true]
      exact sim_adv' hrel hsnap hm p
    · simp only [hg, if_false, Bool.false_eq_true]
      exact .back _ _ _ hsnap

theorem sim_wordBoundary (inp : Input) (f : Nat → Bool) (invert : Bool) :
    StepSim prog st bts cur saved steps peak (wordBoundaryAct inp f invert cur.ip cur.pos st bts)
      (Pk.wordBoundaryArm inp f invert cur steps peak) := by
  unfold wordBoundaryAct Pk.wordBoundaryArm
  rcases peekIs (inp.peekLeft cur.pos) f with e | prev
  · exact .errB _ _
  · rcases peekIs (inp.peekRight cur.pos) f with e | curr
    · exact .errB _ _
    · simp only [Pk.nextOrFail]
      by_cases hb : ((prev != curr) != invert) = true
      · simp only [hb, if_true]
        have := sim_adv (steps := steps) (peak := peak) hrel hsnap hm cur.pos
        simpa using this
      · simp only [hb, if_false, Bool.false_eq_true]
        exact .back _ _ _ hsnap

theorem sim_line (r : Except Unit (Option Nat)) (multiline : Bool) (site site' : String) :
    StepSim prog st bts cur saved steps peak (lineAct r multiline site cur.ip cur.pos st bts)
      (Pk.lineArm r multiline cur site' steps peak) := by
  unfold lineAct Pk.lineArm
  have hadv := sim_adv (steps := steps) (peak := peak) hrel hsnap hm cur.pos
  rcases r with e | (_ | c)
  · exact .errB _ _
  · simpa [Pk.nextOrFail] using hadv
  · simp only [Pk.nextOrFail]
    by_cases hb : (multiline && isLineTerminator c) = true
    · simp only [hb, if_true]; simpa using hadv
    · simp only [hb, if_false, Bool.false_eq_true]
      exact .back _ _ _ hsnap

end plain

/-! ## Elements are representable -/

theorem nextRight_scalar {bytes : Array Nat} {pos c p : Nat}
    (h : Utf8.nextRight bytes pos = .ok (some (c, p))) : Utf8.isScalar c = true := by
  unfold Utf8.nextRight at h
  split at h
  · cases h
  · split at h
    · cases h
    · split at h
      · simp only [Except.ok.injEq, Option.some.injEq, Prod.mk.injEq] at h
        obtain ⟨rfl, -⟩ := h
        simp [Utf8.isScalar]; omega
      · simp only [] at h
        split at h
        · cases h
        · split at h
          · simp only [Except.ok.injEq, Option.some.injEq, Prod.mk.injEq] at h
            obtain ⟨rfl, -⟩ := h; assumption
          · cases h

theorem nextLeft_scalar {bytes : Array Nat} {pos c p : Nat}
    (h : Utf8.nextLeft bytes pos = .ok (some (c, p))) : Utf8.isScalar c = true := by
  simp only [Utf8.nextLeft] at h
  repeat' split at h
  all_goals first
    | cases h; done
    | (simp only [Except.ok.injEq, Option.some.injEq, Prod.mk.injEq] at h
       obtain ⟨rfl, -⟩ := h
       first | assumption | (simp [Utf8.isScalar]; omega))

/-- Every element read from the input is one that `ElementType::try_from` accepts. -/
theorem next_elem_ok {inp : Input} (hok : inpOK inp = true) {fwd : Bool} {pos c p : Nat}
    (h : Cursor.next inp fwd pos = .ok (some (c, p))) : elementTryFrom inp.kind c = some c := by
  unfold inpOK at hok
  unfold Cursor.next Input.nextRight Input.nextLeft at h
  unfold elementTryFrom
  cases hk : inp.kind with
  | utf8 =>
    simp only [hk] at h
    cases fwd
    · simp only [Bool.false_eq_true, if_false] at h; simp [nextLeft_scalar h]
    · simp only [if_true] at h; simp [nextRight_scalar h]
  | ascii =>
    simp only [hk] at h hok
    have hall : ∀ (i b : Nat), inp.bytes[i]? = some b → b < 256 := by
      intro i b hb
      have := Array.all_eq_true.1 hok
      obtain ⟨hi, rfl⟩ := Array.getElem?_eq_some_iff.1 hb
      simpa using this i hi
    cases fwd
    · simp only [Bool.false_eq_true, if_false] at h
      split at h
      · cases h
      · split at h
        · cases h
        · next b hb =>
          simp only [Except.ok.injEq, Option.some.injEq, Prod.mk.injEq] at h
          obtain ⟨rfl, -⟩ := h
          simp [hall _ _ hb]
    · simp only [if_true] at h
      split at h
      · cases h
      · split at h
        · cases h
        · next b hb =>
          simp only [Except.ok.injEq, Option.some.injEq, Prod.mk.injEq] at h
          obtain ⟨rfl, -⟩ := h
          simp [hall _ _ hb]

/-! ## Consequences of `loopsStructured` -/

theorem lt_size_of_getElem? {prog : Prog} {j : Nat} {i : Insn} (h : prog.insns[j]? = some i) :
    j < prog.insns.size := by
  rcases Nat.lt_or_ge j prog.insns.size with h' | h'
  · exact h'
  · simp [Array.getElem?_eq_none h'] at h

theorem live_all {prog : Prog} {P : Nat → Bool} (h : (loopIds prog).all P = true) {id x : Nat}
    (hl : live prog id x = true) : P id = true :=
  List.all_eq_true.1 h id (live_mem hl)

theorem structured_succ {prog : Prog} (hs : loopsStructured prog = true) {j : Nat} {i : Insn}
    (hi : prog.insns[j]? = some i) {s : Nat} (hmem : s ∈ succs prog j) {id : Nat}
    (hl : live prog id s = true) : live prog id j = true := by
  have h := List.all_eq_true.1 hs j (List.mem_range.2 (lt_size_of_getElem? hi))
  simp only [Bool.and_eq_true] at h
  have h1 := live_all (List.all_eq_true.1 h.1 s hmem) hl
  simpa [hl] using h1

theorem structured_enter {prog : Prog} (hs : loopsStructured prog = true) {j id mn : Nat}
    {mx : Option Nat} {gr : Bool} {exit : Nat}
    (hi : prog.insns[j]? = some (.enterLoop id mn mx gr exit)) :
    live prog id exit = false ∧
    (∀ id2, live prog id2 exit = true → live prog id2 j = true) ∧
    (∀ id2, id2 ≠ id → live prog id2 (j + 1) = true → live prog id2 j = true) := by
  have h := List.all_eq_true.1 hs j (List.mem_range.2 (lt_size_of_getElem? hi))
  simp only [hi, Bool.and_eq_true] at h
  obtain ⟨-, h1, h2⟩ := h
  refine ⟨by simpa using h1, ?_, ?_⟩
  · intro id2 hl
    have := live_all h2 hl
    simp only [Bool.and_eq_true] at this
    simpa [hl] using this.1
  · intro id2 hne hl
    have := live_all h2 hl
    simp only [Bool.and_eq_true] at this
    simpa [hl, hne] using this.2

theorem live_of_triple {prog : Prog} {j b id mn : Nat} {mx : Option Nat} {gr : Bool} {exit : Nat}
    (hj : prog.insns[j]? = some (.loopAgain b))
    (hb : prog.insns[b]? = some (.enterLoop id mn mx gr exit)) (hlt : b < j) :
    live prog id j = true := by
  have hmem : (id, b, j) ∈ loopTriples prog := by
    simp only [loopTriples, List.mem_filterMap, List.mem_range]
    exact ⟨j, lt_size_of_getElem? hj, by simp [hj, hb]⟩
  simp only [live, List.any_eq_true]
  exact ⟨_, hmem, by simp [hlt]⟩

theorem structured_again {prog : Prog} (hs : loopsStructured prog = true) {j b id mn : Nat}
    {mx : Option Nat} {gr : Bool} {exit : Nat}
    (hj : prog.insns[j]? = some (.loopAgain b))
    (hb : prog.insns[b]? = some (.enterLoop id mn mx gr exit)) :
    live prog id j = true ∧ live prog id exit = false ∧
    (∀ id2, live prog id2 exit = true → live prog id2 j = true) ∧
    (∀ id2, id2 ≠ id → live prog id2 (b + 1) = true → live prog id2 j = true) := by
  have h := List.all_eq_true.1 hs j (List.mem_range.2 (lt_size_of_getElem? hj))
  simp only [hj, hb, Bool.and_eq_true, decide_eq_true_eq] at h
  obtain ⟨-, h1, h2⟩ := h
  refine ⟨live_of_triple hj hb h1, (structured_enter hs hb).1, ?_, ?_⟩
  · intro id2 hl
    have := live_all h2 hl
    simp only [Bool.and_eq_true] at this
    simpa [hl] using this.1
  · intro id2 hne hl
    have := live_all h2 hl
    simp only [Bool.and_eq_true] at this
    simpa [hl, hne] using this.2

/-! ## Loops -/

/-- The three-way `match self.run_loop(..)` of the `EnterLoop`/`LoopAgain` arms. -/
def actOfLoop (r : LoopRes) (pos : Nat) : Act :=
  match r with
  | .err e => .err e
  | .ok (some n) st bts => .cont n pos st bts
  | .ok none st bts => .back st bts

/-- The four-way branch at the end of `pikevm::run_loop`. -/
def pkLoopBranch (enterOk skipOk greedy : Bool) (exit : Nat) (s : Pk.State) (steps peak : Nat) : Pk.SM :=
  if !enterOk && !skipOk then .fail s steps peak
  else if !enterOk then .cont { s with ip := exit } steps peak
  else if !skipOk then .cont s steps peak
  else if greedy then .split { s with ip := exit } s steps peak
  else .split s { s with ip := exit } steps peak

theorem ltMax_zero (max : Option Nat) : ltMax 0 max = Pk.maxPos max := by
  cases max <;> simp [ltMax, Pk.maxPos]

set_option linter.unusedSimpArgs false in
/-- The common part of both loop arms: the backtracker is in state `stB` (slot `id` = `bl`, `k`
iterations started), the PikeVM has just written `{iters: k, entry: pos}` and moved to `e + 1`. -/
theorem loop_core {prog : Prog} {e id min : Nat} {max : Option Nat} {greedy : Bool} {exit pos : Nat}
    {stB : Bt.State} {btsB : Array BtInsn} {bl : LoopData} {sP cur : Pk.State}
    {saved : List Pk.State} {st : Bt.State} {bts : Array BtInsn} {steps peak : Nat}
    (hE : prog.insns[e]? = some (.enterLoop id min max greedy exit))
    (hbl : stB.loops[id]? = some bl)
    (hip : sP.ip = e + 1) (hpos : sP.pos = pos) (hg : sP.groups = stB.groups)
    (hsz : sP.loops.size = stB.loops.size)
    (hid : sP.loops[id]? = some { iters := bl.iters, entry := pos })
    (hother : ∀ id2, id2 ≠ id → (live prog id2 (e + 1) = true ∨ live prog id2 exit = true) →
      LoopOK stB.loops[id2]? sP.loops[id2]?)
    (hexit : live prog id exit = false)
    (hsnap : SnapRel prog btsB stB saved)
    (hnofail : (bl.entry == pos && decide (bl.iters > min)) = false) :
    StepSim prog st bts cur saved steps peak
      (actOfLoop (runLoop stB btsB id min max greedy exit pos e) pos)
      (pkLoopBranch (ltMax bl.iters max) (decide (bl.iters ≥ min)) greedy exit sP steps peak) := by
  have hidlt : id < stB.loops.size := by
    rcases Nat.lt_or_ge id stB.loops.size with h | h
    · exact h
    · simp [Array.getElem?_eq_none h] at hbl
  -- the state at `exit` (slot `id` is dead there)
  have hrelExit : StRel prog exit stB { sP with ip := exit } := by
    refine ⟨hg, hsz, ?_⟩
    intro id2 hl
    have hne : id2 ≠ id := by intro h; subst h; simp [hexit] at hl
    exact hother id2 hne (Or.inr hl)
  -- the state at `e + 1` after entering
  have hrelBody : StRel prog (e + 1)
      { stB with loops := stB.loops.setIfInBounds id { iters := bl.iters + 1, entry := pos } } sP := by
    refine ⟨hg, by simpa using hsz, ?_⟩
    intro id2 hl
    by_cases hne : id2 = id
    · subst hne
      simp [Array.getElem?_setIfInBounds, hidlt, hid, LoopOK]
    · have : id ≠ id2 := fun h => hne h.symm
      simpa [Array.getElem?_setIfInBounds, this] using hother id2 hne (Or.inl hl)
  have hrestore : Bt.State.mk
      ((stB.loops.setIfInBounds id { iters := bl.iters + 1, entry := pos }).setIfInBounds id bl)
      stB.groups = stB := by
    rw [Array.setIfInBounds_setIfInBounds, setIfInBounds_same _ _ _ hbl]
  unfold runLoop pkLoopBranch
  simp only [hbl, hnofail, Bool.false_eq_true, if_false, prepareToEnterLoop, Bool.not_true, Bool.true_eq_false]
  cases h1 : ltMax bl.iters max <;> cases h2 : decide (bl.iters ≥ min) <;>
    simp only [actOfLoop, Bool.not_false, Bool.not_true, Bool.and_self, Bool.and_true, Bool.and_false,
      Bool.true_and, Bool.false_and, if_true, if_false, Bool.false_eq_true]
  · exact .back _ _ _ hsnap
  · exact .cont _ _ _ _ _ rfl hpos hrelExit hsnap
  · refine .cont _ _ _ _ _ hip hpos hrelBody (.loopRec _ _ _ _ _ ?_)
    simp only [hrestore]; exact hsnap
  · cases greedy
    · -- non-greedy: prefer the exit, remember the body entry
      simp only [Bool.not_false, if_true, Bool.false_eq_true, if_false]
      have hrelExit' : StRel prog exit
          { stB with loops := stB.loops.setIfInBounds id { iters := bl.iters, entry := pos } }
          { sP with ip := exit } := by
        refine ⟨hg, by simpa using hsz, ?_⟩
        intro id2 hl
        have hne : id2 ≠ id := by intro h; subst h; simp [hexit] at hl
        have : id ≠ id2 := fun h => hne h.symm
        simpa [Array.getElem?_setIfInBounds, this] using hother id2 hne (Or.inr hl)
      refine .split _ _ _ _ _ _ rfl hpos hrelExit' ?_
      refine .ngl _ _ _ _ _ _ _ _ _ _ _ _ hE hip hpos ?_ ?_
      · simpa [Array.setIfInBounds_setIfInBounds] using hrelBody
      · simp only [Array.setIfInBounds_setIfInBounds]
        have : ({ iters := bl.iters, entry := bl.entry } : LoopData) = bl := rfl
        rw [this, setIfInBounds_same _ _ _ hbl]
        exact hsnap
    · simp only [Bool.not_true, Bool.false_eq_true, if_false, if_true]
      refine .split _ _ _ _ _ _ hip hpos hrelBody (.loopRec _ _ _ _ _ ?_)
      simp only [hrestore]
      exact .choice _ _ _ _ _ _ rfl hpos hrelExit hsnap

theorem sim_group {prog : Prog} {st : Bt.State} {bts : Array BtInsn} {cur : Pk.State}
    {saved : List Pk.State} {steps peak : Nat}
    (hrel : StRel prog cur.ip st cur) (hsnap : SnapRel prog bts st saved)
    (hm : ∀ id, live prog id (cur.ip + 1) = true → live prog id cur.ip = true)
    (g : Nat) (upd : GroupData → GroupData) (site site' : String) :
    StepSim prog st bts cur saved steps peak (groupAct g upd site cur.ip cur.pos st bts)
      (Pk.groupArm g upd cur site' steps peak) := by
  unfold groupAct Pk.groupArm
  rw [hrel.groups]
  cases hg : st.groups[g]? with
  | none => exact .errB _ _
  | some cg =>
    simp only [Pk.nextOrFail, if_true]
    refine .cont _ _ _ _ _ rfl rfl ⟨by simp, hrel.lsize, fun id h => hrel.loops id (hm id h)⟩ ?_
    refine .groupRec _ _ _ _ _ ?_
    simp only [Array.setIfInBounds_setIfInBounds, setIfInBounds_same _ _ _ hg]
    exact hsnap

theorem decide_zero_ge (min : Nat) : decide (0 ≥ min) = (min == 0) := by
  cases min <;> simp

theorem noLoop1_of_getElem? {prog : Prog} (h : simpleProg prog = true) {j : Nat} {i : Insn}
    (hi : prog.insns[j]? = some i) : noLoop1Insn i = true := by
  obtain ⟨hj, rfl⟩ := Array.getElem?_eq_some_iff.1 hi
  exact Array.all_eq_true.1 h j hj

theorem elementTryFrom_some {k : InputKind} {c c' : Nat} (h : elementTryFrom k c = some c') : c' = c := by
  unfold elementTryFrom at h
  cases k <;> simp only [] at h <;> split at h <;> simp_all

set_option linter.unusedSimpArgs false in
/-- **One instruction**: `Bt.step` and `Pk.tryMatchState` correspond on related configurations. -/
theorem step_sim {prog : Prog} (hs : loopsStructured prog = true)
    {inp : Input} (hok : inpOK inp = true) (look : Pk.Runner) (d : Nat) (fwd : Bool)
    {st : Bt.State} {bts : Array BtInsn} {cur : Pk.State} {saved : List Pk.State} (steps peak : Nat)
    (hsimple : ∀ i, prog.insns[cur.ip]? = some i → simpleInsn i = true)
    (hrel : StRel prog cur.ip st cur) (hsnap : SnapRel prog bts st saved) :
    StepSim prog st bts cur saved steps peak (Bt.step prog inp cur.ip cur.pos fwd st bts)
      (Pk.tryMatchState prog inp look (d + 1) cur fwd steps peak) := by
  unfold Bt.step
  rw [Pk.tryMatchState]
  cases hinsn : prog.insns[cur.ip]? with
  | none => exact .errB _ _
  | some insn =>
    simp only []
    have hsi := hsimple _ hinsn
    have hm : cur.ip + 1 ∈ succs prog cur.ip →
        ∀ id, live prog id (cur.ip + 1) = true → live prog id cur.ip = true :=
      fun hmem id h => structured_succ hs hinsn hmem h
    cases insn with
    | goal => exact .goal hrel.groups
    | justFail => exact .back _ _ _ hsnap
    | char c =>
      have hm' := hm (by simp [succs, hinsn])
      simp only []
      cases he : elementTryFrom inp.kind c with
      | some c' =>
        have := elementTryFrom_some he; subst this
        simp only []
        refine sim_nextElem hrel hsnap hm' inp fwd (fun c2 => c' == c2) _ _ _ ?_
        unfold Scm.matches
        rcases Cursor.next inp fwd cur.pos with e | (_ | ⟨c2, p⟩)
        · rfl
        · rfl
        · by_cases h : c2 = c'
          · subst h; simp
          · have : ¬ c' = c2 := fun e => h e.symm
            simp [h, this]
      | none =>
        simp only []
        unfold Pk.nextElemArm
        cases hn : Cursor.next inp fwd cur.pos with
        | error e => exact .errP _ _
        | ok r =>
          rcases r with _ | ⟨c2, p⟩
          · exact .back _ _ _ hsnap
          · simp only [Pk.nextOrFail]
            have h2 := next_elem_ok hok hn
            by_cases hc : c = c2
            · subst hc; rw [he] at h2; cases h2
            · simp only [beq_iff_eq, hc, if_false, Bool.false_eq_true]
              exact .back _ _ _ hsnap
    | charSet cs =>
      have hm' := hm (by simp [succs, hinsn])
      refine sim_nextElem hrel hsnap hm' inp fwd (fun c => charsetContains cs c) _ _ _ ?_
      unfold Scm.matches
      rcases Cursor.next inp fwd cur.pos with e | (_ | ⟨c2, p⟩) <;> rfl
    | matchAny =>
      have hm' := hm (by simp [succs, hinsn])
      refine sim_nextElem hrel hsnap hm' inp fwd (fun _ => true) _ _ _ ?_
      unfold Scm.matches
      rcases Cursor.next inp fwd cur.pos with e | (_ | ⟨c2, p⟩) <;> simp
    | matchAnyExceptLineTerminator =>
      have hm' := hm (by simp [succs, hinsn])
      refine sim_nextElem hrel hsnap hm' inp fwd (fun c2 => !isLineTerminator c2) _ _ _ ?_
      unfold Scm.matches
      rcases Cursor.next inp fwd cur.pos with e | (_ | ⟨c2, p⟩) <;> rfl
    | bracket idx =>
      have hm' := hm (by simp [succs, hinsn])
      simp only []
      cases hb : prog.brackets[idx]? with
      | none => exact .errB _ _
      | some bc =>
        simp only []
        refine sim_nextElem hrel hsnap hm' inp fwd (fun c => bracketTest bc c) _ _ _ ?_
        unfold Scm.matches
        rcases Cursor.next inp fwd cur.pos with e | (_ | ⟨c2, p⟩) <;> rfl
    | byteSeq bs => exact sim_scmArm hrel hsnap (hm (by simp [succs, hinsn])) _ _ _
    | byteSet bs => exact sim_scmArm hrel hsnap (hm (by simp [succs, hinsn])) _ _ _
    | asciiBracket bs => exact sim_scmArm hrel hsnap (hm (by simp [succs, hinsn])) _ _ _
    | wordBoundary invert => exact sim_wordBoundary hrel hsnap (hm (by simp [succs, hinsn])) _ _ _
    | wordBoundaryUnicodeICase invert =>
      exact sim_wordBoundary hrel hsnap (hm (by simp [succs, hinsn])) _ _ _
    | startOfLine ml => exact sim_line hrel hsnap (hm (by simp [succs, hinsn])) _ _ _ _
    | endOfLine ml => exact sim_line hrel hsnap (hm (by simp [succs, hinsn])) _ _ _ _
    | jump t =>
      refine .cont _ _ _ _ _ rfl rfl (hrel.mono rfl rfl ?_) hsnap
      exact fun id h => structured_succ hs hinsn (by simp [succs, hinsn]) h
    | alt sec =>
      refine .split _ _ _ _ _ _ rfl rfl (hrel.mono rfl rfl (hm (by simp [succs, hinsn]))) ?_
      refine .choice _ _ _ _ _ _ rfl rfl (hrel.mono rfl rfl ?_) hsnap
      exact fun id h => structured_succ hs hinsn (by simp [succs, hinsn]) h
    | backRef g icase =>
      have hm' := hm (by simp [succs, hinsn])
      simp only []
      rw [hrel.groups]
      cases hg : st.groups[g]? with
      | none => exact .errB _ _
      | some cg =>
        simp only []
        cases hr : cg.asRange with
        | none =>
          simp only [Pk.nextOrFail, if_true]
          have := sim_adv (steps := steps) (peak := peak) hrel hsnap hm' cur.pos
          simpa using this
        | some rng =>
          obtain ⟨rs, re⟩ := rng
          simp only []
          cases icase
          · simp only [Bool.false_eq_true, if_false]; exact sim_scmArm hrel hsnap hm' _ _ _
          · simp only [if_true]; exact sim_scmArm hrel hsnap hm' _ _ _
    | beginCaptureGroup g => exact sim_group hrel hsnap (hm (by simp [succs, hinsn])) _ _ _ _
    | endCaptureGroup g => exact sim_group hrel hsnap (hm (by simp [succs, hinsn])) _ _ _ _
    | resetCaptureGroup g => exact sim_group hrel hsnap (hm (by simp [succs, hinsn])) _ _ _ _
    | enterLoop id min max greedy exit =>
      obtain ⟨hexit, hex2, hbody2⟩ := structured_enter hs hinsn
      simp only []
      cases hld : st.loops[id]? with
      | none => exact .errB _ _
      | some ld =>
        simp only []
        have hidlt : id < st.loops.size := by
          rcases Nat.lt_or_ge id st.loops.size with h | h
          · exact h
          · simp [Array.getElem?_eq_none h] at hld
        have hidlt' : id < cur.loops.size := by rw [hrel.lsize]; exact hidlt
        have hpl : cur.loops[id]? = some cur.loops[id] := Array.getElem?_eq_getElem hidlt'
        unfold Pk.runLoop
        simp only [hpl, if_true]
        have hcore := loop_core (prog := prog) (e := cur.ip) (id := id) (min := min) (max := max)
          (greedy := greedy) (exit := exit) (pos := cur.pos)
          (stB := { st with loops := st.loops.setIfInBounds id { ld with iters := 0 } })
          (btsB := bts.push (.setLoopData id ld)) (bl := { iters := 0, entry := ld.entry })
          (sP := { cur with loops := cur.loops.setIfInBounds id { iters := 0, entry := cur.pos },
                            ip := cur.ip + 1 })
          (cur := cur) (saved := saved) (st := st) (bts := bts) (steps := steps) (peak := peak)
          hinsn (by simp [hidlt]) rfl rfl hrel.groups (by simpa using hrel.lsize) (by simp [hidlt'])
          (by
            intro id2 hne hl
            have hne' : id ≠ id2 := fun h => hne h.symm
            have hlive : live prog id2 cur.ip = true := by
              rcases hl with hl | hl
              · exact hbody2 id2 hne hl
              · exact hex2 id2 hl
            simpa [Array.getElem?_setIfInBounds, hne'] using hrel.loops id2 hlive)
          hexit
          (by
            refine .loopRec _ _ _ _ _ ?_
            simp only [Array.setIfInBounds_setIfInBounds, setIfInBounds_same _ _ _ hld]
            exact hsnap)
          (by simp)
        simp only [ltMax_zero, decide_zero_ge, pkLoopBranch] at hcore
        generalize runLoop _ _ id min max greedy exit cur.pos cur.ip = r at hcore ⊢
        rcases r with ⟨_ | n, st', bts'⟩ | e <;> simpa [actOfLoop] using hcore
    | loopAgain b =>
      simp only []
      cases hb : prog.insns[b]? with
      | none => exact .errB _ _
      | some i =>
        cases i with
        | enterLoop id min max greedy exit =>
          obtain ⟨hlive, hexit, hex2, hbody2⟩ := structured_again hs hinsn hb
          simp only []
          have hloop := hrel.loops id hlive
          cases hbl : st.loops[id]? with
          | none =>
            have : runLoop st bts id min max greedy exit cur.pos b =
                .err "run_loop: self.s.loops[loop_id] out of range" := by
              unfold runLoop; simp [hbl]
            rw [this]; exact .errB _ _
          | some bl =>
            cases hpl : cur.loops[id]? with
            | none => rw [hbl, hpl] at hloop; exact absurd hloop (by simp [LoopOK])
            | some pl =>
              rw [hbl, hpl] at hloop
              obtain ⟨hit, hen⟩ := hloop
              have hidlt' : id < cur.loops.size := by
                rcases Nat.lt_or_ge id cur.loops.size with h | h
                · exact h
                · simp [Array.getElem?_eq_none h] at hpl
              unfold Pk.runLoop
              simp only [hpl, Bool.false_eq_true, if_false]
              by_cases hfail : (bl.entry == cur.pos && decide (bl.iters > min)) = true
              · have h1 : runLoop st bts id min max greedy exit cur.pos b = .ok none st bts := by
                  unfold runLoop; simp only [hbl]; simp only [hfail, if_true]
                have h2 : (decide (pl.iters + 1 > min) && pl.entry == cur.pos) = true := by
                  rw [← hit, ← hen, Bool.and_comm]; exact hfail
                rw [h1]; simp only [h2, if_true]
                exact .back _ _ _ hsnap
              · have hfail' : (bl.entry == cur.pos && decide (bl.iters > min)) = false := by
                  simpa using hfail
                have h2 : (decide (pl.iters + 1 > min) && pl.entry == cur.pos) = false := by
                  rw [← hit, ← hen, Bool.and_comm]; exact hfail'
                simp only [h2, Bool.false_eq_true, if_false]
                have hcore := loop_core (prog := prog) (e := b) (id := id) (min := min) (max := max)
                  (greedy := greedy) (exit := exit) (pos := cur.pos) (stB := st) (btsB := bts) (bl := bl)
                  (sP := { cur with loops := cur.loops.setIfInBounds id { iters := pl.iters + 1, entry := cur.pos },
                                    ip := b + 1 })
                  (cur := cur) (saved := saved) (st := st) (bts := bts) (steps := steps) (peak := peak)
                  hb hbl rfl rfl hrel.groups (by simpa using hrel.lsize) (by simp [hidlt', hit])
                  (by
                    intro id2 hne hl
                    have hne' : id ≠ id2 := fun h => hne h.symm
                    have hlive2 : live prog id2 cur.ip = true := by
                      rcases hl with hl | hl
                      · exact hbody2 id2 hne hl
                      · exact hex2 id2 hl
                    simpa [Array.getElem?_setIfInBounds, hne'] using hrel.loops id2 hlive2)
                  hexit hsnap hfail'
                simp only [pkLoopBranch, hit] at hcore
                generalize runLoop st bts id min max greedy exit cur.pos b = r at hcore ⊢
                rcases r with ⟨_ | n, st', bts'⟩ | e <;> simpa [actOfLoop] using hcore
        | _ => exact .errB _ _
    | loop1 mn mx gr => simp [simpleInsn] at hsi
    | lookahead neg sg eg k => simp [simpleInsn] at hsi
    | lookbehind neg sg eg k => simp [simpleInsn] at hsi

/-! ## Look-arounds: nesting structure -/

/-- `j` is a look-around whose body `(j, k)` contains `x` (only `x < k` is checked here). -/
def lookOver (prog : Prog) (j x : Nat) : Bool :=
  match prog.insns[j]?.bind lookOf with
  | some (_, _, k) => decide (x < k)
  | none => false

def enclAux (prog : Prog) (x : Nat) : Nat → Option Nat
  | 0 => none
  | j + 1 => if lookOver prog j x then some j else enclAux prog x j

/-- The innermost look-around whose body contains `x`: the largest `j < x` that is a look-around
with continuation `> x`. A run of the backtracker stays at addresses with the same `encl`. -/
def encl (prog : Prog) (x : Nat) : Option Nat := enclAux prog x x

theorem enclAux_some {prog : Prog} {x n j : Nat} (h : enclAux prog x n = some j) : j < n := by
  induction n with
  | zero => simp [enclAux] at h
  | succ n ih =>
    simp only [enclAux] at h
    split at h
    · cases h; omega
    · have := ih h; omega

theorem enclAux_ge {prog : Prog} {x n j : Nat} (hj : j < n) (hl : lookOver prog j x = true) :
    ∃ j', enclAux prog x n = some j' ∧ j ≤ j' := by
  induction n with
  | zero => omega
  | succ n ih =>
    simp only [enclAux]
    split
    · exact ⟨n, rfl, by omega⟩
    · next hn =>
      have : j < n := by
        rcases Nat.lt_or_ge j n with h | h
        · exact h
        · have : j = n := by omega
          subst this; exact absurd hl hn
      exact ih this

/-- An address inside the body of the look-around `j` has a different `encl` than `j` itself. -/
theorem encl_body_ne {prog : Prog} {j : Nat} {i : Insn} {sg eg k x : Nat}
    (hi : prog.insns[j]? = some i) (hl : lookOf i = some (sg, eg, k)) (h1 : j < x) (h2 : x < k) :
    encl prog x ≠ encl prog j := by
  have hover : lookOver prog j x = true := by simp [lookOver, hi, hl, h2]
  obtain ⟨j', hj', hle⟩ := enclAux_ge (n := x) h1 hover
  intro heq
  unfold encl at heq
  rw [hj'] at heq
  have := enclAux_some heq.symm
  omega

def enclIs (prog : Prog) (J : Option Nat) (y : Nat) : Bool := encl prog y == J

def allTrue (_ : Nat) : Bool := true

/-- The static nesting conditions on look-arounds used by the simulation (all decidable, true of the
emitter's output):
* every instruction continues (and pushes choice records) at addresses with the same `encl`; the
  body of a look-around `j` starts at `j + 1` with `encl = some j`;
* a loop that is live at the continuation of a look-around is live throughout its body (the
  look-around lies inside the loop body);
* the loops inside a look-around body are live only inside that body;
* `lookClosed` (bodies are closed regions that write only their own groups and loops). -/
def looksStructured (prog : Prog) : Bool :=
  lookClosed prog &&
  (List.range prog.insns.size).all fun x =>
    match prog.insns[x]? with
    | none => true
    | some i =>
      insnIn prog (enclIs prog (encl prog x)) allTrue allTrue allTrue x i &&
      (match lookOf i with
       | none => true
       | some (_, _, k) =>
         (encl prog (x + 1) == some x) &&
         (loopIds prog).all (fun id =>
           (!live prog id k || (List.range (k - (x + 1))).all (fun d => live prog id (x + 1 + d))) &&
           (!bodyLoop prog x k id ||
             (List.range (prog.insns.size + 1)).all (fun y => !live prog id y || inBody x k y))))

theorem live_lt_size {prog : Prog} {id x : Nat} (h : live prog id x = true) : x < prog.insns.size := by
  simp only [live, List.any_eq_true, Bool.and_eq_true, decide_eq_true_eq] at h
  obtain ⟨t, ht, ⟨_, _⟩, h3⟩ := h
  simp only [loopTriples, List.mem_filterMap, List.mem_range] at ht
  obtain ⟨l, hl, hm⟩ := ht
  split at hm
  · split at hm
    · cases hm; simp at h3; omega
    · cases hm
  · cases hm

section looks
variable {prog : Prog} (hl : looksStructured prog = true)
include hl

theorem looks_closed : lookClosed prog = true := by
  simp only [looksStructured, Bool.and_eq_true] at hl; exact hl.1

theorem looks_at {x : Nat} {i : Insn} (hi : prog.insns[x]? = some i) :
    insnIn prog (enclIs prog (encl prog x)) allTrue allTrue allTrue x i = true ∧
    (∀ sg eg k, lookOf i = some (sg, eg, k) →
      encl prog (x + 1) = some x ∧
      (∀ id, live prog id k = true → ∀ y, x < y → y < k → live prog id y = true) ∧
      (∀ id, bodyLoop prog x k id = true → ∀ y, live prog id y = true → x < y ∧ y < k)) := by
  simp only [looksStructured, Bool.and_eq_true] at hl
  have h := List.all_eq_true.1 hl.2 x (List.mem_range.2 (lt_size_of_getElem? hi))
  simp only [hi, Bool.and_eq_true] at h
  refine ⟨h.1, ?_⟩
  intro sg eg k hlk
  have h2 := h.2
  simp only [hlk, Bool.and_eq_true, beq_iff_eq] at h2
  refine ⟨h2.1, ?_, ?_⟩
  · intro id hlive y hy1 hy2
    have := live_all h2.2 hlive
    simp only [Bool.and_eq_true, hlive, Bool.not_true, Bool.false_or] at this
    have h3 := List.all_eq_true.1 this.1 (y - (x + 1)) (List.mem_range.2 (by omega))
    rwa [show x + 1 + (y - (x + 1)) = y by omega] at h3
  · intro id hb y hlive
    have := live_all h2.2 hlive
    simp only [Bool.and_eq_true, hb, Bool.not_true, Bool.false_or] at this
    have h3 := List.all_eq_true.1 this.2 y (List.mem_range.2 (by have := live_lt_size hlive; omega))
    simpa [hlive, inBody] using h3

/-- The addresses with a given `encl` form a closed region (a look-around's nested run excepted). -/
theorem region_encl (J : Option Nat) : Region prog (enclIs prog J) allTrue allTrue allTrue := by
  intro x i hx hi
  have := (looks_at hl hi).1
  simp only [enclIs, beq_iff_eq] at hx
  rwa [hx] at this

end looks

/-! ## Changing dead loop slots -/

/-- The address at which a choice record resumes. -/
def resumeIp : BtInsn → Option Nat
  | .setPosition ip _ => some ip
  | .enterNonGreedyLoop ip _ _ => some (ip + 1)
  | _ => none

theorem StRel.congr {prog : Prog} {D : Nat → Bool} {x : Nat} {a a' : Bt.State} {s : Pk.State}
    (h : StRel prog x a s) (ha : Agree D (fun _ => false) a' a)
    (hd : ∀ id, D id = true → live prog id x = false) : StRel prog x a' s := by
  refine ⟨h.groups.trans ha.groups_eq.symm, h.lsize.trans ha.lsize.symm, ?_⟩
  intro id hlive
  have hD : D id = false := by
    cases hD : D id
    · rfl
    · rw [hd id hD] at hlive; cases hlive
  rw [ha.loops id hD]
  exact h.loops id hlive

/-- `SnapRel` is insensitive to changes of loop slots that are dead at every address where a choice
record of the stack resumes. -/
theorem SnapRel.congr {prog : Prog} {D : Nat → Bool} {bts : Array BtInsn} {st : Bt.State}
    {saved : List Pk.State} (h : SnapRel prog bts st saved) :
    ∀ {st' : Bt.State}, Agree D (fun _ => false) st' st →
      (∀ r ∈ bts, ∀ x, resumeIp r = some x → ∀ id, D id = true → live prog id x = false) →
      SnapRel prog bts st' saved := by
  induction h with
  | bottom b st => intro st' _ _; exact .bottom _ _
  | choice b st ip pos s saved h1 h2 h3 _ ih =>
    intro st' ha hd
    refine .choice _ _ _ _ _ _ h1 h2 (h3.congr ha ?_) (ih ha ?_)
    · exact hd _ (Array.mem_push.2 (Or.inr rfl)) ip rfl
    · exact fun r hr => hd r (Array.mem_push.2 (Or.inl hr))
  | loopRec b st id d saved _ ih =>
    intro st' ha hd
    refine .loopRec _ _ _ _ _ (ih (ha.restore prog (.setLoopData id d)) ?_)
    exact fun r hr => hd r (Array.mem_push.2 (Or.inl hr))
  | groupRec b st id d saved _ ih =>
    intro st' ha hd
    refine .groupRec _ _ _ _ _ (ih (ha.restore prog (.setCaptureGroup id d)) ?_)
    exact fun r hr => hd r (Array.mem_push.2 (Or.inl hr))
  | ngl b st ip origPos data id mn mx gr ex s saved h1 h2 h3 h4 _ ih =>
    intro st' ha hd
    refine .ngl _ _ _ _ _ _ _ _ _ _ _ _ h1 h2 h3 ?_ (ih (ha.restore prog (.setLoopData id _)) ?_)
    · exact h4.congr (ha.restore prog (.setLoopData id _)) (hd _ (Array.mem_push.2 (Or.inr rfl)) (ip + 1) rfl)
    · exact fun r hr => hd r (Array.mem_push.2 (Or.inl hr))

/-! ## The runs -/

/-- Corresponding outcomes of two runs started at tick count `steps0` at addresses with `encl = J`:
same match end, same tick count, final states related at the `Goal` reached (in particular equal
capture groups); `.error` outcomes of either machine are not compared. -/
def OutSim (prog : Prog) (J : Option Nat) (steps0 : Nat) : Bt.Outcome → Pk.Outcome → Prop
  | .error _, _ => True
  | _, .error _ => True
  | .matched e st s _, .matched e' st' s' _ =>
    e = e' ∧ s = s' ∧ steps0 ≤ s ∧ st'.pos = e' ∧ StRel prog st'.ip st st' ∧ encl prog st'.ip = J
  | .failed _ s _, .failed s' _ => s = s' ∧ steps0 ≤ s
  | .outOfFuel, .outOfFuel => True
  | _, _ => False

theorem OutSim.errB {prog : Prog} {J : Option Nat} {n : Nat} (e : String) (x : Pk.Outcome) :
    OutSim prog J n (.error e) x := by
  cases x <;> trivial

theorem OutSim.errP {prog : Prog} {J : Option Nat} {n : Nat} (x : Bt.Outcome) (e : String) :
    OutSim prog J n x (.error e) := by
  cases x <;> trivial

theorem OutSim.mono {prog : Prog} {J : Option Nat} {n m : Nat} {x : Bt.Outcome} {y : Pk.Outcome}
    (h : OutSim prog J n x y) (hm : m ≤ n) : OutSim prog J m x y := by
  cases x <;> cases y <;> simp only [OutSim] at h ⊢ <;> try trivial
  · exact ⟨h.1, h.2.1, by omega, h.2.2.2⟩
  · exact ⟨h.1, by omega⟩

/-- What `runStates` does with the result of `try_match_state`. -/
def pkAfter (prog : Prog) (inp : Input) (limit sf : Nat) (rest : Array Pk.State) (fwd : Bool) :
    Pk.SM → Pk.Outcome
  | .err e => .error e
  | .outOfFuel => .outOfFuel
  | .fail _ steps peak => Pk.runStates prog inp limit sf rest fwd steps peak
  | .cont s steps peak => Pk.runStates prog inp limit sf (rest.push s) fwd steps peak
  | .complete s steps peak => .matched s.pos s steps peak
  | .split s new steps peak => Pk.runStates prog inp limit sf ((rest.push s).push new) fwd steps peak

theorem runStates_succ_push (prog : Prog) (inp : Input) (limit sf : Nat) (rest : Array Pk.State)
    (cur : Pk.State) (fwd : Bool) (steps peak : Nat) :
    Pk.runStates prog inp limit (sf + 1) (rest.push cur) fwd steps peak =
      if steps ≥ limit then .outOfFuel else
      pkAfter prog inp limit sf rest fwd
        (Pk.tryMatchState prog inp
          (fun s0 dirFwd steps peak => Pk.runStates prog inp limit sf #[s0] dirFwd steps peak)
          (prog.insns.size + 1) cur fwd (steps + 1)
          (if peak < (rest.push cur).size then (rest.push cur).size else peak)) := by
  rw [Pk.runStates]
  simp only [Array.back?_push, Array.pop_push]
  split
  · rfl
  · generalize Pk.tryMatchState prog inp _ (prog.insns.size + 1) cur fwd (steps + 1) _ = m
    cases m <;> rfl

theorem runStates_empty (prog : Prog) (inp : Input) (limit sf : Nat) (fwd : Bool) (steps peak : Nat) :
    Pk.runStates prog inp limit (sf + 1) #[] fwd steps peak = .failed steps peak := by
  rw [Pk.runStates]; rfl

/-- The statement of the simulation for structural fuel `sf`. -/
def RunSimAt (prog : Prog) (inp : Input) (limit sf : Nat) : Prop :=
  ∀ (fwd : Bool) (st : Bt.State) (bts : Array BtInsn) (saved : List Pk.State)
    (cur : Pk.State) (steps peakB peakP : Nat) (J : Option Nat),
    StRel prog cur.ip st cur → SnapRel prog bts st saved → limit ≤ steps + sf →
    encl prog cur.ip = J → RecsIn prog (enclIs prog J) allTrue allTrue bts →
    OutSim prog J steps (Bt.run prog inp limit sf cur.ip cur.pos fwd st bts steps peakB)
      (Pk.runStates prog inp limit (sf + 1) (saved.reverse.toArray.push cur) fwd steps peakP)

theorem reverse_cons_toArray {α} (s : α) (saved : List α) :
    (s :: saved).reverse.toArray = saved.reverse.toArray.push s := by simp

/-- `break 'backtrack` against popping the PikeVM's stack. -/
theorem back_sim {prog : Prog} {inp : Input} {limit sf : Nat} (ih : RunSimAt prog inp limit sf)
    (fwd : Bool) {st : Bt.State} {bts : Array BtInsn} {saved : List Pk.State} (steps peakB peakP : Nat)
    {J : Option Nat} (hsnap : SnapRel prog bts st saved) (hfuel : limit ≤ steps + sf)
    (hb : RecsIn prog (enclIs prog J) allTrue allTrue bts) :
    OutSim prog J steps (backtrackThen prog inp limit sf fwd st bts steps peakB)
      (Pk.runStates prog inp limit (sf + 1) saved.reverse.toArray fwd steps peakP) := by
  unfold backtrackThen
  have hin := tryBacktrack_in prog (enclIs prog J) allTrue allTrue inp fwd bts.size bts st rfl hb
  rcases tryBacktrack_sim prog inp fwd hsnap with ⟨e, he⟩ | hres
  · rw [he]; exact OutSim.errB _ _
  · cases saved with
    | nil =>
      obtain ⟨st'', bts'', he⟩ := hres
      rw [he]
      simp only [List.reverse_nil, runStates_empty]
      exact ⟨rfl, Nat.le_refl _⟩
    | cons s saved' =>
      obtain ⟨st'', bts'', he, h5, h6⟩ := hres
      rw [he] at hin ⊢
      rw [reverse_cons_toArray]
      simp only [BtIn, enclIs, beq_iff_eq] at hin
      exact ih fwd st'' bts'' saved' s steps _ _ J h5 h6 hfuel hin.1 hin.2.1

/-- The part of one `runStates`/`run` iteration after the instruction was executed, for the
instructions handled by `step_sim`. -/
theorem after_step_sim {prog : Prog} {inp : Input} {limit sf : Nat} (ih : RunSimAt prog inp limit sf)
    (fwd : Bool) {st : Bt.State} {bts : Array BtInsn} {saved : List Pk.State} {cur : Pk.State}
    (steps peakB peakP : Nat) {J : Option Nat} (hrel : StRel prog cur.ip st cur)
    (hJ : encl prog cur.ip = J) (hfuel : limit ≤ steps + sf)
    {a : Bt.Act} {m : Pk.SM} (hsim : StepSim prog st bts cur saved steps peakP a m)
    (hin : ActIn prog (enclIs prog J) allTrue allTrue allTrue cur.ip st bts a)
    (hnolook : ∀ d n sg eg k st' bts', a ≠ .look d n sg eg k st' bts') :
    OutSim prog J steps
      (match a with
       | .err e => .error e
       | .goal pos st => .matched pos st steps peakB
       | .cont ip pos st bts' => Bt.run prog inp limit sf ip pos fwd st bts' steps peakB
       | .back st bts' => backtrackThen prog inp limit sf fwd st bts' steps peakB
       | .look _ _ _ _ _ _ _ => .outOfFuel)
      (pkAfter prog inp limit (sf + 1) saved.reverse.toArray fwd m) := by
  cases hsim with
  | errB e a => exact OutSim.errB _ _
  | errP a e => exact OutSim.errP _ _
  | goal hg => exact ⟨rfl, rfl, Nat.le_refl _, rfl, hrel, hJ⟩
  | cont ip' pos' st' bts' s' h1 h2 h3 h4 =>
    subst h1; subst h2
    simp only [ActIn, enclIs, beq_iff_eq] at hin
    exact ih fwd st' bts' saved s' steps _ _ J h3 h4 hfuel hin.1 hin.2.1
  | split ip' pos' st' bts' s new h1 h2 h3 h4 =>
    subst h1; subst h2
    simp only [ActIn, enclIs, beq_iff_eq] at hin
    simp only [pkAfter]
    rw [← reverse_cons_toArray]
    exact ih fwd st' bts' (s :: saved) new steps _ _ J h3 h4 hfuel hin.1 hin.2.1
  | back st' bts' s' h4 =>
    simp only [ActIn] at hin
    exact back_sim ih fwd steps _ _ h4 hfuel hin.1

theorem enclAux_lookOver {prog : Prog} {x n j : Nat} (h : enclAux prog x n = some j) :
    lookOver prog j x = true := by
  induction n with
  | zero => simp [enclAux] at h
  | succ n ih =>
    simp only [enclAux] at h
    split at h
    · next hn => cases h; exact hn
    · exact ih h

/-- If `encl x = some j` then `x` lies in the body of the look-around at `j`. -/
theorem encl_some {prog : Prog} {x j : Nat} (h : encl prog x = some j) {i : Insn} {sg eg k : Nat}
    (hi : prog.insns[j]? = some i) (hl : lookOf i = some (sg, eg, k)) : j < x ∧ x < k := by
  refine ⟨enclAux_some h, ?_⟩
  have := enclAux_lookOver h
  simpa [lookOver, hi, hl] using this

/-- Pushing the saved-group records of a positive look-around. -/
theorem snapRel_pushSaved (prog : Prog) (saved : List GroupData) :
    ∀ (id : Nat) (bts : Array BtInsn) (st2 : Bt.State) (pk : List Pk.State),
      SnapRel prog bts (rewindL prog (savedRecs saved id).reverse st2) pk →
      SnapRel prog (bts ++ (savedRecs saved id).toArray) st2 pk := by
  induction saved with
  | nil => intro id bts st2 pk h; simpa [savedRecs, rewindL] using h
  | cons c rest ih =>
    intro id bts st2 pk h
    simp only [savedRecs]
    rw [append_cons_toArray]
    apply ih
    refine .groupRec _ _ _ _ _ ?_
    have hne : ∀ r ∈ (savedRecs rest (id + 1)).reverse, r ≠ .exhausted := by
      intro r hr; exact savedRecs_ne_exhausted (List.mem_reverse.1 hr)
    simp only [savedRecs, List.reverse_cons] at h
    rw [rewindL_append prog _ _ _ hne] at h
    simpa [rewindL, restore] using h

set_option linter.unusedSimpArgs false in
/-- **A look-around instruction**: the nested runs correspond (induction hypothesis), and so do the
continuations of the two machines. -/
theorem look_sim {prog : Prog} (hs : loopsStructured prog = true) (hl : looksStructured prog = true)
    {inp : Input} {limit sf : Nat} (ih : RunSimAt prog inp limit sf)
    (fwd : Bool) {st : Bt.State} {bts : Array BtInsn} {saved : List Pk.State} {cur : Pk.State}
    (steps peakB peakP : Nat) {J : Option Nat} (hrel : StRel prog cur.ip st cur)
    (hsnap : SnapRel prog bts st saved) (hfuel : limit ≤ steps + sf)
    (hJ : encl prog cur.ip = J) (hb : RecsIn prog (enclIs prog J) allTrue allTrue bts)
    {i : Insn} (hi : prog.insns[cur.ip]? = some i) {sg eg k : Nat} (hlk : lookOf i = some (sg, eg, k))
    (dirFwd negate : Bool) :
    OutSim prog J steps
      (if sg > eg || eg > st.groups.size then
        .error "run_lookaround: groups.iat(start_group..end_group) out of range"
       else
        afterLook prog inp limit sf cur.pos fwd negate sg k (st.groups.extract sg eg).toList bts
          (Bt.run prog inp limit sf (cur.ip + 1) cur.pos dirFwd st #[.exhausted] steps peakB))
      (pkAfter prog inp limit (sf + 1) saved.reverse.toArray fwd
        (Pk.lookArm (fun s0 dirFwd steps peak => Pk.runStates prog inp limit (sf + 1) #[s0] dirFwd steps peak)
          dirFwd negate k cur steps peakP)) := by
  split
  · exact OutSim.errB _ _
  · next hse =>
    simp only [Bool.or_eq_true, decide_eq_true_eq] at hse
    obtain ⟨-, hlook⟩ := looks_at hl hi
    obtain ⟨hE1, hL1, hL2⟩ := hlook sg eg k hlk
    obtain ⟨hk, hReg⟩ := lookClosed_region (looks_closed hl) hi hlk
    have hmem1 : cur.ip + 1 ∈ succs prog cur.ip := by
      cases i <;> simp [lookOf] at hlk <;> simp [succs, hi]
    have hmemk : k ∈ succs prog cur.ip := by
      cases i <;> simp [lookOf] at hlk <;> simp [succs, hi, hlk]
    have hsucc1 : ∀ id, live prog id (cur.ip + 1) = true → live prog id cur.ip = true :=
      fun id h => structured_succ hs hi hmem1 h
    have hsucck : ∀ id, live prog id k = true → live prog id cur.ip = true :=
      fun id h => structured_succ hs hi hmemk h
    -- the loops of the body are dead wherever this run's stack resumes, and at `k`
    have hdeadk : ∀ id, bodyLoop prog cur.ip k id = true → live prog id k = false := by
      intro id hbl
      cases hlv : live prog id k
      · rfl
      · have := hL2 id hbl k hlv; omega
    have hdead : ∀ r ∈ bts, ∀ x, resumeIp r = some x → ∀ id, bodyLoop prog cur.ip k id = true →
        live prog id x = false := by
      intro r hr x hx id hbl
      have hrin := hb r hr
      have hex : encl prog x = J := by
        cases r <;> simp only [resumeIp, Option.some.injEq, reduceCtorEq] at hx
        · subst hx; simpa [recIn, enclIs] using hrin
        · subst hx
          simp only [recIn, Bool.and_eq_true, enclIs, beq_iff_eq] at hrin
          exact hrin.1
      cases hlv : live prog id x
      · rfl
      · obtain ⟨h1, h2⟩ := hL2 id hbl x hlv
        exact absurd (hex.trans hJ.symm) (encl_body_ne hi hlk h1 h2)
    -- the nested runs
    have hrel_in : StRel prog (cur.ip + 1) st { cur with ip := cur.ip + 1 } := hrel.mono rfl rfl hsucc1
    have hinner := ih dirFwd st #[.exhausted] [] { cur with ip := cur.ip + 1 } steps peakB peakP
      (some cur.ip) hrel_in (.bottom #[] st) hfuel hE1 (by intro r hr; simp at hr; subst hr; rfl)
    have hfp := run_in prog _ _ _ hReg inp limit sf (cur.ip + 1) cur.pos dirFwd st #[.exhausted] steps peakB
      (by simp [inBody]; omega) (by intro r hr; simp at hr; subst hr; rfl)
    simp only [List.reverse_nil, List.push_toArray, List.nil_append] at hinner
    simp only [Pk.lookArm]
    generalize Bt.run prog inp limit sf (cur.ip + 1) cur.pos dirFwd st #[.exhausted] steps peakB = ob
      at hinner hfp
    generalize Pk.runStates prog inp limit (sf + 1) #[{ cur with ip := cur.ip + 1 }] dirFwd steps peakP = op
      at hinner
    cases ob with
    | error e => exact OutSim.errB _ _
    | outOfFuel =>
      cases op <;> simp only [OutSim] at hinner
      · trivial
      · exact OutSim.errP _ _
    | matched e st2 s2 p2 =>
      cases op with
      | error e' => exact OutSim.errP _ _
      | failed _ _ => exact absurd hinner id
      | outOfFuel => exact absurd hinner id
      | matched e' q2 s2' p2' =>
        obtain ⟨-, hs2, hle, -, hrel2, hE2⟩ := hinner
        subst hs2
        have hfuel2 : limit ≤ s2 + sf := by omega
        have hq := encl_some hE2 hi hlk
        simp only [afterLook, OutIn] at hfp ⊢
        cases negate
        · -- positive look-around matched: continue at `k`
          simp only [Bool.not_false, if_true, bne_iff_ne, ne_eq, Bool.true_eq_false, not_false_eq_true,
            pkAfter]
          refine (ih fwd st2 _ saved { q2 with ip := k, pos := cur.pos } s2 p2 p2' J ?_ ?_ hfuel2 ?_ ?_).mono hle
          · refine ⟨hrel2.groups, hrel2.lsize, ?_⟩
            intro id hlv
            exact hrel2.loops id (hL1 id hlv q2.ip hq.1 hq.2)
          · rw [pushSavedGroups_eq]
            apply snapRel_pushSaved
            exact hsnap.congr (restoreSaved_agree prog hfp hse) hdead
          · have := (looks_at hl hi).1
            cases i <;> simp [lookOf] at hlk <;>
              simp only [insnIn, Bool.and_eq_true, enclIs, beq_iff_eq] at this <;>
              (obtain ⟨-, -, rfl⟩ := hlk; rw [this.1.2, hJ])
          · exact recsIn_pushSaved hb _ sg eg (fun _ _ _ => rfl) (extract_length_le _ _ _)
        · -- negative look-around matched: fail
          simp only [Bool.not_true, Bool.false_eq_true, if_false, bne_self_eq_false, pkAfter]
          exact (back_sim ih fwd s2 p2 p2' (hsnap.congr (splice_restores hfp hse) hdead) hfuel2 hb).mono hle
    | failed st2 s2 p2 =>
      cases op with
      | error e' => exact OutSim.errP _ _
      | matched _ _ _ _ => exact absurd hinner id
      | outOfFuel => exact absurd hinner id
      | failed s2' p2' =>
        obtain ⟨hs2, hle⟩ := hinner
        subst hs2
        have hfuel2 : limit ≤ s2 + sf := by omega
        simp only [afterLook, OutIn] at hfp ⊢
        have hagree := splice_restores hfp hse
        cases negate
        · -- positive look-around failed: fail
          simp only [Bool.false_eq_true, if_false, bne_self_eq_false, pkAfter]
          exact (back_sim ih fwd s2 p2 p2' (hsnap.congr hagree hdead) hfuel2 hb).mono hle
        · -- negative look-around failed: continue at `k` with the state before the look-around
          simp only [if_true, bne_iff_ne, ne_eq, Bool.false_eq_true, not_false_eq_true, pkAfter]
          refine (ih fwd _ bts saved { cur with ip := k } s2 p2 p2' J ?_ (hsnap.congr hagree hdead)
            hfuel2 ?_ hb).mono hle
          · exact (hrel.mono (p' := { cur with ip := k }) rfl rfl hsucck).congr hagree hdeadk
          · have := (looks_at hl hi).1
            cases i <;> simp [lookOf] at hlk <;>
              simp only [insnIn, Bool.and_eq_true, enclIs, beq_iff_eq] at this <;>
              (obtain ⟨-, -, rfl⟩ := hlk; rw [this.1.2, hJ])

theorem simple_of_noLook {i : Insn} (h1 : noLoop1Insn i = true) (h2 : lookOf i = none) :
    simpleInsn i = true := by
  cases i <;> simp_all [noLoop1Insn, lookOf, simpleInsn]

/-- **Lock-step simulation.** On related configurations (PikeVM stack = saved states for the choice
records of `bts`, bottom first, then the current state) the two runs produce corresponding outcomes. -/
theorem run_sim {prog : Prog} (hs : loopsStructured prog = true) (hl : looksStructured prog = true)
    (hsimple : simpleProg prog = true) {inp : Input} (hok : inpOK inp = true) (limit : Nat) :
    ∀ sf, RunSimAt prog inp limit sf := by
  intro sf
  induction sf with
  | zero =>
    intro fwd st bts saved cur steps peakB peakP J _ _ hlim _ _
    rw [run_zero, Pk.runStates]
    simp only [Array.back?_push]
    have : steps ≥ limit := by omega
    simp [this, OutSim]
  | succ sf ih =>
    intro fwd st bts saved cur steps peakB peakP J hrel hsnap hlim hJ hb
    rw [run_succ, runStates_succ_push]
    by_cases hge : steps ≥ limit
    · simp [hge, OutSim]
    · simp only [hge, if_false]
      cases hinsn : prog.insns[cur.ip]? with
      | none =>
        have : Bt.step prog inp cur.ip cur.pos fwd st bts = .err "try_at_pos: insns.iat(ip) out of range" := by
          unfold Bt.step; simp [hinsn]
        rw [this]; exact OutSim.errB _ _
      | some insn =>
        cases hlk : lookOf insn with
        | none =>
          have hsimple' : ∀ i, prog.insns[cur.ip]? = some i → simpleInsn i = true := by
            intro i hi; rw [hinsn] at hi; cases hi
            exact simple_of_noLook (noLoop1_of_getElem? hsimple hinsn) hlk
          have hsim := step_sim hs hok
            (fun s0 dirFwd steps peak => Pk.runStates prog inp limit (sf + 1) #[s0] dirFwd steps peak)
            prog.insns.size fwd (steps + 1)
            (if peakP < (saved.reverse.toArray.push cur).size then (saved.reverse.toArray.push cur).size
             else peakP) hsimple' hrel hsnap
          have hin := step_in prog (enclIs prog J) allTrue allTrue allTrue (region_encl hl J) inp cur.ip
            cur.pos fwd st bts (by simp [enclIs, hJ]) hb
          have hfr := step_frame prog inp cur.ip cur.pos fwd st bts
          generalize Bt.step prog inp cur.ip cur.pos fwd st bts = a at hsim hin hfr ⊢
          generalize Pk.tryMatchState prog inp _ (prog.insns.size + 1) cur fwd (steps + 1) _ = m at hsim ⊢
          have hnolook : ∀ d n sg eg k st' bts', a ≠ .look d n sg eg k st' bts' := by
            intro d n sg eg k st' bts' he
            subst he
            obtain ⟨-, -, i, hi, hl'⟩ := hfr
            rw [hinsn] at hi; cases hi; rw [hlk] at hl'; cases hl'
          have := (after_step_sim ih fwd (steps + 1) (if peakB < bts.size then bts.size else peakB) _
            hrel hJ (by omega) hsim hin hnolook).mono (Nat.le_succ steps)
          cases a with
          | look d n sg eg k st' bts' => exact absurd rfl (hnolook d n sg eg k st' bts')
          | _ => exact this
        | some t =>
          obtain ⟨sg, eg, k⟩ := t
          cases insn <;> simp only [lookOf, Option.some.injEq, Prod.mk.injEq, reduceCtorEq] at hlk
          · next neg sg' eg' k' =>
            obtain ⟨rfl, rfl, rfl⟩ := hlk
            have hB : Bt.step prog inp cur.ip cur.pos fwd st bts = .look true neg sg' eg' k' st bts := by
              unfold Bt.step; simp [hinsn]
            rw [hB, Pk.tryMatchState]
            simp only [hinsn]
            exact (look_sim hs hl ih fwd (steps + 1) _ _ hrel hsnap (by omega) hJ hb hinsn rfl true neg).mono
              (Nat.le_succ steps)
          · next neg sg' eg' k' =>
            obtain ⟨rfl, rfl, rfl⟩ := hlk
            have hB : Bt.step prog inp cur.ip cur.pos fwd st bts = .look false neg sg' eg' k' st bts := by
              unfold Bt.step; simp [hinsn]
            rw [hB, Pk.tryMatchState]
            simp only [hinsn]
            exact (look_sim hs hl ih fwd (steps + 1) _ _ hrel hsnap (by omega) hJ hb hinsn rfl false neg).mono
              (Nat.le_succ steps)

theorem live_zero (prog : Prog) (id : Nat) : live prog id 0 = false := by
  simp [live]

/-- An attempt of the backtracker on a *reused* matcher state `st` (any loop slots whatsoever, groups
cleared — what `BacktrackExecutor` has after `successful_match` or a failed attempt) corresponds to
a fresh attempt of the PikeVM: at address 0 no loop slot is live. -/
theorem attemptWith_sim {prog : Prog} (hs : loopsStructured prog = true) (hl : looksStructured prog = true)
    (hsimple : simpleProg prog = true) {inp : Input} (hok : inpOK inp = true) (fuel pos : Nat)
    (st : Bt.State) (hg : st.groups = (freshState prog 0).groups) (hsz : st.loops.size = prog.loops) :
    OutSim prog none 0 (Bt.attemptWith prog inp fuel pos st) (Pk.attempt prog inp fuel pos) := by
  have hrel : StRel prog (Pk.initState prog pos pos).ip st (Pk.initState prog pos pos) :=
    ⟨by rw [hg]; rfl, by simp [Pk.initState, hsz], fun id h => by simp [Pk.initState, live_zero] at h⟩
  have h := run_sim hs hl hsimple hok fuel fuel true st #[.exhausted] []
    (Pk.initState prog pos pos) 0 0 0 none hrel (.bottom #[] _) (by omega) rfl
    (by intro r hr; simp at hr; subst hr; rfl)
  exact h

/-- The initial configurations of `classicalbacktrack::verif_attempt` and `pikevm::verif_attempt`
are related, hence so are the outcomes of the attempts (with the same tick budget). -/
theorem attempt_sim {prog : Prog} (hs : loopsStructured prog = true) (hl : looksStructured prog = true)
    (hsimple : simpleProg prog = true) {inp : Input} (hok : inpOK inp = true) (fuel pos : Nat) :
    OutSim prog none 0 (Bt.attempt prog inp fuel pos) (Pk.attempt prog inp fuel pos) :=
  attemptWith_sim hs hl hsimple hok fuel pos (freshState prog 0) rfl (by simp [freshState])

end Regress.VM.Sim
