import Proofs.C07
import Proofs.Lemmas.KeystoneTop
/-!
# End to end, part 2: the side conditions of the keystone lemma hold of the parser's output

A second induction over the recursive descent (`consumeDisjunction` / `disjLoop` / `termLoop` /
`consumeAtom`, partial correctness only — totality is C07):

* `kp` — no `Goal`, no `Loop1CharBody`, every back-reference names a group `≥ 1` — holds of every
  node the descent builds;
* the parser's `loop_count` advances by exactly the number of `Loop` nodes built (`numLoops`), so
  the `MAX_LOOPS` check bounds `numLoops`.

`parse` wraps the body as `Cat [body, Goal]` (`make_cat` of two nodes) and `reverse_cats` keeps that
shape (the root is not inside a look-behind), hence `rootOK` — up to the one clause of `kok` the
parser does NOT guarantee: a loop maximum may be the literal `usize::MAX` (`maxOK`, see
`Proofs/EndToEnd.lean`).
-/
namespace Regress.E2E

open Regress Regress.IR Regress.Parse Regress.Keystone

mutual
/-- `kok` without the quantifier clause, and without `Loop1CharBody` (the parser builds none). -/
def kp : Node → Bool
  | .goal => false
  | .cat ns => kpList ns
  | .alt l r => kp l && kp r
  | .group _ _ c => kp c
  | .look _ _ _ _ c => kp c
  | .loop b _ _ _ => kp b
  | .loop1 _ _ => false
  | .backRef g _ => g != 0
  | _ => true
def kpList : List Node → Bool
  | [] => true
  | n :: ns => kp n && kpList ns
end

mutual
/-- No loop maximum is the literal `usize::MAX` (which the engine reads as "unbounded"). -/
def maxOK : Node → Bool
  | .cat ns => maxOKList ns
  | .alt l r => maxOK l && maxOK r
  | .group _ _ c => maxOK c
  | .look _ _ _ _ c => maxOK c
  | .loop b q _ _ => maxOK b && quantBounded q
  | .loop1 b q => maxOK b && quantBounded q
  | _ => true
def maxOKList : List Node → Bool
  | [] => true
  | n :: ns => maxOK n && maxOKList ns
end

mutual
theorem kok_of_kp : ∀ (n : Node), kp n = true → maxOK n = true → kok n = true
  | .cat ns, h, hm => by simp only [kp] at h; simp only [maxOK] at hm; simp only [kok]; exact kokList_of_kp ns h hm
  | .alt l r, h, hm => by
    simp only [kp, Bool.and_eq_true] at h; simp only [maxOK, Bool.and_eq_true] at hm
    simp only [kok, Bool.and_eq_true]; exact ⟨kok_of_kp l h.1 hm.1, kok_of_kp r h.2 hm.2⟩
  | .group _ _ c, h, hm => by simp only [kp] at h; simp only [maxOK] at hm; simp only [kok]; exact kok_of_kp c h hm
  | .look _ _ _ _ c, h, hm => by simp only [kp] at h; simp only [maxOK] at hm; simp only [kok]; exact kok_of_kp c h hm
  | .loop b q _ _, h, hm => by
    simp only [kp] at h; simp only [maxOK, Bool.and_eq_true] at hm
    simp only [kok, Bool.and_eq_true]; exact ⟨kok_of_kp b h hm.1, hm.2⟩
  | .loop1 _ _, h, _ => by simp [kp] at h
  | .goal, h, _ => by simp [kp] at h
  | .backRef _ _, h, _ => by simpa [kp, kok] using h
  | .empty, _, _ => rfl
  | .char _, _, _ => rfl
  | .byteSeq _, _, _ => rfl
  | .byteSet _, _, _ => rfl
  | .charSet _, _, _ => rfl
  | .matchAny, _, _ => rfl
  | .matchAnyExceptLT, _, _ => rfl
  | .anchor _ _, _, _ => rfl
  | .wordBoundary _ _, _, _ => rfl
  | .bracket _, _, _ => rfl
  | .stringSet _ _, _, _ => rfl
theorem kokList_of_kp : ∀ (ns : List Node), kpList ns = true → maxOKList ns = true → kokList ns = true
  | [], _, _ => rfl
  | n :: ns, h, hm => by
    simp only [kpList, Bool.and_eq_true] at h; simp only [maxOKList, Bool.and_eq_true] at hm
    simp only [kokList, Bool.and_eq_true]; exact ⟨kok_of_kp n h.1 hm.1, kokList_of_kp ns h.2 hm.2⟩
end

/-! ## Lists -/

theorem kpList_append (xs ys : List Node) : kpList (xs ++ ys) = (kpList xs && kpList ys) := by
  induction xs with
  | nil => simp [kpList]
  | cons a t ih => simp [kpList, ih, Bool.and_assoc]

theorem kpList_iff (ns : List Node) : kpList ns = true ↔ ∀ n ∈ ns, kp n = true := by
  induction ns with
  | nil => simp [kpList]
  | cons a t ih => simp [kpList, ih]

theorem nLoopsList_append (xs ys : List Node) :
    numLoopsList (xs ++ ys) = numLoopsList xs + numLoopsList ys := by
  induction xs with
  | nil => simp [numLoopsList]
  | cons a t ih => simp [numLoopsList, ih, Nat.add_assoc]

theorem kpList_take_drop (xs : List Node) (k : Nat) (h : kpList xs = true) :
    kpList (xs.take k) = true ∧ kpList (xs.drop k) = true := by
  rw [kpList_iff] at h
  constructor
  · rw [kpList_iff]; exact fun n hn => h n (List.mem_of_mem_take hn)
  · rw [kpList_iff]; exact fun n hn => h n (List.mem_of_mem_drop hn)

theorem nLoopsList_take_drop (xs : List Node) (k : Nat) :
    numLoopsList (xs.take k) + numLoopsList (xs.drop k) = numLoopsList xs := by
  rw [← nLoopsList_append, List.take_append_drop]

/-! ## `make_cat`, `make_alt` -/

theorem makeCat_kp {ns : List Node} (h : kpList ns = true) : kp (makeCat ns) = true := by
  unfold makeCat
  split
  · rfl
  · simpa [kpList] using h
  · simpa only [kp] using h

theorem makeCat_loops (ns : List Node) : numLoops (makeCat ns) = numLoopsList ns := by
  unfold makeCat
  split
  · rfl
  · simp [numLoopsList]
  · rfl

theorem makeAltFuel_kp (fuel : Nat) (ns : List Node) (h : kpList ns = true) :
    kp (makeAltFuel fuel ns) = true := by
  fun_induction makeAltFuel fuel ns
  · rfl
  · simpa [kpList] using h
  · rfl
  · rename_i ih1 ih2
    have := kpList_take_drop _ (by assumption) h
    simp only [kp, Bool.and_eq_true]
    exact ⟨ih1 (kpList_take_drop _ _ h).1, ih2 (kpList_take_drop _ _ h).2⟩

theorem makeAlt_kp {ns : List Node} (h : kpList ns = true) : kp (makeAlt ns) = true := makeAltFuel_kp _ _ h

theorem makeAltFuel_loops (fuel : Nat) (ns : List Node) (h : ns.length ≤ fuel) :
    numLoops (makeAltFuel fuel ns) = numLoopsList ns := by
  fun_induction makeAltFuel fuel ns
  · rfl
  · simp [numLoopsList]
  · rename_i ns hne1 hne2
    match ns, hne1, hne2 with
    | [], h1, _ => exact absurd rfl h1
    | [x], _, h2 => exact absurd rfl (h2 x)
    | _ :: _ :: _, _, _ => simp at h
  · rename_i fuel ns hne1 hne2 hl ih1 ih2
    have hlen : 2 ≤ ns.length := by
      match ns, hne1, hne2 with
      | [], h1, _ => exact absurd rfl h1
      | [x], _, h2 => exact absurd rfl (h2 x)
      | _ :: _ :: _, _, _ => simp
    simp only [numLoops]
    rw [ih1 (by simp; omega), ih2 (by simp; omega), nLoopsList_take_drop]

theorem makeAlt_loops (ns : List Node) : numLoops (makeAlt ns) = numLoopsList ns :=
  makeAltFuel_loops _ _ (Nat.le_refl _)

/-! ## Leaves -/

/-- A node the descent appends that contains neither `Goal` nor a back-reference to group 0 nor a
loop. -/
def Lf (n : Node) : Prop := kp n = true ∧ numLoops n = 0

theorem charNode_lf {fl : Flags} {c : Nat} {n : Node} (h : charNode fl c = .ok n) : Lf n := by
  unfold charNode at h
  split at h
  · cases h; exact ⟨rfl, rfl⟩
  · simp only at h
    split at h <;> first | (cases h; exact ⟨rfl, rfl⟩) | cases h

theorem mkBracket_lf (inv : Bool) (cps : CPS.IvList) : Lf (mkBracket inv cps) := ⟨rfl, rfl⟩

theorem makeBracketClass_lf (ct : ClassType) (p i : Bool) : Lf (makeBracketClass ct p i) := ⟨rfl, rfl⟩

theorem bracketLoop_lf (fl : Flags) (hn inv : Bool) : ∀ (fuel : Nat) (inp : List Nat) (cps : CPS.IvList)
    (n : Node) (rest : List Nat), bracketLoop fl hn inv fuel inp cps = .ok (n, rest) → Lf n := by
  intro fuel
  induction fuel with
  | zero => intro inp cps n rest h; simp [bracketLoop, panicAt] at h
  | succ k ih =>
    intro inp cps n rest h
    unfold bracketLoop at h
    simp only at h
    split at h
    · cases h
    · split at h
      · cases h; exact mkBracket_lf _ _
      · split at h
        · cases h
        · exact ih _ _ _ _ h
        · split at h
          · split at h
            · cases h
            · exact ih _ _ _ _ h
            · split at h
              · split at h
                · cases h
                · exact ih _ _ _ _ h
              · split at h
                · cases h
                · exact ih _ _ _ _ h
          · exact ih _ _ _ _ h

theorem consumeBracket_lf {fl : Flags} {hn : Bool} {inp : List Nat} {n : Node} {rest : List Nat}
    (h : consumeBracket fl hn inp = .ok (n, rest)) : Lf n := by
  unfold consumeBracket at h
  split at h
  · cases h
  · exact bracketLoop_lf _ _ _ _ _ _ _ _ h

theorem altPair_lf {a b : Node} (ha : Lf a) (hb : Lf b) : Lf (makeAlt [a, b]) := by
  refine ⟨makeAlt_kp (by simp [kpList, ha.1, hb.1]), ?_⟩
  rw [makeAlt_loops]; simp [numLoopsList, ha.2, hb.2]

theorem classSetNode_lf (cs : ClassSet) (icase neg : Bool) : Lf (cs.node icase neg) := by
  have hne : ∀ (s : ClassSet), Lf (s.nonemptyNode icase neg) := by
    intro s
    unfold ClassSet.nonemptyNode
    simp only
    generalize (if icase = true then Fold.addIcaseCodePoints s.cps else s.cps) = cp
    by_cases h1 : s.alts.isEmpty = true
    · rw [if_pos h1]; exact mkBracket_lf _ _
    · rw [if_neg h1]
      by_cases h2 : cp.isEmpty = true
      · rw [if_pos h2]; exact ⟨rfl, rfl⟩
      · rw [if_neg h2]; exact altPair_lf ⟨rfl, rfl⟩ (mkBracket_lf _ _)
  unfold ClassSet.node
  simp only
  split
  · exact altPair_lf (hne _) ⟨rfl, rfl⟩
  · exact hne _

/-! ## Back-references name a group `≥ 1` -/

theorem satMul10Add_pos {r d : Nat} (h : 1 ≤ r ∨ 1 ≤ d) : 1 ≤ satMul10Add r d := by
  unfold satMul10Add USIZE_MAX; omega

theorem decimalLoop_pos : ∀ (inp : List Nat) (r k : Nat), 1 ≤ r → 1 ≤ (decimalLoop inp r k).1 := by
  intro inp
  induction inp with
  | nil => intro r k h; simpa [decimalLoop] using h
  | cons c rest ih =>
    intro r k h
    unfold decimalLoop
    split
    · exact ih _ _ (satMul10Add_pos (.inl h))
    · exact h

theorem decimalLiteral_pos {c : Nat} {rest r : List Nat} {g : Nat} (h1 : 0x31 ≤ c) (h2 : c ≤ 0x39)
    (h : decimalLiteral (c :: rest) = (some g, r)) : 1 ≤ g := by
  unfold decimalLiteral at h
  have hd : isAsciiDigit c = true := by simp [isAsciiDigit]; omega
  have := decimalLoop_pos rest (satMul10Add 0 (c - 0x30)) 1 (satMul10Add_pos (.inr (by omega)))
  rw [decimalLoop, if_pos hd] at h
  generalize decimalLoop rest (satMul10Add 0 (c - 0x30)) (0 + 1) = x at h this
  obtain ⟨a, b, c'⟩ := x
  simp only at h this
  split at h
  · cases h; exact this
  · cases h

theorem backRefs_lf (idxs : List Nat) (icase : Bool) :
    kpList (idxs.map fun i => .backRef (i + 1) icase) = true ∧
      numLoopsList (idxs.map fun i => .backRef (i + 1) icase) = 0 := by
  induction idxs with
  | nil => exact ⟨rfl, rfl⟩
  | cons a t ih => simp [kpList, kp, numLoopsList, numLoops, ih.1, ih.2]

theorem consumeAtomEscape_lf {st : PState} {nd : Node} {st' : PState}
    (h : consumeAtomEscape st = .ok (nd, st')) : Lf nd ∧ st'.loopCount = st.loopCount := by
  unfold consumeAtomEscape at h
  simp only at h
  split at h
  · cases h
  · rename_i c rest hinp
    split at h
    · cases h; exact ⟨makeBracketClass_lf _ _ _, rfl⟩
    · split at h
      · cases h; exact ⟨makeBracketClass_lf _ _ _, rfl⟩
      · split at h
        · cases h; exact ⟨makeBracketClass_lf _ _ _, rfl⟩
        · split at h
          · -- \p \P
            split at h
            · cases h
            · split at h
              · cases h; exact ⟨mkBracket_lf _ _, rfl⟩
              · cases h; exact ⟨mkBracket_lf _ _, rfl⟩
            · split at h
              · cases h
              · cases h; exact ⟨⟨rfl, rfl⟩, rfl⟩
          · split at h
            · -- \1 … \9, unicode
              rename_i hc
              simp only [Bool.and_eq_true, decide_eq_true_eq] at hc
              split at h
              · cases h
              · rename_i group rest' hdl
                split at h
                · cases h
                  have := decimalLiteral_pos hc.1.1 hc.1.2 (by rw [← hinp]; exact hdl)
                  refine ⟨⟨?_, rfl⟩, rfl⟩
                  simp [kp]; omega
                · cases h
            · split at h
              · rename_i hc
                simp only [Bool.and_eq_true, decide_eq_true_eq] at hc
                split at h
                · cases h
                · rename_i group rest' hdl
                  split at h
                  · cases h
                    have := decimalLiteral_pos hc.1 hc.2 (by rw [← hinp]; exact hdl)
                    refine ⟨⟨?_, rfl⟩, rfl⟩
                    simp [kp]; omega
                  · split at h
                    · cases h
                    · split at h
                      · cases h
                      · rename_i hcn; cases h; exact ⟨charNode_lf hcn, rfl⟩
              · split at h
                · -- \k<name>
                  split at h
                  · cases h
                  · cases h
                  · split at h
                    · cases h
                    · cases h
                    · cases h; exact ⟨⟨by simp [kp], rfl⟩, rfl⟩
                    · cases h
                      refine ⟨⟨?_, ?_⟩, rfl⟩
                      · simpa only [kp] using (backRefs_lf _ _).1
                      · simpa only [numLoops] using (backRefs_lf _ _).2
                · split at h
                  · split at h
                    · cases h
                    · rename_i hcn; cases h; exact ⟨charNode_lf hcn, rfl⟩
                  · split at h
                    · cases h
                    · split at h
                      · cases h
                      · rename_i hcn; cases h; exact ⟨charNode_lf hcn, rfl⟩

/-! ## The descent -/

def DisjK (st : PState) (p : Node × PState) : Prop :=
  kp p.1 = true ∧ p.2.loopCount = st.loopCount + numLoops p.1

def DLoopK (st : PState) (terms : List Node) (p : List Node × PState) : Prop :=
  kpList p.1 = true ∧ p.2.loopCount + numLoopsList terms = st.loopCount + numLoopsList p.1

def TLoopK (st : PState) (result : List Node) (p : Node × PState) : Prop :=
  kp p.1 = true ∧ p.2.loopCount + numLoopsList result = st.loopCount + numLoops p.1

def AtomK (st : PState) (result : List Node) (out : AtomOut) : Prop :=
  kpList out.result = true ∧ out.st.loopCount + numLoopsList result = st.loopCount + numLoopsList out.result

/-- The induction hypothesis / conclusion of the descent at a given amount of fuel. -/
structure DescK (fuel : Nat) : Prop where
  disj : ∀ st p, consumeDisjunction fuel st = .ok p → DisjK st p
  dloop : ∀ st terms p, kpList terms = true → disjLoop fuel st terms = .ok p → DLoopK st terms p
  tloop : ∀ st result p, kpList result = true → termLoop fuel st result = .ok p → TLoopK st result p
  atom : ∀ st result c out, kpList result = true → consumeAtom fuel st result c = .ok out → AtomK st result out

theorem tryConsume_loopCount (c : Nat) (st : PState) : (tryConsume c st).2.loopCount = st.loopCount := by
  unfold tryConsume
  split
  · split <;> rfl
  · rfl

theorem tryConsumeStr_loopCount (s : List Nat) (st : PState) :
    (tryConsumeStr s st).2.loopCount = st.loopCount := by
  unfold tryConsumeStr
  split <;> rfl

theorem consume_loopCount {st st' : PState} {c : Nat} (h : consume st = .ok (c, st')) :
    st'.loopCount = st.loopCount := by
  unfold consume at h
  split at h
  · cases h
  · cases h; rfl

/-- An `if c then Err(..) else x` that came out `Ok`. -/
theorem ite_err_ok {α : Type} {c : Prop} [Decidable c] {e x : Res α} {p : α} (he : ∀ q, e ≠ .ok q)
    (h : (if c then e else x) = .ok p) : x = .ok p := by
  split at h
  · exact absurd h (he p)
  · exact h

theorem synErr_ne {α : Type} (m : String) (q : α) : (synErr m : Res α) ≠ .ok q := by simp [synErr]
theorem limErr_ne {α : Type} (m : String) (q : α) : (limErr m : Res α) ≠ .ok q := by simp [limErr]
theorem panicAt_ne {α : Type} (m : String) (q : α) : (panicAt m : Res α) ≠ .ok q := by simp [panicAt]

theorem consumeDisjunction_stepK (fuel : Nat) (ih : DescK fuel) (st : PState) (p : Node × PState)
    (h : consumeDisjunction (fuel + 1) st = .ok p) : DisjK st p := by
  rw [consumeDisjunction] at h
  simp only at h
  split at h
  · cases h
  · split at h
    · cases h
    · rename_i terms st2 heq
      cases h
      have := ih.dloop _ _ _ rfl heq
      refine ⟨makeAlt_kp this.1, ?_⟩
      have h2 := this.2
      simp only [numLoopsList] at h2
      show st2.loopCount = st.loopCount + numLoops (makeAlt terms)
      rw [makeAlt_loops]
      exact h2

theorem disjLoop_stepK (fuel : Nat) (ih : DescK fuel) (st : PState) (terms : List Node)
    (p : List Node × PState) (hk : kpList terms = true) (h : disjLoop (fuel + 1) st terms = .ok p) :
    DLoopK st terms p := by
  rw [disjLoop] at h
  split at h
  · cases h
  · rename_i t st1 heq
    have ht := ih.tloop _ _ _ rfl heq
    simp only [TLoopK, numLoopsList, Nat.add_zero] at ht
    have hk' : kpList (terms ++ [t]) = true := by rw [kpList_append]; simp [kpList, hk, ht.1]
    have hc := tryConsume_loopCount 0x7C st1
    split at h
    · rename_i st2 htc
      rw [htc] at hc
      have := ih.dloop _ _ _ hk' h
      refine ⟨this.1, ?_⟩
      have h2 := this.2
      rw [nLoopsList_append] at h2
      simp only [numLoopsList, Nat.add_zero] at h2
      simp only at hc
      have := ht.2
      omega
    · rename_i st2 htc
      rw [htc] at hc
      cases h
      refine ⟨hk', ?_⟩
      rw [nLoopsList_append]
      simp only [numLoopsList, Nat.add_zero]
      simp only at hc
      have := ht.2
      omega

theorem termLoop_stepK (fuel : Nat) (ih : DescK fuel) (st : PState) (result : List Node)
    (p : Node × PState) (hk : kpList result = true) (h : termLoop (fuel + 1) st result = .ok p) :
    TLoopK st result p := by
  rw [termLoop] at h
  simp only at h
  split at h
  · cases h; exact ⟨makeCat_kp hk, by rw [makeCat_loops]⟩
  · split at h
    · cases h; exact ⟨makeCat_kp hk, by rw [makeCat_loops]⟩
    · split at h
      · cases h
      · rename_i c rest hinp hc out hat
        have ha := ih.atom _ _ _ _ hk hat
        split at h
        · cases h
        · have := ih.tloop _ _ _ ha.1 h
          refine ⟨this.1, ?_⟩
          have h1 := this.2
          have h2 := ha.2
          simp only at h1
          omega
        · rename_i quant rest' hq
          replace h := ite_err_ok (synErr_ne _) h
          replace h := ite_err_ok (synErr_ne _) h
          replace h := ite_err_ok (panicAt_ne _) h
          replace h := ite_err_ok (limErr_ne _) h
          have htd := kpList_take_drop out.result out.startOffset ha.1
          have hl := nLoopsList_take_drop out.result out.startOffset
          have hk2 : kpList (List.take out.startOffset out.result ++
              [Node.loop (makeCat (List.drop out.startOffset out.result)) quant st.groupCount
                out.st.groupCount]) = true := by
            rw [kpList_append]
            simp [kpList, kp, htd.1, makeCat_kp htd.2]
          have := ih.tloop _ _ _ hk2 h
          refine ⟨this.1, ?_⟩
          have h1 := this.2
          rw [nLoopsList_append] at h1
          simp only [numLoopsList, numLoops, makeCat_loops, Nat.add_zero] at h1
          have h2 := ha.2
          omega

theorem tryConsume_lc {c : Nat} {st st' : PState} {b : Bool} (h : tryConsume c st = (b, st')) :
    st'.loopCount = st.loopCount := by
  have := tryConsume_loopCount c st; rw [h] at this; exact this

theorem tryConsumeStr_lc {s : List Nat} {st st' : PState} {b : Bool} (h : tryConsumeStr s st = (b, st')) :
    st'.loopCount = st.loopCount := by
  have := tryConsumeStr_loopCount s st; rw [h] at this; exact this

theorem atomK_leaf {st st' : PState} {result : List Node} {nd : Node} {so : Nat} {qa : Bool}
    (hk : kpList result = true) (hn : Lf nd) (hl : st'.loopCount = st.loopCount) :
    AtomK st result ⟨result ++ [nd], st', so, qa⟩ := by
  refine ⟨?_, ?_⟩
  · show kpList (result ++ [nd]) = true
    rw [kpList_append]; simp [kpList, hk, hn.1]
  · show st'.loopCount + numLoopsList result = st.loopCount + numLoopsList (result ++ [nd])
    rw [nLoopsList_append]; simp [numLoopsList, hn.2, hl]

theorem atomK_leaf2 {st st' : PState} {result : List Node} {a b : Node} {so : Nat} {qa : Bool}
    (hk : kpList result = true) (ha : Lf a) (hb : Lf b) (hl : st'.loopCount = st.loopCount) :
    AtomK st result ⟨result ++ [a, b], st', so, qa⟩ := by
  refine ⟨?_, ?_⟩
  · show kpList (result ++ [a, b]) = true
    rw [kpList_append]; simp [kpList, hk, ha.1, hb.1]
  · show st'.loopCount + numLoopsList result = st.loopCount + numLoopsList (result ++ [a, b])
    rw [nLoopsList_append]; simp [numLoopsList, ha.2, hb.2, hl]

theorem atomK_node {st st' : PState} {result : List Node} {nd : Node} {so : Nat} {qa : Bool}
    (hk : kpList result = true) (hn : kp nd = true) (hl : st'.loopCount = st.loopCount + numLoops nd) :
    AtomK st result ⟨result ++ [nd], st', so, qa⟩ := by
  refine ⟨?_, ?_⟩
  · show kpList (result ++ [nd]) = true
    rw [kpList_append]; simp [kpList, hk, hn]
  · show st'.loopCount + numLoopsList result = st.loopCount + numLoopsList (result ++ [nd])
    rw [nLoopsList_append]; simp only [numLoopsList]; omega

theorem two_chars_K {st st' : PState} {fl : Flags} {result : List Node} {so : Nat} {out : AtomOut}
    (hk : kpList result = true)
    (h : (match charNode fl 92, charNode fl 99 with
      | .ok a, .ok b => (.ok ⟨result ++ [a, b], st', so, true⟩ : Res AtomOut)
      | .error e, _ => .error e
      | _, .error e => .error e) = .ok out) (hl : st'.loopCount = st.loopCount) : AtomK st result out := by
  split at h
  · rename_i a b ha hb; cases h; exact atomK_leaf2 hk (charNode_lf ha) (charNode_lf hb) hl
  · cases h
  · cases h

theorem consumeAtom_stepK (fuel : Nat) (ih : DescK fuel) (st : PState) (result : List Node) (c : Nat)
    (out : AtomOut) (hk : kpList result = true) (h : consumeAtom (fuel + 1) st result c = .ok out) :
    AtomK st result out := by
  rw [consumeAtom] at h
  dsimp only at h
  by_cases hc1 : (c == 94) = true
  · rw [if_pos hc1] at h
    -- ^
    split at h
    · cases h
    · rename_i hc; cases h; exact atomK_leaf hk ⟨rfl, rfl⟩ (consume_loopCount hc)
  rw [if_neg hc1] at h
  by_cases hc2 : (c == 36) = true
  · rw [if_pos hc2] at h
    -- $
    split at h
    · cases h
    · rename_i hc; cases h; exact atomK_leaf hk ⟨rfl, rfl⟩ (consume_loopCount hc)
  rw [if_neg hc2] at h
  by_cases hc3 : (c == 92) = true
  · rw [if_pos hc3] at h
    -- backslash
    split at h
    · cases h
    · rename_i c0 st1 hc
      have l1 := consume_loopCount hc
      split at h
      · cases h
      · rename_i e rest hinp
        split at h
        · cases h; exact atomK_leaf hk ⟨rfl, rfl⟩ l1
        split at h
        · cases h; exact atomK_leaf hk ⟨rfl, rfl⟩ l1
        split at h
        · split at h
          · split at h
            · split at h
              · cases h
              · rename_i hcn; cases h; exact atomK_leaf hk (charNode_lf hcn) l1
            · exact two_chars_K hk h l1
          · exact two_chars_K hk h l1
        · split at h
          · cases h
          · rename_i nd st2 hae
            cases h
            have := consumeAtomEscape_lf hae
            exact atomK_leaf hk this.1 (by omega)
  rw [if_neg hc3] at h
  by_cases hc4 : (c == 46) = true
  · rw [if_pos hc4] at h
    -- .
    split at h
    · cases h
    · rename_i hc
      cases h
      refine atomK_leaf hk ?_ (consume_loopCount hc)
      split <;> exact ⟨rfl, rfl⟩
  rw [if_neg hc4] at h
  by_cases hc5 : (c == 40) = true
  · rw [if_pos hc5] at h
    -- (
    split at h
    · rename_i st1 hs1
      have l1 := tryConsumeStr_lc hs1
      split at h
      · cases h
      · rename_i nd st3 qa hinner
        split at hinner
        · cases hinner
        · rename_i contents st2 hcd
          cases hinner
          have hd := ih.disj _ _ hcd
          simp only [DisjK] at hd
          split at h
          · rename_i st4 htc
            cases h
            have l9 := tryConsume_lc htc
            exact atomK_node hk (by simpa only [kp] using hd.1) (by (try simp only [numLoops]); (try dsimp only at *); omega)
          · cases h
    rename_i st1 hs1
    have l1 := tryConsumeStr_lc hs1
    split at h
    · rename_i st2 hs2
      have l2 := tryConsumeStr_lc hs2
      split at h
      · cases h
      · rename_i nd st3 qa hinner
        split at hinner
        · cases hinner
        · rename_i contents st2 hcd
          cases hinner
          have hd := ih.disj _ _ hcd
          simp only [DisjK] at hd
          split at h
          · rename_i st4 htc
            cases h
            have l9 := tryConsume_lc htc
            exact atomK_node hk (by simpa only [kp] using hd.1) (by (try simp only [numLoops]); (try dsimp only at *); omega)
          · cases h
    rename_i st2 hs2
    have l2 := tryConsumeStr_lc hs2
    split at h
    · rename_i st3' hs3
      have l3 := tryConsumeStr_lc hs3
      split at h
      · cases h
      · rename_i nd st3 qa hinner
        split at hinner
        · cases hinner
        · rename_i contents st2 hcd
          cases hinner
          have hd := ih.disj _ _ hcd
          simp only [DisjK] at hd
          split at h
          · rename_i st4 htc
            cases h
            have l9 := tryConsume_lc htc
            exact atomK_node hk (by simpa only [kp] using hd.1) (by (try simp only [numLoops]); (try dsimp only at *); omega)
          · cases h
    rename_i st3' hs3
    have l3 := tryConsumeStr_lc hs3
    split at h
    · rename_i st4' hs4
      have l4 := tryConsumeStr_lc hs4
      split at h
      · cases h
      · rename_i nd st3 qa hinner
        split at hinner
        · cases hinner
        · rename_i contents st2 hcd
          cases hinner
          have hd := ih.disj _ _ hcd
          simp only [DisjK] at hd
          split at h
          · rename_i st4 htc
            cases h
            have l9 := tryConsume_lc htc
            exact atomK_node hk (by simpa only [kp] using hd.1) (by (try simp only [numLoops]); (try dsimp only at *); omega)
          · cases h
    rename_i st4' hs4
    have l4 := tryConsumeStr_lc hs4
    split at h
    · rename_i st5' hs5
      have l5 := tryConsumeStr_lc hs5
      split at h
      · cases h
      · rename_i nd st3 qa hinner
        split at hinner
        · cases hinner
        · rename_i contents st2 hcd
          cases hinner
          have hd := ih.disj _ _ hcd
          simp only [DisjK] at hd
          split at h
          · rename_i st4 htc
            cases h
            have l9 := tryConsume_lc htc
            exact atomK_node hk (by simpa only [kp] using hd.1) (by (try simp only [numLoops]); (try dsimp only at *); omega)
          · cases h
    rename_i st5' hs5
    have l5 := tryConsumeStr_lc hs5
    split at h
    · cases h
    · -- modifier group
      split at h
      · cases h
      · rename_i nd st3 qa hinner
        split at hinner
        · cases hinner
        · rename_i contents st2 hcd
          cases hinner
          have hd := ih.disj _ _ hcd
          simp only [DisjK] at hd
          split at h
          · rename_i st4 htc
            cases h
            have l9 := tryConsume_lc htc
            exact atomK_node hk (by simpa only [kp] using hd.1) (by (try simp only [numLoops]); (try dsimp only at *); omega)
          · cases h
    · -- capturing group
      split at h
      · cases h
      · rename_i c0 st6 hc
        have l6 := consume_loopCount hc
        replace h := ite_err_ok (limErr_ne _) h
        split at h
        · cases h
        · rename_i groupName st7 hnamed
          have l7 : st7.loopCount = st6.loopCount := by
            split at hnamed
            · rename_i st8 hs8
              have l8 := tryConsumeStr_lc hs8
              split at hnamed
              · cases hnamed
              · cases hnamed
              · cases hnamed; exact l8
            · rename_i st8 hs8
              have l8 := tryConsumeStr_lc hs8
              cases hnamed; exact l8
          split at h
          · cases h
          · rename_i nd st3 qa hinner
            split at hinner
            · cases hinner
            · rename_i contents st2 hcd
              cases hinner
              have hd := ih.disj _ _ hcd
              simp only [DisjK] at hd
              split at h
              · rename_i st4 htc
                cases h
                have l9 := tryConsume_lc htc
                exact atomK_node hk (by simpa only [kp] using hd.1) (by (try simp only [numLoops]); (try dsimp only at *); omega)
              · cases h
  rw [if_neg hc5] at h
  by_cases hc6 : (c == 91 && st.flags.unicodeSets) = true
  · rw [if_pos hc6] at h
    -- [ with the v flag
    split at h
    · cases h
    · rename_i c0 st1 hc
      have l1 := consume_loopCount hc
      split at h
      · cases h
      · split at h
        · cases h
        · cases h
          exact atomK_leaf hk (classSetNode_lf _ _ _) (by
            show (tryConsume 94 st1).2.loopCount = st.loopCount
            rw [tryConsume_loopCount]; exact l1)
  rw [if_neg hc6] at h
  by_cases hc7 : (c == 91) = true
  · rw [if_pos hc7] at h
    -- [
    split at h
    · cases h
    · rename_i nd rest hcb; cases h; exact atomK_leaf hk (consumeBracket_lf hcb) rfl
  rw [if_neg hc7] at h
  by_cases hc8 : (c == 123 && !st.flags.unicode) = true
  · rw [if_pos hc8] at h
    -- {
    split at h
    · cases h
    · cases h
    · split at h
      · cases h
      · rename_i cp st1 hc
        split at h
        · cases h
        · rename_i nd hcn; cases h; exact atomK_leaf hk (charNode_lf hcn) (consume_loopCount hc)
  rw [if_neg hc8] at h
  by_cases hc9 : ((c == 42 || c == 43 || c == 63 || c == 93 || c == 123 || c == 125) && st.flags.unicode) = true
  · rw [if_pos hc9] at h
    cases h
  rw [if_neg hc9] at h
  by_cases hc10 : (c == 42 || c == 43 || c == 63) = true
  · rw [if_pos hc10] at h
    cases h
  · rw [if_neg hc10] at h
    split at h
    · cases h
    · rename_i c0 st1 hc
      split at h
      · cases h
      · rename_i nd hcn; cases h; exact atomK_leaf hk (charNode_lf hcn) (consume_loopCount hc)

/-- The descent, for every amount of fuel. -/
theorem descK_all (fuel : Nat) : DescK fuel := by
  induction fuel with
  | zero =>
    exact
      { disj := fun st p h => by simp [consumeDisjunction, panicAt] at h
        dloop := fun st terms p _ h => by simp [disjLoop, panicAt] at h
        tloop := fun st result p _ h => by simp [termLoop, panicAt] at h
        atom := fun st result c out _ h => by simp [consumeAtom, panicAt] at h }
  | succ k ih =>
    exact
      { disj := consumeDisjunction_stepK k ih
        dloop := fun st terms p hk h => disjLoop_stepK k ih st terms p hk h
        tloop := fun st result p hk h => termLoop_stepK k ih st result p hk h
        atom := fun st result c out hk h => consumeAtom_stepK k ih st result c out hk h }

/-! ## `finalize` (`reverse_cats`) -/

theorem kpList_reverse (ns : List Node) : kpList ns.reverse = kpList ns := by
  induction ns with
  | nil => rfl
  | cons x xs ih => simp [List.reverse_cons, kpList_append, kpList, ih, Bool.and_comm]

theorem maxOKList_append (xs ys : List Node) : maxOKList (xs ++ ys) = (maxOKList xs && maxOKList ys) := by
  induction xs with
  | nil => simp [maxOKList]
  | cons a t ih => simp [maxOKList, ih, Bool.and_assoc]

theorem maxOKList_reverse (ns : List Node) : maxOKList ns.reverse = maxOKList ns := by
  induction ns with
  | nil => rfl
  | cons x xs ih => simp [List.reverse_cons, maxOKList_append, maxOKList, ih, Bool.and_comm]

theorem nLoopsList_reverse (ns : List Node) : numLoopsList ns.reverse = numLoopsList ns := by
  induction ns with
  | nil => rfl
  | cons x xs ih => simp only [List.reverse_cons, nLoopsList_append, numLoopsList, ih]; omega

/-- What `reverse_cats` keeps. -/
def SameK (n n' : Node) : Prop :=
  kp n' = kp n ∧ maxOK n' = maxOK n ∧ numLoops n' = numLoops n ∧ numGroups n' = numGroups n

def SameKList (ns ns' : List Node) : Prop :=
  kpList ns' = kpList ns ∧ maxOKList ns' = maxOKList ns ∧ numLoopsList ns' = numLoopsList ns ∧
    numGroupsList ns' = numGroupsList ns

mutual
theorem reverseCats_same : ∀ (b : Bool) (n n' : Node), reverseCats b n = .ok n' → SameK n n'
  | b, .cat ns, n', h => by
    simp only [Parse.reverseCats] at h
    split at h
    · cases h
    · rename_i ns' heq
      cases h
      have := reverseCatsList_same b ns ns' heq
      cases b
      · simpa [SameK, SameKList, kp, maxOK, numLoops, numGroups] using this
      · simp only [SameK, kp, maxOK, numLoops, numGroups, if_true, kpList_reverse, maxOKList_reverse,
          nLoopsList_reverse, numGroupsList_reverse]
        exact this
  | b, .alt l r, n', h => by
    simp only [Parse.reverseCats] at h
    split at h
    · rename_i l' r' hl hr
      cases h
      have h1 := reverseCats_same b l l' hl
      have h2 := reverseCats_same b r r' hr
      simp only [SameK, kp, maxOK, numLoops, numGroups, h1.1, h1.2.1, h1.2.2.1, h1.2.2.2, h2.1, h2.2.1,
        h2.2.2.1, h2.2.2.2, and_self]
    · cases h
    · cases h
  | b, .group id name c, n', h => by
    simp only [Parse.reverseCats] at h
    split at h
    · cases h
    · rename_i c' hc
      cases h
      have h1 := reverseCats_same b c c' hc
      simp only [SameK, kp, maxOK, numLoops, numGroups, h1.1, h1.2.1, h1.2.2.1, h1.2.2.2, and_self]
  | b, .look ng bw sg eg c, n', h => by
    simp only [Parse.reverseCats] at h
    split at h
    · cases h
    · rename_i c' hc
      cases h
      have h1 := reverseCats_same bw c c' hc
      simpa only [SameK, kp, maxOK, numLoops, numGroups] using h1
  | b, .loop l q g0 g1, n', h => by
    simp only [Parse.reverseCats] at h
    split at h
    · cases h
    · rename_i l' hl
      cases h
      have h1 := reverseCats_same b l l' hl
      simp only [SameK, kp, maxOK, numLoops, numGroups, h1.1, h1.2.1, h1.2.2.1, h1.2.2.2, and_self]
  | b, .loop1 l q, n', h => by
    simp only [Parse.reverseCats] at h
    split at h
    · cases h
    · rename_i l' hl
      cases h
      have h1 := reverseCats_same b l l' hl
      simp only [SameK, kp, maxOK, numLoops, numGroups, h1.2.1, h1.2.2.1, h1.2.2.2, and_self]
  | b, .byteSeq bs, n', h => by simp [Parse.reverseCats, panicAt] at h
  | b, .byteSet _, n', h => by simp only [Parse.reverseCats] at h; cases h; exact ⟨rfl, rfl, rfl, rfl⟩
  | b, .empty, n', h => by simp only [Parse.reverseCats] at h; cases h; exact ⟨rfl, rfl, rfl, rfl⟩
  | b, .goal, n', h => by simp only [Parse.reverseCats] at h; cases h; exact ⟨rfl, rfl, rfl, rfl⟩
  | b, .char _, n', h => by simp only [Parse.reverseCats] at h; cases h; exact ⟨rfl, rfl, rfl, rfl⟩
  | b, .charSet _, n', h => by simp only [Parse.reverseCats] at h; cases h; exact ⟨rfl, rfl, rfl, rfl⟩
  | b, .matchAny, n', h => by simp only [Parse.reverseCats] at h; cases h; exact ⟨rfl, rfl, rfl, rfl⟩
  | b, .matchAnyExceptLT, n', h => by simp only [Parse.reverseCats] at h; cases h; exact ⟨rfl, rfl, rfl, rfl⟩
  | b, .anchor _ _, n', h => by simp only [Parse.reverseCats] at h; cases h; exact ⟨rfl, rfl, rfl, rfl⟩
  | b, .wordBoundary _ _, n', h => by simp only [Parse.reverseCats] at h; cases h; exact ⟨rfl, rfl, rfl, rfl⟩
  | b, .backRef _ _, n', h => by simp only [Parse.reverseCats] at h; cases h; exact ⟨rfl, rfl, rfl, rfl⟩
  | b, .bracket _, n', h => by simp only [Parse.reverseCats] at h; cases h; exact ⟨rfl, rfl, rfl, rfl⟩
  | b, .stringSet _ _, n', h => by simp only [Parse.reverseCats] at h; cases h; exact ⟨rfl, rfl, rfl, rfl⟩
theorem reverseCatsList_same : ∀ (b : Bool) (ns ns' : List Node), reverseCatsList b ns = .ok ns' →
    SameKList ns ns'
  | b, [], ns', h => by simp only [reverseCatsList] at h; cases h; exact ⟨rfl, rfl, rfl, rfl⟩
  | b, n :: ns, ns', h => by
    simp only [reverseCatsList] at h
    split at h
    · rename_i n1 ns1 hn hns
      cases h
      have h1 := reverseCats_same b n n1 hn
      have h2 := reverseCatsList_same b ns ns1 hns
      simp only [SameKList, kpList, maxOKList, numLoopsList, numGroupsList, h1.1, h1.2.1, h1.2.2.1,
        h1.2.2.2, h2.1, h2.2.1, h2.2.2.1, h2.2.2.2, and_self]
    · cases h
    · cases h
end

/-! ## `parse` -/

theorem rootOKList_eq (a b : Node) : rootOKList [a, b] = (kok a && rootOK b) := by
  simp [rootOKList]

/-- **The shape of the parser's output**: `Cat [body, Goal]` where `body` contains no `Goal`, no
`Loop1CharBody`, no back-reference to group 0, at most `MAX_LOOPS` loops and at most
`MAX_CAPTURE_GROUPS` capture groups. -/
theorem parse_shape {pat : List Nat} {fl : Flags} {re : Regex} (hb : ∀ c ∈ pat, c ≤ 0x10FFFF)
    (hp : parse pat fl = .ok re) :
    ∃ body, re.node = .cat [body, .goal] ∧ kp body = true ∧ numLoops body ≤ Gen.MAX_LOOPS ∧
      numGroups body ≤ Gen.MAX_CAPTURE_GROUPS := by
  unfold parse at hp
  simp only at hp
  generalize hst0 : ({ input := pat, flags := if fl.unicodeSets = true then
    { icase := fl.icase, multiline := fl.multiline, dotAll := fl.dotAll, noOpt := fl.noOpt, unicode := true,
      unicodeSets := fl.unicodeSets } else fl } : PState) = st0 at hp
  have hi0 : Inv st0 := by
    subst hst0
    exact ⟨by intro e he; simp at he, by simp [Gen.MAX_NESTING_DEPTH], by simp [Gen.MAX_CAPTURE_GROUPS],
      by simp [Gen.MAX_LOOPS], hb⟩
  have hl0 : st0.loopCount = 0 ∧ st0.groupCount = 0 := by subst hst0; exact ⟨rfl, rfl⟩
  unfold tryParse at hp
  split at hp
  · cases hp
  · rename_i st1 hcg
    obtain ⟨h1, h2, h3, h4, h5⟩ := parseCaptureGroups_inv hi0.named hcg
    have hi1 : Inv st1 := ⟨h1, h3 ▸ hi0.depth, h4 ▸ hi0.groups, h5 ▸ hi0.loops, h2 ▸ hi0.bnd⟩
    unfold parseBody at hp
    split at hp
    · cases hp
    · rename_i body st2 hcd
      have hk := (descK_all _).disj _ _ hcd
      have hinv := C07.parser_state_invariant _ _ _ _ hi1 (by unfold parseFuel; omega) hcd
      simp only [DisjK] at hk
      have hloops : numLoops body ≤ Gen.MAX_LOOPS := by
        have := hinv.1.loops; omega
      have hgroups : numGroups body ≤ Gen.MAX_CAPTURE_GROUPS := by
        have := hinv.1.groups; have := hinv.2.2; omega
      split at hp
      · split at hp <;> cases hp
      · unfold finalize at hp
        split at hp
        · split at hp
          · cases hp
          · rename_i n hrev
            cases hp
            have hcat : makeCat [body, Node.goal] = .cat [body, .goal] := rfl
            simp only [hcat, Parse.reverseCats, reverseCatsList] at hrev
            split at hrev
            · cases hrev
            · rename_i ns' hl
              split at hl
              · rename_i b' t' hb' ht'
                cases hl
                cases ht'
                cases hrev
                have hs := reverseCats_same false body b' hb'
                refine ⟨b', rfl, ?_, ?_, ?_⟩
                · rw [hs.1]; exact hk.1
                · rw [hs.2.2.1]; exact hloops
                · rw [hs.2.2.2]; exact hgroups
              · cases hl
              · cases hl
        · cases hp
          exact ⟨body, rfl, hk.1, hloops, hgroups⟩

/-- **The side conditions of the keystone lemma hold of the parser's output**, except that a loop
maximum may be the literal `usize::MAX` (`maxOK`, a decidable property of the parsed tree): `rootOK`,
at most `65535` loops and capture groups. -/
theorem parse_side {pat : List Nat} {fl : Flags} {re : Regex} (hb : ∀ c ∈ pat, c ≤ 0x10FFFF)
    (hp : parse pat fl = .ok re) :
    (maxOK re.node = true → rootOK re.node = true) ∧ numLoops re.node ≤ 65535 ∧ numGroups re.node ≤ 65535 := by
  obtain ⟨body, hn, hk, hl, hg⟩ := parse_shape hb hp
  rw [hn]
  refine ⟨fun hm => ?_, ?_, ?_⟩
  · simp only [maxOK, maxOKList, Bool.and_true] at hm
    simp only [rootOK, rootOKList_eq]
    simp [kok_of_kp body hk hm]
  · simpa [numLoops, numLoopsList, Gen.MAX_LOOPS] using hl
  · simpa [numGroups, numGroupsList, Gen.MAX_CAPTURE_GROUPS] using hg

end Regress.E2E
