import Proofs.Lemmas.LowerIcaseV
/-!
# ES specification ⇒ IR semantics: classes with strings (`\q{…}`, `v` flag)

A class whose CharSet contains strings compiles (specification: `CompileAtom`, steps 4–12; crate:
`ClassSet::node`) to an ordered choice: the strings of more than one character by descending
length, then the single characters, then the empty string.  Every alternative is *deterministic*:
it consumes a fixed number `ℓ` of characters or fails.  Such an ordered choice is determined by the
set of lengths that can be consumed (`tryBelow`): two lists of alternatives that are both sorted by
descending length and offer the same lengths behave the same, whatever the order and multiplicity
of alternatives of equal length.
-/
namespace Regress.Lower

open Regress Regress.IR Regress.VM Regress.Parse Regress.CPS

/-! ## Ordered choice over lengths -/

/-- specification side: try the lengths `n-1, …, 0` for which `P` holds, first non-failure wins -/
def tryBelowES (P : Nat → Bool) (g : Nat → ES.MatchResult) : Nat → ES.MatchResult
  | 0 => .failure
  | n + 1 => if P n then orElse (g n) (tryBelowES P g n) else tryBelowES P g n

/-- engine side -/
def tryBelowIR (P : Nat → Bool) (h : Nat → Option St) : Nat → Option St
  | 0 => none
  | n + 1 => if P n then (h n).or (tryBelowIR P h n) else tryBelowIR P h n

/-- a list of trials (each offers a length or fails), in priority order -/
def tryListES (g : Nat → ES.MatchResult) : List (Option Nat) → ES.MatchResult
  | [] => .failure
  | none :: t => tryListES g t
  | some l :: t => orElse (g l) (tryListES g t)

def tryListIR (h : Nat → Option St) : List (Option Nat) → Option St
  | [] => none
  | none :: t => tryListIR h t
  | some l :: t => (h l).or (tryListIR h t)

/-- the offered lengths do not increase along the list -/
def Desc : List (Option Nat) → Prop
  | [] => True
  | none :: t => Desc t
  | some l :: t => (∀ l', some l' ∈ t → l' ≤ l) ∧ Desc t

theorem orElse_idem (a b : ES.MatchResult) : orElse a (orElse a b) = orElse a b := by
  cases a <;> rfl

theorem or_idem {α} (a b : Option α) : a.or (a.or b) = a.or b := by
  cases a <;> rfl

theorem tryBelowES_congr {P Q : Nat → Bool} (g : Nat → ES.MatchResult) :
    ∀ n, (∀ l, l < n → P l = Q l) → tryBelowES P g n = tryBelowES Q g n
  | 0, _ => rfl
  | n + 1, h => by
    simp only [tryBelowES, h n (Nat.lt_succ_self n), tryBelowES_congr g n (fun l hl => h l (by omega))]

theorem tryBelowIR_congr {P Q : Nat → Bool} (h : Nat → Option St) :
    ∀ n, (∀ l, l < n → P l = Q l) → tryBelowIR P h n = tryBelowIR Q h n
  | 0, _ => rfl
  | n + 1, hh => by
    simp only [tryBelowIR, hh n (Nat.lt_succ_self n), tryBelowIR_congr h n (fun l hl => hh l (by omega))]

theorem tryBelowES_skip {P : Nat → Bool} (g : Nat → ES.MatchResult) (m : Nat) :
    ∀ n, m ≤ n → (∀ l, m ≤ l → l < n → P l = false) → tryBelowES P g n = tryBelowES P g m
  | 0, hm, _ => by have : m = 0 := by omega
                   subst this; rfl
  | n + 1, hm, h => by
    by_cases hmn : m = n + 1
    · subst hmn; rfl
    · simp only [tryBelowES, h n (by omega) (Nat.lt_succ_self n), Bool.false_eq_true, if_false]
      exact tryBelowES_skip g m n (by omega) (fun l h1 h2 => h l h1 (by omega))

theorem tryBelowIR_skip {P : Nat → Bool} (h : Nat → Option St) (m : Nat) :
    ∀ n, m ≤ n → (∀ l, m ≤ l → l < n → P l = false) → tryBelowIR P h n = tryBelowIR P h m
  | 0, hm, _ => by have : m = 0 := by omega
                   subst this; rfl
  | n + 1, hm, hh => by
    by_cases hmn : m = n + 1
    · subst hmn; rfl
    · simp only [tryBelowIR, hh n (by omega) (Nat.lt_succ_self n), Bool.false_eq_true, if_false]
      exact tryBelowIR_skip h m n (by omega) (fun l h1 h2 => hh l h1 (by omega))

/-- A descending trial list is the ordered choice over the set of lengths it offers. -/
theorem tryListES_eq (g : Nat → ES.MatchResult) :
    ∀ (T : List (Option Nat)) (n : Nat), Desc T → (∀ l, some l ∈ T → l < n) →
      tryListES g T = tryBelowES (fun l => T.contains (some l)) g n
  | [], n, _, _ => by
    simp only [tryListES]
    have : ∀ n, tryBelowES (fun _ => false) g n = .failure := by
      intro n; induction n with
      | zero => rfl
      | succ n ih => simp [tryBelowES, ih]
    simpa using (this n).symm
  | none :: t, n, hd, hb => by
    simp only [tryListES]
    rw [tryListES_eq g t n hd (fun l hl => hb l (List.mem_cons_of_mem _ hl))]
    exact tryBelowES_congr g n (fun l _ => by simp)
  | some e :: t, n, hd, hb => by
    have he : e < n := hb e (by simp)
    simp only [tryListES]
    rw [tryListES_eq g t (e + 1) hd.2 (fun l hl => by have := hd.1 l hl; omega)]
    rw [tryBelowES_skip g (e + 1) n (by omega) (fun l h1 h2 => by
      have hne : ¬ (l = e) := by omega
      have : ¬ (some l ∈ t) := fun hm => by have := hd.1 l hm; omega
      simp [hne, this])]
    simp only [tryBelowES, List.contains_cons, beq_self_eq_true, Bool.true_or, if_true]
    have hc : tryBelowES (fun l => some l == some e || t.contains (some l)) g e =
        tryBelowES (fun l => t.contains (some l)) g e :=
      tryBelowES_congr g e (fun l hl => by
        have hne : ¬ (l = e) := by omega
        simp [hne])
    rw [hc]
    by_cases hin : t.contains (some e) = true
    · simp only [hin, if_true, orElse_idem]
    · have hf : t.contains (some e) = false := by simpa using hin
      simp only [hf, Bool.false_eq_true, if_false]

theorem tryListIR_eq (h : Nat → Option St) :
    ∀ (T : List (Option Nat)) (n : Nat), Desc T → (∀ l, some l ∈ T → l < n) →
      tryListIR h T = tryBelowIR (fun l => T.contains (some l)) h n
  | [], n, _, _ => by
    simp only [tryListIR]
    have : ∀ n, tryBelowIR (fun _ => false) h n = none := by
      intro n; induction n with
      | zero => rfl
      | succ n ih => simp [tryBelowIR, ih]
    simpa using (this n).symm
  | none :: t, n, hd, hb => by
    simp only [tryListIR]
    rw [tryListIR_eq h t n hd (fun l hl => hb l (List.mem_cons_of_mem _ hl))]
    exact tryBelowIR_congr h n (fun l _ => by simp)
  | some e :: t, n, hd, hb => by
    have he : e < n := hb e (by simp)
    simp only [tryListIR]
    rw [tryListIR_eq h t (e + 1) hd.2 (fun l hl => by have := hd.1 l hl; omega)]
    rw [tryBelowIR_skip h (e + 1) n (by omega) (fun l h1 h2 => by
      have hne : ¬ (l = e) := by omega
      have : ¬ (some l ∈ t) := fun hm => by have := hd.1 l hm; omega
      simp [hne, this])]
    simp only [tryBelowIR, List.contains_cons, beq_self_eq_true, Bool.true_or, if_true]
    have hc : tryBelowIR (fun l => some l == some e || t.contains (some l)) h e =
        tryBelowIR (fun l => t.contains (some l)) h e :=
      tryBelowIR_congr h e (fun l hl => by
        have hne : ¬ (l = e) := by omega
        simp [hne])
    rw [hc]
    by_cases hin : t.contains (some e) = true
    · simp only [hin, if_true, or_idem]
    · have hf : t.contains (some e) = false := by simpa using hin
      simp only [hf, Bool.false_eq_true, if_false]

/-- Two ordered choices over the same lengths with related continuations are related. -/
theorem resRel_tryBelow {cs : List Nat} {P : Nat → Bool} {g : Nat → ES.MatchResult} {h : Nat → Option St}
    (hgh : ∀ l, P l = true → ResRel cs (g l) (h l)) :
    ∀ n, ResRel cs (tryBelowES P g n) (tryBelowIR P h n)
  | 0 => rfl
  | n + 1 => by
    simp only [tryBelowES, tryBelowIR]
    by_cases hp : P n = true
    · simp only [hp, if_true]
      exact ResRel.alt (hgh n hp) (resRel_tryBelow hgh n)
    · simp only [hp]
      exact resRel_tryBelow hgh n

/-- Two descending trial lists offering the same lengths, with related continuations. -/
theorem resRel_tryList {cs : List Nat} {T1 T2 : List (Option Nat)} {g : Nat → ES.MatchResult}
    {h : Nat → Option St} (h1 : Desc T1) (h2 : Desc T2)
    (hsame : ∀ l, some l ∈ T1 ↔ some l ∈ T2)
    (hgh : ∀ l, some l ∈ T1 → ResRel cs (g l) (h l)) :
    ResRel cs (tryListES g T1) (tryListIR h T2) := by
  -- a common strict bound on the offered lengths
  have hbound : ∃ n, (∀ l, some l ∈ T1 → l < n) ∧ (∀ l, some l ∈ T2 → l < n) := by
    have : ∀ T : List (Option Nat), ∃ n, ∀ l, some l ∈ T → l < n := by
      intro T
      induction T with
      | nil => exact ⟨0, fun l hl => by cases hl⟩
      | cons a t ih =>
        obtain ⟨n, hn⟩ := ih
        cases a with
        | none => exact ⟨n, fun l hl => hn l (by simpa using hl)⟩
        | some e =>
          refine ⟨max n (e + 1), fun l hl => ?_⟩
          rcases List.mem_cons.1 hl with h | h
          · cases h; omega
          · have := hn l h; omega
    obtain ⟨n1, hn1⟩ := this T1
    obtain ⟨n2, hn2⟩ := this T2
    exact ⟨max n1 n2, fun l hl => by have := hn1 l hl; omega, fun l hl => by have := hn2 l hl; omega⟩
  obtain ⟨n, hb1, hb2⟩ := hbound
  rw [tryListES_eq g T1 n h1 hb1, tryListIR_eq h T2 n h2 hb2]
  have hP : ∀ l, T1.contains (some l) = T2.contains (some l) := by
    intro l
    apply bool_eq_of_iff
    simp only [List.contains_iff_mem, hsame]
  rw [tryBelowIR_congr h n (fun l _ => (hP l).symm)]
  exact resRel_tryBelow (fun l hl => hgh l (by simpa using hl)) n


/-! ## One string, without `i`: both sides test "the code points occur here" -/

section
variable {inp : Input} {cs : List Nat}

theorem single_prefix_iff (c : Nat) (k : Nat) :
    [c] <+: cs.drop k ↔ k < cs.length ∧ cs.toArray.getD k 0 = c := by
  by_cases hk : k < cs.length
  · rw [List.drop_eq_getElem_cons hk, List.cons_prefix_cons, toArray_getD cs hk]
    constructor
    · rintro ⟨h, _⟩; exact ⟨hk, h.symm⟩
    · rintro ⟨_, h⟩; exact ⟨h.symm, List.nil_prefix⟩
  · rw [List.drop_eq_nil_of_le (by omega)]
    constructor
    · intro h; have := h.length_le; simp at this
    · rintro ⟨h, _⟩; exact absurd h hk

theorem single_suffix_iff (c : Nat) {k : Nat} (hk : k ≤ cs.length) :
    [c] <:+ cs.take k ↔ 0 < k ∧ cs.toArray.getD (k - 1) 0 = c := by
  cases k with
  | zero =>
    simp only [List.take_zero, Nat.lt_irrefl, false_and, iff_false]
    intro h; have := h.length_le; simp at this
  | succ j =>
    have hlt : j < cs.length := by omega
    rw [List.take_succ_eq_append_getElem hlt, Nat.add_sub_cancel, toArray_getD cs hlt]
    constructor
    · rintro ⟨t, ht⟩
      have := List.append_inj' ht (by simp)
      refine ⟨by omega, ?_⟩
      have h2 := this.2
      simp only [List.cons.injEq, and_true] at h2
      exact h2.symm
    · rintro ⟨_, h⟩
      exact ⟨cs.take j, by rw [h]⟩

/-- `cpStep` without `i`, forward, at the `k`-th boundary. -/
theorem cpStep_noicase_fwd (ht : Utf8Text inp cs) (k c : Nat) (hc : Utf8.isScalar c = true) :
    cpStep inp false true (Utf8.off cs k) c =
      if k < cs.length ∧ cs.toArray.getD k 0 = c then some (Utf8.off cs (k + 1)) else none := by
  have hds : Utf8.AllScalar [c] := fun x hx => by simp at hx; subst hx; exact hc
  have henc : Utf8.encodeAll [c] = Utf8.encode c := by simp
  simp only [cpStep, Fold.expandCodePoint, Bool.not_false, if_true, hc, Input.matchBytes, ht.bytes, ← henc]
  have key := Utf8.matchBytes_iff_chars ht.scalar hds k
  by_cases h : k < cs.length ∧ cs.toArray.getD k 0 = c
  · rw [if_pos h]
    exact (key _).2 ⟨(single_prefix_iff c k).2 h, rfl⟩
  · rw [if_neg h]
    cases hm : Utf8.matchBytes (Utf8.text cs) true (Utf8.off cs k) (Utf8.encodeAll [c]) with
    | none => rfl
    | some e => exact absurd ((single_prefix_iff c k).1 ((key e).1 hm).1) h

theorem cpStep_noicase_bwd (ht : Utf8Text inp cs) {k : Nat} (hk : k ≤ cs.length) (c : Nat)
    (hc : Utf8.isScalar c = true) :
    cpStep inp false false (Utf8.off cs k) c =
      if 0 < k ∧ cs.toArray.getD (k - 1) 0 = c then some (Utf8.off cs (k - 1)) else none := by
  have hds : Utf8.AllScalar [c] := fun x hx => by simp at hx; subst hx; exact hc
  have henc : Utf8.encodeAll [c] = Utf8.encode c := by simp
  simp only [cpStep, Fold.expandCodePoint, Bool.not_false, if_true, hc, Input.matchBytes, ht.bytes, ← henc]
  have key := Utf8.matchBytes_back_iff_chars ht.scalar hds hk
  by_cases h : 0 < k ∧ cs.toArray.getD (k - 1) 0 = c
  · rw [if_pos h]
    exact (key _).2 ⟨(single_suffix_iff c hk).2 h, rfl⟩
  · rw [if_neg h]
    cases hm : Utf8.matchBytes (Utf8.text cs) false (Utf8.off cs k) (Utf8.encodeAll [c]) with
    | none => rfl
    | some e => exact absurd ((single_suffix_iff c hk).1 ((key e).1 hm).1) h

/-- the code points `s` stand at index `k` (forward) / end at index `k` (backward) -/
def occurs (cs : List Nat) (fwd : Bool) (k : Nat) (s : List Nat) : Bool :=
  if fwd then decide (k + s.length ≤ cs.length) && ((cs.drop k).take s.length == s)
  else decide (s.length ≤ k) && decide (k ≤ cs.length) && ((cs.drop (k - s.length)).take s.length == s)

/-- where the cursor is after `len` code points in direction `fwd` -/
def advance (fwd : Bool) (k len : Nat) : Nat := if fwd then k + len else k - len

theorem occurs_cons_fwd (k c : Nat) (s : List Nat) :
    occurs cs true k (c :: s) = (decide (k < cs.length ∧ cs.toArray.getD k 0 = c) && occurs cs true (k + 1) s) := by
  apply bool_eq_of_iff
  simp only [occurs, if_true, List.length_cons, Bool.and_eq_true, decide_eq_true_eq, beq_iff_eq]
  constructor
  · rintro ⟨h1, h2⟩
    have hk : k < cs.length := by omega
    rw [List.drop_eq_getElem_cons hk, List.take_succ_cons] at h2
    simp only [List.cons.injEq] at h2
    refine ⟨⟨hk, by rw [toArray_getD cs hk]; exact h2.1⟩, by omega, h2.2⟩
  · rintro ⟨⟨hk, hc⟩, h1, h2⟩
    refine ⟨by omega, ?_⟩
    rw [List.drop_eq_getElem_cons hk, List.take_succ_cons, h2]
    rw [toArray_getD cs hk] at hc; rw [hc]

/-- `cpSeq` without `i`, forward. -/
theorem cpSeq_noicase_fwd (ht : Utf8Text inp cs) : ∀ (s : List Nat) (k : Nat), k ≤ cs.length → Utf8.AllScalar s →
    stepSeq (cpStep inp false true) s (Utf8.off cs k) =
      if occurs cs true k s then some (Utf8.off cs (k + s.length)) else none
  | [], k, hk, _ => by
    simp [stepSeq, occurs, hk]
  | c :: s, k, hk, hs => by
    have hc : Utf8.isScalar c = true := hs c (by simp)
    have hs' : Utf8.AllScalar s := fun x hx => hs x (by simp [hx])
    simp only [stepSeq, cpStep_noicase_fwd ht k c hc, occurs_cons_fwd]
    by_cases h : k < cs.length ∧ cs.toArray.getD k 0 = c
    · rw [if_pos h]
      simp only [h, and_self, decide_true, Bool.true_and]
      rw [cpSeq_noicase_fwd ht s (k + 1) (by omega) hs']
      simp only [List.length_cons]
      rw [show k + 1 + s.length = k + (s.length + 1) by omega]
    · rw [if_neg h]
      have : decide (k < cs.length ∧ cs.toArray.getD k 0 = c) = false := by simpa using h
      simp only [this, Bool.false_and, Bool.false_eq_true, if_false]


theorem occurs_snoc_bwd (k c : Nat) (s : List Nat) :
    occurs cs false k (s ++ [c]) =
      (decide (0 < k ∧ k ≤ cs.length ∧ cs.toArray.getD (k - 1) 0 = c) && occurs cs false (k - 1) s) := by
  apply bool_eq_of_iff
  simp only [occurs, Bool.false_eq_true, if_false, List.length_append, List.length_cons, List.length_nil,
    Bool.and_eq_true, decide_eq_true_eq, beq_iff_eq]
  constructor
  · rintro ⟨⟨h1, h2⟩, h3⟩
    have hlt : k - 1 < cs.length := by omega
    have hidx : s.length < (cs.drop (k - (s.length + 1))).length := by simp; omega
    rw [List.take_succ_eq_append_getElem hidx] at h3
    have := List.append_inj' h3 (by simp)
    have hc : cs[k - 1] = c := by
      have h4 := this.2
      simp only [List.getElem_drop, List.cons.injEq, and_true] at h4
      rw [← h4]; congr 1; omega
    refine ⟨⟨by omega, h2, by rw [toArray_getD cs hlt]; exact hc⟩, ⟨by omega, by omega⟩, ?_⟩
    rw [show k - 1 - s.length = k - (s.length + 1) by omega]
    exact this.1
  · rintro ⟨⟨hk0, hkl, hc⟩, ⟨h1, _⟩, h3⟩
    have hlt : k - 1 < cs.length := by omega
    rw [toArray_getD cs hlt] at hc
    refine ⟨⟨by omega, hkl⟩, ?_⟩
    have hidx : s.length < (cs.drop (k - (s.length + 1))).length := by simp; omega
    rw [List.take_succ_eq_append_getElem hidx]
    rw [show k - 1 - s.length = k - (s.length + 1) by omega] at h3
    rw [h3]
    congr 1
    simp only [List.getElem_drop, List.cons.injEq, and_true]
    rw [← hc]; congr 1; omega

/-- `cpSeq` without `i`, backward: `r` is the string reversed (the order in which it is emitted). -/
theorem cpSeq_noicase_bwd (ht : Utf8Text inp cs) : ∀ (r : List Nat) (k : Nat), k ≤ cs.length → Utf8.AllScalar r →
    stepSeq (cpStep inp false false) r (Utf8.off cs k) =
      if occurs cs false k r.reverse then some (Utf8.off cs (k - r.length)) else none
  | [], k, hk, _ => by
    simp [stepSeq, occurs, hk]
  | c :: r, k, hk, hs => by
    have hc : Utf8.isScalar c = true := hs c (by simp)
    have hs' : Utf8.AllScalar r := fun x hx => hs x (by simp [hx])
    simp only [stepSeq, cpStep_noicase_bwd ht hk c hc, List.reverse_cons, occurs_snoc_bwd]
    by_cases h : 0 < k ∧ cs.toArray.getD (k - 1) 0 = c
    · rw [if_pos h]
      have h' : (0 < k ∧ k ≤ cs.length ∧ cs.toArray.getD (k - 1) 0 = c) := ⟨h.1, hk, h.2⟩
      simp only [h', and_self, decide_true, Bool.true_and]
      rw [cpSeq_noicase_bwd ht r (k - 1) (by omega) hs']
      simp only [List.length_cons]
      rw [show k - 1 - r.length = k - (r.length + 1) by omega]
    · rw [if_neg h]
      have : decide (0 < k ∧ k ≤ cs.length ∧ cs.toArray.getD (k - 1) 0 = c) = false := by
        simp only [decide_eq_false_iff_not]; exact fun hh => h ⟨hh.1, hh.2.2⟩
      simp only [this, Bool.false_and, Bool.false_eq_true, if_false]

/-- One alternative of a `StringSet` without `i`: the code points occur at the cursor. -/
theorem cpSeq_noicase (ht : Utf8Text inp cs) (fwd : Bool) (s : List Nat) {k : Nat} (hk : k ≤ cs.length)
    (hs : Utf8.AllScalar s) :
    cpSeq inp false fwd s (Utf8.off cs k) =
      if occurs cs fwd k s then some (Utf8.off cs (advance fwd k s.length)) else none := by
  cases fwd with
  | true => simpa [cpSeq, advance] using cpSeq_noicase_fwd ht s k hk hs
  | false =>
    have := cpSeq_noicase_bwd ht s.reverse k hk (fun x hx => hs x (by simpa using hx))
    simpa [cpSeq, advance] using this


theorem occurs_cons_bwd (k c : Nat) (s : List Nat) :
    occurs cs false k (c :: s) =
      (occurs cs false k s && decide (0 < k - s.length ∧ cs.toArray.getD (k - s.length - 1) 0 = c)) := by
  apply bool_eq_of_iff
  simp only [occurs, Bool.false_eq_true, if_false, List.length_cons, Bool.and_eq_true, decide_eq_true_eq,
    beq_iff_eq]
  constructor
  · rintro ⟨⟨h1, h2⟩, h3⟩
    have hlt : k - (s.length + 1) < cs.length := by omega
    rw [List.drop_eq_getElem_cons hlt, List.take_succ_cons] at h3
    simp only [List.cons.injEq] at h3
    refine ⟨⟨⟨by omega, h2⟩, ?_⟩, by omega, ?_⟩
    · rw [show k - s.length = k - (s.length + 1) + 1 by omega]; exact h3.2
    · rw [show k - s.length - 1 = k - (s.length + 1) by omega, toArray_getD cs hlt]; exact h3.1
  · rintro ⟨⟨⟨h1, h2⟩, h3⟩, h4, h5⟩
    have hlt : k - (s.length + 1) < cs.length := by omega
    refine ⟨⟨by omega, h2⟩, ?_⟩
    rw [List.drop_eq_getElem_cons hlt, List.take_succ_cons]
    rw [show k - s.length - 1 = k - (s.length + 1) by omega, toArray_getD cs hlt] at h5
    rw [h5, show k - (s.length + 1) + 1 = k - s.length by omega, h3]

theorem occurs_single_fwd (k c : Nat) :
    occurs cs true k [c] = (decide (k < cs.length) && (cs.toArray.getD k 0 == c)) := by
  rw [occurs_cons_fwd]
  apply bool_eq_of_iff
  simp only [Bool.and_eq_true, decide_eq_true_eq, beq_iff_eq, occurs, if_true, List.length_nil, Nat.add_zero,
    List.take_zero, beq_self_eq_true, and_true]
  constructor
  · rintro ⟨⟨h1, h2⟩, _⟩; exact ⟨h1, h2⟩
  · rintro ⟨h1, h2⟩; exact ⟨⟨h1, h2⟩, by omega⟩

theorem occurs_single_bwd (k c : Nat) :
    occurs cs false k [c] = (decide (0 < k) && decide (k ≤ cs.length) && (cs.toArray.getD (k - 1) 0 == c)) := by
  have := occurs_snoc_bwd (cs := cs) k c []
  simp only [List.nil_append] at this
  rw [this]
  apply bool_eq_of_iff
  simp only [Bool.and_eq_true, decide_eq_true_eq, beq_iff_eq, occurs, Bool.false_eq_true, if_false,
    List.length_nil, Nat.sub_zero, List.take_zero, beq_self_eq_true, and_true, Nat.zero_le, true_and]
  constructor
  · rintro ⟨⟨h1, h2, h3⟩, _⟩; exact ⟨⟨h1, h2⟩, h3⟩
  · rintro ⟨⟨h1, h2⟩, h3⟩; exact ⟨⟨h1, h2, h3⟩, by omega⟩

/-- `CharacterSetMatcher` of one character, without `i`. -/
theorem csm_single_run {rer : ES.RER} (hic : rer.ignoreCase = false) (back : Bool) (c : Nat) (fuel : Nat)
    (x : ES.State) (k : ES.Cont) (hx : x.endIndex ≤ cs.length) :
    (ES.characterSetMatcher cs.toArray rer (ES.CharSet.single c) false (dirOf back)).run fuel x k =
      if occurs cs (!back) x.endIndex [c] then k { x with endIndex := advance (!back) x.endIndex 1 }
      else .failure := by
  cases back with
  | false =>
    simp only [dirOf_false, Bool.not_false, ES.characterSetMatcher, reduceCtorEq, false_and, true_and,
      false_or, if_true, List.size_toArray, advance]
    rw [occurs_single_fwd]
    by_cases hlt : x.endIndex < cs.length
    · have hns : ¬ (x.endIndex + 1 > cs.length) := by omega
      have hmin : min x.endIndex (x.endIndex + 1) = x.endIndex := by omega
      rw [if_neg hns, hmin, existsCanonMember_noicase hic]
      simp only [ES.CharSet.single, hlt, decide_true, Bool.true_and, Bool.false_and, Bool.false_eq_true, if_false]
      cases (cs.toArray.getD x.endIndex 0 == c) <;> rfl
    · have hns : x.endIndex + 1 > cs.length := by omega
      rw [if_pos hns]
      simp only [hlt, decide_false, Bool.false_and, Bool.false_eq_true, if_false]
  | true =>
    simp only [dirOf_true, Bool.not_true, ES.characterSetMatcher, reduceCtorEq, false_and, true_and,
      or_false, if_false, List.size_toArray, advance]
    rw [occurs_single_bwd]
    by_cases h0 : x.endIndex = 0
    · rw [if_pos h0]
      have : ¬ (0 < x.endIndex) := by omega
      simp only [this, decide_false, Bool.false_and, Bool.false_eq_true, if_false]
    · have hmin : min x.endIndex (x.endIndex - 1) = x.endIndex - 1 := by omega
      have hpos : 0 < x.endIndex := by omega
      rw [if_neg h0, hmin, existsCanonMember_noicase hic]
      simp only [ES.CharSet.single, hpos, hx, decide_true, Bool.true_and, Bool.false_and, Bool.false_eq_true,
        if_false]
      cases (cs.toArray.getD (x.endIndex - 1) 0 == c) <;> rfl

/-- The Matcher of one ClassString, without `i`: the code points occur at the cursor. -/
theorem classString_run {rer : ES.RER} (hic : rer.ignoreCase = false) (back : Bool) :
    ∀ (s : List Nat) (fuel : Nat) (x : ES.State) (k : ES.Cont), x.endIndex ≤ cs.length →
      (ES.classStringMatcher cs.toArray rer (dirOf back) s).run fuel x k =
        if occurs cs (!back) x.endIndex s then k { x with endIndex := advance (!back) x.endIndex s.length }
        else .failure
  | [], fuel, x, k, hx => by
    cases back <;> simp [ES.classStringMatcher, ES.emptyMatcher, occurs, advance, hx]
  | [c], fuel, x, k, hx => by
    simp only [ES.classStringMatcher]
    exact csm_single_run hic back c fuel x k hx
  | c :: d :: r, fuel, x, k, hx => by
    simp only [ES.classStringMatcher]
    cases back with
    | false =>
      simp only [dirOf_false, ES.matchSequence, Bool.not_false]
      have h1 := csm_single_run (cs := cs) hic false c fuel x
        (fun y => (ES.classStringMatcher cs.toArray rer .forward (d :: r)).run fuel y k) hx
      simp only [dirOf_false, Bool.not_false] at h1
      rw [h1, occurs_cons_fwd (cs := cs) x.endIndex c (d :: r), occurs_single_fwd]
      by_cases h : x.endIndex < cs.length ∧ cs.toArray.getD x.endIndex 0 = c
      · have hd1 : (decide (x.endIndex < cs.length) && (cs.toArray.getD x.endIndex 0 == c)) = true := by
          simp only [Bool.and_eq_true, decide_eq_true_eq, beq_iff_eq]; exact h
        have hd2 : decide (x.endIndex < cs.length ∧ cs.toArray.getD x.endIndex 0 = c) = true := by
          simp only [decide_eq_true_eq]; exact h
        rw [if_pos hd1, hd2, Bool.true_and]
        have := classString_run hic false (d :: r) fuel { x with endIndex := advance true x.endIndex 1 } k
          (by simp only [advance, if_true]; omega)
        simp only [dirOf_false, Bool.not_false] at this
        rw [this]
        simp only [advance, if_true, List.length_cons]
        by_cases ho : occurs cs true (x.endIndex + 1) (d :: r) = true
        · rw [if_pos ho, if_pos ho]; congr 2; omega
        · rw [if_neg ho, if_neg ho]
      · have hd1 : ¬ ((decide (x.endIndex < cs.length) && (cs.toArray.getD x.endIndex 0 == c)) = true) := by
          simp only [Bool.and_eq_true, decide_eq_true_eq, beq_iff_eq]; exact h
        have hd2 : decide (x.endIndex < cs.length ∧ cs.toArray.getD x.endIndex 0 = c) = false := by
          simp only [decide_eq_false_iff_not]; exact h
        rw [if_neg hd1, hd2, Bool.false_and]
        simp
    | true =>
      simp only [dirOf_true, ES.matchSequence, Bool.not_true]
      have h2 := classString_run hic true (d :: r) fuel x
        (fun y => (ES.characterSetMatcher cs.toArray rer (ES.CharSet.single c) false .backward).run fuel y k) hx
      simp only [dirOf_true, Bool.not_true] at h2
      rw [h2, occurs_cons_bwd (cs := cs) x.endIndex c (d :: r)]
      by_cases ho : occurs cs false x.endIndex (d :: r) = true
      · rw [if_pos ho, ho, Bool.true_and]
        have hle : (d :: r).length ≤ x.endIndex := by
          simp only [occurs, Bool.false_eq_true, if_false, Bool.and_eq_true, decide_eq_true_eq] at ho
          exact ho.1.1
        have h1 := csm_single_run (cs := cs) hic true c fuel
          { x with endIndex := advance false x.endIndex (d :: r).length } k
          (by simp only [advance, Bool.false_eq_true, if_false]; omega)
        simp only [dirOf_true, Bool.not_true] at h1
        rw [h1, occurs_single_bwd]
        simp only [advance, Bool.false_eq_true, if_false]
        by_cases hc : 0 < x.endIndex - (d :: r).length ∧
            cs.toArray.getD (x.endIndex - (d :: r).length - 1) 0 = c
        · have hd1 : (decide (0 < x.endIndex - (d :: r).length) && decide (x.endIndex - (d :: r).length ≤ cs.length)
              && (cs.toArray.getD (x.endIndex - (d :: r).length - 1) 0 == c)) = true := by
            simp only [Bool.and_eq_true, decide_eq_true_eq, beq_iff_eq]
            exact ⟨⟨hc.1, by omega⟩, hc.2⟩
          have hd2 : decide (0 < x.endIndex - (d :: r).length ∧
              cs.toArray.getD (x.endIndex - (d :: r).length - 1) 0 = c) = true := by
            simp only [decide_eq_true_eq]; exact hc
          rw [if_pos hd1, if_pos hd2]
          congr 2
        · have hd1 : ¬ ((decide (0 < x.endIndex - (d :: r).length) &&
              decide (x.endIndex - (d :: r).length ≤ cs.length)
              && (cs.toArray.getD (x.endIndex - (d :: r).length - 1) 0 == c)) = true) := by
            simp only [Bool.and_eq_true, decide_eq_true_eq, beq_iff_eq]
            exact fun hh => hc ⟨hh.1.1, hh.2⟩
          have hd2 : ¬ (decide (0 < x.endIndex - (d :: r).length ∧
              cs.toArray.getD (x.endIndex - (d :: r).length - 1) 0 = c) = true) := by
            simp only [decide_eq_true_eq]; exact hc
          rw [if_neg hd1, if_neg hd2]
      · rw [if_neg ho]
        have : occurs cs false x.endIndex (d :: r) = false := by simpa using ho
        rw [this, Bool.false_and]
        simp

end


/-! ## The ordered choices of both sides as trial lists -/

theorem alternativesOf_run {α} (f : α → ES.Matcher) (t : α → Option Nat) (g : Nat → ES.MatchResult) (fuel : Nat)
    (x : ES.State) (c : ES.Cont) :
    ∀ (L : List α), (∀ a ∈ L, (f a).run fuel x c = match t a with
        | none => .failure
        | some l => g l) →
      (ES.alternativesOf (L.map f)).run fuel x c = tryListES g (L.map t)
  | [], _ => rfl
  | [a], h => by
    have := h a (by simp)
    simp only [List.map_cons, List.map_nil, ES.alternativesOf, tryListES, this]
    cases t a with
    | none => rfl
    | some l => simp [tryListES, orElse]; cases g l <;> rfl
  | a :: b :: r, h => by
    have ha := h a (by simp)
    have ih := alternativesOf_run f t g fuel x c (b :: r) (fun z hz => h z (by simp [hz]))
    simp only [List.map_cons] at ih ⊢
    simp only [ES.alternativesOf, ES.matchTwoAlternatives, ha, ih]
    cases t a with
    | none => simp [tryListES]
    | some l => simp only [tryListES]; rfl

/-- the states a trial list yields, in order -/
def trialStates (cs : List Nat) (st : St) (fwd : Bool) (e : Nat) (T : List (Option Nat)) : List St :=
  T.filterMap (fun o => o.map (fun l => { st with pos := Utf8.off cs (advance fwd e l) }))

theorem findSome?_trialStates (cs : List Nat) (st : St) (fwd : Bool) (e : Nat) (k : St → Option St) :
    ∀ T, (trialStates cs st fwd e T).findSome? k =
      tryListIR (fun l => k { st with pos := Utf8.off cs (advance fwd e l) }) T
  | [] => rfl
  | none :: t => by simp [trialStates, tryListIR, ← findSome?_trialStates cs st fwd e k t]
  | some l :: t => by
    have ih := findSome?_trialStates cs st fwd e k t
    simp only [trialStates] at ih
    simp only [trialStates, List.filterMap_cons, Option.map_some, tryListIR, findSome?_cons_or, ih]

theorem mem_trialStates {cs : List Nat} {st : St} {fwd : Bool} {e l : Nat} {T : List (Option Nat)}
    (h : some l ∈ T) : { st with pos := Utf8.off cs (advance fwd e l) } ∈ trialStates cs st fwd e T := by
  simp only [trialStates, List.mem_filterMap]
  exact ⟨some l, h, rfl⟩

theorem trialStates_append (cs : List Nat) (st : St) (fwd : Bool) (e : Nat) (T1 T2 : List (Option Nat)) :
    trialStates cs st fwd e (T1 ++ T2) = trialStates cs st fwd e T1 ++ trialStates cs st fwd e T2 := by
  simp [trialStates]

section
variable {inp : Input} {cs : List Nat}

/-- the trial a string offers -/
def strTrial (cs : List Nat) (fwd : Bool) (e : Nat) (s : List Nat) : Option Nat :=
  if occurs cs fwd e s then some s.length else none

theorem sem_stringSet_noicase (ht : Utf8Text inp cs) (fwd : Bool) (st : St) {e : Nat} (he : e ≤ cs.length)
    (hpos : st.pos = Utf8.off cs e) :
    ∀ (alts : List (List Nat)), (∀ a ∈ alts, Utf8.AllScalar a) →
      sem inp (.stringSet alts false) fwd st = trialStates cs st fwd e (alts.map (strTrial cs fwd e)) := by
  intro alts hsc
  simp only [sem]
  induction alts with
  | nil => rfl
  | cons a t ih =>
    have iht := ih (fun b hb => hsc b (by simp [hb]))
    simp only [List.flatMap_cons, List.map_cons, iht]
    rw [hpos, cpSeq_noicase ht fwd a he (hsc a (by simp))]
    simp only [trialStates, List.filterMap_cons, strTrial]
    by_cases ho : occurs cs fwd e a = true
    · simp [ho, optSt]
    · have : occurs cs fwd e a = false := by simpa using ho
      simp [this, optSt]

/-- the trial of the bracket: one character, if it passes the test -/
def charTrial (cs : List Nat) (fwd : Bool) (e : Nat) (test : Nat → Bool) : Option Nat :=
  if fwd then (if e < cs.length ∧ test (cs.toArray.getD e 0) = true then some 1 else none)
  else (if 0 < e ∧ test (cs.toArray.getD (e - 1) 0) = true then some 1 else none)

theorem sem_bracket_trial (ht : Utf8Text inp cs) (fwd : Bool) (st : St) {e : Nat} (he : e ≤ cs.length)
    (hpos : st.pos = Utf8.off cs e) (ir : Node) (test : Nat → Bool)
    (hsem : sem inp ir fwd st = optSt st (charStep inp fwd st.pos test)) :
    sem inp ir fwd st = trialStates cs st fwd e [charTrial cs fwd e test] := by
  rw [hsem, hpos]
  cases fwd with
  | true =>
    by_cases hlt : e < cs.length
    · rw [charStep_fwd_at ht hlt test]
      simp only [charTrial, if_true, hlt, true_and, toArray_getD cs hlt, trialStates, advance]
      cases test cs[e] <;> simp [optSt]
    · have : e = cs.length := by omega
      subst this
      rw [charStep_fwd_end ht test]
      simp [charTrial, trialStates, optSt]
  | false =>
    by_cases h0 : 0 < e
    · rw [charStep_bwd_at ht h0 he test]
      have hlt : e - 1 < cs.length := by omega
      simp only [charTrial, Bool.false_eq_true, if_false, h0, true_and, toArray_getD cs hlt, trialStates, advance]
      cases test (cs[e - 1]'hlt) <;> simp [optSt]
    · have : e = 0 := by omega
      subst this
      have := charStep_bwd_start ht test
      rw [Utf8.off_zero] at this ⊢
      rw [this]
      simp [charTrial, trialStates, optSt]

end


/-! ## `sort_by` length (descending) -/

theorem mem_insertByLenDesc (x a : List Nat) : ∀ (l : List (List Nat)), a ∈ insertByLenDesc x l ↔ a = x ∨ a ∈ l
  | [] => by simp [insertByLenDesc]
  | y :: ys => by
    simp only [insertByLenDesc]
    split
    · simp
    · simp only [List.mem_cons, mem_insertByLenDesc x a ys]
      constructor
      · rintro (h | h | h)
        · exact Or.inr (Or.inl h)
        · exact Or.inl h
        · exact Or.inr (Or.inr h)
      · rintro (h | h | h)
        · exact Or.inr (Or.inl h)
        · exact Or.inl h
        · exact Or.inr (Or.inr h)

theorem mem_sortByLenDesc (a : List Nat) (l : List (List Nat)) : a ∈ sortByLenDesc l ↔ a ∈ l := by
  unfold sortByLenDesc
  have : ∀ (l acc : List (List Nat)), a ∈ l.foldl (fun acc x => insertByLenDesc x acc) acc ↔ a ∈ l ∨ a ∈ acc := by
    intro l
    induction l with
    | nil => intro acc; simp
    | cons x t ih =>
      intro acc
      simp only [List.foldl_cons, ih, mem_insertByLenDesc, List.mem_cons]
      constructor
      · rintro (h | h | h)
        · exact Or.inl (Or.inr h)
        · exact Or.inl (Or.inl h)
        · exact Or.inr h
      · rintro ((h | h) | h)
        · exact Or.inr (Or.inl h)
        · exact Or.inl h
        · exact Or.inr (Or.inr h)
  simpa using this l []

theorem pairwise_insertByLenDesc (x : List Nat) : ∀ (l : List (List Nat)),
    l.Pairwise (fun a b => b.length ≤ a.length) → (insertByLenDesc x l).Pairwise (fun a b => b.length ≤ a.length)
  | [], _ => by simp [insertByLenDesc]
  | y :: ys, h => by
    obtain ⟨h1, h2⟩ := List.pairwise_cons.1 h
    simp only [insertByLenDesc]
    split
    · rename_i hlt
      refine List.pairwise_cons.2 ⟨fun b hb => ?_, h⟩
      rcases List.mem_cons.1 hb with rfl | hb
      · omega
      · have := h1 b hb; omega
    · rename_i hge
      refine List.pairwise_cons.2 ⟨fun b hb => ?_, pairwise_insertByLenDesc x ys h2⟩
      rcases (mem_insertByLenDesc x b ys).1 hb with rfl | hb
      · omega
      · exact h1 b hb

theorem pairwise_sortByLenDesc (l : List (List Nat)) :
    (sortByLenDesc l).Pairwise (fun a b => b.length ≤ a.length) := by
  unfold sortByLenDesc
  have : ∀ (l acc : List (List Nat)), acc.Pairwise (fun a b => b.length ≤ a.length) →
      (l.foldl (fun acc x => insertByLenDesc x acc) acc).Pairwise (fun a b => b.length ≤ a.length) := by
    intro l
    induction l with
    | nil => intro acc h; exact h
    | cons x t ih => intro acc h; exact ih _ (pairwise_insertByLenDesc x acc h)
  exact this l [] List.Pairwise.nil

/-! ## Descending trial lists -/

theorem mem_map_strTrial {cs : List Nat} {fwd : Bool} {e l : Nat} {L : List (List Nat)} :
    some l ∈ L.map (strTrial cs fwd e) ↔ ∃ a ∈ L, occurs cs fwd e a = true ∧ a.length = l := by
  simp only [List.mem_map, strTrial]
  constructor
  · rintro ⟨a, ha, h⟩
    split at h
    · rename_i ho; exact ⟨a, ha, ho, by simpa using h⟩
    · cases h
  · rintro ⟨a, ha, ho, hl⟩
    exact ⟨a, ha, by simp [ho, hl]⟩

theorem desc_strTrials {cs : List Nat} {fwd : Bool} {e : Nat} (m : Nat) (R : List (Option Nat)) :
    ∀ (L : List (List Nat)), L.Pairwise (fun a b => b.length ≤ a.length) → (∀ a ∈ L, m ≤ a.length) →
      Desc R → (∀ l, some l ∈ R → l ≤ m) → Desc (L.map (strTrial cs fwd e) ++ R)
  | [], _, _, hR, _ => hR
  | a :: t, hp, hm, hR, hRm => by
    obtain ⟨h1, h2⟩ := List.pairwise_cons.1 hp
    have ih := desc_strTrials (cs := cs) (fwd := fwd) (e := e) m R t h2 (fun b hb => hm b (by simp [hb])) hR hRm
    simp only [List.map_cons, List.cons_append, strTrial]
    split
    · refine ⟨fun l' hl' => ?_, ih⟩
      rcases List.mem_append.1 hl' with h | h
      · obtain ⟨b, hb, _, rfl⟩ := mem_map_strTrial.1 h
        exact h1 b hb
      · have := hRm l' h; have := hm a (by simp); omega
    · exact ih

theorem desc_tail (tb : Option Nat) (hasEmpty : Bool) (htb : ∀ l, tb = some l → l = 1) :
    Desc ([tb] ++ (if hasEmpty then [some 0] else [])) ∧
      ∀ l, some l ∈ [tb] ++ (if hasEmpty then [some 0] else []) → l ≤ 2 := by
  cases tb with
  | none => cases hasEmpty <;> simp [Desc]
  | some l =>
    have := htb l rfl
    subst this
    cases hasEmpty <;> simp [Desc]


/-! ## A class with strings: the two sides -/

section
variable {inp : Input} {cs : List Nat}

/-- `CharacterSetMatcher(rer, A, false, direction)` without `i`, as a one-character trial. -/
theorem csm_run {rer : ES.RER} (hic : rer.ignoreCase = false) (A : ES.CharSet) (back : Bool) (fuel : Nat)
    (x : ES.State) (k : ES.Cont) (hx : x.endIndex ≤ cs.length) :
    (ES.characterSetMatcher cs.toArray rer A false (dirOf back)).run fuel x k =
      match charTrial cs (!back) x.endIndex A.chars with
      | none => .failure
      | some l => k { x with endIndex := advance (!back) x.endIndex l } := by
  cases back with
  | false =>
    simp only [dirOf_false, Bool.not_false, ES.characterSetMatcher, reduceCtorEq, false_and, true_and,
      false_or, if_true, List.size_toArray, charTrial]
    by_cases hlt : x.endIndex < cs.length
    · have hns : ¬ (x.endIndex + 1 > cs.length) := by omega
      have hmin : min x.endIndex (x.endIndex + 1) = x.endIndex := by omega
      rw [if_neg hns, hmin, existsCanonMember_noicase hic]
      simp only [hlt, true_and, Bool.true_and, Bool.false_and, Bool.false_eq_true, if_false, advance, if_true]
      cases A.chars (cs.toArray.getD x.endIndex 0) <;> simp
    · have hns : x.endIndex + 1 > cs.length := by omega
      rw [if_pos hns]
      simp [hlt]
  | true =>
    simp only [dirOf_true, Bool.not_true, ES.characterSetMatcher, reduceCtorEq, false_and, true_and,
      or_false, if_false, List.size_toArray, charTrial, Bool.false_eq_true]
    by_cases h0 : x.endIndex = 0
    · rw [if_pos h0]
      simp [h0]
    · have hmin : min x.endIndex (x.endIndex - 1) = x.endIndex - 1 := by omega
      have hpos : 0 < x.endIndex := by omega
      rw [if_neg h0, hmin, existsCanonMember_noicase hic]
      simp only [hpos, true_and, Bool.true_and, Bool.false_and, Bool.false_eq_true, if_false, advance]
      cases A.chars (cs.toArray.getD (x.endIndex - 1) 0) <;> simp

/-- the alternatives of `CompileAtom` for a class with strings -/
inductive Trial where
  | str (s : List Nat)
  | single
  | empty

def Trial.matcher (input : Array Nat) (rer : ES.RER) (A : ES.CharSet) (d : ES.Direction) : Trial → ES.Matcher
  | .str s => ES.classStringMatcher input rer d s
  | .single => ES.characterSetMatcher input rer { chars := A.chars } false d
  | .empty => ES.emptyMatcher

def Trial.offer (cs : List Nat) (fwd : Bool) (e : Nat) (P : Nat → Bool) : Trial → Option Nat
  | .str s => strTrial cs fwd e s
  | .single => charTrial cs fwd e P
  | .empty => some 0

/-- The specification's Matcher of a class (with or without strings), without `i`, as a trial list. -/
theorem charSetAtom_trials {rer : ES.RER} (hic : rer.ignoreCase = false) (hus : rer.unicodeSets = true)
    (A : ES.CharSet) (back : Bool) (fuel : Nat) (x : ES.State) (c : ES.Cont) (hx : x.endIndex ≤ cs.length) :
    (ES.charSetAtomMatcher cs.toArray rer A false (dirOf back)).run fuel x c =
      tryListES (fun l => c { x with endIndex := advance (!back) x.endIndex l })
        (((A.strs.filter (fun s => s.length > 1)).mergeSort (fun s t => s.length ≥ t.length)).map
            (strTrial cs (!back) x.endIndex) ++
          [charTrial cs (!back) x.endIndex A.chars] ++ (if A.strs.contains [] then [some 0] else [])) := by
  simp only [ES.charSetAtomMatcher, hus, Bool.not_true, Bool.false_or]
  by_cases hs : A.onlySingles = true
  · simp only [hs, if_true]
    have hnil : A.strs = [] := by simpa [ES.CharSet.onlySingles] using hs
    rw [csm_run hic A back fuel x c hx, hnil]
    simp only [List.filter_nil, List.mergeSort_nil, List.map_nil, List.nil_append, List.contains_nil,
      Bool.false_eq_true, if_false, List.append_nil, tryListES]
    cases charTrial cs (!back) x.endIndex A.chars with
    | none => rfl
    | some l => simp [tryListES, orElse]; cases c { x with endIndex := advance (!back) x.endIndex l } <;> rfl
  · simp only [hs, Bool.false_eq_true, if_false]
    -- the list of matchers as the image of a list of trials
    let long := (A.strs.filter (fun s => s.length > 1)).mergeSort (fun s t => s.length ≥ t.length)
    let L : List Trial := long.map Trial.str ++ [Trial.single] ++ (if A.strs.contains [] then [Trial.empty] else [])
    have hms : (if A.strs.contains [] = true then
          long.map (ES.classStringMatcher cs.toArray rer (dirOf back)) ++
            [ES.characterSetMatcher cs.toArray rer { chars := A.chars } false (dirOf back)] ++ [ES.emptyMatcher]
        else long.map (ES.classStringMatcher cs.toArray rer (dirOf back)) ++
            [ES.characterSetMatcher cs.toArray rer { chars := A.chars } false (dirOf back)]) =
        L.map (Trial.matcher cs.toArray rer A (dirOf back)) := by
      simp only [L]
      split <;> simp [Trial.matcher, List.map_append, Function.comp_def]
    have hT : long.map (strTrial cs (!back) x.endIndex) ++ [charTrial cs (!back) x.endIndex A.chars] ++
          (if A.strs.contains [] then [some 0] else []) =
        L.map (Trial.offer cs (!back) x.endIndex A.chars) := by
      simp only [L]
      split <;> simp [Trial.offer, List.map_append, Function.comp_def]
    show (ES.alternativesOf (if A.strs.contains [] = true then _ else _)).run fuel x c = _
    rw [hms, hT]
    apply alternativesOf_run
    intro a _
    cases a with
    | str s =>
      simp only [Trial.matcher, Trial.offer, strTrial]
      rw [classString_run hic back s fuel x c hx]
      split <;> rfl
    | single =>
      simp only [Trial.matcher, Trial.offer]
      exact csm_run hic { chars := A.chars } back fuel x c hx
    | empty =>
      simp only [Trial.matcher, Trial.offer, ES.emptyMatcher]
      congr 1
      cases back <;> simp [advance]

end


section
variable {inp : Input} {cs : List Nat}

theorem makeAlt_two (a b : Node) : makeAlt [a, b] = .alt a b := by
  simp [makeAlt, makeAltFuel]

theorem charTrial_empty (fwd : Bool) (e : Nat) :
    charTrial cs fwd e (bracketTest { invert := false, ivs := pairsOfIvs [] }) = none := by
  cases fwd <;> simp [charTrial, bracketTest, pairsOfIvs]

theorem sem_alt (inp : Input) (l r : Node) (fwd : Bool) (st : St) :
    sem inp (.alt l r) fwd st = sem inp l fwd st ++ sem inp r fwd st := by simp only [sem]

theorem trialStates_zero (st : St) (fwd : Bool) {e : Nat} (hpos : st.pos = Utf8.off cs e) (T : List (Option Nat)) :
    trialStates cs st fwd e (T ++ [some 0]) = trialStates cs st fwd e T ++ [st] := by
  rw [trialStates_append]
  congr 1
  simp only [trialStates, List.filterMap_cons, Option.map_some, List.filterMap_nil, advance]
  have : (if fwd = true then e + 0 else e - 0) = e := by cases fwd <;> simp
  rw [this, ← hpos]

theorem trialStates_none (st : St) (fwd : Bool) (e : Nat) (T : List (Option Nat)) :
    trialStates cs st fwd e (T ++ [none]) = trialStates cs st fwd e T := by
  simp [trialStates]

/-- The successes of `ClassSet::node` (no `i`, not negated) as a trial list: the strings by
descending length, the bracket, the empty string. -/
theorem node_trials (ht : Utf8Text inp cs) (fwd : Bool) (st : St) {e : Nat} (he : e ≤ cs.length)
    (hpos : st.pos = Utf8.off cs e) (s : ClassSet) (hsc : ∀ a ∈ s.alts, Utf8.AllScalar a)
    (hlen1 : ∀ a ∈ s.alts, a.length ≠ 1) :
    sem inp (s.node false false) fwd st =
      trialStates cs st fwd e
        ((sortByLenDesc (s.alts.filter (fun a => !a.isEmpty))).map (strTrial cs fwd e) ++
          [charTrial cs fwd e (bracketTest { invert := false, ivs := pairsOfIvs s.cps })] ++
          (if s.alts.any (fun a => a.isEmpty) then [some 0] else [])) := by
  have hsc' : ∀ a ∈ sortByLenDesc (s.alts.filter (fun a => !a.isEmpty)), Utf8.AllScalar a := by
    intro a ha
    rw [mem_sortByLenDesc] at ha
    exact hsc a (List.mem_filter.1 ha).1
  have hstr := sem_stringSet_noicase ht fwd st he hpos _ hsc'
  have hbr : sem inp (mkBracket false s.cps) fwd st =
      trialStates cs st fwd e [charTrial cs fwd e (bracketTest { invert := false, ivs := pairsOfIvs s.cps })] :=
    sem_bracket_trial ht fwd st he hpos _ _ (by simp only [mkBracket, sem])
  -- the node without the empty alternative
  have h0 : sem inp (({ s with alts := s.alts.filter (fun a => !a.isEmpty) } : ClassSet).nonemptyNode false false)
        fwd st =
      trialStates cs st fwd e
        ((sortByLenDesc (s.alts.filter (fun a => !a.isEmpty))).map (strTrial cs fwd e) ++
          [charTrial cs fwd e (bracketTest { invert := false, ivs := pairsOfIvs s.cps })]) := by
    simp only [ClassSet.nonemptyNode, Bool.false_eq_true, if_false]
    by_cases h1 : (s.alts.filter (fun a => !a.isEmpty)).isEmpty = true
    · have hnil : s.alts.filter (fun a => !a.isEmpty) = [] := by simpa using h1
      rw [hnil]
      simp only [List.isEmpty_nil, if_true]
      rw [hbr]; simp [sortByLenDesc]
    · simp only [h1, Bool.false_eq_true, if_false]
      by_cases h2 : s.cps.isEmpty = true
      · have hnil : s.cps = [] := by simpa using h2
        simp only [h2, if_true, altsIntoNode]
        rw [hstr, hnil, charTrial_empty, trialStates_none]
      · simp only [h2, Bool.false_eq_true, if_false, makeAlt_two, altsIntoNode]
        rw [sem_alt, hstr, hbr, trialStates_append]
  rw [node_eq s false false hlen1]
  by_cases hE : s.alts.any (fun a => a.isEmpty) = true
  · simp only [hE, if_true, makeAlt_two]
    rw [sem_alt, h0, trialStates_zero st fwd hpos]
    simp only [sem]
  · simp only [hE, Bool.false_eq_true, if_false, List.append_nil]
    exact h0

end


section
variable {inp : Input} {cs : List Nat}

theorem charTrial_congr (ht : Utf8Text inp cs) (fwd : Bool) (e : Nat) {P Q : Nat → Bool}
    (h : ∀ ch, ch ≤ 0x10FFFF → P ch = Q ch) : charTrial cs fwd e P = charTrial cs fwd e Q := by
  cases fwd with
  | true =>
    simp only [charTrial, if_true]
    by_cases hlt : e < cs.length
    · have := h _ (isScalar_le' (ht.scalar _ (List.getElem_mem hlt)))
      rw [toArray_getD cs hlt, this]
    · simp [hlt]
  | false =>
    simp only [charTrial, Bool.false_eq_true, if_false]
    by_cases h0 : 0 < e
    · by_cases hlt : e - 1 < cs.length
      · have := h _ (isScalar_le' (ht.scalar _ (List.getElem_mem hlt)))
        rw [toArray_getD cs hlt, this]
      · have hz : cs.toArray.getD (e - 1) 0 = 0 := by
          simp [Array.getD]; omega
        rw [hz, h 0 (by omega)]
    · simp [h0]

theorem charTrial_one {fwd : Bool} {e l : Nat} {P : Nat → Bool} (h : charTrial cs fwd e P = some l) : l = 1 := by
  cases fwd <;> simp only [charTrial, if_true, Bool.false_eq_true, if_false] at h <;> split at h <;> simp_all

theorem charTrial_bound {fwd : Bool} {e l : Nat} {P : Nat → Bool} (he : e ≤ cs.length)
    (h : charTrial cs fwd e P = some l) : advance fwd e l ≤ cs.length := by
  have hl := charTrial_one h
  subst hl
  cases fwd <;> simp only [charTrial, if_true, Bool.false_eq_true, if_false, advance] at h ⊢ <;> split at h <;>
    first | omega | cases h

theorem occurs_bound {fwd : Bool} {e : Nat} {a : List Nat} (he : e ≤ cs.length)
    (h : occurs cs fwd e a = true) : advance fwd e a.length ≤ cs.length := by
  cases fwd <;>
    simp only [occurs, if_true, Bool.false_eq_true, if_false, Bool.and_eq_true, decide_eq_true_eq, advance] at h ⊢ <;>
    omega

/-- **A `v`-mode class with strings, without `i`.** -/
theorem sim_stringClass (ht : Utf8Text inp cs) (total : Nat) (rer : ES.RER) (hic : rer.ignoreCase = false)
    (hus : rer.unicodeSets = true) (A : ES.CharSet) (s : ClassSet) (hden : Den A.chars s.cps)
    (hsrel : ∀ str, str ∈ A.strs ↔ str ∈ s.alts) (hlen1 : ∀ str ∈ s.alts, str.length ≠ 1)
    (hsc : ∀ a ∈ s.alts, Utf8.AllScalar a) (back : Bool) (lo hi : Nat) :
    Sim inp cs total (ES.charSetAtomMatcher cs.toArray rer A false (dirOf back)) (s.node false false) (!back) lo hi := by
  intro fuel x st c k hr _ _ hc
  have he := hr.idx
  rw [charSetAtom_trials hic hus A back fuel x c he, node_trials ht (!back) st he hr.pos s hsc hlen1,
    findSome?_trialStates]
  -- the two lists of strings have the same members
  have hmem : ∀ a, a ∈ (A.strs.filter (fun s => s.length > 1)).mergeSort (fun s t => s.length ≥ t.length) ↔
      a ∈ sortByLenDesc (s.alts.filter (fun a => !a.isEmpty)) := by
    intro a
    rw [List.mem_mergeSort, mem_sortByLenDesc, List.mem_filter, List.mem_filter, hsrel]
    constructor
    · rintro ⟨h1, h2⟩
      refine ⟨h1, ?_⟩
      simp only [decide_eq_true_eq] at h2
      cases a with
      | nil => simp at h2
      | cons _ _ => rfl
    · rintro ⟨h1, h2⟩
      refine ⟨h1, ?_⟩
      have := hlen1 a h1
      cases a with
      | nil => simp at h2
      | cons b t => simp only [List.length_cons, decide_eq_true_eq] at this ⊢; omega
  have htb : charTrial cs (!back) x.endIndex A.chars =
      charTrial cs (!back) x.endIndex (bracketTest { invert := false, ivs := pairsOfIvs s.cps }) :=
    charTrial_congr ht _ _ (fun ch hch => by rw [bracketTest_den hden false hch]; simp)
  have hE : A.strs.contains [] = s.alts.any (fun a => a.isEmpty) := by
    apply bool_eq_of_iff
    simp only [List.contains_iff_mem, hsrel, List.any_eq_true, List.isEmpty_iff]
    constructor
    · intro h; exact ⟨[], h, rfl⟩
    · rintro ⟨a, ha, rfl⟩; exact ha
  rw [htb, hE]
  -- both lists are descending
  have hpw : ((A.strs.filter (fun s => s.length > 1)).mergeSort (fun s t => s.length ≥ t.length)).Pairwise
      (fun a b => b.length ≤ a.length) := by
    have := List.pairwise_mergeSort (le := fun (s t : List Nat) => decide (s.length ≥ t.length))
      (fun a b c h1 h2 => by simp only [decide_eq_true_eq] at *; omega)
      (fun a b => by simp only [Bool.or_eq_true, decide_eq_true_eq]; omega)
      (A.strs.filter (fun s => s.length > 1))
    exact this.imp (fun h => by simpa using h)
  have htail := desc_tail (charTrial cs (!back) x.endIndex (bracketTest { invert := false, ivs := pairsOfIvs s.cps }))
    (s.alts.any (fun a => a.isEmpty)) (fun l h => charTrial_one h)
  have hge2 : ∀ a ∈ (A.strs.filter (fun s => s.length > 1)).mergeSort (fun s t => s.length ≥ t.length),
      2 ≤ a.length := by
    intro a ha
    rw [List.mem_mergeSort, List.mem_filter] at ha
    have := ha.2; simp only [decide_eq_true_eq] at this; omega
  have hge2' : ∀ a ∈ sortByLenDesc (s.alts.filter (fun a => !a.isEmpty)), 2 ≤ a.length :=
    fun a ha => hge2 a ((hmem a).2 ha)
  have hd1 := desc_strTrials (cs := cs) (fwd := !back) (e := x.endIndex) 2 _ _ hpw hge2 htail.1 htail.2
  have hd2 := desc_strTrials (cs := cs) (fwd := !back) (e := x.endIndex) 2 _ _
    (pairwise_sortByLenDesc (s.alts.filter (fun a => !a.isEmpty))) hge2' htail.1 htail.2
  rw [← List.append_assoc] at hd1 hd2
  apply resRel_tryList hd1 hd2
  · intro l
    simp only [List.mem_append, mem_map_strTrial, hmem]
  · intro l hl
    have hbound : advance (!back) x.endIndex l ≤ cs.length := by
      simp only [List.mem_append, mem_map_strTrial] at hl
      rcases hl with (⟨a, _, ho, rfl⟩ | hl) | hl
      · exact occurs_bound he ho
      · simp only [List.mem_singleton] at hl
        exact charTrial_bound he hl.symm
      · split at hl
        · simp only [List.mem_singleton, Option.some.injEq] at hl
          subst hl; cases back <;> simp [advance] <;> omega
        · cases hl
    refine hc _ _ ?_ (hr.withIdx hbound)
    rw [node_trials ht (!back) st he hr.pos s hsc hlen1]
    apply mem_trialStates
    have : some l ∈ ((A.strs.filter (fun s => s.length > 1)).mergeSort (fun s t => s.length ≥ t.length)).map
          (strTrial cs (!back) x.endIndex) ++
        [charTrial cs (!back) x.endIndex (bracketTest { invert := false, ivs := pairsOfIvs s.cps })] ++
        (if s.alts.any (fun a => a.isEmpty) then [some 0] else []) := hl
    simp only [List.mem_append, mem_map_strTrial, hmem] at this ⊢
    exact this

end

end Regress.Lower
