import RegressModel.Syntax.Parse
import RegressModel.Spec.ESGrammar
import Proofs.Lemmas.ESGrammarLaws
/-!
# C08 fragment equivalence, part 1: quantifiers

The crate's `try_consume_braced_quantifier` / `try_consume_quantifier` (saturating 64-bit
arithmetic, the `decimal_digits` comparison of two saturated bounds) against the grammar
recognizer's `braced` / `optQuant` (unbounded naturals).

* `decimalLiteral_eq`: the saturating literal is `min value usize::MAX`.
* `digitsGt_decimalDigits`: comparing `decimal_digits` is comparing the values.
* `bracedSim`: `{…}` is a braced quantifier for the crate iff it is one for the grammar, with the
  same rest, and the crate's `min > max` test is the grammar's `lo > hi`.
* `quantSim`: the same for a whole optional quantifier, both modes.
-/
namespace Regress.C08Frag
open Regress Regress.IR Regress.Parse Regress.ESG

/-! ## Values of digit strings -/

/-- Value of a digit string read left to right from the accumulator `a`. -/
def dval : List Nat → Nat → Nat
  | [], a => a
  | c :: cs, a => dval cs (a * 10 + (c - 0x30))

theorem takeDigits_eq (s : List Nat) : ∀ a k, takeDigits s a k =
    (dval (s.takeWhile ESG.isDigit) a, k + (s.takeWhile ESG.isDigit).length, s.dropWhile ESG.isDigit) := by
  induction s with
  | nil => intro a k; simp [takeDigits, dval]
  | cons c r ih =>
    intro a k
    unfold takeDigits
    by_cases h : ESG.isDigit c = true
    · simp only [h, if_true, List.takeWhile_cons_of_pos, List.dropWhile_cons_of_pos, dval,
        List.length_cons]
      rw [ih]; simp only [Prod.mk.injEq, and_true, true_and]; omega
    · simp only [h, Bool.false_eq_true, if_false]
      simp [List.takeWhile_cons_of_neg h, List.dropWhile_cons_of_neg h, dval]

theorem satMul (a d : Nat) : satMul10Add (min a USIZE_MAX) d = min (a * 10 + d) USIZE_MAX := by
  unfold satMul10Add USIZE_MAX; omega

theorem decimalLoop_takeDigits (s : List Nat) : ∀ a k, decimalLoop s (min a USIZE_MAX) k =
    (min (takeDigits s a k).1 USIZE_MAX, (takeDigits s a k).2.1, (takeDigits s a k).2.2) := by
  induction s with
  | nil => intro a k; simp [decimalLoop, takeDigits]
  | cons c r ih =>
    intro a k
    unfold decimalLoop takeDigits
    have hd : Parse.isAsciiDigit c = ESG.isDigit c := rfl
    rw [hd]
    by_cases h : ESG.isDigit c = true
    · simp only [h, if_true]
      rw [satMul, ih]
    · simp only [h, Bool.false_eq_true, if_false]

/-- `try_consume_decimal_integer_literal` in terms of the grammar's `DecimalDigits`. -/
theorem decimalLiteral_eq (s : List Nat) : decimalLiteral s =
    (if (takeDigits s 0 0).2.1 > 0 then some (min (takeDigits s 0 0).1 USIZE_MAX) else none,
      (takeDigits s 0 0).2.2) := by
  unfold decimalLiteral
  have := decimalLoop_takeDigits s 0 0
  simp only [Nat.zero_min] at this
  rw [this]
  simp only
  split <;> rfl

theorem takeDigits_zero_rest {s : List Nat} (h : (takeDigits s 0 0).2.1 = 0) : (takeDigits s 0 0).2.2 = s := by
  cases s with
  | nil => rfl
  | cons c r =>
    unfold takeDigits at h ⊢
    by_cases hc : ESG.isDigit c = true
    · simp only [hc, if_true] at h
      rw [takeDigits_eq] at h; simp at h
    · simp only [hc, Bool.false_eq_true, if_false]

/-! ## Positional value bounds -/

theorem dval_acc (d : List Nat) : ∀ a, dval d a = a * 10 ^ d.length + dval d 0 := by
  induction d with
  | nil => intro a; simp [dval]
  | cons c cs ih =>
    intro a
    simp only [dval, List.length_cons, Nat.zero_mul, Nat.zero_add]
    rw [ih (a * 10 + (c - 0x30)), ih (c - 0x30), Nat.pow_succ]
    rw [Nat.add_mul, Nat.mul_assoc, Nat.mul_comm 10]
    omega

def AllDig (d : List Nat) : Prop := ∀ c ∈ d, ESG.isDigit c = true

theorem dig_range {c : Nat} (h : ESG.isDigit c = true) : 0x30 ≤ c ∧ c ≤ 0x39 := by
  simpa [ESG.isDigit] using h

theorem dval_lt (d : List Nat) (h : AllDig d) : dval d 0 < 10 ^ d.length := by
  induction d with
  | nil => simp [dval]
  | cons c cs ih =>
    have hc := dig_range (h c (by simp))
    have ih' := ih (fun x hx => h x (by simp [hx]))
    simp only [dval, Nat.zero_mul, Nat.zero_add, List.length_cons]
    rw [dval_acc, Nat.pow_succ]
    have : (c - 0x30) * 10 ^ cs.length ≤ 9 * 10 ^ cs.length := Nat.mul_le_mul_right _ (by omega)
    omega

theorem dval_ge (c : Nat) (cs : List Nat) (hc : ESG.isDigit c = true) (hz : c ≠ 0x30) :
    10 ^ cs.length ≤ dval (c :: cs) 0 := by
  have := dig_range hc
  simp only [dval, Nat.zero_mul, Nat.zero_add]
  rw [dval_acc]
  have : 1 * 10 ^ cs.length ≤ (c - 0x30) * 10 ^ cs.length := Nat.mul_le_mul_right _ (by omega)
  omega

/-- No leading zero. -/
def NoLZ (d : List Nat) : Prop := ∀ c cs, d = c :: cs → c ≠ 0x30

theorem dval_len_lt {d1 d2 : List Nat} (h1 : AllDig d1) (h2 : AllDig d2) (hz : NoLZ d1)
    (hl : d2.length < d1.length) : dval d2 0 < dval d1 0 := by
  cases d1 with
  | nil => simp at hl
  | cons c cs =>
    have hge := dval_ge c cs (h1 c (by simp)) (hz c cs rfl)
    have hlt := dval_lt d2 h2
    have : 10 ^ d2.length ≤ 10 ^ cs.length := Nat.pow_le_pow_right (by omega) (by simp at hl; omega)
    omega

theorem lexLt_eq : ∀ (d2 d1 : List Nat), AllDig d1 → AllDig d2 → d1.length = d2.length →
    lexLt d2 d1 = decide (dval d2 0 < dval d1 0) := by
  intro d2
  induction d2 with
  | nil =>
    intro d1 _ _ hl
    cases d1 with
    | nil => simp [lexLt, dval]
    | cons _ _ => simp at hl
  | cons b bs ih =>
    intro d1 h1 h2 hl
    cases d1 with
    | nil => simp at hl
    | cons a as =>
      have ha := dig_range (h1 a (by simp))
      have hb := dig_range (h2 b (by simp))
      have h1' : AllDig as := fun x hx => h1 x (by simp [hx])
      have h2' : AllDig bs := fun x hx => h2 x (by simp [hx])
      have hl' : as.length = bs.length := by simpa using hl
      have va := dval_lt as h1'
      have vb := dval_lt bs h2'
      simp only [lexLt, dval, Nat.zero_mul, Nat.zero_add]
      rw [dval_acc bs, dval_acc as, ih as h1' h2' hl', hl']
      rw [hl'] at va
      generalize 10 ^ bs.length = P at *
      generalize dval as 0 = x at *
      generalize dval bs 0 = y at *
      by_cases hlt : b < a
      · have : (b - 0x30 + 1) * P ≤ (a - 0x30) * P := Nat.mul_le_mul_right _ (by omega)
        rw [Nat.add_mul] at this
        simp [hlt]; omega
      · by_cases heq : b = a
        · subst heq; simp
        · have : (a - 0x30 + 1) * P ≤ (b - 0x30) * P := Nat.mul_le_mul_right _ (by omega)
          rw [Nat.add_mul] at this
          have hne : (b == a) = false := by simp [heq]
          simp [hlt, hne]; omega

/-- Digit strings without leading zeros: `(length, digits)` order is numeric order. -/
theorem digitsGt_eq {d1 d2 : List Nat} (h1 : AllDig d1) (h2 : AllDig d2) (z1 : NoLZ d1) (z2 : NoLZ d2) :
    digitsGt (d1.length, d1) (d2.length, d2) = decide (dval d2 0 < dval d1 0) := by
  unfold digitsGt
  simp only
  rcases Nat.lt_trichotomy d2.length d1.length with h | h | h
  · have := dval_len_lt h1 h2 z1 h
    simp [h, this]
  · rw [lexLt_eq d2 d1 h1 h2 h.symm]
    simp [h]
  · have := dval_len_lt h2 h1 z2 h
    have h' : ¬ d2.length < d1.length := by omega
    have h'' : (d1.length == d2.length) = false := by simp; omega
    simp [h', h'']; omega

theorem dval_dropZeros (d : List Nat) : dval (d.dropWhile (fun c => c == 0x30)) 0 = dval d 0 := by
  induction d with
  | nil => rfl
  | cons c cs ih =>
    by_cases h : c = 0x30
    · subst h; simp [dval]; exact ih
    · have : ((fun c => c == 0x30) c) = false := by simp [h]
      rw [List.dropWhile_cons_of_neg (by simpa using h)]

theorem allDig_takeWhile (s : List Nat) : AllDig (s.takeWhile ESG.isDigit) := by
  induction s with
  | nil => intro c hc; simp at hc
  | cons x xs ih =>
    intro c hc
    by_cases hx : ESG.isDigit x = true
    · rw [List.takeWhile_cons_of_pos hx] at hc
      rcases List.mem_cons.1 hc with rfl | h
      · exact hx
      · exact ih c h
    · rw [List.takeWhile_cons_of_neg hx] at hc; simp at hc

theorem allDig_dropWhile {d : List Nat} (p : Nat → Bool) (h : AllDig d) : AllDig (d.dropWhile p) :=
  fun c hc => h c ((List.dropWhile_sublist p).subset hc)

theorem noLZ_dropZeros (d : List Nat) : NoLZ (d.dropWhile (fun c => c == 0x30)) := by
  induction d with
  | nil => intro c cs h; simp at h
  | cons x xs ih =>
    intro c cs h
    by_cases hx : x = 0x30
    · subst hx; simp at h; exact ih c cs h
    · rw [List.dropWhile_cons_of_neg (by simpa using hx)] at h
      cases h; exact hx

/-- Comparing `decimal_digits` of two inputs is comparing the values of their leading literals. -/
theorem digitsGt_decimalDigits (s1 s2 : List Nat) :
    digitsGt (decimalDigits s1) (decimalDigits s2) =
      decide ((takeDigits s2 0 0).1 < (takeDigits s1 0 0).1) := by
  unfold decimalDigits
  have hd : Parse.isAsciiDigit = ESG.isDigit := rfl
  rw [hd]
  simp only
  rw [digitsGt_eq (allDig_dropWhile _ (allDig_takeWhile s1)) (allDig_dropWhile _ (allDig_takeWhile s2))
    (noLZ_dropZeros _) (noLZ_dropZeros _)]
  rw [dval_dropZeros, dval_dropZeros, takeDigits_eq s1, takeDigits_eq s2]

/-! ## Braced quantifiers -/

/-- The crate's `quant.min > quant.max` test (`consume_term`). -/
def qRev (q : Quant) : Bool :=
  match q.max with
  | some mx => decide (q.min > mx)
  | none => false

theorem sat_cmp (lo hi : Nat) :
    (if (min lo USIZE_MAX == USIZE_MAX && some (min hi USIZE_MAX) == some USIZE_MAX && decide (hi < lo))
      then decide (min lo USIZE_MAX > USIZE_MAX - 1) else decide (min lo USIZE_MAX > min hi USIZE_MAX))
      = decide (hi < lo) := by
  unfold USIZE_MAX
  by_cases h : hi < lo
  · by_cases h1 : lo ≥ 18446744073709551615
    · by_cases h2 : hi ≥ 18446744073709551615
      · have e1 : min lo 18446744073709551615 = 18446744073709551615 := by omega
        have e2 : min hi 18446744073709551615 = 18446744073709551615 := by omega
        simp [e1, e2, h]
      · have e1 : min lo 18446744073709551615 = 18446744073709551615 := by omega
        have e2 : min hi 18446744073709551615 = hi := by omega
        have : (hi == 18446744073709551615) = false := by simp; omega
        simp [e1, e2, h, this]; omega
    · have e1 : min lo 18446744073709551615 = lo := by omega
      have e2 : min hi 18446744073709551615 = hi := by omega
      have : (lo == 18446744073709551615) = false := by simp; omega
      simp [e1, e2, h, this]
  · simp [h]; omega

theorem ite_pair_snd {α β : Type} (c : Prop) [Decidable c] (a b : α) (l : β) :
    (if c then (a, l) else (b, l)).snd = l := by split <;> rfl
theorem ite_pair_fst {α β : Type} (c : Prop) [Decidable c] (a b : α) (l : β) :
    (if c then (a, l) else (b, l)).fst = if c then a else b := by split <;> rfl

theorem qRev_sat (lo hi : Nat) :
    qRev { min := min lo USIZE_MAX,
           max := if (min lo USIZE_MAX == USIZE_MAX && some (min hi USIZE_MAX) == some USIZE_MAX &&
                    decide (hi < lo)) = true then some (USIZE_MAX - 1) else some (min hi USIZE_MAX),
           greedy := true } = !decide (lo ≤ hi) := by
  have := sat_cmp lo hi
  unfold qRev
  simp only
  split
  · rename_i mx hmx
    split at hmx
    · rename_i hc
      rw [if_pos hc] at this
      cases hmx
      rw [this]; by_cases h : hi < lo <;> simp [h] <;> omega
    · rename_i hc
      rw [if_neg hc] at this
      cases hmx
      rw [this]; by_cases h : hi < lo <;> simp [h] <;> omega
  · rename_i hmx
    split at hmx <;> cases hmx

theorem bracedSim (x : Nat) (r : List Nat) :
    match braced r with
    | none => bracedQuantifier (x :: r) = .ok (none, x :: r)
    | some (b, r') => ∃ q, bracedQuantifier (x :: r) = .ok (some q, r') ∧ qRev q = !b := by
  unfold bracedQuantifier
  simp only
  rw [decimalLiteral_eq r]
  unfold braced
  rcases h1 : takeDigits r 0 0 with ⟨lo, k, rest1⟩
  simp only
  cases k with
  | zero => simp
  | succ k' =>
    simp only [if_true, gt_iff_lt, Nat.zero_lt_succ]
    rcases rest1 with _ | ⟨c, r2⟩
    · simp
    · by_cases h7 : c = 0x7D
      · subst h7; simp [qRev]
      · by_cases h2 : c = 0x2C
        · subst h2
          simp only [digitsGt_decimalDigits, decimalLiteral_eq r2, h1]
          rcases h3 : takeDigits r2 0 0 with ⟨hi, k2, rest3⟩
          simp only
          have hz := @takeDigits_zero_rest r2
          rw [h3] at hz
          simp only at hz
          cases k2 with
          | zero =>
            have := hz rfl
            subst this
            simp
            rcases rest3 with _ | ⟨d, r4⟩
            · simp
            · by_cases h7' : d = 0x7D
              · subst h7'; simp [qRev]
              · simp [h7']
          | succ k2' =>
            simp only [if_true, gt_iff_lt, Nat.zero_lt_succ, ite_pair_snd, ite_pair_fst]
            have hm : ∀ r', r2 ≠ 125 :: r' := by
              intro r' he; subst he
              simp [takeDigits, ESG.isDigit] at h3
            rcases r2 with _ | ⟨e, r5⟩
            · simp [takeDigits] at h3
            have he : e ≠ 125 := fun h => hm r5 (by rw [h])
            simp only [he]
            rcases rest3 with _ | ⟨d, r4⟩
            · simp
            · by_cases h7' : d = 0x7D
              · subst h7'
                simp only
                exact ⟨_, rfl, qRev_sat lo hi⟩
              · simp [h7']
        · simp [h7, h2]

/-! ## Optional quantifiers -/

/-- The rest of the input starts with something that can only be read as a quantifier: `*`, `+`,
`?`, or `{` when that is not a pattern character (UnicodeMode: always; Annex B: when a complete
braced quantifier follows). -/
def qbad (u : Bool) : List Nat → Bool
  | x :: r => x == 0x2A || x == 0x2B || x == 0x3F || (x == 0x7B && (u || (braced r).isSome))
  | [] => false

/-- `r2` is `r` minus a non-empty prefix that starts with a quantifier character and contains no
parenthesis. -/
def QDrop (r r2 : List Nat) : Prop :=
  ∃ x p, r = x :: (p ++ r2) ∧ (x = 0x2A ∨ x = 0x2B ∨ x = 0x3F ∨ x = 0x7B) ∧
    ∀ c ∈ p, c ≠ 0x28 ∧ c ≠ 0x29 ∧ c ≠ 0x5C ∧ c ≠ 0x5B ∧ c ≠ 0x5D ∧ c ≠ 0x7C

def lazyQ (r : List Nat) : List Nat := match r with | 0x3F :: r' => r' | _ => r

theorem lazyQ_split (r : List Nat) : ∃ p, r = p ++ lazyQ r ∧ ∀ c ∈ p, c = 0x3F := by
  unfold lazyQ
  split
  · exact ⟨[0x3F], rfl, by simp⟩
  · exact ⟨[], rfl, by simp⟩

theorem takeDigits_split (s : List Nat) :
    ∃ p, s = p ++ (takeDigits s 0 0).2.2 ∧ ∀ c ∈ p, ESG.isDigit c = true := by
  rw [takeDigits_eq]
  exact ⟨s.takeWhile ESG.isDigit, (List.takeWhile_append_dropWhile).symm, allDig_takeWhile s⟩

theorem braced_split {r r' : List Nat} {b : Bool} (h : braced r = some (b, r')) :
    ∃ p, r = p ++ r' ∧ ∀ c ∈ p, (ESG.isDigit c = true ∨ c = 0x2C ∨ c = 0x7D) := by
  unfold braced at h
  obtain ⟨p1, e1, hp1⟩ := takeDigits_split r
  rcases h1 : takeDigits r 0 0 with ⟨lo, k, rest1⟩
  rw [h1] at h e1
  simp only at h e1
  split at h
  · cases h
  · rename_i heq
    simp only [Prod.mk.injEq] at heq
    obtain ⟨-, -, rfl⟩ := heq
    cases h
    exact ⟨p1 ++ [0x7D], by rw [e1]; simp, by
      intro c hc; rcases List.mem_append.1 hc with h | h
      · exact .inl (hp1 c h)
      · simp at h; exact .inr (.inr h)⟩
  · rename_i heq
    simp only [Prod.mk.injEq] at heq
    obtain ⟨-, -, rfl⟩ := heq
    split at h
    · cases h
      exact ⟨p1 ++ [0x2C, 0x7D], by rw [e1]; simp, by
        intro c hc; rcases List.mem_append.1 hc with h | h
        · exact .inl (hp1 c h)
        · simp at h; rcases h with h | h
          · exact .inr (.inl h)
          · exact .inr (.inr h)⟩
    · rename_i r2 _ _ _
      obtain ⟨p2, e2, hp2⟩ := takeDigits_split r2
      split at h
      · cases h
      · rename_i heq2
        rw [heq2] at e2
        simp only at e2
        cases h
        exact ⟨p1 ++ [0x2C] ++ p2 ++ [0x7D], by rw [e1, e2]; simp, by
          intro c hc
          simp only [List.mem_append, List.mem_singleton] at hc
          rcases hc with ((h | h) | h) | h
          · exact .inl (hp1 c h)
          · exact .inr (.inl h)
          · exact .inl (hp2 c h)
          · exact .inr (.inr h)⟩
      · cases h
  · cases h


theorem optQuant_eq (s : List Nat) : optQuant s =
    match s with
    | 0x2A :: r => .ok (lazyQ r)
    | 0x2B :: r => .ok (lazyQ r)
    | 0x3F :: r => .ok (lazyQ r)
    | 0x7B :: r =>
      match braced r with
      | none => .ok s
      | some (true, r') => .ok (lazyQ r')
      | some (false, _) => .bad
    | _ => .ok s := by
  unfold optQuant lazyQ
  rfl

theorem quantifier_lazy (u : Bool) (inp : List Nat) (q : Quant) (r : List Nat)
    (h : quantifierPrefix u inp = .ok (some q, r)) :
    ∃ q', quantifier u inp = .ok (some q', lazyQ r) ∧ qRev q' = qRev q := by
  unfold quantifier
  rw [h]
  simp only
  rcases r with _ | ⟨y, r'⟩
  · exact ⟨_, rfl, rfl⟩
  · by_cases hy : y = 0x3F
    · subst hy; exact ⟨_, rfl, rfl⟩
    · refine ⟨q, ?_, rfl⟩
      simp [lazyQ, hy]

/-- An optional quantifier: the crate's `try_consume_quantifier` against the grammar's `optQuant`. -/
theorem quantSim (u : Bool) (r : List Nat) :
    match optQuant r with
    | .ok r2 =>
      (qbad u r = false ∧ r2 = r ∧ quantifier u r = .ok (none, r)) ∨
      (qbad u r = true ∧ QDrop r r2 ∧ ∃ q, quantifier u r = .ok (some q, r2) ∧ qRev q = false) ∨
      (qbad u r = true ∧ r2 = r ∧ ∃ msg, quantifier u r = .error (.syntax msg))
    | .bad => qbad u r = true ∧ ∃ q r2, quantifier u r = .ok (some q, r2) ∧ qRev q = true
    | .fuel => False := by
  rw [optQuant_eq]
  rcases r with _ | ⟨x, r0⟩
  · simp [qbad, quantifier, quantifierPrefix]
  · by_cases h1 : x = 0x2A
    · subst h1
      simp only
      refine .inr (.inl ⟨by simp [qbad], ?_, ?_⟩)
      · obtain ⟨p, hp, hc⟩ := lazyQ_split r0
        exact ⟨_, p, by rw [← hp], by simp, fun c h => by rw [hc c h]; decide⟩
      · obtain ⟨q', hq, hr⟩ := quantifier_lazy u (0x2A :: r0) _ r0 (by simp [quantifierPrefix]; rfl)
        exact ⟨q', hq, by rw [hr]; rfl⟩
    · by_cases h2 : x = 0x2B
      · subst h2
        simp only
        refine .inr (.inl ⟨by simp [qbad], ?_, ?_⟩)
        · obtain ⟨p, hp, hc⟩ := lazyQ_split r0
          exact ⟨_, p, by rw [← hp], by simp, fun c h => by rw [hc c h]; decide⟩
        · obtain ⟨q', hq, hr⟩ := quantifier_lazy u (0x2B :: r0) _ r0 (by simp [quantifierPrefix]; rfl)
          exact ⟨q', hq, by rw [hr]; rfl⟩
      · by_cases h3 : x = 0x3F
        · subst h3
          simp only
          refine .inr (.inl ⟨by simp [qbad], ?_, ?_⟩)
          · obtain ⟨p, hp, hc⟩ := lazyQ_split r0
            exact ⟨_, p, by rw [← hp], by simp, fun c h => by rw [hc c h]; decide⟩
          · obtain ⟨q', hq, hr⟩ := quantifier_lazy u (0x3F :: r0) _ r0 (by simp [quantifierPrefix]; rfl)
            exact ⟨q', hq, by rw [hr]; rfl⟩
        · by_cases h4 : x = 0x7B
          · subst h4
            simp only
            have hb := bracedSim 0x7B r0
            rcases hbr : braced r0 with _ | ⟨b, r'⟩
            · rw [hbr] at hb
              simp only at hb ⊢
              cases u with
              | false =>
                refine .inl ⟨by simp [qbad, hbr], trivial, ?_⟩
                simp [quantifier, quantifierPrefix, hb]
              | true =>
                refine .inr (.inr ⟨by simp [qbad], trivial, ?_⟩)
                simp [quantifier, quantifierPrefix, hb, synErr]
            · rw [hbr] at hb
              simp only at hb
              obtain ⟨q, hq, hrev⟩ := hb
              have hpre : quantifierPrefix u (0x7B :: r0) = .ok (some q, r') := by
                simp [quantifierPrefix, hq]
              obtain ⟨q', hq', hr'⟩ := quantifier_lazy u _ _ _ hpre
              have hqb : qbad u (0x7B :: r0) = true := by simp [qbad, hbr]
              cases b with
              | true =>
                simp only
                refine .inr (.inl ⟨hqb, ?_, q', hq', by rw [hr', hrev]; rfl⟩)
                obtain ⟨p, hp, hc⟩ := braced_split hbr
                obtain ⟨p2, hp2, hc2⟩ := lazyQ_split r'
                refine ⟨_, p ++ p2, by rw [hp, List.append_assoc, ← hp2], by simp, ?_⟩
                intro c hcm
                rcases List.mem_append.1 hcm with h | h
                · rcases hc c h with h | h | h
                  · have := dig_range h; omega
                  · omega
                  · omega
                · rw [hc2 c h]; decide
              | false =>
                simp only
                exact ⟨hqb, q', _, hq', by rw [hr', hrev]; rfl⟩
          · have e : (match x :: r0 with
                | 0x2A :: r => R.ok (lazyQ r)
                | 0x2B :: r => .ok (lazyQ r)
                | 0x3F :: r => .ok (lazyQ r)
                | 0x7B :: r =>
                  match braced r with
                  | none => .ok (x :: r0)
                  | some (true, r') => .ok (lazyQ r')
                  | some (false, _) => .bad
                | _ => .ok (x :: r0)) = .ok (x :: r0) := by
              simp [h1, h2, h3, h4]
            rw [e]
            simp only
            refine .inl ⟨by simp [qbad, h1, h2, h3, h4], trivial, ?_⟩
            simp [quantifier, quantifierPrefix, h1, h2, h3, h4]


theorem quant_of_not_qbad {u : Bool} {r : List Nat} (h : qbad u r = false) :
    quantifier u r = .ok (none, r) ∧ optQuant r = .ok r := by
  have := quantSim u r
  cases ho : optQuant r with
  | ok r2 =>
    rw [ho] at this
    simp only [h, Bool.false_eq_true, false_and, or_false, true_and] at this
    exact ⟨this.2, by rw [this.1]⟩
  | bad => rw [ho] at this; simp [h] at this
  | fuel => rw [ho] at this; exact this.elim

theorem quant_of_qbad {u : Bool} {r : List Nat} (h : qbad u r = true) :
    (∃ msg, quantifier u r = .error (.syntax msg)) ∨ ∃ q r2, quantifier u r = .ok (some q, r2) := by
  have := quantSim u r
  cases ho : optQuant r with
  | ok r2 =>
    rw [ho] at this
    simp only [h, Bool.true_eq_false, false_and, false_or, true_and] at this
    rcases this with ⟨_, q, hq, _⟩ | ⟨_, hm⟩
    · exact .inr ⟨q, r2, hq⟩
    · exact .inl hm
  | bad => rw [ho] at this; obtain ⟨_, q, r2, hq, _⟩ := this; exact .inr ⟨q, r2, hq⟩
  | fuel => rw [ho] at this; exact this.elim

end Regress.C08Frag
