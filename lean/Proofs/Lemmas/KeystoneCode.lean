import RegressModel.VM.Emit
import RegressModel.IR.Sem
/-!
# Keystone, part 3: the layout of the code that `emitNode` produces

`Code I B uni n lb b e l`: the instruction array `I` (with bracket table `B`) contains, at
`[b, e)`, the code that `emit.rs` emits for `n` in look-behind context `lb`, with all jump targets
resolved, the loops being numbered from `l` on (`LoopID` is a `u16`: ids are taken modulo `65536`).

`emitNode_code`: `emitNode n s = .ok s'` appends such a block to `s.insns` (and changes nothing
else of the instruction array).
-/
namespace Regress.Keystone

open Regress.VM Regress.IR Regress.Gen

mutual
/-- The number of `Loop` nodes (each takes one `LoopID`). -/
def numLoops : Node → Nat
  | .cat ns => numLoopsList ns
  | .alt l r => numLoops l + numLoops r
  | .group _ _ c => numLoops c
  | .look _ _ _ _ c => numLoops c
  | .loop b _ _ _ => numLoops b + 1
  | .loop1 b _ => numLoops b
  | _ => 0
def numLoopsList : List Node → Nat
  | [] => 0
  | n :: ns => numLoops n + numLoopsList ns
end

/-- `I[i] = insn`. -/
def At (I : Array Insn) (i : Nat) (insn : Insn) : Prop := I[i]? = some insn

/-- The instructions `c` sit at `b, b+1, …`. -/
def InsnsAt (I : Array Insn) (b : Nat) (c : List Insn) : Prop :=
  ∀ i (h : i < c.length), At I (b + i) c[i]

/-- `emit_byte_set_insn`. -/
def byteSetInsn (bytes : List Nat) : Option Insn :=
  match bytes.length with
  | 0 => some .justFail
  | 1 => some (.byteSeq bytes)
  | 2 => some (.byteSet bytes)
  | 3 => some (.byteSet bytes)
  | 4 => some (.byteSet bytes)
  | _ => none

/-- The `Node::CharSet` arm. -/
def charSetInsn (chars : List Nat) : Option Insn :=
  match chars with
  | [] => some .justFail
  | c0 :: _ =>
    if chars.length > MAX_CHAR_SET_LENGTH then none
    else some (.charSet (chars ++ List.replicate (MAX_CHAR_SET_LENGTH - chars.length) c0))

/-- The `Node::ByteSequence` arm: the chunks, in emission order. -/
def bytesChunks (lb : Bool) (bytes : List Nat) : List (List Nat) :=
  if lb then (chunks MAX_BYTE_SEQ_LENGTH bytes).reverse else chunks MAX_BYTE_SEQ_LENGTH bytes

/-- The code of a `Piece`. -/
def pieceInsns (lb : Bool) : Piece → Option (List Insn)
  | .char c => some [.char c]
  | .byteSequence bytes => some ((bytesChunks lb bytes).map Insn.byteSeq)
  | .byteSet bytes => (byteSetInsn bytes).map (fun i => [i])
  | .charSet chars => (charSetInsn chars).map (fun i => [i])

def piecesInsns (lb : Bool) : List Piece → Option (List Insn)
  | [] => some []
  | p :: ps =>
    match pieceInsns lb p, piecesInsns lb ps with
    | some a, some b => some (a ++ b)
    | _, _ => none

/-- `emit_code_point_sequence`. -/
def cpsInsns (uni lb icase : Bool) (cps : List Nat) : Option (List Insn) :=
  match lowerCodePointSequence cps icase uni with
  | .error _ => none
  | .ok pieces => piecesInsns lb (if lb then pieces.reverse else pieces)

def allSome {α} : List (Option α) → Option (List α)
  | [] => some []
  | a :: as =>
    match a, allSome as with
    | some x, some xs => some (x :: xs)
    | _, _ => none

/-- `emit_string_set`: the `Alt`/`Jump` chain over the codes of the alternatives, placed at `b`,
the whole block ending at `e`. -/
def strSetInsns (e : Nat) : Nat → List (List Insn) → List Insn
  | _, [] => [.justFail]
  | _, [c] => c
  | b, c :: cs => [.alt (b + c.length + 2)] ++ c ++ [.jump e] ++ strSetInsns e (b + c.length + 2) cs

mutual
/-- The layout of the code of a node (see the header). -/
def Code (I : Array Insn) (B : Array VM.Bracket) (uni : Bool) : Node → Bool → Nat → Nat → Nat → Prop
  | .empty, _, b, e, _ => e = b
  | .goal, _, b, e, _ => At I b .goal ∧ e = b + 1
  | .char c, _, b, e, _ => At I b (.char c) ∧ e = b + 1
  | .cat ns, lb, b, e, l => CodeList I B uni ns lb b e l
  | .alt x y, lb, b, e, l => ∃ j, At I b (.alt (j + 1)) ∧ Code I B uni x lb (b + 1) j l ∧
      At I j (.jump e) ∧ Code I B uni y lb (j + 1) e (l + numLoops x)
  | .bracket bc, _, b, e, _ =>
    ((∃ bm, bracketAsAscii bc = some bm ∧ At I b (.asciiBracket bm.toList)) ∨
     (bracketAsAscii bc = none ∧ ∃ idx, At I b (.bracket idx) ∧
        B[idx]? = some { invert := bc.invert, ivs := bc.ivs })) ∧ e = b + 1
  | .stringSet alts icase, lb, b, e, _ => ∃ codes, allSome (alts.map (cpsInsns uni lb icase)) = some codes ∧
      InsnsAt I b (strSetInsns e b codes) ∧ e = b + (strSetInsns e b codes).length
  | .matchAny, _, b, e, _ => At I b .matchAny ∧ e = b + 1
  | .matchAnyExceptLT, _, b, e, _ => At I b .matchAnyExceptLineTerminator ∧ e = b + 1
  | .anchor sol ml, _, b, e, _ => At I b (makeAnchor sol ml) ∧ e = b + 1
  | .loop body q g0 g1, lb, b, e, l => ∃ j,
      At I b (.enterLoop (l % 65536) q.min (maxIters q) q.greedy e) ∧
      (∀ i, i < g1 - g0 → At I (b + 1 + i) (.resetCaptureGroup (g0 + i))) ∧
      Code I B uni body lb (b + 1 + (g1 - g0)) j (l + 1) ∧ At I j (.loopAgain b) ∧ e = j + 1
  | .loop1 body q, lb, b, e, l =>
      At I b (.loop1 q.min (maxIters q) q.greedy) ∧ Code I B uni body lb (b + 1) e l
  | .group id _ c, lb, b, e, l => ∃ j, At I b (.beginCaptureGroup id) ∧ Code I B uni c lb (b + 1) j l ∧
      At I j (.endCaptureGroup id) ∧ e = j + 1
  | .look neg bw sg eg c, _, b, e, l => ∃ j,
      At I b (if bw then .lookbehind neg sg eg e else .lookahead neg sg eg e) ∧
      Code I B uni c bw (b + 1) j l ∧ At I j .goal ∧ e = j + 1
  | .wordBoundary inv ui, _, b, e, _ =>
      At I b (if ui then .wordBoundaryUnicodeICase inv else .wordBoundary inv) ∧ e = b + 1
  | .backRef g icase, _, b, e, _ => At I b (backRefInsn g icase) ∧ e = b + 1
  | .byteSet bs, _, b, e, _ => ∃ i, byteSetInsn bs = some i ∧ At I b i ∧ e = b + 1
  | .charSet cs, _, b, e, _ => ∃ i, charSetInsn cs = some i ∧ At I b i ∧ e = b + 1
  | .byteSeq bs, lb, b, e, _ =>
      InsnsAt I b ((bytesChunks lb bs).map Insn.byteSeq) ∧ e = b + (bytesChunks lb bs).length
def CodeList (I : Array Insn) (B : Array VM.Bracket) (uni : Bool) : List Node → Bool → Nat → Nat → Nat → Prop
  | [], _, b, e, _ => e = b
  | n :: ns, lb, b, e, l => ∃ m, Code I B uni n lb b m l ∧ CodeList I B uni ns lb m e (l + numLoops n)
end

/-! ## Monotonicity and stability of `Code` -/

mutual
theorem Code.le {I : Array Insn} {B : Array VM.Bracket} {uni : Bool} :
    ∀ {n : Node} {lb : Bool} {b e l : Nat}, Code I B uni n lb b e l → b ≤ e
  | .empty, _, _, _, _, h => by simp only [Code] at h; omega
  | .goal, _, _, _, _, h => by simp only [Code] at h; omega
  | .char _, _, _, _, _, h => by simp only [Code] at h; omega
  | .cat ns, _, _, _, _, h => by simp only [Code] at h; exact CodeList.le h
  | .alt x y, _, _, _, _, h => by
    simp only [Code] at h
    obtain ⟨j, _, hx, _, hy⟩ := h
    have := Code.le hx; have := Code.le hy; omega
  | .bracket _, _, _, _, _, h => by simp only [Code] at h; omega
  | .stringSet _ _, _, _, _, _, h => by
    simp only [Code] at h
    obtain ⟨_, _, _, h⟩ := h; omega
  | .matchAny, _, _, _, _, h => by simp only [Code] at h; omega
  | .matchAnyExceptLT, _, _, _, _, h => by simp only [Code] at h; omega
  | .anchor _ _, _, _, _, _, h => by simp only [Code] at h; omega
  | .loop body _ _ _, _, _, _, _, h => by
    simp only [Code] at h
    obtain ⟨j, _, _, hb, _, he⟩ := h
    have := Code.le hb; omega
  | .loop1 body _, _, _, _, _, h => by
    simp only [Code] at h
    have := Code.le h.2; omega
  | .group _ _ c, _, _, _, _, h => by
    simp only [Code] at h
    obtain ⟨j, _, hc, _, he⟩ := h
    have := Code.le hc; omega
  | .look _ _ _ _ c, _, _, _, _, h => by
    simp only [Code] at h
    obtain ⟨j, _, hc, _, he⟩ := h
    have := Code.le hc; omega
  | .wordBoundary _ _, _, _, _, _, h => by simp only [Code] at h; omega
  | .backRef _ _, _, _, _, _, h => by simp only [Code] at h; omega
  | .byteSet _, _, _, _, _, h => by
    simp only [Code] at h
    obtain ⟨_, _, _, h⟩ := h; omega
  | .charSet _, _, _, _, _, h => by
    simp only [Code] at h
    obtain ⟨_, _, _, h⟩ := h; omega
  | .byteSeq _, _, _, _, _, h => by simp only [Code] at h; omega
theorem CodeList.le {I : Array Insn} {B : Array VM.Bracket} {uni : Bool} :
    ∀ {ns : List Node} {lb : Bool} {b e l : Nat}, CodeList I B uni ns lb b e l → b ≤ e
  | [], _, _, _, _, h => by simp only [CodeList] at h; omega
  | n :: ns, _, _, _, _, h => by
    simp only [CodeList] at h
    obtain ⟨m, hn, hns⟩ := h
    have := Code.le hn; have := CodeList.le hns; omega
end

/-- `I'` agrees with `I` on `[b, e)`. -/
def AgreeOn (I I' : Array Insn) (b e : Nat) : Prop := ∀ i, b ≤ i → i < e → I'[i]? = I[i]?

theorem AgreeOn.sub {I I' : Array Insn} {b e b' e' : Nat} (h : AgreeOn I I' b e) (hb : b ≤ b') (he : e' ≤ e) :
    AgreeOn I I' b' e' := fun i h1 h2 => h i (by omega) (by omega)

theorem AgreeOn.at {I I' : Array Insn} {b e i : Nat} {x : Insn} (h : AgreeOn I I' b e) (hx : At I i x)
    (h1 : b ≤ i) (h2 : i < e) : At I' i x := by
  unfold At at *; rw [h i h1 h2]; exact hx

theorem AgreeOn.insnsAt {I I' : Array Insn} {b e b' : Nat} {c : List Insn} (h : AgreeOn I I' b e)
    (hx : InsnsAt I b' c) (h1 : b ≤ b') (h2 : b' + c.length ≤ e) : InsnsAt I' b' c :=
  fun i hi => h.at (hx i hi) (by omega) (by omega)

/-- `B'` extends `B`. -/
def BExt (B B' : Array VM.Bracket) : Prop := ∀ (i : Nat) (x : VM.Bracket), B[i]? = some x → B'[i]? = some x

mutual
theorem Code.stable {I I' : Array Insn} {B B' : Array VM.Bracket} {uni : Bool} (hB : BExt B B') :
    ∀ {n : Node} {lb : Bool} {b e l : Nat}, Code I B uni n lb b e l → AgreeOn I I' b e →
      Code I' B' uni n lb b e l
  | .empty, _, _, _, _, h, _ => by simp only [Code] at h ⊢; exact h
  | .goal, _, _, _, _, h, ha => by
    simp only [Code] at h ⊢; exact ⟨ha.at h.1 (by omega) (by omega), h.2⟩
  | .char _, _, _, _, _, h, ha => by
    simp only [Code] at h ⊢; exact ⟨ha.at h.1 (by omega) (by omega), h.2⟩
  | .cat ns, _, _, _, _, h, ha => by
    simp only [Code] at h ⊢; exact CodeList.stable hB h ha
  | .alt x y, _, _, _, _, h, ha => by
    simp only [Code] at h ⊢
    obtain ⟨j, h1, hx, h2, hy⟩ := h
    have lx := Code.le hx; have ly := Code.le hy
    exact ⟨j, ha.at h1 (by omega) (by omega), Code.stable hB hx (ha.sub (by omega) (by omega)),
      ha.at h2 (by omega) (by omega), Code.stable hB hy (ha.sub (by omega) (by omega))⟩
  | .bracket _, _, _, _, _, h, ha => by
    simp only [Code] at h ⊢
    obtain ⟨h1, h2⟩ := h
    refine ⟨?_, h2⟩
    rcases h1 with ⟨bm, hbm, hat⟩ | ⟨hn, idx, hat, hb⟩
    · exact Or.inl ⟨bm, hbm, ha.at hat (by omega) (by omega)⟩
    · exact Or.inr ⟨hn, idx, ha.at hat (by omega) (by omega), hB _ _ hb⟩
  | .stringSet _ _, _, _, _, _, h, ha => by
    simp only [Code] at h ⊢
    obtain ⟨codes, h1, h2, h3⟩ := h
    exact ⟨codes, h1, ha.insnsAt h2 (by omega) (by omega), h3⟩
  | .matchAny, _, _, _, _, h, ha => by
    simp only [Code] at h ⊢; exact ⟨ha.at h.1 (by omega) (by omega), h.2⟩
  | .matchAnyExceptLT, _, _, _, _, h, ha => by
    simp only [Code] at h ⊢; exact ⟨ha.at h.1 (by omega) (by omega), h.2⟩
  | .anchor _ _, _, _, _, _, h, ha => by
    simp only [Code] at h ⊢; exact ⟨ha.at h.1 (by omega) (by omega), h.2⟩
  | .loop body _ _ _, _, _, _, _, h, ha => by
    simp only [Code] at h ⊢
    obtain ⟨j, h1, h2, hb, h3, he⟩ := h
    have lb := Code.le hb
    exact ⟨j, ha.at h1 (by omega) (by omega), fun i hi => ha.at (h2 i hi) (by omega) (by omega),
      Code.stable hB hb (ha.sub (by omega) (by omega)), ha.at h3 (by omega) (by omega), he⟩
  | .loop1 body _, _, _, _, _, h, ha => by
    simp only [Code] at h ⊢
    have lb := Code.le h.2
    exact ⟨ha.at h.1 (by omega) (by omega), Code.stable hB h.2 (ha.sub (by omega) (by omega))⟩
  | .group _ _ c, _, _, _, _, h, ha => by
    simp only [Code] at h ⊢
    obtain ⟨j, h1, hc, h2, he⟩ := h
    have lc := Code.le hc
    exact ⟨j, ha.at h1 (by omega) (by omega), Code.stable hB hc (ha.sub (by omega) (by omega)),
      ha.at h2 (by omega) (by omega), he⟩
  | .look _ _ _ _ c, _, _, _, _, h, ha => by
    simp only [Code] at h ⊢
    obtain ⟨j, h1, hc, h2, he⟩ := h
    have lc := Code.le hc
    exact ⟨j, ha.at h1 (by omega) (by omega), Code.stable hB hc (ha.sub (by omega) (by omega)),
      ha.at h2 (by omega) (by omega), he⟩
  | .wordBoundary _ _, _, _, _, _, h, ha => by
    simp only [Code] at h ⊢; exact ⟨ha.at h.1 (by omega) (by omega), h.2⟩
  | .backRef _ _, _, _, _, _, h, ha => by
    simp only [Code] at h ⊢; exact ⟨ha.at h.1 (by omega) (by omega), h.2⟩
  | .byteSet _, _, _, _, _, h, ha => by
    simp only [Code] at h ⊢
    obtain ⟨i, h1, h2, h3⟩ := h
    exact ⟨i, h1, ha.at h2 (by omega) (by omega), h3⟩
  | .charSet _, _, _, _, _, h, ha => by
    simp only [Code] at h ⊢
    obtain ⟨i, h1, h2, h3⟩ := h
    exact ⟨i, h1, ha.at h2 (by omega) (by omega), h3⟩
  | .byteSeq _, _, _, _, _, h, ha => by
    simp only [Code] at h ⊢
    exact ⟨ha.insnsAt h.1 (by omega) (by simp; omega), h.2⟩
theorem CodeList.stable {I I' : Array Insn} {B B' : Array VM.Bracket} {uni : Bool} (hB : BExt B B') :
    ∀ {ns : List Node} {lb : Bool} {b e l : Nat}, CodeList I B uni ns lb b e l → AgreeOn I I' b e →
      CodeList I' B' uni ns lb b e l
  | [], _, _, _, _, h, _ => by simp only [CodeList] at h ⊢; exact h
  | n :: ns, _, _, _, _, h, ha => by
    simp only [CodeList] at h ⊢
    obtain ⟨m, hn, hns⟩ := h
    have l1 := Code.le hn; have l2 := CodeList.le hns
    exact ⟨m, Code.stable hB hn (ha.sub (by omega) (by omega)),
      CodeList.stable hB hns (ha.sub (by omega) (by omega))⟩
end

end Regress.Keystone
