import Proofs.Lemmas.ByteSearchFind
import Proofs.Lemmas.ByteSearchAscii
import RegressModel.VM.Search
import RegressModel.IR.StartPred
import RegressModel.VM.Emit
/-!
# The byte-level model of `bytesearch.rs` and the abstract models used by the executor models

* `VM.findFirst` / `VM.findSeq` / `VM.findBytesPred` (`RegressModel/VM/Search.lean`) are
  `Input::find_bytes(pos, searcher)`: `searcher.find_in(&bytes[pos..])`, shifted by `pos`.
* `IR.ByteBitmap` (`RegressModel/IR/StartPred.lean`) is the 256-bit number `ByteBitmap.toNat`.
* `VM.AsciiBitmap` (`RegressModel/VM/Emit.lean`) is the 128-bit number `AsciiBitmap.toNat`.
-/
namespace Regress.ByteSearch

open Regress

/-! ## `Input::find_bytes` -/

theorem findFirst_eq (bytes : Array Nat) (p : Nat → Bool) : ∀ fuel pos, fuel = bytes.size - pos →
    VM.findFirst bytes p fuel pos = (firstIdx p (bytes.toList.drop pos)).map (· + pos) := by
  intro fuel
  induction fuel with
  | zero =>
    intro pos h
    have : bytes.toList.drop pos = [] := List.drop_eq_nil_of_le (by simp; omega)
    simp [VM.findFirst, this, firstIdx]
  | succ fuel ih =>
    intro pos h
    have hlt : pos < bytes.toList.length := by simp; omega
    have hsz : pos < bytes.size := by omega
    rw [VM.findFirst, List.drop_eq_getElem_cons hlt, firstIdx]
    have hget : bytes[pos]? = some bytes.toList[pos] := by
      rw [← Array.getElem?_toList, List.getElem?_eq_getElem hlt]
    rw [hget]
    simp only [Array.getElem_toList]
    by_cases hp : p bytes[pos] = true
    · simp [hp]
    · simp only [hp, Bool.false_eq_true, if_false]
      rw [ih (pos + 1) (by omega)]
      cases firstIdx p (List.drop (pos + 1) bytes.toList) with
      | none => rfl
      | some i => simp; omega

theorem memmemFind_unfold (needle l : List Nat) :
    memmemFind needle l =
      if needle.isPrefixOf l then some 0
      else match l with
        | [] => none
        | _ :: rest => (memmemFind needle rest).map (· + 1) := by
  cases l <;> rfl

theorem slice_eq (bytes : Array Nat) (s e : Nat) :
    Utf8.slice bytes s e = (bytes.toList.drop s).take (e - s) := by
  rw [Utf8.slice, Array.toList_extract, List.extract_eq_take_drop]

theorem findSeq_eq (bytes : Array Nat) (needle : List Nat) : ∀ fuel pos, pos ≤ bytes.size →
    fuel = bytes.size - pos + 1 →
    VM.findSeq bytes needle fuel pos = (memmemFind needle (bytes.toList.drop pos)).map (· + pos) := by
  intro fuel
  induction fuel with
  | zero => intro pos _ h; omega
  | succ fuel ih =>
    intro pos hle h
    rw [VM.findSeq]
    by_cases hlong : pos + needle.length > bytes.size
    · rw [if_pos hlong, memmemFind_none_of_short]
      · rfl
      · simp; omega
    · rw [if_neg hlong, slice_eq, memmemFind_unfold]
      have hsub : pos + needle.length - pos = needle.length := by omega
      rw [hsub]
      by_cases hm : needle.isPrefixOf (bytes.toList.drop pos) = true
      · have := (isPrefixOf_iff_take needle _).mp hm
        simp [hm, this]
      · have hne : ¬ (List.take needle.length (List.drop pos bytes.toList) = needle) :=
          fun h => hm ((isPrefixOf_iff_take needle _).mpr h)
        have hne' : (List.take needle.length (List.drop pos bytes.toList) == needle) = false := by
          simpa using hne
        rw [hne']
        simp only [hm, Bool.false_eq_true, if_false]
        by_cases hend : pos = bytes.size
        · have hnil : bytes.toList.drop pos = [] := List.drop_eq_nil_of_le (by simp; omega)
          have hf : fuel = 0 := by omega
          subst hf
          simp [hnil, VM.findSeq]
        · have hlt : pos < bytes.toList.length := by simp; omega
          rw [List.drop_eq_getElem_cons hlt]
          simp only
          rw [ih (pos + 1) (by omega) (by omega)]
          cases memmemFind needle (List.drop (pos + 1) bytes.toList) with
          | none => rfl
          | some i => simp; omega

/-! ## `ByteBitmap` ↔ the 256-bit number of `IR.ByteBitmap` -/

/-- The representation map `[u16; 16]` → 256-bit number. -/
def ByteBitmap.toIR (bm : ByteBitmap) : IR.ByteBitmap := ⟨bm.toNat⟩

/-- The inverse representation map. -/
def ByteBitmap.ofIR (b : IR.ByteBitmap) : ByteBitmap :=
  ⟨(List.range 16).map (fun j => (b.bits >>> (16 * j)) % 65536)⟩

theorem ByteBitmap.toIR_contains {bm : ByteBitmap} (hwf : bm.WF) (v : Nat) :
    bm.toIR.contains v = bm.mem v :=
  ByteBitmap.testBit_toNat hwf v

theorem ByteBitmap.toIR_default : ByteBitmap.default.toIR = IR.ByteBitmap.empty := by decide

theorem ByteBitmap.toIR_eq_of_mem {a : ByteBitmap} (ha : a.WF) {n : Nat}
    (h : ∀ v, n.testBit v = a.mem v) : a.toIR = ⟨n⟩ := by
  unfold ByteBitmap.toIR
  congr 1
  apply Nat.eq_of_testBit_eq
  intro i
  rw [ByteBitmap.testBit_toNat ha, h]

theorem ByteBitmap.toIR_set {bm bm' : ByteBitmap} (hwf : bm.WF) {v : Nat} (hv : v < 256)
    (h : bm.set v = .ok bm') : bm'.toIR = bm.toIR.set v := by
  unfold IR.ByteBitmap.set
  apply ByteBitmap.toIR_eq_of_mem (ByteBitmap.set_wf hwf hv h)
  intro u
  rw [ByteBitmap.mem_set hwf hv h, Nat.testBit_or, Nat.one_shiftLeft, Nat.testBit_two_pow]
  show (bm.toNat.testBit u || decide (v = u)) = _
  rw [ByteBitmap.testBit_toNat hwf]
  by_cases huv : u = v
  · subst huv; simp
  · have : ¬ v = u := fun h => huv h.symm
    simp [huv, this]

theorem ByteBitmap.toIR_newLoop (bytes : List Nat) : ∀ (bb r : ByteBitmap), bb.WF →
    (∀ b ∈ bytes, b < 256) → ByteBitmap.newLoop bytes bb = .ok r →
    r.toIR = bytes.foldl IR.ByteBitmap.set bb.toIR := by
  induction bytes with
  | nil => intro bb r _ _ h; cases h; rfl
  | cons b rest ih =>
    intro bb r hwf hb h
    have hb0 : b < 256 := hb b (by simp)
    have hs := ByteBitmap.set_ok hwf hb0
    rw [ByteBitmap.newLoop, hs] at h
    rw [List.foldl_cons, ← ByteBitmap.toIR_set hwf hb0 hs]
    exact ih _ r (ByteBitmap.set_wf hwf hb0 hs) (fun x hx => hb x (by simp [hx])) h

theorem ByteBitmap.toIR_new {bytes : List Nat} {r : ByteBitmap} (hb : ∀ b ∈ bytes, b < 256)
    (h : ByteBitmap.new bytes = .ok r) : r.toIR = IR.ByteBitmap.new bytes := by
  rw [IR.ByteBitmap.new, ← ByteBitmap.toIR_default]
  exact ByteBitmap.toIR_newLoop bytes _ r ByteBitmap.default_wf hb h

theorem ByteBitmap.toIR_bitor {a b r : ByteBitmap} (ha : a.WF) (hb : b.WF) (h : a.bitor b = .ok r) :
    r.toIR = a.toIR.bitor b.toIR := by
  unfold IR.ByteBitmap.bitor
  apply ByteBitmap.toIR_eq_of_mem (ByteBitmap.bitor_wf ha hb h)
  intro u
  rw [ByteBitmap.mem_bitor ha hb h, Nat.testBit_or]
  show (a.toNat.testBit u || b.toNat.testBit u) = _
  rw [ByteBitmap.testBit_toNat ha, ByteBitmap.testBit_toNat hb]

theorem ByteBitmap.toIR_toList {bm : ByteBitmap} (hwf : bm.WF) : bm.toIR.toList = bm.members := by
  unfold IR.ByteBitmap.toList ByteBitmap.members
  apply List.filter_congr
  intro v _
  exact ByteBitmap.toIR_contains hwf v

theorem ByteBitmap.toIR_countBits {bm : ByteBitmap} (hwf : bm.WF) :
    bm.toIR.countBits = bm.countBits := by
  rw [IR.ByteBitmap.countBits, ByteBitmap.toIR_toList hwf, ByteBitmap.countBits_eq hwf]

theorem ByteBitmap.ofIR_wf (b : IR.ByteBitmap) : (ByteBitmap.ofIR b).WF := by
  refine ⟨by simp [ByteBitmap.ofIR], ?_⟩
  intro w hw
  simp only [ByteBitmap.ofIR, List.mem_map] at hw
  obtain ⟨j, _, rfl⟩ := hw
  omega

theorem ByteBitmap.ofIR_mem (b : IR.ByteBitmap) {v : Nat} (hv : v < 256) :
    (ByteBitmap.ofIR b).mem v = b.contains v := by
  have hj : v / 16 < 16 := by omega
  unfold ByteBitmap.mem ByteBitmap.ofIR IR.ByteBitmap.contains
  rw [List.getElem?_map, List.getElem?_range hj]
  simp only [Option.map_some, Option.getD_some]
  rw [show (65536 : Nat) = 2 ^ 16 from rfl, Nat.testBit_mod_two_pow, Nat.testBit_shiftRight]
  have h1 : v % 16 < 16 := by omega
  have h2 : 16 * (v / 16) + v % 16 = v := by omega
  simp [h1, h2]

/-- The two maps are inverse on the 256-bit numbers. -/
theorem ByteBitmap.toIR_ofIR (b : IR.ByteBitmap) (hb : b.bits < 2 ^ 256) :
    (ByteBitmap.ofIR b).toIR = b := by
  cases b with | mk n =>
  apply ByteBitmap.toIR_eq_of_mem (ByteBitmap.ofIR_wf _)
  intro v
  by_cases hv : v < 256
  · rw [ByteBitmap.ofIR_mem _ hv]; rfl
  · have h1 : (ByteBitmap.ofIR ⟨n⟩).mem v = false := by
      cases h : (ByteBitmap.ofIR ⟨n⟩).mem v
      · rfl
      · exact absurd (ByteBitmap.mem_lt (ByteBitmap.ofIR_wf _) h) hv
    rw [h1]
    apply Nat.testBit_lt_two_pow
    exact Nat.lt_of_lt_of_le hb (Nat.pow_le_pow_right (by omega) (by omega))

/-! ## `AsciiBitmap` ↔ the 128-bit number of `VM.AsciiBitmap`, and `bracket_as_ascii` -/

/-- The representation map `[u8; 16]` → 128-bit number. -/
def AsciiBitmap.toVM (bm : AsciiBitmap) : VM.AsciiBitmap := ⟨bm.toNat⟩

theorem AsciiBitmap.toVM_contains {bm : AsciiBitmap} (hwf : bm.WF) (v : Nat) :
    bm.toVM.contains v = bm.mem v := by
  unfold VM.AsciiBitmap.contains AsciiBitmap.mem AsciiBitmap.toVM
  rw [AsciiBitmap.testBit_toNat hwf]

theorem AsciiBitmap.toVM_default : AsciiBitmap.default.toVM = ⟨0⟩ := by decide

theorem AsciiBitmap.toVM_set (dbg : Bool) {bm bm' : AsciiBitmap} (hwf : bm.WF) {v : Nat}
    (hv : v < 128) (h : bm.set dbg v = .ok bm') : bm'.toVM = bm.toVM.set v := by
  have hwf' := AsciiBitmap.set_wf dbg hwf hv h
  rw [AsciiBitmap.set_ok dbg hwf hv] at h
  cases h
  have hlen : v / 8 < bm.bytes.length := by rw [hwf.1]; omega
  unfold VM.AsciiBitmap.set AsciiBitmap.toVM
  congr 1
  apply Nat.eq_of_testBit_eq
  intro u
  rw [AsciiBitmap.testBit_toNat hwf', Nat.testBit_or, AsciiBitmap.testBit_toNat hwf,
    Nat.one_shiftLeft, Nat.testBit_two_pow]
  simp only [List.getElem?_set]
  by_cases hq : v / 8 = u / 8
  · rw [if_pos hq, if_pos hlen, Option.getD_some, Nat.testBit_or, Nat.testBit_two_pow, hq]
    congr 1
    by_cases hr : v % 8 = u % 8
    · have : v = u := by omega
      simp [this]
    · have : ¬ v = u := by omega
      simp [hr, this]
  · rw [if_neg hq]
    have : ¬ v = u := by intro h; subst h; exact hq rfl
    simp [this]

/-- `for bit in r.first..=r.last { result.set(bit as u8) }` on the real `[u8; 16]`. -/
def asciiSetAll (dbg : Bool) : List Nat → AsciiBitmap → Except Err AsciiBitmap
  | [], bm => .ok bm
  | v :: rest, bm =>
    match bm.set dbg v with
    | .error e => .error e
    | .ok bm' => asciiSetAll dbg rest bm'

/-- The loop of `emit.rs bracket_as_ascii` on the real `[u8; 16]` (`VM.bracketAsAsciiLoop` of
`Emit.lean` is the same loop on the 128-bit number, where `set` cannot fail). -/
def bracketAsAsciiBytes (dbg : Bool) : List (Nat × Nat) → AsciiBitmap → Except Err (Option AsciiBitmap)
  | [], result => .ok (some result)
  | r :: rest, result =>
    if r.2 ≥ 128 then .ok none
    else
      match asciiSetAll dbg (List.range' r.1 (r.2 + 1 - r.1)) result with
      | .error e => .error e
      | .ok result' => bracketAsAsciiBytes dbg rest result'

theorem asciiSetAll_ok (dbg : Bool) (vs : List Nat) : ∀ (bm : AsciiBitmap), bm.WF →
    (∀ v ∈ vs, v < 128) →
    ∃ r, asciiSetAll dbg vs bm = .ok r ∧ r.WF ∧ r.toVM = vs.foldl VM.AsciiBitmap.set bm.toVM := by
  induction vs with
  | nil => intro bm hwf _; exact ⟨bm, rfl, hwf, rfl⟩
  | cons v rest ih =>
    intro bm hwf hv
    have hv0 : v < 128 := hv v (by simp)
    have hs := AsciiBitmap.set_ok dbg hwf hv0
    obtain ⟨r, hr, hrwf, hrm⟩ := ih _ (AsciiBitmap.set_wf dbg hwf hv0 hs) (fun x hx => hv x (by simp [hx]))
    refine ⟨r, ?_, hrwf, ?_⟩
    · rw [asciiSetAll, hs]; exact hr
    · rw [hrm, List.foldl_cons, AsciiBitmap.toVM_set dbg hwf hv0 hs]

theorem bracketAsAsciiBytes_ok (dbg : Bool) (ivs : List (Nat × Nat)) : ∀ (bm : AsciiBitmap), bm.WF →
    ∃ r, bracketAsAsciiBytes dbg ivs bm = .ok r ∧ (∀ x ∈ r, x.WF) ∧
      r.map AsciiBitmap.toVM = VM.bracketAsAsciiLoop ivs bm.toVM := by
  induction ivs with
  | nil => intro bm hwf; exact ⟨some bm, rfl, by simpa using hwf, rfl⟩
  | cons iv rest ih =>
    intro bm hwf
    rw [bracketAsAsciiBytes, VM.bracketAsAsciiLoop]
    by_cases h : iv.2 ≥ 128
    · rw [if_pos h, if_pos h]; exact ⟨none, rfl, by simp, rfl⟩
    · rw [if_neg h, if_neg h]
      obtain ⟨r, hr, hrwf, hrm⟩ := asciiSetAll_ok dbg (List.range' iv.1 (iv.2 + 1 - iv.1)) bm hwf
        (by intro v hv; rw [List.mem_range'_1] at hv; omega)
      rw [hr]
      simp only
      rw [← hrm]
      exact ih r hrwf

end Regress.ByteSearch
