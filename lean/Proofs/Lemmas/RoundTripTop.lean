import Proofs.Lemmas.RoundTripDescent
import Proofs.Lemmas.RoundTripNF
import Proofs.Lemmas.RoundTripPaths5
import Proofs.Lemmas.LowerNorm
/-!
# Round trip, part 12: `try_parse` on the printed pattern

`parse_print_core`: pre-scan (`prescan_print`), descent (`node_ok`), `finalize` — the parser on
`printPattern f a` returns the regex `toIR f a`, given the class-atom cases and the class-scan cases
(proved in the class files and discharged in `Proofs/RoundTrip.lean`).
-/
namespace Regress.RoundTrip
open Regress Regress.IR Regress.Parse Regress.Lower Regress.Print

theorem irFlags_norm (f : ES.Flags) :
    (if (irFlags f).unicodeSets then { irFlags f with unicode := true } else irFlags f) = irFlags f := by
  cases hv : f.v <;> simp [irFlags, hv]

theorem parse_print_core {f : ES.Flags} {a : ES.Node} {r : Regex}
    (hC : ∀ P T, ClassAtoms P T) (hc : ClsScan (irFlags f)) (hv : VClsScan (irFlags f))
    (hlex : lexOK a = true) (hnd : noDup a = true)
    (hir : toIR f a = .ok r) : Parse.parse (printPattern f a) (irFlags f) = .ok r := by
  -- what `toIR` did
  simp only [toIR] at hir
  cases hlim : exceedsLimits (normalize a) with
  | true => rw [hlim] at hir; simp at hir
  | false =>
  rw [hlim] at hir
  simp only [Bool.false_eq_true, if_false] at hir
  cases hbody : lowerNode (normalize a) (ES.countParens (normalize a)) (normalize a) (irFlags f) 0 with
  | error e => rw [hbody] at hir; cases hir
  | ok body =>
  rw [hbody] at hir
  simp only at hir
  simp only [exceedsLimits, Bool.or_eq_false_iff, decide_eq_false_iff_not] at hlim
  obtain ⟨⟨hnest, hgroups⟩, hloops⟩ := hlim
  have hdepth := prDepth_le_nest a
  have hcounts := normalize_counts a
  -- the pre-scan
  have hpre := prescan_print hc hv (normalize a)
    { input := pr .disj (normalize a), flags := irFlags f } rfl rfl rfl rfl
    (lower_modeOK _ _ _ _ _ _ hbody) (lexOK_normalize a hlex) (by omega) (noDup_normalize a hnd)
  -- the descent
  have hdisj := (node_ok (normalize a) (ES.countParens (normalize a)) (hC _ _) (normalize a)).disj
    { input := pr .disj (normalize a), flags := irFlags f,
      groupCountMax := ES.countParens (normalize a),
      named := pushAll [] (ES.namedGroups (normalize a) 0) } body []
    (parseFuel (pr .disj (normalize a))) hbody (by simp) (.inl rfl)
    ⟨rfl, by omega, namedR_pushAll _⟩
    ⟨by simp only; omega, by simp only; omega, by simp only; omega⟩ (lexOK_normalize a hlex)
    (by simp only [parseFuel]; omega)
  unfold Parse.parse
  simp only [irFlags_norm, printPattern, tryParse, hpre, parseBody, hdisj, adv_input, finalize, adv_hlb,
    Bool.false_or, adv_flags]
  cases hlb : hasLookbehind (normalize a) with
  | false =>
    rw [hlb] at hir
    simp only [Bool.false_eq_true, if_false, Except.ok.injEq] at hir
    simp only [Bool.false_eq_true, if_false]
    rw [← hir]
  | true =>
    rw [hlb] at hir
    simp only [if_true] at hir ⊢
    cases hrev : reverseCats false (makeCat [body, Node.goal]) with
    | error e => rw [hrev] at hir; cases hir
    | ok nd =>
      rw [hrev] at hir
      simp only [Except.ok.injEq] at hir
      simp only
      rw [← hir]

end Regress.RoundTrip
