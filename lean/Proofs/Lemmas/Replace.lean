import RegressModel.Api.Replace
/-!
# Helper lemmas about `RegressModel/Api/Replace.lean` (used by `Proofs/C17.lean`)

* slice algebra (`slice t a b ++ slice t b c = slice t a c`, …);
* the value computed by the `$digits` loop `parseGroupNum` as a left fold (`digitsVal`);
* the scanners `parseGroupNum` / `readName` never lengthen the remaining input;
* fuel sufficiency of `expandFuel`: any fuel `> tpl.length` gives the same result.
-/
namespace Regress.Api

/-! ## slice algebra -/

theorem slice_full (t : List Nat) : slice t 0 t.length = t := by
  simp [slice]

theorem slice_to_end (t : List Nat) (a : Nat) : slice t a t.length = t.drop a := by
  simp [slice]

theorem slice_from_zero (t : List Nat) (b : Nat) : slice t 0 b = t.take b := by
  simp [slice]

theorem slice_length (t : List Nat) (a b : Nat) :
    (slice t a b).length = min b t.length - a := by
  simp [slice]

theorem slice_self (t : List Nat) (a : Nat) : slice t a a = [] := by
  apply List.eq_nil_of_length_eq_zero
  rw [slice_length]; omega

/-- `&text[a..b]` followed by `&text[b..c]` is `&text[a..c]`. -/
theorem slice_append {t : List Nat} {a b c : Nat} (h1 : a ≤ b) (h2 : b ≤ c) :
    slice t a b ++ slice t b c = slice t a c := by
  unfold slice
  induction t generalizing a b c with
  | nil => simp
  | cons x xs ih =>
    cases c with
    | zero =>
      have hb : b = 0 := by omega
      have ha : a = 0 := by omega
      subst hb; subst ha; simp
    | succ c =>
      cases b with
      | zero =>
        have ha : a = 0 := by omega
        subst ha; simp
      | succ b =>
        cases a with
        | zero =>
          have := ih (a := 0) (b := b) (c := c) (by omega) (by omega)
          simpa using this
        | succ a =>
          have := ih (a := a) (b := b) (c := c) (by omega) (by omega)
          simpa using this

/-- Prefix, middle and suffix reassemble the text. -/
theorem slice_three {t : List Nat} {a b : Nat} (h1 : a ≤ b) (h2 : b ≤ t.length) :
    slice t 0 a ++ slice t a b ++ slice t b t.length = t := by
  rw [slice_append (Nat.zero_le a) h1, slice_append (Nat.zero_le b) h2, slice_full]

/-! ## the `$digits` loop -/

/-- The accumulator of the `$digits` loop after reading the digits `ds` starting from `acc`
(without the early `break`). -/
def digitsVal (acc : Nat) (ds : List Nat) : Nat :=
  ds.foldl (fun a d => a * 10 + (d - 0x30)) acc

@[simp] theorem digitsVal_nil (acc : Nat) : digitsVal acc [] = acc := rfl

@[simp] theorem digitsVal_cons (acc d : Nat) (ds : List Nat) :
    digitsVal acc (d :: ds) = digitsVal (acc * 10 + (d - 0x30)) ds := by
  simp only [digitsVal, List.foldl_cons]

theorem digitsVal_append (acc : Nat) (ds es : List Nat) :
    digitsVal acc (ds ++ es) = digitsVal (digitsVal acc ds) es := by
  simp [digitsVal, List.foldl_append]

theorem le_digitsVal (acc : Nat) (ds : List Nat) : acc ≤ digitsVal acc ds := by
  induction ds generalizing acc with
  | nil => simp
  | cons d ds ih =>
    have := ih (acc * 10 + (d - 0x30))
    simp only [digitsVal_cons]; omega

/-- The value of a prefix of a digit string is at most the value of the whole string. -/
theorem digitsVal_prefix_le (acc : Nat) (ds es : List Nat) :
    digitsVal acc ds ≤ digitsVal acc (ds ++ es) := by
  rw [digitsVal_append]; exact le_digitsVal _ _

theorem digitsVal_dropLast_le (acc : Nat) (ds : List Nat) :
    digitsVal acc ds.dropLast ≤ digitsVal acc ds := by
  rcases List.eq_nil_or_concat ds with h | ⟨l, b, h⟩
  · subst h; simp
  · subst h; simpa using digitsVal_prefix_le acc l [b]

theorem parseGroupNum_length (acc : Nat) (l : List Nat) :
    (parseGroupNum acc l).2.length ≤ l.length := by
  induction l generalizing acc with
  | nil => simp [parseGroupNum]
  | cons d rest ih =>
    unfold parseGroupNum
    split
    · dsimp only
      split
      · simp
      · have := ih (acc * 10 + (d - 0x30)); simp only [List.length_cons]; omega
    · simp

/-- When the first char is a digit, the `$digits` loop consumes at least that char. -/
theorem parseGroupNum_length_lt (acc d : Nat) (l : List Nat) (hd : isAsciiDigit d = true) :
    (parseGroupNum acc (d :: l)).2.length ≤ l.length := by
  unfold parseGroupNum
  simp only [hd, if_true]
  split
  · simp
  · exact parseGroupNum_length _ _

/-! ## the `${name}` loop -/

theorem readName_length (nm l : List Nat) : (readName nm l).2.2.length ≤ l.length := by
  induction l generalizing nm with
  | nil => simp [readName]
  | cons c rest ih =>
    unfold readName
    split
    · simp
    · have := ih (nm ++ [c]); simp only [List.length_cons]; omega

/-- `found_closing_brace == false` means the iterator was exhausted. -/
theorem readName_not_found (nm l : List Nat) (h : (readName nm l).2.1 = false) :
    (readName nm l).2.2 = [] := by
  induction l generalizing nm with
  | nil => simp [readName]
  | cons c rest ih =>
    unfold readName at h ⊢
    split
    · rename_i hc; simp [hc] at h
    · rename_i hc; simp only [hc] at h; exact ih _ h

/-! ## fuel sufficiency of `expandFuel` -/

@[simp] theorem expandFuel_nil (m : MatchR) (text : List Nat) (fuel : Nat) :
    expandFuel m text fuel [] = [] := by
  cases fuel <;> rfl

/-- Any two fuels larger than the template length give the same expansion: the `fuel = 0` arm of
`expandFuel` is never reached from `expandReplacement`. -/
theorem expandFuel_fuel_irrel (m : MatchR) (text : List Nat) :
    ∀ (f1 f2 : Nat) (tpl : List Nat), tpl.length < f1 → tpl.length < f2 →
      expandFuel m text f1 tpl = expandFuel m text f2 tpl := by
  intro f1
  induction f1 with
  | zero => intro f2 tpl h; omega
  | succ f1 ih =>
    intro f2 tpl h1 h2
    cases f2 with
    | zero => omega
    | succ f2 =>
      cases tpl with
      | nil => rfl
      | cons ch chars =>
        simp only [List.length_cons] at h1 h2
        cases chars with
        | nil => simp [expandFuel]
        | cons pk chars' =>
          simp only [List.length_cons] at h1 h2
          simp only [expandFuel]
          split
          · split
            · rw [ih f2 chars' (by omega) (by omega)]
            · split
              · rename_i hd
                have hl := parseGroupNum_length_lt 0 pk chars' hd
                rw [ih f2 _ (by omega) (by omega)]
              · split
                · have hl := readName_length [] chars'
                  generalize readName [] chars' = r at hl ⊢
                  obtain ⟨nm, found, rest⟩ := r
                  simp only at hl ⊢
                  rw [ih f2 rest (by omega) (by omega)]
                · rw [ih f2 (pk :: chars') (by simp; omega) (by simp; omega)]
          · rw [ih f2 (pk :: chars') (by simp; omega) (by simp; omega)]

/-- `expandReplacement` equals `expandFuel` at any sufficient fuel. -/
theorem expandReplacement_eq_fuel (m : MatchR) (text tpl : List Nat) (fuel : Nat)
    (h : tpl.length < fuel) : expandReplacement m text tpl = expandFuel m text fuel tpl :=
  expandFuel_fuel_irrel m text _ _ _ (Nat.lt_succ_self _) h

/-! ## the replace loop -/

theorem replaceAllLoop_nil (text : List Nat) (f : MatchR → List Nat) (c : Nat) :
    replaceAllLoop text f c [] = slice text c text.length := rfl

theorem replaceAllLoop_cons (text : List Nat) (f : MatchR → List Nat) (c : Nat) (m : MatchR)
    (ms : List MatchR) :
    replaceAllLoop text f c (m :: ms) =
      slice text c m.range.1 ++ f m ++ replaceAllLoop text f m.range.2 ms := rfl

end Regress.Api
