import Proofs.Lemmas.EscapeParseSem
import Proofs.Lemmas.E2EParse
/-!
# The side conditions of the keystone / end-to-end theorems hold for the literal IR

`WF` (C03), `Keystone.rootOK` (`Goal` only last, …), `E2E.maxOK` (no loop maximum `usize::MAX`),
no loops, no groups: all by the shape `Cat [make_cat [Char/CharSet …], Goal]`.
-/
namespace Regress.EscapeParse
open Regress Regress.IR Regress.VM Regress.Parse Regress.Keystone Regress.E2E

/-- Facts about one node that hold for `Char` and `CharSet` and lift through `make_cat`. -/
structure Plain (n : Node) : Prop where
  wf : WF n
  kok : kok n = true
  loops : numLoops n = 0
  max : maxOK n = true

structure PlainList (ns : List Node) : Prop where
  wf : WFList ns
  kok : kokList ns = true
  loops : numLoopsList ns = 0
  max : maxOKList ns = true

theorem plain_litChar (fl : IR.Flags) (c : Nat) : Plain (litChar fl c) := by
  unfold litChar
  split
  · split <;> exact ⟨trivial, rfl, rfl, rfl⟩
  · exact ⟨trivial, rfl, rfl, rfl⟩

theorem plainList_lit (fl : IR.Flags) (s : List Nat) : PlainList (s.map (litChar fl)) := by
  induction s with
  | nil => exact ⟨trivial, rfl, rfl, rfl⟩
  | cons c s ih =>
    have h := plain_litChar fl c
    exact ⟨⟨h.wf, ih.wf⟩, by simp [kokList, h.kok, ih.kok], by simp [numLoopsList, h.loops, ih.loops],
      by simp [maxOKList, h.max, ih.max]⟩

theorem plain_makeCat {ns : List Node} (h : PlainList ns) : Plain (makeCat ns) := by
  match ns, h with
  | [], _ => exact ⟨trivial, rfl, rfl, rfl⟩
  | [n], h =>
    show Plain n
    refine ⟨h.wf.1, ?_, ?_, ?_⟩
    · have := h.kok; simpa [kokList] using this
    · have := h.loops; simpa [numLoopsList] using this
    · have := h.max; simpa [maxOKList] using this
  | _ :: _ :: _, h =>
    exact ⟨by simpa only [makeCat, WF] using h.wf, by simpa only [makeCat, Keystone.kok] using h.kok,
      by simpa only [makeCat, numLoops] using h.loops, by simpa only [makeCat, maxOK] using h.max⟩

theorem wf_litNode (fl : IR.Flags) (s : List Nat) : WF (litNode fl s) := by
  have h := plain_makeCat (plainList_lit fl s)
  simp only [litNode, WF, WFList]
  exact ⟨h.wf, trivial, trivial⟩

theorem rootOK_litNode (fl : IR.Flags) (s : List Nat) : rootOK (litNode fl s) = true := by
  have h := plain_makeCat (plainList_lit fl s)
  simp [litNode, rootOK, rootOKList, h.kok]

theorem numLoops_litNode (fl : IR.Flags) (s : List Nat) : numLoops (litNode fl s) = 0 := by
  have h := plain_makeCat (plainList_lit fl s)
  simp [litNode, numLoops, numLoopsList, h.loops]

theorem maxOK_litNode (fl : IR.Flags) (s : List Nat) : maxOK (litNode fl s) = true := by
  have h := plain_makeCat (plainList_lit fl s)
  simp [litNode, maxOK, maxOKList, h.max]

end Regress.EscapeParse
