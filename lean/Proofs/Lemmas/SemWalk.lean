import Proofs.Lemmas.Sem
import Proofs.Lemmas.Utf8
import Proofs.C12
/-!
# Lifting a node-local rewrite through `walk_mut` (post-order) and `run_to_fixpoint`

`WF` is the well-formedness of an IR tree that the parser guarantees and the passes rely on without
checking: quantifiers have `min ≤ max`, the range `g0..g1` of a loop is empty exactly when the loop
body contains no capture group, a `Loop1CharBody` has no capture group.

`PassOK I inp f`: on a well-formed node, whatever the pass `f` answers leaves the node well-formed,
with the same number of capture groups, and observationally equal (at the direction of travel that
the walker's `in_lookbehind` flag denotes).  `processPost_ok` lifts this through the post-order
walk, `runToFixpoint_ok` through the fixpoint iteration.
-/
namespace Regress.IR

open Regress.VM

/-- `min ≤ max`. -/
def quantOk (q : Quant) : Bool :=
  match q.max with
  | none => true
  | some m => decide (q.min ≤ m)

mutual
/-- Well-formedness of an IR tree (guaranteed by the parser, preserved by the passes). -/
def WF : Node → Prop
  | .cat ns => WFList ns
  | .alt l r => WF l ∧ WF r
  | .group _ _ c => WF c
  | .look _ _ _ _ c => WF c
  | .loop b q g0 g1 => WF b ∧ quantOk q = true ∧ (numGroups b = 0 ↔ g1 ≤ g0)
  | .loop1 b q => WF b ∧ quantOk q = true ∧ numGroups b = 0
  | .bracket bc => CPS.WF (toIvList bc.ivs)
  | .byteSeq bs => ∃ cs, Utf8.AllScalar cs ∧ bs = Utf8.encodeAll cs
  | .byteSet bs => ∀ b ∈ bs, b < 128
  | _ => True
def WFList : List Node → Prop
  | [] => True
  | n :: ns => WF n ∧ WFList ns
end

/-- The node after the action of a pass (`Pass::run_postorder`). -/
def PassAction.result : PassAction → Node → Node
  | .keep, n => n
  | .modified n', _ => n'
  | .remove, _ => .empty
  | .replace n', _ => n'

/-- What a pass must satisfy on a well-formed node. -/
def PassOK (I : StInv) (inp : Input) (f : PassFn) : Prop :=
  ∀ n w a, WF n → f n w = .ok a →
    WF (a.result n) ∧ numGroups (a.result n) = numGroups n ∧
      NodeEq I inp (!w.inLookbehind) n (a.result n)

theorem passVisitor_ok {f : PassFn} {n : Node} {w : Walk} {c : Bool} {n' : Node} {w' : Walk} {c' : Bool}
    (h : passVisitor f n w c = .ok (n', w', c')) : ∃ a, f n w = .ok a ∧ n' = a.result n ∧ w' = w := by
  unfold passVisitor at h
  split at h
  · cases h
  · rename_i heq; cases h; exact ⟨_, heq, rfl, rfl⟩
  · rename_i heq; cases h; exact ⟨_, heq, rfl, rfl⟩
  · rename_i heq; cases h; exact ⟨_, heq, rfl, rfl⟩
  · rename_i heq; cases h; exact ⟨_, heq, rfl, rfl⟩

/-! ## Equations of `processPost` -/

section Eqns
variable {σ ε : Type} (f : Visitor σ ε)

/-- `depth -= 1`. -/
def Walk.leave (w : Walk) : Walk := { w with depth := w.depth - 1 }

/-- `depth -= 1`, then the visitor (`postVisit` of the model). -/
def finish (r : Except ε (Node × Walk × σ)) : Except ε (Node × Walk × σ) :=
  match r with
  | .error e => .error e
  | .ok (n, w, s) => f n w.leave s

theorem finish_eq_postVisit (r : Except ε (Node × Walk × σ)) : postVisit f r = finish f r := rfl

theorem processPost_cat (ns : List Node) (w : Walk) (s : σ) :
    processPost f (.cat ns) w s =
      finish f (match processPostList f ns w.enter s with
        | .error e => .error e
        | .ok (ns', w, s) => .ok (.cat ns', w, s)) := rfl

theorem processPost_alt (l r : Node) (w : Walk) (s : σ) :
    processPost f (.alt l r) w s =
      finish f (match processPost f l w.enter s with
        | .error e => .error e
        | .ok (l', w, s) =>
          match processPost f r w s with
          | .error e => .error e
          | .ok (r', w, s) => .ok (.alt l' r', w, s)) := rfl

theorem processPost_loop (b : Node) (q : Quant) (g0 g1 : Nat) (w : Walk) (s : σ) :
    processPost f (.loop b q g0 g1) w s =
      finish f (match processPost f b w.enter s with
        | .error e => .error e
        | .ok (b', w, s) => .ok (.loop b' q g0 g1, w, s)) := rfl

theorem processPost_loop1 (b : Node) (q : Quant) (w : Walk) (s : σ) :
    processPost f (.loop1 b q) w s =
      finish f (match processPost f b w.enter s with
        | .error e => .error e
        | .ok (b', w, s) => .ok (.loop1 b' q, w, s)) := rfl

theorem processPost_group (id : Nat) (name : Option (List Nat)) (c : Node) (w : Walk) (s : σ) :
    processPost f (.group id name c) w s =
      finish f (match processPost f c w.enter s with
        | .error e => .error e
        | .ok (c', w, s) => .ok (.group id name c', w, s)) := rfl

theorem processPost_look (negate backwards : Bool) (sg eg : Nat) (c : Node) (w : Walk) (s : σ) :
    processPost f (.look negate backwards sg eg c) w s =
      finish f (match processPost f c { w.enter with inLookbehind := backwards } s with
        | .error e => .error e
        | .ok (c', w', s) =>
          .ok (.look negate backwards sg eg c', { w' with inLookbehind := w.inLookbehind }, s)) := rfl

/-- A node without children. -/
def Node.isLeaf : Node → Bool
  | .cat _ | .alt _ _ | .group _ _ _ | .look _ _ _ _ _ | .loop _ _ _ _ | .loop1 _ _ => false
  | _ => true

theorem processPost_leaf (n : Node) (hl : n.isLeaf = true) (w : Walk) (s : σ) :
    processPost f n w s = f n w.enter.leave s := by
  cases n <;> first | rfl | simp [Node.isLeaf] at hl

theorem processPostList_nil (w : Walk) (s : σ) : processPostList f [] w s = .ok ([], w, s) := rfl

theorem processPostList_cons (n : Node) (ns : List Node) (w : Walk) (s : σ) :
    processPostList f (n :: ns) w s =
      match processPost f n w s with
      | .error e => .error e
      | .ok (n', w, s) =>
        match processPostList f ns w s with
        | .error e => .error e
        | .ok (ns', w, s) => .ok (n' :: ns', w, s) := rfl

end Eqns

/-! ## The post-order walk -/

theorem finish_ok {σ ε : Type} {f : Visitor σ ε} {r : Except ε (Node × Walk × σ)} {n' : Node} {w' : Walk} {c' : σ}
    (h : finish f r = .ok (n', w', c')) : ∃ m wm cm, r = .ok (m, wm, cm) ∧ f m wm.leave cm = .ok (n', w', c') := by
  unfold finish at h
  split at h
  · cases h
  · exact ⟨_, _, _, rfl, h⟩

/-- What the walk establishes for a node (`lb` = the walker's `in_lookbehind` at the node). -/
def WalkOK (I : StInv) (inp : Input) (lb : Bool) (n n' : Node) : Prop :=
  WF n' ∧ numGroups n' = numGroups n ∧ NodeEq I inp (!lb) n n'

def WalkListOK (I : StInv) (inp : Input) (lb : Bool) (ns ns' : List Node) : Prop :=
  WFList ns' ∧ numGroupsList ns' = numGroupsList ns ∧ ListEq I inp (!lb) ns ns'

/-- The visitor step at the end of `process`: from the rebuilt node `m` to the pass result. -/
theorem visit_ok {I : StInv} {inp : Input} {f : PassFn} (hf : PassOK I inp f)
    {n m n' : Node} {wm w' : Walk} {cm c' : Bool} {lb : Bool}
    (hv : passVisitor f m wm.leave cm = .ok (n', w', c')) (hlb : wm.inLookbehind = lb)
    (hm : WalkOK I inp lb n m) : w'.inLookbehind = lb ∧ WalkOK I inp lb n n' := by
  obtain ⟨a, ha, rfl, rfl⟩ := passVisitor_ok hv
  obtain ⟨h1, h2, h3⟩ := hf m wm.leave a hm.1 ha
  refine ⟨hlb, h1, h2.trans hm.2.1, ?_⟩
  have : wm.leave.inLookbehind = lb := hlb
  rw [this] at h3
  exact hm.2.2.trans h3

mutual
theorem processPost_ok {I : StInv} {inp : Input} {f : PassFn} (hf : PassOK I inp f)
    (hP : ∀ fwd n, WF n → Pres I inp fwd n) :
    ∀ (n : Node) (w : Walk) (c : Bool) (n' : Node) (w' : Walk) (c' : Bool),
      processPost (passVisitor f) n w c = .ok (n', w', c') → WF n →
        w'.inLookbehind = w.inLookbehind ∧ WalkOK I inp w.inLookbehind n n'
  | .cat ns, w, c, n', w', c', h, hw => by
    rw [processPost_cat] at h
    obtain ⟨m, wm, cm, hr, hv⟩ := finish_ok h
    split at hr
    · cases hr
    · rename_i ns' w1 c1 heq
      cases hr
      have ih := processPostList_ok hf hP ns w.enter c ns' wm cm heq (by simpa [WF] using hw)
      exact visit_ok hf hv ih.1 ⟨by simpa [WF] using ih.2.1, by simpa [numGroups] using ih.2.2.1, NodeEq.cat ih.2.2.2⟩
  | .alt l r, w, c, n', w', c', h, hw => by
    rw [processPost_alt] at h
    obtain ⟨m, wm, cm, hr, hv⟩ := finish_ok h
    simp only [WF] at hw
    split at hr
    · cases hr
    · rename_i l' w1 c1 heq1
      split at hr
      · cases hr
      · rename_i r' w2 c2 heq2
        cases hr
        have ih1 := processPost_ok hf hP l w.enter c l' w1 c1 heq1 hw.1
        have ih2 := processPost_ok hf hP r w1 c1 r' wm cm heq2 hw.2
        have e1 : w1.inLookbehind = w.inLookbehind := ih1.1
        rw [e1] at ih2
        refine visit_ok hf hv ih2.1 ⟨?_, ?_, NodeEq.alt ih1.2.2.2 ih2.2.2.2⟩
        · simp only [WF]; exact ⟨ih1.2.1, ih2.2.1⟩
        · simp [numGroups, ih1.2.2.1, ih2.2.2.1]
  | .loop b q g0 g1, w, c, n', w', c', h, hw => by
    rw [processPost_loop] at h
    obtain ⟨m, wm, cm, hr, hv⟩ := finish_ok h
    simp only [WF] at hw
    split at hr
    · cases hr
    · rename_i b' w1 c1 heq
      cases hr
      have ih := processPost_ok hf hP b w.enter c b' wm cm heq hw.1
      refine visit_ok hf hv ih.1 ⟨?_, ?_, NodeEq.loop q g0 g1 ih.2.2.2 (hP _ b hw.1)⟩
      · simp only [WF]; rw [ih.2.2.1]; exact ⟨ih.2.1, hw.2⟩
      · simp [numGroups, ih.2.2.1]
  | .loop1 b q, w, c, n', w', c', h, hw => by
    rw [processPost_loop1] at h
    obtain ⟨m, wm, cm, hr, hv⟩ := finish_ok h
    simp only [WF] at hw
    split at hr
    · cases hr
    · rename_i b' w1 c1 heq
      cases hr
      have ih := processPost_ok hf hP b w.enter c b' wm cm heq hw.1
      refine visit_ok hf hv ih.1 ⟨?_, ?_, NodeEq.loop1 q ih.2.2.2 (hP _ b hw.1)⟩
      · simp only [WF]; rw [ih.2.2.1]; exact ⟨ih.2.1, hw.2⟩
      · simp [numGroups, ih.2.2.1]
  | .group id name b, w, c, n', w', c', h, hw => by
    rw [processPost_group] at h
    obtain ⟨m, wm, cm, hr, hv⟩ := finish_ok h
    simp only [WF] at hw
    split at hr
    · cases hr
    · rename_i b' w1 c1 heq
      cases hr
      have ih := processPost_ok hf hP b w.enter c b' wm cm heq hw
      refine visit_ok hf hv ih.1 ⟨?_, ?_, NodeEq.group id name ih.2.2.2⟩
      · simpa [WF] using ih.2.1
      · simp [numGroups, ih.2.2.1]
  | .look negate backwards sg eg b, w, c, n', w', c', h, hw => by
    rw [processPost_look] at h
    obtain ⟨m, wm, cm, hr, hv⟩ := finish_ok h
    simp only [WF] at hw
    split at hr
    · cases hr
    · rename_i b' w1 c1 heq
      cases hr
      have ih := processPost_ok hf hP b { w.enter with inLookbehind := backwards } c b' w1 cm heq hw
      refine visit_ok hf hv rfl ⟨?_, ?_, NodeEq.look negate backwards sg eg ih.2.2.2⟩
      · simpa [WF] using ih.2.1
      · simp [numGroups, ih.2.2.1]
  | .empty, w, c, n', w', c', h, hw => by
    rw [processPost_leaf _ _ rfl] at h
    exact visit_ok hf h rfl ⟨hw, rfl, NodeEq.refl _ _ _ _⟩
  | .goal, w, c, n', w', c', h, hw => by
    rw [processPost_leaf _ _ rfl] at h
    exact visit_ok hf h rfl ⟨hw, rfl, NodeEq.refl _ _ _ _⟩
  | .char _, w, c, n', w', c', h, hw => by
    rw [processPost_leaf _ _ rfl] at h
    exact visit_ok hf h rfl ⟨hw, rfl, NodeEq.refl _ _ _ _⟩
  | .byteSeq _, w, c, n', w', c', h, hw => by
    rw [processPost_leaf _ _ rfl] at h
    exact visit_ok hf h rfl ⟨hw, rfl, NodeEq.refl _ _ _ _⟩
  | .byteSet _, w, c, n', w', c', h, hw => by
    rw [processPost_leaf _ _ rfl] at h
    exact visit_ok hf h rfl ⟨hw, rfl, NodeEq.refl _ _ _ _⟩
  | .charSet _, w, c, n', w', c', h, hw => by
    rw [processPost_leaf _ _ rfl] at h
    exact visit_ok hf h rfl ⟨hw, rfl, NodeEq.refl _ _ _ _⟩
  | .matchAny, w, c, n', w', c', h, hw => by
    rw [processPost_leaf _ _ rfl] at h
    exact visit_ok hf h rfl ⟨hw, rfl, NodeEq.refl _ _ _ _⟩
  | .matchAnyExceptLT, w, c, n', w', c', h, hw => by
    rw [processPost_leaf _ _ rfl] at h
    exact visit_ok hf h rfl ⟨hw, rfl, NodeEq.refl _ _ _ _⟩
  | .anchor _ _, w, c, n', w', c', h, hw => by
    rw [processPost_leaf _ _ rfl] at h
    exact visit_ok hf h rfl ⟨hw, rfl, NodeEq.refl _ _ _ _⟩
  | .wordBoundary _ _, w, c, n', w', c', h, hw => by
    rw [processPost_leaf _ _ rfl] at h
    exact visit_ok hf h rfl ⟨hw, rfl, NodeEq.refl _ _ _ _⟩
  | .backRef _ _, w, c, n', w', c', h, hw => by
    rw [processPost_leaf _ _ rfl] at h
    exact visit_ok hf h rfl ⟨hw, rfl, NodeEq.refl _ _ _ _⟩
  | .bracket _, w, c, n', w', c', h, hw => by
    rw [processPost_leaf _ _ rfl] at h
    exact visit_ok hf h rfl ⟨hw, rfl, NodeEq.refl _ _ _ _⟩
  | .stringSet _ _, w, c, n', w', c', h, hw => by
    rw [processPost_leaf _ _ rfl] at h
    exact visit_ok hf h rfl ⟨hw, rfl, NodeEq.refl _ _ _ _⟩
theorem processPostList_ok {I : StInv} {inp : Input} {f : PassFn} (hf : PassOK I inp f)
    (hP : ∀ fwd n, WF n → Pres I inp fwd n) :
    ∀ (ns : List Node) (w : Walk) (c : Bool) (ns' : List Node) (w' : Walk) (c' : Bool),
      processPostList (passVisitor f) ns w c = .ok (ns', w', c') → WFList ns →
        w'.inLookbehind = w.inLookbehind ∧ WalkListOK I inp w.inLookbehind ns ns'
  | [], w, c, ns', w', c', h, _ => by
    rw [processPostList_nil] at h
    cases h
    exact ⟨rfl, trivial, rfl, .nil⟩
  | n :: ns, w, c, ns', w', c', h, hw => by
    rw [processPostList_cons] at h
    simp only [WFList] at hw
    split at h
    · cases h
    · rename_i n1 w1 c1 heq1
      split at h
      · cases h
      · rename_i ns1 w2 c2 heq2
        cases h
        have ih1 := processPost_ok hf hP n w c n1 w1 c1 heq1 hw.1
        have ih2 := processPostList_ok hf hP ns w1 c1 ns1 w' c' heq2 hw.2
        have e1 : w1.inLookbehind = w.inLookbehind := ih1.1
        rw [e1] at ih2
        refine ⟨ih2.1, ?_, ?_, .cons ih1.2.2.2 (hP _ n hw.1) ih2.2.2.2⟩
        · simp only [WFList]; exact ⟨ih1.2.1, ih2.2.1⟩
        · simp [numGroupsList, ih1.2.2.1, ih2.2.2.1]
end

/-! ## `run_postorder`, `run_to_fixpoint`, `run_pass`, `optimize` -/

/-- What a whole pass (or the whole pipeline) establishes for the tree: well-formed, same number of
groups, observationally equal travelling forward. -/
def TreeOK (I : StInv) (inp : Input) (n n' : Node) : Prop := WalkOK I inp false n n'

theorem TreeOK.refl (I : StInv) (inp : Input) {n : Node} (h : WF n) : TreeOK I inp n n :=
  ⟨h, rfl, NodeEq.refl _ _ _ _⟩

theorem TreeOK.trans {I : StInv} {inp : Input} {a b c : Node} (h1 : TreeOK I inp a b) (h2 : TreeOK I inp b c) :
    TreeOK I inp a c := ⟨h2.1, h2.2.1.trans h1.2.1, h1.2.2.trans h2.2.2⟩

theorem runPostorder_ok {I : StInv} {inp : Input} {f : PassFn} (hf : PassOK I inp f)
    (hP : ∀ fwd n, WF n → Pres I inp fwd n) {unicode : Bool} {n n' : Node} {c c' : Bool}
    (h : runPostorder f unicode n c = .ok (n', c')) (hw : WF n) : TreeOK I inp n n' := by
  unfold runPostorder walkMutPost at h
  split at h
  · cases h
  · rename_i n1 w1 c1 heq
    cases h
    exact (processPost_ok hf hP n (Walk.new unicode) c n' w1 c' heq hw).2

theorem runToFixpoint_ok {I : StInv} {inp : Input} {f : PassFn} (hf : PassOK I inp f)
    (hP : ∀ fwd n, WF n → Pres I inp fwd n) {unicode : Bool} :
    ∀ (fuel : Nat) {n n' : Node} {c' : Bool}, runToFixpoint f unicode fuel n = .ok (n', c') → WF n →
      TreeOK I inp n n' := by
  intro fuel
  induction fuel with
  | zero => intro n n' c' h _; simp [runToFixpoint] at h
  | succ k ih =>
    intro n n' c' h hw
    unfold runToFixpoint at h
    split at h
    · cases h
    · rename_i n1 changed heq
      have h1 := runPostorder_ok hf hP heq hw
      split at h
      · cases h; exact h1
      · exact h1.trans (ih h h1.1)

theorem runPass_ok {I : StInv} {inp : Input} {f : PassFn} (hf : PassOK I inp f)
    (hP : ∀ fwd n, WF n → Pres I inp fwd n) {fuel : Nat} {r r' : Regex} {c : Bool}
    (h : runPass f fuel r = .ok (r', c)) (hw : WF r.node) :
    TreeOK I inp r.node r'.node ∧ r'.flags = r.flags := by
  unfold runPass at h
  split at h
  · cases h
  · rename_i n changed heq
    cases h
    exact ⟨runToFixpoint_ok hf hP fuel heq hw, rfl⟩

/-- The seven passes of `optimize`. -/
structure PassesOK (I : StInv) (inp : Input) : Prop where
  simplifyBrackets : PassOK I inp simplifyBrackets
  decat : PassOK I inp decat
  unrollLoops : PassOK I inp unrollLoops
  promote1CharLoops : PassOK I inp promote1CharLoops
  formLiteralBytes : PassOK I inp formLiteralBytes
  removeEmpties : PassOK I inp removeEmpties
  propagateEarlyFails : PassOK I inp propagateEarlyFails

theorem optimizeRound_ok {I : StInv} {inp : Input} (hp : PassesOK I inp)
    (hP : ∀ fwd n, WF n → Pres I inp fwd n) {fuel : Nat} {r r' : Regex} {c : Bool}
    (h : optimizeRound fuel r = .ok (r', c)) (hw : WF r.node) : TreeOK I inp r.node r'.node := by
  unfold optimizeRound at h
  split at h
  · cases h
  · rename_i r1 c1 e1
    have t1 := (runPass_ok hp.decat hP e1 hw).1
    split at h
    · cases h
    · rename_i r2 c2 e2
      have t2 := (runPass_ok hp.unrollLoops hP e2 t1.1).1
      split at h
      · cases h
      · rename_i r3 c3 e3
        have t3 := (runPass_ok hp.promote1CharLoops hP e3 t2.1).1
        split at h
        · cases h
        · rename_i r4 c4 e4
          have t4 := (runPass_ok hp.formLiteralBytes hP e4 t3.1).1
          split at h
          · cases h
          · rename_i r5 c5 e5
            have t5 := (runPass_ok hp.removeEmpties hP e5 t4.1).1
            split at h
            · cases h
            · rename_i r6 c6 e6
              have t6 := (runPass_ok hp.propagateEarlyFails hP e6 t5.1).1
              cases h
              exact t1.trans (t2.trans (t3.trans (t4.trans (t5.trans t6))))

theorem optimizeLoop_ok {I : StInv} {inp : Input} (hp : PassesOK I inp)
    (hP : ∀ fwd n, WF n → Pres I inp fwd n) {fuel : Nat} :
    ∀ (outer : Nat) {r r' : Regex}, optimizeLoop fuel outer r = .ok r' → WF r.node →
      TreeOK I inp r.node r'.node := by
  intro outer
  induction outer with
  | zero => intro r r' h _; simp [optimizeLoop] at h
  | succ k ih =>
    intro r r' h hw
    unfold optimizeLoop at h
    split at h
    · cases h
    · rename_i r1 changed heq
      have t1 := optimizeRound_ok hp hP heq hw
      split at h
      · cases h; exact t1
      · exact t1.trans (ih h t1.1)

/-- The whole pipeline `optimizer::optimize`. -/
theorem optimize_ok {I : StInv} {inp : Input} (hp : PassesOK I inp)
    (hP : ∀ fwd n, WF n → Pres I inp fwd n) {fuel : Nat} {r r' : Regex}
    (h : optimize fuel r = .ok r') (hw : WF r.node) : TreeOK I inp r.node r'.node := by
  unfold optimize at h
  split at h
  · cases h
  · rename_i r1 c1 e1
    have t1 := (runPass_ok hp.simplifyBrackets hP e1 hw).1
    exact t1.trans (optimizeLoop_ok hp hP fuel h t1.1)

end Regress.IR
