import Proofs.Lemmas.C08FragProp
/-!
# C08 fragment equivalence: escapes outside classes, UnicodeMode

The crate's `consume_character_escape` / `try_escape_unicode_sequence` / `consume_atom_escape`
against the grammar's `charEscapeU` / `uEscapeU` / `atomEscape`.
-/
namespace Regress.C08Frag
open Regress Regress.IR Regress.Parse Regress.ESG

/-! ## Hex digits -/

theorem hexDigit?_eq (c : Nat) : hexDigit? c = if ESG.isHex c then some (ESG.hexVal c) else none := by
  unfold hexDigit? ESG.isHex ESG.hexVal ESG.isDigit
  by_cases h1 : 0x30 ≤ c ∧ c ≤ 0x39
  · simp [h1.1, h1.2]
  · have e1 : (decide (0x30 ≤ c) && decide (c ≤ 0x39)) = false := by simp; omega
    simp only [e1, Bool.false_eq_true, if_false, Bool.false_or]
    by_cases h2 : 0x61 ≤ c ∧ c ≤ 0x66
    · have e3 : (decide (0x41 ≤ c) && decide (c ≤ 0x46)) = false := by simp; omega
      have e4 : ¬ c ≤ 0x46 := by omega
      simp [h2.1, h2.2, e3, e4]
    · have e2 : (decide (0x61 ≤ c) && decide (c ≤ 0x66)) = false := by simp; omega
      simp only [e2, Bool.false_eq_true, if_false, Bool.or_false]
      by_cases h3 : 0x41 ≤ c ∧ c ≤ 0x46
      · simp [h3.1, h3.2]
      · have e3 : (decide (0x41 ≤ c) && decide (c ≤ 0x46)) = false := by simp; omega
        simp [e3]

/-- Value of a hex digit string read left to right from the accumulator. -/
def hv : List Nat → Nat → Nat
  | [], a => a
  | c :: cs, a => hv cs (a * 16 + ESG.hexVal c)

theorem hexAll_eq (l : List Nat) : ∀ acc, hexAll l acc = if l.all ESG.isHex then some (hv l acc) else none := by
  induction l with
  | nil => intro acc; simp [hexAll, hv]
  | cons c cs ih =>
    intro acc
    unfold hexAll
    rw [hexDigit?_eq]
    by_cases h : ESG.isHex c = true
    · simp only [h, if_true, List.all_cons, Bool.true_and, hv]
      exact ih _
    · simp [h]

theorem takeHex_eq (s : List Nat) : ∀ a k, takeHex s a k =
    (hv (s.takeWhile ESG.isHex) a, k + (s.takeWhile ESG.isHex).length, s.dropWhile ESG.isHex) := by
  induction s with
  | nil => intro a k; simp [takeHex, hv]
  | cons c r ih =>
    intro a k
    unfold takeHex
    by_cases h : ESG.isHex c = true
    · simp only [h, if_true, List.takeWhile_cons_of_pos, List.dropWhile_cons_of_pos, hv, List.length_cons]
      rw [ih]; simp only [Prod.mk.injEq, and_true, true_and]; omega
    · simp only [h, Bool.false_eq_true, if_false]
      simp [List.takeWhile_cons_of_neg h, List.dropWhile_cons_of_neg h, hv]

theorem allHexDigits_eq (s : List Nat) : allHexDigits s = s.all ESG.isHex := by
  unfold allHexDigits
  congr 1
  funext c
  rw [hexDigit?_eq]
  cases ESG.isHex c <;> rfl

theorem isHex_plus : ESG.isHex 0x2B = false := by decide
theorem isHex_minus : ESG.isHex 0x2D = false := by decide

/-- `uN::from_str_radix` behind the all-hex-digits test. -/
theorem hexDigitsRadix16_eq (s : List Nat) :
    hexDigitsRadix16 s = if s.all ESG.isHex && !s.isEmpty then some (hv s 0) else none := by
  unfold hexDigitsRadix16
  rw [allHexDigits_eq]
  by_cases h : s.all ESG.isHex = true
  · simp only [h, if_true, Bool.true_and]
    unfold fromStrRadix16
    split
    · simp
    · simp [isHex_plus] at h
    · simp [isHex_minus] at h
    · simp [isHex_plus] at h
    · rename_i h1 _ _ _
      have hne : s ≠ [] := fun e => h1 e
      rw [hexAll_eq, h]
      cases s with
      | nil => exact absurd rfl hne
      | cons _ _ => simp
  · simp [h]

/-! ## `\\u{…}` -/

def AllChar (l : List Nat) : Prop := ∀ c ∈ l, Parse.isChar c = true

theorem AllChar.tail {c : Nat} {l : List Nat} (h : AllChar (c :: l)) : AllChar l :=
  fun x hx => h x (by simp [hx])
theorem AllChar.head {c : Nat} {l : List Nat} (h : AllChar (c :: l)) : Parse.isChar c = true := h c (by simp)
theorem AllChar.append_right {p l : List Nat} (h : AllChar (p ++ l)) : AllChar l :=
  fun x hx => h x (by simp [hx])

theorem scanBrace_spec (inp : List Nat) (h : AllChar inp) : ∀ acc, scanBrace inp acc =
    match inp.dropWhile (fun c => c != 0x7D) with
    | [] => none
    | _ :: rest' => some (acc ++ inp.takeWhile (fun c => c != 0x7D), rest') := by
  induction inp with
  | nil => intro acc; rfl
  | cons c r ih =>
    intro acc
    unfold scanBrace
    simp only [h.head, Bool.not_true, Bool.false_eq_true, if_false]
    by_cases hc : c = 0x7D
    · subst hc; simp
    · have e1 : (c == 0x7D) = false := by simp [hc]
      have e2 : (c != 0x7D) = true := by simp [hc]
      simp only [e1, Bool.false_eq_true, if_false]
      rw [ih h.tail]
      simp only [List.dropWhile_cons, List.takeWhile_cons, e2, if_true]
      simp

/-- `takeWhile`/`dropWhile` stop exactly at the first element failing the test. -/
theorem tw_dw_stop {p : Nat → Bool} (l : List Nat) (a : Nat) (m : List Nat) (hl : l.all p = true)
    (ha : p a = false) : (l ++ a :: m).takeWhile p = l ∧ (l ++ a :: m).dropWhile p = a :: m := by
  induction l with
  | nil => simp [ha]
  | cons x xs ih =>
    simp only [List.all_cons, Bool.and_eq_true] at hl
    have := ih hl.2
    simp [hl.1, this]

theorem tw_dw_split {p : Nat → Bool} (s : List Nat) : s = s.takeWhile p ++ s.dropWhile p :=
  (List.takeWhile_append_dropWhile).symm

theorem all_takeWhile {p : Nat → Bool} (s : List Nat) : (s.takeWhile p).all p = true := by
  induction s with
  | nil => rfl
  | cons x xs ih =>
    by_cases hx : p x = true
    · simp [List.takeWhile_cons_of_pos hx, hx, ih]
    · simp [List.takeWhile_cons_of_neg hx]

theorem dropWhile_head {p : Nat → Bool} (s : List Nat) (a : Nat) (m : List Nat)
    (h : s.dropWhile p = a :: m) : p a = false := by
  induction s with
  | nil => simp at h
  | cons x xs ih =>
    by_cases hx : p x = true
    · rw [List.dropWhile_cons_of_pos hx] at h; exact ih h
    · rw [List.dropWhile_cons_of_neg hx] at h; cases h; simpa using hx

theorem isHex_rbrace : ESG.isHex 0x7D = false := by decide

theorem isHex_ne_rbrace {c : Nat} (h : ESG.isHex c = true) : (c != 0x7D) = true := by
  by_cases hc : c = 0x7D
  · subst hc; simp [isHex_rbrace] at h
  · simp [hc]

/-- `\u{…}`: the crate reads up to the first `}` and then wants hex digits only; the grammar reads
hex digits and then wants `}`. -/
theorem uBrace_sim (rest : List Nat) (h : AllChar rest) :
    (match takeHex rest 0 0 with
      | (v, k, 0x7D :: r') => if k ≥ 1 && decide (v ≤ 0x10FFFF) then some (v, r') else none
      | _ => none) =
    (match scanBrace rest [] with
      | none => none
      | some (s, rest') =>
        match hexDigitsRadix16 s with
        | some u => if u > 0x10FFFF then none else some (u, rest')
        | none => none) := by
  rw [takeHex_eq, scanBrace_spec rest h, List.nil_append]
  -- B/E: split at the first `}`;  T/D: split at the first non-hex character
  cases hE : rest.dropWhile (fun c => c != 0x7D) with
  | nil =>
    -- no `}` at all
    simp only
    cases hD : rest.dropWhile ESG.isHex with
    | nil => rfl
    | cons y m =>
      by_cases hy : y = 0x7D
      · subst hy
        exfalso
        have hs := tw_dw_split (p := fun c => c != 0x7D) rest
        rw [hE, List.append_nil] at hs
        have hall := all_takeWhile (p := fun c => c != 0x7D) rest
        rw [← hs] at hall
        have hs2 := tw_dw_split (p := ESG.isHex) rest
        rw [hD] at hs2
        rw [hs2] at hall
        simp at hall
      · simp [hy]
  | cons a rest' =>
    have ha : a = 0x7D := by
      have := dropWhile_head _ _ _ hE
      simpa using this
    subst ha
    simp only
    rw [hexDigitsRadix16_eq]
    have hsB := tw_dw_split (p := fun c => c != 0x7D) rest
    rw [hE] at hsB
    by_cases hB : (rest.takeWhile (fun c => c != 0x7D)).all ESG.isHex = true
    · -- hex digits up to the `}`: both read the same digits
      have := tw_dw_stop (p := ESG.isHex) _ 0x7D rest' hB isHex_rbrace
      rw [← hsB] at this
      rw [this.1, this.2]
      simp only [hB, Bool.true_and]
      cases hBn : rest.takeWhile (fun c => c != 0x7D) with
      | nil => simp
      | cons b bs =>
        simp only [List.length_cons, List.isEmpty_cons, Bool.not_false, if_true]
        by_cases hv : hv (b :: bs) 0 ≤ 0x10FFFF
        · simp [hv]
        · simp [hv]
    · -- a non-hex character before the `}`: the grammar stops there
      simp only [hB, Bool.false_and, Bool.false_eq_true, if_false]
      cases hD : rest.dropWhile ESG.isHex with
      | nil => rfl
      | cons y m =>
        by_cases hy : y = 0x7D
        · subst hy
          exfalso
          have hs2 := tw_dw_split (p := ESG.isHex) rest
          rw [hD] at hs2
          have hT := all_takeWhile (p := ESG.isHex) rest
          have hT' : (rest.takeWhile ESG.isHex).all (fun c => c != 0x7D) = true := by
            rw [List.all_eq_true] at hT ⊢
            intro c hc; exact isHex_ne_rbrace (hT c hc)
          have := tw_dw_stop (p := fun c => c != 0x7D) _ 0x7D m hT' (by simp)
          rw [← hs2] at this
          rw [this.1] at hB
          exact hB hT
        · simp [hy]

/-! ## `\\uHHHH`, surrogate pairs -/

/-- `(Option value, rest)` as `Option (value, rest)`. -/
def optPair (x : Option Nat × List Nat) : Option (Nat × List Nat) :=
  match x with
  | (some v, r) => some (v, r)
  | (none, _) => none

theorem hex4_sim (s : List Nat) (h : AllChar s) :
    hex4 s = match take4 s with
      | none => none
      | some (d, rest) =>
        match hexDigitsRadix16 d with
        | none => none
        | some u => some (u, rest) := by
  rcases s with _ | ⟨a, _ | ⟨b, _ | ⟨c, _ | ⟨d, r⟩⟩⟩⟩
  · rfl
  · rfl
  · rfl
  · rfl
  · have ha := h a (by simp); have hb := h b (by simp); have hc := h c (by simp); have hd := h d (by simp)
    simp only [hex4, take4, ha, hb, hc, hd, Bool.and_self, if_true, hexDigitsRadix16_eq]
    by_cases hh : ESG.isHex a = true ∧ ESG.isHex b = true ∧ ESG.isHex c = true ∧ ESG.isHex d = true
    · simp [hh.1, hh.2.1, hh.2.2.1, hh.2.2.2, hv]
    · have h1 : (ESG.isHex a && ESG.isHex b && ESG.isHex c && ESG.isHex d) = false := by
        simp only [Bool.and_eq_false_iff, Bool.and_eq_true]
        by_cases h1 : ESG.isHex a = true
        · by_cases h2 : ESG.isHex b = true
          · by_cases h3 : ESG.isHex c = true
            · by_cases h4 : ESG.isHex d = true
              · exact absurd ⟨h1, h2, h3, h4⟩ hh
              · exact .inr (by simpa using h4)
            · exact .inl (.inr (by simpa using h3))
          · exact .inl (.inl (.inr (by simpa using h2)))
        · exact .inl (.inl (.inl (by simpa using h1)))
      simp [h1, hh]


theorem take4_split {inp s rest : List Nat} (h : take4 inp = some (s, rest)) : inp = s ++ rest := by
  rcases inp with _ | ⟨a, _ | ⟨b, _ | ⟨c, _ | ⟨d, r⟩⟩⟩⟩ <;> simp [take4] at h
  obtain ⟨_, rfl, rfl⟩ := h
  rfl

/-- `RegExpUnicodeEscapeSequence[+UnicodeMode]` (after the `u`): the two readers agree, values
included. -/
theorem uEsc_sim (r : List Nat) (h : AllChar r) :
    uEscapeU r = optPair (tryEscapeUnicodeSequence r) := by
  by_cases hb : ∃ rest, r = 0x7B :: rest
  · obtain ⟨rest, rfl⟩ := hb
    have := uBrace_sim rest h.tail
    simp only [uEscapeU, tryEscapeUnicodeSequence]
    refine this.trans ?_
    cases scanBrace rest [] with
    | none => rfl
    | some p =>
      obtain ⟨s, rest'⟩ := p
      simp only
      cases hexDigitsRadix16 s with
      | none => rfl
      | some u => simp only; split <;> rfl
  · have hnb : ∀ rest, r ≠ 0x7B :: rest := fun rest e => hb ⟨rest, e⟩
    have e1 : uEscapeU r =
        match hex4 r with
        | none => none
        | some (a, r1) =>
          if isLead a then
            match r1 with
            | 0x5C :: 0x75 :: r2 =>
              match hex4 r2 with
              | some (b, r3) => if isTrail b then some (combine a b, r3) else some (a, r1)
              | none => some (a, r1)
            | _ => some (a, r1)
          else some (a, r1) := by
      unfold uEscapeU
      split
      · rename_i rest; exact absurd rfl (hnb rest)
      · rfl
    have e2 : tryEscapeUnicodeSequence r =
        match take4 r with
        | none => (none, r)
        | some (s, rest) =>
          match hexDigitsRadix16 s with
          | none => (none, r)
          | some u =>
            if 0xD800 ≤ u && u ≤ 0xDBFF then
              match rest with
              | 0x5C :: 0x75 :: rest2 =>
                match take4 rest2 with
                | none => (some u, rest)
                | some (s2, rest3) =>
                  match hexDigitsRadix16 s2 with
                  | none => (some u, rest)
                  | some uu =>
                    if 0xDC00 ≤ uu && uu ≤ 0xDFFF then
                      (some (0x10000 + (u - 0xD800) * 0x400 + (uu - 0xDC00)), rest3)
                    else (some u, rest)
              | _ => (some u, rest)
            else (some u, rest) := by
      unfold tryEscapeUnicodeSequence
      split
      · rename_i rest; exact absurd rfl (hnb rest)
      · rfl
    rw [e1, e2, hex4_sim r h]
    cases ht : take4 r with
    | none => rfl
    | some p =>
      obtain ⟨s, rest⟩ := p
      have hrest : AllChar rest := by
        have := take4_split ht; rw [this] at h; exact h.append_right
      simp only
      cases hexDigitsRadix16 s with
      | none => rfl
      | some u =>
        simp only
        have hl : isLead u = (decide (0xD800 ≤ u) && decide (u ≤ 0xDBFF)) := rfl
        rw [hl]
        by_cases hlead : (decide (0xD800 ≤ u) && decide (u ≤ 0xDBFF)) = true
        · simp only [hlead, if_true]
          rcases rest with _ | ⟨y, _ | ⟨z, rest2⟩⟩
          · rfl
          · by_cases hy : y = 0x5C <;> simp [hy, optPair]
          · by_cases hy : y = 0x5C
            · by_cases hz : z = 0x75
              · subst hy; subst hz
                simp only
                rw [hex4_sim rest2 hrest.tail.tail]
                cases take4 rest2 with
                | none => rfl
                | some p2 =>
                  obtain ⟨s2, rest3⟩ := p2
                  simp only
                  cases hexDigitsRadix16 s2 with
                  | none => rfl
                  | some uu =>
                    simp only
                    have ht : isTrail uu = (decide (0xDC00 ≤ uu) && decide (uu ≤ 0xDFFF)) := rfl
                    rw [ht]
                    split <;> rfl
              · simp [hy, hz, optPair]
            · simp [hy, optPair]
        · simp only [hlead, Bool.false_eq_true, if_false]; rfl

/-! ## Character escapes -/

theorem isAsciiAlpha_eq (c : Nat) : Parse.isAsciiAlpha c = ESG.isAsciiLetter c := by
  unfold Parse.isAsciiAlpha Parse.isAsciiLower Parse.isAsciiUpper ESG.isAsciiLetter
  exact Bool.or_comm _ _

/-- `CharacterEscape[+UnicodeMode]`: the crate's `consume_character_escape` (with `unicode`) and the
grammar's `charEscapeU` agree, values included. -/
theorem charEsc_sim (hn : Bool) (x : Nat) (r : List Nat) (h : AllChar r) :
    match charEscapeU x r with
    | some (v, r') => characterEscape true hn (x :: r) = .ok (v, r')
    | none => IsSyn (characterEscape true hn (x :: r)) := by
  unfold characterEscape charEscapeU controlEscape
  by_cases h1 : x = 0x66
  · subst h1; simp
  by_cases h2 : x = 0x6E
  · subst h2; simp
  by_cases h3 : x = 0x72
  · subst h3; simp
  by_cases h4 : x = 0x74
  · subst h4; simp
  by_cases h5 : x = 0x76
  · subst h5; simp
  simp only [h1, h2, h3, h4, h5, beq_iff_eq, if_false]
  by_cases h6 : x = 0x63
  · subst h6
    simp only [if_true]
    rcases r with _ | ⟨l, r'⟩
    · exact isSyn_synErr _
    · simp only [isAsciiAlpha_eq]
      by_cases hl : ESG.isAsciiLetter l = true
      · simp [hl]
      · simp only [hl, Bool.false_eq_true, if_false]; exact isSyn_synErr _
  simp only [h6, if_false]
  by_cases h7 : x = 0x30
  · subst h7
    rcases r with _ | ⟨d, r'⟩
    · simp
    · have hd : Parse.isAsciiDigit d = ESG.isDigit d := rfl
      simp only [hd]
      by_cases hdd : ESG.isDigit d = true
      · simp [hdd, Parse.isOctalDigit]; exact isSyn_synErr _
      · simp [hdd]
  have e7 : (x == 0x30) = false := by simp [h7]
  simp only [e7, Bool.false_and, Bool.false_eq_true, if_false, h7]
  by_cases h8 : x = 0x78
  · subst h8
    simp only [if_true]
    rcases r with _ | ⟨a, _ | ⟨b, r'⟩⟩
    · simp; exact isSyn_synErr _
    · simp only [hexDigit?_eq]
      by_cases ha : ESG.isHex a = true
      · simp [ha]; exact isSyn_synErr _
      · simp [ha]; exact isSyn_synErr _
    · simp only [hexDigit?_eq]
      by_cases ha : ESG.isHex a = true
      · by_cases hb : ESG.isHex b = true
        · simp [ha, hb]
        · simp [ha, hb]; exact isSyn_synErr _
      · simp [ha]; exact isSyn_synErr _
  simp only [h8, if_false]
  by_cases h9 : x = 0x75
  · subst h9
    simp only [if_true]
    rw [uEsc_sim r h]
    rcases tryEscapeUnicodeSequence r with ⟨_ | v, r'⟩
    · simp [optPair]; exact isSyn_synErr _
    · simp [optPair]
  simp only [h9, if_false]
  have e10 : (Parse.isOctalDigit x && !true) = false := by simp
  simp only [e10, Bool.false_eq_true, if_false]
  by_cases h11 : (ESG.isSyntaxChar x || x == 0x2F) = true
  · have : (x == 0x5E || x == 0x24 || x == 0x5C || x == 0x2E || x == 0x2A || x == 0x2B || x == 0x3F
        || x == 0x28 || x == 0x29 || x == 0x5B || x == 0x5D || x == 0x7B || x == 0x7D || x == 0x7C
        || x == 0x2F) = true := h11
    simp only [h11, this, if_true]
  · have : (x == 0x5E || x == 0x24 || x == 0x5C || x == 0x2E || x == 0x2A || x == 0x2B || x == 0x3F
        || x == 0x28 || x == 0x29 || x == 0x5B || x == 0x5D || x == 0x7B || x == 0x7D || x == 0x7C
        || x == 0x2F) = false := Bool.eq_false_iff.2 h11
    simp only [h11, this, Bool.false_eq_true, if_false]
    simp
    exact isSyn_synErr _

/-! ## What an escape consumes -/

theorem isHex_plain {c : Nat} (h : ESG.isHex c = true) : Plain c := by
  simp only [ESG.isHex, ESG.isDigit, Bool.or_eq_true, Bool.and_eq_true, decide_eq_true_eq] at h
  refine ⟨?_, ?_, ?_, ?_, ?_, ?_⟩ <;> omega

theorem hex4_neutral (F : Feat) (m : Nat) {s r : List Nat} {v : Nat} (h : hex4 s = some (v, r)) :
    ∃ t, s = t ++ r ∧ NeutralM F m t := by
  rcases s with _ | ⟨a, _ | ⟨b, _ | ⟨c, _ | ⟨d, r0⟩⟩⟩⟩ <;> simp only [hex4] at h <;> try cases h
  split at h
  · rename_i hh
    simp only [Bool.and_eq_true] at hh
    cases h
    refine ⟨[a, b, c, d], rfl, neutralM_plains F m ?_⟩
    intro x hx
    simp only [List.mem_cons, List.not_mem_nil, or_false] at hx
    rcases hx with rfl | rfl | rfl | rfl
    · exact isHex_plain hh.1.1.1
    · exact isHex_plain hh.1.1.2
    · exact isHex_plain hh.1.2
    · exact isHex_plain hh.2
  · cases h

theorem uEscapeU_neutral (F : Feat) (m : Nat) {s r : List Nat} {v : Nat} (h : uEscapeU s = some (v, r)) :
    ∃ t, s = t ++ r ∧ NeutralM F m t := by
  unfold uEscapeU at h
  split at h
  · rename_i r0
    rw [takeHex_eq] at h
    split at h
    · rename_i v' kk r' heq
      simp only [Prod.mk.injEq] at heq
      obtain ⟨-, -, hdw⟩ := heq
      split at h
      · cases h
        refine ⟨0x7B :: (r0.takeWhile ESG.isHex ++ [0x7D]), ?_, ?_⟩
        · have := tw_dw_split (p := ESG.isHex) r0
          rw [hdw] at this
          simp; exact this
        · apply neutralM_plains
          intro x hx
          simp only [List.mem_cons, List.mem_append, List.not_mem_nil, or_false] at hx
          rcases hx with rfl | hx | rfl
          · refine ⟨?_, ?_, ?_, ?_, ?_, ?_⟩ <;> decide
          · have := all_takeWhile (p := ESG.isHex) r0
            rw [List.all_eq_true] at this
            exact isHex_plain (this x hx)
          · refine ⟨?_, ?_, ?_, ?_, ?_, ?_⟩ <;> decide
      · cases h
    · cases h
  · split at h
    · cases h
    · rename_i a r1 h4
      obtain ⟨t1, e1, n1⟩ := hex4_neutral F m h4
      split at h
      · split at h
        · rename_i r2
          split at h
          · rename_i b r3 h4'
            obtain ⟨t2, e2, n2⟩ := hex4_neutral F m h4'
            split at h
            · simp only [Option.some.injEq, Prod.mk.injEq] at h
              obtain ⟨-, rfl⟩ := h
              refine ⟨t1 ++ ([0x5C, 0x75] ++ t2), ?_, ?_⟩
              · rw [e1, e2]; simp only [List.append_assoc, List.cons_append, List.nil_append]
              exact neutralM_append n1 (neutralM_append (neutralM_esc F m 0x75) n2)
            · cases h; exact ⟨t1, e1, n1⟩
          · cases h; exact ⟨t1, e1, n1⟩
        · cases h; exact ⟨t1, e1, n1⟩
      · cases h; exact ⟨t1, e1, n1⟩


theorem isAsciiLetter_plain {c : Nat} (h : ESG.isAsciiLetter c = true) : Plain c := by
  simp only [ESG.isAsciiLetter, Bool.or_eq_true, Bool.and_eq_true, decide_eq_true_eq] at h
  refine ⟨?_, ?_, ?_, ?_, ?_, ?_⟩ <;> omega

theorem charEscapeU_neutral (F : Feat) (m : Nat) {x : Nat} {r r' : List Nat} {v : Nat}
    (h : charEscapeU x r = some (v, r')) : ∃ t, r = t ++ r' ∧ NeutralM F m t := by
  unfold charEscapeU at h
  split at h
  · cases h; exact ⟨[], rfl, neutralM_nil F m⟩
  · split at h
    · split at h
      · rename_i l r1
        split at h
        · rename_i hl
          cases h
          exact ⟨[l], rfl, neutralM_plain F m (isAsciiLetter_plain hl)⟩
        · cases h
      · cases h
    · split at h
      · split at h
        · split at h
          · cases h
          · cases h; exact ⟨[], rfl, neutralM_nil F m⟩
        · cases h; exact ⟨[], rfl, neutralM_nil F m⟩
      · split at h
        · split at h
          · rename_i a b r1
            split at h
            · rename_i hh
              simp only [Bool.and_eq_true] at hh
              cases h
              refine ⟨[a, b], rfl, neutralM_plains F m ?_⟩
              intro y hy
              simp only [List.mem_cons, List.not_mem_nil, or_false] at hy
              rcases hy with rfl | rfl
              · exact isHex_plain hh.1
              · exact isHex_plain hh.2
            · cases h
          · cases h
        · split at h
          · exact uEscapeU_neutral F m h
          · split at h
            · cases h; exact ⟨[], rfl, neutralM_nil F m⟩
            · cases h

/-- What an `AtomEscape` of the fragment consumes. -/
theorem atomEscape_neutral (F : Feat) (m : Nat) (c : Cfg) (hcu : c.u = true) {x : Nat} {r r' : List Nat}
    {est est' : ESG.St} (hx : escOk false x = true) (hd : ¬ (0x31 ≤ x ∧ x ≤ 0x39))
    (h : atomEscape c (x :: r) est = .ok (r', est')) :
    est' = est ∧ ∃ t, r = t ++ r' ∧ NeutralM F m t := by
  simp only [escOk, Bool.not_eq_true', Bool.or_eq_false_iff, beq_eq_false_iff_ne,
    Bool.and_eq_false_iff, decide_eq_false_iff_not] at hx
  obtain ⟨⟨hp, hP⟩, hk'⟩ := hx
  have hk : x ≠ 0x6B := by
    rcases hk' with h | h
    · exact h
    · exact absurd h (by decide)
  unfold atomEscape at h
  simp only [hcu, if_true] at h
  split at h
  · cases h; exact ⟨rfl, [], rfl, neutralM_nil F m⟩
  · split at h
    · split at h
      · rename_i v r1 hce
        cases h
        exact ⟨rfl, charEscapeU_neutral F m hce⟩
      · cases h
    · split at h
      · rename_i h0 hdg
        exfalso
        simp only [ESG.isDigit, Bool.and_eq_true, decide_eq_true_eq] at hdg
        simp only [beq_iff_eq] at h0
        omega
      · have e1 : (x == 0x70 || x == 0x50) = false := by simp [hp, hP]
        have e2 : (x == 0x6B) = false := by simp [hk]
        simp only [e1, e2, Bool.false_eq_true, if_false] at h
        split at h
        · rename_i v r1 hce
          cases h
          exact ⟨rfl, charEscapeU_neutral F m hce⟩
        · cases h

/-! ## `AtomEscape` -/

theorem charNode_ok (fl : Flags) (c : Nat) : ∃ n, charNode fl c = .ok n := by
  have h := charNode_ens fl c
  unfold charNode at h ⊢
  split
  · exact ⟨_, rfl⟩
  · rename_i hi
    simp only [hi, Bool.false_eq_true, if_false] at h
    simp only at h ⊢
    generalize Fold.expandCodePoint c fl.icase fl.unicode = cls at h ⊢
    rcases cls with _ | ⟨a, _ | ⟨b, _ | ⟨c', _ | ⟨d, _ | ⟨e, t⟩⟩⟩⟩⟩ <;> simp_all [Ens, panicAt]

theorem atomEscape_eq_char (c : Cfg) (hcu : c.u = true) {x : Nat} (r : List Nat) (est : ESG.St)
    (hx : escOk false x = true) (hd : ¬ (0x31 ≤ x ∧ x ≤ 0x39)) (hcl : ESG.isClassEscLetter x = false) :
    atomEscape c (x :: r) est =
      match charEscapeU x r with
      | some (_, r') => .ok (r', est)
      | none => .bad := by
  simp only [escOk, Bool.not_eq_true', Bool.or_eq_false_iff, beq_eq_false_iff_ne,
    Bool.and_eq_false_iff, decide_eq_false_iff_not] at hx
  obtain ⟨⟨hp, hP⟩, hk'⟩ := hx
  have hk : x ≠ 0x6B := by
    rcases hk' with h | h
    · exact h
    · exact absurd h (by decide)
  unfold atomEscape
  simp only [hcl, hcu, Bool.false_eq_true, if_false, if_true]
  by_cases h0 : x = 0x30
  · subst h0; simp only [beq_self_eq_true, if_true]; rfl
  · have e0 : (x == 0x30) = false := by simp [h0]
    have e1 : ESG.isDigit x = false := by
      simp only [ESG.isDigit, Bool.and_eq_false_iff, decide_eq_false_iff_not]; omega
    have e2 : (x == 0x70 || x == 0x50) = false := by simp [hp, hP]
    have e3 : (x == 0x6B) = false := by simp [hk]
    simp only [e0, e1, e2, e3, Bool.false_eq_true, if_false]
    rfl

/-- `AtomEscape` (UnicodeMode, outside the excluded `\p \P \k \1…\9`): crate against grammar. -/
theorem atomEscape_sim (c : Cfg) (hcu : c.u = true) (st1 : PState) (hu : st1.flags.unicode = true)
    {x : Nat} {r : List Nat} (hin : st1.input = x :: r) (hx : escOk false x = true)
    (hd : ¬ (0x31 ≤ x ∧ x ≤ 0x39)) (hch : AllChar r) (est : ESG.St) :
    match atomEscape c (x :: r) est with
    | .ok (r', _) => ∃ nd, consumeAtomEscape st1 = .ok (nd, { st1 with input := r' })
    | .bad => IsSyn (consumeAtomEscape st1)
    | .fuel => False := by
  by_cases hcl : ESG.isClassEscLetter x = true
  · have : atomEscape c (x :: r) est = .ok (r, est) := by
      unfold atomEscape; simp [hcl]
    rw [this]
    simp only [ESG.isClassEscLetter, Bool.or_eq_true, beq_iff_eq] at hcl
    unfold consumeAtomEscape
    rw [hin]
    rcases hcl with ((((h | h) | h) | h) | h) | h <;> subst h <;> exact ⟨_, rfl⟩
  · have hcl' : ESG.isClassEscLetter x = false := by simpa using hcl
    rw [atomEscape_eq_char c hcu r est hx hd hcl']
    have hsim := charEsc_sim (!st1.named.isEmpty) x r hch
    have hx' := hx
    simp only [escOk, Bool.not_eq_true', Bool.or_eq_false_iff, beq_eq_false_iff_ne,
      Bool.and_eq_false_iff, decide_eq_false_iff_not] at hx'
    obtain ⟨⟨hp, hP⟩, hk'⟩ := hx'
    have hk : x ≠ 0x6B := by
      rcases hk' with h | h
      · exact h
      · exact absurd h (by decide)
    simp only [ESG.isClassEscLetter, Bool.or_eq_true, beq_iff_eq, not_or] at hcl
    obtain ⟨⟨⟨⟨⟨c1, c2⟩, c3⟩, c4⟩, c5⟩, c6⟩ := hcl
    have hce : consumeAtomEscape st1 =
        match characterEscape true (!st1.named.isEmpty) (x :: r) with
        | .error e => .error e
        | .ok (ch, rest') =>
          match charNode st1.flags ch with
          | .error e => .error e
          | .ok n => .ok (n, { st1 with input := rest' }) := by
      unfold consumeAtomEscape
      rw [hin]
      have d1 : (x == 0x64 || x == 0x44) = false := by simp [c1, c2]
      have d2 : (x == 0x73 || x == 0x53) = false := by simp [c3, c4]
      have d3 : (x == 0x77 || x == 0x57) = false := by simp [c5, c6]
      have d4 : (x == 0x70 || x == 0x50) = false := by simp [hp, hP]
      have d5 : (decide (0x31 ≤ x) && decide (x ≤ 0x39)) = false := by
        simp only [Bool.and_eq_false_iff, decide_eq_false_iff_not]; omega
      have d6 : (x == 0x6B) = false := by simp [hk]
      simp only [d1, d2, d3, d4, d5, d6, hu, Bool.false_and, Bool.false_eq_true, if_false]
      rfl
    rw [hce]
    cases hcu' : charEscapeU x r with
    | none =>
      rw [hcu'] at hsim
      obtain ⟨msg, hm⟩ := hsim
      simp only
      rw [hm]; exact ⟨msg, rfl⟩
    | some p =>
      obtain ⟨v, r'⟩ := p
      rw [hcu'] at hsim
      simp only at hsim ⊢
      rw [hsim]
      obtain ⟨nd, hnd⟩ := charNode_ok st1.flags v
      simp only [hnd]
      exact ⟨nd, rfl⟩

/-! ## Decimal escapes (back-references) -/

theorem isDigit_plain {c : Nat} (h : ESG.isDigit c = true) : Plain c := by
  have := dig_range h
  refine ⟨?_, ?_, ?_, ?_, ?_, ?_⟩ <;> omega

/-- `DecimalEscape`, grammar side: the number is recorded in `maxDec`. -/
theorem atomEscape_dec (c : Cfg) (hcu : c.u = true) {x : Nat} (r : List Nat) (hd : 0x31 ≤ x ∧ x ≤ 0x39)
    (est : ESG.St) :
    atomEscape c (x :: r) est = .ok ((takeDigits (x :: r) 0 0).2.2,
      { est with maxDec := max est.maxDec (takeDigits (x :: r) 0 0).1 }) := by
  have hcl : ESG.isClassEscLetter x = false := by
    simp only [ESG.isClassEscLetter, Bool.or_eq_false_iff, beq_eq_false_iff_ne]
    omega
  have h0 : (x == 0x30) = false := by simp; omega
  have hdg : ESG.isDigit x = true := by simp [ESG.isDigit]; omega
  unfold atomEscape
  simp only [hcl, hcu, h0, hdg, Bool.false_eq_true, if_false, if_true]

/-- `DecimalEscape`, crate side: accepted iff the (saturated) number is at most `group_count_max`. -/
theorem consumeAtomEscape_dec (st1 : PState) (hu : st1.flags.unicode = true) {x : Nat} {r : List Nat}
    (hin : st1.input = x :: r) (hd : 0x31 ≤ x ∧ x ≤ 0x39) :
    consumeAtomEscape st1 =
      if min (takeDigits (x :: r) 0 0).1 USIZE_MAX ≤ st1.groupCountMax then
        .ok (.backRef (min (takeDigits (x :: r) 0 0).1 USIZE_MAX) st1.flags.icase,
          { st1 with input := (takeDigits (x :: r) 0 0).2.2 })
      else synErr "Invalid character escape" := by
  have d1 : (x == 0x64 || x == 0x44) = false := by simp; omega
  have d2 : (x == 0x73 || x == 0x53) = false := by simp; omega
  have d3 : (x == 0x77 || x == 0x57) = false := by simp; omega
  have d4 : (x == 0x70 || x == 0x50) = false := by simp; omega
  have d5 : (decide (0x31 ≤ x) && decide (x ≤ 0x39)) = true := by simp; omega
  have hk : (takeDigits (x :: r) 0 0).2.1 > 0 := by
    rw [takeDigits_eq]
    have hdg : ESG.isDigit x = true := by simp [ESG.isDigit]; omega
    simp [List.takeWhile_cons_of_pos hdg]
  unfold consumeAtomEscape
  rw [hin]
  simp only [d1, d2, d3, d4, d5, hu, Bool.false_and, Bool.false_eq_true, if_false, Bool.and_self,
    if_true, decimalLiteral_eq, hk]

theorem dec_neutral (F : Feat) (m : Nat) {x : Nat} (r : List Nat) (hd : 0x31 ≤ x ∧ x ≤ 0x39) :
    ∃ p, 0x5C :: x :: r = p ++ (takeDigits (x :: r) 0 0).2.2 ∧ NeutralM F m p := by
  have hdg : ESG.isDigit x = true := by simp [ESG.isDigit]; omega
  obtain ⟨p, hp, hall⟩ := takeDigits_split r
  have e1 : (takeDigits (x :: r) 0 0).2.2 = (takeDigits r 0 0).2.2 := by
    rw [takeDigits_eq, takeDigits_eq]
    simp [List.dropWhile_cons_of_pos hdg]
  rw [e1]
  refine ⟨0x5C :: x :: p, by rw [List.cons_append, List.cons_append, ← hp], ?_⟩
  exact neutralM_append (p := [0x5C, x]) (neutralM_esc F m x)
    (neutralM_plains F m (fun c hc => isDigit_plain (hall c hc)))


/-! ## The largest decimal escape only grows (grammar side only) -/

/-- The recognizer's state only grows. -/
def Mono (c : Cfg) (n : Nat) : Prop :=
  (∀ s st r st', disj c n s st = .ok (r, st') → Grows st st') ∧
  (∀ s st r st', alt c n s st = .ok (r, st') → Grows st st') ∧
  (∀ s st r st', body c n s st = .ok (r, st') → Grows st st') ∧
  (∀ s st r st', term c n s st = .ok (r, st') → Grows st st') ∧
  (∀ s st r st', quantified c n s st = .ok (r, st') → Grows st st') ∧
  (∀ s st r st', atom c n s st = .ok (r, st') → Grows st st')

theorem grows_iff (a b : ESG.St) :
    Grows a b ↔ a.maxDec ≤ b.maxDec ∧ a.refs <:+ b.refs ∧ a.names <:+ b.names :=
  ⟨fun h => ⟨h.maxDec, h.refs, h.names⟩, fun h => ⟨h.1, h.2.1, h.2.2⟩⟩

theorem atomEscape_grows (c : Cfg) (s : List Nat) (st : ESG.St) (r : List Nat) (st' : ESG.St)
    (h : atomEscape c s st = .ok (r, st')) : Grows st st' := by
  rw [grows_iff]
  unfold atomEscape namedRef at h
  repeat' split at h
  all_goals grind [List.suffix_refl, List.suffix_cons]

theorem addName_grows (c : Cfg) (nm : List Nat) (st st' : ESG.St) (h : addName c nm st = some st') :
    st'.maxDec = st.maxDec ∧ st'.refs = st.refs ∧ st'.names = nm :: st.names ∧ st'.groups = st.groups ∧
      st'.scope = nm :: st.scope := by
  unfold addName at h
  cases hc : (if c.feat25 then st.scope.contains nm else st.names.contains nm) with
  | true => rw [hc] at h; simp at h
  | false =>
    rw [hc] at h
    simp only [Bool.false_eq_true, if_false, Option.some.injEq] at h
    subst h
    exact ⟨rfl, rfl, rfl, rfl, rfl⟩

theorem mono (c : Cfg) (n : Nat) : Mono c n := by
  induction n with
  | zero =>
    refine ⟨?_, ?_, ?_, ?_, ?_, ?_⟩ <;> intro s st r st' h
    · simp [disj] at h
    · simp [alt] at h
    · simp [body] at h
    · simp [term] at h
    · simp [quantified] at h
    · simp [atom] at h
  | succ n ih =>
    obtain ⟨ihD, ihA, ihB, ihT, ihQ, ihM⟩ := ih
    refine ⟨?_, ?_, ?_, ?_, ?_, ?_⟩
    · intro s st r st' h
      unfold disj at h
      split at h
      · rename_i r1 st1 ha
        have g1 := ihA _ _ _ _ ha
        split at h
        · rename_i r2 st2 hd
          cases h
          have g2 := ihD _ _ _ _ hd
          exact ⟨Nat.le_trans g1.maxDec g2.maxDec, g1.refs.trans g2.refs, g1.names.trans g2.names⟩
        · have g2 := ihD _ _ _ _ h
          exact ⟨Nat.le_trans g1.maxDec g2.maxDec, g1.refs.trans g2.refs, g1.names.trans g2.names⟩
      · exact ihA _ _ _ _ h
    · intro s st r st' h
      unfold alt at h
      split at h
      · cases h; exact Grows.refl _
      · cases h; exact Grows.refl _
      · cases h; exact Grows.refl _
      · split at h
        · rename_i r1 st1 ht
          exact (ihT _ _ _ _ ht).trans (ihA _ _ _ _ h)
        · exact ihT _ _ _ _ h
    · intro s st r st' h
      unfold body at h
      split at h
      · rename_i r1 st1 hd; cases h; exact ihD _ _ _ _ hd
      · cases h
      · exact ihD _ _ _ _ h
    · intro s st r st' h
      rw [grows_iff]
      unfold term at h
      repeat' split at h
      all_goals first
        | (cases h; exact ⟨Nat.le_refl _, List.suffix_refl _, List.suffix_refl _⟩)
        | (rw [← grows_iff]; exact ihB _ _ _ _ h)
        | (rw [← grows_iff]; exact ihQ _ _ _ _ h)
        | (cases h; rw [← grows_iff]; exact ihB _ _ _ _ ‹_›)
        | grind
    · intro s st r st' h
      unfold quantified at h
      split at h
      · rename_i r1 st1 ha
        split at h
        · cases h; exact ihM _ _ _ _ ha
        · cases h
        · cases h
      · exact ihM _ _ _ _ h
    · intro s st r st' h
      rw [grows_iff]
      unfold atom at h
      repeat' split at h
      all_goals first
        | (cases h; exact ⟨Nat.le_refl _, List.suffix_refl _, List.suffix_refl _⟩)
        | (rw [← grows_iff]; exact ihB _ _ _ _ h)
        | (rw [← grows_iff]; exact atomEscape_grows _ _ _ _ _ h)
        | (have hb := ihB _ _ _ _ h; exact ⟨hb.maxDec, hb.refs, hb.names⟩)
        | (have hb := ihB _ _ _ _ h
           have ha := addName_grows _ _ _ _ ‹_›
           refine ⟨?_, ?_, ?_⟩
           · have := hb.maxDec; rw [ha.1] at this; exact this
           · have := hb.refs; rw [ha.2.1] at this; exact this
           · have := hb.names; rw [ha.2.2.1] at this; exact (List.suffix_cons _ _).trans this)
        | grind

/-! ## Property escapes as atoms -/

theorem atomEscape_p (c : Cfg) (hcu : c.u = true) {x : Nat} (hx : x = 0x70 ∨ x = 0x50) (r : List Nat)
    (est : ESG.St) :
    atomEscape c (x :: r) est =
      match propEscape c (x == 0x50) r with
      | .ok (r', _) => .ok (r', est)
      | .bad => .bad
      | .fuel => .fuel := by
  unfold atomEscape
  rcases hx with rfl | rfl <;> simp [hcu, ESG.isClassEscLetter, ESG.isDigit] <;> rfl

/-- `\p{…}` / `\P{…}` outside a class, UnicodeMode. -/
theorem atomEscape_p_sim (c : Cfg) (hct : c.t = tabs) (hcu : c.u = true) (st1 : PState)
    (hu : st1.flags.unicode = true) (hv : st1.flags.unicodeSets = c.v) {x : Nat} {r : List Nat}
    (hx : x = 0x70 ∨ x = 0x50) (hin : st1.input = x :: r) (est : ESG.St) :
    match atomEscape c (x :: r) est with
    | .ok (r', est') => est' = est ∧ (∃ nd, consumeAtomEscape st1 = .ok (nd, { st1 with input := r' })) ∧
        ∃ q, r = q ++ r' ∧ ∀ y ∈ q, Plain y
    | .bad => IsSyn (consumeAtomEscape st1)
    | .fuel => False := by
  have hce : consumeAtomEscape st1 =
      match propertyEscape st1.flags.unicodeSets r with
      | .error e => .error e
      | .ok (.charClass cps, rest') =>
        if st1.flags.icase then
          .ok (mkBracket false
            (if (x == 0x50) && st1.flags.unicodeSets then CPS.inverted (Fold.addIcaseCodePoints cps)
             else if (x == 0x50) then Fold.addIcaseCodePoints (CPS.inverted cps)
             else Fold.addIcaseCodePoints cps), { st1 with input := rest' })
        else .ok (mkBracket (x == 0x50) cps, { st1 with input := rest' })
      | .ok (.stringSet strs, rest') =>
        if (x == 0x50) then synErr "Invalid character escape"
        else .ok (.stringSet strs st1.flags.icase, { st1 with input := rest' }) := by
    unfold consumeAtomEscape
    rw [hin]
    rcases hx with rfl | rfl <;> simp [hu] <;> rfl
  rw [atomEscape_p c hcu hx r est, hce, hv]
  have hs := prop_sim c hct (x == 0x50) r
  cases hpe : propEscape c (x == 0x50) r with
  | fuel => rw [hpe] at hs; exact hs
  | bad =>
    rw [hpe] at hs
    simp only
    rcases hs with ⟨msg, hm⟩ | ⟨hneg, _, strs, r', hm⟩
    · rw [hm]; exact ⟨msg, rfl⟩
    · rw [hm]; simp only [hneg, if_true]; exact isSyn_synErr _
  | ok p =>
    obtain ⟨r', ms⟩ := p
    rw [hpe] at hs
    obtain ⟨hpfx, hs⟩ := hs
    simp only
    cases ms with
    | true =>
      simp only [if_true] at hs
      obtain ⟨hneg, _, strs, hm⟩ := hs
      rw [hm]
      simp only [hneg, Bool.false_eq_true, if_false]
      exact ⟨trivial, ⟨_, rfl⟩, hpfx⟩
    | false =>
      simp only [Bool.false_eq_true, if_false] at hs
      obtain ⟨ivs, hm⟩ := hs
      rw [hm]
      simp only
      refine ⟨trivial, ?_, hpfx⟩
      cases st1.flags.icase
      · exact ⟨_, rfl⟩
      · exact ⟨_, rfl⟩

end Regress.C08Frag
