import Proofs.Lemmas.ClosureEnv
import Proofs.C20
/-!
# Closure, part 4: the `SearchCtx` of the modelled engine satisfies `C20.CtxOK`

`ctxOf env k v` is the context the `Pattern` searcher (C20) sees when the regex engine is the
iteration protocol `nextMatch env k` (`find_from(h, p).next()` = `Matches::new(p).next()`), the char
boundaries are `v` and `h[e..].chars().next()` moves by `env.nextRightPos`.

* `ctxOK_of_envOKOn` — `EnvOKOn v env`, an idempotent prefix search, `v 0`, `v len` ⟹ `CtxOK`.
  Restart consistency comes from determinism: `next_match(p)` returns the match `[s, e)` because the
  attempt at `s` returned `e`; started again at `s`, the prefix search stays at `s`
  (`findBytes_idem`) and the same attempt is made.
* `isIter_collect` — C20's specification `IsIter` of the match iterator is satisfied by the drained
  iterator `collectK`: so "the matches of `find_iter`" in `forward_tiles` are `collectK env k 0`.
* `findBytesPred_idem` — the byte scans of `VM.findBytesPred` are idempotent.
-/
namespace Regress.Closure
open Regress.Api Regress.C09 Regress.C20 Regress.VM

/-- The searcher's view of an engine given by the iteration protocol. -/
def ctxOf (env : SearchEnv) (k : Kind) (v : Nat → Bool) : SearchCtx :=
  { len := env.len
    findFrom := fun p =>
      match initialPosition env p with
      | none => none
      | some c => (nextMatch env k c).map (fun r => r.1.range)
    isBoundary := v
    nextBoundary := env.nextRightPos }

variable {v : Nat → Bool} {env : SearchEnv}

theorem ctxOf_findFrom (k : Kind) {p : Nat} (hp : p ≤ env.len) :
    (ctxOf env k v).findFrom p = (nextMatch env k p).map (fun r => r.1.range) := by
  simp only [ctxOf]
  rw [initialPosition_eq]
  simp [hp]

/-- Started at the start of a match it has found, `next_match` finds the same match again. -/
theorem nextMatch_restart (h : EnvOKOn v env)
    (hidem : ∀ p q, v p = true → env.findBytes p = some q → env.findBytes q = some q)
    (k : Kind) {p : Nat} (hp : v p = true) {m : MatchR} {ns : Option Nat}
    (hm : nextMatch env k p = some (m, ns)) :
    (nextMatch env k m.range.1).map (fun r => r.1.range) = some m.range := by
  have hcl := nextMatch_closed h k hp hm
  have hatt := hcl.2.2.2.2.1
  have one : (match env.attempt m.range.1 with
      | some (e, caps) => some (env.successfulMatch m.range.1 e caps, env.nextStart m.range.1 e)
      | none => none).map (fun (r : MatchR × Option Nat) => r.1.range) = some m.range := by
    rw [hatt]; simp [SearchEnv.successfulMatch]
  cases k with
  | btAnchored => exact one
  | pike a =>
    cases a with
    | true => exact one
    | false =>
      simp only [nextMatch, pikeNextMatch, Bool.false_eq_true, if_false]
      show (pikeNextMatchStdFuel env (env.len + 1 + 1) m.range.1).map _ = _
      simp only [pikeNextMatchStdFuel, hatt]
      simp [SearchEnv.successfulMatch]
  | btPrefix =>
    -- the start of the match is a fixed point of the prefix search
    have hfix : env.findBytes m.range.1 = some m.range.1 := by
      have gen : ∀ fuel p, v p = true → nextMatchPrefixFuel env fuel p = some (m, ns) →
          env.findBytes m.range.1 = some m.range.1 := by
        intro fuel
        induction fuel with
        | zero => intro p _ h0; simp [nextMatchPrefixFuel] at h0
        | succ f ih =>
          intro p hvp h0
          simp only [nextMatchPrefixFuel] at h0
          split at h0
          · cases h0
          · next q hq =>
            have hvq := (h.find_range p q hvp hq).2
            split at h0
            · next e caps he =>
              simp only [Option.some.injEq, Prod.mk.injEq] at h0
              have : m.range.1 = q := by rw [← h0.1]; rfl
              rw [this]
              exact hidem p q hvp hq
            · split at h0
              · cases h0
              · next q' hq' => exact ih q' (h.next_gt q q' hvq hq').2 h0
      exact gen _ p hp hm
    show (nextMatchPrefixFuel env (env.len + 1 + 1) m.range.1).map _ = _
    simp only [nextMatchPrefixFuel, hfix, hatt]
    simp [SearchEnv.successfulMatch]

/-- **`CtxOK` from `EnvOKOn`.** -/
theorem ctxOK_of_envOKOn (h : EnvOKOn v env)
    (hidem : ∀ p q, v p = true → env.findBytes p = some q → env.findBytes q = some q)
    (k : Kind) (h0 : v 0 = true) (hlen : v env.len = true) : CtxOK (ctxOf env k v) where
  find_range := by
    intro p s e hp hb hf
    rw [ctxOf_findFrom k hp] at hf
    cases hm : nextMatch env k p with
    | none => rw [hm] at hf; cases hf
    | some mn =>
      obtain ⟨m, ns⟩ := mn
      rw [hm] at hf
      simp only [Option.map_some, Option.some.injEq] at hf
      have hcl := nextMatch_closed h k hb hm
      rw [hf] at hcl
      exact ⟨hcl.1, hcl.2.1, h.v_le _ hcl.2.2.2.1⟩
  find_boundary := by
    intro p s e hp hb hf
    rw [ctxOf_findFrom k hp] at hf
    cases hm : nextMatch env k p with
    | none => rw [hm] at hf; cases hf
    | some mn =>
      obtain ⟨m, ns⟩ := mn
      rw [hm] at hf
      simp only [Option.map_some, Option.some.injEq] at hf
      have hcl := nextMatch_closed h k hb hm
      rw [hf] at hcl
      exact ⟨hcl.2.2.1, hcl.2.2.2.1⟩
  find_restart := by
    intro p s e hp hb hf
    rw [ctxOf_findFrom k hp] at hf
    cases hm : nextMatch env k p with
    | none => rw [hm] at hf; cases hf
    | some mn =>
      obtain ⟨m, ns⟩ := mn
      rw [hm] at hf
      simp only [Option.map_some, Option.some.injEq] at hf
      have hcl := nextMatch_closed h k hb hm
      have hr := nextMatch_restart h hidem k hb hm
      rw [hf] at hr hcl
      rw [ctxOf_findFrom k (h.v_le _ hcl.2.2.1)]
      exact hr
  boundary_zero := h0
  boundary_len := hlen
  next_boundary := by
    intro e q _ hb hq
    have := h.next_gt e q hb hq
    exact ⟨this.1, h.v_le _ this.2, this.2⟩

/-! ## C20's iterator specification is `collectK` -/

theorem collect_some_eq_on (h : EnvOKOn v env) (k : Kind) {c : Nat} (hc : v c = true) :
    Matches.collect env k ⟨some c⟩ =
      match nextMatch env k c with
      | none => []
      | some (m, ns) => m :: Matches.collect env k ⟨ns⟩ := by
  have hlen : (restrictEnv v env).len = env.len := rfl
  have e1 : Matches.collect env k ⟨some c⟩ = Matches.collect (restrictEnv v env) k ⟨some c⟩ := by
    unfold Matches.collect; rw [hlen]; exact (restrict_collectFuel h k _ c hc).symm
  rw [e1, collect_some_eq (restrict_ok h) k (h.v_le c hc), nextMatch_restrict h k hc]
  cases hm : nextMatch env k c with
  | none => rfl
  | some mn =>
    obtain ⟨m, ns⟩ := mn
    simp only
    cases ns with
    | none => unfold Matches.collect; rw [collectFuel_none, collectFuel_none]
    | some c' =>
      have hv := (nextMatch_closed h k hc hm).2.2.2.2.2.2.2 c' rfl
      unfold Matches.collect; rw [hlen, restrict_collectFuel h k _ c' hv]

theorem isIterO_collect (h : EnvOKOn v env) (k : Kind) : ∀ n c, v c = true → env.len + 1 - c ≤ n →
    IsIterO (ctxOf env k v) (some c) ((Matches.collect env k ⟨some c⟩).map (·.range)) := by
  intro n
  induction n with
  | zero => intro c hc hn; have := h.v_le c hc; omega
  | succ n ih =>
    intro c hc hn
    have hle := h.v_le c hc
    rw [collect_some_eq_on h k hc]
    cases hm : nextMatch env k c with
    | none =>
      simp only [List.map_nil, IsIterO]
      rw [ctxOf_findFrom k hle, hm]; rfl
    | some mn =>
      obtain ⟨m, ns⟩ := mn
      simp only [List.map_cons, IsIterO]
      refine ⟨by rw [ctxOf_findFrom k hle, hm]; rfl, ?_⟩
      have hcl := nextMatch_closed h k hc hm
      have hadv : C20.advance (ctxOf env k v) m.range = ns := by
        rw [hcl.2.2.2.2.2.2.1]
        unfold C20.advance SearchEnv.nextStart
        by_cases he : m.range.2 = m.range.1
        · simp [he, ctxOf]
        · have : (m.range.1 != m.range.2) = true := by simp; exact fun h => he h.symm
          simp [this, he]
      rw [hadv]
      cases hns : ns with
      | none =>
        have : Matches.collect env k ⟨none⟩ = [] := by unfold Matches.collect; exact collectFuel_none _ _
        rw [this]; trivial
      | some c' =>
        have hv := hcl.2.2.2.2.2.2.2 c' hns
        have hgt : c < c' := by
          have hs := hcl.2.2.2.2.2.2.1
          rw [hns] at hs
          unfold SearchEnv.nextStart at hs
          split at hs
          · simp only [Option.some.injEq] at hs
            have := hcl.1; have := hcl.2.1; omega
          · have := (h.next_gt _ _ hcl.2.2.2.1 hs.symm).1
            have := hcl.1; have := hcl.2.1; omega
        exact ih c' hv (by omega)

/-- **The iterator of C20's contract is the drained iterator of C09.** -/
theorem isIter_collect (h : EnvOKOn v env) (k : Kind) {start : Nat} (hs : v start = true) :
    IsIter (ctxOf env k v) start ((collectK env k start).map (·.range)) := by
  have : collectK env k start = Matches.collect env k ⟨some start⟩ := by
    unfold collectK Matches.new
    rw [initialPosition_eq]; simp [h.v_le _ hs]
  rw [this]
  exact isIterO_collect h k _ start hs (Nat.le_refl _)

/-! ## The byte scans are idempotent -/

theorem findFirst_idem (bytes : Array Nat) (p : Nat → Bool) {fuel i q : Nat}
    (hf : bytes.size - i ≤ fuel) (h : findFirst bytes p fuel i = some q) :
    findFirst bytes p (bytes.size - q) q = some q := by
  have := C04.findFirst_spec bytes p fuel i hf
  rw [h] at this
  obtain ⟨_, hlt, ⟨b, hb, hpb⟩, _⟩ := this
  obtain ⟨n, hn⟩ : ∃ n, bytes.size - q = n + 1 := ⟨bytes.size - q - 1, by omega⟩
  rw [hn]
  simp [findFirst, hb, hpb]

theorem findSeq_hit (bytes : Array Nat) (needle : List Nat) : ∀ fuel i q,
    findSeq bytes needle fuel i = some q →
      ¬ (q + needle.length > bytes.size) ∧ (Utf8.slice bytes q (q + needle.length) == needle) = true := by
  intro fuel
  induction fuel with
  | zero => intro i q h; simp [findSeq] at h
  | succ n ih =>
    intro i q h
    simp only [findSeq] at h
    split at h
    · cases h
    · next h1 =>
      split at h
      · next h2 => cases h; exact ⟨h1, h2⟩
      · exact ih _ _ h

theorem findBytesPred_idem (sp : StartPred) (bytes : Array Nat) {p q : Nat}
    (h : findBytesPred sp bytes p = some q) : findBytesPred sp bytes q = some q := by
  unfold findBytesPred at h ⊢
  split at h
  · rfl
  · rfl
  · exact findFirst_idem bytes _ (Nat.le_refl _) h
  · have := findSeq_hit _ _ _ _ _ h
    simp only [findSeq, this.1, if_false, this.2, if_true]

end Regress.Closure
